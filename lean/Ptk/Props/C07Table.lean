/-
  C07 — the regenerated binding table (`Ptk.Gen.C07`, written by harness/gen_c07.py from the real
  `Binding` objects of the current tree on every run) and what follows from it.

  * `tableWF` is a DECIDABLE condition on a table of (handler, keys, save_before bits, kind) rows;
    the session theorems below hold for EVERY table that satisfies it and every session whose commands
    are drawn from it (handler bodies stay parameters; only the kind of a body — edit / undo / redo —
    must fit the row), and `gen_ok` re-decides it on the regenerated table.
  * `gen_sites_ok` pins the functions of src/prompt_toolkit that touch the stacks or call
    undo / redo / save_to_undo_stack (the reason why every other handler body is an `edit`).
  * `gen_groups_ok` / `gen_undo_keys_ok`: which bindings must be grouped, which must never save.
  * hypothesis-free instances for the fully modelled emacs and Vi key sets (their rules are looked up
    in the table, not hard-coded).
-/
import Ptk.Props.C07RO
namespace Ptk.C07
open Ptk.Py
open Ptk.Gen.C07 (Row)

/-! ## 1. Well-formed binding tables -/

def cprKeys : String := "<cursor-position-response>"

/-- a row is acceptable when
    * kind 0 (the handler does not call undo / redo / save_to_undo_stack): it snapshots at least when it is
      not a repeat — except the CPR binding, which never reaches `_call_handler`;
    * kind 1 / 2 (the handler calls `Buffer.undo()` / `redo()`): it NEVER snapshots (a snapshot would clear
      the redo stack before every undo step). -/
def rowOK (r : Row) : Bool :=
  if r.kind = 0 then r.r0 || r.keys == cprKeys
  else if r.kind = 1 ∨ r.kind = 2 then !r.r0 && !r.r1
  else true

def tableWF (t : List Row) : Bool := t.all rowOK

/-- the body of a command fits the row of its binding -/
def fits (r : Row) : Body → Prop
  | .edit _ => r.kind = 0
  | .undo _ post => r.kind = 1 ∧ ∀ x, (post x).text = x.text
  | .roUndo fx post => r.kind = 1 ∧ fx = true ∧ ∀ x, (post x).text = x.text
  | .redo post => r.kind = 2 ∧ ∀ x, (post x).text = x.text
  | .roRedo fx => r.kind = 2 ∧ fx = true
  | .save _ => r.kind = 3
  | .reset _ => False

/-- a session over the table `t`: `rowOf h` is the row of the Binding object with identity `h`; every
    command uses the rule bits of its row and a body that fits it; CPR responses are `Item.cpr`. -/
structure TableSession (t : List Row) (rowOf : Nat → Row) (items : List Item) : Prop where
  mem : ∀ c, Item.cmd c ∈ items → rowOf c.h ∈ t
  notCpr : ∀ c, Item.cmd c ∈ items → (rowOf c.h).keys ≠ cprKeys
  rule : ∀ c, Item.cmd c ∈ items → c.rule = rowRule (rowOf c.h)
  fits : ∀ c, Item.cmd c ∈ items → fits (rowOf c.h) c.body

theorem rowOK_of_mem {t : List Row} (h : tableWF t = true) {r : Row} (hr : r ∈ t) : rowOK r = true := by
  unfold tableWF at h
  exact List.all_eq_true.mp h r hr

/-- **table_wf.**  A session over a well-formed table is a well-formed session. -/
theorem table_wf (t : List Row) (ht : tableWF t = true) (rowOf : Nat → Row) (items : List Item)
    (hs : TableSession t rowOf items) : WF (fun h => (rowOf h).kind == 0) items where
  saves := by
    intro c hc hk
    have hok := rowOK_of_mem ht (hs.mem c hc)
    have hk0 : (rowOf c.h).kind = 0 := by simpa using hk
    have hnc := hs.notCpr c hc
    rw [hs.rule c hc]
    unfold rowOK at hok
    rw [if_pos hk0] at hok
    simp only [rowRule, Bool.false_eq_true, if_false]
    rcases Bool.or_eq_true _ _ |>.mp hok with h | h
    · exact h
    · exact absurd (by simpa using h) hnc
  kind := by
    intro c hc
    have hf := hs.fits c hc
    cases hb : c.body <;> rw [hb] at hf <;> simp only [fits] at hf <;> simp [Body.isEdit, hf]
  post := by
    intro c hc
    have hf := hs.fits c hc
    cases hb : c.body <;> rw [hb] at hf <;> simp only [fits] at hf <;> simp only [Body.PostKeepsText]
    · exact hf.2
    · exact hf.2
    · exact hf.2.2
  noReset := by
    intro c hc
    have hf := hs.fits c hc
    cases hb : c.body <;> rw [hb] at hf <;> simp only [fits] at hf <;> rfl
  roFixed := by
    intro c hc
    have hf := hs.fits c hc
    cases hb : c.body <;> rw [hb] at hf <;> simp only [fits] at hf <;> simp only [Body.RoFixed]
    · exact hf.2.1
    · exact hf.2

/-- **table_undo_reaches_initial.**  For EVERY well-formed binding table, every assignment of rows to
    Binding objects, every session over it (any handler bodies of the right kind, raising handlers,
    `KeyProcessor.reset()`, CPR responses, covered external edits) from every initial document: undoing
    as often as the stack is high ends on the text the session started with. -/
theorem table_undo_reaches_initial (t : List Row) (ht : tableWF t = true) (rowOf : Nat → Row)
    (items : List Item) (hs : TableSession t rowOf items) (b0 : Buf) (hext : ExtOK items (kInit b0))
    (n : Nat) (hn : (runI items (kInit b0)).st.undo.length ≤ n) :
    (undoN n (runI items (kInit b0)).st).buf.text = b0.text :=
  (undo_reaches_initial _ items b0 (table_wf t ht rowOf items hs) hext n hn).1

/-- **table_edit_discards_redo.**  … and right after every command of a kind-0 binding that did not raise,
    the redo stack is empty. -/
theorem table_edit_discards_redo (t : List Row) (ht : tableWF t = true) (rowOf : Nat → Row)
    (items : List Item) (c : Cmd) (hs : TableSession t rowOf (items ++ [.cmd c])) (b0 : Buf)
    (hext : ExtOK (items ++ [.cmd c]) (kInit b0)) (hc : c.body.isEdit = true) (ho : c.out ≠ .raised) :
    (runI (items ++ [.cmd c]) (kInit b0)).st.redo = [] :=
  edit_discards_redo _ items c b0 (table_wf t ht rowOf _ hs) hext hc ho

/-- **table_undo_binding_never_saves.**  In a session over a well-formed table the command boundary of an
    undo / redo binding takes no snapshot: buffer and BOTH stacks reach the handler untouched (so an undo
    key never discards the redo history). -/
theorem table_undo_binding_never_saves (t : List Row) (ht : tableWF t = true) (r : Row) (hr : r ∈ t)
    (hk : r.kind = 1 ∨ r.kind = 2) (h : Nat) (k : KSt) : boundary (rowRule r) h k = k.st := by
  have hok := rowOK_of_mem ht hr
  unfold rowOK at hok
  have h0 : ¬ r.kind = 0 := by omega
  rw [if_neg h0, if_pos hk] at hok
  have h1 : r.r0 = false ∧ r.r1 = false := by simpa using hok
  unfold boundary rowRule
  split <;> simp [h1.1, h1.2]

/-! ## 2. Undo commands followed by redo -/

/-- one undo command (one `Buffer.undo()`, then a cursor post-processing) that takes no snapshot -/
def isUndoCmd (c : Cmd) : Prop :=
  c.rule false = false ∧ c.rule true = false ∧ ∃ post, c.body = .undo 1 post

/-- every command of the chain restores something -/
def CmdsChange : List Cmd → KSt → Prop
  | [], _ => True
  | c :: cs, k => undoLoop k.st.buf k.st.undo ≠ none ∧ CmdsChange cs (stepK k c)

/-- **undo_cmd_then_redo_exact.**  Redo immediately after an undo COMMAND (boundary, `Buffer.undo()`,
    cursor fix) restores text AND cursor exactly as they were before the command, and leaves the redo stack
    as it was. -/
theorem undo_cmd_then_redo_exact (c : Cmd) (hc : isUndoCmd c) (k : KSt)
    (hch : undoLoop k.st.buf k.st.undo ≠ none) :
    (redo (stepK k c).st).buf = k.st.buf ∧ (redo (stepK k c).st).redo = k.st.redo := by
  obtain ⟨h0, h1, post, hb⟩ := hc
  have hbd : boundary c.rule c.h k = k.st := by
    unfold boundary; split
    · rename_i hh; cases hd : decide (k.prev = some c.h) <;> rw [hd] at hh <;> simp [h0, h1] at hh
    · rfl
  rw [stepK_eq, hb, hbd]
  cases hl : undoLoop k.st.buf k.st.undo with
  | none => exact absurd hl hch
  | some p =>
    obtain ⟨t, rest⟩ := p
    simp [Body.run, undoN, undo_some hl, redo]

/-- **undo_chain_then_redos_exact.**  ANY chain of undo commands (any mix of bindings: C-_, C-x C-u, Vi `u`;
    none of them snapshots) that each restored something, followed by as many `Buffer.redo()` calls,
    brings back exactly the (text, cursor) and the redo stack from before the first undo. -/
theorem undo_chain_then_redos_exact (cs : List Cmd) (hcs : ∀ c ∈ cs, isUndoCmd c) (k : KSt)
    (hch : CmdsChange cs k) :
    (redoN cs.length (runK cs k).st).buf = k.st.buf ∧ (redoN cs.length (runK cs k).st).redo = k.st.redo := by
  induction cs generalizing k with
  | nil => exact ⟨rfl, rfl⟩
  | cons c cs ih =>
    obtain ⟨h1, h2⟩ := hch
    obtain ⟨ihb, ihr⟩ := ih (fun c' hc' => hcs c' (List.mem_cons_of_mem _ hc')) (stepK k c) h2
    have hc := redo_congr ihb ihr
    have hu := undo_cmd_then_redo_exact c (hcs c (by simp)) k h1
    show (redo (redoN cs.length (runK cs (stepK k c)).st)).buf = k.st.buf ∧
      (redo (redoN cs.length (runK cs (stepK k c)).st)).redo = k.st.redo
    exact ⟨hc.1.trans hu.1, hc.2.trans hu.2⟩

/-- **saving_undo_binding_breaks_redo** (why kind-1 rows must have bits (0, 0)): were an undo binding to
    snapshot like a default binding, two undo steps through it could no longer be redone — the second
    redo finds an empty redo stack. -/
theorem saving_undo_binding_breaks_redo :
    let k0 : KSt := { st := { buf := { text := ['a', 'b'], cur := 2 },
                              undo := [{ text := ['a'], cur := 1 }, { text := [], cur := 0 }], redo := [] },
                      prev := some 0 }
    let bad : Cmd := { h := 9, rule := fun _ => true, body := .undo 1 id }
    let good : Cmd := { h := 9, rule := fun _ => false, body := .undo 1 id }
    (redoN 2 (runK [bad, bad] k0).st).buf ≠ k0.st.buf ∧ (redoN 2 (runK [good, good] k0).st).buf = k0.st.buf := by
  decide

/-! ## 3. The regenerated table, the site pins -/

/-- **gen_ok.**  The table regenerated from the real `Binding` objects of the current tree is well-formed. -/
theorem gen_ok : tableWF Gen.C07.table = true := by decide +kernel

/-- the rows of binding `(name, keys)` exist and all have the bits `(r0, r1)` and the kind `kind` -/
def rowsAre (t : List Row) (name keys : String) (r0 r1 : Bool) (kind : Nat) : Bool :=
  t.any (fun r => r.name == name && r.keys == keys) &&
  t.all (fun r => !(r.name == name && r.keys == keys) || (r.r0 == r0 && r.r1 == r1 && r.kind == kind))

/-- **gen_groups_ok.**  Which runs the code groups, read from the regenerated bits: character insertion
    (`self-insert` on `Keys.Any`), Backspace (`backward-delete-char` on `c-h` = backspace), Delete
    (`delete-char` on `delete`) and character insertion at several cursors (`_insert_text_multiple_cursors` on
    `Keys.Any` in Vi multiple-cursor insert mode: c-v, motion, I / A) snapshot when they are NOT a repeat and
    do not when they are. -/
theorem gen_groups_ok :
    rowsAre Gen.C07.table "named_commands.self_insert" "<any>" true false 0 = true ∧
    rowsAre Gen.C07.table "named_commands.backward_delete_char" "c-h" true false 0 = true ∧
    rowsAre Gen.C07.table "named_commands.delete_char" "delete" true false 0 = true ∧
    rowsAre Gen.C07.table "vi.load_vi_bindings._insert_text_multiple_cursors" "<any>" true false 0 = true := by
  decide +kernel

/-- **gen_undo_keys_ok.**  The undo keys named by the property exist, their handlers call `Buffer.undo()`,
    and they never snapshot. -/
theorem gen_undo_keys_ok :
    rowsAre Gen.C07.table "named_commands.undo" "c-_" false false 1 = true ∧
    rowsAre Gen.C07.table "named_commands.undo" "c-x+c-u" false false 1 = true ∧
    rowsAre Gen.C07.table "vi.load_vi_bindings._undo" "u" false false 1 = true := by
  decide +kernel

/-- **gen_sites_ok** (pin).  The only functions of src/prompt_toolkit that mention `_undo_stack` /
    `_redo_stack` are `Buffer.reset / save_to_undo_stack / undo / redo`, and the only call sites of
    `.undo()` / `.redo()` / `.save_to_undo_stack()` are the two undo handlers, `Buffer.redo` and
    `KeyProcessor._call_handler` — exactly the operations of the model; every other handler body can
    only be an `edit`. -/
theorem gen_sites_ok :
    Gen.C07.stackSites =
      ["buffer.py:Buffer.redo:_redo_stack", "buffer.py:Buffer.reset:_redo_stack",
       "buffer.py:Buffer.reset:_undo_stack", "buffer.py:Buffer.save_to_undo_stack:_redo_stack",
       "buffer.py:Buffer.save_to_undo_stack:_undo_stack", "buffer.py:Buffer.undo:_redo_stack",
       "buffer.py:Buffer.undo:_undo_stack"] ∧
    Gen.C07.callSites =
      ["buffer.py:Buffer.redo:save_to_undo_stack", "key_binding/bindings/named_commands.py:undo:undo",
       "key_binding/bindings/vi.py:load_vi_bindings._undo:undo",
       "key_binding/key_processor.py:KeyProcessor._call_handler:save_to_undo_stack"] := by
  decide +kernel

/-- **gen_keyRows_ok.**  Every entry of `Gen.C07.keyRows` (where the modelled key sets look their rules up) is
    the row of the regenerated table at the stated index. -/
theorem gen_keyRows_ok :
    Gen.C07.keyRows.all (fun p => Gen.C07.table[p.1]? == some p.2) = true := by decide +kernel

/-! ### the everyday statements with the shipped rules -/

theorem selfInsert_bits : ruleOf "named_commands.self_insert" "<any>" false = true ∧
    ruleOf "named_commands.self_insert" "<any>" true = false := by decide +kernel

theorem backspace_bits : ruleOf "named_commands.backward_delete_char" "c-h" false = true ∧
    ruleOf "named_commands.backward_delete_char" "c-h" true = false := by decide +kernel

theorem delete_bits : ruleOf "named_commands.delete_char" "delete" false = true ∧
    ruleOf "named_commands.delete_char" "delete" true = false := by decide +kernel

theorem multicursor_bits : ruleOf "vi.load_vi_bindings._insert_text_multiple_cursors" "<any>" false = true ∧
    ruleOf "vi.load_vi_bindings._insert_text_multiple_cursors" "<any>" true = false := by decide +kernel

/-- **shipped_multicursor_typing_then_undo.**  Vi multiple-cursor insert mode (`c-v`, motion, `I` / `A`): with the
    rule of the shipped `_insert_text_multiple_cursors` binding, after anything that was not that binding, type
    ANY non-empty sequence of characters (each call inserts its character at every cursor: the text gets
    longer), then ANY number of text-preserving commands (Left / Right, Escape, a CPR is no command at all): ONE
    undo restores exactly the text and cursor from before the first character. -/
theorem shipped_multicursor_typing_then_undo (h : Nat) (k0 : KSt) (hp : k0.prev ≠ some h) (f : Buf → Buf)
    (fs : List (Buf → Buf)) (hgrow : ∀ g ∈ f :: fs, ∀ b, b.text.length < (g b).text.length)
    (ms : List (Nat × (Bool → Bool) × (Buf → Buf))) (hms : ∀ m ∈ ms, ∀ b, (m.2.2 b).text = b.text) :
    (undo (runKeep ms (runSame h (ruleOf "vi.load_vi_bindings._insert_text_multiple_cursors" "<any>")
      (f :: fs) k0)).st).buf = k0.st.buf :=
  group_then_motions_then_undo h _ multicursor_bits.1 multicursor_bits.2 k0 hp f fs ms hms
    (runSame_grows_text_ne h _ k0 f fs hgrow)

/-- **shipped_multicursor_two_runs.**  … and two such runs split by text-preserving commands (x y, Left, z): the
    first undo restores the exact state before the second run, the second undo the state before the first. -/
theorem shipped_multicursor_two_runs (h : Nat) (k0 : KSt) (hp : k0.prev ≠ some h) (f : Buf → Buf)
    (fs : List (Buf → Buf)) (g : Buf → Buf) (gs : List (Buf → Buf))
    (hgrow : ∀ x ∈ f :: fs ++ g :: gs, ∀ b, b.text.length < (x b).text.length)
    (ms : List (Nat × (Bool → Bool) × (Buf → Buf))) (hms : ∀ m ∈ ms, ∀ b, (m.2.2 b).text = b.text) :
    let r := ruleOf "vi.load_vi_bindings._insert_text_multiple_cursors" "<any>"
    let k2 := runKeep ms (runSame h r (f :: fs) k0)
    let k3 := runSame h r (g :: gs) k2
    k2.prev ≠ some h → (undo k3.st).buf = k2.st.buf ∧ (undo (undo k3.st)).buf = k0.st.buf := by
  intro r k2 k3 hp2
  exact two_groups_two_undos h h r r multicursor_bits.1 multicursor_bits.2 multicursor_bits.1 multicursor_bits.2
    k0 hp f fs ms hms g gs hp2
    (runSame_grows_text_ne h r k0 f fs (fun x hx => hgrow x (by simp at hx ⊢; rcases hx with hx | hx <;> simp [hx])))
    (runSame_grows_text_ne h r k2 g gs (fun x hx => hgrow x (by simp at hx ⊢; rcases hx with hx | hx <;> simp [hx])))

/-- **shipped_typing_then_undo.**  With the rule of the shipped self-insert binding (whatever Binding
    object `h` carries it): after anything that was not self-insert, type ANY non-empty string; one undo
    restores exactly the text and cursor from before the first character. -/
theorem shipped_typing_then_undo (h : Nat) (k0 : KSt) (hp : k0.prev ≠ some h) (c : Char) (cs : List Char) :
    (undo (runSame h (ruleOf "named_commands.self_insert" "<any>")
      ((c :: cs).map fun ch => insertText [ch]) k0).st).buf = k0.st.buf :=
  typing_then_undo h _ selfInsert_bits.1 selfInsert_bits.2 k0 hp c cs

/-- **shipped_backspacing_then_undo.**  The same for a run of Backspaces (cursor inside the text, not at its start). -/
theorem shipped_backspacing_then_undo (h : Nat) (k0 : KSt) (hp : k0.prev ≠ some h)
    (hc0 : 0 < k0.st.buf.cur) (hc1 : k0.st.buf.cur ≤ k0.st.buf.text.length) (n : Nat) :
    (undo (runSame h (ruleOf "named_commands.backward_delete_char" "c-h")
      (List.replicate (n + 1) (deleteBefore 1)) k0).st).buf = k0.st.buf :=
  backspacing_then_undo h _ backspace_bits.1 backspace_bits.2 k0 hp hc0 hc1 n

/-- **shipped_deleting_then_undo.**  … and for a run of Deletes (cursor before the end of the text). -/
theorem shipped_deleting_then_undo (h : Nat) (k0 : KSt) (hp : k0.prev ≠ some h)
    (hc : k0.st.buf.cur < k0.st.buf.text.length) (n : Nat) :
    (undo (runSame h (ruleOf "named_commands.delete_char" "delete")
      (List.replicate (n + 1) (Ptk.C07.delete 1)) k0).st).buf = k0.st.buf :=
  deleting_then_undo h _ delete_bits.1 delete_bits.2 k0 hp hc n

/-! ## 4. Non-vacuity -/

section Examples

/-- a session over the regenerated table: Binding 0 = self-insert, 1 = kill-line, 2 = C-_, other ids = `_arg 2` -/
def exRowOf : Nat → Row := fun h =>
  if h = 0 then ⟨"named_commands.self_insert", "<any>", true, false, 0⟩
  else if h = 1 then ⟨"named_commands.kill_line", "c-k", true, true, 0⟩
  else if h = 2 then ⟨"named_commands.undo", "c-_", false, false, 1⟩
  else ⟨"vi.load_vi_bindings._arg", "2", true, true, 0⟩

def exTItems : List Item :=
  [.cmd { h := 0, rule := rowRule (exRowOf 0), body := .edit (insertText ['a']) },
   .cmd { h := 0, rule := rowRule (exRowOf 0), body := .edit (insertText ['b']) },
   .cpr,
   .cmd { h := 1, rule := rowRule (exRowOf 1), body := .edit killLine, out := .raised },
   .cmd { h := 2, rule := rowRule (exRowOf 2), body := .undo 1 id },
   .cmd { h := 0, rule := rowRule (exRowOf 0), body := .edit (insertText ['c']) }]

theorem exRowOf_mem (h : Nat) : exRowOf h ∈ Gen.C07.table := by
  unfold exRowOf
  split
  · decide +kernel
  · split
    · decide +kernel
    · split <;> decide +kernel

theorem exTableSession : TableSession Gen.C07.table exRowOf exTItems where
  mem := fun c _ => exRowOf_mem c.h
  notCpr := by
    intro c _
    unfold exRowOf
    split
    · decide
    · split
      · decide
      · split <;> decide
  rule := by
    intro c hc
    simp only [exTItems, List.mem_cons, List.not_mem_nil, or_false, Item.cmd.injEq, reduceCtorEq, false_or] at hc
    rcases hc with rfl | rfl | rfl | rfl | rfl <;> rfl
  fits := by
    intro c hc
    simp only [exTItems, List.mem_cons, List.not_mem_nil, or_false, Item.cmd.injEq, reduceCtorEq, false_or] at hc
    rcases hc with rfl | rfl | rfl | rfl | rfl <;> simp [fits, exRowOf]

/-- table_undo_reaches_initial applies to it, and the session is not trivial (two snapshots, text changed) -/
example :
    (runI exTItems (kInit exB0)).st.undo.length = 2 ∧ (runI exTItems (kInit exB0)).st.buf.text = ['x', 'a', 'b', 'c', 'y'] ∧
    (undoN 2 (runI exTItems (kInit exB0)).st).buf.text = exB0.text :=
  ⟨by decide, by decide,
   table_undo_reaches_initial _ gen_ok exRowOf exTItems exTableSession exB0
     (by simp [exTItems, ExtOK]) 2 (by decide)⟩

/-- shipped_multicursor_typing_then_undo: `ab⏎cd`, cursors at 0 and 3, type `x`, `y` (each inserted at both cursors),
    Escape (a text-preserving command of another binding), one undo: hypotheses hold, the old state is back -/
example :
    let ins2 (c : Char) : Buf → Buf := fun b =>
      { text := [c] ++ b.text.take 2 ++ ['\n', c] ++ b.text.drop 3, cur := b.cur + 1 }
    let k0 : KSt := { st := { buf := { text := ['a', 'b', '\n', 'c', 'd'], cur := 0 }, undo := [], redo := [] }, prev := some 7 }
    let r := ruleOf "vi.load_vi_bindings._insert_text_multiple_cursors" "<any>"
    let k1 := runSame 4 r [ins2 'x'] k0
    k0.prev ≠ some 4 ∧ k1.st.buf.text = ['x', 'a', 'b', '\n', 'x', 'c', 'd'] ∧
    (undo (runKeep [(20, (fun _ => true), leftInLine)] k1).st).buf = k0.st.buf := by
  decide +kernel

/-- undo_chain_then_redos_exact: C-_ then C-x C-u (two different Binding objects), each restoring something -/
example :
    let k0 : KSt := { st := { buf := { text := ['a', 'b'], cur := 2 },
                              undo := [{ text := ['a'], cur := 1 }, { text := [], cur := 0 }], redo := [] },
                      prev := some 0 }
    let cs : List Cmd := [{ h := 8, rule := fun _ => false, body := .undo 1 id },
                          { h := 9, rule := fun _ => false, body := .undo 1 viFix }]
    (∀ c ∈ cs, isUndoCmd c) ∧ CmdsChange cs k0 ∧ (runK cs k0).st.buf.text = [] := by
  refine ⟨?_, ?_, by decide⟩
  · intro c hc
    simp only [List.mem_cons, List.not_mem_nil, or_false] at hc
    rcases hc with rfl | rfl
    · exact ⟨rfl, rfl, id, rfl⟩
    · exact ⟨rfl, rfl, viFix, rfl⟩
  · exact ⟨by decide, by decide, trivial⟩

end Examples

end Ptk.C07
