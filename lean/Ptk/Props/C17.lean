/-
  C17 — property theorems for the accept boundary / type-ahead model (`Ptk.Model.C17`).

  All theorems quantify over EVERY schedule `evs : List Ev` (writes of any chunks, reads of any
  size at any time, starts and finishes anywhere — also nonsensical ones, which the model treats
  like the code does: a start while running and a finish without result are no-ops, a read while
  nothing runs is ignored), every key stream and every placement of CPR reports.

  Main results
    no_loss_no_dup                 conservation of the typed key stream, in order
    results_are_segments / results_eq_take / results_schedule_independent
    k_lines_k_prompts              k lines -> the prompts return exactly these lines (any editor)
    all_at_once_k_prompts / script_all_at_once   fair schedule: all k prompts DO finish
    waiting_prompt_has_everything_read / accepted_prompt_keeps_later_keys /
    idle_state_keeps_everything    where every key is, in each phase
    accepted_line_frozen           keys after the accepting key never touch the accepted line
    after_accept_goes_next         they are replayed, in order, to the next prompt
    process_keys_splits_at_accept / process_keys_applies_all / processKeys_stable
    cpr_never_text                 CPR reports are never applied, stored or returned

  PARTIAL (stated in DESIGN §7 C17): timer expiry (`_Flush`, `flush_input`) and the bytes→keys
  parser are not in the model; OS pipe / event loop scheduling are the nondeterministic schedule.
-/
import Ptk.Model.C17
namespace Ptk.C17
open Ptk.Py
theorem dropCpr_append (a b : List Key) : dropCpr (a ++ b) = dropCpr a ++ dropCpr b := by
  induction a with
  | nil => rfl
  | cons k a ih => simp only [List.cons_append, dropCpr]; split <;> simp [ih]
theorem countCpr_append (a b : List Key) : countCpr (a ++ b) = countCpr a + countCpr b := by
  induction a with
  | nil => simp [countCpr]
  | cons k a ih => simp only [List.cons_append, countCpr]; split <;> omega
theorem dropCpr_idem (a : List Key) : dropCpr (dropCpr a) = dropCpr a := by
  induction a with
  | nil => rfl
  | cons k a ih =>
    simp only [dropCpr]; split
    · exact ih
    · rename_i h; simp [dropCpr, h, ih]
theorem hasCpr_eq_false_iff (q : List Key) : hasCpr q = false ↔ countCpr q = 0 := by
  induction q with
  | nil => simp [hasCpr, countCpr]
  | cons k q ih => cases h : k.isCpr <;> simp [hasCpr, countCpr, h, ih]
theorem dropCpr_of_count_zero (q : List Key) (h : countCpr q = 0) : dropCpr q = q := by
  induction q with
  | nil => rfl
  | cons k q ih =>
    cases hk : k.isCpr <;> simp [countCpr, hk] at h
    simp [dropCpr, hk, ih h]
theorem countCpr_dropCpr (q : List Key) : countCpr (dropCpr q) = 0 := by
  induction q with
  | nil => rfl
  | cons k q ih => cases hk : k.isCpr <;> simp [dropCpr, countCpr, hk, ih]
theorem removeFirstCpr_spec (q : List Key) (h : hasCpr q = true) :
    dropCpr (removeFirstCpr q) = dropCpr q ∧ countCpr (removeFirstCpr q) + 1 = countCpr q := by
  induction q with
  | nil => simp [hasCpr] at h
  | cons k q ih =>
    cases hk : k.isCpr
    · simp [hasCpr, hk] at h
      have := ih h
      simp [removeFirstCpr, dropCpr, countCpr, hk, this.1, this.2]
    · simp [removeFirstCpr, dropCpr, countCpr, hk]
theorem countCpr_le_length (q : List Key) : countCpr q ≤ q.length := by
  induction q with
  | nil => simp [countCpr]
  | cons k q ih => simp only [countCpr, List.length_cons]; split <;> omega

/-- closed form of `process_keys` once the result is set: exactly the CPR responses are consumed -/
def afterDone (q : List Key) (f : Key) (a : List Key) (c : Nat) : KP :=
  ⟨dropCpr q, some f, a, c + countCpr q⟩

theorem iter_done (n : Nat) : ∀ (q : List Key) (f : Key) (a : List Key) (c : Nat),
    countCpr q ≤ n → iter n ⟨q, some f, a, c⟩ = afterDone q f a c := by
  induction n with
  | zero =>
    intro q f a c h
    have h0 : countCpr q = 0 := by omega
    simp [iter, afterDone, h0, dropCpr_of_count_zero q h0]
  | succ n ih =>
    intro q f a c h
    cases hq : hasCpr q
    · have h0 := (hasCpr_eq_false_iff q).1 hq
      simp [iter, procStep, notEmpty, hq, afterDone, h0, dropCpr_of_count_zero q h0]
    · have sp := removeFirstCpr_spec q hq
      simp only [iter, procStep, notEmpty, Option.isSome_some, if_true, hq, handle]
      rw [ih _ _ _ _ (by omega)]
      simp only [afterDone, sp.1]
      congr 1; omega

/-- closed form of `process_keys` while no result is set -/
def live (a : List Key) (c : Nat) : List Key → KP
  | [] => ⟨[], none, a, c⟩
  | .cpr :: q => live a (c + 1) q
  | .other n :: q => live (a ++ [.other n]) c q
  | .accept :: q => afterDone q .accept a c
  | .abort :: q => afterDone q .abort a c
  | .cj :: q => afterDone q .accept a c

theorem iter_live : ∀ (q : List Key) (n : Nat) (a : List Key) (c : Nat),
    q.length + 1 ≤ n → iter n ⟨q, none, a, c⟩ = live a c q := by
  intro q
  induction q with
  | nil =>
    intro n a c _
    cases n <;> simp [iter, procStep, notEmpty, live]
  | cons k q ih =>
    intro n a c h
    obtain ⟨m, rfl⟩ : ∃ m, n = m + 1 := ⟨n - 1, by simp at h; omega⟩
    have hm : q.length + 1 ≤ m := by simp at h; omega
    have hc := countCpr_le_length q
    cases k with
    | cpr => simp [iter, procStep, notEmpty, handle, live, ih m a (c + 1) hm]
    | other x => simp [iter, procStep, notEmpty, handle, live, ih m _ c hm]
    | accept => simp [iter, procStep, notEmpty, handle, live, iter_done m q _ a c (by omega)]
    | abort => simp [iter, procStep, notEmpty, handle, live, iter_done m q _ a c (by omega)]
    | cj =>
      obtain ⟨m', rfl⟩ : ∃ m', m = m' + 1 := ⟨m - 1, by omega⟩
      simp [iter, procStep, notEmpty, handle, live, iter_done m' q _ a c (by omega)]

theorem processKeys_live (q a : List Key) (c : Nat) :
    processKeys ⟨q, none, a, c⟩ = live a c q := by
  unfold processKeys; exact iter_live q _ a c (by simp; omega)

theorem processKeys_done (q : List Key) (f : Key) (a : List Key) (c : Nat) :
    processKeys ⟨q, some f, a, c⟩ = afterDone q f a c := by
  unfold processKeys; exact iter_done _ q f a c (by have := countCpr_le_length q; simp; omega)


/-! ### the loop really ended: its condition is false afterwards -/
theorem procStep_afterDone (q : List Key) (f : Key) (a : List Key) (c : Nat) :
    procStep (afterDone q f a c) = none := by
  have : hasCpr (dropCpr q) = false := (hasCpr_eq_false_iff _).2 (countCpr_dropCpr q)
  simp [procStep, notEmpty, afterDone, this]

theorem procStep_live (q a : List Key) (c : Nat) : procStep (live a c q) = none := by
  induction q generalizing a c with
  | nil => simp [live, procStep, notEmpty]
  | cons k q ih =>
    cases k <;> simp only [live] <;> first | exact ih _ _ | exact procStep_afterDone _ _ _ _

/-! ### normal form of a key stream and conservation -/
def normKey : Key → Key
  | .cj => .accept
  | k => k

/-- what a key stream means to the prompts: CPR reports are not keys, c-j is Enter -/
def norm (l : List Key) : List Key := (dropCpr l).map normKey

theorem norm_append (a b : List Key) : norm (a ++ b) = norm a ++ norm b := by
  simp [norm, dropCpr_append]

theorem norm_dropCpr (a : List Key) : norm (dropCpr a) = norm a := by
  simp [norm, dropCpr_idem]

theorem norm_nil : norm [] = [] := rfl

/-- the keys the current application has taken so far, including the key that ended it -/
def cur (p : KP) : List Key :=
  p.applied ++ (match p.done with | some f => [f] | none => [])

theorem afterDone_conserve (q : List Key) (f : Key) (a : List Key) (c : Nat) :
    cur (afterDone q f a c) ++ norm (afterDone q f a c).queue = a ++ [f] ++ norm q := by
  simp [cur, afterDone, norm_dropCpr]

theorem live_conserve (q a : List Key) (c : Nat) :
    cur (live a c q) ++ norm (live a c q).queue = a ++ norm q := by
  induction q generalizing a c with
  | nil => simp [live, cur, norm, dropCpr]
  | cons k q ih =>
    cases k with
    | cpr => simp only [live]; rw [ih]; simp [norm, dropCpr, Key.isCpr]
    | other x => simp only [live]; rw [ih]; simp [norm, dropCpr, Key.isCpr, normKey]
    | accept => simp only [live]; rw [afterDone_conserve]; simp [norm, dropCpr, Key.isCpr, normKey]
    | abort => simp only [live]; rw [afterDone_conserve]; simp [norm, dropCpr, Key.isCpr, normKey]
    | cj => simp only [live]; rw [afterDone_conserve]; simp [norm, dropCpr, Key.isCpr, normKey]

theorem processKeys_conserve (p : KP) :
    cur (processKeys p) ++ norm (processKeys p).queue = cur p ++ norm p.queue := by
  obtain ⟨q, d, a, c⟩ := p
  cases d with
  | none => rw [processKeys_live, live_conserve]; simp [cur]
  | some f => rw [processKeys_done, afterDone_conserve]; simp [cur]


/-! ### facts about the closed forms -/
def Key.isOther : Key → Bool
  | .other _ => true
  | _ => false

/-- only ordinary key presses (no accepting key, no CPR report, no c-j) -/
def AllOther (l : List Key) : Prop := ∀ k ∈ l, k.isOther = true

theorem AllOther.nil : AllOther [] := by intro k h; cases h
theorem AllOther.append {a b : List Key} (ha : AllOther a) (hb : AllOther b) : AllOther (a ++ b) := by
  intro k h; rcases List.mem_append.1 h with h | h
  · exact ha k h
  · exact hb k h

def NoCpr (l : List Key) : Prop := countCpr l = 0

theorem noCpr_dropCpr (q : List Key) : NoCpr (dropCpr q) := countCpr_dropCpr q
theorem NoCpr.append {a b : List Key} (ha : NoCpr a) (hb : NoCpr b) : NoCpr (a ++ b) := by
  unfold NoCpr at *; rw [countCpr_append]; omega
theorem AllOther.noCpr {l : List Key} (h : AllOther l) : NoCpr l := by
  induction l with
  | nil => rfl
  | cons k l ih =>
    have hk := h k (List.mem_cons_self ..)
    have : AllOther l := fun x hx => h x (List.mem_cons_of_mem _ hx)
    cases k <;> simp [Key.isOther] at hk
    simp [NoCpr, countCpr, Key.isCpr]; exact ih this

/-- what `process_keys` guarantees about the state it leaves -/
structure Settled (p : KP) : Prop where
  applied : AllOther p.applied
  fin : ∀ f, p.done = some f → f.isFin = true
  drained : p.done = none → p.queue = []
  noCpr : NoCpr p.queue

theorem settled_afterDone (q : List Key) (f : Key) (a : List Key) (c : Nat)
    (ha : AllOther a) (hf : f.isFin = true) : Settled (afterDone q f a c) :=
  ⟨ha, by intro g h; simp [afterDone] at h; subst h; exact hf,
   by intro h; simp [afterDone] at h, noCpr_dropCpr q⟩

theorem settled_live (q a : List Key) (c : Nat) (ha : AllOther a) : Settled (live a c q) := by
  induction q generalizing a c with
  | nil => exact ⟨ha, by simp [live], by simp [live], rfl⟩
  | cons k q ih =>
    cases k with
    | cpr => exact ih a (c + 1) ha
    | other x =>
      exact ih _ c (ha.append (by intro k hk; simp at hk; subst hk; rfl))
    | accept => exact settled_afterDone q _ a c ha rfl
    | abort => exact settled_afterDone q _ a c ha rfl
    | cj => exact settled_afterDone q _ a c ha rfl

theorem settled_processKeys (p : KP) (ha : AllOther p.applied)
    (hf : ∀ f, p.done = some f → f.isFin = true) : Settled (processKeys p) := by
  obtain ⟨q, d, a, c⟩ := p
  cases d with
  | none => rw [processKeys_live]; exact settled_live q a c ha
  | some f => rw [processKeys_done]; exact settled_afterDone q f a c ha (hf f rfl)

/-- once the result is set, `process_keys` changes neither the applied keys nor the result -/
theorem processKeys_frozen (q : List Key) (f : Key) (a : List Key) (c : Nat) :
    (processKeys ⟨q, some f, a, c⟩).applied = a ∧ (processKeys ⟨q, some f, a, c⟩).done = some f ∧
    (processKeys ⟨q, some f, a, c⟩).queue = dropCpr q ∧
    (processKeys ⟨q, some f, a, c⟩).cprs = c + countCpr q := by
  rw [processKeys_done]; simp [afterDone]

/-! ### the reachable states -/
def idleKP : KP := ⟨[], none, [], 0⟩

def flat : List Res → List Key
  | [] => []
  | r :: rs => r.1 ++ [r.2] ++ flat rs

theorem flat_append (a b : List Res) : flat (a ++ b) = flat a ++ flat b := by
  induction a with
  | nil => rfl
  | cons r a ih => simp [flat, ih]

/-- a finished prompt: only ordinary keys were applied, and an accepting key ended it -/
def GoodRes (r : Res) : Prop := AllOther r.1 ∧ r.2.isFin = true

structure Inv (s : St) (w : List Key) : Prop where
  /-- conservation: consumed keys ++ keys still waiting = typed keys, in order -/
  cons : flat s.results ++ cur s.kp ++ norm s.typeahead ++ norm s.kp.queue ++ norm s.pipe = norm w
  settled : Settled s.kp
  idle : s.running = false → s.kp = idleKP
  taEmpty : s.running = true → s.typeahead = []
  taNoCpr : NoCpr s.typeahead
  results : ∀ r ∈ s.results, GoodRes r

theorem inv_init : Inv St.init [] :=
  ⟨rfl, ⟨AllOther.nil, by simp [St.init], by simp [St.init], rfl⟩, fun _ => rfl,
   fun h => by simp [St.init] at h, rfl, by intro r h; cases h⟩

def evWritten : Ev → List Key
  | .write c => c
  | _ => []

theorem settled_idle : Settled idleKP :=
  ⟨AllOther.nil, by simp [idleKP], by simp [idleKP], rfl⟩

theorem inv_step {s : St} {w : List Key} (h : Inv s w) (e : Ev) :
    Inv (step s e) (w ++ evWritten e) := by
  cases e with
  | write c =>
    refine ⟨?_, h.settled, h.idle, h.taEmpty, h.taNoCpr, h.results⟩
    simp only [step, evWritten, norm_append, ← h.cons]; simp
  | start =>
    simp only [step, evWritten, List.append_nil]
    cases hr : s.running with
    | true => simpa [hr] using h
    | false =>
      simp only [Bool.false_eq_true, if_false]
      have hk := h.idle hr
      have hc := h.cons
      rw [hk] at hc
      have hs : Settled (processKeys ⟨s.typeahead, none, [], 0⟩) :=
        settled_processKeys _ AllOther.nil (by simp)
      refine ⟨?_, hs, by simp, by simp, rfl, h.results⟩
      have pc := processKeys_conserve ⟨s.typeahead, none, [], 0⟩
      simp only [norm_nil, List.append_nil]
      rw [List.append_assoc (flat s.results), pc, ← hc]
      simp [cur, idleKP, norm_nil]
  | read n =>
    simp only [step, evWritten, List.append_nil]
    cases hr : s.running with
    | false => simpa [hr] using h
    | true =>
      simp only [Bool.not_true, Bool.false_eq_true, if_false]
      have hta := h.taEmpty hr
      have hs : Settled (processKeys { s.kp with queue := s.kp.queue ++ s.pipe.take n }) :=
        settled_processKeys _ h.settled.applied h.settled.fin
      refine ⟨?_, hs, by simp, by intro _; exact hta, h.taNoCpr, h.results⟩
      have pc := processKeys_conserve { s.kp with queue := s.kp.queue ++ s.pipe.take n }
      have hc := h.cons
      rw [hta] at hc ⊢
      simp only [norm_nil, List.append_nil] at hc ⊢
      rw [List.append_assoc (flat s.results), pc, ← hc]
      have : norm s.pipe = norm (s.pipe.take n) ++ norm (s.pipe.drop n) := by
        rw [← norm_append, List.take_append_drop]
      simp [cur, norm_append, this]
  | finish =>
    simp only [step, evWritten, List.append_nil]
    cases hr : s.running with
    | false => simpa [hr] using h
    | true =>
      cases hd : s.kp.done with
      | none => simpa [hr, hd] using h
      | some f =>
        simp only []
        have hta := h.taEmpty hr
        refine ⟨?_, settled_idle, fun _ => rfl, by simp, ?_, ?_⟩
        · have hc := h.cons
          simp only [cur, hd] at hc
          rw [← hc]
          simp [flat_append, flat, cur, norm_append, norm_dropCpr, norm_nil]
        · exact h.taNoCpr.append (noCpr_dropCpr _)
        · intro r hrm
          rcases List.mem_append.1 hrm with hrm | hrm
          · exact h.results r hrm
          · simp at hrm; subst hrm
            exact ⟨h.settled.applied, h.settled.fin f hd⟩

theorem written_eq (evs : List Ev) : written evs = (evs.map evWritten).flatten := by
  induction evs with
  | nil => rfl
  | cons e es ih => cases e <;> simp [written, evWritten, ih]

theorem inv_run {s : St} {w : List Key} (h : Inv s w) (evs : List Ev) :
    Inv (run s evs) (w ++ written evs) := by
  induction evs generalizing s w with
  | nil => simpa [run, written] using h
  | cons e es ih =>
    have := ih (inv_step h e)
    simp only [run]
    have hw : w ++ written (e :: es) = w ++ evWritten e ++ written es := by
      cases e <;> simp [written, evWritten]
    rw [hw]; exact this


/-! ### cutting a key stream at the accepting keys -/
def NoFin (l : List Key) : Prop := ∀ k ∈ l, k.isFin = false

theorem AllOther.noFin {l : List Key} (h : AllOther l) : NoFin l := by
  intro k hk; have := h k hk; cases k <;> simp [Key.isOther] at this; rfl

/-- the complete lines of a key stream: (keys of the line, the key that ended it) -/
def segs : List Key → List Key → List Res
  | _, [] => []
  | acc, k :: l => if k.isFin then (acc, k) :: segs [] l else segs (acc ++ [k]) l

def segments (l : List Key) : List Res := segs [] l

/-- the keys after the last accepting key -/
def rest : List Key → List Key → List Key
  | acc, [] => acc
  | acc, k :: l => if k.isFin then rest [] l else rest (acc ++ [k]) l

def unfinished (l : List Key) : List Key := rest [] l

theorem segs_line (acc a : List Key) (f : Key) (l : List Key) (ha : NoFin a) (hf : f.isFin = true) :
    segs acc (a ++ f :: l) = (acc ++ a, f) :: segs [] l := by
  induction a generalizing acc with
  | nil => simp [segs, hf]
  | cons k a ih =>
    have hk : k.isFin = false := ha k (List.mem_cons_self ..)
    have ha' : NoFin a := fun x hx => ha x (List.mem_cons_of_mem _ hx)
    simp only [List.cons_append, segs, hk, Bool.false_eq_true, if_false]
    rw [ih _ ha']; simp

theorem segs_noFin (acc a : List Key) (ha : NoFin a) : segs acc a = [] := by
  induction a generalizing acc with
  | nil => rfl
  | cons k a ih =>
    have hk : k.isFin = false := ha k (List.mem_cons_self ..)
    have ha' : NoFin a := fun x hx => ha x (List.mem_cons_of_mem _ hx)
    simp only [segs, hk, Bool.false_eq_true, if_false]; exact ih _ ha'

theorem rest_line (acc a : List Key) (f : Key) (l : List Key) (ha : NoFin a) (hf : f.isFin = true) :
    rest acc (a ++ f :: l) = rest [] l := by
  induction a generalizing acc with
  | nil => simp [rest, hf]
  | cons k a ih =>
    have hk : k.isFin = false := ha k (List.mem_cons_self ..)
    have ha' : NoFin a := fun x hx => ha x (List.mem_cons_of_mem _ hx)
    simp only [List.cons_append, rest, hk, Bool.false_eq_true, if_false]
    exact ih _ ha'

theorem rest_noFin (acc a : List Key) (ha : NoFin a) : rest acc a = acc ++ a := by
  induction a generalizing acc with
  | nil => simp [rest]
  | cons k a ih =>
    have hk : k.isFin = false := ha k (List.mem_cons_self ..)
    have ha' : NoFin a := fun x hx => ha x (List.mem_cons_of_mem _ hx)
    simp only [rest, hk, Bool.false_eq_true, if_false]; rw [ih _ ha']; simp

/-- the decomposition into lines is unique: whatever follows, well-formed results that
    start a stream are its first segments -/
theorem segments_flat (R : List Res) (x : List Key) (hR : ∀ r ∈ R, GoodRes r) :
    segments (flat R ++ x) = R ++ segments x := by
  induction R with
  | nil => rfl
  | cons r R ih =>
    have hr := hR r (List.mem_cons_self ..)
    have hR' : ∀ r ∈ R, GoodRes r := fun y hy => hR y (List.mem_cons_of_mem _ hy)
    have e : flat (r :: R) ++ x = r.1 ++ r.2 :: (flat R ++ x) := by simp [flat]
    have := segs_line [] r.1 r.2 (flat R ++ x) hr.1.noFin hr.2
    rw [e]; unfold segments at ih ⊢
    rw [this, ih hR']; simp

theorem unfinished_flat (R : List Res) (x : List Key) (hR : ∀ r ∈ R, GoodRes r) :
    unfinished (flat R ++ x) = unfinished x := by
  induction R with
  | nil => rfl
  | cons r R ih =>
    have hr := hR r (List.mem_cons_self ..)
    have hR' : ∀ r ∈ R, GoodRes r := fun y hy => hR y (List.mem_cons_of_mem _ hy)
    have e : flat (r :: R) ++ x = r.1 ++ r.2 :: (flat R ++ x) := by simp [flat]
    have := rest_line [] r.1 r.2 (flat R ++ x) hr.1.noFin hr.2
    rw [e]; unfold unfinished at ih ⊢
    rw [this]; exact ih hR'


/-! ## The property theorems -/

/-- every state a schedule can reach from the initial state satisfies the invariant -/
theorem reachable_inv (evs : List Ev) : Inv (run St.init evs) (written evs) := by
  simpa using inv_run inv_init evs

/-- **No key is lost, duplicated or reordered**, for every schedule (any chunking of the writes,
    any read sizes, any placement of starts / finishes, CPR reports anywhere):
    keys consumed by the finished prompts ++ keys taken by the current prompt ++ type-ahead store
    ++ input queue ++ unread pipe  =  the typed key stream (CPR reports removed, c-j = Enter). -/
theorem no_loss_no_dup (evs : List Ev) :
    ∀ s, s = run St.init evs →
    flat s.results ++ cur s.kp ++ norm s.typeahead ++ norm s.kp.queue ++ norm s.pipe
      = norm (written evs) :=
  fun _ hs => hs ▸ (reachable_inv evs).cons

/-- the finished prompts are exactly the first lines of the typed stream -/
theorem results_are_segments (evs : List Ev) :
    ∀ s, s = run St.init evs →
    ∃ more, segments (norm (written evs)) = s.results ++ more := by
  intro s hs
  have h : Inv s (written evs) := hs ▸ reachable_inv evs
  have hc := h.cons
  simp only [List.append_assoc] at hc
  refine ⟨segments (cur s.kp ++ (norm s.typeahead ++ (norm s.kp.queue ++ norm s.pipe))), ?_⟩
  rw [← hc]; exact segments_flat _ _ h.results

theorem results_eq_take (evs : List Ev) :
    (run St.init evs).results =
      (segments (norm (written evs))).take (run St.init evs).results.length := by
  obtain ⟨more, h⟩ := results_are_segments evs _ rfl
  rw [h]; simp

/-- **Timing and chunking do not matter**: two schedules that type the same keys (possibly with
    different CPR reports at different places) and complete the same number of prompts return
    the same lines. -/
theorem results_schedule_independent (evs₁ evs₂ : List Ev)
    (hw : norm (written evs₁) = norm (written evs₂))
    (hn : (run St.init evs₁).results.length = (run St.init evs₂).results.length) :
    (run St.init evs₁).results = (run St.init evs₂).results := by
  rw [results_eq_take evs₁, results_eq_take evs₂, hw, hn]

/-- the script made of the given lines, each ended by Enter -/
def script : List (List Key) → List Key
  | [] => []
  | l :: ls => l ++ [.accept] ++ script ls

theorem script_eq_flat (lines : List (List Key)) :
    script lines = flat (lines.map fun l => (l, Key.accept)) := by
  induction lines with
  | nil => rfl
  | cons l ls ih => simp [script, flat, ih]

/-- **k lines → k prompts**: if the typed stream (after removing CPR reports, c-j counted as Enter)
    is `l₁ Enter l₂ Enter … l_k Enter tail`, then under every schedule the prompts that finish
    return `l₁, l₂, …` in this order — for an arbitrary line editor `render` — and when k prompts
    have finished they are exactly the k lines. -/
theorem k_lines_k_prompts {α : Type} (render : List Key → α)
    (lines : List (List Key)) (tail : List Key)
    (hl : ∀ l ∈ lines, AllOther l) (ht : NoFin tail)
    (evs : List Ev) (hw : norm (written evs) = script lines ++ tail) :
    ∀ s, s = run St.init evs →
    s.results.length ≤ lines.length ∧
    s.results.map (fun r => (render r.1, r.2)) =
      (lines.take s.results.length).map (fun l => (render l, Key.accept)) ∧
    (s.results.length = lines.length → s.results.map (fun r => render r.1) = lines.map render) := by
  intro s hs
  have hgood : ∀ r ∈ lines.map (fun l => (l, Key.accept)), GoodRes r := by
    intro r hr; simp at hr; obtain ⟨l, hl', rfl⟩ := hr; exact ⟨hl l hl', rfl⟩
  have hseg : segments (norm (written evs)) = lines.map (fun l => (l, Key.accept)) := by
    rw [hw, script_eq_flat, segments_flat _ _ hgood]
    simp [segments, segs_noFin [] tail ht]
  have ht := results_eq_take evs
  rw [hseg, ← hs] at ht
  have hlen : s.results.length ≤ lines.length := by
    have := congrArg List.length ht
    simp at this; omega
  have hres : s.results = (lines.take s.results.length).map (fun l => (l, Key.accept)) := by
    rw [List.map_take]; exact ht
  generalize s.results.length = n at hres hlen
  refine ⟨hlen, ?_, ?_⟩
  · rw [hres]; simp [Function.comp_def]
  · intro hk
    rw [hres, hk]; simp [Function.comp_def]

/-- **CPR reports never become text** (nor type-ahead): in every reachable state the keys applied
    to the current prompt, the keys of every finished prompt and the type-ahead store contain no
    CPR report, and a CPR report never ends a prompt. -/
theorem cpr_never_text (evs : List Ev) :
    ∀ s, s = run St.init evs →
    NoCpr s.kp.applied ∧ NoCpr s.typeahead ∧
    (∀ r ∈ s.results, NoCpr r.1 ∧ r.2.isCpr = false) ∧
    (s.kp.done.isSome = true → NoCpr s.kp.queue) := by
  intro s hs
  have h : Inv s (written evs) := hs ▸ reachable_inv evs
  refine ⟨h.settled.applied.noCpr, h.taNoCpr, ?_, fun _ => h.settled.noCpr⟩
  intro r hr
  have := h.results r hr
  refine ⟨this.1.noCpr, ?_⟩
  have h2 := this.2
  cases hk : r.2 <;> simp [hk, Key.isFin, Key.isCpr] at h2 ⊢

/-- **Nothing stays stuck**: while a prompt waits for its result, every key that was read has been
    handed to the bindings (the queue is empty and the type-ahead store is empty), so the typed
    stream is  finished lines ++ keys applied to this prompt ++ what is still unread in the pipe.
    In particular a prompt can only wait forever if no accepting key is left outside the pipe. -/
theorem waiting_prompt_has_everything_read (evs : List Ev) :
    ∀ s, s = run St.init evs →
    s.running = true → s.kp.done = none →
    s.kp.queue = [] ∧ s.typeahead = [] ∧
    norm (written evs) = flat s.results ++ s.kp.applied ++ norm s.pipe := by
  intro s hs hr hd
  have h : Inv s (written evs) := hs ▸ reachable_inv evs
  have hq := h.settled.drained hd
  have hta := h.taEmpty hr
  refine ⟨hq, hta, ?_⟩
  have hc := h.cons
  rw [hq, hta] at hc
  simp only [cur, hd, norm_nil, List.append_nil] at hc
  exact hc.symm

/-- **Keys after the accepting key are not applied to the accepted line**: between the accepting
    key `f` and the end of the application, the typed stream is
    finished lines ++ accepted line ++ [f] ++ queue (kept) ++ unread pipe. -/
theorem accepted_prompt_keeps_later_keys (evs : List Ev) (f : Key) :
    ∀ s, s = run St.init evs →
    s.running = true → s.kp.done = some f →
    norm (written evs) = flat s.results ++ s.kp.applied ++ [f] ++ norm s.kp.queue ++ norm s.pipe := by
  intro s hs hr hd
  have h : Inv s (written evs) := hs ▸ reachable_inv evs
  have hta := h.taEmpty hr
  have hc := h.cons
  rw [hta] at hc
  simp only [cur, hd, norm_nil, List.append_nil] at hc
  rw [← hc]; simp

/-- between two prompts everything unconsumed is in the type-ahead store or still in the pipe -/
theorem idle_state_keeps_everything (evs : List Ev) :
    ∀ s, s = run St.init evs →
    s.running = false →
    norm (written evs) = flat s.results ++ norm s.typeahead ++ norm s.pipe := by
  intro s hs hr
  have h : Inv s (written evs) := hs ▸ reachable_inv evs
  have hc := h.cons
  rw [h.idle hr] at hc
  simp only [cur, idleKP, norm_nil, List.append_nil] at hc
  exact hc.symm

/-- **The accepted line is frozen**: once the result is set, no event except the end of the
    application changes the applied keys, the result, or the list of finished prompts; reads only
    consume CPR reports and keep every other key, in order, for the next prompt. -/
theorem accepted_line_frozen (s : St) (f : Key) (e : Ev)
    (hr : s.running = true) (hd : s.kp.done = some f) (he : e ≠ .finish) :
    (step s e).kp.applied = s.kp.applied ∧ (step s e).kp.done = some f ∧
    (step s e).results = s.results ∧ (step s e).running = true ∧
    norm (step s e).kp.queue ++ norm (step s e).pipe = norm s.kp.queue ++ norm s.pipe ++ norm (evWritten e) := by
  cases e with
  | finish => exact absurd rfl he
  | write c => simp [step, hr, hd, evWritten, norm_append]
  | start => simp [step, hr, hd, evWritten, norm_nil]
  | read n =>
    obtain ⟨pipe, ta, ⟨q, d, a, c⟩, running, results⟩ := s
    simp only at hr hd
    subst hr hd
    have := processKeys_frozen (q ++ pipe.take n) f a c
    simp only [step, Bool.not_true, Bool.false_eq_true, if_false, evWritten, norm_nil,
      List.append_nil]
    refine ⟨this.1, this.2.1, trivial, trivial, ?_⟩
    rw [this.2.2.1, norm_dropCpr, norm_append, List.append_assoc, ← norm_append,
      List.take_append_drop]

/-- what `process_keys` does with a queue `pre ++ f :: post` when no result is set yet and `f` is
    the first accepting key: the keys before `f` are applied (CPR reports reported, not applied),
    `f` sets the result, the keys after it stay in the queue in order, minus the CPR reports. -/
theorem process_keys_splits_at_accept (pre post a : List Key) (c : Nat) (f : Key)
    (hpre : ∀ k ∈ pre, k.isOther = true ∨ k.isCpr = true)
    (hf : f.isFin = true ∨ f = .cj) :
    processKeys ⟨pre ++ f :: post, none, a, c⟩ =
      ⟨dropCpr post, some (normKey f), a ++ dropCpr pre, c + countCpr pre + countCpr post⟩ := by
  rw [processKeys_live]
  induction pre generalizing a c with
  | nil =>
    rcases hf with hf | rfl
    · cases f <;> simp [Key.isFin] at hf <;> simp [live, afterDone, normKey, dropCpr, countCpr]
    · simp [live, afterDone, normKey, dropCpr, countCpr]
  | cons k pre ih =>
    have hk := hpre k (List.mem_cons_self ..)
    have hpre' : ∀ k ∈ pre, k.isOther = true ∨ k.isCpr = true :=
      fun x hx => hpre x (List.mem_cons_of_mem _ hx)
    cases k with
    | cpr =>
      simp only [List.cons_append, live]; rw [ih _ _ hpre']
      simp [dropCpr, countCpr, Key.isCpr]; omega
    | other x =>
      simp only [List.cons_append, live]; rw [ih _ _ hpre']
      simp [dropCpr, countCpr, Key.isCpr]
    | accept => simp [Key.isOther, Key.isCpr] at hk
    | abort => simp [Key.isOther, Key.isCpr] at hk
    | cj => simp [Key.isOther, Key.isCpr] at hk

/-- without an accepting key the whole queue is applied and the queue is empty afterwards -/
theorem process_keys_applies_all (q a : List Key) (c : Nat)
    (hq : ∀ k ∈ q, k.isOther = true ∨ k.isCpr = true) :
    processKeys ⟨q, none, a, c⟩ = ⟨[], none, a ++ dropCpr q, c + countCpr q⟩ := by
  rw [processKeys_live]
  induction q generalizing a c with
  | nil => simp [live, dropCpr, countCpr]
  | cons k q ih =>
    have hk := hq k (List.mem_cons_self ..)
    have hq' : ∀ k ∈ q, k.isOther = true ∨ k.isCpr = true :=
      fun x hx => hq x (List.mem_cons_of_mem _ hx)
    cases k with
    | cpr => simp only [live]; rw [ih _ _ hq']; simp [dropCpr, countCpr, Key.isCpr]; omega
    | other x => simp only [live]; rw [ih _ _ hq']; simp [dropCpr, countCpr, Key.isCpr]
    | accept => simp [Key.isOther, Key.isCpr] at hk
    | abort => simp [Key.isOther, Key.isCpr] at hk
    | cj => simp [Key.isOther, Key.isCpr] at hk

/-- `process_keys` terminates with its loop condition false (the fuel of the model is enough) -/
theorem processKeys_stable (p : KP) : procStep (processKeys p) = none := by
  obtain ⟨q, d, a, c⟩ := p
  cases d with
  | none => rw [processKeys_live]; exact procStep_live q a c
  | some f => rw [processKeys_done]; exact procStep_afterDone q f a c

/-- **Keys after the accept go to the next prompt**: ending an application and starting the next
    one on the same input hands the kept keys (queue without CPR reports), in order, to the new
    application's `process_keys`, and the store is emptied. -/
theorem after_accept_goes_next (s : St) (f : Key)
    (hr : s.running = true) (hd : s.kp.done = some f) (hta : s.typeahead = []) :
    (step s .finish).typeahead = dropCpr s.kp.queue ∧
    (step s .finish).results = s.results ++ [(s.kp.applied, f)] ∧
    (step (step s .finish) .start).kp = processKeys ⟨dropCpr s.kp.queue, none, [], 0⟩ ∧
    (step (step s .finish) .start).typeahead = [] := by
  simp [step, hr, hd, hta]

/-- a read while no application is running is ignored (bytes stay in the pipe) -/
theorem read_ignored_when_idle (s : St) (n : Nat) (hr : s.running = false) :
    step s (.read n) = s := by
  simp [step, hr]


/-! ### a fair schedule completes: all bytes written first, then k prompts -/
theorem run_append (s : St) (a b : List Ev) : run s (a ++ b) = run (run s a) b := by
  induction a generalizing s with
  | nil => rfl
  | cons e a ih => simp [run, ih]

/-- k times: start a prompt, let it read everything that is available, let it end -/
def rounds (N : Nat) : Nat → List Ev
  | 0 => []
  | k + 1 => [.start, .read N, .finish] ++ rounds N k

theorem inv_step_nowrite {s : St} {w : List Key} (h : Inv s w) (e : Ev) (he : evWritten e = []) :
    Inv (step s e) w := by
  have := inv_step h e; rw [he] at this; simpa using this

theorem segments_noFin (l : List Key) (h : NoFin l) : segments l = [] := segs_noFin [] l h

theorem step_start_idle (t : St) (h : t.running = false) :
    step t .start = { t with typeahead := [], running := true,
                             kp := processKeys ⟨t.typeahead, none, [], 0⟩ } := by
  simp [step, h]

theorem step_read_running (t : St) (n : Nat) (h : t.running = true) :
    step t (.read n) = { t with pipe := t.pipe.drop n,
                                kp := processKeys { t.kp with queue := t.kp.queue ++ t.pipe.take n } } := by
  simp [step, h]

theorem step_finish_done (t : St) (f : Key) (h : t.running = true) (hd : t.kp.done = some f) :
    step t .finish = { t with running := false, results := t.results ++ [(t.kp.applied, f)],
                              typeahead := t.typeahead ++ dropCpr t.kp.queue, kp := ⟨[], none, [], 0⟩ } := by
  simp [step, h, hd]

theorem one_round {s : St} {w : List Key} (N : Nat) (h : Inv s w) (hr : s.running = false)
    (hp : s.pipe.length ≤ N) (hseg : segments (norm s.typeahead ++ norm s.pipe) ≠ []) :
    let s' := run s [.start, .read N, .finish]
    Inv s' w ∧ s'.running = false ∧ s'.pipe = [] ∧ s'.results.length = s.results.length + 1 := by
  intro s'
  have h1 : Inv (step s .start) w := inv_step_nowrite h _ rfl
  have h2 : Inv (step (step s .start) (.read N)) w := inv_step_nowrite h1 _ rfl
  have h3 : Inv (step (step (step s .start) (.read N)) .finish) w := inv_step_nowrite h2 _ rfl
  have e' : s' = step (step (step s .start) (.read N)) .finish := rfl
  have r1 : (step s .start).running = true := by rw [step_start_idle s hr]
  have p1 : (step s .start).pipe = s.pipe := by rw [step_start_idle s hr]
  have res1 : (step s .start).results = s.results := by rw [step_start_idle s hr]
  have r2 : (step (step s .start) (.read N)).running = true := by
    rw [step_read_running _ N r1]; exact r1
  have p2 : (step (step s .start) (.read N)).pipe = [] := by
    rw [step_read_running _ N r1]; simp only [p1]
    exact List.drop_eq_nil_of_le hp
  have res2 : (step (step s .start) (.read N)).results = s.results := by
    rw [step_read_running _ N r1]; exact res1
  -- the prompt has its result after reading everything
  have hdone : ∃ f, (step (step s .start) (.read N)).kp.done = some f := by
    cases hd : (step (step s .start) (.read N)).kp.done with
    | some f => exact ⟨f, rfl⟩
    | none =>
      exfalso; apply hseg
      have hq := h2.settled.drained hd
      have hta := h2.taEmpty r2
      have hc2 := h2.cons
      rw [hq, hta, p2, res2] at hc2
      simp only [cur, hd, norm_nil, List.append_nil] at hc2
      have hc := h.cons
      rw [h.idle hr] at hc
      simp only [cur, idleKP, norm_nil, List.append_nil, List.append_assoc] at hc
      have : norm s.typeahead ++ norm s.pipe = (step (step s .start) (.read N)).kp.applied :=
        List.append_cancel_left (hc.trans hc2.symm)
      rw [this]; exact segments_noFin _ h2.settled.applied.noFin
  obtain ⟨f, hd⟩ := hdone
  refine ⟨e' ▸ h3, ?_, ?_, ?_⟩
  · rw [e', step_finish_done _ f r2 hd]
  · rw [e', step_finish_done _ f r2 hd]; exact p2
  · rw [e', step_finish_done _ f r2 hd]; simp [res2]

theorem rounds_complete (N : Nat) (k : Nat) : ∀ {s : St} {w : List Key}, Inv s w →
    s.running = false → s.pipe.length ≤ N →
    k ≤ (segments (norm s.typeahead ++ norm s.pipe)).length →
    Inv (run s (rounds N k)) w ∧ (run s (rounds N k)).running = false ∧
    (run s (rounds N k)).results.length = s.results.length + k := by
  induction k with
  | zero => intro s w h hr _ _; exact ⟨h, hr, rfl⟩
  | succ k ih =>
    intro s w h hr hp hk
    have hne : segments (norm s.typeahead ++ norm s.pipe) ≠ [] := by
      intro e; rw [e] at hk; simp at hk
    obtain ⟨h', hr', hp', hl'⟩ := one_round N h hr hp hne
    simp only [rounds, run_append]
    -- one line fewer is pending after the round
    have hc := h.cons
    rw [h.idle hr] at hc
    simp only [cur, idleKP, norm_nil, List.append_nil, List.append_assoc] at hc
    have hc' := h'.cons
    rw [h'.idle hr'] at hc'
    simp only [cur, idleKP, norm_nil, List.append_nil, List.append_assoc] at hc'
    have e1 := segments_flat s.results (norm s.typeahead ++ norm s.pipe) h.results
    have e2 := segments_flat _ (norm (run s [.start, .read N, .finish]).typeahead ++
      norm (run s [.start, .read N, .finish]).pipe) h'.results
    rw [hc] at e1; rw [hc'] at e2
    have hlen := congrArg List.length (e1.symm.trans e2)
    simp only [List.length_append, hl'] at hlen
    have := ih h' hr' (by rw [hp']; simp) (by omega)
    refine ⟨this.1, this.2.1, ?_⟩
    rw [this.2.2, hl']; omega

/-- **A script of k lines fed to k consecutive prompts yields exactly those k lines** when all
    bytes are delivered before the first prompt (every prompt starts, reads what is available and
    ends): the k prompts all finish — no accepting key is lost — and return the first k lines of
    the typed stream; CPR reports anywhere in `w` make no difference. -/
theorem all_at_once_k_prompts (w : List Key) (k : Nat) (hk : k ≤ (segments (norm w)).length) :
    ∀ s, s = run St.init (.write w :: rounds w.length k) →
    s.running = false ∧ s.results = (segments (norm w)).take k := by
  intro s hs
  have h0 : Inv (step St.init (.write w)) w := by simpa [evWritten] using inv_step inv_init (.write w)
  have hrun : s = run (step St.init (.write w)) (rounds w.length k) := by rw [hs]; rfl
  have := rounds_complete w.length k h0 (by simp [step, St.init]) (by simp [step, St.init])
    (by simpa [step, St.init, norm_nil] using hk)
  rw [← hrun] at this
  obtain ⟨hi, hr, hl⟩ := this
  refine ⟨hr, ?_⟩
  have hc := hi.cons
  simp only [List.append_assoc] at hc
  have e1 := segments_flat s.results
    (cur s.kp ++ (norm s.typeahead ++ (norm s.kp.queue ++ norm s.pipe))) hi.results
  rw [hc] at e1
  have hl' : s.results.length = k := by simpa [step, St.init] using hl
  rw [e1, ← hl']; simp

/-- the same for an explicit script `l₁ Enter … l_k Enter` and an arbitrary line editor -/
theorem script_all_at_once {α : Type} (render : List Key → α) (lines : List (List Key))
    (hl : ∀ l ∈ lines, AllOther l) (w : List Key) (hw : norm w = script lines) :
    ∀ s, s = run St.init (.write w :: rounds w.length lines.length) →
    s.running = false ∧ s.results.map (fun r => render r.1) = lines.map render ∧
    s.typeahead = [] ∧ norm s.pipe = [] := by
  intro s hs
  have hgood : ∀ r ∈ lines.map (fun l => (l, Key.accept)), GoodRes r := by
    intro r hr; simp at hr; obtain ⟨l, hl', rfl⟩ := hr; exact ⟨hl l hl', rfl⟩
  have hseg : segments (norm w) = lines.map (fun l => (l, Key.accept)) := by
    have := segments_flat _ [] hgood
    rw [List.append_nil] at this
    rw [hw, script_eq_flat, this]; simp [segments, segs]
  obtain ⟨hr, hres⟩ := all_at_once_k_prompts w lines.length (by rw [hseg, List.length_map]; exact Nat.le_refl _) s hs
  rw [hseg] at hres
  have hres' : s.results = lines.map (fun l => (l, Key.accept)) := by
    rw [hres]; exact List.take_of_length_le (by simp)
  refine ⟨hr, by rw [hres']; simp [Function.comp_def], ?_⟩
  -- nothing is left over
  have hi : Inv s w := by
    have := reachable_inv (.write w :: rounds w.length lines.length)
    rw [← hs] at this
    have hw' : written (.write w :: rounds w.length lines.length) = w := by
      have : ∀ k, written (rounds w.length k) = [] := by
        intro k; induction k with
        | zero => rfl
        | succ k ih => simp [rounds, written, ih]
      simp [written, this]
    rwa [hw'] at this
  have hc := hi.cons
  rw [hi.idle hr, hres', ← script_eq_flat, hw] at hc
  simp only [cur, idleKP, norm_nil, List.append_nil, List.append_assoc] at hc
  have : norm s.typeahead ++ norm s.pipe = [] := by
    have := List.append_cancel_left (hc.trans (List.append_nil _).symm)
    exact this
  have h1 : norm s.typeahead = [] := (List.append_eq_nil_iff.1 this).1
  have h2 : norm s.pipe = [] := (List.append_eq_nil_iff.1 this).2
  refine ⟨?_, h2⟩
  have := hi.taNoCpr
  have e := dropCpr_of_count_zero _ this
  simp only [norm, e, List.map_eq_nil_iff] at h1; exact h1


/-! ## Non-vacuity: the hypotheses are satisfiable on non-trivial schedules, and the model really
    exhibits type-ahead (checked by kernel evaluation) -/
section examples

/-- a schedule with type-ahead, a CPR report before and after the accepting key, c-j and c-c -/
def exEvs : List Ev :=
  [.start, .write [.other 97, .cpr, .accept, .other 98], .read 3,
   .write [.cpr, .cj, .other 99, .abort], .read 10, .finish,
   .start, .finish, .start, .read 1, .finish]

example : (run St.init exEvs).results =
    [([.other 97], .accept), ([.other 98], .accept), ([.other 99], .abort)] := by decide
example : norm (written exEvs) =
    [.other 97, .accept, .other 98, .accept, .other 99, .abort] := by decide
-- in the middle of `exEvs`: result set, two CPR reports consumed, later keys kept in the queue
example : (run St.init (exEvs.take 5)).kp =
    ⟨[.other 98, .cj, .other 99, .abort], some .accept, [.other 97], 2⟩ := by decide
-- the same keys, other chunking / CPR placement / read sizes / finish points: same results
def exEvs' : List Ev :=
  [.write [.other 97], .write [.accept, .cpr, .cpr, .other 98, .cj], .start, .read 1, .read 1, .finish,
   .read 7, .start, .write [.other 99], .read 2, .finish, .start, .read 9, .write [.abort, .cpr],
   .read 1, .finish, .read 1, .start, .finish]
example : norm (written exEvs) = norm (written exEvs') := by decide
example : (run St.init exEvs').results = (run St.init exEvs).results := by decide
example : (run St.init exEvs').results = (run St.init exEvs).results :=
  results_schedule_independent _ _ (by decide) (by decide)

-- k_lines_k_prompts: hypotheses hold for a 2-line script with a tail, CPRs and c-j in the stream
example : norm [Key.other 1, .cpr, .other 2, .cj, .cpr, .other 3, .accept, .other 4]
    = script [[.other 1, .other 2], [.other 3]] ++ [.other 4] := by decide
example : ∀ l ∈ [[Key.other 1, .other 2], [.other 3]], AllOther l := by
  intro l hl; simp at hl; rcases hl with rfl | rfl <;> intro k hk <;> simp at hk <;>
    (rcases hk with rfl | rfl) <;> rfl
example : NoFin [Key.other 4] := by intro k hk; simp at hk; subst hk; rfl

-- process_keys_splits_at_accept on a queue with CPR reports on both sides of c-j
example : processKeys ⟨[.other 1, .cpr] ++ .cj :: [.cpr, .other 2, .accept], none, [.other 0], 5⟩ =
    ⟨[.other 2, .accept], some .accept, [.other 0, .other 1], 7⟩ := by decide

-- accepted_line_frozen / after_accept_goes_next: a reachable state with a result and kept keys
example : let s := run St.init (exEvs.take 5)
    s.running = true ∧ s.kp.done = some .accept ∧ s.typeahead = [] ∧ s.kp.queue ≠ [] := by decide

-- all_at_once_k_prompts: 3 lines written at once (with CPR reports), 3 prompts
example : (segments (norm (written exEvs))).length = 3 := by decide
example : (run St.init (.write (written exEvs) :: rounds (written exEvs).length 3)).results =
    [([.other 97], .accept), ([.other 98], .accept), ([.other 99], .abort)] := by decide

-- waiting_prompt_has_everything_read: a prompt that waits although an Enter was typed has it
-- still unread in the pipe
example : let s := run St.init [.start, .write [.other 1, .accept], .read 1]
    s.running = true ∧ s.kp.done = none ∧ s.pipe = [.accept] ∧ s.kp.applied = [.other 1] := by decide

-- the stale reader callback: a read between two prompts leaves the pipe alone
example : (run St.init [.write [.other 1], .read 5]).pipe = [.other 1] := by decide

/-! why the `is_done` gate matters: a `process_keys` that keeps popping the queue after the result
    is set applies the keys typed after Enter to the accepted line (and loses them for the next
    prompt) — the theorems above fail for it -/
def iterNoGate : Nat → KP → KP
  | 0, p => p
  | n + 1, p =>
    match p.queue with
    | [] => p
    | k :: q => iterNoGate n (handle { p with queue := q } k)

theorem no_gate_misapplies_typeahead :
    (iterNoGate 5 ⟨[.other 97, .accept, .other 98], none, [], 0⟩).applied = [.other 97, .other 98] ∧
    (iterNoGate 5 ⟨[.other 97, .accept, .other 98], none, [], 0⟩).queue = [] ∧
    (processKeys ⟨[.other 97, .accept, .other 98], none, [], 0⟩).applied = [.other 97] ∧
    (processKeys ⟨[.other 97, .accept, .other 98], none, [], 0⟩).queue = [.other 98] := by decide

end examples

end Ptk.C17
