/-
  C17 — property theorems for the accept boundary / type-ahead model (`Ptk.Model.C17`).

  All theorems quantify over EVERY schedule `evs : List Ev` (writes of any chunks, reads of any
  size at any time, starts and finishes anywhere — also nonsensical ones, which the model treats
  like the code does: a start while running and a finish without result are no-ops, a read while
  nothing runs is ignored), every key stream and every placement of CPR reports.

  Main results
    no_loss_no_dup                 conservation of the typed key stream, in order
    results_are_segments / results_eq_take / results_schedule_independent
    k_lines_k_prompts              k lines -> the prompts return exactly these lines (any editor)
    all_at_once_k_prompts / script_all_at_once   fair schedule: all k prompts DO finish
    waiting_prompt_has_everything_read / accepted_prompt_keeps_later_keys /
    idle_state_keeps_everything    where every key is, in each phase
    accepted_line_frozen           keys after the accepting key never touch the accepted line
    after_accept_goes_next         they are replayed, in order, to the next prompt
    process_keys_splits_at_accept / process_keys_applies_all / processKeys_stable
    cpr_never_text                 CPR reports are never applied, stored or returned

  PARTIAL (stated in DESIGN §7 C17): timer expiry (`_Flush`, `flush_input`) and the bytes→keys
  parser are not in the model; OS pipe / event loop scheduling are the nondeterministic schedule.
-/
import Ptk.Model.C17
namespace Ptk.C17
open Ptk.Py
theorem dropCpr_append (a b : List Key) : dropCpr (a ++ b) = dropCpr a ++ dropCpr b := by
  induction a with
  | nil => rfl
  | cons k a ih => simp only [List.cons_append, dropCpr]; split <;> simp [ih]
theorem countCpr_append (a b : List Key) : countCpr (a ++ b) = countCpr a + countCpr b := by
  induction a with
  | nil => simp [countCpr]
  | cons k a ih => simp only [List.cons_append, countCpr]; split <;> omega
theorem dropCpr_idem (a : List Key) : dropCpr (dropCpr a) = dropCpr a := by
  induction a with
  | nil => rfl
  | cons k a ih =>
    simp only [dropCpr]; split
    · exact ih
    · rename_i h; simp [dropCpr, h, ih]
theorem hasCpr_eq_false_iff (q : List Key) : hasCpr q = false ↔ countCpr q = 0 := by
  induction q with
  | nil => simp [hasCpr, countCpr]
  | cons k q ih => cases h : k.isCpr <;> simp [hasCpr, countCpr, h, ih]
theorem dropCpr_of_count_zero (q : List Key) (h : countCpr q = 0) : dropCpr q = q := by
  induction q with
  | nil => rfl
  | cons k q ih =>
    cases hk : k.isCpr <;> simp [countCpr, hk] at h
    simp [dropCpr, hk, ih h]
theorem countCpr_dropCpr (q : List Key) : countCpr (dropCpr q) = 0 := by
  induction q with
  | nil => rfl
  | cons k q ih => cases hk : k.isCpr <;> simp [dropCpr, countCpr, hk, ih]
theorem removeFirstCpr_spec (q : List Key) (h : hasCpr q = true) :
    dropCpr (removeFirstCpr q) = dropCpr q ∧ countCpr (removeFirstCpr q) + 1 = countCpr q := by
  induction q with
  | nil => simp [hasCpr] at h
  | cons k q ih =>
    cases hk : k.isCpr
    · simp [hasCpr, hk] at h
      have := ih h
      simp [removeFirstCpr, dropCpr, countCpr, hk, this.1, this.2]
    · simp [removeFirstCpr, dropCpr, countCpr, hk]
theorem countCpr_le_length (q : List Key) : countCpr q ≤ q.length := by
  induction q with
  | nil => simp [countCpr]
  | cons k q ih => simp only [countCpr, List.length_cons]; split <;> omega

/-- closed form of `process_keys` once the result is set: exactly the CPR responses are consumed -/
def afterDone (q : List Key) (f : Key) (a : List Key) (c w : Nat) : KP :=
  ⟨dropCpr q, some f, a, c + countCpr q, w - countCpr q⟩

theorem iter_done (n : Nat) : ∀ (q : List Key) (f : Key) (a : List Key) (c w : Nat),
    countCpr q ≤ n → iter n ⟨q, some f, a, c, w⟩ = afterDone q f a c w := by
  induction n with
  | zero =>
    intro q f a c w h
    have h0 : countCpr q = 0 := by omega
    simp [iter, afterDone, h0, dropCpr_of_count_zero q h0]
  | succ n ih =>
    intro q f a c w h
    cases hq : hasCpr q
    · have h0 := (hasCpr_eq_false_iff q).1 hq
      simp [iter, procStep, notEmpty, hq, afterDone, h0, dropCpr_of_count_zero q h0]
    · have sp := removeFirstCpr_spec q hq
      simp only [iter, procStep, notEmpty, Option.isSome_some, if_true, hq, handle]
      rw [ih _ _ _ _ _ (by omega)]
      simp only [afterDone, sp.1]
      congr 1 <;> omega

/-- closed form of `process_keys` while no result is set -/
def live (a : List Key) (c w : Nat) : List Key → KP
  | [] => ⟨[], none, a, c, w⟩
  | .cpr :: q => live a (c + 1) (w - 1) q
  | .other n :: q => live (a ++ [.other n]) c w q
  | .accept :: q => afterDone q .accept a c w
  | .abort :: q => afterDone q .abort a c w
  | .cj :: q => afterDone q .accept a c w

theorem iter_live : ∀ (q : List Key) (n : Nat) (a : List Key) (c w : Nat),
    q.length + 1 ≤ n → iter n ⟨q, none, a, c, w⟩ = live a c w q := by
  intro q
  induction q with
  | nil =>
    intro n a c w _
    cases n <;> simp [iter, procStep, notEmpty, live]
  | cons k q ih =>
    intro n a c w h
    obtain ⟨m, rfl⟩ : ∃ m, n = m + 1 := ⟨n - 1, by simp at h; omega⟩
    have hm : q.length + 1 ≤ m := by simp at h; omega
    have hc := countCpr_le_length q
    cases k with
    | cpr => simp [iter, procStep, notEmpty, handle, live, ih m a (c + 1) (w - 1) hm]
    | other x => simp [iter, procStep, notEmpty, handle, live, ih m _ c w hm]
    | accept => simp [iter, procStep, notEmpty, handle, live, iter_done m q _ a c w (by omega)]
    | abort => simp [iter, procStep, notEmpty, handle, live, iter_done m q _ a c w (by omega)]
    | cj =>
      obtain ⟨m', rfl⟩ : ∃ m', m = m' + 1 := ⟨m - 1, by omega⟩
      simp [iter, procStep, notEmpty, handle, live, iter_done m' q _ a c w (by omega)]

theorem processKeys_live (q a : List Key) (c w : Nat) :
    processKeys ⟨q, none, a, c, w⟩ = live a c w q := by
  unfold processKeys; exact iter_live q _ a c w (by simp; omega)

theorem processKeys_done (q : List Key) (f : Key) (a : List Key) (c w : Nat) :
    processKeys ⟨q, some f, a, c, w⟩ = afterDone q f a c w := by
  unfold processKeys; exact iter_done _ q f a c w (by have := countCpr_le_length q; simp; omega)


/-! ### the loop really ended: its condition is false afterwards -/
theorem procStep_afterDone (q : List Key) (f : Key) (a : List Key) (c w : Nat) :
    procStep (afterDone q f a c w) = none := by
  have : hasCpr (dropCpr q) = false := (hasCpr_eq_false_iff _).2 (countCpr_dropCpr q)
  simp [procStep, notEmpty, afterDone, this]

theorem procStep_live (q a : List Key) (c w : Nat) : procStep (live a c w q) = none := by
  induction q generalizing a c w with
  | nil => simp [live, procStep, notEmpty]
  | cons k q ih =>
    cases k <;> simp only [live] <;> first | exact ih _ _ _ | exact procStep_afterDone _ _ _ _ _

/-! ### normal form of a key stream and conservation -/
def normKey : Key → Key
  | .cj => .accept
  | k => k

/-- what a key stream means to the prompts: CPR reports are not keys, c-j is Enter -/
def norm (l : List Key) : List Key := (dropCpr l).map normKey

theorem norm_append (a b : List Key) : norm (a ++ b) = norm a ++ norm b := by
  simp [norm, dropCpr_append]

theorem norm_dropCpr (a : List Key) : norm (dropCpr a) = norm a := by
  simp [norm, dropCpr_idem]

theorem norm_nil : norm [] = [] := rfl

/-- the keys the current application has taken so far, including the key that ended it -/
def cur (p : KP) : List Key :=
  p.applied ++ (match p.done with | some f => [f] | none => [])

theorem afterDone_conserve (q : List Key) (f : Key) (a : List Key) (c w : Nat) :
    cur (afterDone q f a c w) ++ norm (afterDone q f a c w).queue = a ++ [f] ++ norm q := by
  simp [cur, afterDone, norm_dropCpr]

theorem live_conserve (q a : List Key) (c w : Nat) :
    cur (live a c w q) ++ norm (live a c w q).queue = a ++ norm q := by
  induction q generalizing a c w with
  | nil => simp [live, cur, norm, dropCpr]
  | cons k q ih =>
    cases k with
    | cpr => simp only [live]; rw [ih]; simp [norm, dropCpr, Key.isCpr]
    | other x => simp only [live]; rw [ih]; simp [norm, dropCpr, Key.isCpr, normKey]
    | accept => simp only [live]; rw [afterDone_conserve]; simp [norm, dropCpr, Key.isCpr, normKey]
    | abort => simp only [live]; rw [afterDone_conserve]; simp [norm, dropCpr, Key.isCpr, normKey]
    | cj => simp only [live]; rw [afterDone_conserve]; simp [norm, dropCpr, Key.isCpr, normKey]

theorem processKeys_conserve (p : KP) :
    cur (processKeys p) ++ norm (processKeys p).queue = cur p ++ norm p.queue := by
  obtain ⟨q, d, a, c, w⟩ := p
  cases d with
  | none => rw [processKeys_live, live_conserve]; simp [cur]
  | some f => rw [processKeys_done, afterDone_conserve]; simp [cur]


/-! ### facts about the closed forms -/
def Key.isOther : Key → Bool
  | .other _ => true
  | _ => false

/-- only ordinary key presses (no accepting key, no CPR report, no c-j) -/
def AllOther (l : List Key) : Prop := ∀ k ∈ l, k.isOther = true

theorem AllOther.nil : AllOther [] := by intro k h; cases h
theorem AllOther.append {a b : List Key} (ha : AllOther a) (hb : AllOther b) : AllOther (a ++ b) := by
  intro k h; rcases List.mem_append.1 h with h | h
  · exact ha k h
  · exact hb k h

def NoCpr (l : List Key) : Prop := countCpr l = 0

theorem noCpr_dropCpr (q : List Key) : NoCpr (dropCpr q) := countCpr_dropCpr q
theorem NoCpr.append {a b : List Key} (ha : NoCpr a) (hb : NoCpr b) : NoCpr (a ++ b) := by
  unfold NoCpr at *; rw [countCpr_append]; omega
theorem AllOther.noCpr {l : List Key} (h : AllOther l) : NoCpr l := by
  induction l with
  | nil => rfl
  | cons k l ih =>
    have hk := h k (List.mem_cons_self ..)
    have : AllOther l := fun x hx => h x (List.mem_cons_of_mem _ hx)
    cases k <;> simp [Key.isOther] at hk
    simp [NoCpr, countCpr, Key.isCpr]; exact ih this

/-- what `process_keys` guarantees about the state it leaves -/
structure Settled (p : KP) : Prop where
  applied : AllOther p.applied
  fin : ∀ f, p.done = some f → f.isFin = true
  drained : p.done = none → p.queue = []
  noCpr : NoCpr p.queue

theorem settled_afterDone (q : List Key) (f : Key) (a : List Key) (c w : Nat)
    (ha : AllOther a) (hf : f.isFin = true) : Settled (afterDone q f a c w) :=
  ⟨ha, by intro g h; simp [afterDone] at h; subst h; exact hf,
   by intro h; simp [afterDone] at h, noCpr_dropCpr q⟩

theorem settled_live (q a : List Key) (c w : Nat) (ha : AllOther a) : Settled (live a c w q) := by
  induction q generalizing a c w with
  | nil => exact ⟨ha, by simp [live], by simp [live], rfl⟩
  | cons k q ih =>
    cases k with
    | cpr => exact ih a (c + 1) (w - 1) ha
    | other x =>
      exact ih _ c w (ha.append (by intro k hk; simp at hk; subst hk; rfl))
    | accept => exact settled_afterDone q _ a c w ha rfl
    | abort => exact settled_afterDone q _ a c w ha rfl
    | cj => exact settled_afterDone q _ a c w ha rfl

theorem settled_processKeys (p : KP) (ha : AllOther p.applied)
    (hf : ∀ f, p.done = some f → f.isFin = true) : Settled (processKeys p) := by
  obtain ⟨q, d, a, c, w⟩ := p
  cases d with
  | none => rw [processKeys_live]; exact settled_live q a c w ha
  | some f => rw [processKeys_done]; exact settled_afterDone q f a c w ha (hf f rfl)

/-- once the result is set, `process_keys` changes neither the applied keys nor the result -/
theorem processKeys_frozen (q : List Key) (f : Key) (a : List Key) (c w : Nat) :
    (processKeys ⟨q, some f, a, c, w⟩).applied = a ∧ (processKeys ⟨q, some f, a, c, w⟩).done = some f ∧
    (processKeys ⟨q, some f, a, c, w⟩).queue = dropCpr q ∧
    (processKeys ⟨q, some f, a, c, w⟩).cprs = c + countCpr q ∧
    (processKeys ⟨q, some f, a, c, w⟩).waiting = w - countCpr q := by
  rw [processKeys_done]; simp [afterDone]

/-! ### the reachable states -/
def flat : List Res → List Key
  | [] => []
  | r :: rs => r.1 ++ [r.2] ++ flat rs

theorem flat_append (a b : List Res) : flat (a ++ b) = flat a ++ flat b := by
  induction a with
  | nil => rfl
  | cons r a ih => simp [flat, ih]

/-- a finished prompt: only ordinary keys were applied, and an accepting key ended it -/
def GoodRes (r : Res) : Prop := AllOther r.1 ∧ r.2.isFin = true

structure Inv (s : St) (w : List Key) : Prop where
  /-- conservation: consumed keys ++ keys still waiting = typed keys, in order -/
  cons : flat s.results ++ cur s.kp ++ norm s.typeahead ++ norm s.kp.queue ++ norm s.pipe = norm w
  settled : Settled s.kp
  idle : s.running = false → s.exiting = false → s.kp = idleKP
  taEmpty : (s.running = true ∨ s.exiting = true) → s.typeahead = []
  taNoCpr : NoCpr s.typeahead
  results : ∀ r ∈ s.results, GoodRes r
  /-- the CPR wait belongs to an application whose result is set -/
  exitingOk : s.exiting = true → s.running = false ∧ ∃ f, s.kp.done = some f

theorem settled_idle : Settled idleKP :=
  ⟨AllOther.nil, by simp [idleKP], by simp [idleKP], rfl⟩

theorem inv_init (r : Bool) : Inv (St.init r) [] :=
  ⟨rfl, settled_idle, fun _ _ => rfl,
   fun h => by simp [St.init] at h, rfl, (by intro r h; cases h), fun h => by simp [St.init] at h⟩

def evWritten : Ev → List Key
  | .write c => c
  | _ => []

/-- the end of the exit path keeps the invariant -/
theorem inv_leave {s : St} {w : List Key} (h : Inv s w) (f : Key) (hd : s.kp.done = some f)
    (hta : s.typeahead = []) : Inv (leave s f) w := by
  refine ⟨?_, settled_idle, fun _ _ => rfl, by simp [leave], ?_, ?_, by simp [leave]⟩
  · have hc := h.cons
    simp only [cur, hd] at hc
    rw [← hc]
    simp [leave, hta, flat_append, flat, cur, idleKP, norm_append, norm_dropCpr, norm_nil]
  · simp only [leave]; exact h.taNoCpr.append (noCpr_dropCpr _)
  · intro r hrm
    simp only [leave] at hrm
    rcases List.mem_append.1 hrm with hrm | hrm
    · exact h.results r hrm
    · simp at hrm; subst hrm
      exact ⟨h.settled.applied, h.settled.fin f hd⟩

theorem settled_waiting {p : KP} (h : Settled p) (x : Nat) : Settled { p with waiting := x } :=
  ⟨h.applied, h.fin, h.drained, h.noCpr⟩

theorem inv_step {s : St} {w : List Key} (h : Inv s w) (e : Ev) :
    Inv (step s e) (w ++ evWritten e) := by
  cases e with
  | write c =>
    refine ⟨?_, h.settled, h.idle, h.taEmpty, h.taNoCpr, h.results, h.exitingOk⟩
    simp only [step, evWritten, norm_append, ← h.cons]; simp
  | start =>
    simp only [step, evWritten, List.append_nil]
    split
    · exact h
    · rename_i hc
      have hr : s.running = false := by cases hr : s.running <;> simp_all
      have he : s.exiting = false := by cases he : s.exiting <;> simp_all
      have hk := h.idle hr he
      have hcons := h.cons
      rw [hk] at hcons
      have hs : Settled (processKeys ⟨s.typeahead, none, [], 0, 0⟩) :=
        settled_processKeys _ AllOther.nil (by simp)
      refine ⟨?_, settled_waiting hs _, fun hf => (by cases hf), fun _ => rfl, rfl, h.results,
        fun hf => (by rw [he] at hf; cases hf)⟩
      have pc := processKeys_conserve ⟨s.typeahead, none, [], 0, 0⟩
      simp only [norm_nil, List.append_nil]
      have e1 : cur { processKeys ⟨s.typeahead, none, [], 0, 0⟩ with
          waiting := if (s.responds && (processKeys ⟨s.typeahead, none, [], 0, 0⟩).queue.isEmpty &&
            (processKeys ⟨s.typeahead, none, [], 0, 0⟩).done.isNone) = true then 1 else 0 } =
          cur (processKeys ⟨s.typeahead, none, [], 0, 0⟩) := rfl
      rw [e1, List.append_assoc (flat s.results), pc, ← hcons]
      simp [cur, idleKP, norm_nil]
  | read n =>
    simp only [step, evWritten, List.append_nil]
    split
    · exact h
    · rename_i hc
      have hre : s.running = true ∨ s.exiting = true := by
        cases hr : s.running with
        | true => exact Or.inl rfl
        | false =>
          cases he : s.exiting with
          | true => exact Or.inr rfl
          | false => simp [hr, he] at hc
      have hta := h.taEmpty hre
      have hs : Settled (processKeys { s.kp with queue := s.kp.queue ++ s.pipe.take n }) :=
        settled_processKeys _ h.settled.applied h.settled.fin
      have hdone : ∀ f, s.kp.done = some f →
          (processKeys { s.kp with queue := s.kp.queue ++ s.pipe.take n }).done = some f := by
        intro f hd
        cases hkp : s.kp with
        | mk q d a c w' =>
          rw [hkp] at hd; simp only at hd; subst hd
          exact (processKeys_frozen _ f a c w').2.1
      refine ⟨?_, hs, ?_, fun _ => hta, h.taNoCpr, h.results, ?_⟩
      · have pc := processKeys_conserve { s.kp with queue := s.kp.queue ++ s.pipe.take n }
        have hcons := h.cons
        rw [hta] at hcons ⊢
        simp only [norm_nil, List.append_nil] at hcons ⊢
        rw [List.append_assoc (flat s.results), pc, ← hcons]
        have : norm s.pipe = norm (s.pipe.take n) ++ norm (s.pipe.drop n) := by
          rw [← norm_append, List.take_append_drop]
        simp [cur, norm_append, this]
      · intro hr he
        rcases hre with h1 | h1
        · rw [h1] at hr; cases hr
        · rw [h1] at he; cases he
      · intro he
        obtain ⟨h1, f, hf⟩ := h.exitingOk he
        exact ⟨h1, f, hdone f hf⟩
  | finish =>
    simp only [step, evWritten, List.append_nil]
    cases hr : s.running with
    | false => simpa [hr] using h
    | true =>
      cases hd : s.kp.done with
      | none => simpa [hr, hd] using h
      | some f =>
        simp only []
        have hta := h.taEmpty (Or.inl hr)
        split
        · refine ⟨h.cons, h.settled, by simp, fun _ => hta, h.taNoCpr, h.results, fun _ => ⟨rfl, f, hd⟩⟩
        · exact inv_leave h f hd hta
  | endWait =>
    simp only [step, evWritten, List.append_nil]
    cases he : s.exiting with
    | false => simpa [he] using h
    | true =>
      cases hd : s.kp.done with
      | none => simpa [he, hd] using h
      | some f => exact inv_leave h f hd (h.taEmpty (Or.inr he))

theorem written_eq (evs : List Ev) : written evs = (evs.map evWritten).flatten := by
  induction evs with
  | nil => rfl
  | cons e es ih => cases e <;> simp [written, evWritten, ih]

theorem inv_run {s : St} {w : List Key} (h : Inv s w) (evs : List Ev) :
    Inv (run s evs) (w ++ written evs) := by
  induction evs generalizing s w with
  | nil => simpa [run, written] using h
  | cons e es ih =>
    have := ih (inv_step h e)
    simp only [run]
    have hw : w ++ written (e :: es) = w ++ evWritten e ++ written es := by
      cases e <;> simp [written, evWritten]
    rw [hw]; exact this


/-! ### cutting a key stream at the accepting keys -/
def NoFin (l : List Key) : Prop := ∀ k ∈ l, k.isFin = false

theorem AllOther.noFin {l : List Key} (h : AllOther l) : NoFin l := by
  intro k hk; have := h k hk; cases k <;> simp [Key.isOther] at this; rfl

/-- the complete lines of a key stream: (keys of the line, the key that ended it) -/
def segs : List Key → List Key → List Res
  | _, [] => []
  | acc, k :: l => if k.isFin then (acc, k) :: segs [] l else segs (acc ++ [k]) l

def segments (l : List Key) : List Res := segs [] l

/-- the keys after the last accepting key -/
def rest : List Key → List Key → List Key
  | acc, [] => acc
  | acc, k :: l => if k.isFin then rest [] l else rest (acc ++ [k]) l

def unfinished (l : List Key) : List Key := rest [] l

theorem segs_line (acc a : List Key) (f : Key) (l : List Key) (ha : NoFin a) (hf : f.isFin = true) :
    segs acc (a ++ f :: l) = (acc ++ a, f) :: segs [] l := by
  induction a generalizing acc with
  | nil => simp [segs, hf]
  | cons k a ih =>
    have hk : k.isFin = false := ha k (List.mem_cons_self ..)
    have ha' : NoFin a := fun x hx => ha x (List.mem_cons_of_mem _ hx)
    simp only [List.cons_append, segs, hk, Bool.false_eq_true, if_false]
    rw [ih _ ha']; simp

theorem segs_noFin (acc a : List Key) (ha : NoFin a) : segs acc a = [] := by
  induction a generalizing acc with
  | nil => rfl
  | cons k a ih =>
    have hk : k.isFin = false := ha k (List.mem_cons_self ..)
    have ha' : NoFin a := fun x hx => ha x (List.mem_cons_of_mem _ hx)
    simp only [segs, hk, Bool.false_eq_true, if_false]; exact ih _ ha'

theorem rest_line (acc a : List Key) (f : Key) (l : List Key) (ha : NoFin a) (hf : f.isFin = true) :
    rest acc (a ++ f :: l) = rest [] l := by
  induction a generalizing acc with
  | nil => simp [rest, hf]
  | cons k a ih =>
    have hk : k.isFin = false := ha k (List.mem_cons_self ..)
    have ha' : NoFin a := fun x hx => ha x (List.mem_cons_of_mem _ hx)
    simp only [List.cons_append, rest, hk, Bool.false_eq_true, if_false]
    exact ih _ ha'

theorem rest_noFin (acc a : List Key) (ha : NoFin a) : rest acc a = acc ++ a := by
  induction a generalizing acc with
  | nil => simp [rest]
  | cons k a ih =>
    have hk : k.isFin = false := ha k (List.mem_cons_self ..)
    have ha' : NoFin a := fun x hx => ha x (List.mem_cons_of_mem _ hx)
    simp only [rest, hk, Bool.false_eq_true, if_false]; rw [ih _ ha']; simp

/-- the decomposition into lines is unique: whatever follows, well-formed results that
    start a stream are its first segments -/
theorem segments_flat (R : List Res) (x : List Key) (hR : ∀ r ∈ R, GoodRes r) :
    segments (flat R ++ x) = R ++ segments x := by
  induction R with
  | nil => rfl
  | cons r R ih =>
    have hr := hR r (List.mem_cons_self ..)
    have hR' : ∀ r ∈ R, GoodRes r := fun y hy => hR y (List.mem_cons_of_mem _ hy)
    have e : flat (r :: R) ++ x = r.1 ++ r.2 :: (flat R ++ x) := by simp [flat]
    have := segs_line [] r.1 r.2 (flat R ++ x) hr.1.noFin hr.2
    rw [e]; unfold segments at ih ⊢
    rw [this, ih hR']; simp

theorem unfinished_flat (R : List Res) (x : List Key) (hR : ∀ r ∈ R, GoodRes r) :
    unfinished (flat R ++ x) = unfinished x := by
  induction R with
  | nil => rfl
  | cons r R ih =>
    have hr := hR r (List.mem_cons_self ..)
    have hR' : ∀ r ∈ R, GoodRes r := fun y hy => hR y (List.mem_cons_of_mem _ hy)
    have e : flat (r :: R) ++ x = r.1 ++ r.2 :: (flat R ++ x) := by simp [flat]
    have := rest_line [] r.1 r.2 (flat R ++ x) hr.1.noFin hr.2
    rw [e]; unfold unfinished at ih ⊢
    rw [this]; exact ih hR'


/-! ## The property theorems -/

/-- every state a schedule can reach from the initial state satisfies the invariant -/
theorem reachable_inv (r : Bool) (evs : List Ev) : Inv (run (St.init r) evs) (written evs) := by
  simpa using inv_run (inv_init r) evs

/-- **No key is lost, duplicated or reordered**, for every schedule (any chunking of the writes,
    any read sizes, any placement of starts / finishes, CPR reports anywhere):
    keys consumed by the finished prompts ++ keys taken by the current prompt ++ type-ahead store
    ++ input queue ++ unread pipe  =  the typed key stream (CPR reports removed, c-j = Enter). -/
theorem no_loss_no_dup (r : Bool) (evs : List Ev) :
    ∀ s, s = run (St.init r) evs →
    flat s.results ++ cur s.kp ++ norm s.typeahead ++ norm s.kp.queue ++ norm s.pipe
      = norm (written evs) :=
  fun _ hs => hs ▸ (reachable_inv r evs).cons

/-- the finished prompts are exactly the first lines of the typed stream -/
theorem results_are_segments (r : Bool) (evs : List Ev) :
    ∀ s, s = run (St.init r) evs →
    ∃ more, segments (norm (written evs)) = s.results ++ more := by
  intro s hs
  have h : Inv s (written evs) := hs ▸ reachable_inv r evs
  have hc := h.cons
  simp only [List.append_assoc] at hc
  refine ⟨segments (cur s.kp ++ (norm s.typeahead ++ (norm s.kp.queue ++ norm s.pipe))), ?_⟩
  rw [← hc]; exact segments_flat _ _ h.results

theorem results_eq_take (r : Bool) (evs : List Ev) :
    (run (St.init r) evs).results =
      (segments (norm (written evs))).take (run (St.init r) evs).results.length := by
  obtain ⟨more, h⟩ := results_are_segments r evs _ rfl
  rw [h]; simp

/-- **Timing and chunking do not matter**: two schedules that type the same keys (possibly with
    different CPR reports at different places) and complete the same number of prompts return
    the same lines. -/
theorem results_schedule_independent (r : Bool) (evs₁ evs₂ : List Ev)
    (hw : norm (written evs₁) = norm (written evs₂))
    (hn : (run (St.init r) evs₁).results.length = (run (St.init r) evs₂).results.length) :
    (run (St.init r) evs₁).results = (run (St.init r) evs₂).results := by
  rw [results_eq_take r evs₁, results_eq_take r evs₂, hw, hn]

/-- the script made of the given lines, each ended by Enter -/
def script : List (List Key) → List Key
  | [] => []
  | l :: ls => l ++ [.accept] ++ script ls

theorem script_eq_flat (lines : List (List Key)) :
    script lines = flat (lines.map fun l => (l, Key.accept)) := by
  induction lines with
  | nil => rfl
  | cons l ls ih => simp [script, flat, ih]

/-- **k lines → k prompts**: if the typed stream (after removing CPR reports, c-j counted as Enter)
    is `l₁ Enter l₂ Enter … l_k Enter tail`, then under every schedule the prompts that finish
    return `l₁, l₂, …` in this order — for an arbitrary line editor `render` — and when k prompts
    have finished they are exactly the k lines. -/
theorem k_lines_k_prompts (r : Bool) {α : Type} (render : List Key → α)
    (lines : List (List Key)) (tail : List Key)
    (hl : ∀ l ∈ lines, AllOther l) (ht : NoFin tail)
    (evs : List Ev) (hw : norm (written evs) = script lines ++ tail) :
    ∀ s, s = run (St.init r) evs →
    s.results.length ≤ lines.length ∧
    s.results.map (fun r => (render r.1, r.2)) =
      (lines.take s.results.length).map (fun l => (render l, Key.accept)) ∧
    (s.results.length = lines.length → s.results.map (fun r => render r.1) = lines.map render) := by
  intro s hs
  have hgood : ∀ r ∈ lines.map (fun l => (l, Key.accept)), GoodRes r := by
    intro r hr; simp at hr; obtain ⟨l, hl', rfl⟩ := hr; exact ⟨hl l hl', rfl⟩
  have hseg : segments (norm (written evs)) = lines.map (fun l => (l, Key.accept)) := by
    rw [hw, script_eq_flat, segments_flat _ _ hgood]
    simp [segments, segs_noFin [] tail ht]
  have ht := results_eq_take r evs
  rw [hseg, ← hs] at ht
  have hlen : s.results.length ≤ lines.length := by
    have := congrArg List.length ht
    simp at this; omega
  have hres : s.results = (lines.take s.results.length).map (fun l => (l, Key.accept)) := by
    rw [List.map_take]; exact ht
  generalize s.results.length = n at hres hlen
  refine ⟨hlen, ?_, ?_⟩
  · rw [hres]; simp [Function.comp_def]
  · intro hk
    rw [hres, hk]; simp [Function.comp_def]

/-- **CPR reports never become text** (nor type-ahead): in every reachable state the keys applied
    to the current prompt, the keys of every finished prompt and the type-ahead store contain no
    CPR report, and a CPR report never ends a prompt. -/
theorem cpr_never_text (r : Bool) (evs : List Ev) :
    ∀ s, s = run (St.init r) evs →
    NoCpr s.kp.applied ∧ NoCpr s.typeahead ∧
    (∀ r ∈ s.results, NoCpr r.1 ∧ r.2.isCpr = false) ∧
    (s.kp.done.isSome = true → NoCpr s.kp.queue) := by
  intro s hs
  have h : Inv s (written evs) := hs ▸ reachable_inv r evs
  refine ⟨h.settled.applied.noCpr, h.taNoCpr, ?_, fun _ => h.settled.noCpr⟩
  intro r hr
  have := h.results r hr
  refine ⟨this.1.noCpr, ?_⟩
  have h2 := this.2
  cases hk : r.2 <;> simp [hk, Key.isFin, Key.isCpr] at h2 ⊢

/-- **Nothing stays stuck**: while a prompt waits for its result, every key that was read has been
    handed to the bindings (the queue is empty and the type-ahead store is empty), so the typed
    stream is  finished lines ++ keys applied to this prompt ++ what is still unread in the pipe.
    In particular a prompt can only wait forever if no accepting key is left outside the pipe. -/
theorem waiting_prompt_has_everything_read (r : Bool) (evs : List Ev) :
    ∀ s, s = run (St.init r) evs →
    s.running = true → s.kp.done = none →
    s.kp.queue = [] ∧ s.typeahead = [] ∧
    norm (written evs) = flat s.results ++ s.kp.applied ++ norm s.pipe := by
  intro s hs hr hd
  have h : Inv s (written evs) := hs ▸ reachable_inv r evs
  have hq := h.settled.drained hd
  have hta := h.taEmpty (Or.inl hr)
  refine ⟨hq, hta, ?_⟩
  have hc := h.cons
  rw [hq, hta] at hc
  simp only [cur, hd, norm_nil, List.append_nil] at hc
  exact hc.symm

/-- **Keys after the accepting key are not applied to the accepted line**: between the accepting
    key `f` and the end of the application, the typed stream is
    finished lines ++ accepted line ++ [f] ++ queue (kept) ++ unread pipe. -/
theorem accepted_prompt_keeps_later_keys (r : Bool) (evs : List Ev) (f : Key) :
    ∀ s, s = run (St.init r) evs →
    s.running = true → s.kp.done = some f →
    norm (written evs) = flat s.results ++ s.kp.applied ++ [f] ++ norm s.kp.queue ++ norm s.pipe := by
  intro s hs hr hd
  have h : Inv s (written evs) := hs ▸ reachable_inv r evs
  have hta := h.taEmpty (Or.inl hr)
  have hc := h.cons
  rw [hta] at hc
  simp only [cur, hd, norm_nil, List.append_nil] at hc
  rw [← hc]; simp

/-- between two prompts everything unconsumed is in the type-ahead store or still in the pipe -/
theorem idle_state_keeps_everything (r : Bool) (evs : List Ev) :
    ∀ s, s = run (St.init r) evs →
    s.running = false → s.exiting = false →
    norm (written evs) = flat s.results ++ norm s.typeahead ++ norm s.pipe := by
  intro s hs hr he
  have h : Inv s (written evs) := hs ▸ reachable_inv r evs
  have hc := h.cons
  rw [h.idle hr he] at hc
  simp only [cur, idleKP, norm_nil, List.append_nil] at hc
  exact hc.symm

/-- while the finished application waits for CPR responses, the keys that arrived after the
    accepting key are all in its input queue (or still unread): none is lost -/
theorem cpr_wait_keeps_later_keys (r : Bool) (evs : List Ev) :
    ∀ s, s = run (St.init r) evs → s.exiting = true →
    s.running = false ∧ ∃ f, s.kp.done = some f ∧
    norm (written evs) = flat s.results ++ s.kp.applied ++ [f] ++ norm s.kp.queue ++ norm s.pipe := by
  intro s hs he
  have h : Inv s (written evs) := hs ▸ reachable_inv r evs
  obtain ⟨hr, f, hd⟩ := h.exitingOk he
  refine ⟨hr, f, hd, ?_⟩
  have hc := h.cons
  rw [h.taEmpty (Or.inr he)] at hc
  simp only [cur, hd, norm_nil, List.append_nil] at hc
  rw [← hc]; simp

theorem step_read_active (t : St) (n : Nat) (h : t.running = true ∨ (t.exiting = true ∧ 0 < t.kp.waiting)) :
    step t (.read n) = { t with pipe := t.pipe.drop n,
                                kp := processKeys { t.kp with queue := t.kp.queue ++ t.pipe.take n } } := by
  rcases h with h | ⟨h1, h2⟩
  · simp [step, h]
  · simp [step, h1, h2]

/-- **The accepted line is frozen**: once the result is set — while the application still runs and
    while it waits for CPR responses — no event except the end of the application changes the
    applied keys, the result, or the list of finished prompts; reads only consume CPR reports and
    keep every other key, in order, for the next prompt. -/
theorem accepted_line_frozen (s : St) (f : Key) (e : Ev)
    (hr : s.running = true ∨ s.exiting = true) (hd : s.kp.done = some f)
    (he : e ≠ .finish) (he' : e ≠ .endWait) :
    (step s e).kp.applied = s.kp.applied ∧ (step s e).kp.done = some f ∧
    (step s e).results = s.results ∧
    norm (step s e).kp.queue ++ norm (step s e).pipe = norm s.kp.queue ++ norm s.pipe ++ norm (evWritten e) := by
  cases e with
  | finish => exact absurd rfl he
  | endWait => exact absurd rfl he'
  | write c => simp [step, hd, evWritten, norm_append]
  | start =>
    have : step s .start = s := by rcases hr with h | h <;> simp [step, h]
    rw [this]; simp [hd, evWritten, norm_nil]
  | read n =>
    by_cases hact : s.running = true ∨ (s.exiting = true ∧ 0 < s.kp.waiting)
    · rw [step_read_active s n hact]
      cases hkp : s.kp with
      | mk q d a c w =>
        rw [hkp] at hd; simp only at hd; subst hd
        have := processKeys_frozen (q ++ s.pipe.take n) f a c w
        refine ⟨this.1, this.2.1, rfl, ?_⟩
        simp only [evWritten, norm_nil, List.append_nil]
        rw [this.2.2.1, norm_dropCpr, norm_append, List.append_assoc, ← norm_append,
          List.take_append_drop]
    · have : step s (.read n) = s := by
        simp only [step]
        split
        · rfl
        · rename_i hc
          exfalso; apply hact
          cases h1 : s.running with
          | true => exact Or.inl rfl
          | false =>
            simp only [h1, Bool.not_false, Bool.true_and, Bool.not_eq_eq_eq_not, Bool.not_true,
              Bool.and_eq_false_imp, decide_eq_false_iff_not, Classical.not_imp, Decidable.not_not] at hc
            simpa using hc
      rw [this]; simp [hd, evWritten, norm_nil]

/-- what `process_keys` does with a queue `pre ++ f :: post` when no result is set yet and `f` is
    the first accepting key: the keys before `f` are applied (CPR reports reported, not applied),
    `f` sets the result, the keys after it stay in the queue in order, minus the CPR reports. -/
theorem process_keys_splits_at_accept (pre post a : List Key) (c w : Nat) (f : Key)
    (hpre : ∀ k ∈ pre, k.isOther = true ∨ k.isCpr = true)
    (hf : f.isFin = true ∨ f = .cj) :
    processKeys ⟨pre ++ f :: post, none, a, c, w⟩ =
      ⟨dropCpr post, some (normKey f), a ++ dropCpr pre, c + countCpr pre + countCpr post,
       w - countCpr pre - countCpr post⟩ := by
  rw [processKeys_live]
  induction pre generalizing a c w with
  | nil =>
    rcases hf with hf | rfl
    · cases f <;> simp [Key.isFin] at hf <;> simp [live, afterDone, normKey, dropCpr, countCpr]
    · simp [live, afterDone, normKey, dropCpr, countCpr]
  | cons k pre ih =>
    have hk := hpre k (List.mem_cons_self ..)
    have hpre' : ∀ k ∈ pre, k.isOther = true ∨ k.isCpr = true :=
      fun x hx => hpre x (List.mem_cons_of_mem _ hx)
    cases k with
    | cpr =>
      simp only [List.cons_append, live]; rw [ih _ _ _ hpre']
      simp [dropCpr, countCpr, Key.isCpr]; omega
    | other x =>
      simp only [List.cons_append, live]; rw [ih _ _ _ hpre']
      simp [dropCpr, countCpr, Key.isCpr]
    | accept => simp [Key.isOther, Key.isCpr] at hk
    | abort => simp [Key.isOther, Key.isCpr] at hk
    | cj => simp [Key.isOther, Key.isCpr] at hk

/-- without an accepting key the whole queue is applied and the queue is empty afterwards -/
theorem process_keys_applies_all (q a : List Key) (c w : Nat)
    (hq : ∀ k ∈ q, k.isOther = true ∨ k.isCpr = true) :
    processKeys ⟨q, none, a, c, w⟩ = ⟨[], none, a ++ dropCpr q, c + countCpr q, w - countCpr q⟩ := by
  rw [processKeys_live]
  induction q generalizing a c w with
  | nil => simp [live, dropCpr, countCpr]
  | cons k q ih =>
    have hk := hq k (List.mem_cons_self ..)
    have hq' : ∀ k ∈ q, k.isOther = true ∨ k.isCpr = true :=
      fun x hx => hq x (List.mem_cons_of_mem _ hx)
    cases k with
    | cpr => simp only [live]; rw [ih _ _ _ hq']; simp [dropCpr, countCpr, Key.isCpr]; omega
    | other x => simp only [live]; rw [ih _ _ _ hq']; simp [dropCpr, countCpr, Key.isCpr]
    | accept => simp [Key.isOther, Key.isCpr] at hk
    | abort => simp [Key.isOther, Key.isCpr] at hk
    | cj => simp [Key.isOther, Key.isCpr] at hk

/-- `process_keys` terminates with its loop condition false (the fuel of the model is enough) -/
theorem processKeys_stable (p : KP) : procStep (processKeys p) = none := by
  obtain ⟨q, d, a, c, w⟩ := p
  cases d with
  | none => rw [processKeys_live]; exact procStep_live q a c w
  | some f => rw [processKeys_done]; exact procStep_afterDone q f a c w

/-- **Keys after the accept go to the next prompt** (no CPR request outstanding): ending an
    application and starting the next one on the same input hands the kept keys (queue without CPR
    reports), in order, to the new application's `process_keys`, and the store is emptied. -/
theorem after_accept_goes_next (s : St) (f : Key)
    (hr : s.running = true) (hd : s.kp.done = some f) (hta : s.typeahead = [])
    (hw : (s.responds && decide (0 < s.kp.waiting)) = false) :
    (step s .finish).typeahead = dropCpr s.kp.queue ∧
    (step s .finish).results = s.results ++ [(s.kp.applied, f)] ∧
    (step s .finish).running = false ∧ (step s .finish).exiting = false ∧
    (step (step s .finish) .start).typeahead = [] ∧
    ∃ w, (step (step s .finish) .start).kp =
      { processKeys ⟨dropCpr s.kp.queue, none, [], 0, 0⟩ with waiting := w } := by
  simp [step, leave, hr, hd, hta, hw]

/-- with a CPR request outstanding the finished application does not store the type-ahead yet: it
    stays attached to the input and waits -/
theorem finish_waits_for_cpr (s : St) (f : Key)
    (hr : s.running = true) (hd : s.kp.done = some f) (hres : s.responds = true)
    (hw : 0 < s.kp.waiting) :
    step s .finish = { s with running := false, exiting := true } := by
  simp [step, hr, hd, hres, hw]

/-- **Keys that arrive while the finished application waits for the CPR answer become type-ahead**:
    they are read into the input queue (CPR answers are consumed, nothing else is processed), and
    when the wait ends — answer or timeout — the queue is stored for the next prompt, after
    everything that was kept before, in order.  (This is what moving `store_typeahead` in front of
    `wait_for_cpr_responses` breaks.) -/
theorem keys_read_during_cpr_wait_become_typeahead (s : St) (f : Key) (n : Nat)
    (he : s.exiting = true) (hd : s.kp.done = some f) (hw : 0 < s.kp.waiting)
    (hta : s.typeahead = []) :
    (step s (.read n)).exiting = true ∧
    (step s (.read n)).kp.queue = dropCpr s.kp.queue ++ dropCpr (s.pipe.take n) ∧
    (step s (.read n)).kp.applied = s.kp.applied ∧
    (step s (.read n)).pipe = s.pipe.drop n ∧
    (step (step s (.read n)) .endWait).typeahead = dropCpr s.kp.queue ++ dropCpr (s.pipe.take n) ∧
    (step (step s (.read n)) .endWait).results = s.results ++ [(s.kp.applied, f)] ∧
    (step (step s (.read n)) .endWait).exiting = false := by
  rw [step_read_active s n (Or.inr ⟨he, hw⟩)]
  cases hkp : s.kp with
  | mk q d a c w =>
    rw [hkp] at hd; simp only at hd; subst hd
    have := processKeys_frozen (q ++ s.pipe.take n) f a c w
    obtain ⟨f1, f2, f3, _, _⟩ := this
    refine ⟨he, by rw [f3, dropCpr_append], f1, rfl, ?_, ?_, ?_⟩
    · simp [step, leave, he, f2, f3, hta, dropCpr_append, dropCpr_idem]
    · simp [step, leave, he, f2, f1]
    · simp [step, leave, he, f2]

/-- a read while no application is running or waiting is ignored (bytes stay in the pipe) -/
theorem read_ignored_when_idle (s : St) (n : Nat) (hr : s.running = false) (he : s.exiting = false) :
    step s (.read n) = s := by
  simp [step, hr, he]

/-- … and so is a read by a finished application whose CPR requests have all been answered -/
theorem read_ignored_after_cpr_answer (s : St) (n : Nat) (hr : s.running = false)
    (hw : s.kp.waiting = 0) : step s (.read n) = s := by
  simp [step, hr, hw]

/-! ### a fair schedule completes: all bytes written first, then k prompts -/
theorem run_append (s : St) (a b : List Ev) : run s (a ++ b) = run (run s a) b := by
  induction a generalizing s with
  | nil => rfl
  | cons e a ih => simp [run, ih]

/-- k times: start a prompt, let it read everything that is available, let it end (and let an
    outstanding CPR wait end) -/
def rounds (N : Nat) : Nat → List Ev
  | 0 => []
  | k + 1 => [.start, .read N, .finish, .endWait] ++ rounds N k

theorem inv_step_nowrite {s : St} {w : List Key} (h : Inv s w) (e : Ev) (he : evWritten e = []) :
    Inv (step s e) w := by
  have := inv_step h e; rw [he] at this; simpa using this

theorem segments_noFin (l : List Key) (h : NoFin l) : segments l = [] := segs_noFin [] l h

theorem finish_endWait (t : St) (f : Key) (hr : t.running = true) (hd : t.kp.done = some f) :
    step (step t .finish) .endWait = leave t f := by
  by_cases hw : (t.responds && decide (0 < t.kp.waiting)) = true
  · have e : step t .finish = { t with running := false, exiting := true } := by
      simp only [step, hr, hd]; simp [hw]
    rw [e]; simp [step, hd, leave]
  · have e : step t .finish = leave t f := by
      simp only [step, hr, hd]; simp [hw]
    rw [e]; simp [step, leave]

theorem one_round {s : St} {w : List Key} (N : Nat) (h : Inv s w) (hr : s.running = false)
    (he : s.exiting = false)
    (hp : s.pipe.length ≤ N) (hseg : segments (norm s.typeahead ++ norm s.pipe) ≠ []) :
    let s' := run s [.start, .read N, .finish, .endWait]
    Inv s' w ∧ s'.running = false ∧ s'.exiting = false ∧ s'.pipe = [] ∧
    s'.results.length = s.results.length + 1 := by
  intro s'
  have h1 : Inv (step s .start) w := inv_step_nowrite h _ rfl
  have h2 : Inv (step (step s .start) (.read N)) w := inv_step_nowrite h1 _ rfl
  have h3 : Inv (step (step (step s .start) (.read N)) .finish) w := inv_step_nowrite h2 _ rfl
  have h4 : Inv (step (step (step (step s .start) (.read N)) .finish) .endWait) w :=
    inv_step_nowrite h3 _ rfl
  have e' : s' = step (step (step (step s .start) (.read N)) .finish) .endWait := rfl
  have r1 : (step s .start).running = true := by simp [step, hr, he]
  have p1 : (step s .start).pipe = s.pipe := by simp [step, hr, he]
  have res1 : (step s .start).results = s.results := by simp [step, hr, he]
  have r2 : (step (step s .start) (.read N)).running = true := by
    rw [step_read_active _ N (Or.inl r1)]; exact r1
  have p2 : (step (step s .start) (.read N)).pipe = [] := by
    rw [step_read_active _ N (Or.inl r1)]; simp only [p1]
    exact List.drop_eq_nil_of_le hp
  have res2 : (step (step s .start) (.read N)).results = s.results := by
    rw [step_read_active _ N (Or.inl r1)]; exact res1
  -- the prompt has its result after reading everything
  have hdone : ∃ f, (step (step s .start) (.read N)).kp.done = some f := by
    cases hd : (step (step s .start) (.read N)).kp.done with
    | some f => exact ⟨f, rfl⟩
    | none =>
      exfalso; apply hseg
      have hq := h2.settled.drained hd
      have hta := h2.taEmpty (Or.inl r2)
      have hc2 := h2.cons
      rw [hq, hta, p2, res2] at hc2
      simp only [cur, hd, norm_nil, List.append_nil] at hc2
      have hc := h.cons
      rw [h.idle hr he] at hc
      simp only [cur, idleKP, norm_nil, List.append_nil, List.append_assoc] at hc
      have : norm s.typeahead ++ norm s.pipe = (step (step s .start) (.read N)).kp.applied :=
        List.append_cancel_left (hc.trans hc2.symm)
      rw [this]; exact segments_noFin _ h2.settled.applied.noFin
  obtain ⟨f, hd⟩ := hdone
  have el := finish_endWait _ f r2 hd
  refine ⟨e' ▸ h4, ?_, ?_, ?_, ?_⟩
  · rw [e', el]; rfl
  · rw [e', el]; rfl
  · rw [e', el]; exact p2
  · rw [e', el]; simp [leave, res2]

theorem rounds_complete (N : Nat) (k : Nat) : ∀ {s : St} {w : List Key}, Inv s w →
    s.running = false → s.exiting = false → s.pipe.length ≤ N →
    k ≤ (segments (norm s.typeahead ++ norm s.pipe)).length →
    Inv (run s (rounds N k)) w ∧ (run s (rounds N k)).running = false ∧
    (run s (rounds N k)).exiting = false ∧
    (run s (rounds N k)).results.length = s.results.length + k := by
  induction k with
  | zero => intro s w h hr he _ _; exact ⟨h, hr, he, rfl⟩
  | succ k ih =>
    intro s w h hr he hp hk
    have hne : segments (norm s.typeahead ++ norm s.pipe) ≠ [] := by
      intro e; rw [e] at hk; simp at hk
    obtain ⟨h', hr', he', hp', hl'⟩ := one_round N h hr he hp hne
    simp only [rounds, run_append]
    -- one line fewer is pending after the round
    have hc := h.cons
    rw [h.idle hr he] at hc
    simp only [cur, idleKP, norm_nil, List.append_nil, List.append_assoc] at hc
    have hc' := h'.cons
    rw [h'.idle hr' he'] at hc'
    simp only [cur, idleKP, norm_nil, List.append_nil, List.append_assoc] at hc'
    have e1 := segments_flat s.results (norm s.typeahead ++ norm s.pipe) h.results
    have e2 := segments_flat _ (norm (run s [.start, .read N, .finish, .endWait]).typeahead ++
      norm (run s [.start, .read N, .finish, .endWait]).pipe) h'.results
    rw [hc] at e1; rw [hc'] at e2
    have hlen := congrArg List.length (e1.symm.trans e2)
    simp only [List.length_append, hl'] at hlen
    have := ih h' hr' he' (by rw [hp']; simp) (by omega)
    refine ⟨this.1, this.2.1, this.2.2.1, ?_⟩
    rw [this.2.2.2, hl']; omega

/-- **A script of k lines fed to k consecutive prompts yields exactly those k lines** when all
    bytes are delivered before the first prompt (every prompt starts, reads what is available and
    ends, waiting for outstanding CPR answers where the output asks for them): the k prompts all
    finish — no accepting key is lost — and return the first k lines of the typed stream; CPR
    reports anywhere in `w` make no difference. -/
theorem all_at_once_k_prompts (r : Bool) (w : List Key) (k : Nat) (hk : k ≤ (segments (norm w)).length) :
    ∀ s, s = run (St.init r) (.write w :: rounds w.length k) →
    s.running = false ∧ s.exiting = false ∧ s.results = (segments (norm w)).take k := by
  intro s hs
  have h0 : Inv (step (St.init r) (.write w)) w := by
    simpa [evWritten] using inv_step (inv_init r) (.write w)
  have hrun : s = run (step (St.init r) (.write w)) (rounds w.length k) := by rw [hs]; rfl
  have := rounds_complete w.length k h0 (by simp [step, St.init]) (by simp [step, St.init])
    (by simp [step, St.init]) (by simpa [step, St.init, norm_nil] using hk)
  rw [← hrun] at this
  obtain ⟨hi, hr, he, hl⟩ := this
  refine ⟨hr, he, ?_⟩
  have hc := hi.cons
  simp only [List.append_assoc] at hc
  have e1 := segments_flat s.results
    (cur s.kp ++ (norm s.typeahead ++ (norm s.kp.queue ++ norm s.pipe))) hi.results
  rw [hc] at e1
  have hl' : s.results.length = k := by simpa [step, St.init] using hl
  rw [e1, ← hl']; simp

/-- the same for an explicit script `l₁ Enter … l_k Enter` and an arbitrary line editor -/
theorem script_all_at_once (r : Bool) {α : Type} (render : List Key → α) (lines : List (List Key))
    (hl : ∀ l ∈ lines, AllOther l) (w : List Key) (hw : norm w = script lines) :
    ∀ s, s = run (St.init r) (.write w :: rounds w.length lines.length) →
    s.running = false ∧ s.results.map (fun r => render r.1) = lines.map render ∧
    s.typeahead = [] ∧ norm s.pipe = [] := by
  intro s hs
  have hgood : ∀ r ∈ lines.map (fun l => (l, Key.accept)), GoodRes r := by
    intro r hr; simp at hr; obtain ⟨l, hl', rfl⟩ := hr; exact ⟨hl l hl', rfl⟩
  have hseg : segments (norm w) = lines.map (fun l => (l, Key.accept)) := by
    have := segments_flat _ [] hgood
    rw [List.append_nil] at this
    rw [hw, script_eq_flat, this]; simp [segments, segs]
  obtain ⟨hr, he, hres⟩ := all_at_once_k_prompts r w lines.length
    (by rw [hseg, List.length_map]; exact Nat.le_refl _) s hs
  rw [hseg] at hres
  have hres' : s.results = lines.map (fun l => (l, Key.accept)) := by
    rw [hres]; exact List.take_of_length_le (by simp)
  refine ⟨hr, by rw [hres']; simp [Function.comp_def], ?_⟩
  -- nothing is left over
  have hi : Inv s w := by
    have := reachable_inv r (.write w :: rounds w.length lines.length)
    rw [← hs] at this
    have hw' : written (.write w :: rounds w.length lines.length) = w := by
      have : ∀ k, written (rounds w.length k) = [] := by
        intro k; induction k with
        | zero => rfl
        | succ k ih => simp [rounds, written, ih]
      simp [written, this]
    rwa [hw'] at this
  have hc := hi.cons
  rw [hi.idle hr he, hres', ← script_eq_flat, hw] at hc
  simp only [cur, idleKP, norm_nil, List.append_nil, List.append_assoc] at hc
  have : norm s.typeahead ++ norm s.pipe = [] := by
    have := List.append_cancel_left (hc.trans (List.append_nil _).symm)
    exact this
  have h1 : norm s.typeahead = [] := (List.append_eq_nil_iff.1 this).1
  have h2 : norm s.pipe = [] := (List.append_eq_nil_iff.1 this).2
  refine ⟨?_, h2⟩
  have := hi.taNoCpr
  have e := dropCpr_of_count_zero _ this
  simp only [norm, e, List.map_eq_nil_iff] at h1; exact h1


/-! ## Non-vacuity: the hypotheses are satisfiable on non-trivial schedules, and the model really
    exhibits type-ahead (checked by kernel evaluation) -/
section examples

/-- a schedule with type-ahead, a CPR report before and after the accepting key, c-j and c-c -/
def exEvs : List Ev :=
  [.start, .write [.other 97, .cpr, .accept, .other 98], .read 3,
   .write [.cpr, .cj, .other 99, .abort], .read 10, .finish,
   .start, .finish, .start, .read 1, .finish]

example : (run (St.init false) exEvs).results =
    [([.other 97], .accept), ([.other 98], .accept), ([.other 99], .abort)] := by decide
example : norm (written exEvs) =
    [.other 97, .accept, .other 98, .accept, .other 99, .abort] := by decide
-- in the middle of `exEvs`: result set, two CPR reports consumed, later keys kept in the queue
example : (run (St.init false) (exEvs.take 5)).kp =
    ⟨[.other 98, .cj, .other 99, .abort], some .accept, [.other 97], 2, 0⟩ := by decide
-- the same keys, other chunking / CPR placement / read sizes / finish points: same results
def exEvs' : List Ev :=
  [.write [.other 97], .write [.accept, .cpr, .cpr, .other 98, .cj], .start, .read 1, .read 1, .finish,
   .read 7, .start, .write [.other 99], .read 2, .finish, .start, .read 9, .write [.abort, .cpr],
   .read 1, .finish, .read 1, .start, .finish]
example : norm (written exEvs) = norm (written exEvs') := by decide
example : (run (St.init false) exEvs').results = (run (St.init false) exEvs).results := by decide
example : (run (St.init false) exEvs').results = (run (St.init false) exEvs).results :=
  results_schedule_independent false _ _ (by decide) (by decide)

-- k_lines_k_prompts: hypotheses hold for a 2-line script with a tail, CPRs and c-j in the stream
example : norm [Key.other 1, .cpr, .other 2, .cj, .cpr, .other 3, .accept, .other 4]
    = script [[.other 1, .other 2], [.other 3]] ++ [.other 4] := by decide
example : ∀ l ∈ [[Key.other 1, .other 2], [.other 3]], AllOther l := by
  intro l hl; simp at hl; rcases hl with rfl | rfl <;> intro k hk <;> simp at hk <;>
    (rcases hk with rfl | rfl) <;> rfl
example : NoFin [Key.other 4] := by intro k hk; simp at hk; subst hk; rfl

-- process_keys_splits_at_accept on a queue with CPR reports on both sides of c-j
example : processKeys ⟨[.other 1, .cpr] ++ .cj :: [.cpr, .other 2, .accept], none, [.other 0], 5, 1⟩ =
    ⟨[.other 2, .accept], some .accept, [.other 0, .other 1], 7, 0⟩ := by decide

-- accepted_line_frozen / after_accept_goes_next: a reachable state with a result and kept keys
example : let s := run (St.init false) (exEvs.take 5)
    s.running = true ∧ s.kp.done = some .accept ∧ s.typeahead = [] ∧ s.kp.queue ≠ [] := by decide

-- all_at_once_k_prompts: 3 lines written at once (with CPR reports), 3 prompts
example : (segments (norm (written exEvs))).length = 3 := by decide
example : (run (St.init false) (.write (written exEvs) :: rounds (written exEvs).length 3)).results =
    [([.other 97], .accept), ([.other 98], .accept), ([.other 99], .abort)] := by decide

-- waiting_prompt_has_everything_read: a prompt that waits although an Enter was typed has it
-- still unread in the pipe
example : let s := run (St.init false) [.start, .write [.other 1, .accept], .read 1]
    s.running = true ∧ s.kp.done = none ∧ s.pipe = [.accept] ∧ s.kp.applied = [.other 1] := by decide

-- the stale reader callback: a read between two prompts leaves the pipe alone
example : (run (St.init false) [.write [.other 1], .read 5]).pipe = [.other 1] := by decide

/-! why the `is_done` gate matters: a `process_keys` that keeps popping the queue after the result
    is set applies the keys typed after Enter to the accepted line (and loses them for the next
    prompt) — the theorems above fail for it -/
def iterNoGate : Nat → KP → KP
  | 0, p => p
  | n + 1, p =>
    match p.queue with
    | [] => p
    | k :: q => iterNoGate n (handle { p with queue := q } k)

theorem no_gate_misapplies_typeahead :
    (iterNoGate 5 ⟨[.other 97, .accept, .other 98], none, [], 0, 0⟩).applied = [.other 97, .other 98] ∧
    (iterNoGate 5 ⟨[.other 97, .accept, .other 98], none, [], 0, 0⟩).queue = [] ∧
    (processKeys ⟨[.other 97, .accept, .other 98], none, [], 0, 0⟩).applied = [.other 97] ∧
    (processKeys ⟨[.other 97, .accept, .other 98], none, [], 0, 0⟩).queue = [.other 98] := by decide

/-! the CPR wait of a finished application (output that answers CPR requests): prompt 1 asks for the
    cursor position, `a Enter` is accepted before the answer, `b Enter` arrives during the wait,
    then the answer arrives — `b Enter` is the type-ahead of prompt 2 (seeded/C17-a loses it) -/
def exWait : List Ev :=
  [.start, .write [.other 97, .accept], .read 9, .finish, .write [.other 98, .accept], .read 9,
   .write [.cpr], .read 9, .endWait, .start, .finish, .endWait]

example : (run (St.init true) (exWait.take 1)).kp.waiting = 1 := by decide
example : let s := run (St.init true) (exWait.take 6)
    s.exiting = true ∧ s.running = false ∧ s.kp.waiting = 1 ∧ s.results = [] ∧
    s.kp.queue = [.other 98, .accept] := by decide
example : let s := run (St.init true) (exWait.take 8)
    s.exiting = true ∧ s.kp.waiting = 0 ∧ s.kp.queue = [.other 98, .accept] := by decide
example : (run (St.init true) (exWait.take 9)).typeahead = [.other 98, .accept] := by decide
example : (run (St.init true) exWait).results = [([.other 97], .accept), ([.other 98], .accept)] := by
  decide
-- without an answer the wait ends by its timeout: same result
example : (run (St.init true) [.start, .write [.other 97, .accept], .read 9, .finish,
    .write [.other 98, .accept], .read 9, .endWait, .start, .finish, .endWait]).results =
    [([.other 97], .accept), ([.other 98], .accept)] := by decide
-- after the answer the finished application ignores further reads (the bytes stay in the pipe)
example : (run (St.init true) (exWait.take 8 ++ [.write [.other 99], .read 9])).pipe = [.other 99] := by
  decide

end examples

end Ptk.C17
