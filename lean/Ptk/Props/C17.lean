import Ptk.Model.C17
namespace Ptk.C17
theorem dropCpr_nil : dropCpr [] = [] := rfl
end Ptk.C17
