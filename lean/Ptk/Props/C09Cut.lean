/-
  C09 — `Document.cut_selection` for LINES and BLOCK selections (goal: "whatever a cut removes is
  exactly what the next paste inserts" for the multi-range selections):

    * `cutSelection_pieces` (in C09CutLemmas): for every selection type the remaining text and the
      cut parts are the gaps and the slices of the ranges, in order;
    * BLOCK: `cutSelection_block` (exact cells / remaining lines, every text, cursor, mode),
      `block_paste_back`, `block_cut_then_P_restores` (paste at the corner restores the text when
      every line of the block reaches the left column), `block_cut_cursor`;
    * LINES: `cutSelection_lines_fidelity'` (Vi and Emacs mode), `lines_cut_then_P`
      (trailing-newline convention);
    * key level: `visual_lines_delete_then_P`, `visual_block_delete_then_paste`.
-/
import Ptk.Props.C09CutLemmas
namespace Ptk.C09
open Ptk.Py

/-- rows of the block and its columns, as `Document.selection_ranges` computes them -/
structure BlockGeom where
  r1 : Nat
  n : Nat
  c1 : Nat
  c2 : Nat
deriving Repr, DecidableEq

def blockGeom (t : Text) (cur orig : Nat) (vi : Bool) : BlockGeom :=
  let bf : Buf := { text := t, cur := min cur orig }
  let bt : Buf := { text := t, cur := max cur orig }
  { r1 := row bf, n := row bt + 1 - row bf, c1 := min (col bf) (col bt),
    c2 := max (col bf) (col bt) + (if vi then 1 else 0) }

/-- **BLOCK cut, exactly.**  For every text, cursor, anchor and editing mode: the lines of the block
    are rows `r1 .. r1+n-1`; every such line that reaches the left column `c1` loses exactly the
    characters in columns `c1 .. c2-1` (its cell), the other lines and all other characters stay;
    the clipboard text is the cells, top to bottom, joined with newlines, with type BLOCK. -/
theorem cutSelection_block (t : Text) (cur orig : Nat) (vi : Bool) :
    let g := blockGeom t cur orig vi
    let lines := splitOn '\n' t
    let M := (lines.drop g.r1).take g.n
    (cutSelection t cur orig .block vi).2 =
      { text := join ['\n'] (M.filterMap (cellOf' g.c1 g.c2)), ty := .block } ∧
    (cutSelection t cur orig .block vi).1.text =
      join ['\n'] (lines.take g.r1 ++ M.map (cutLine' g.c1 g.c2) ++ lines.drop (g.r1 + g.n)) := by
  intro g lines M
  obtain ⟨h1, h2, h3⟩ := cutSelection_pieces t cur orig .block vi
  have ht : t = join ['\n'] lines := (join_splitOn '\n' t).symm
  have hr1 : g.r1 < lines.length := row_lt_lines { text := t, cur := min cur orig }
  have hr2 : g.r1 + g.n ≤ lines.length := by
    have hb : row ({ text := t, cur := max cur orig } : Buf) < (splitOn '\n' t).length := row_lt_lines _
    have ha : row ({ text := t, cur := min cur orig } : Buf) < (splitOn '\n' t).length := row_lt_lines _
    show row ({ text := t, cur := min cur orig } : Buf) + (row ({ text := t, cur := max cur orig } : Buf) + 1
      - row ({ text := t, cur := min cur orig } : Buf)) ≤ (splitOn '\n' t).length
    omega
  have hranges : selectionRanges t cur orig .block vi =
      blockRanges g.c1 g.c2 (rowStart lines g.r1) (lines.drop g.r1) g.n :=
    block_ranges_eq t g.c1 g.c2 lines ht g.n g.r1 hr2
  have hp := pieces_block g.c1 g.c2 g.n (lines.drop g.r1) (rowPrefix lines g.r1) 0 (Nat.zero_le _)
    (by simp; omega)
  rw [rowPrefix_length _ _ (Nat.le_of_lt hr1), ← text_split_at_row lines g.r1 hr1, ← ht, ← hranges] at hp
  refine ⟨?_, ?_⟩
  · generalize (cutSelection t cur orig .block vi).2 = cs at h2 h3 ⊢
    cases cs
    simp only at h2 h3
    subst h2
    rw [h3, hp]
    simp [M]
  · rw [h1, hp]
    simp only [List.drop_zero, List.drop_drop]
    conv => rhs; rw [List.append_assoc, join_append]
    have hne : M.map (cutLine' g.c1 g.c2) ++ lines.drop (g.r1 + g.n) ≠ [] := by
      intro e
      have := congrArg List.length e
      simp only [List.length_append, List.length_map, List.length_take, List.length_drop, List.length_nil, M] at this
      omega
    simp only [rowPrefix, hne, ne_eq, not_false_eq_true, and_true]
    rfl

theorem block_full (c1 c2 : Nat) (M : List Text) (hM : ∀ ln ∈ M, c1 ≤ ln.length) :
    M.filterMap (cellOf' c1 c2) = M.map (cellOf c1 c2) ∧ M.map (cutLine' c1 c2) = M.map (cutLine c1 c2) := by
  induction M with
  | nil => simp
  | cons ln M ih =>
    have h0 : c1 ≤ ln.length := hM ln (by simp)
    obtain ⟨i1, i2⟩ := ih (fun l h => hM l (by simp [h]))
    simp [cellOf', cutLine', h0, i1, i2]

/-- the same when every line of the block reaches the left column (no cell is skipped) -/
theorem cutSelection_block_full (t : Text) (cur orig : Nat) (vi : Bool) :
    let g := blockGeom t cur orig vi
    let lines := splitOn '\n' t
    let M := (lines.drop g.r1).take g.n
    (∀ ln ∈ M, g.c1 ≤ ln.length) →
    (cutSelection t cur orig .block vi).2 = { text := join ['\n'] (M.map (cellOf g.c1 g.c2)), ty := .block } ∧
    (cutSelection t cur orig .block vi).1.text =
      join ['\n'] (lines.take g.r1 ++ M.map (cutLine g.c1 g.c2) ++ lines.drop (g.r1 + g.n)) := by
  intro g lines M hM
  have h := cutSelection_block t cur orig vi
  obtain ⟨f1, f2⟩ := block_full g.c1 g.c2 M hM
  simp only at h
  rw [f1, f2] at h
  exact h

theorem row_mono (t : Text) (a b : Nat) (h : a ≤ b) :
    row ({ text := t, cur := a } : Buf) ≤ row ({ text := t, cur := b } : Buf) := by
  unfold row Buf.before
  simp only
  have : t.take a = (t.take b).take a := by rw [List.take_take]; congr 1; omega
  rw [this]
  conv => rhs; rw [← List.take_append_drop a (t.take b)]
  rw [List.filter_append, List.length_append]; omega

theorem modify_at_length {α : Type} (A : List α) (x : α) (Y : List α) (f : α → α) :
    (A ++ x :: Y).modify A.length f = A ++ f x :: Y := by
  induction A with
  | nil => simp
  | cons a A ih => simp [ih]

theorem cell_restore (c1 c2 : Nat) (h : c1 ≤ c2) (ln : Text) (hl : c1 ≤ ln.length) :
    (ljust (cutLine c1 c2 ln) c1).take c1 ++ rep (cellOf c1 c2 ln) 1 ++ (ljust (cutLine c1 c2 ln) c1).drop c1 = ln := by
  have hlen : c1 ≤ (cutLine c1 c2 ln).length := by simp [cutLine]; omega
  have : ljust (cutLine c1 c2 ln) c1 = cutLine c1 c2 ln := by
    unfold ljust
    have : c1 - (cutLine c1 c2 ln).length = 0 := by omega
    rw [this]; simp
  rw [this, rep_one]
  have ht : (ln.take c1).length = c1 := by simp; omega
  unfold cutLine cellOf
  rw [List.take_left' ht, List.drop_left' ht]
  have e : ln.take c1 = (ln.take c2).take c1 := by rw [List.take_take]; congr 1; omega
  rw [e, List.take_append_drop, List.take_append_drop]

theorem blockGo_restore (c1 c2 : Nat) (h : c1 ≤ c2) : ∀ (M A B : List Text), (∀ ln ∈ M, c1 ≤ ln.length) →
    blockGo c1 1 (M.map (cellOf c1 c2)) A.length (A ++ M.map (cutLine c1 c2) ++ B) = A ++ M ++ B := by
  intro M
  induction M with
  | nil => intro A B _; simp [blockGo]
  | cons ln M ih =>
    intro A B hM
    simp only [List.map_cons, blockGo]
    have hlt : ¬ (A.length ≥ (A ++ cutLine c1 c2 ln :: List.map (cutLine c1 c2) M ++ B).length) := by
      simp
    rw [if_neg hlt, List.append_assoc, List.cons_append, modify_at_length,
      cell_restore c1 c2 h ln (hM ln (by simp))]
    have := ih (A ++ [ln]) B (fun l hl => hM l (by simp [hl]))
    simp only [List.length_append, List.length_singleton, List.append_assoc, List.singleton_append] at this
    simp only [List.append_assoc, List.cons_append]
    exact this


theorem filter_isNl_nil (l : Text) (h : '\n' ∉ l) : l.filter isNl = [] := by
  rw [List.filter_eq_nil_iff]
  intro c hc hn
  simp [isNl] at hn
  subst hn
  exact h hc

theorem takeWhile_notNl_all (l rest : Text) (h : '\n' ∉ l) (hr : rest = [] ∨ rest.head? = some '\n') :
    (l ++ rest).takeWhile notNl = l := by
  induction l with
  | nil =>
    rcases hr with rfl | hr
    · rfl
    · cases rest with
      | nil => rfl
      | cons x xs => simp at hr; subst hr; simp [notNl]
  | cons x xs ih =>
    simp at h
    have : notNl x = true := by simp [notNl]; exact fun e => h.1 e.symm
    simp only [List.cons_append, List.takeWhile_cons, this, if_true]
    rw [ih h.2]

/-- `translate_index_to_position(translate_row_col_to_index(r, c)) = (r, c)` -/
theorem row_col_at (L : List Text) (hL : ∀ l ∈ L, '\n' ∉ l) (r c : Nat) (hr : r < L.length)
    (hc : c ≤ L[r].length) :
    row ({ text := join ['\n'] L, cur := rowStart L r + c } : Buf) = r ∧
    col ({ text := join ['\n'] L, cur := rowStart L r + c } : Buf) = c := by
  have hsplit := text_split_at_row L r hr
  have hplen := rowPrefix_length L r (Nat.le_of_lt hr)
  have hbefore : (join ['\n'] L).take (rowStart L r + c) = rowPrefix L r ++ L[r].take c := by
    rw [hsplit, ← hplen, List.take_append, List.take_of_length_le (by omega)]
    congr 1
    rw [List.drop_eq_getElem_cons hr, join_cons_ne, List.append_assoc]
    simp only [Nat.add_sub_cancel_left]
    rw [List.take_append_of_le_length hc]
  have hnl : '\n' ∉ L[r].take c := fun h => hL L[r] (List.getElem_mem hr) (List.mem_of_mem_take h)
  have hA : ∀ l ∈ L.take r, '\n' ∉ l := fun l h => hL l (List.mem_of_mem_take h)
  have hAlen : (L.take r).length = r := by simp; omega
  refine ⟨?_, ?_⟩
  · unfold row Buf.before
    simp only
    rw [hbefore, List.filter_append, filter_isNl_nil _ hnl, List.append_nil]
    unfold rowPrefix
    rw [List.filter_append, List.length_append, count_nl_join _ hA, hAlen]
    by_cases h0 : r = 0
    · subst h0; simp
    · have : L.take r ≠ [] := by intro e; rw [e] at hAlen; simp at hAlen; omega
      rw [if_pos this]
      have e : (List.filter isNl ['\n']).length = 1 := by decide
      rw [e]; omega
  · unfold col lineBefore Buf.before
    simp only
    rw [hbefore, List.reverse_append, List.length_reverse]
    rw [takeWhile_notNl_all]
    · simp; omega
    · intro h; exact hnl (List.mem_reverse.mp h)
    · unfold rowPrefix
      by_cases h0 : L.take r = []
      · left; simp [h0, join]
      · right; rw [if_pos h0]; simp


theorem not_nl_cutLine (c1 c2 : Nat) (ln : Text) (h : '\n' ∉ ln) : '\n' ∉ cutLine c1 c2 ln := by
  unfold cutLine
  intro hm
  rcases List.mem_append.mp hm with hm | hm
  · exact h (List.mem_of_mem_take hm)
  · exact h (List.mem_of_mem_drop hm)

theorem not_nl_cellOf (c1 c2 : Nat) (ln : Text) (h : '\n' ∉ ln) : '\n' ∉ cellOf c1 c2 ln := by
  unfold cellOf
  intro hm
  exact h (List.mem_of_mem_take (List.mem_of_mem_drop hm))

theorem blockGeom_c1_le_c2 (t : Text) (cur orig : Nat) (vi : Bool) :
    (blockGeom t cur orig vi).c1 ≤ (blockGeom t cur orig vi).c2 := by
  simp only [blockGeom]; omega

theorem blockGeom_n_pos (t : Text) (cur orig : Nat) (vi : Bool) : 0 < (blockGeom t cur orig vi).n := by
  have := row_mono t (min cur orig) (max cur orig) (by omega)
  simp only [blockGeom]; omega

/-- **BLOCK cut, pasted back.**  Pasting the cut block back (once) at any position of the remaining
    text that lies in the first row of the block and whose paste column is the left column of the
    block restores the text. -/
theorem block_paste_back (t : Text) (cur orig : Nat) (vi : Bool) (q : Nat) (mode : PasteMode) :
    let g := blockGeom t cur orig vi
    let lines := splitOn '\n' t
    let M := (lines.drop g.r1).take g.n
    let r := cutSelection t cur orig .block vi
    (∀ ln ∈ M, g.c1 ≤ ln.length) →
    row ({ text := r.1.text, cur := q } : Buf) = g.r1 →
    col ({ text := r.1.text, cur := q } : Buf) + (if mode = .viBefore then 0 else 1) = g.c1 →
    (pasteRaw { text := r.1.text, cur := q } r.2 mode 1).1 = t := by
  intro g lines M r hM hrow hcol
  have h12 := cutSelection_block_full t cur orig vi hM
  have h2 : (cutSelection t cur orig .block vi).2 =
      { text := join ['\n'] (M.map (cellOf g.c1 g.c2)), ty := .block } := h12.1
  have h1 : (cutSelection t cur orig .block vi).1.text =
      join ['\n'] (lines.take g.r1 ++ M.map (cutLine g.c1 g.c2) ++ lines.drop (g.r1 + g.n)) := h12.2
  have hl : ∀ l ∈ lines, '\n' ∉ l := not_mem_of_mem_splitOn _ _
  have hlM : ∀ l ∈ M, '\n' ∉ l := fun l h => hl l (List.mem_of_mem_drop (List.mem_of_mem_take h))
  have hr1 : g.r1 < lines.length := row_lt_lines { text := t, cur := min cur orig }
  have hMne : M ≠ [] := by
    intro e
    have := congrArg List.length e
    have hn : 0 < g.n := blockGeom_n_pos t cur orig vi
    simp only [M, List.length_take, List.length_drop, List.length_nil] at this
    omega
  have hAlen : (lines.take g.r1).length = g.r1 := by simp; omega
  simp only [r] at hrow hcol ⊢
  rw [h2]
  simp only [pasteRaw, show ¬ ((1 : Int) ≤ 0) by omega, if_false, hrow, hcol]
  rw [h1]
  -- the lines of the remaining text and of the data
  rw [splitOn_join _ _ (by simp [hMne]), flatMap_splitOn_lines]
  · rw [splitOn_join _ _ (by simp [hMne]), flatMap_splitOn_lines]
    · have := blockGo_restore g.c1 g.c2 (blockGeom_c1_le_c2 t cur orig vi) M (lines.take g.r1)
        (lines.drop (g.r1 + g.n)) hM
      rw [hAlen] at this
      rw [this]
      have : lines.take g.r1 ++ M ++ lines.drop (g.r1 + g.n) = lines := by
        simp only [M]
        rw [List.append_assoc, ← List.drop_drop, List.take_append_drop, List.take_append_drop]
      rw [this]
      exact join_splitOn '\n' t
    · intro l h
      rcases List.mem_append.mp h with h | h
      · rcases List.mem_append.mp h with h | h
        · exact hl l (List.mem_of_mem_take h)
        · obtain ⟨x, hx, rfl⟩ := List.mem_map.mp h
          exact not_nl_cutLine _ _ _ (hlM x hx)
      · exact hl l (List.mem_of_mem_drop h)
  · intro l h
    obtain ⟨x, hx, rfl⟩ := List.mem_map.mp h
    exact not_nl_cellOf _ _ _ (hlM x hx)


/-- the top-left corner of the block, as an index into the text (old or remaining: the lines
    above the block are untouched) -/
def blockCorner (t : Text) (cur orig : Nat) (vi : Bool) : Nat :=
  rowStart (splitOn '\n' t) (blockGeom t cur orig vi).r1 + (blockGeom t cur orig vi).c1

theorem block_corner_position (t : Text) (cur orig : Nat) (vi : Bool) :
    let g := blockGeom t cur orig vi
    let lines := splitOn '\n' t
    let M := (lines.drop g.r1).take g.n
    let r := cutSelection t cur orig .block vi
    (∀ ln ∈ M, g.c1 ≤ ln.length) →
    row ({ text := r.1.text, cur := blockCorner t cur orig vi } : Buf) = g.r1 ∧
    col ({ text := r.1.text, cur := blockCorner t cur orig vi } : Buf) = g.c1 ∧
    blockCorner t cur orig vi ≤ r.1.text.length := by
  intro g lines M r hM
  have h12 := cutSelection_block_full t cur orig vi hM
  have h1 : (cutSelection t cur orig .block vi).1.text =
      join ['\n'] (lines.take g.r1 ++ M.map (cutLine g.c1 g.c2) ++ lines.drop (g.r1 + g.n)) := h12.2
  have hl : ∀ l ∈ lines, '\n' ∉ l := not_mem_of_mem_splitOn _ _
  have hlM : ∀ l ∈ M, '\n' ∉ l := fun l h => hl l (List.mem_of_mem_drop (List.mem_of_mem_take h))
  have hr1 : g.r1 < lines.length := row_lt_lines { text := t, cur := min cur orig }
  have hn : 0 < g.n := blockGeom_n_pos t cur orig vi
  have hAlen : (lines.take g.r1).length = g.r1 := by simp; omega
  -- the first line of the block
  obtain ⟨m0, Mr, hMeq⟩ : ∃ m0 Mr, M = m0 :: Mr := by
    cases hM' : M with
    | nil =>
      have := congrArg List.length hM'
      simp only [M, List.length_take, List.length_drop, List.length_nil] at this
      omega
    | cons a b => exact ⟨a, b, rfl⟩
  generalize hL' : lines.take g.r1 ++ M.map (cutLine g.c1 g.c2) ++ lines.drop (g.r1 + g.n) = L' at h1
  have hL'nl : ∀ l ∈ L', '\n' ∉ l := by
    intro l h
    rw [← hL'] at h
    rcases List.mem_append.mp h with h | h
    · rcases List.mem_append.mp h with h | h
      · exact hl l (List.mem_of_mem_take h)
      · obtain ⟨x, hx, rfl⟩ := List.mem_map.mp h
        exact not_nl_cutLine _ _ _ (hlM x hx)
    · exact hl l (List.mem_of_mem_drop h)
  have hlt : g.r1 < L'.length := by
    rw [← hL', hMeq]; simp; omega
  have hget : L'[g.r1] = cutLine g.c1 g.c2 m0 := by
    have : L'[g.r1]? = some (cutLine g.c1 g.c2 m0) := by
      rw [← hL', hMeq, List.append_assoc, List.getElem?_append_right (by omega), hAlen]
      simp
    rw [List.getElem?_eq_getElem hlt] at this
    exact Option.some.inj this
  have hc : g.c1 ≤ L'[g.r1].length := by
    rw [hget]
    have := hM m0 (by rw [hMeq]; simp)
    simp [cutLine]; omega
  have hrs : rowStart L' g.r1 = rowStart lines g.r1 := by
    unfold rowStart
    rw [← hL', List.append_assoc, List.take_append_of_le_length (by omega), List.take_take]
    simp
  have := row_col_at L' hL'nl g.r1 g.c1 hlt hc
  have hle := rowStart_line_le L' g.r1 hlt
  rw [hrs] at this hle
  simp only [r, blockCorner]
  rw [h1]
  refine ⟨this.1, this.2, ?_⟩
  show rowStart lines g.r1 + g.c1 ≤ _
  omega

/-- **BLOCK cut then `P` at the corner restores.** -/
theorem block_cut_then_P_restores (t : Text) (cur orig : Nat) (vi : Bool) :
    let g := blockGeom t cur orig vi
    let M := ((splitOn '\n' t).drop g.r1).take g.n
    let r := cutSelection t cur orig .block vi
    (∀ ln ∈ M, g.c1 ≤ ln.length) →
    (pasteRaw { text := r.1.text, cur := blockCorner t cur orig vi } r.2 .viBefore 1).1 = t := by
  intro g M r hM
  obtain ⟨h1, h2, _⟩ := block_corner_position t cur orig vi hM
  exact block_paste_back t cur orig vi _ .viBefore hM h1 (by simpa using h2)


/-! ### LINES -/

/-- start of the first selected line: `text.rfind("\n", 0, from_) + 1` -/
def linesFrom (t : Text) (lo : Nat) : Nat := lo - col { text := t, cur := lo }

/-- `linesEnd` when a newline follows the selection / when none does -/
theorem linesEnd_some (t : Text) (hi k : Nat) (vi : Bool) (h : findNlFrom t hi = some k) :
    linesEnd t hi vi = k + (if vi then 1 else 0) := by
  unfold linesEnd linesEndI
  simp only [h]
  cases vi <;> simp

theorem linesEnd_none_vi (t : Text) (hi : Nat) (h : findNlFrom t hi = none) : linesEnd t hi true = t.length := by
  unfold linesEnd linesEndI
  simp only [h, if_true]
  omega

theorem cutSelection_lines_eq' (t : Text) (cur orig : Nat) (vi : Bool) :
    cutSelection t cur orig .lines vi =
      let from_ := linesFrom t (min cur orig)
      let e := linesEnd t (max cur orig) vi
      let raw := sl t from_ e
      ({ text := t.take from_ ++ t.drop e, cur := from_ },
       { text := if raw.getLast? = some '\n' ∧ (findNlFrom t (max cur orig)).isSome then raw.dropLast else raw,
         ty := .lines }) := by
  simp only [cutSelection, selectionRanges, cutLoop, if_true, join, List.nil_append, List.drop_zero,
    true_and, linesFrom, sl]
  rfl

/-- **LINES cut fidelity (Vi and Emacs mode).**  What `cut_selection` removes for a LINES selection
    is one contiguous span: the stored text followed by at most the one newline that terminated
    the last selected line; putting it back gives the text. -/
theorem cutSelection_lines_fidelity' (t : Text) (cur orig : Nat) (vi : Bool) (hc : cur ≤ t.length)
    (ho : orig ≤ t.length)
    (hle : vi = false → linesFrom t (min cur orig) ≤ linesEnd t (max cur orig) vi) :
    ∃ raw, (raw = (cutSelection t cur orig .lines vi).2.text ∨
            raw = (cutSelection t cur orig .lines vi).2.text ++ ['\n']) ∧
      t = reinsert (cutSelection t cur orig .lines vi).1.text (cutSelection t cur orig .lines vi).1.cur raw ∧
      (cutSelection t cur orig .lines vi).2.ty = .lines := by
  rw [cutSelection_lines_eq']
  simp only
  have h1 : linesFrom t (min cur orig) ≤ t.length := by unfold linesFrom; omega
  have hle' : linesFrom t (min cur orig) ≤ linesEnd t (max cur orig) vi := by
    cases vi with
    | false => exact hle rfl
    | true =>
      have := linesEnd_ge t (max cur orig) (by omega)
      simp only [linesFrom]; omega
  have hre := cut_reinsert t _ _ hle' h1
  split
  · rename_i hs
    exact ⟨_, Or.inr (dropLast_append_getLast _ _ hs.1), hre.symm, trivial⟩
  · exact ⟨_, Or.inl rfl, hre.symm, trivial⟩


theorem splitOn_nil (c : Char) : splitOn c [] = [[]] := rfl

/-- pasting LINES data above the line that starts at the end of `pre` -/
theorem lines_paste_core (pre stored post : Text) (hpre : pre = [] ∨ ∃ pre', pre = pre' ++ ['\n']) :
    (pasteRaw { text := pre ++ post, cur := pre.length } { text := stored, ty := .lines } .viBefore 1).1
      = pre ++ stored ++ '\n' :: post := by
  simp only [pasteRaw, show ¬ ((1 : Int) ≤ 0) by omega, if_false, if_true]
  have hrow : row ({ text := pre ++ post, cur := pre.length } : Buf) = (pre.filter isNl).length := by
    simp [row, Buf.before]
  rw [hrow]
  have hne : splitOn '\n' post ≠ [] := splitOn_ne_nil _ _
  rcases hpre with rfl | ⟨pre', rfl⟩
  · simp only [List.filter_nil, List.length_nil, List.take_zero, List.drop_zero, List.nil_append]
    show join ['\n'] ([stored] ++ splitOn '\n' post) = _
    rw [join_append]
    simp [hne, join, join_splitOn]
  · have hl : ((pre' ++ ['\n']).filter isNl).length = (splitOn '\n' pre').length := by
      rw [splitOn_length, List.filter_append, List.length_append]
      have e : (List.filter isNl ['\n']).length = 1 := by decide
      rw [e]
    have e4 : pre' ++ ['\n'] ++ post = pre' ++ '\n' :: post := by simp
    rw [hl, e4, splitOn_append]
    rw [List.take_left' rfl, List.drop_left' rfl]
    have e3 : List.replicate (Int.toNat 1) stored = [stored] := by simp
    rw [e3, join_append, join_append]
    have h1 : splitOn '\n' pre' ≠ [] := splitOn_ne_nil _ _
    simp [h1, hne, join, join_splitOn]


theorem dropWhile_notNl_head (r : Text) : r.dropWhile notNl = [] ∨ ∃ rest, r.dropWhile notNl = '\n' :: rest := by
  induction r with
  | nil => left; rfl
  | cons x xs ih =>
    rw [List.dropWhile_cons]
    split
    · exact ih
    · rename_i h
      right
      have : x = '\n' := by simpa [notNl] using h
      exact ⟨xs, by rw [this]⟩

theorem drop_length_takeWhile {α : Type} (p : α → Bool) (l : List α) :
    l.drop (l.takeWhile p).length = l.dropWhile p := by
  conv => lhs; arg 2; rw [← List.takeWhile_append_dropWhile (p := p) (l := l)]
  exact List.drop_left' rfl

theorem linesFrom_prefix (t : Text) (lo : Nat) (h : lo ≤ t.length) :
    (t.take (linesFrom t lo)).length = linesFrom t lo ∧
    (t.take (linesFrom t lo) = [] ∨ ∃ pre', t.take (linesFrom t lo) = pre' ++ ['\n']) := by
  have hlen : (t.take lo).length = lo := by simp; omega
  refine ⟨by simp [linesFrom]; omega, ?_⟩
  have e1 : t.take (linesFrom t lo) = (t.take lo).take (lo - col { text := t, cur := lo }) := by
    rw [List.take_take]; unfold linesFrom; congr 1; omega
  have e2 : (t.take lo).take (lo - col { text := t, cur := lo })
      = ((t.take lo).reverse.dropWhile notNl).reverse := by
    rw [← drop_length_takeWhile]
    simp only [col, lineBefore, Buf.before, List.length_reverse]
    generalize ((t.take lo).reverse.takeWhile notNl).length = k
    rw [List.drop_reverse, List.reverse_reverse, hlen]
  rw [e1, e2]
  rcases dropWhile_notNl_head (t.take lo).reverse with h0 | ⟨rest, h0⟩
  · left; rw [h0]; rfl
  · right; rw [h0]; exact ⟨rest.reverse, by simp⟩

theorem findNlFrom_spec (t : Text) (i k : Nat) (h : findNlFrom t i = some k) :
    i ≤ k ∧ t.drop k = '\n' :: t.drop (k + 1) := by
  unfold findNlFrom at h
  simp only at h
  split at h
  · rename_i hlt
    cases h
    refine ⟨by omega, ?_⟩
    have hd : t.drop (i + ((t.drop i).takeWhile notNl).length) = (t.drop i).dropWhile notNl := by
      rw [← List.drop_drop, drop_length_takeWhile]
    rcases dropWhile_notNl_head (t.drop i) with h0 | ⟨rest, h0⟩
    · rw [← drop_length_takeWhile] at h0
      have := congrArg List.length h0
      rw [List.length_drop, List.length_nil] at this
      omega
    · rw [hd, h0]
      have : t.drop (i + ((t.drop i).takeWhile notNl).length + 1) = rest := by
        rw [← List.drop_drop, hd, h0]; rfl
      rw [this]
  · cases h

/-- **LINES cut, then `P` at the cut point.**  (Vi mode.)  When a newline terminates the last
    selected line (the selection does not reach the end of the text) `P` at the cursor left by
    `cut_selection` restores the text exactly.  When the selection reaches the end of the text, no
    terminating newline exists: the newline BEFORE the selection stays in the buffer and the paste
    gives the text followed by one newline (the "trailing newline convention" of LINES data). -/
theorem lines_cut_then_P (t : Text) (cur orig : Nat) (hc : cur ≤ t.length) (ho : orig ≤ t.length) :
    let r := cutSelection t cur orig .lines true
    (pasteRaw r.1 r.2 .viBefore 1).1 =
      if (findNlFrom t (max cur orig)).isSome then t else t ++ ['\n'] := by
  simp only
  rw [cutSelection_lines_eq']
  simp only
  obtain ⟨hplen, hpre⟩ := linesFrom_prefix t (min cur orig) (by omega)
  generalize hf : linesFrom t (min cur orig) = from_ at hplen hpre
  have hfl : from_ ≤ min cur orig := by rw [← hf]; unfold linesFrom; omega
  cases hnl : findNlFrom t (max cur orig) with
  | some k =>
    obtain ⟨hk1, hk2⟩ := findNlFrom_spec _ _ _ hnl
    have hkl : k < t.length := by
      apply Nat.lt_of_not_le
      intro hge
      rw [List.drop_of_length_le hge] at hk2
      cases hk2
    have hraw : sl t from_ (linesEnd t (max cur orig) true) = sl t from_ k ++ ['\n'] := by
      rw [linesEnd_some _ _ _ _ hnl]
      simp only [if_true]
      rw [sl_split t from_ k (k + 1) (by omega) (by omega)]
      congr 1
      have hg : t[k] = '\n' := by
        have := List.drop_eq_getElem_cons hkl
        rw [this] at hk2
        exact (List.cons.inj hk2).1
      simp only [sl]
      rw [List.take_succ_eq_append_getElem hkl, hg]
      exact List.drop_left' (by simp; omega)
    rw [hraw]
    simp only [List.getLast?_append, List.getLast?_singleton, Option.some_or, Option.isSome_some, and_self,
      if_true, List.dropLast_concat]
    have he : linesEnd t (max cur orig) true = k + 1 := by rw [linesEnd_some _ _ _ _ hnl]; rfl
    rw [he]
    have := lines_paste_core (t.take from_) (sl t from_ k) (t.drop (k + 1)) hpre
    rw [hplen] at this
    rw [this]
    have e1 : t.take from_ ++ sl t from_ k = t.take k := by
      have : t.take from_ = (t.take k).take from_ := by rw [List.take_take]; congr 1; omega
      rw [this]; exact List.take_append_drop _ _
    rw [e1, ← hk2, List.take_append_drop]
  | none =>
    have he : t.length ≤ linesEnd t (max cur orig) true := by
      rw [linesEnd_none_vi _ _ hnl]; exact Nat.le_refl _
    rw [sl_full _ _ _ he, List.drop_of_length_le he]
    simp only [Option.isSome_none, Bool.false_eq_true, and_false, if_false, List.append_nil]
    have := lines_paste_core (t.take from_) (t.drop from_) [] hpre
    rw [hplen, List.append_nil] at this
    rw [this, List.take_append_drop]

/-- the cursor computed by the loop stays where it is once a range with a non-zero end was seen -/
theorem cutLoop_cur_stable (t : Text) : ∀ (rs : List (Nat × Nat)) (rem : Text) (cuts : List Text) (nc last : Nat),
    last ≠ 0 → (∀ r ∈ rs, r.2 ≠ 0) → (cutLoop t rs (rem, cuts, nc, last)).2.2.1 = nc := by
  intro rs
  induction rs with
  | nil => intro _ _ _ _ _ _; rfl
  | cons r rest ih =>
    intro rem cuts nc last hl hall
    obtain ⟨f, to⟩ := r
    simp only [cutLoop, if_neg hl]
    exact ih _ _ nc to (hall (f, to) (by simp)) (fun r h => hall r (by simp [h]))

theorem blockRanges_to_pos (c1 c2 : Nat) : ∀ (n : Nat) (L : List Text) (off : Nat), 0 < off →
    ∀ r ∈ blockRanges c1 c2 off L n, r.2 ≠ 0 := by
  intro n
  induction n with
  | zero => intro L off _ r h; simp [blockRanges] at h
  | succ n ih =>
    intro L off ho r h
    cases L with
    | nil => simp [blockRanges] at h
    | cons ln L' =>
      simp only [blockRanges] at h
      split at h
      · rcases List.mem_cons.mp h with rfl | h
        · simp only; omega
        · exact ih L' _ (by omega) r h
      · exact ih L' _ (by omega) r h

/-- **Cursor after a BLOCK cut.**  The cursor is left on the top-left corner of the block, provided
    the first line of the block reaches the left column and its range does not end at index 0
    (it does only when the block starts in an empty first line of the text; see the example below). -/
theorem block_cut_cursor (t : Text) (cur orig : Nat) (vi : Bool) :
    let g := blockGeom t cur orig vi
    let lines := splitOn '\n' t
    let m0 := lines.getD g.r1 []
    g.c1 ≤ m0.length → rowStart lines g.r1 + min m0.length g.c2 ≠ 0 →
    (cutSelection t cur orig .block vi).1.cur = blockCorner t cur orig vi := by
  intro g lines m0 hc hto
  have ht : t = join ['\n'] lines := (join_splitOn '\n' t).symm
  have hr1 : g.r1 < lines.length := row_lt_lines { text := t, cur := min cur orig }
  have hn : 0 < g.n := blockGeom_n_pos t cur orig vi
  have hr2 : g.r1 + g.n ≤ lines.length := by
    have hb : row ({ text := t, cur := max cur orig } : Buf) < (splitOn '\n' t).length := row_lt_lines _
    have ha : row ({ text := t, cur := min cur orig } : Buf) < (splitOn '\n' t).length := row_lt_lines _
    show row ({ text := t, cur := min cur orig } : Buf) + (row ({ text := t, cur := max cur orig } : Buf) + 1
      - row ({ text := t, cur := min cur orig } : Buf)) ≤ (splitOn '\n' t).length
    omega
  have hranges : selectionRanges t cur orig .block vi =
      blockRanges g.c1 g.c2 (rowStart lines g.r1) (lines.drop g.r1) g.n :=
    block_ranges_eq t g.c1 g.c2 lines ht g.n g.r1 hr2
  have hm0 : m0 = lines[g.r1] := by simp [m0, List.getElem?_eq_getElem hr1]
  obtain ⟨k, hk⟩ : ∃ k, g.n = k + 1 := ⟨g.n - 1, by omega⟩
  unfold cutSelection
  simp only
  rw [hranges, List.drop_eq_getElem_cons hr1, hk]
  rw [hm0] at hc hto
  simp only [blockRanges, hc, if_true, cutLoop]
  rw [cutLoop_cur_stable t _ _ _ _ _ hto (blockRanges_to_pos _ _ _ _ _ (by omega))]
  rfl

-- the quirk: a block that starts in the empty first line of the text leaves the cursor on the
-- second row (`last_to == 0` is taken for "first range")
example : (cutSelection "\nab".toList 1 0 .block true).1.cur = 1 ∧ blockCorner "\nab".toList 1 0 true = 0 := by
  decide


/-! ### key level: `V … x / d` then `P`, `C-v … x / d` then `P` / `p` -/

theorem pasteRaw_lines_fixNav (b : Buf) (h : WF b) (d : Clip) (hty : d.ty = .lines) (mode : PasteMode) (n : Int) :
    (pasteRaw (fixNav b) d mode n).1 = (pasteRaw b d mode n).1 := by
  unfold pasteRaw
  simp only [hty, fixNav_text, row_fixNav b h]
  split
  · rfl
  · split <;> rfl

/-- when `_fix_vi_cursor_position` steps left, the column decreases by one -/
theorem col_fixNav (b : Buf) (h : WF b) (hm : (fixNav b).cur + 1 = b.cur) : col (fixNav b) + 1 = col b := by
  unfold fixNav at hm ⊢
  split at hm
  · rename_i hc
    rw [if_pos hc]
    obtain ⟨h1, h2⟩ := hc
    have hla : lineAfter b = [] := by
      unfold lineAfter Buf.after
      rcases h1 with h1 | h1
      · have : b.text.length ≤ b.cur := by
          rw [List.getElem?_eq_none_iff] at h1; exact h1
        rw [List.drop_of_length_le this]; rfl
      · have : b.text.drop b.cur = '\n' :: b.text.drop (b.cur + 1) := by
          rw [List.getElem?_eq_some_iff] at h1
          obtain ⟨hlt, he⟩ := h1
          rw [← he]; exact List.drop_eq_getElem_cons hlt
        rw [this]; simp [notNl]
    rw [hla] at h2
    simp only [List.append_nil, lineBefore, List.length_reverse] at h2
    unfold WF at h
    have hlen : b.before.length = b.cur := by simp [Buf.before]; omega
    rcases List.eq_nil_or_concat b.before with hnil | ⟨pre, x, hx⟩
    · rw [hnil] at h2; simp at h2
    · rw [hx] at h2 hlen
      simp [List.takeWhile_cons] at h2
      have hxn : notNl x = true := by
        by_cases hx' : notNl x = true
        · exact hx'
        · simp [hx'] at h2
      simp at hlen
      have hpre : b.text.take (b.cur - 1) = pre := by
        have : b.text.take (b.cur - 1) = (b.before).take (b.cur - 1) := by
          simp only [Buf.before, List.take_take]; congr 1; omega
        rw [this, hx]
        have : b.cur - 1 = pre.length := by omega
        rw [this]; simp
      unfold col lineBefore
      simp only [Buf.before] at hx ⊢
      rw [hpre, hx]
      simp [hxn]
  · omega


theorem cutSelection_lines_wf (t : Text) (cur orig : Nat) (vi : Bool) (hc : cur ≤ t.length) (_ho : orig ≤ t.length) :
    WF (cutSelection t cur orig .lines vi).1 ∧ (cutSelection t cur orig .lines vi).2.ty = .lines := by
  rw [cutSelection_lines_eq']
  refine ⟨?_, rfl⟩
  unfold WF
  simp only [List.length_append, List.length_take, linesFrom]
  omega

/-- **`V … x` / `V … d`, then `P`.**  After a linewise visual delete into the unnamed register,
    `P` gives back the text when a newline terminates the last selected line; when the selection
    reaches the end of the text the result is the text followed by one newline. -/
theorem visual_lines_delete_then_P (mx : Nat) (hmax : 0 < mx) (s : VSt) (a c : Nat) (act : VisAct)
    (hact : act = .x ∨ act = .d) :
    let t := s.buf.text
    let hi := visHi t a c
    let e := if act = .x then hi else hi + (lineAfter { text := t, cur := hi }).length
    (vstep mx (vstep mx s none (.vis .lines a c act none)) none .P).buf.text =
      if (findNlFrom t e).isSome then t else t ++ ['\n'] := by
  have hb1 : (setCursor s.buf a).cur ≤ s.buf.text.length := by simp [setCursor]; omega
  have hb2 : (setCursor (setCursor s.buf a) c).cur ≤ s.buf.text.length := by simp [setCursor]; omega
  have hsc : (setCursor (setCursor s.buf a) c).text = s.buf.text := rfl
  have hhi : max (setCursor (setCursor s.buf a) c).cur (setCursor s.buf a).cur = visHi s.buf.text a c := by
    simp only [setCursor, visHi, Int.toNat_natCast]; omega
  rcases hact with rfl | rfl
  · simp only [vstep, Option.isSome_none, Bool.false_eq_true, if_false, fixNav_text, setData_top mx hmax,
      pasteBuf, viCount, if_true]
    obtain ⟨hwf, hty⟩ := cutSelection_lines_wf s.buf.text _ _ true hb2 hb1
    rw [pasteRaw_lines_fixNav _ hwf _ hty]
    have := lines_cut_then_P s.buf.text _ _ hb2 hb1
    simp only [hhi] at this
    exact this
  · simp only [vstep, Option.isSome_none, Bool.false_eq_true, if_false, fixNav_text, textObjectCut, hsc,
      reduceCtorEq]
    generalize hlo : min (setCursor s.buf a).cur (setCursor (setCursor s.buf a) c).cur = lo
    have hhi' : max (setCursor s.buf a).cur (setCursor (setCursor s.buf a) c).cur = visHi s.buf.text a c := by
      rw [Nat.max_comm]; exact hhi
    rw [hhi']
    generalize visHi s.buf.text a c = hi at *
    have hhile : hi ≤ s.buf.text.length := by omega
    have h1 : lo - col { text := s.buf.text, cur := lo } ≤ s.buf.text.length := by omega
    have h2 : hi + (lineAfter { text := s.buf.text, cur := hi }).length ≤ s.buf.text.length := by
      have := lineAfter_le { text := s.buf.text, cur := hi }
      simp only at this; omega
    obtain ⟨hwf, hty⟩ := cutSelection_lines_wf s.buf.text _ _ true h2 h1
    have hst : storable (cutSelection s.buf.text (hi + (lineAfter { text := s.buf.text, cur := hi }).length)
        (lo - col { text := s.buf.text, cur := lo }) .lines true).2 = true := by
      simp [storable, hty]
    simp only [hst, if_true, setData_top mx hmax, pasteBuf, viCount]
    rw [pasteRaw_lines_fixNav _ hwf _ hty]
    have := lines_cut_then_P s.buf.text _ _ h2 h1
    have hmax' : max (hi + (lineAfter { text := s.buf.text, cur := hi }).length)
        (lo - col { text := s.buf.text, cur := lo }) = hi + (lineAfter { text := s.buf.text, cur := hi }).length := by
      omega
    simp only [hmax'] at this
    exact this

example : (vstep 3 (vstep 3 exV4 none (.vis .lines 3 2 .d none)) none .P).buf.text = "a\nbc\nd".toList ∧
    (vstep 3 (vstep 3 exV4 none (.vis .lines 5 5 .x none)) none .P).buf.text = "a\nbc\nd\n".toList := by decide


/-- one block paste-back at the key level: the buffer after `fixNav`, `P` when the cursor stayed on
    the corner, `p` when it stepped left -/
theorem block_key_paste_back (t : Text) (cur orig : Nat)
    (hM : ∀ ln ∈ ((splitOn '\n' t).drop (blockGeom t cur orig true).r1).take (blockGeom t cur orig true).n,
      (blockGeom t cur orig true).c1 ≤ ln.length)
    (hto : rowStart (splitOn '\n' t) (blockGeom t cur orig true).r1 +
      min ((splitOn '\n' t).getD (blockGeom t cur orig true).r1 []).length (blockGeom t cur orig true).c2 ≠ 0) :
    let r := cutSelection t cur orig .block true
    (pasteRaw (fixNav r.1) r.2
      (if (fixNav r.1).cur = blockCorner t cur orig true then .viBefore else .viAfter) 1).1 = t := by
  intro r
  have hn : 0 < (blockGeom t cur orig true).n := blockGeom_n_pos t cur orig true
  have hr1 : (blockGeom t cur orig true).r1 < (splitOn '\n' t).length :=
    row_lt_lines { text := t, cur := min cur orig }
  have hc0 : (blockGeom t cur orig true).c1 ≤ ((splitOn '\n' t).getD (blockGeom t cur orig true).r1 []).length := by
    apply hM
    rw [List.drop_eq_getElem_cons hr1]
    obtain ⟨k, hk⟩ : ∃ k, (blockGeom t cur orig true).n = k + 1 := ⟨_, (Nat.succ_pred_eq_of_pos hn).symm⟩
    rw [hk, List.take_succ_cons]
    simp [List.getD, List.getElem?_eq_getElem hr1]
  have hcur : r.1.cur = blockCorner t cur orig true := block_cut_cursor t cur orig true hc0 hto
  obtain ⟨p1, p2, p3⟩ := block_corner_position t cur orig true hM
  have hr1eq : r.1 = { text := r.1.text, cur := blockCorner t cur orig true } := by
    rw [← hcur]
  have hwf : WF r.1 := by rw [hr1eq]; exact p3
  rcases fixNav_cur r.1 with hc | ⟨hc, _⟩
  · rw [if_pos (by rw [hc, hcur])]
    have hf : fixNav r.1 = { text := r.1.text, cur := blockCorner t cur orig true } := by
      have h1 := fixNav_text r.1
      have h2 := hc.trans hcur
      generalize fixNav r.1 = fb at h1 h2
      cases fb; simp only at h1 h2; subst h1 h2; rfl
    rw [hf]
    exact block_paste_back t cur orig true _ .viBefore hM p1 (by simpa using p2)
  · rw [if_neg (by rw [← hcur]; omega)]
    have hrow : row (fixNav r.1) = (blockGeom t cur orig true).r1 := by
      rw [row_fixNav r.1 hwf, hr1eq]; exact p1
    have hcol : col (fixNav r.1) + 1 = (blockGeom t cur orig true).c1 := by
      rw [col_fixNav r.1 hwf hc, hr1eq]; exact p2
    have hf : fixNav r.1 = { text := r.1.text, cur := (fixNav r.1).cur } := by
      have h1 := fixNav_text r.1
      generalize fixNav r.1 = fb at h1
      cases fb; simp only at h1; subst h1; rfl
    rw [hf] at hrow hcol ⊢
    exact block_paste_back t cur orig true _ .viAfter hM hrow (by simpa using hcol)


theorem blockGeom_minmax (t : Text) (x y : Nat) (vi : Bool) :
    blockGeom t x y vi = blockGeom t (max x y) (min x y) vi := by
  have h1 : min (max x y) (min x y) = min x y := by omega
  have h2 : max (max x y) (min x y) = max x y := by omega
  simp only [blockGeom, h1, h2]

theorem blockCorner_minmax (t : Text) (x y : Nat) (vi : Bool) :
    blockCorner t x y vi = blockCorner t (max x y) (min x y) vi := by
  simp only [blockCorner, ← blockGeom_minmax]

/-- **`C-v … x` / `C-v … d`, then paste.**  After a visual BLOCK delete into the unnamed register
    (every line of the block reaches its left column; the block does not start in an empty first
    line of the text; for the operator `d` the block is not empty), pasting the register back —
    `P` when the cursor is on the corner of the block, `p` when `_fix_vi_cursor_position` moved it
    one to the left — restores the text. -/
theorem visual_block_delete_then_paste (mx : Nat) (hmax : 0 < mx) (s : VSt) (a c : Nat) (act : VisAct)
    (hact : act = .x ∨ act = .d)
    (hM : ∀ ln ∈ ((splitOn '\n' s.buf.text).drop (blockGeom s.buf.text (visHi s.buf.text a c) (visLo s.buf.text a c) true).r1).take
        (blockGeom s.buf.text (visHi s.buf.text a c) (visLo s.buf.text a c) true).n,
      (blockGeom s.buf.text (visHi s.buf.text a c) (visLo s.buf.text a c) true).c1 ≤ ln.length)
    (hto : rowStart (splitOn '\n' s.buf.text) (blockGeom s.buf.text (visHi s.buf.text a c) (visLo s.buf.text a c) true).r1 +
      min ((splitOn '\n' s.buf.text).getD (blockGeom s.buf.text (visHi s.buf.text a c) (visLo s.buf.text a c) true).r1 []).length
        (blockGeom s.buf.text (visHi s.buf.text a c) (visLo s.buf.text a c) true).c2 ≠ 0)
    (hne : act = .d → (cutSelection s.buf.text (visHi s.buf.text a c) (visLo s.buf.text a c) .block true).2.text ≠ []) :
    let s1 := vstep mx s none (.vis .block a c act none)
    (vstep mx s1 none
      (if s1.buf.cur = blockCorner s.buf.text (visHi s.buf.text a c) (visLo s.buf.text a c) true then .P else .p)).buf.text
      = s.buf.text := by
  have hsc : (setCursor (setCursor s.buf a) c).text = s.buf.text := rfl
  have hhi : max (setCursor (setCursor s.buf a) c).cur (setCursor s.buf a).cur = visHi s.buf.text a c := by
    simp only [setCursor, visHi, Int.toNat_natCast]; omega
  have hlo : min (setCursor (setCursor s.buf a) c).cur (setCursor s.buf a).cur = visLo s.buf.text a c := by
    simp only [setCursor, visLo, Int.toNat_natCast]; omega
  have hhi' : max (setCursor s.buf a).cur (setCursor (setCursor s.buf a) c).cur = visHi s.buf.text a c := by
    rw [Nat.max_comm]; exact hhi
  have hlo' : min (setCursor s.buf a).cur (setCursor (setCursor s.buf a) c).cur = visLo s.buf.text a c := by
    rw [Nat.min_comm]; exact hlo
  -- both actions cut `cutSelection t cu og .block true` with the same geometry
  have key : ∀ cu og : Nat, blockGeom s.buf.text cu og true =
        blockGeom s.buf.text (visHi s.buf.text a c) (visLo s.buf.text a c) true →
      blockCorner s.buf.text cu og true = blockCorner s.buf.text (visHi s.buf.text a c) (visLo s.buf.text a c) true →
      (vstep mx { s with buf := fixNav (cutSelection s.buf.text cu og .block true).1,
                         ring := setData mx s.ring (cutSelection s.buf.text cu og .block true).2 } none
        (if (fixNav (cutSelection s.buf.text cu og .block true).1).cur =
            blockCorner s.buf.text (visHi s.buf.text a c) (visLo s.buf.text a c) true
          then .P else .p)).buf.text = s.buf.text := by
    intro cu og hg hcorner
    have hM' := hM; have hto' := hto
    rw [← hg] at hM' hto'
    have := block_key_paste_back s.buf.text cu og hM' hto'
    dsimp only at this
    rw [hcorner] at this
    generalize cutSelection s.buf.text cu og .block true = r at this ⊢
    by_cases hcur : (fixNav r.1).cur = blockCorner s.buf.text (visHi s.buf.text a c) (visLo s.buf.text a c) true
    · rw [if_pos hcur] at this ⊢
      simpa [vstep, fixNav_text, setData_top mx hmax, viCount, pasteBuf] using this
    · rw [if_neg hcur] at this ⊢
      simpa [vstep, fixNav_text, setData_top mx hmax, viCount, pasteBuf] using this
  rcases hact with rfl | rfl
  · have h1 : blockGeom s.buf.text (setCursor (setCursor s.buf a) c).cur (setCursor s.buf a).cur true =
        blockGeom s.buf.text (visHi s.buf.text a c) (visLo s.buf.text a c) true := by
      rw [blockGeom_minmax, hhi, hlo]
    have h2 : blockCorner s.buf.text (setCursor (setCursor s.buf a) c).cur (setCursor s.buf a).cur true =
        blockCorner s.buf.text (visHi s.buf.text a c) (visLo s.buf.text a c) true := by
      rw [blockCorner_minmax, hhi, hlo]
    have := key (setCursor (setCursor s.buf a) c).cur (setCursor s.buf a).cur h1 h2
    simp only [vstep, Option.isSome_none, Bool.false_eq_true, if_false] at this ⊢
    exact this
  · have hst : storable (cutSelection s.buf.text (visHi s.buf.text a c) (visLo s.buf.text a c) .block true).2 = true := by
      simp [storable, hne rfl]
    have := key (visHi s.buf.text a c) (visLo s.buf.text a c) rfl rfl
    simp only [vstep, Option.isSome_none, Bool.false_eq_true, if_false, textObjectCut, hsc, hhi', hlo', hst, if_true]
      at this ⊢
    exact this

def exV6 : VSt := { buf := { text := "abcd\nefgh\nij".toList, cur := 0 }, ring := [], regs := [] }
example : (vstep 3 exV6 none (.vis .block 1 7 .x none)).buf = { text := "ad\neh\nij".toList, cur := 1 } ∧
    getData (vstep 3 exV6 none (.vis .block 1 7 .x none)).ring = ⟨"bc\nfg".toList, .block⟩ ∧
    blockCorner exV6.buf.text 7 1 true = 1 ∧
    (vstep 3 (vstep 3 exV6 none (.vis .block 1 7 .x none)) none .P).buf.text = exV6.buf.text := by decide


/-! ### non-vacuity and the necessity of the side conditions -/

-- BLOCK: rows 0-1, columns 1-2 of "abcd/efgh/ij"
def exT1 : Text := "abcd\nefgh\nij".toList
example :
    blockGeom exT1 7 1 true = { r1 := 0, n := 2, c1 := 1, c2 := 3 } ∧
    (∀ ln ∈ ((splitOn '\n' exT1).drop 0).take 2, 1 ≤ ln.length) ∧
    cutSelection exT1 7 1 .block true = ({ text := "ad\neh\nij".toList, cur := 1 }, ⟨"bc\nfg".toList, .block⟩) ∧
    blockCorner exT1 7 1 true = 1 := by decide

-- a line inside the block that does not reach the left column has no cell: the cells of the
-- lines below it move up when the block is pasted back — the side condition of
-- `block_paste_back` is needed
example :
    cutSelection "abc\n\nefg".toList 10 2 .block true = ({ text := "ab\n\nef".toList, cur := 2 }, ⟨"c\ng".toList, .block⟩) ∧
    (pasteRaw { text := "ab\n\nef".toList, cur := 2 } ⟨"c\ng".toList, .block⟩ .viBefore 1).1 = "abc\n  g\nef".toList := by
  decide

-- LINES: the two cases of `lines_cut_then_P`
example :
    cutSelection "a\nbc\nd".toList 3 2 .lines true = ({ text := "a\nd".toList, cur := 2 }, ⟨"bc".toList, .lines⟩) ∧
    (findNlFrom "a\nbc\nd".toList 3).isSome = true ∧
    cutSelection "a\nbc\nd".toList 5 5 .lines true = ({ text := "a\nbc\n".toList, cur := 5 }, ⟨"d".toList, .lines⟩) ∧
    (findNlFrom "a\nbc\nd".toList 5).isSome = false := by decide

-- Emacs mode (API only: `start_selection(LINES)`): the upper bound is excluded
example : cutSelection "a\nbc\nd".toList 3 2 .lines false = ({ text := "a\n\nd".toList, cur := 2 }, ⟨"bc".toList, .lines⟩) ∧
    cutSelection "ab".toList 0 1 .lines false = ({ text := "b".toList, cur := 0 }, ⟨"a".toList, .lines⟩) := by decide


end Ptk.C09
