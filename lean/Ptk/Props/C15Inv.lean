/-
  C15 — the invariant of the async transition system and its preservation by every step.

  `Inv cfg env s` =  `BufOK` (menu describes the text; completions come from the completer for
  the menu's original document; verdict / suggestion were computed for the current text)
  ∧ `TaskOK` (a loading completer and the buffer's state object with the same identity agree
  on document and on the completions delivered so far) ∧ `FlagsOK` (per kind: number of
  coroutines past the `running` check = the flag ≤ 1).

  Main result: `run_inv` — every state reachable by any finite sequence of user actions and
  scheduler steps (any interleaving, unbounded) satisfies `Inv`.  The property theorems
  themselves are in `Ptk.Props.C15`.
-/
import Ptk.Model.C15
namespace Ptk.C15
open Ptk.Py

/-! ### definitions -/

def Doc.WF (d : Doc) : Prop := d.cur ≤ d.text.length

def isPending : Task → Bool
  | .cPend _ | .vPend | .sPend => true
  | _ => false

def isC : Task → Bool | .cLoad .. => true | _ => false
def isV : Task → Bool | .vWait _ => true | _ => false
def isS : Task → Bool | .sWait _ => true | _ => false

/-- number of coroutines of a kind that are past the `running` check -/
def cntC (ts : List Task) : Nat := ts.countP isC
def cntV (ts : List Task) : Nat := ts.countP isV
def cntS (ts : List Task) : Nat := ts.countP isS

/-- the completions were obtained by inserting the common part `cp` of the list `L` the
    completer produced for `d` (`new_completion_from_position`) -/
def Derived (env : Env) (st : CState) : Prop :=
  ∃ (d : Doc) (L : List Completion) (cp : Text),
    L <+: env.comp d ∧ cp = commonSuffix d L ∧ cp ≠ [] ∧
    st.comps = L.map (fromPos cp.length) ∧
    st.orig = ⟨d.before ++ cp ++ d.after, d.cur + cp.length⟩

/-- where the completions of a menu come from: (a prefix of) the completer's stream for the
    menu's original document; or that after `insert_common_part`; or
    `start_history_lines_completion` for the original document -/
def Provenance (env : Env) (st : CState) : Prop :=
  st.comps <+: env.comp st.orig ∨ Derived env st ∨ st.comps = histComps env.isSpace st.orig

structure CsOK (env : Env) (s : St) (st : CState) : Prop where
  text_eq : st.newDoc = some s.doc
  tok_lt : st.token < s.nextTok
  prov : Provenance env st
  orig_wf : st.orig.WF

structure BufOK (cfg : Config) (env : Env) (s : St) : Prop where
  cur_le : s.cur ≤ s.text.length
  cs_ok : ∀ st, s.cs = some st → CsOK env s st
  valid_fresh : s.vs = .valid →
    s.verr = none ∧ (cfg.hasV = false ∨ ∃ c, c ≤ s.text.length ∧ env.valid ⟨s.text, c⟩ = none)
  invalid_fresh : s.vs = .invalid →
    ∃ c msg, c ≤ s.text.length ∧ env.valid ⟨s.text, c⟩ = some msg ∧ s.verr = some msg
  sugg_fresh : ∀ t, s.sugg = some t → ∃ c, c ≤ s.text.length ∧ env.sugg ⟨s.text, c⟩ = some t

/-- every loading completer holds a token older than `nextTok`, and if its state object is
    still the buffer's, that state holds exactly what the completer delivered so far -/
def TaskOK (env : Env) (s : St) : Prop :=
  ∀ m doc i tok, Task.cLoad m doc i tok ∈ s.tasks →
    tok < s.nextTok ∧
    ∀ st, s.cs = some st → st.token = tok → st.orig = doc ∧ st.comps = (env.comp doc).take i

def b2n (b : Bool) : Nat := if b then 1 else 0

structure FlagsOK (s : St) : Prop where
  c : cntC s.tasks = b2n s.runC
  v : cntV s.tasks = b2n s.runV
  s : cntS s.tasks = b2n s.runS

structure Inv (cfg : Config) (env : Env) (s : St) : Prop where
  buf : BufOK cfg env s
  task : TaskOK env s
  flags : FlagsOK s

/-- tasks were only added, and only pending ones -/
def PendExt (ts ts' : List Task) : Prop := ∃ l, ts' = ts ++ l ∧ ∀ t ∈ l, isPending t = true

/-- the menu of `s'` (if any) is the menu of `s` with possibly another index -/
def CsStep (s s' : St) : Prop :=
  ∀ st', s'.cs = some st' →
    ∃ st, s.cs = some st ∧ st'.token = st.token ∧ st'.orig = st.orig ∧ st'.comps = st.comps

structure Frame (s s' : St) : Prop where
  ext : PendExt s.tasks s'.tasks
  runC : s'.runC = s.runC
  runV : s'.runV = s.runV
  runS : s'.runS = s.runS
  tok : s'.nextTok = s.nextTok
  cs : CsStep s s'

theorem PendExt.refl (ts : List Task) : PendExt ts ts := ⟨[], by simp⟩
theorem PendExt.trans {a b c : List Task} (h1 : PendExt a b) (h2 : PendExt b c) : PendExt a c := by
  obtain ⟨l1, rfl, h1⟩ := h1
  obtain ⟨l2, rfl, h2⟩ := h2
  exact ⟨l1 ++ l2, by simp, by intro t ht; simp at ht; rcases ht with h | h; exact h1 t h; exact h2 t h⟩
theorem PendExt.snoc (ts : List Task) (t : Task) (h : isPending t = true) : PendExt ts (ts ++ [t]) :=
  ⟨[t], rfl, by simp [h]⟩

theorem CsStep.refl (s : St) : CsStep s s := fun st' h => ⟨st', h, rfl, rfl, rfl⟩
theorem CsStep.trans {a b c : St} (h1 : CsStep a b) (h2 : CsStep b c) : CsStep a c := by
  intro st' h
  obtain ⟨st1, e1, a1, b1, c1⟩ := h2 st' h
  obtain ⟨st0, e0, a0, b0, c0⟩ := h1 st1 e1
  exact ⟨st0, e0, by rw [a1, a0], by rw [b1, b0], by rw [c1, c0]⟩
theorem CsStep.of_none {s s' : St} (h : s'.cs = none) : CsStep s s' := by
  intro st' h'; rw [h] at h'; cases h'

theorem Frame.refl (s : St) : Frame s s := ⟨PendExt.refl _, rfl, rfl, rfl, rfl, CsStep.refl _⟩
theorem Frame.trans {a b c : St} (h1 : Frame a b) (h2 : Frame b c) : Frame a c :=
  ⟨h1.ext.trans h2.ext, by rw [h2.runC, h1.runC], by rw [h2.runV, h1.runV], by rw [h2.runS, h1.runS],
   by rw [h2.tok, h1.tok], h1.cs.trans h2.cs⟩

theorem cntC_pendExt {a b : List Task} (h : PendExt a b) : cntC b = cntC a := by
  obtain ⟨l, rfl, hl⟩ := h
  simp only [cntC, List.countP_append]
  have : l.countP isC = 0 := by
    rw [List.countP_eq_zero]; intro t ht; have := hl t ht; cases t <;> simp_all [isPending, isC]
  omega
theorem cntV_pendExt {a b : List Task} (h : PendExt a b) : cntV b = cntV a := by
  obtain ⟨l, rfl, hl⟩ := h
  simp only [cntV, List.countP_append]
  have : l.countP isV = 0 := by
    rw [List.countP_eq_zero]; intro t ht; have := hl t ht; cases t <;> simp_all [isPending, isV]
  omega
theorem cntS_pendExt {a b : List Task} (h : PendExt a b) : cntS b = cntS a := by
  obtain ⟨l, rfl, hl⟩ := h
  simp only [cntS, List.countP_append]
  have : l.countP isS = 0 := by
    rw [List.countP_eq_zero]; intro t ht; have := hl t ht; cases t <;> simp_all [isPending, isS]
  omega

theorem mem_cLoad_pendExt {a b : List Task} (h : PendExt a b) {m doc i tok}
    (hm : Task.cLoad m doc i tok ∈ b) : Task.cLoad m doc i tok ∈ a := by
  obtain ⟨l, rfl, hl⟩ := h
  simp at hm
  rcases hm with hm | hm
  · exact hm
  · have := hl _ hm; simp [isPending] at this

theorem flags_of_frame {s s' : St} (f : Frame s s') (h : FlagsOK s) : FlagsOK s' :=
  ⟨by rw [cntC_pendExt f.ext, f.runC, h.c], by rw [cntV_pendExt f.ext, f.runV, h.v],
   by rw [cntS_pendExt f.ext, f.runS, h.s]⟩

theorem taskOK_of_frame {env : Env} {s s' : St} (f : Frame s s') (h : TaskOK env s) : TaskOK env s' := by
  intro m doc i tok hm
  obtain ⟨h1, h2⟩ := h m doc i tok (mem_cLoad_pendExt f.ext hm)
  refine ⟨by rw [f.tok]; exact h1, ?_⟩
  intro st' hst' ht
  obtain ⟨st, e, a, b, c⟩ := f.cs st' hst'
  obtain ⟨x, y⟩ := h2 st e (by rw [← a]; exact ht)
  exact ⟨by rw [b]; exact x, by rw [c]; exact y⟩


/-! ### primitives: field characterisations -/

section prim
variable {cfg : Config} {env : Env}

@[simp] theorem setDocument_text (s : St) (t c) : (setDocument cfg s t c).text = t := by
  by_cases h1 : t = s.text <;> by_cases h2 : c = s.cur <;>
    simp [setDocument, textChanged, cursorChanged, h1, h2]
@[simp] theorem setDocument_cur (s : St) (t c) : (setDocument cfg s t c).cur = c := by
  by_cases h1 : t = s.text <;> by_cases h2 : c = s.cur <;>
    simp [setDocument, textChanged, cursorChanged, h1, h2]
@[simp] theorem setDocument_nextTok (s : St) (t c) : (setDocument cfg s t c).nextTok = s.nextTok := by
  by_cases h1 : t = s.text <;> by_cases h2 : c = s.cur <;>
    simp [setDocument, textChanged, cursorChanged, h1, h2]
@[simp] theorem setDocument_runC (s : St) (t c) : (setDocument cfg s t c).runC = s.runC := by
  by_cases h1 : t = s.text <;> by_cases h2 : c = s.cur <;>
    simp [setDocument, textChanged, cursorChanged, h1, h2]
@[simp] theorem setDocument_runV (s : St) (t c) : (setDocument cfg s t c).runV = s.runV := by
  by_cases h1 : t = s.text <;> by_cases h2 : c = s.cur <;>
    simp [setDocument, textChanged, cursorChanged, h1, h2]
@[simp] theorem setDocument_runS (s : St) (t c) : (setDocument cfg s t c).runS = s.runS := by
  by_cases h1 : t = s.text <;> by_cases h2 : c = s.cur <;>
    simp [setDocument, textChanged, cursorChanged, h1, h2]
theorem setDocument_cs (s : St) (t c) :
    (setDocument cfg s t c).cs = if t = s.text ∧ c = s.cur then s.cs else none := by
  unfold setDocument textChanged cursorChanged
  by_cases h1 : t = s.text <;> by_cases h2 : c = s.cur <;> simp [h1, h2]
theorem setDocument_same (s : St) : setDocument cfg s s.text s.cur = s := by
  unfold setDocument; simp
theorem setDocument_vs (s : St) (t c) :
    (setDocument cfg s t c).vs = if t = s.text then s.vs else .unknown := by
  unfold setDocument textChanged cursorChanged
  by_cases h1 : t = s.text <;> by_cases h2 : c = s.cur <;> simp [h1, h2]
theorem setDocument_verr (s : St) (t c) :
    (setDocument cfg s t c).verr = if t = s.text then s.verr else none := by
  unfold setDocument textChanged cursorChanged
  by_cases h1 : t = s.text <;> by_cases h2 : c = s.cur <;> simp [h1, h2]
theorem setDocument_sugg (s : St) (t c) :
    (setDocument cfg s t c).sugg = if t = s.text then s.sugg else none := by
  unfold setDocument textChanged cursorChanged
  by_cases h1 : t = s.text <;> by_cases h2 : c = s.cur <;> simp [h1, h2]
theorem setDocument_tasks (s : St) (t c) : PendExt s.tasks (setDocument cfg s t c).tasks := by
  unfold setDocument textChanged cursorChanged
  by_cases h1 : t = s.text <;> by_cases h2 : c = s.cur <;> by_cases h3 : (cfg.hasV && cfg.vwt) = true <;>
    simp [h1, h2, h3] <;> first | exact PendExt.refl _ | exact PendExt.snoc _ _ rfl

theorem setDocument_frame (s : St) (t c) : Frame s (setDocument cfg s t c) := by
  refine ⟨setDocument_tasks (cfg := cfg) s t c, by simp, by simp, by simp, by simp, ?_⟩
  intro st' h
  rw [setDocument_cs] at h
  split at h
  · exact ⟨st', h, rfl, rfl, rfl⟩
  · cases h

theorem setDocument_buf {s : St} (h : BufOK cfg env s) (t : Text) (c : Nat) (hc : c ≤ t.length) :
    BufOK cfg env (setDocument cfg s t c) := by
  by_cases h1 : t = s.text
  · subst h1
    by_cases h2 : c = s.cur
    · subst h2; rw [setDocument_same]; exact h
    · refine ⟨by simpa using hc, ?_, ?_, ?_, ?_⟩
      · intro st hst; rw [setDocument_cs] at hst; simp [h2] at hst
      · intro hv; rw [setDocument_vs] at hv; simp at hv
        rw [setDocument_verr]; simpa using h.valid_fresh hv
      · intro hv; rw [setDocument_vs] at hv; simp at hv
        rw [setDocument_verr]; simpa using h.invalid_fresh hv
      · intro x hx; rw [setDocument_sugg] at hx; simp at hx
        simpa using h.sugg_fresh x hx
  · refine ⟨by simpa using hc, ?_, ?_, ?_, ?_⟩
    · intro st hst; rw [setDocument_cs] at hst; simp [h1] at hst
    · intro hv; rw [setDocument_vs] at hv; simp [h1] at hv
    · intro hv; rw [setDocument_vs] at hv; simp [h1] at hv
    · intro x hx; rw [setDocument_sugg] at hx; simp [h1] at hx


/-- a state whose buffer part is an "edit" of a good state is good: the menu is either gone
    or untouched together with the document; verdict and suggestion are either untouched
    together with the text, or cleared -/
theorem BufOK.of_edit {s : St} (h : BufOK cfg env s) (s' : St)
    (hc : s'.cur ≤ s'.text.length)
    (hcs : s'.cs = none ∨ (s'.cs = s.cs ∧ s'.text = s.text ∧ s'.cur = s.cur))
    (hv : (s'.text = s.text ∧ s'.vs = s.vs ∧ s'.verr = s.verr ∧ s'.sugg = s.sugg) ∨
          (s'.vs = .unknown ∧ s'.sugg = none))
    (htok : s.nextTok ≤ s'.nextTok) : BufOK cfg env s' := by
  refine ⟨hc, ?_, ?_, ?_, ?_⟩
  · intro st hst
    rcases hcs with hcs | ⟨e1, e2, e3⟩
    · rw [hcs] at hst; cases hst
    · rw [e1] at hst
      have := h.cs_ok st hst
      exact ⟨by rw [this.text_eq]; simp [St.doc, e2, e3], by have := this.tok_lt; omega, this.prov, this.orig_wf⟩
  · intro hvs
    rcases hv with ⟨e1, e2, e3, e4⟩ | ⟨e1, _⟩
    · rw [e2] at hvs; rw [e1, e3]; exact h.valid_fresh hvs
    · rw [e1] at hvs; cases hvs
  · intro hvs
    rcases hv with ⟨e1, e2, e3, e4⟩ | ⟨e1, _⟩
    · rw [e2] at hvs; rw [e1, e3]; exact h.invalid_fresh hvs
    · rw [e1] at hvs; cases hvs
  · intro x hx
    rcases hv with ⟨e1, e2, e3, e4⟩ | ⟨_, e1⟩
    · rw [e4] at hx; rw [e1]; exact h.sugg_fresh x hx
    · rw [e1] at hx; cases hx

theorem setCursor_eq (s : St) (v : Int) : setCursor s v =
    if min v.toNat s.text.length ≠ s.cur then { s with cur := min v.toNat s.text.length, cs := none }
    else s := rfl

theorem setCursor_frame (s : St) (v : Int) : Frame s (setCursor s v) := by
  rw [setCursor_eq]
  split
  · exact ⟨PendExt.refl _, rfl, rfl, rfl, rfl, CsStep.of_none rfl⟩
  · exact Frame.refl s

theorem setCursor_buf {s : St} (h : BufOK cfg env s) (v : Int) : BufOK cfg env (setCursor s v) := by
  rw [setCursor_eq]
  split
  · exact h.of_edit _ (by simp; omega) (Or.inl rfl) (Or.inl ⟨rfl, rfl, rfl, rfl⟩) (Nat.le_refl _)
  · exact h

theorem textChanged_frame (s : St) : Frame s (textChanged cfg s) := by
  unfold textChanged
  refine ⟨?_, rfl, rfl, rfl, rfl, CsStep.of_none rfl⟩
  by_cases h3 : (cfg.hasV && cfg.vwt) = true <;> simp [h3]
  · exact PendExt.snoc _ _ rfl
  · exact PendExt.refl _

def setText2 (cfg : Config) (s1 : St) (t : Text) : St :=
  if t ≠ s1.text then textChanged cfg { s1 with text := t } else s1

theorem setText_eq (s : St) (t : Text) :
    setText cfg s t = setText2 cfg (if s.cur > t.length then setCursor s t.length else s) t := rfl

theorem setText_frame (s : St) (t : Text) : Frame s (setText cfg s t) := by
  rw [setText_eq]
  have f1 : Frame s (if s.cur > t.length then setCursor s t.length else s) := by
    split
    · exact setCursor_frame s _
    · exact Frame.refl s
  refine f1.trans ?_
  generalize (if s.cur > t.length then setCursor s t.length else s) = s1
  unfold setText2
  split
  · have := textChanged_frame (cfg := cfg) { s1 with text := t }
    exact ⟨this.ext, this.runC, this.runV, this.runS, this.tok, CsStep.of_none rfl⟩
  · exact Frame.refl _

theorem setText_buf {s : St} (h : BufOK cfg env s) (t : Text) : BufOK cfg env (setText cfg s t) := by
  have hcur := h.cur_le
  rw [setText_eq]
  have h1 : BufOK cfg env (if s.cur > t.length then setCursor s t.length else s) := by
    split
    · exact setCursor_buf h _
    · exact h
  have h2 : (if s.cur > t.length then setCursor s t.length else s).cur ≤ t.length := by
    split
    · rw [setCursor_eq]; split
      · show min (t.length : Int).toNat s.text.length ≤ t.length
        simp; omega
      · omega
    · omega
  generalize (if s.cur > t.length then setCursor s t.length else s) = s1 at h1 h2
  unfold setText2
  split
  · exact h1.of_edit _ (by exact h2) (Or.inl rfl) (Or.inr ⟨rfl, rfl⟩) (Nat.le_refl _)
  · exact h1

def addInsertTasks (cfg : Config) (s1 : St) : St :=
  { s1 with tasks :=
      (if cfg.hasS then (if cfg.cwt then s1.tasks ++ [.cPend .plain] else s1.tasks) ++ [.sPend]
       else (if cfg.cwt then s1.tasks ++ [.cPend .plain] else s1.tasks)) }

theorem insertText_eq (s : St) (d : Text) : insertText cfg s d =
    addInsertTasks cfg (setDocument cfg s (s.text.take s.cur ++ d ++ s.text.drop s.cur) (s.cur + d.length)) := rfl

theorem addInsertTasks_frame (s1 : St) : Frame s1 (addInsertTasks cfg s1) := by
  refine ⟨?_, rfl, rfl, rfl, rfl, CsStep.refl _⟩
  unfold addInsertTasks
  by_cases h1 : cfg.cwt = true <;> by_cases h2 : cfg.hasS = true <;> simp [h1, h2]
  · exact ⟨[.cPend .plain, .sPend], by simp, by simp [isPending]⟩
  · exact PendExt.snoc _ _ rfl
  · exact PendExt.snoc _ _ rfl
  · exact PendExt.refl _

theorem insertText_frame (s : St) (d : Text) : Frame s (insertText cfg s d) := by
  rw [insertText_eq]
  exact (setDocument_frame s _ _).trans (addInsertTasks_frame _)

theorem insertText_buf {s : St} (h : BufOK cfg env s) (d : Text) : BufOK cfg env (insertText cfg s d) := by
  have hcur := h.cur_le
  rw [insertText_eq]
  have := setDocument_buf h (s.text.take s.cur ++ d ++ s.text.drop s.cur) (s.cur + d.length)
    (by simp; omega)
  exact this.of_edit _ this.cur_le (Or.inr ⟨rfl, rfl, rfl⟩) (Or.inl ⟨rfl, rfl, rfl, rfl⟩) (Nat.le_refl _)

@[simp] theorem insertText_text (s : St) (d : Text) :
    (insertText cfg s d).text = s.text.take s.cur ++ d ++ s.text.drop s.cur := by simp [insertText]
@[simp] theorem insertText_cur (s : St) (d : Text) : (insertText cfg s d).cur = s.cur + d.length := by
  simp [insertText]
@[simp] theorem insertText_nextTok (s : St) (d : Text) : (insertText cfg s d).nextTok = s.nextTok := by
  simp [insertText]

theorem deleteBefore_frame (s : St) (n : Nat) : Frame s (deleteBefore cfg s n) := by
  unfold deleteBefore
  split
  · exact setDocument_frame (cfg := cfg) s _ _
  · exact Frame.refl s

theorem deleteBefore_buf {s : St} (h : BufOK cfg env s) (n : Nat) : BufOK cfg env (deleteBefore cfg s n) := by
  have hcur := h.cur_le
  unfold deleteBefore
  split
  · apply setDocument_buf h
    simp; omega
  · exact h

theorem delete_frame (s : St) (n : Nat) : Frame s (delete cfg s n) := by
  unfold delete
  split
  · exact setText_frame (cfg := cfg) s _
  · exact Frame.refl s

theorem delete_buf {s : St} (h : BufOK cfg env s) (n : Nat) : BufOK cfg env (delete cfg s n) := by
  unfold delete
  split
  · exact setText_buf h _
  · exact h


/-! ### completion navigation -/

theorem applyCompl_wf (d : Doc) (c : Completion) : (applyCompl d c).WF := by
  unfold applyCompl Doc.WF; simp

theorem newDoc_wf {st : CState} (h : st.orig.WF) {d : Doc} (hd : st.newDoc = some d) : d.WF := by
  unfold CState.newDoc at hd
  split at hd
  · cases hd; exact h
  · split at hd
    · cases hd; exact applyCompl_wf _ _
    · cases hd

theorem index_lt_of_newDoc {st : CState} {d : Doc} (hd : st.newDoc = some d) {i : Nat}
    (hi : st.index = some i) : i < st.comps.length := by
  unfold CState.newDoc at hd
  rw [hi] at hd
  simp only at hd
  split at hd
  · rename_i c hc
    exact (List.getElem?_eq_some_iff.mp hc).1
  · cases hd

theorem goToIndex_newDoc {st : CState} {d0 : Doc} (h0 : st.newDoc = some d0) (idx : Option Nat)
    (hidx : ∀ j, idx = some j → j < st.comps.length) : ∃ d, (st.goToIndex idx).newDoc = some d := by
  unfold CState.goToIndex
  split
  · exact ⟨d0, h0⟩
  · cases idx with
    | none => exact ⟨st.orig, rfl⟩
    | some j =>
      have hj := hidx j rfl
      refine ⟨applyCompl st.orig st.comps[j], ?_⟩
      simp [CState.newDoc, hj]

@[simp] theorem goToIndex_token (st : CState) (idx) : (st.goToIndex idx).token = st.token := by
  unfold CState.goToIndex; split <;> rfl
@[simp] theorem goToIndex_orig (st : CState) (idx) : (st.goToIndex idx).orig = st.orig := by
  unfold CState.goToIndex; split <;> rfl
@[simp] theorem goToIndex_comps (st : CState) (idx) : (st.goToIndex idx).comps = st.comps := by
  unfold CState.goToIndex; split <;> rfl

theorem provenance_congr {st st' : CState} (h1 : st'.orig = st.orig) (h2 : st'.comps = st.comps)
    (h : Provenance env st) : Provenance env st' := by
  unfold Provenance Derived at *
  rw [h1, h2]; exact h

theorem goTo_eq {s : St} {st : CState} (hcs : s.cs = some st) {idx : Option Nat} {d : Doc}
    (hd : (st.goToIndex idx).newDoc = some d) :
    goToCompletion cfg s idx =
      ({ setDocument cfg s d.text d.cur with cs := some (st.goToIndex idx) }, false) := by
  unfold goToCompletion; rw [hcs]; dsimp only; rw [hd]

/-- `go_to_completion` with an index that exists: no exception, the menu stays (same object,
    new index), the text becomes what the menu says, everything else is a plain edit. -/
theorem goTo_spec {s : St} (h : BufOK cfg env s) {st : CState} (hcs : s.cs = some st) (idx : Option Nat)
    (hidx : ∀ j, idx = some j → j < st.comps.length) :
    (goToCompletion cfg s idx).2 = false ∧
    BufOK cfg env (goToCompletion cfg s idx).1 ∧
    Frame s (goToCompletion cfg s idx).1 ∧
    (goToCompletion cfg s idx).1.cs = some (st.goToIndex idx) := by
  have hst := h.cs_ok st hcs
  obtain ⟨d, hd⟩ := goToIndex_newDoc hst.text_eq idx hidx
  have hdwf : d.WF := newDoc_wf (by simpa using hst.orig_wf) hd
  rw [goTo_eq hcs hd]
  refine ⟨rfl, ?_, ?_, rfl⟩
  · have hb := setDocument_buf h d.text d.cur hdwf
    refine ⟨hb.cur_le, ?_, hb.valid_fresh, hb.invalid_fresh, hb.sugg_fresh⟩
    intro st' hst'
    simp only [Option.some.injEq] at hst'
    subst hst'
    exact ⟨by rw [hd]; simp [St.doc], by simpa using hst.tok_lt,
           provenance_congr (by simp) (by simp) hst.prov, by simpa using hst.orig_wf⟩
  · have hf := setDocument_frame (cfg := cfg) s d.text d.cur
    refine ⟨hf.ext, hf.runC, hf.runV, hf.runS, hf.tok, ?_⟩
    intro st' hst'
    simp only [Option.some.injEq] at hst'
    subst hst'
    exact ⟨st, hcs, by simp, by simp, by simp⟩

/-- what a user-level navigation call guarantees -/
structure NavOK (cfg : Config) (env : Env) (s : St) (r : St × Bool) : Prop where
  noexc : r.2 = false
  buf : BufOK cfg env r.1
  frame : Frame s r.1

theorem NavOK.same {s : St} (h : BufOK cfg env s) : NavOK cfg env s (s, false) := ⟨rfl, h, Frame.refl s⟩

theorem goTo_nav {s : St} (h : BufOK cfg env s) {st : CState} (hcs : s.cs = some st) (idx : Option Nat)
    (hidx : ∀ j, idx = some j → j < st.comps.length) : NavOK cfg env s (goToCompletion cfg s idx) :=
  let r := goTo_spec h hcs idx hidx
  ⟨r.1, r.2.1, r.2.2.1⟩

theorem goTo_ignored {s : St} {st : CState} (hcs : s.cs = some st) (hn : st.comps = []) (i : Nat) :
    goToCompletion cfg s (some i) = goToCompletion cfg s none := by
  unfold goToCompletion; rw [hcs]; simp [CState.goToIndex, hn]

theorem completeNext_nav {s : St} (h : BufOK cfg env s) (count : Nat) (dw : Bool) :
    NavOK cfg env s (completeNext cfg s count dw) := by
  unfold completeNext
  cases hcs : s.cs with
  | none => exact NavOK.same h
  | some st =>
    have hst := h.cs_ok st hcs
    dsimp only
    cases hi : st.index with
    | none =>
      dsimp only
      by_cases hn : st.comps = []
      · rw [goTo_ignored hcs hn]
        exact goTo_nav h hcs none (by intro j hj; cases hj)
      · exact goTo_nav h hcs _ (by
          intro j hj; cases hj; exact List.length_pos_iff.mpr hn)
    | some i =>
      dsimp only
      have hlt := index_lt_of_newDoc hst.text_eq hi
      split
      · split
        · exact NavOK.same h
        · exact goTo_nav h hcs none (by intro j hj; cases hj)
      · exact goTo_nav h hcs _ (by intro j hj; simp at hj; omega)

theorem completePrevious_nav {s : St} (h : BufOK cfg env s) (count : Nat) (dw : Bool) :
    NavOK cfg env s (completePrevious cfg s count dw) := by
  unfold completePrevious
  cases hcs : s.cs with
  | none => exact NavOK.same h
  | some st =>
    have hst := h.cs_ok st hcs
    dsimp only
    cases hi : st.index with
    | none =>
      dsimp only
      by_cases hn : st.comps = []
      · rw [goTo_ignored hcs hn]
        exact goTo_nav h hcs none (by intro j hj; cases hj)
      · exact goTo_nav h hcs _ (by
          intro j hj; simp at hj
          have := List.length_pos_iff.mpr hn; omega)
    | some i =>
      have hlt := index_lt_of_newDoc hst.text_eq hi
      dsimp only
      split
      · split
        · exact NavOK.same h
        · exact goTo_nav h hcs none (by intro j hj; cases hj)
      · exact goTo_nav h hcs _ (by intro j hj; simp at hj; omega)

theorem cancel_nav {s : St} (h : BufOK cfg env s) : NavOK cfg env s (cancelCompletion cfg s) := by
  unfold cancelCompletion
  split
  · exact NavOK.same h
  · rename_i st hcs
    have r := goTo_spec h hcs none (by intro j hj; cases hj)
    simp only [r.1]
    refine ⟨rfl, ?_, ?_⟩
    · exact r.2.1.of_edit _ r.2.1.cur_le (Or.inl rfl) (Or.inl ⟨rfl, rfl, rfl, rfl⟩) (Nat.le_refl _)
    · have f := r.2.2.1
      exact ⟨f.ext, f.runC, f.runV, f.runS, f.tok, CsStep.of_none rfl⟩

theorem drop_cs_buf {s : St} (h : BufOK cfg env s) : BufOK cfg env { s with cs := none } :=
  h.of_edit _ h.cur_le (Or.inl rfl) (Or.inl ⟨rfl, rfl, rfl, rfl⟩) (Nat.le_refl _)

theorem drop_cs_frame (s : St) : Frame s { s with cs := none } :=
  ⟨PendExt.refl _, rfl, rfl, rfl, rfl, CsStep.of_none rfl⟩

theorem cancelFirst_nav {s : St} (h : BufOK cfg env s) : NavOK cfg env s (cancelFirst cfg s) := by
  unfold cancelFirst
  split
  · rename_i hs
    obtain ⟨st, hcs⟩ := Option.isSome_iff_exists.mp hs
    exact goTo_nav h hcs none (by intro j hj; cases hj)
  · exact NavOK.same h

theorem apply_nav {s : St} (h : BufOK cfg env s) (c : Completion) :
    NavOK cfg env s (applyCompletion cfg s c) := by
  unfold applyCompletion
  have hr := cancelFirst_nav (cfg := cfg) h
  generalize cancelFirst cfg s = r at hr
  simp only [hr.noexc]
  refine ⟨rfl, ?_, ?_⟩
  · exact insertText_buf (deleteBefore_buf (drop_cs_buf hr.buf) _) _
  · exact hr.frame.trans ((drop_cs_frame _).trans ((deleteBefore_frame _ _).trans (insertText_frame _ _)))

theorem startCompletion_frame (s : St) (m : Mode) : Frame s (startCompletion s m) :=
  ⟨PendExt.snoc _ _ rfl, rfl, rfl, rfl, rfl, CsStep.refl _⟩

theorem startCompletion_buf {s : St} (h : BufOK cfg env s) (m : Mode) : BufOK cfg env (startCompletion s m) :=
  h.of_edit _ h.cur_le (Or.inr ⟨rfl, rfl, rfl⟩) (Or.inl ⟨rfl, rfl, rfl, rfl⟩) (Nat.le_refl _)

theorem tab_nav {s : St} (h : BufOK cfg env s) : NavOK cfg env s (tab cfg s) := by
  unfold tab
  split
  · exact completeNext_nav h 1 false
  · exact ⟨rfl, startCompletion_buf h _, startCompletion_frame _ _⟩

theorem validateSync_frame (s : St) : Frame s (validateSync cfg env s) := by
  unfold validateSync
  split
  · exact Frame.refl s
  · split
    · split <;> exact ⟨PendExt.refl _, rfl, rfl, rfl, rfl, CsStep.refl _⟩
    · exact ⟨PendExt.refl _, rfl, rfl, rfl, rfl, CsStep.refl _⟩

theorem validateSync_buf {s : St} (h : BufOK cfg env s) : BufOK cfg env (validateSync cfg env s) := by
  unfold validateSync
  split
  · exact h
  · split
    · rename_i hv
      split
      · rename_i msg hm
        refine ⟨h.cur_le, ?_, (by intro x; cases x), ?_, h.sugg_fresh⟩
        · intro st hst
          have := h.cs_ok st hst
          exact ⟨this.text_eq, this.tok_lt, this.prov, this.orig_wf⟩
        · intro _; exact ⟨s.cur, msg, h.cur_le, hm, rfl⟩
      · rename_i hm
        refine ⟨h.cur_le, ?_, ?_, (by intro x; cases x), h.sugg_fresh⟩
        · intro st hst
          have := h.cs_ok st hst
          exact ⟨this.text_eq, this.tok_lt, this.prov, this.orig_wf⟩
        · intro _; exact ⟨rfl, Or.inr ⟨s.cur, h.cur_le, hm⟩⟩
    · rename_i hv
      refine ⟨h.cur_le, ?_, ?_, (by intro x; cases x), h.sugg_fresh⟩
      · intro st hst
        have := h.cs_ok st hst
        exact ⟨this.text_eq, this.tok_lt, this.prov, this.orig_wf⟩
      · intro _; exact ⟨rfl, Or.inl (by simpa using hv)⟩

theorem reset_frame (s : St) (t : Text) (c : Nat) : Frame s (reset s t c) :=
  ⟨PendExt.refl _, rfl, rfl, rfl, rfl, CsStep.of_none rfl⟩

theorem reset_buf {s : St} (h : BufOK cfg env s) (t : Text) (c : Nat) (hc : c ≤ t.length) :
    BufOK cfg env (reset s t c) :=
  h.of_edit _ hc (Or.inl rfl) (Or.inr ⟨rfl, rfl⟩) (Nat.le_refl _)


/-! ### scheduler steps -/

theorem BufOK.congr {s s' : St} (h : BufOK cfg env s) (e1 : s'.text = s.text) (e2 : s'.cur = s.cur)
    (e3 : s'.cs = s.cs) (e4 : s'.vs = s.vs) (e5 : s'.verr = s.verr) (e6 : s'.sugg = s.sugg)
    (e7 : s'.nextTok = s.nextTok) : BufOK cfg env s' :=
  h.of_edit s' (by rw [e1, e2]; exact h.cur_le) (Or.inr ⟨e3, e1, e2⟩) (Or.inl ⟨e1, e4, e5, e6⟩) (by omega)

theorem countP_eraseIdx_of (p : Task → Bool) (l : List Task) (i : Nat) (t : Task) (h : l[i]? = some t) :
    l.countP p = (l.eraseIdx i).countP p + (if p t then 1 else 0) := by
  induction l generalizing i with
  | nil => simp at h
  | cons x xs ih =>
    cases i with
    | zero =>
      simp at h; subst h
      simp [List.countP_cons]
    | succ k =>
      simp at h
      have := ih k h
      simp [List.countP_cons, this]; omega

theorem no_cLoad_of_cnt0 {ts : List Task} (h : cntC ts = 0) {m doc i tok} : Task.cLoad m doc i tok ∉ ts := by
  intro hm
  unfold cntC at h
  rw [List.countP_eq_zero] at h
  have := h _ hm
  simp [isC] at this

theorem mem_of_getElem? {l : List Task} {i : Nat} {t : Task} (h : l[i]? = some t) : t ∈ l :=
  List.mem_of_getElem? h

theorem dropTask_buf {s : St} (h : BufOK cfg env s) (i : Nat) : BufOK cfg env (dropTask s i) :=
  h.congr rfl rfl rfl rfl rfl rfl rfl

theorem dropTask_task {s : St} (h : TaskOK env s) (i : Nat) : TaskOK env (dropTask s i) := by
  intro m doc k tok hm
  exact h m doc k tok (List.mem_of_mem_eraseIdx hm)

/-- outcome of a completer segment started from `s0` (the state without the running task) -/
structure CSegOK (cfg : Config) (env : Env) (s0 : St) (r : Seg) : Prop where
  buf : BufOK cfg env r.1
  ext : PendExt s0.tasks r.1.tasks
  runV : r.1.runV = s0.runV
  runS : r.1.runS = s0.runS
  cont : match r.2 with
    | none => r.1.runC = false
    | some t => r.1.runC = true ∧ ∃ m doc i tok, t = Task.cLoad m doc i tok ∧ tok < r.1.nextTok ∧
        ∀ st, r.1.cs = some st → st.token = tok → st.orig = doc ∧ st.comps = (env.comp doc).take i

theorem inv_of_cseg {s0 : St} {r : Seg} (h : CSegOK cfg env s0 r) (hc : cntC s0.tasks = 0)
    (hv : cntV s0.tasks = b2n s0.runV) (hs : cntS s0.tasks = b2n s0.runS) :
    Inv cfg env (finishSeg r) := by
  obtain ⟨s1, t⟩ := r
  have hc1 : cntC s1.tasks = 0 := by rw [cntC_pendExt h.ext]; exact hc
  have hv1 : cntV s1.tasks = b2n s1.runV := by rw [cntV_pendExt h.ext, h.runV]; exact hv
  have hs1 : cntS s1.tasks = b2n s1.runS := by rw [cntS_pendExt h.ext, h.runS]; exact hs
  cases t with
  | none =>
    have hr : s1.runC = false := h.cont
    show Inv cfg env s1
    refine ⟨h.buf, ?_, ⟨by rw [hc1, hr]; rfl, hv1, hs1⟩⟩
    intro m doc i tok hm
    exact absurd hm (no_cLoad_of_cnt0 hc1)
  | some t =>
    obtain ⟨hr, m, doc, i, tok, rfl, hlt, hlink⟩ := h.cont
    refine ⟨h.buf.congr rfl rfl rfl rfl rfl rfl rfl, ?_, ⟨?_, ?_, ?_⟩⟩
    · intro m' doc' i' tok' hm
      simp only [finishSeg, List.mem_cons] at hm
      rcases hm with hm | hm
      · cases hm; exact ⟨hlt, hlink⟩
      · exact absurd hm (no_cLoad_of_cnt0 hc1)
    · show cntC (_ :: s1.tasks) = b2n s1.runC
      rw [hr]; simp [cntC, List.countP_cons, isC, b2n] at *; exact hc1
    · show cntV (_ :: s1.tasks) = b2n s1.runV
      rw [← hv1]; simp [cntV, isV]
    · show cntS (_ :: s1.tasks) = b2n s1.runS
      rw [← hs1]; simp [cntS, isS]

theorem segDone_ok {s0 s1 : St} (hb : BufOK cfg env s1) (he : PendExt s0.tasks s1.tasks)
    (hv : s1.runV = s0.runV) (hs : s1.runS = s0.runS) : CSegOK cfg env s0 (segDone s1) :=
  ⟨hb.congr rfl rfl rfl rfl rfl rfl rfl, he, hv, hs, rfl⟩

theorem compBegin_ok {s0 s1 : St} (hb : BufOK cfg env s1) (he : PendExt s0.tasks s1.tasks)
    (hv : s1.runV = s0.runV) (hs : s1.runS = s0.runS) (hr : s1.runC = true) (m : Mode) :
    CSegOK cfg env s0 (compBegin s1 m) := by
  unfold compBegin
  split
  · exact ⟨hb.congr rfl rfl rfl rfl rfl rfl rfl, he, hv, hs, rfl⟩
  · rename_i hcs
    refine ⟨?_, he, hv, hs, ?_⟩
    · refine ⟨hb.cur_le, ?_, hb.valid_fresh, hb.invalid_fresh, hb.sugg_fresh⟩
      intro st hst
      simp only [Option.some.injEq] at hst
      subst hst
      exact ⟨rfl, by simp, Or.inl (by simp), hb.cur_le⟩
    · refine ⟨hr, m, s1.doc, 0, s1.nextTok, rfl, by simp, ?_⟩
      intro st hst _
      simp only [Option.some.injEq] at hst
      subst hst
      simp


theorem CSegOK.of_eq {s0 s0' : St} {r : Seg} (h : CSegOK cfg env s0' r) (e1 : s0'.tasks = s0.tasks)
    (e2 : s0'.runV = s0.runV) (e3 : s0'.runS = s0.runS) : CSegOK cfg env s0 r :=
  ⟨h.buf, by rw [← e1]; exact h.ext, by rw [h.runV, e2], by rw [h.runS, e3], h.cont⟩

theorem CSegOK.of_frame {s s1 : St} {r : Seg} (f : Frame s s1) (h : CSegOK cfg env s1 r) : CSegOK cfg env s r :=
  ⟨h.buf, f.ext.trans h.ext, by rw [h.runV, f.runV], by rw [h.runS, f.runS], h.cont⟩

theorem segDone_self {s : St} (hb : BufOK cfg env s) : CSegOK cfg env s (segDone s) :=
  segDone_ok hb (PendExt.refl _) rfl rfl

theorem segDone_frame {s s1 : St} (f : Frame s s1) (hb : BufOK cfg env s1) : CSegOK cfg env s (segDone s1) :=
  segDone_ok hb f.ext f.runV f.runS

theorem compElse_ok {s : St} (hb : BufOK cfg env s) (hr : s.runC = true) (m : Mode) (doc : Doc) :
    CSegOK cfg env s (compElse s m doc) := by
  unfold compElse
  split
  · exact segDone_self hb
  · split
    · exact compBegin_ok hb (PendExt.refl _) rfl rfl hr m
    · exact segDone_self hb

/-- the state object created by the coroutine run `tok` (if it is still the buffer's) belongs
    to `doc` and holds a prefix of what the completer produces for `doc` -/
def Link (env : Env) (s : St) (doc : Doc) (tok : Nat) : Prop :=
  ∀ st, s.cs = some st → st.token = tok → st.orig = doc ∧ st.comps <+: env.comp doc

theorem orig_eq_doc {s : St} (hb : BufOK cfg env s) {st : CState} (hcs : s.cs = some st)
    (hi : st.index = none) : st.orig = s.doc := by
  have := (hb.cs_ok st hcs).text_eq
  unfold CState.newDoc at this
  rw [hi] at this
  simpa using this

theorem setCompletions_buf {s1 : St} (hb : BufOK cfg env s1) (comps : List Completion)
    (hp : Provenance env ⟨s1.doc, comps, none, s1.nextTok⟩) : BufOK cfg env (setCompletions s1 comps) := by
  unfold setCompletions
  refine ⟨hb.cur_le, ?_, hb.valid_fresh, hb.invalid_fresh, hb.sugg_fresh⟩
  intro st hst
  simp only [Option.some.injEq] at hst
  subst hst
  exact ⟨rfl, by simp, hp, hb.cur_le⟩

theorem compProceed_ok {s : St} (hb : BufOK cfg env s) {st : CState} (hcs : s.cs = some st)
    (m : Mode) (doc : Doc) (ho : st.orig = doc) (hp : st.comps <+: env.comp doc) :
    CSegOK cfg env s (compProceed cfg s st m doc) := by
  unfold compProceed
  split
  · exact segDone_self hb
  rename_i hidx
  have hidx : st.index = none := by simpa using hidx
  split
  · exact segDone_frame (drop_cs_frame s) (drop_cs_buf hb)
  rename_i hne
  have hlen : 0 < st.comps.length := by
    cases hc : st.comps with
    | nil => simp [hc] at hne
    | cons _ _ => simp
  have goto : ∀ j, j < st.comps.length → CSegOK cfg env s (segDone (goToCompletion cfg s (some j)).1) := by
    intro j hj
    have r := goTo_spec hb hcs (some j) (by intro k hk; cases hk; exact hj)
    exact segDone_frame r.2.2.1 r.2.1
  split
  · exact segDone_self hb
  · exact goto 0 hlen
  · exact goto _ (by omega)
  · split
    · rename_i hcp
      have hcp : commonSuffix doc st.comps ≠ [] := by
        intro e; rw [e] at hcp; simp at hcp
      have hb1 := insertText_buf (cfg := cfg) hb (commonSuffix doc st.comps)
      have hf1 := insertText_frame (cfg := cfg) s (commonSuffix doc st.comps)
      split
      · have hdoc : doc = s.doc := by rw [← ho]; exact orig_eq_doc hb hcs hidx
        refine segDone_ok (setCompletions_buf hb1 _ (Or.inr (Or.inl ?_))) hf1.ext hf1.runV hf1.runS
        refine ⟨doc, st.comps, commonSuffix doc st.comps, hp, rfl, hcp, rfl, ?_⟩
        subst hdoc
        simp [St.doc, Doc.before, Doc.after]
      · exact segDone_frame (hf1.trans (drop_cs_frame _)) (drop_cs_buf hb1)
    · split
      · exact goto 0 hlen
      · exact segDone_self hb

theorem dropNoop_spec {s : St} (hb : BufOK cfg env s) (hfix : cfg.fixD1 = true) (doc : Doc) (tok : Nat)
    (hl : Link env s doc tok) :
    BufOK cfg env (dropNoop cfg s doc tok) ∧ (dropNoop cfg s doc tok).tasks = s.tasks ∧
    (dropNoop cfg s doc tok).runC = s.runC ∧ (dropNoop cfg s doc tok).runV = s.runV ∧
    (dropNoop cfg s doc tok).runS = s.runS ∧ Link env (dropNoop cfg s doc tok) doc tok := by
  unfold dropNoop
  split
  · rename_i st hcs
    split
    · rename_i hcond
      split
      · split
        · have hi : st.index = none := by simp [hfix] at hcond; exact hcond.2
          have hst := hb.cs_ok st hcs
          refine ⟨⟨hb.cur_le, ?_, hb.valid_fresh, hb.invalid_fresh, hb.sugg_fresh⟩, rfl, rfl, rfl, rfl, ?_⟩
          · intro st' hst'
            simp only [Option.some.injEq] at hst'
            subst hst'
            refine ⟨?_, hst.tok_lt, Or.inl (by simp), hst.orig_wf⟩
            have := hst.text_eq
            unfold CState.newDoc at this ⊢
            simp only [hi] at this ⊢
            exact this
          · intro st' hst' htok
            simp only [Option.some.injEq] at hst'
            subst hst'
            exact ⟨(hl st hcs htok).1, by simp⟩
        · exact ⟨hb, rfl, rfl, rfl, rfl, hl⟩
      · exact ⟨hb, rfl, rfl, rfl, rfl, hl⟩
    · exact ⟨hb, rfl, rfl, rfl, rfl, hl⟩
  · exact ⟨hb, rfl, rfl, rfl, rfl, hl⟩

theorem compDispatch_ok {s : St} (hb : BufOK cfg env s) (hr : s.runC = true) (m : Mode) (doc : Doc)
    (tok : Nat) (hl : Link env s doc tok) : CSegOK cfg env s (compDispatch cfg s m doc tok) := by
  unfold compDispatch
  split
  · rename_i st hcs
    split
    · rename_i ht
      have ht : st.token = tok := by simpa using ht
      obtain ⟨ho, hp⟩ := hl st hcs ht
      exact compProceed_ok hb hcs m doc ho hp
    · exact compElse_ok hb hr m doc
  · exact compElse_ok hb hr m doc

theorem compPost_ok {s : St} (hb : BufOK cfg env s) (hfix : cfg.fixD1 = true) (hr : s.runC = true)
    (m : Mode) (doc : Doc) (tok : Nat) (hl : Link env s doc tok) :
    CSegOK cfg env s (compPost cfg s m doc tok) := by
  unfold compPost
  obtain ⟨hb', e1, e2, e3, e4, hl'⟩ := dropNoop_spec hb hfix doc tok hl
  exact (compDispatch_ok hb' (by rw [e2]; exact hr) m doc tok hl').of_eq e1 e3 e4

/-- exact form of the link while the stream is being consumed -/
def LinkAt (env : Env) (s : St) (doc : Doc) (i tok : Nat) : Prop :=
  ∀ st, s.cs = some st → st.token = tok → st.orig = doc ∧ st.comps = (env.comp doc).take i

theorem LinkAt.link {s : St} {doc : Doc} {i tok : Nat} (h : LinkAt env s doc i tok) : Link env s doc tok := by
  intro st hcs ht
  obtain ⟨a, b⟩ := h st hcs ht
  exact ⟨a, by rw [b]; exact List.take_prefix _ _⟩

theorem appendCompl_spec {s : St} (hb : BufOK cfg env s) (doc : Doc) (i tok : Nat) (c : Completion)
    (hc : (env.comp doc)[i]? = some c) (hl : LinkAt env s doc i tok) :
    BufOK cfg env (appendCompl s tok c) ∧ (appendCompl s tok c).tasks = s.tasks ∧
    (appendCompl s tok c).runC = s.runC ∧ (appendCompl s tok c).runV = s.runV ∧
    (appendCompl s tok c).runS = s.runS ∧ (appendCompl s tok c).nextTok = s.nextTok ∧
    LinkAt env (appendCompl s tok c) doc (i + 1) tok := by
  have hi : i < (env.comp doc).length := (List.getElem?_eq_some_iff.mp hc).1
  have htake : (env.comp doc).take (i + 1) = (env.comp doc).take i ++ [c] := by
    rw [List.take_add_one, hc]; rfl
  unfold appendCompl
  split
  · rename_i st hcs
    split
    · rename_i ht
      have ht : st.token = tok := by simpa using ht
      obtain ⟨ho, hcomps⟩ := hl st hcs ht
      have hst := hb.cs_ok st hcs
      refine ⟨⟨hb.cur_le, ?_, hb.valid_fresh, hb.invalid_fresh, hb.sugg_fresh⟩, rfl, rfl, rfl, rfl, rfl, ?_⟩
      · intro st' hst'
        simp only [Option.some.injEq] at hst'
        subst hst'
        refine ⟨?_, hst.tok_lt, Or.inl ?_, hst.orig_wf⟩
        · have := hst.text_eq
          unfold CState.newDoc at this ⊢
          cases hidx : st.index with
          | none => simp only [hidx] at this ⊢; exact this
          | some j =>
            have hj := index_lt_of_newDoc hst.text_eq hidx
            simp only [hidx] at this ⊢
            rw [List.getElem?_append_left hj]
            exact this
        · show st.comps ++ [c] <+: env.comp st.orig
          rw [ho, hcomps, ← htake]; exact List.take_prefix _ _
      · intro st' hst' _
        simp only [Option.some.injEq] at hst'
        subst hst'
        exact ⟨ho, by show st.comps ++ [c] = _; rw [hcomps, htake]⟩
    · rename_i ht
      refine ⟨hb, rfl, rfl, rfl, rfl, rfl, ?_⟩
      intro st' hst' ht'
      rw [hcs] at hst'; cases hst'
      simp [ht'] at ht
  · rename_i hcs
    refine ⟨hb, rfl, rfl, rfl, rfl, rfl, ?_⟩
    intro st' hst' _
    rw [hcs] at hst'; cases hst'

theorem compResume_ok {s : St} (hb : BufOK cfg env s) (hfix : cfg.fixD1 = true) (hr : s.runC = true)
    (m : Mode) (doc : Doc) (i tok : Nat) (htok : tok < s.nextTok) (hl : LinkAt env s doc i tok) :
    CSegOK cfg env s (compResume cfg env s m doc i tok) := by
  unfold compResume
  split
  · rename_i c hc
    obtain ⟨hb', e1, e2, e3, e4, e5, hl'⟩ := appendCompl_spec hb doc i tok c hc hl
    have post := (compPost_ok hb' hfix (by rw [e2]; exact hr) m doc tok hl'.link).of_eq e1 e3 e4
    split
    · exact post
    · split
      · exact post
      · refine ⟨hb', by rw [e1]; exact PendExt.refl _, e3, e4, ?_⟩
        exact ⟨by rw [e2]; exact hr, m, doc, i + 1, tok, rfl, by rw [e5]; exact htok, hl'⟩
  · exact compPost_ok hb hfix hr m doc tok hl.link


/-! validator / suggester segments -/

/-- outcome of a validator (`k = false`) or suggester (`k = true`) segment -/
structure OSegOK (cfg : Config) (env : Env) (k : Bool) (s0 : St) (r : Seg) : Prop where
  buf : BufOK cfg env r.1
  tasks : r.1.tasks = s0.tasks
  cs : r.1.cs = s0.cs
  tok : r.1.nextTok = s0.nextTok
  runC : r.1.runC = s0.runC
  other : if k then r.1.runV = s0.runV else r.1.runS = s0.runS
  cont : match r.2 with
    | none => (if k then r.1.runS else r.1.runV) = false
    | some t => (if k then r.1.runS else r.1.runV) = true ∧
        ∃ d, t = (if k then Task.sWait d else Task.vWait d)

theorem inv_of_oseg {k : Bool} {s0 : St} {r : Seg} (h : OSegOK cfg env k s0 r) (ht : TaskOK env s0)
    (hc : cntC s0.tasks = b2n s0.runC)
    (hself : (if k then cntS s0.tasks else cntV s0.tasks) = 0)
    (hoth : if k then cntV s0.tasks = b2n s0.runV else cntS s0.tasks = b2n s0.runS) :
    Inv cfg env (finishSeg r) := by
  obtain ⟨s1, t⟩ := r
  have e1 : s1.tasks = s0.tasks := h.tasks
  have e2 : s1.cs = s0.cs := h.cs
  have e3 : s1.nextTok = s0.nextTok := h.tok
  have e4 : s1.runC = s0.runC := h.runC
  have htask : ∀ ts : List Task, (∀ m doc i tok, Task.cLoad m doc i tok ∈ ts → Task.cLoad m doc i tok ∈ s0.tasks) →
      TaskOK env { s1 with tasks := ts } := by
    intro ts hts m doc i tok hm
    obtain ⟨a, b⟩ := ht m doc i tok (hts m doc i tok hm)
    exact ⟨by show tok < s1.nextTok; rw [e3]; exact a, by intro st hst; exact b st (by rw [← e2]; exact hst)⟩
  cases t with
  | none =>
    show Inv cfg env s1
    have hcont := h.cont
    have hother := h.other
    refine ⟨h.buf, by simpa using htask s1.tasks (by intro m d i k hm; rw [← e1]; exact hm), ?_⟩
    cases k
    · simp at hcont hother hself hoth
      exact ⟨by rw [e1, e4]; exact hc, by rw [e1, hself, hcont]; rfl, by rw [e1, hother]; exact hoth⟩
    · simp at hcont hother hself hoth
      exact ⟨by rw [e1, e4]; exact hc, by rw [e1, hother]; exact hoth, by rw [e1, hself, hcont]; rfl⟩
  | some t =>
    obtain ⟨hrun, d, rfl⟩ := h.cont
    have hother := h.other
    refine ⟨h.buf.congr rfl rfl rfl rfl rfl rfl rfl, ?_, ?_⟩
    · apply htask
      intro m doc i tok hm
      simp only [List.mem_cons] at hm
      rcases hm with hm | hm
      · cases k <;> simp at hm
      · rw [← e1]; exact hm
    · cases k
      · simp at hrun hother hself hoth
        refine ⟨?_, ?_, ?_⟩
        · show cntC (_ :: s1.tasks) = b2n s1.runC
          rw [e1, e4, ← hc]; simp [cntC, isC]
        · show cntV (_ :: s1.tasks) = b2n s1.runV
          rw [e1, hrun]; unfold cntV at hself ⊢; rw [List.countP_cons, hself]; rfl
        · show cntS (_ :: s1.tasks) = b2n s1.runS
          rw [e1, hother, ← hoth]; simp [cntS, isS]
      · simp at hrun hother hself hoth
        refine ⟨?_, ?_, ?_⟩
        · show cntC (_ :: s1.tasks) = b2n s1.runC
          rw [e1, e4, ← hc]; simp [cntC, isC]
        · show cntV (_ :: s1.tasks) = b2n s1.runV
          rw [e1, hother, ← hoth]; simp [cntV, isV]
        · show cntS (_ :: s1.tasks) = b2n s1.runS
          rw [e1, hrun]; unfold cntS at hself ⊢; rw [List.countP_cons, hself]; rfl

theorem valLoop_ok {s : St} (hb : BufOK cfg env s) (hr : s.runV = true) :
    OSegOK cfg env false s (valLoop s) := by
  unfold valLoop
  split
  · exact ⟨hb.congr rfl rfl rfl rfl rfl rfl rfl, rfl, rfl, rfl, rfl, rfl, rfl⟩
  · exact ⟨hb, rfl, rfl, rfl, rfl, rfl, ⟨hr, s.doc, rfl⟩⟩

theorem valResume_ok {s : St} (hb : BufOK cfg env s) (hr : s.runV = true) (doc : Doc) :
    OSegOK cfg env false s (valResume env s doc) := by
  unfold valResume
  split
  · exact valLoop_ok hb hr
  · rename_i hd
    have hd : s.doc = doc := by simpa using hd
    have hcs : ∀ (S : St), S.text = s.text → S.cur = s.cur → S.cs = s.cs → S.nextTok = s.nextTok →
        ∀ st, S.cs = some st → CsOK env S st := by
      intro S a b c d st hst
      have := hb.cs_ok st (by rw [← c]; exact hst)
      exact ⟨by rw [this.text_eq]; simp [St.doc, a, b], by rw [d]; exact this.tok_lt, this.prov, this.orig_wf⟩
    split
    · rename_i msg hm
      refine ⟨⟨hb.cur_le, hcs _ rfl rfl rfl rfl, (by intro x; cases x), ?_, hb.sugg_fresh⟩,
              rfl, rfl, rfl, rfl, rfl, rfl⟩
      intro _
      exact ⟨s.cur, msg, hb.cur_le, by rw [← hm, ← hd]; rfl, rfl⟩
    · rename_i hm
      refine ⟨⟨hb.cur_le, hcs _ rfl rfl rfl rfl, ?_, (by intro x; cases x), hb.sugg_fresh⟩,
              rfl, rfl, rfl, rfl, rfl, rfl⟩
      intro _
      exact ⟨rfl, Or.inr ⟨s.cur, hb.cur_le, by rw [← hm, ← hd]; rfl⟩⟩

theorem sugBegin_ok {s : St} (hb : BufOK cfg env s) (hr : s.runS = true) :
    OSegOK cfg env true s (sugBegin s) := by
  unfold sugBegin
  split
  · exact ⟨hb.congr rfl rfl rfl rfl rfl rfl rfl, rfl, rfl, rfl, rfl, rfl, rfl⟩
  · exact ⟨hb, rfl, rfl, rfl, rfl, rfl, ⟨hr, s.doc, rfl⟩⟩

theorem sugResume_ok {s : St} (hb : BufOK cfg env s) (hr : s.runS = true) (doc : Doc) :
    OSegOK cfg env true s (sugResume env s doc) := by
  unfold sugResume
  split
  · rename_i hd
    refine ⟨⟨hb.cur_le, ?_, hb.valid_fresh, hb.invalid_fresh, ?_⟩, rfl, rfl, rfl, rfl, rfl, rfl⟩
    · intro st hst
      have := hb.cs_ok st hst
      exact ⟨this.text_eq, this.tok_lt, this.prov, this.orig_wf⟩
    · intro x hx
      exact ⟨s.cur, hb.cur_le, by rw [← hd] at hx; exact hx⟩
  · exact sugBegin_ok hb hr


/-! ### one step preserves the invariant -/

theorem cnt_drop {p : Task → Bool} {s : St} {i : Nat} {t : Task} (h : s.tasks[i]? = some t) :
    s.tasks.countP p = (dropTask s i).tasks.countP p + (if p t then 1 else 0) :=
  countP_eraseIdx_of p s.tasks i t h

theorem inv_of_frame {s s' : St} (h : Inv cfg env s) (hb : BufOK cfg env s') (f : Frame s s') :
    Inv cfg env s' :=
  ⟨hb, taskOK_of_frame f h.task, flags_of_frame f h.flags⟩

theorem inv_of_nav {s : St} (h : Inv cfg env s) {r : St × Bool} (n : NavOK cfg env s r) : Inv cfg env r.1 :=
  inv_of_frame h n.buf n.frame

theorem dropPending_inv {s : St} (h : Inv cfg env s) {i : Nat} {t : Task} (ht : s.tasks[i]? = some t)
    (hp : isPending t = true) : Inv cfg env (dropTask s i) := by
  have c1 := cnt_drop (p := isC) ht
  have c2 := cnt_drop (p := isV) ht
  have c3 := cnt_drop (p := isS) ht
  have n1 : isC t = false := by cases t <;> simp_all [isPending, isC]
  have n2 : isV t = false := by cases t <;> simp_all [isPending, isV]
  have n3 : isS t = false := by cases t <;> simp_all [isPending, isS]
  simp [n1, n2, n3] at c1 c2 c3
  exact ⟨dropTask_buf h.buf i, dropTask_task h.task i,
    ⟨by unfold cntC; rw [← c1]; exact h.flags.c, by unfold cntV; rw [← c2]; exact h.flags.v,
     by unfold cntS; rw [← c3]; exact h.flags.s⟩⟩

theorem startTask_inv {s : St} (h : Inv cfg env s) (i : Nat) : Inv cfg env (startTask s i) := by
  unfold startTask
  split
  · rename_i m ht
    have hd := dropPending_inv h ht rfl
    split
    · exact hd
    · rename_i hr
      have hr : s.runC = false := by simpa using hr
      have hb0 : BufOK cfg env { dropTask s i with runC := true } := hd.buf.congr rfl rfl rfl rfl rfl rfl rfl
      have hseg := compBegin_ok (s0 := { dropTask s i with runC := true }) hb0 (PendExt.refl _) rfl rfl rfl m
      refine inv_of_cseg hseg ?_ hd.flags.v hd.flags.s
      have := hd.flags.c
      show cntC (dropTask s i).tasks = 0
      rw [this]; show b2n s.runC = 0; rw [hr]; rfl
  · rename_i ht
    have hd := dropPending_inv h ht rfl
    split
    · exact hd
    · rename_i hr
      have hr : s.runV = false := by simpa using hr
      have hb0 : BufOK cfg env { dropTask s i with runV := true } := hd.buf.congr rfl rfl rfl rfl rfl rfl rfl
      refine inv_of_oseg (k := false) (valLoop_ok hb0 rfl) ?_ hd.flags.c ?_ hd.flags.s
      · intro m doc k tok hm; exact hd.task m doc k tok hm
      · show cntV (dropTask s i).tasks = 0
        rw [hd.flags.v]; show b2n s.runV = 0; rw [hr]; rfl
  · rename_i ht
    have hd := dropPending_inv h ht rfl
    split
    · exact hd
    · rename_i hr
      have hr : s.runS = false := by simpa using hr
      have hb0 : BufOK cfg env { dropTask s i with runS := true } := hd.buf.congr rfl rfl rfl rfl rfl rfl rfl
      refine inv_of_oseg (k := true) (sugBegin_ok hb0 rfl) ?_ hd.flags.c ?_ hd.flags.v
      · intro m doc k tok hm; exact hd.task m doc k tok hm
      · show cntS (dropTask s i).tasks = 0
        rw [hd.flags.s]; show b2n s.runS = 0; rw [hr]; rfl
  · exact h

theorem b2n_ge_one {b : Bool} {n : Nat} (h : n + 1 = b2n b) : b = true ∧ n = 0 := by
  cases b <;> simp [b2n] at h ⊢; omega

theorem resumeTask_inv {s : St} (h : Inv cfg env s) (hfix : cfg.fixD1 = true) (i : Nat) :
    Inv cfg env (resumeTask cfg env s i) := by
  unfold resumeTask
  split
  · rename_i m doc k tok ht
    have c1 := cnt_drop (p := isC) ht
    have c2 := cnt_drop (p := isV) ht
    have c3 := cnt_drop (p := isS) ht
    simp [isC, isV, isS] at c1 c2 c3
    obtain ⟨hr, hc0⟩ := b2n_ge_one (by rw [← h.flags.c]; exact c1.symm)
    obtain ⟨htok, hlink⟩ := h.task m doc k tok (mem_of_getElem? ht)
    exact inv_of_cseg
      (compResume_ok (dropTask_buf h.buf i) hfix hr m doc k tok htok hlink) hc0
      (by show cntV (dropTask s i).tasks = b2n s.runV; unfold cntV; rw [← c2]; exact h.flags.v)
      (by show cntS (dropTask s i).tasks = b2n s.runS; unfold cntS; rw [← c3]; exact h.flags.s)
  · rename_i doc ht
    have c1 := cnt_drop (p := isC) ht
    have c2 := cnt_drop (p := isV) ht
    have c3 := cnt_drop (p := isS) ht
    simp [isC, isV, isS] at c1 c2 c3
    obtain ⟨hr, hc0⟩ := b2n_ge_one (by rw [← h.flags.v]; exact c2.symm)
    exact inv_of_oseg (k := false) (valResume_ok (dropTask_buf h.buf i) hr doc) (dropTask_task h.task i)
      (by show cntC (dropTask s i).tasks = b2n s.runC; unfold cntC; rw [← c1]; exact h.flags.c)
      hc0
      (by show cntS (dropTask s i).tasks = b2n s.runS; unfold cntS; rw [← c3]; exact h.flags.s)
  · rename_i doc ht
    have c1 := cnt_drop (p := isC) ht
    have c2 := cnt_drop (p := isV) ht
    have c3 := cnt_drop (p := isS) ht
    simp [isC, isV, isS] at c1 c2 c3
    obtain ⟨hr, hc0⟩ := b2n_ge_one (by rw [← h.flags.s]; exact c3.symm)
    exact inv_of_oseg (k := true) (sugResume_ok (dropTask_buf h.buf i) hr doc) (dropTask_task h.task i)
      (by show cntC (dropTask s i).tasks = b2n s.runC; unfold cntC; rw [← c1]; exact h.flags.c)
      hc0
      (by show cntV (dropTask s i).tasks = b2n s.runV; unfold cntV; rw [← c2]; exact h.flags.v)
  · exact h

theorem setCompletions_inv {s : St} (h : Inv cfg env s) (comps : List Completion)
    (hp : Provenance env ⟨s.doc, comps, none, s.nextTok⟩) : Inv cfg env (setCompletions s comps) := by
  refine ⟨setCompletions_buf h.buf comps hp, ?_, ⟨h.flags.c, h.flags.v, h.flags.s⟩⟩
  intro m doc i tok hm
  obtain ⟨hlt, _⟩ := h.task m doc i tok hm
  refine ⟨by show tok < s.nextTok + 1; omega, ?_⟩
  intro st hst htok
  simp only [setCompletions, Option.some.injEq] at hst
  subst hst
  simp at htok; omega

/-- `start_history_lines_completion` installs a *new* state object: a completer that is still
    loading can no longer pass `proceed()` -/
theorem histComplete_nav {s : St} (h : Inv cfg env s) :
    Inv cfg env (histComplete cfg env s).1 ∧ (histComplete cfg env s).2 = false := by
  unfold histComplete
  have h1 := setCompletions_inv h (histComps env.isSpace s.doc) (Or.inr (Or.inr rfl))
  have hcs : (setCompletions s (histComps env.isSpace s.doc)).cs =
      some ⟨s.doc, histComps env.isSpace s.doc, none, s.nextTok⟩ := rfl
  by_cases hn : histComps env.isSpace s.doc = []
  · rw [goTo_ignored hcs hn]
    have n := goTo_nav h1.buf hcs none (by intro j hj; cases hj)
    exact ⟨inv_of_nav h1 n, n.noexc⟩
  · have n := goTo_nav h1.buf hcs (some 0) (by
      intro j hj; cases hj; exact List.length_pos_iff.mpr hn)
    exact ⟨inv_of_nav h1 n, n.noexc⟩

theorem cancelTask_inv {s : St} (h : Inv cfg env s) (i : Nat) : Inv cfg env (cancelTask s i) := by
  unfold cancelTask
  split
  · rename_i t ht
    have c1 := cnt_drop (p := isC) ht
    have c2 := cnt_drop (p := isV) ht
    have c3 := cnt_drop (p := isS) ht
    cases t with
    | cLoad m doc k tok =>
      simp [isC, isV, isS] at c1 c2 c3
      obtain ⟨_, hc0⟩ := b2n_ge_one (by rw [← h.flags.c]; exact c1.symm)
      exact ⟨(dropTask_buf h.buf i).congr rfl rfl rfl rfl rfl rfl rfl, dropTask_task h.task i,
        ⟨by show cntC (dropTask s i).tasks = b2n false; exact hc0,
         by show cntV (dropTask s i).tasks = b2n s.runV; unfold cntV; rw [← c2]; exact h.flags.v,
         by show cntS (dropTask s i).tasks = b2n s.runS; unfold cntS; rw [← c3]; exact h.flags.s⟩⟩
    | vWait doc =>
      simp [isC, isV, isS] at c1 c2 c3
      obtain ⟨_, hc0⟩ := b2n_ge_one (by rw [← h.flags.v]; exact c2.symm)
      exact ⟨(dropTask_buf h.buf i).congr rfl rfl rfl rfl rfl rfl rfl, dropTask_task h.task i,
        ⟨by show cntC (dropTask s i).tasks = b2n s.runC; unfold cntC; rw [← c1]; exact h.flags.c,
         by show cntV (dropTask s i).tasks = b2n false; exact hc0,
         by show cntS (dropTask s i).tasks = b2n s.runS; unfold cntS; rw [← c3]; exact h.flags.s⟩⟩
    | sWait doc =>
      simp [isC, isV, isS] at c1 c2 c3
      obtain ⟨_, hc0⟩ := b2n_ge_one (by rw [← h.flags.s]; exact c3.symm)
      exact ⟨(dropTask_buf h.buf i).congr rfl rfl rfl rfl rfl rfl rfl, dropTask_task h.task i,
        ⟨by show cntC (dropTask s i).tasks = b2n s.runC; unfold cntC; rw [← c1]; exact h.flags.c,
         by show cntV (dropTask s i).tasks = b2n s.runV; unfold cntV; rw [← c2]; exact h.flags.v,
         by show cntS (dropTask s i).tasks = b2n false; exact hc0⟩⟩
    | cPend m => exact dropPending_inv h ht rfl
    | vPend => exact dropPending_inv h ht rfl
    | sPend => exact dropPending_inv h ht rfl
  · exact h

theorem step_inv {s : St} (h : Inv cfg env s) (hfix : cfg.fixD1 = true) (a : Act) :
    Inv cfg env (step cfg env s a).1 := by
  cases a with
  | insert d => exact inv_of_frame h (insertText_buf h.buf d) (insertText_frame s d)
  | deleteBefore n => exact inv_of_frame h (deleteBefore_buf h.buf n) (deleteBefore_frame s n)
  | delete n => exact inv_of_frame h (delete_buf h.buf n) (delete_frame s n)
  | setCursor v => exact inv_of_frame h (setCursor_buf h.buf v) (setCursor_frame s v)
  | setText t => exact inv_of_frame h (setText_buf h.buf t) (setText_frame s t)
  | next c dw => exact inv_of_nav h (completeNext_nav h.buf c dw)
  | prev c dw => exact inv_of_nav h (completePrevious_nav h.buf c dw)
  | cancel => exact inv_of_nav h (cancel_nav h.buf)
  | startCompletion m => exact inv_of_frame h (startCompletion_buf h.buf m) (startCompletion_frame s m)
  | tab => exact inv_of_nav h (tab_nav h.buf)
  | apply c => exact inv_of_nav h (apply_nav h.buf c)
  | validateSync => exact inv_of_frame h (validateSync_buf h.buf) (validateSync_frame s)
  | reset t c => exact inv_of_frame h (reset_buf h.buf t _ (Nat.min_le_right _ _)) (reset_frame s t _)
  | histComplete => exact (histComplete_nav h).1
  | start i => exact startTask_inv h i
  | resume i => exact resumeTask_inv h hfix i
  | kill i => exact cancelTask_inv h i

theorem init_inv (d : Doc) (hd : d.WF) : Inv cfg env (init d) := by
  refine ⟨⟨hd, ?_, ?_, ?_, ?_⟩, ?_, ⟨rfl, rfl, rfl⟩⟩
  · intro st h; cases h
  · intro h; cases h
  · intro h; cases h
  · intro t h; cases h
  · intro m doc i tok h; cases h

theorem run_inv {s : St} (h : Inv cfg env s) (hfix : cfg.fixD1 = true) (as : List Act) :
    Inv cfg env (run cfg env s as) := by
  induction as generalizing s with
  | nil => exact h
  | cons a as ih => exact ih (step_inv h hfix a)

end prim
end Ptk.C15
