/-
  C15 — the invariant of the async transition system and its preservation by every step.

  `Inv cfg env s` =  `BufOK` (menu describes the text; completions come from the completer for
  the menu's original document; verdict / suggestion were computed for the current text)
  ∧ `TaskOK` (a loading completer and the buffer's state object with the same identity agree
  on document and on the completions delivered so far) ∧ `FlagsOK` (per kind: number of
  coroutines past the `running` check = the flag ≤ 1).

  This file: definitions and the user-level operations (`Frame`, `NavOK`).  Scheduler steps
  (coroutine segments, producer-thread steps, cancellation) and the main result `run_inv` —
  every state reachable by any finite sequence of user actions and scheduler steps satisfies
  `Inv` — are in `Ptk.Props.C15Sched`; the property theorems in `Ptk.Props.C15`,
  `Ptk.Props.C15Threaded`, `Ptk.Props.C15Ops`; the hand-off theory in `Ptk.Props.C15Thread`.
-/
import Ptk.Model.C15
import Ptk.Props.C15Thread
namespace Ptk.C15
open Ptk.Py

/-! ### definitions -/

def Doc.WF (d : Doc) : Prop := d.cur ≤ d.text.length

def isPending : Task → Bool
  | .cPend _ | .vPend | .sPend => true
  | _ => false

def isC : Task → Bool | .cLoad .. | .cLoadT .. | .cCloseT .. => true | _ => false
def isV : Task → Bool | .vWait _ _ => true | _ => false
def isS : Task → Bool | .sWait _ _ => true | _ => false

/-- number of coroutines of a kind that are past the `running` check -/
def cntC (ts : List Task) : Nat := ts.countP isC
def cntV (ts : List Task) : Nat := ts.countP isV
def cntS (ts : List Task) : Nat := ts.countP isS

/-- the completions were obtained by inserting the common part `cp` of the list `L` the
    completer produced for `d` (`new_completion_from_position`) -/
def Derived (env : Env) (st : CState) : Prop :=
  ∃ (d : Doc) (L : List Completion) (cp : Text),
    L <+: env.comp d ∧ cp = commonSuffix d L ∧ cp ≠ [] ∧
    st.comps = L.map (fromPos cp.length) ∧
    st.orig = ⟨d.before ++ cp ++ d.after, d.cur + cp.length⟩

/-- where the completions of a menu come from: (a prefix of) the completer's stream for the
    menu's original document; or that after `insert_common_part`; or
    `start_history_lines_completion` for the original document -/
def Provenance (env : Env) (st : CState) : Prop :=
  st.comps <+: env.comp st.orig ∨ Derived env st ∨ st.comps = histComps env.isSpace st.orig

structure CsOK (env : Env) (s : St) (st : CState) : Prop where
  text_eq : st.newDoc = some s.doc
  tok_lt : st.token < s.nextTok
  prov : Provenance env st
  orig_wf : st.orig.WF

structure BufOK (cfg : Config) (env : Env) (s : St) : Prop where
  cur_le : s.cur ≤ s.text.length
  cs_ok : ∀ st, s.cs = some st → CsOK env s st
  valid_fresh : s.vs = .valid →
    s.verr = none ∧ (cfg.hasV = false ∨ ∃ c, c ≤ s.text.length ∧ env.valid ⟨s.text, c⟩ = none)
  invalid_fresh : s.vs = .invalid →
    ∃ c msg, c ≤ s.text.length ∧ env.valid ⟨s.text, c⟩ = some msg ∧ s.verr = some msg
  sugg_fresh : ∀ t, s.sugg = some t → ∃ c, c ≤ s.text.length ∧ env.sugg ⟨s.text, c⟩ = some t

/-- the state object created by the coroutine run `tok` (if it is still the buffer's) belongs
    to `doc` and holds a prefix of what the completer produces for `doc` -/
def Link (env : Env) (s : St) (doc : Doc) (tok : Nat) : Prop :=
  ∀ st, s.cs = some st → st.token = tok → st.orig = doc ∧ st.comps <+: env.comp doc

/-- exact form of the link while the stream is being consumed -/
def LinkAt (env : Env) (s : St) (doc : Doc) (i tok : Nat) : Prop :=
  ∀ st, s.cs = some st → st.token = tok → st.orig = doc ∧ st.comps = (env.comp doc).take i

/-- a live hand-off of a threaded completer called with `doc`: the hand-off invariant, the
    iterable is the completer's result for `doc`, the consumer is still reading -/
structure HOK (env : Env) (doc : Doc) (h : HS) : Prop where
  inv : HInv h
  n_eq : h.n = (env.comp doc).length
  live : h.quitting = false
  open_ : h.ended = false

/-- what the invariant records about one task: every completer coroutine past its first
    step holds a token older than `nextTok`, and if its state object is still the buffer's,
    that state holds exactly what the coroutine received so far (a prefix once it left the
    loop) -/
def TaskLink (env : Env) (s : St) : Task → Prop
  | .cLoad _ doc i tok => tok < s.nextTok ∧ LinkAt env s doc i tok
  | .cLoadT _ doc tok h => tok < s.nextTok ∧ LinkAt env s doc h.got.length tok ∧ HOK env doc h
  | .cCloseT _ doc tok h _ => tok < s.nextTok ∧ Link env s doc tok ∧ HInv h ∧ h.quitting = true
  | _ => True

def TaskOK (env : Env) (s : St) : Prop := ∀ t ∈ s.tasks, TaskLink env s t

/-- the configuration the theorems are about: the repaired `async_completer` (commit 279c220)
    and a positive `buffer_size` (`Queue(maxsize=0)` would be unbounded) -/
structure CfgOK (cfg : Config) : Prop where
  fix : cfg.fixD1 = true
  cap : 0 < cfg.qcap

def b2n (b : Bool) : Nat := if b then 1 else 0

structure FlagsOK (s : St) : Prop where
  c : cntC s.tasks = b2n s.runC
  v : cntV s.tasks = b2n s.runV
  s : cntS s.tasks = b2n s.runS

structure Inv (cfg : Config) (env : Env) (s : St) : Prop where
  buf : BufOK cfg env s
  task : TaskOK env s
  flags : FlagsOK s

/-- tasks were only added, and only pending ones -/
def PendExt (ts ts' : List Task) : Prop := ∃ l, ts' = ts ++ l ∧ ∀ t ∈ l, isPending t = true

/-- the menu of `s'` (if any) is the menu of `s` with possibly another index -/
def CsStep (s s' : St) : Prop :=
  ∀ st', s'.cs = some st' →
    ∃ st, s.cs = some st ∧ st'.token = st.token ∧ st'.orig = st.orig ∧ st'.comps = st.comps

structure Frame (s s' : St) : Prop where
  ext : PendExt s.tasks s'.tasks
  runC : s'.runC = s.runC
  runV : s'.runV = s.runV
  runS : s'.runS = s.runS
  tok : s'.nextTok = s.nextTok
  cs : CsStep s s'

theorem PendExt.refl (ts : List Task) : PendExt ts ts := ⟨[], by simp⟩
theorem PendExt.trans {a b c : List Task} (h1 : PendExt a b) (h2 : PendExt b c) : PendExt a c := by
  obtain ⟨l1, rfl, h1⟩ := h1
  obtain ⟨l2, rfl, h2⟩ := h2
  exact ⟨l1 ++ l2, by simp, by intro t ht; simp at ht; rcases ht with h | h; exact h1 t h; exact h2 t h⟩
theorem PendExt.snoc (ts : List Task) (t : Task) (h : isPending t = true) : PendExt ts (ts ++ [t]) :=
  ⟨[t], rfl, by simp [h]⟩

theorem CsStep.refl (s : St) : CsStep s s := fun st' h => ⟨st', h, rfl, rfl, rfl⟩
theorem CsStep.trans {a b c : St} (h1 : CsStep a b) (h2 : CsStep b c) : CsStep a c := by
  intro st' h
  obtain ⟨st1, e1, a1, b1, c1⟩ := h2 st' h
  obtain ⟨st0, e0, a0, b0, c0⟩ := h1 st1 e1
  exact ⟨st0, e0, by rw [a1, a0], by rw [b1, b0], by rw [c1, c0]⟩
theorem CsStep.of_none {s s' : St} (h : s'.cs = none) : CsStep s s' := by
  intro st' h'; rw [h] at h'; cases h'

theorem Frame.refl (s : St) : Frame s s := ⟨PendExt.refl _, rfl, rfl, rfl, rfl, CsStep.refl _⟩
theorem Frame.trans {a b c : St} (h1 : Frame a b) (h2 : Frame b c) : Frame a c :=
  ⟨h1.ext.trans h2.ext, by rw [h2.runC, h1.runC], by rw [h2.runV, h1.runV], by rw [h2.runS, h1.runS],
   by rw [h2.tok, h1.tok], h1.cs.trans h2.cs⟩

theorem cntC_pendExt {a b : List Task} (h : PendExt a b) : cntC b = cntC a := by
  obtain ⟨l, rfl, hl⟩ := h
  simp only [cntC, List.countP_append]
  have : l.countP isC = 0 := by
    rw [List.countP_eq_zero]; intro t ht; have := hl t ht; cases t <;> simp_all [isPending, isC]
  omega
theorem cntV_pendExt {a b : List Task} (h : PendExt a b) : cntV b = cntV a := by
  obtain ⟨l, rfl, hl⟩ := h
  simp only [cntV, List.countP_append]
  have : l.countP isV = 0 := by
    rw [List.countP_eq_zero]; intro t ht; have := hl t ht; cases t <;> simp_all [isPending, isV]
  omega
theorem cntS_pendExt {a b : List Task} (h : PendExt a b) : cntS b = cntS a := by
  obtain ⟨l, rfl, hl⟩ := h
  simp only [cntS, List.countP_append]
  have : l.countP isS = 0 := by
    rw [List.countP_eq_zero]; intro t ht; have := hl t ht; cases t <;> simp_all [isPending, isS]
  omega

theorem mem_of_pendExt {a b : List Task} (h : PendExt a b) {t : Task} (hp : isPending t = false)
    (hm : t ∈ b) : t ∈ a := by
  obtain ⟨l, rfl, hl⟩ := h
  simp at hm
  rcases hm with hm | hm
  · exact hm
  · have := hl _ hm; rw [hp] at this; cases this

theorem mem_cLoad_pendExt {a b : List Task} (h : PendExt a b) {m doc i tok}
    (hm : Task.cLoad m doc i tok ∈ b) : Task.cLoad m doc i tok ∈ a :=
  mem_of_pendExt h rfl hm

theorem taskLink_of_pending {env : Env} {s : St} {t : Task} (hp : isPending t = true) : TaskLink env s t := by
  cases t <;> simp_all [isPending, TaskLink]

theorem taskLink_of_not_isC {env : Env} {s : St} {t : Task} (hp : isC t = false) : TaskLink env s t := by
  cases t <;> simp_all [isC, TaskLink]

theorem LinkAt.of_csStep {env : Env} {s s' : St} {doc i tok} (hcs : CsStep s s') (h : LinkAt env s doc i tok) :
    LinkAt env s' doc i tok := by
  intro st' hst' ht
  obtain ⟨st, e, a, b, c⟩ := hcs st' hst'
  obtain ⟨x, y⟩ := h st e (by rw [← a]; exact ht)
  exact ⟨by rw [b]; exact x, by rw [c]; exact y⟩

theorem Link.of_csStep {env : Env} {s s' : St} {doc tok} (hcs : CsStep s s') (h : Link env s doc tok) :
    Link env s' doc tok := by
  intro st' hst' ht
  obtain ⟨st, e, a, b, c⟩ := hcs st' hst'
  obtain ⟨x, y⟩ := h st e (by rw [← a]; exact ht)
  exact ⟨by rw [b]; exact x, by rw [c]; exact y⟩

/-- `TaskLink` only looks at the menu and at `nextTok` -/
theorem taskLink_of_csStep {env : Env} {s s' : St} (htok : s.nextTok ≤ s'.nextTok) (hcs : CsStep s s')
    {t : Task} (h : TaskLink env s t) : TaskLink env s' t := by
  cases t with
  | cLoad m doc i tok => exact ⟨Nat.lt_of_lt_of_le h.1 htok, h.2.of_csStep hcs⟩
  | cLoadT m doc tok hs => exact ⟨Nat.lt_of_lt_of_le h.1 htok, h.2.1.of_csStep hcs, h.2.2⟩
  | cCloseT m doc tok hs c => exact ⟨Nat.lt_of_lt_of_le h.1 htok, h.2.1.of_csStep hcs, h.2.2⟩
  | _ => trivial

theorem flags_of_frame {s s' : St} (f : Frame s s') (h : FlagsOK s) : FlagsOK s' :=
  ⟨by rw [cntC_pendExt f.ext, f.runC, h.c], by rw [cntV_pendExt f.ext, f.runV, h.v],
   by rw [cntS_pendExt f.ext, f.runS, h.s]⟩

theorem taskOK_of_frame {env : Env} {s s' : St} (f : Frame s s') (h : TaskOK env s) : TaskOK env s' := by
  intro t hm
  cases hp : isPending t with
  | true => exact taskLink_of_pending hp
  | false => exact taskLink_of_csStep (Nat.le_of_eq f.tok.symm) f.cs (h t (mem_of_pendExt f.ext hp hm))


/-! ### primitives: field characterisations -/

section prim
variable {cfg : Config} {env : Env}

@[simp] theorem setDocument_text (s : St) (t c) : (setDocument cfg s t c).text = t := by
  by_cases h1 : t = s.text <;> by_cases h2 : c = s.cur <;>
    simp [setDocument, textChanged, cursorChanged, h1, h2]
@[simp] theorem setDocument_cur (s : St) (t c) : (setDocument cfg s t c).cur = c := by
  by_cases h1 : t = s.text <;> by_cases h2 : c = s.cur <;>
    simp [setDocument, textChanged, cursorChanged, h1, h2]
@[simp] theorem setDocument_nextTok (s : St) (t c) : (setDocument cfg s t c).nextTok = s.nextTok := by
  by_cases h1 : t = s.text <;> by_cases h2 : c = s.cur <;>
    simp [setDocument, textChanged, cursorChanged, h1, h2]
@[simp] theorem setDocument_runC (s : St) (t c) : (setDocument cfg s t c).runC = s.runC := by
  by_cases h1 : t = s.text <;> by_cases h2 : c = s.cur <;>
    simp [setDocument, textChanged, cursorChanged, h1, h2]
@[simp] theorem setDocument_runV (s : St) (t c) : (setDocument cfg s t c).runV = s.runV := by
  by_cases h1 : t = s.text <;> by_cases h2 : c = s.cur <;>
    simp [setDocument, textChanged, cursorChanged, h1, h2]
@[simp] theorem setDocument_runS (s : St) (t c) : (setDocument cfg s t c).runS = s.runS := by
  by_cases h1 : t = s.text <;> by_cases h2 : c = s.cur <;>
    simp [setDocument, textChanged, cursorChanged, h1, h2]
theorem setDocument_cs (s : St) (t c) :
    (setDocument cfg s t c).cs = if t = s.text ∧ c = s.cur then s.cs else none := by
  unfold setDocument textChanged cursorChanged
  by_cases h1 : t = s.text <;> by_cases h2 : c = s.cur <;> simp [h1, h2]
theorem setDocument_same (s : St) : setDocument cfg s s.text s.cur = s := by
  unfold setDocument; simp
theorem setDocument_vs (s : St) (t c) :
    (setDocument cfg s t c).vs = if t = s.text then s.vs else .unknown := by
  unfold setDocument textChanged cursorChanged
  by_cases h1 : t = s.text <;> by_cases h2 : c = s.cur <;> simp [h1, h2]
theorem setDocument_verr (s : St) (t c) :
    (setDocument cfg s t c).verr = if t = s.text then s.verr else none := by
  unfold setDocument textChanged cursorChanged
  by_cases h1 : t = s.text <;> by_cases h2 : c = s.cur <;> simp [h1, h2]
theorem setDocument_sugg (s : St) (t c) :
    (setDocument cfg s t c).sugg = if t = s.text then s.sugg else none := by
  unfold setDocument textChanged cursorChanged
  by_cases h1 : t = s.text <;> by_cases h2 : c = s.cur <;> simp [h1, h2]
theorem setDocument_tasks (s : St) (t c) : PendExt s.tasks (setDocument cfg s t c).tasks := by
  unfold setDocument textChanged cursorChanged
  by_cases h1 : t = s.text <;> by_cases h2 : c = s.cur <;> by_cases h3 : (cfg.hasV && cfg.vwt) = true <;>
    simp [h1, h2, h3] <;> first | exact PendExt.refl _ | exact PendExt.snoc _ _ rfl

theorem setDocument_frame (s : St) (t c) : Frame s (setDocument cfg s t c) := by
  refine ⟨setDocument_tasks (cfg := cfg) s t c, by simp, by simp, by simp, by simp, ?_⟩
  intro st' h
  rw [setDocument_cs] at h
  split at h
  · exact ⟨st', h, rfl, rfl, rfl⟩
  · cases h

theorem setDocument_buf {s : St} (h : BufOK cfg env s) (t : Text) (c : Nat) (hc : c ≤ t.length) :
    BufOK cfg env (setDocument cfg s t c) := by
  by_cases h1 : t = s.text
  · subst h1
    by_cases h2 : c = s.cur
    · subst h2; rw [setDocument_same]; exact h
    · refine ⟨by simpa using hc, ?_, ?_, ?_, ?_⟩
      · intro st hst; rw [setDocument_cs] at hst; simp [h2] at hst
      · intro hv; rw [setDocument_vs] at hv; simp at hv
        rw [setDocument_verr]; simpa using h.valid_fresh hv
      · intro hv; rw [setDocument_vs] at hv; simp at hv
        rw [setDocument_verr]; simpa using h.invalid_fresh hv
      · intro x hx; rw [setDocument_sugg] at hx; simp at hx
        simpa using h.sugg_fresh x hx
  · refine ⟨by simpa using hc, ?_, ?_, ?_, ?_⟩
    · intro st hst; rw [setDocument_cs] at hst; simp [h1] at hst
    · intro hv; rw [setDocument_vs] at hv; simp [h1] at hv
    · intro hv; rw [setDocument_vs] at hv; simp [h1] at hv
    · intro x hx; rw [setDocument_sugg] at hx; simp [h1] at hx


/-- a state whose buffer part is an "edit" of a good state is good: the menu is either gone
    or untouched together with the document; verdict and suggestion are either untouched
    together with the text, or cleared -/
theorem BufOK.of_edit {s : St} (h : BufOK cfg env s) (s' : St)
    (hc : s'.cur ≤ s'.text.length)
    (hcs : s'.cs = none ∨ (s'.cs = s.cs ∧ s'.text = s.text ∧ s'.cur = s.cur))
    (hv : (s'.text = s.text ∧ s'.vs = s.vs ∧ s'.verr = s.verr ∧ s'.sugg = s.sugg) ∨
          (s'.vs = .unknown ∧ s'.sugg = none))
    (htok : s.nextTok ≤ s'.nextTok) : BufOK cfg env s' := by
  refine ⟨hc, ?_, ?_, ?_, ?_⟩
  · intro st hst
    rcases hcs with hcs | ⟨e1, e2, e3⟩
    · rw [hcs] at hst; cases hst
    · rw [e1] at hst
      have := h.cs_ok st hst
      exact ⟨by rw [this.text_eq]; simp [St.doc, e2, e3], by have := this.tok_lt; omega, this.prov, this.orig_wf⟩
  · intro hvs
    rcases hv with ⟨e1, e2, e3, e4⟩ | ⟨e1, _⟩
    · rw [e2] at hvs; rw [e1, e3]; exact h.valid_fresh hvs
    · rw [e1] at hvs; cases hvs
  · intro hvs
    rcases hv with ⟨e1, e2, e3, e4⟩ | ⟨e1, _⟩
    · rw [e2] at hvs; rw [e1, e3]; exact h.invalid_fresh hvs
    · rw [e1] at hvs; cases hvs
  · intro x hx
    rcases hv with ⟨e1, e2, e3, e4⟩ | ⟨_, e1⟩
    · rw [e4] at hx; rw [e1]; exact h.sugg_fresh x hx
    · rw [e1] at hx; cases hx

theorem setCursor_eq (s : St) (v : Int) : setCursor s v =
    if min v.toNat s.text.length ≠ s.cur then { s with cur := min v.toNat s.text.length, cs := none }
    else s := rfl

theorem setCursor_frame (s : St) (v : Int) : Frame s (setCursor s v) := by
  rw [setCursor_eq]
  split
  · exact ⟨PendExt.refl _, rfl, rfl, rfl, rfl, CsStep.of_none rfl⟩
  · exact Frame.refl s

theorem setCursor_buf {s : St} (h : BufOK cfg env s) (v : Int) : BufOK cfg env (setCursor s v) := by
  rw [setCursor_eq]
  split
  · exact h.of_edit _ (by simp; omega) (Or.inl rfl) (Or.inl ⟨rfl, rfl, rfl, rfl⟩) (Nat.le_refl _)
  · exact h

theorem textChanged_frame (s : St) : Frame s (textChanged cfg s) := by
  unfold textChanged
  refine ⟨?_, rfl, rfl, rfl, rfl, CsStep.of_none rfl⟩
  by_cases h3 : (cfg.hasV && cfg.vwt) = true <;> simp [h3]
  · exact PendExt.snoc _ _ rfl
  · exact PendExt.refl _

def setText2 (cfg : Config) (s1 : St) (t : Text) : St :=
  if t ≠ s1.text then textChanged cfg { s1 with text := t } else s1

theorem setText_eq (s : St) (t : Text) :
    setText cfg s t = setText2 cfg (if s.cur > t.length then setCursor s t.length else s) t := rfl

theorem setText_frame (s : St) (t : Text) : Frame s (setText cfg s t) := by
  rw [setText_eq]
  have f1 : Frame s (if s.cur > t.length then setCursor s t.length else s) := by
    split
    · exact setCursor_frame s _
    · exact Frame.refl s
  refine f1.trans ?_
  generalize (if s.cur > t.length then setCursor s t.length else s) = s1
  unfold setText2
  split
  · have := textChanged_frame (cfg := cfg) { s1 with text := t }
    exact ⟨this.ext, this.runC, this.runV, this.runS, this.tok, CsStep.of_none rfl⟩
  · exact Frame.refl _

theorem setText_buf {s : St} (h : BufOK cfg env s) (t : Text) : BufOK cfg env (setText cfg s t) := by
  have hcur := h.cur_le
  rw [setText_eq]
  have h1 : BufOK cfg env (if s.cur > t.length then setCursor s t.length else s) := by
    split
    · exact setCursor_buf h _
    · exact h
  have h2 : (if s.cur > t.length then setCursor s t.length else s).cur ≤ t.length := by
    split
    · rw [setCursor_eq]; split
      · show min (t.length : Int).toNat s.text.length ≤ t.length
        simp; omega
      · omega
    · omega
  generalize (if s.cur > t.length then setCursor s t.length else s) = s1 at h1 h2
  unfold setText2
  split
  · exact h1.of_edit _ (by exact h2) (Or.inl rfl) (Or.inr ⟨rfl, rfl⟩) (Nat.le_refl _)
  · exact h1

def addInsertTasks (cfg : Config) (s1 : St) : St :=
  { s1 with tasks :=
      (if cfg.hasS then (if cfg.cwt then s1.tasks ++ [.cPend .plain] else s1.tasks) ++ [.sPend]
       else (if cfg.cwt then s1.tasks ++ [.cPend .plain] else s1.tasks)) }

theorem insertText_eq (s : St) (d : Text) : insertText cfg s d =
    addInsertTasks cfg (setDocument cfg s (s.text.take s.cur ++ d ++ s.text.drop s.cur) (s.cur + d.length)) := rfl

theorem addInsertTasks_frame (s1 : St) : Frame s1 (addInsertTasks cfg s1) := by
  refine ⟨?_, rfl, rfl, rfl, rfl, CsStep.refl _⟩
  unfold addInsertTasks
  by_cases h1 : cfg.cwt = true <;> by_cases h2 : cfg.hasS = true <;> simp [h1, h2]
  · exact ⟨[.cPend .plain, .sPend], by simp, by simp [isPending]⟩
  · exact PendExt.snoc _ _ rfl
  · exact PendExt.snoc _ _ rfl
  · exact PendExt.refl _

theorem insertText_frame (s : St) (d : Text) : Frame s (insertText cfg s d) := by
  rw [insertText_eq]
  exact (setDocument_frame s _ _).trans (addInsertTasks_frame _)

theorem insertText_buf {s : St} (h : BufOK cfg env s) (d : Text) : BufOK cfg env (insertText cfg s d) := by
  have hcur := h.cur_le
  rw [insertText_eq]
  have := setDocument_buf h (s.text.take s.cur ++ d ++ s.text.drop s.cur) (s.cur + d.length)
    (by simp; omega)
  exact this.of_edit _ this.cur_le (Or.inr ⟨rfl, rfl, rfl⟩) (Or.inl ⟨rfl, rfl, rfl, rfl⟩) (Nat.le_refl _)

@[simp] theorem insertText_text (s : St) (d : Text) :
    (insertText cfg s d).text = s.text.take s.cur ++ d ++ s.text.drop s.cur := by simp [insertText]
@[simp] theorem insertText_cur (s : St) (d : Text) : (insertText cfg s d).cur = s.cur + d.length := by
  simp [insertText]
@[simp] theorem insertText_nextTok (s : St) (d : Text) : (insertText cfg s d).nextTok = s.nextTok := by
  simp [insertText]

theorem deleteBefore_frame (s : St) (n : Nat) : Frame s (deleteBefore cfg s n) := by
  unfold deleteBefore
  split
  · exact setDocument_frame (cfg := cfg) s _ _
  · exact Frame.refl s

theorem deleteBefore_buf {s : St} (h : BufOK cfg env s) (n : Nat) : BufOK cfg env (deleteBefore cfg s n) := by
  have hcur := h.cur_le
  unfold deleteBefore
  split
  · apply setDocument_buf h
    simp; omega
  · exact h

theorem delete_frame (s : St) (n : Nat) : Frame s (delete cfg s n) := by
  unfold delete
  split
  · exact setText_frame (cfg := cfg) s _
  · exact Frame.refl s

theorem delete_buf {s : St} (h : BufOK cfg env s) (n : Nat) : BufOK cfg env (delete cfg s n) := by
  unfold delete
  split
  · exact setText_buf h _
  · exact h


/-! ### completion navigation -/

theorem applyCompl_wf (d : Doc) (c : Completion) : (applyCompl d c).WF := by
  unfold applyCompl Doc.WF; simp

theorem newDoc_wf {st : CState} (h : st.orig.WF) {d : Doc} (hd : st.newDoc = some d) : d.WF := by
  unfold CState.newDoc at hd
  split at hd
  · cases hd; exact h
  · split at hd
    · cases hd; exact applyCompl_wf _ _
    · cases hd

theorem index_lt_of_newDoc {st : CState} {d : Doc} (hd : st.newDoc = some d) {i : Nat}
    (hi : st.index = some i) : i < st.comps.length := by
  unfold CState.newDoc at hd
  rw [hi] at hd
  simp only at hd
  split at hd
  · rename_i c hc
    exact (List.getElem?_eq_some_iff.mp hc).1
  · cases hd

theorem goToIndex_newDoc {st : CState} {d0 : Doc} (h0 : st.newDoc = some d0) (idx : Option Nat)
    (hidx : ∀ j, idx = some j → j < st.comps.length) : ∃ d, (st.goToIndex idx).newDoc = some d := by
  unfold CState.goToIndex
  split
  · exact ⟨d0, h0⟩
  · cases idx with
    | none => exact ⟨st.orig, rfl⟩
    | some j =>
      have hj := hidx j rfl
      refine ⟨applyCompl st.orig st.comps[j], ?_⟩
      simp [CState.newDoc, hj]

@[simp] theorem goToIndex_token (st : CState) (idx) : (st.goToIndex idx).token = st.token := by
  unfold CState.goToIndex; split <;> rfl
@[simp] theorem goToIndex_orig (st : CState) (idx) : (st.goToIndex idx).orig = st.orig := by
  unfold CState.goToIndex; split <;> rfl
@[simp] theorem goToIndex_comps (st : CState) (idx) : (st.goToIndex idx).comps = st.comps := by
  unfold CState.goToIndex; split <;> rfl

theorem provenance_congr {st st' : CState} (h1 : st'.orig = st.orig) (h2 : st'.comps = st.comps)
    (h : Provenance env st) : Provenance env st' := by
  unfold Provenance Derived at *
  rw [h1, h2]; exact h

theorem goTo_eq {s : St} {st : CState} (hcs : s.cs = some st) {idx : Option Nat} {d : Doc}
    (hd : (st.goToIndex idx).newDoc = some d) :
    goToCompletion cfg s idx =
      ({ setDocument cfg s d.text d.cur with cs := some (st.goToIndex idx) }, false) := by
  unfold goToCompletion; rw [hcs]; dsimp only; rw [hd]

/-- `go_to_completion` with an index that exists: no exception, the menu stays (same object,
    new index), the text becomes what the menu says, everything else is a plain edit. -/
theorem goTo_spec {s : St} (h : BufOK cfg env s) {st : CState} (hcs : s.cs = some st) (idx : Option Nat)
    (hidx : ∀ j, idx = some j → j < st.comps.length) :
    (goToCompletion cfg s idx).2 = false ∧
    BufOK cfg env (goToCompletion cfg s idx).1 ∧
    Frame s (goToCompletion cfg s idx).1 ∧
    (goToCompletion cfg s idx).1.cs = some (st.goToIndex idx) := by
  have hst := h.cs_ok st hcs
  obtain ⟨d, hd⟩ := goToIndex_newDoc hst.text_eq idx hidx
  have hdwf : d.WF := newDoc_wf (by simpa using hst.orig_wf) hd
  rw [goTo_eq hcs hd]
  refine ⟨rfl, ?_, ?_, rfl⟩
  · have hb := setDocument_buf h d.text d.cur hdwf
    refine ⟨hb.cur_le, ?_, hb.valid_fresh, hb.invalid_fresh, hb.sugg_fresh⟩
    intro st' hst'
    simp only [Option.some.injEq] at hst'
    subst hst'
    exact ⟨by rw [hd]; simp [St.doc], by simpa using hst.tok_lt,
           provenance_congr (by simp) (by simp) hst.prov, by simpa using hst.orig_wf⟩
  · have hf := setDocument_frame (cfg := cfg) s d.text d.cur
    refine ⟨hf.ext, hf.runC, hf.runV, hf.runS, hf.tok, ?_⟩
    intro st' hst'
    simp only [Option.some.injEq] at hst'
    subst hst'
    exact ⟨st, hcs, by simp, by simp, by simp⟩

/-- what a user-level navigation call guarantees -/
structure NavOK (cfg : Config) (env : Env) (s : St) (r : St × Bool) : Prop where
  noexc : r.2 = false
  buf : BufOK cfg env r.1
  frame : Frame s r.1

theorem NavOK.same {s : St} (h : BufOK cfg env s) : NavOK cfg env s (s, false) := ⟨rfl, h, Frame.refl s⟩

theorem goTo_nav {s : St} (h : BufOK cfg env s) {st : CState} (hcs : s.cs = some st) (idx : Option Nat)
    (hidx : ∀ j, idx = some j → j < st.comps.length) : NavOK cfg env s (goToCompletion cfg s idx) :=
  let r := goTo_spec h hcs idx hidx
  ⟨r.1, r.2.1, r.2.2.1⟩

theorem goTo_ignored {s : St} {st : CState} (hcs : s.cs = some st) (hn : st.comps = []) (i : Nat) :
    goToCompletion cfg s (some i) = goToCompletion cfg s none := by
  unfold goToCompletion; rw [hcs]; simp [CState.goToIndex, hn]

theorem completeNext_nav {s : St} (h : BufOK cfg env s) (count : Nat) (dw : Bool) :
    NavOK cfg env s (completeNext cfg s count dw) := by
  unfold completeNext
  cases hcs : s.cs with
  | none => exact NavOK.same h
  | some st =>
    have hst := h.cs_ok st hcs
    dsimp only
    cases hi : st.index with
    | none =>
      dsimp only
      by_cases hn : st.comps = []
      · rw [goTo_ignored hcs hn]
        exact goTo_nav h hcs none (by intro j hj; cases hj)
      · exact goTo_nav h hcs _ (by
          intro j hj; cases hj; exact List.length_pos_iff.mpr hn)
    | some i =>
      dsimp only
      have hlt := index_lt_of_newDoc hst.text_eq hi
      split
      · split
        · exact NavOK.same h
        · exact goTo_nav h hcs none (by intro j hj; cases hj)
      · exact goTo_nav h hcs _ (by intro j hj; simp at hj; omega)

theorem completePrevious_nav {s : St} (h : BufOK cfg env s) (count : Nat) (dw : Bool) :
    NavOK cfg env s (completePrevious cfg s count dw) := by
  unfold completePrevious
  cases hcs : s.cs with
  | none => exact NavOK.same h
  | some st =>
    have hst := h.cs_ok st hcs
    dsimp only
    cases hi : st.index with
    | none =>
      dsimp only
      by_cases hn : st.comps = []
      · rw [goTo_ignored hcs hn]
        exact goTo_nav h hcs none (by intro j hj; cases hj)
      · exact goTo_nav h hcs _ (by
          intro j hj; simp at hj
          have := List.length_pos_iff.mpr hn; omega)
    | some i =>
      have hlt := index_lt_of_newDoc hst.text_eq hi
      dsimp only
      split
      · split
        · exact NavOK.same h
        · exact goTo_nav h hcs none (by intro j hj; cases hj)
      · exact goTo_nav h hcs _ (by intro j hj; simp at hj; omega)

theorem cancel_nav {s : St} (h : BufOK cfg env s) : NavOK cfg env s (cancelCompletion cfg s) := by
  unfold cancelCompletion
  split
  · exact NavOK.same h
  · rename_i st hcs
    have r := goTo_spec h hcs none (by intro j hj; cases hj)
    simp only [r.1]
    refine ⟨rfl, ?_, ?_⟩
    · exact r.2.1.of_edit _ r.2.1.cur_le (Or.inl rfl) (Or.inl ⟨rfl, rfl, rfl, rfl⟩) (Nat.le_refl _)
    · have f := r.2.2.1
      exact ⟨f.ext, f.runC, f.runV, f.runS, f.tok, CsStep.of_none rfl⟩

theorem drop_cs_buf {s : St} (h : BufOK cfg env s) : BufOK cfg env { s with cs := none } :=
  h.of_edit _ h.cur_le (Or.inl rfl) (Or.inl ⟨rfl, rfl, rfl, rfl⟩) (Nat.le_refl _)

theorem drop_cs_frame (s : St) : Frame s { s with cs := none } :=
  ⟨PendExt.refl _, rfl, rfl, rfl, rfl, CsStep.of_none rfl⟩

theorem cancelFirst_nav {s : St} (h : BufOK cfg env s) : NavOK cfg env s (cancelFirst cfg s) := by
  unfold cancelFirst
  split
  · rename_i hs
    obtain ⟨st, hcs⟩ := Option.isSome_iff_exists.mp hs
    exact goTo_nav h hcs none (by intro j hj; cases hj)
  · exact NavOK.same h

theorem apply_nav {s : St} (h : BufOK cfg env s) (c : Completion) :
    NavOK cfg env s (applyCompletion cfg s c) := by
  unfold applyCompletion
  have hr := cancelFirst_nav (cfg := cfg) h
  generalize cancelFirst cfg s = r at hr
  simp only [hr.noexc]
  refine ⟨rfl, ?_, ?_⟩
  · exact insertText_buf (deleteBefore_buf (drop_cs_buf hr.buf) _) _
  · exact hr.frame.trans ((drop_cs_frame _).trans ((deleteBefore_frame _ _).trans (insertText_frame _ _)))

theorem startCompletion_frame (s : St) (m : Mode) : Frame s (startCompletion s m) :=
  ⟨PendExt.snoc _ _ rfl, rfl, rfl, rfl, rfl, CsStep.refl _⟩

theorem startCompletion_buf {s : St} (h : BufOK cfg env s) (m : Mode) : BufOK cfg env (startCompletion s m) :=
  h.of_edit _ h.cur_le (Or.inr ⟨rfl, rfl, rfl⟩) (Or.inl ⟨rfl, rfl, rfl, rfl⟩) (Nat.le_refl _)

theorem tab_nav {s : St} (h : BufOK cfg env s) : NavOK cfg env s (tab cfg s) := by
  unfold tab
  split
  · exact completeNext_nav h 1 false
  · exact ⟨rfl, startCompletion_buf h _, startCompletion_frame _ _⟩

theorem validateSync_frame (s : St) : Frame s (validateSync cfg env s) := by
  unfold validateSync
  split
  · exact Frame.refl s
  · split
    · split <;> exact ⟨PendExt.refl _, rfl, rfl, rfl, rfl, CsStep.refl _⟩
    · exact ⟨PendExt.refl _, rfl, rfl, rfl, rfl, CsStep.refl _⟩

theorem validateSync_buf {s : St} (h : BufOK cfg env s) : BufOK cfg env (validateSync cfg env s) := by
  unfold validateSync
  split
  · exact h
  · split
    · rename_i hv
      split
      · rename_i msg hm
        refine ⟨h.cur_le, ?_, (by intro x; cases x), ?_, h.sugg_fresh⟩
        · intro st hst
          have := h.cs_ok st hst
          exact ⟨this.text_eq, this.tok_lt, this.prov, this.orig_wf⟩
        · intro _; exact ⟨s.cur, msg, h.cur_le, hm, rfl⟩
      · rename_i hm
        refine ⟨h.cur_le, ?_, ?_, (by intro x; cases x), h.sugg_fresh⟩
        · intro st hst
          have := h.cs_ok st hst
          exact ⟨this.text_eq, this.tok_lt, this.prov, this.orig_wf⟩
        · intro _; exact ⟨rfl, Or.inr ⟨s.cur, h.cur_le, hm⟩⟩
    · rename_i hv
      refine ⟨h.cur_le, ?_, ?_, (by intro x; cases x), h.sugg_fresh⟩
      · intro st hst
        have := h.cs_ok st hst
        exact ⟨this.text_eq, this.tok_lt, this.prov, this.orig_wf⟩
      · intro _; exact ⟨rfl, Or.inl (by simpa using hv)⟩

theorem reset_frame (s : St) (t : Text) (c : Nat) : Frame s (reset s t c) :=
  ⟨PendExt.refl _, rfl, rfl, rfl, rfl, CsStep.of_none rfl⟩

theorem reset_buf {s : St} (h : BufOK cfg env s) (t : Text) (c : Nat) (hc : c ≤ t.length) :
    BufOK cfg env (reset s t c) :=
  h.of_edit _ hc (Or.inl rfl) (Or.inr ⟨rfl, rfl⟩) (Nat.le_refl _)

end prim
end Ptk.C15
