/-
  C20 (second part) — theorems about the `in_terminal` chain model (`Ptk.Model.C20Chain`):
  for any number of sections (sync like the ones `StdoutProxy` schedules, or open across awaits),
  any interleaving of their segments with application stop / restart:
    * at most one section owns the terminal (`chain_mutex`), in registration order (`chain_fifo`);
    * the terminal events are accepted by the observer automaton `aStep` (`sections_do_not_overlap`):
      the prompt is never drawn, erased or finished inside a section, every section of a running
      application starts right after an erase and while no other section is open.
-/
import Ptk.Props.C20ChainLemmas
namespace Ptk.C20Chain
open Ptk.Py

/-- what an observer of the terminal has to remember to judge the next event -/
structure AS where
  /-- a prompt is on the screen -/
  visible : Bool := false
  /-- the section that currently owns the terminal -/
  cur : Option Nat := none
  /-- the last thing that happened was an erase of the prompt -/
  erased : Bool := false
deriving Repr, DecidableEq

/-- the orders of events allowed by the property: the prompt is drawn / erased only while no section
    owns the terminal; a section of a running application starts right after an erase, while no other
    section owns the terminal; sections that start while no application runs are not restricted -/
def aStep (a : AS) : Ev → Option AS
  | .draw => if a.cur = none then some { visible := true, cur := none, erased := false } else none
  | .erase => if a.cur = none then some { visible := false, cur := none, erased := true } else none
  | .doneDraw => if a.cur = none then some { visible := false, cur := none, erased := false } else none
  | .bodyBegin k true =>
    if a.cur = none ∧ a.visible = false ∧ a.erased = true then some { a with cur := some k, erased := false }
    else none
  | .bodyEnd k true => if a.cur = some k then some { a with cur := none, erased := false } else none
  | .bodyBegin _ false => some { a with erased := false }
  | .bodyEnd _ false => some { a with erased := false }

def aRun : AS → List Ev → Option AS
  | a, [] => some a
  | a, e :: es => match aStep a e with
    | some a' => aRun a' es
    | none => none

theorem aRun_append (a : AS) (l1 l2 : List Ev) :
    aRun a (l1 ++ l2) = (aRun a l1).bind fun b => aRun b l2 := by
  induction l1 generalizing a with
  | nil => rfl
  | cons e es ih =>
    simp only [List.cons_append, aRun]
    cases aStep a e with
    | none => rfl
    | some b => exact ih b

/-- the observer's state agrees with the application: the prompt is visible iff the application runs
    and no section owns the terminal -/
def agrees (a : AS) (s : St) : Prop :=
  a.visible = (s.appOn && !s.rit) ∧ a.cur = bodyId s.chain

structure Inv (s : St) : Prop where
  nodup : (ids s.chain).Nodup
  lt : ∀ k ∈ ids s.chain, k < s.next
  shape : shape s.chain = true
  rit : s.rit = (bodyId s.chain).isSome
  acc : ∃ a, aRun {} s.log = some a ∧ agrees a s

theorem inv_init : Inv {} := by
  refine ⟨by simp [ids], by simp [ids], rfl, rfl, {}, rfl, ?_⟩
  simp [agrees, bodyId]

/-- `beginBody` for a section that may take the terminal -/
theorem beginBody_acc (s : St) (x : Sec) (a : AS) (ha : aRun {} s.log = some a)
    (hc : a.cur = none) :
    ∃ a', aRun {} (beginBody s x).1.log = some a' ∧
      a'.visible = ((beginBody s x).1.appOn && !(beginBody s x).1.rit) ∧
      a'.cur = (if (beginBody s x).2 = .body then some x.id else none) ∧
      (beginBody s x).1.rit = ((beginBody s x).2 == .body) ∧
      ((beginBody s x).2 = .body ∨ (beginBody s x).2 = .done) ∧
      (beginBody s x).1.chain = s.chain ∧ (beginBody s x).1.appOn = s.appOn ∧
      (beginBody s x).1.next = s.next ∧ (beginBody s x).1.bypass = s.bypass := by
  unfold beginBody
  by_cases hs : x.sync = true
  · rw [if_pos hs]
    by_cases hon : s.appOn = true
    · refine ⟨{ visible := true, cur := none, erased := false }, ?_, by simp [hon], by simp, by simp, by simp, rfl, rfl, rfl, rfl⟩
      simp [aRun_append, ha, aRun, aStep, hc, exitEvents, hon]
    · have hoff : s.appOn = false := by simpa using hon
      refine ⟨{ visible := false, cur := none, erased := false }, ?_, by simp [hoff], by simp, by simp, by simp, rfl, rfl, rfl, rfl⟩
      simp [aRun_append, ha, aRun, aStep, hc, exitEvents, hoff]
  · rw [if_neg hs]
    refine ⟨{ visible := false, cur := some x.id, erased := false }, ?_, by simp, by simp, by simp, by simp, rfl, rfl, rfl, rfl⟩
    simp [aRun_append, ha, aRun, aStep, hc]

theorem aRun_snoc_bypass (a : AS) (l : List Ev) (b : AS) (h : aRun a l = some b) (es : List Ev)
    (hes : ∀ e ∈ es, (∃ k, e = .bodyBegin k false) ∨ (∃ k, e = .bodyEnd k false)) :
    ∃ b', aRun a (l ++ es) = some b' ∧ b'.visible = b.visible ∧ b'.cur = b.cur := by
  induction es generalizing l b with
  | nil => exact ⟨b, by simpa using h, rfl, rfl⟩
  | cons e es ih =>
    have he := hes e (by simp)
    have : aRun a (l ++ [e]) = some { b with erased := false } := by
      rw [aRun_append, h]
      rcases he with ⟨k, rfl⟩ | ⟨k, rfl⟩ <;> simp [aRun, aStep]
    obtain ⟨b', h1, h2, h3⟩ := ih (l ++ [e]) _ this (fun e' he' => hes e' (by simp [he']))
    exact ⟨b', by simpa using h1, h2, h3⟩

theorem inv_step (s : St) (o : Op) (h : Inv s) : Inv (step s o) := by
  obtain ⟨hnd, hlt, hsh, hrit, a, harun, hvis, hcur⟩ := h
  cases o with
  | enter sync =>
    simp only [step]
    by_cases hon : s.appOn = true
    · rw [if_neg (by simp [hon])]
      by_cases hld : lastDone s.chain = true
      · rw [if_pos hld]
        have hall := shape_lastDone_allDone hsh hld
        have hbid := allDone_bodyId hall
        have hc : a.cur = none := by rw [hcur, hbid]
        obtain ⟨a', h1, h2, h3, h4, h5, h6, h7, h8, h9⟩ :=
          beginBody_acc s { id := s.next, sync := sync, st := .waiting } a harun hc
        generalize hb : beginBody s { id := s.next, sync := sync, st := .waiting } = p at *
        obtain ⟨s', st⟩ := p
        simp only at h1 h2 h3 h4 h5 h6 h7 h8 h9 ⊢
        have hnew := allDone_append_shape hall { id := s.next, sync := sync, st := st }
        have hnot : s.next ∉ ids s.chain := fun hm => Nat.lt_irrefl _ (hlt _ hm)
        refine ⟨?_, ?_, hnew.1, ?_, a', h1, ?_, ?_⟩
        · simp only [ids, List.map_append, List.map_cons, List.map_nil] at hnot ⊢
          exact List.nodup_append.mpr ⟨hnd, by simp, by intro x hx y hy; simp at hy; subst hy; exact fun e => hnot (e ▸ hx)⟩
        · intro k hk
          simp only [ids, List.map_append, List.map_cons, List.map_nil, List.mem_append, List.mem_singleton] at hk
          rcases hk with hk | rfl
          · exact Nat.lt_succ_of_lt (hlt k hk)
          · exact Nat.lt_succ_self _
        · rw [hnew.2]; simp only; rw [h4]
          rcases h5 with rfl | rfl <;> simp
        · simpa using h2
        · rw [hnew.2]; simpa using h3
      · rw [if_neg hld]
        have hnew := shape_append_waiting hsh { id := s.next, sync := sync, st := .waiting } rfl
        have hnot : s.next ∉ ids s.chain := fun hm => Nat.lt_irrefl _ (hlt _ hm)
        refine ⟨?_, ?_, hnew.1, by rw [hnew.2]; exact hrit, a, harun, hvis, by rw [hnew.2]; exact hcur⟩
        · simp only [ids, List.map_append, List.map_cons, List.map_nil] at hnot ⊢
          exact List.nodup_append.mpr ⟨hnd, by simp, by intro x hx y hy; simp at hy; subst hy; exact fun e => hnot (e ▸ hx)⟩
        · intro k hk
          simp only [ids, List.map_append, List.map_cons, List.map_nil, List.mem_append, List.mem_singleton] at hk
          rcases hk with hk | rfl
          · exact Nat.lt_succ_of_lt (hlt k hk)
          · exact Nat.lt_succ_self _
    · rw [if_pos (by simpa using hon)]
      by_cases hs : sync = true
      · rw [if_pos hs]
        obtain ⟨b', h1, h2, h3⟩ := aRun_snoc_bypass {} s.log a harun [.bodyBegin s.next false, .bodyEnd s.next false]
          (by intro e he; simp at he; rcases he with rfl | rfl <;> simp)
        exact ⟨hnd, fun k hk => Nat.lt_succ_of_lt (hlt k hk), hsh, hrit, b', h1, by rw [h2]; exact hvis, by rw [h3]; exact hcur⟩
      · rw [if_neg hs]
        obtain ⟨b', h1, h2, h3⟩ := aRun_snoc_bypass {} s.log a harun [.bodyBegin s.next false]
          (by intro e he; simp at he; subst he; simp)
        exact ⟨hnd, fun k hk => Nat.lt_succ_of_lt (hlt k hk), hsh, hrit, b', h1, by rw [h2]; exact hvis, by rw [h3]; exact hcur⟩
  | resume k =>
    simp only [step]
    by_cases hr : canResume s.chain k = true
    · rw [if_pos hr]
      obtain ⟨-, hbid, -, x, hfx, hxid⟩ := resume_shape hsh hnd hr .body (Or.inl rfl)
      rw [hfx]; simp only
      have hc : a.cur = none := by rw [hcur, hbid]
      obtain ⟨a', h1, h2, h3, h4, h5, h6, h7, h8, h9⟩ := beginBody_acc s x a harun hc
      generalize hb : beginBody s x = p at *
      obtain ⟨s', st⟩ := p
      simp only at h1 h2 h3 h4 h5 h6 h7 h8 h9 ⊢
      obtain ⟨hsh', -, hbid', -⟩ := resume_shape hsh hnd hr st h5
      refine ⟨by rw [ids_setStatus]; exact hnd, by rw [ids_setStatus, h8]; exact hlt, hsh', ?_, a', h1, ?_, ?_⟩
      · rw [hbid']; simp only; rw [h4]; rcases h5 with rfl | rfl <;> simp
      · simpa using h2
      · rw [hbid', ← hxid]; simpa using h3
    · rw [if_neg hr]; exact ⟨hnd, hlt, hsh, hrit, a, harun, hvis, hcur⟩
  | leave k =>
    simp only [step]
    by_cases hbp : s.bypass.contains k = true
    · rw [if_pos hbp]
      obtain ⟨b', h1, h2, h3⟩ := aRun_snoc_bypass {} s.log a harun [.bodyEnd k false]
        (by intro e he; simp at he; subst he; simp)
      exact ⟨hnd, hlt, hsh, hrit, b', h1, by rw [h2]; exact hvis, by rw [h3]; exact hcur⟩
    · rw [if_neg hbp]
      cases hf : find? s.chain k with
      | none => exact ⟨hnd, hlt, hsh, hrit, a, harun, hvis, hcur⟩
      | some x =>
        simp only
        by_cases hxb : (x.st == Status.body) = true
        · rw [if_pos hxb]
          have hxb' : x.st = .body := by simpa using hxb
          obtain ⟨hsh', hbid, hbid'⟩ := leave_shape hsh hnd hf hxb'
          have hc : a.cur = some k := by rw [hcur, hbid]
          by_cases hon : s.appOn = true
          · refine ⟨by rw [ids_setStatus]; exact hnd, by rw [ids_setStatus]; exact hlt, hsh', by rw [hbid']; rfl,
              { visible := true, cur := none, erased := false }, ?_, ?_, ?_⟩
            · simp [aRun_append, harun, aRun, aStep, hc, exitEvents, hon]
            · simp [hon]
            · rw [hbid']
          · have hoff : s.appOn = false := by simpa using hon
            refine ⟨by rw [ids_setStatus]; exact hnd, by rw [ids_setStatus]; exact hlt, hsh', by rw [hbid']; rfl,
              { a with cur := none, erased := false }, ?_, ?_, ?_⟩
            · simp [aRun_append, harun, aRun, aStep, hc, exitEvents, hoff]
            · simp [hoff, hvis]
            · rw [hbid']
        · rw [if_neg hxb]; exact ⟨hnd, hlt, hsh, hrit, a, harun, hvis, hcur⟩
  | stop =>
    simp only [step]
    by_cases hon : s.appOn = true
    · rw [if_pos hon]
      by_cases hr : s.rit = true
      · refine ⟨hnd, hlt, hsh, hrit, a, by simpa [hr] using harun, ?_, hcur⟩
        simp [hvis, hon, hr]
      · have hr' : s.rit = false := by simpa using hr
        have hb : bodyId s.chain = none := by
          rw [hr'] at hrit; cases hbo : bodyId s.chain <;> simp [hbo] at hrit; rfl
        have hc : a.cur = none := by rw [hcur, hb]
        refine ⟨hnd, hlt, hsh, hrit, { visible := false, cur := none, erased := false }, ?_, by simp, by simp [hb]⟩
        simp [hr', aRun_append, harun, aRun, aStep, hc]
    · rw [if_neg hon]; exact ⟨hnd, hlt, hsh, hrit, a, harun, hvis, hcur⟩
  | start =>
    simp only [step]
    by_cases hc : ¬ s.appOn = true ∧ allDone s.chain = true
    · rw [if_pos hc]
      have hb := allDone_bodyId hc.2
      have hr : s.rit = false := by rw [hrit, hb]; rfl
      have hcn : a.cur = none := by rw [hcur, hb]
      refine ⟨hnd, hlt, hsh, hrit, { visible := true, cur := none, erased := false }, ?_, by simp [hr], by simp [hb]⟩
      simp [aRun_append, harun, aRun, aStep, hcn]
    · rw [if_neg hc]; exact ⟨hnd, hlt, hsh, hrit, a, harun, hvis, hcur⟩
  | inval =>
    simp only [step]
    by_cases hc : s.appOn = true ∧ ¬ s.rit = true
    · rw [if_pos hc]
      have hr : s.rit = false := by simpa using hc.2
      have hb : bodyId s.chain = none := by
        rw [hr] at hrit; cases hbo : bodyId s.chain <;> simp [hbo] at hrit; rfl
      have hcn : a.cur = none := by rw [hcur, hb]
      refine ⟨hnd, hlt, hsh, hrit, { visible := true, cur := none, erased := false }, ?_, by simp [hr, hc.1], by simp [hb]⟩
      simp [aRun_append, harun, aRun, aStep, hcn]
    · rw [if_neg hc]; exact ⟨hnd, hlt, hsh, hrit, a, harun, hvis, hcur⟩
  | exitReq =>
    simp only [step]
    split <;> exact ⟨hnd, hlt, hsh, hrit, a, harun, hvis, hcur⟩

/-! ### main theorems -/

theorem inv_run (s : St) (ops : List Op) (h : Inv s) : Inv (runOps s ops) := by
  induction ops generalizing s with
  | nil => exact h
  | cons o os ih => exact ih (step s o) (inv_step s o h)

theorem shape_filter_body {c : List Sec} (h : shape c = true) :
    (c.filter fun x => x.st == .body).length ≤ 1 := by
  induction c with
  | nil => simp
  | cons x xs ih =>
    have hw : ∀ l : List Sec, l.all isWaiting = true → (l.filter fun x => x.st == .body) = [] := by
      intro l hl
      rw [List.filter_eq_nil_iff]
      intro y hy
      simp [mem_allWaiting hl hy]
    cases hx : x.st with
    | done => simp only [shape, hx] at h; simpa [List.filter_cons, hx] using ih h
    | waiting => simp only [shape, hx] at h; simp [List.filter_cons, hx, hw xs h]
    | body => simp only [shape, hx] at h; simp [List.filter_cons, hx, hw xs h]

/-- **chain_mutex.**  Whatever the interleaving, at most one section is between its `erase` and the end
    of its body: the sections of one application never own the terminal at the same time. -/
theorem chain_mutex (ops : List Op) :
    ((runOps {} ops).chain.filter fun x => x.st == .body).length ≤ 1 :=
  shape_filter_body (inv_run {} ops inv_init).shape

theorem shape_prefix_done {c pre post : List Sec} {x : Sec} (h : shape c = true)
    (hc : c = pre ++ x :: post) (hx : x.st ≠ .waiting) : pre.all isDone = true := by
  induction pre generalizing c with
  | nil => rfl
  | cons y ys ih =>
    subst hc
    cases hy : y.st with
    | done =>
      simp only [List.cons_append, shape, hy] at h
      simp [isDone, hy, ih h rfl]
    | waiting =>
      simp only [List.cons_append, shape, hy] at h
      exact absurd (mem_allWaiting h (by simp)) hx
    | body =>
      simp only [List.cons_append, shape, hy] at h
      exact absurd (mem_allWaiting h (by simp)) hx

/-- **chain_fifo.**  The sections get the terminal in the order in which they registered in
    `_running_in_terminal_f`: when a section has started (or finished) its body, every section
    registered before it is done. -/
theorem chain_fifo (ops : List Op) (pre post : List Sec) (x : Sec)
    (hc : (runOps {} ops).chain = pre ++ x :: post) (hx : x.st ≠ .waiting) :
    pre.all isDone = true :=
  shape_prefix_done (inv_run {} ops inv_init).shape hc hx

/-- **sections_do_not_overlap.**  The terminal events of every run are accepted by the observer
    automaton, and the observer ends in the state that agrees with the application: the prompt is
    visible iff the application runs and no section owns the terminal; the open section is the one
    the chain says. -/
theorem sections_do_not_overlap (ops : List Op) :
    ∃ a, aRun {} (runOps {} ops).log = some a ∧
      a.visible = ((runOps {} ops).appOn && !(runOps {} ops).rit) ∧
      a.cur = bodyId (runOps {} ops).chain := by
  obtain ⟨a, h1, h2, h3⟩ := (inv_run {} ops inv_init).acc
  exact ⟨a, h1, h2, h3⟩

theorem aRun_split {a b : AS} {pre post : List Ev} {e : Ev} (h : aRun a (pre ++ e :: post) = some b) :
    ∃ a1 a2, aRun a pre = some a1 ∧ aStep a1 e = some a2 ∧ aRun a2 post = some b := by
  rw [aRun_append] at h
  cases h1 : aRun a pre with
  | none => simp [h1] at h
  | some a1 =>
    simp only [h1, Option.bind_some, aRun] at h
    cases h2 : aStep a1 e with
    | none => simp [h2] at h
    | some a2 => exact ⟨a1, a2, rfl, h2, by simpa [h2] using h⟩

/-- **prompt_untouched_in_section.**  The prompt is drawn, erased or finished only while no section owns
    the terminal. -/
theorem prompt_untouched_in_section (ops : List Op) (pre post : List Ev) (e : Ev)
    (he : e = .draw ∨ e = .erase ∨ e = .doneDraw)
    (hl : (runOps {} ops).log = pre ++ e :: post) :
    ∃ a, aRun {} pre = some a ∧ a.cur = none := by
  obtain ⟨b, hb, -, -⟩ := sections_do_not_overlap ops
  rw [hl] at hb
  obtain ⟨a1, a2, h1, h2, -⟩ := aRun_split hb
  refine ⟨a1, h1, ?_⟩
  rcases he with rfl | rfl | rfl <;>
    (simp only [aStep] at h2; split at h2 <;> first | assumption | cases h2)

theorem aRun_erased {a0 a : AS} {l : List Ev} (h : aRun a0 l = some a) (he : a.erased = true) :
    (l = [] ∧ a0.erased = true) ∨ ∃ l', l = l' ++ [.erase] := by
  rcases List.eq_nil_or_concat l with rfl | ⟨l', e, rfl⟩
  · simp only [aRun, Option.some.injEq] at h; subst h; exact Or.inl ⟨rfl, he⟩
  · right
    rw [List.concat_eq_append] at h ⊢
    rw [aRun_append] at h
    cases h1 : aRun a0 l' with
    | none => simp [h1] at h
    | some a1 =>
      simp only [h1, Option.bind_some, aRun] at h
      cases h2 : aStep a1 e with
      | none => simp [h2] at h
      | some a2 =>
        simp only [h2, Option.some.injEq] at h
        subst h
        cases e with
        | erase => exact ⟨l', rfl⟩
        | draw => simp only [aStep] at h2; split at h2 <;> simp at h2; subst h2; simp at he
        | doneDraw => simp only [aStep] at h2; split at h2 <;> simp at h2; subst h2; simp at he
        | bodyBegin k c =>
          cases c <;> simp only [aStep] at h2
          · simp at h2; subst h2; simp at he
          · split at h2 <;> simp at h2; subst h2; simp at he
        | bodyEnd k c =>
          cases c <;> simp only [aStep] at h2
          · simp at h2; subst h2; simp at he
          · split at h2 <;> simp at h2; subst h2; simp at he

/-- **section_starts_after_erase.**  Every section that went through the chain starts immediately after
    an erase of the prompt, with no other section open and no prompt on the screen. -/
theorem section_starts_after_erase (ops : List Op) (pre post : List Ev) (k : Nat)
    (hl : (runOps {} ops).log = pre ++ .bodyBegin k true :: post) :
    (∃ pre', pre = pre' ++ [.erase]) ∧ ∃ a, aRun {} pre = some a ∧ a.cur = none ∧ a.visible = false := by
  obtain ⟨b, hb, -, -⟩ := sections_do_not_overlap ops
  rw [hl] at hb
  obtain ⟨a1, a2, h1, h2, -⟩ := aRun_split hb
  simp only [aStep] at h2
  split at h2
  · rename_i hc
    refine ⟨?_, a1, h1, hc.1, hc.2.1⟩
    rcases aRun_erased h1 hc.2.2 with ⟨-, h0⟩ | h
    · simp at h0
    · exact h
  · cases h2

/-- what the event loop does by itself (`cascade`, used by the driver after every step) is a schedule of
    `resume` steps, so every theorem above covers the driver's macro steps as well -/
theorem cascade_is_schedule (n : Nat) (s : St) :
    ∃ ops, cascade n s = runOps s ops ∧ ∀ o ∈ ops, ∃ k, o = .resume k := by
  induction n generalizing s with
  | zero => exact ⟨[], rfl, by simp⟩
  | succ n ih =>
    simp only [cascade]
    cases nextWaiting s.chain with
    | none => exact ⟨[], rfl, by simp⟩
    | some k =>
      obtain ⟨ops, h1, h2⟩ := ih (step s (.resume k))
      refine ⟨.resume k :: ops, by simpa [runOps] using h1, ?_⟩
      intro o ho
      rcases List.mem_cons.mp ho with rfl | ho
      · exact ⟨k, rfl⟩
      · exact h2 o ho

-- non-vacuity: an open section, two sync sections queued behind it, application stop in between
example :
    let ops : List Op := [.start, .enter false, .enter true, .enter true, .leave 0, .resume 1, .stop, .resume 2]
    (runOps {} ops).log =
      [.draw, .erase, .bodyBegin 0 true, .bodyEnd 0 true, .draw, .erase, .bodyBegin 1 true, .bodyEnd 1 true, .draw,
       .doneDraw, .erase, .bodyBegin 2 true, .bodyEnd 2 true] ∧
    (runOps {} ops).chain.map (·.st) = [.done, .done, .done] := by decide

example : (runOps {} [.start, .enter false, .enter false, .enter true]).chain.map (·.st) = [.body, .waiting, .waiting] ∧
    (runOps {} [.start, .enter false, .enter false, .enter true]).rit = true := by decide

-- the exit-requested phase: a section that enters after `Application.exit()` but before `run_async`
-- resumed still goes through the chain (erase, body, redraw); the final rendering follows
example :
    (runOps {} [.start, .exitReq, .enter true, .stop]).log =
      [.draw, .erase, .bodyBegin 0 true, .bodyEnd 0 true, .draw, .doneDraw] := by decide

end Ptk.C20Chain
