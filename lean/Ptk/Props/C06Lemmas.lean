/-
  C06 — lemmas: what each piece of the screen differ does to the terminal model
  (`move_cursor`, `output_char`, the column loop, one row, the row loop), for width-1 cells.
-/
import Ptk.Model.C06
namespace Ptk.C06
open Ptk.Py

variable (cw : Char → Nat)

@[simp] theorem exec_nil (t : Term) : exec cw t [] = t := rfl
@[simp] theorem exec_cons (t : Term) (c : Cmd) (cs : List Cmd) :
    exec cw t (c :: cs) = exec cw (execCmd cw t c) cs := rfl
theorem exec_append (t : Term) (a b : List Cmd) :
    exec cw t (a ++ b) = exec cw (exec cw t a) b := by
  simp [exec, List.foldl_append]

/-- the differ's belief about the cursor agrees with the terminal (autowrap off: a write on the last
    column leaves the cursor there, the believed column is one further) -/
structure Geo (e : Env) (T : Term) (pos : Point) : Prop where
  w : T.w = e.w
  wpos : 0 < e.w
  row : T.row = pos.y
  col : T.col = min pos.x (e.w - 1)
  rowlt : T.row < T.h
  aw : T.autowrap = false

/-- `last_style` agrees with the terminal's SGR state (`None`: attributes were reset) -/
def SgrOk (e : Env) (T : Term) : Option Nat → Prop
  | some s => T.sgr = e.attrsOf s
  | none => T.sgr = Attrs.dflt

structure Good (e : Env) (T : Term) (pos : Point) (last : Option Nat) : Prop where
  geo : Geo e T pos
  sgr : SgrOk e T last

/-- what cursor motion and printing leave alone -/
structure Frame (T T' : Term) : Prop where
  h : T'.h = T.h
  top : T'.top = T.top
  scrolled : T'.scrolled = T.scrolled
  oob : T'.oob = T.oob
  visible : T'.visible = T.visible

theorem Frame.refl (T : Term) : Frame T T := ⟨rfl, rfl, rfl, rfl, rfl⟩
theorem Frame.trans {A B C : Term} (h1 : Frame A B) (h2 : Frame B C) : Frame A C :=
  ⟨h2.h.trans h1.h, h2.top.trans h1.top, h2.scrolled.trans h1.scrolled, h2.oob.trans h1.oob,
   h2.visible.trans h1.visible⟩

theorem putChar_cr (t : Term) : Term.putChar cw t '\r' = { t with col := 0 } := by
  simp [Term.putChar]

theorem putChar_lf (t : Term) : Term.putChar cw t '\n' = t.lineFeed := by
  simp [Term.putChar]

theorem repeat_crlf_succ (k : Nat) : repeatText crlf (k + 1) = '\r' :: '\n' :: repeatText crlf k := rfl

/-- `write("\r\n" * n)` while `n` more rows are available below the cursor -/
theorem write_crlf (n : Nat) : ∀ (t : Term), t.row + n < t.h →
    execCmd cw t (.write (repeatText crlf n)) =
      (if n = 0 then t else { t with row := t.row + n, col := 0 }) := by
  induction n with
  | zero => intro t _; simp [execCmd, repeatText]
  | succ k ih =>
    intro t h
    have h1 : t.row + 1 < t.h := by omega
    have := ih ({ t with col := 0, row := t.row + 1 }) (by simp; omega)
    simp only [execCmd] at this ⊢
    rw [repeat_crlf_succ, List.foldl_cons, List.foldl_cons, putChar_cr, putChar_lf]
    simp only [Term.lineFeed, h1, if_true]
    rw [this]
    by_cases hk : k = 0
    · simp [hk]
    · simp [hk]; omega

theorem moveCursor_geo (e : Env) (T : Term) (pos : Point) (last : Option Nat) (new : Point)
    (g : Geo e T pos) (hy : new.y < T.h) :
    Geo e (exec cw T (moveCursor e.w pos last new).1) new ∧
    Frame T (exec cw T (moveCursor e.w pos last new).1) ∧
    (exec cw T (moveCursor e.w pos last new).1).cells = T.cells ∧
    (exec cw T (moveCursor e.w pos last new).1).log = T.log ∧
    (if pos.y < new.y then (exec cw T (moveCursor e.w pos last new).1).sgr = Attrs.dflt ∧
        (moveCursor e.w pos last new).2 = none
     else (exec cw T (moveCursor e.w pos last new).1).sgr = T.sgr ∧ (moveCursor e.w pos last new).2 = last) := by
  obtain ⟨gw, gwp, grow, gcol, growlt, gaw⟩ := g
  unfold moveCursor
  by_cases h1 : pos.y < new.y
  · have hfit : T.row + (new.y - pos.y) < T.h := by omega
    have hne : new.y - pos.y ≠ 0 := by omega
    simp only [h1, if_true, exec_cons, exec_nil]
    have hw := write_crlf cw (new.y - pos.y) (execCmd cw T .resetAttrs) (by simpa [execCmd] using hfit)
    rw [hw]
    simp only [hne, if_false, execCmd]
    refine ⟨⟨gw, gwp, ?_, ?_, ?_, gaw⟩, ?_, ?_, ?_, ?_⟩
    · simp; omega
    · simp [gw]
    · simp; omega
    · constructor <;> simp
    · simp
    · simp
    · simp
  · simp only [h1, if_false]
    rw [exec_append]
    have hup : ∀ T0 : Term, T0 = exec cw T (if new.y < pos.y then [Cmd.cursorUp (pos.y - new.y)] else []) →
        T0.row = new.y ∧ T0.col = T.col ∧ T0.w = T.w ∧ T0.h = T.h ∧ T0.top = T.top ∧ T0.scrolled = T.scrolled ∧
        T0.oob = T.oob ∧ T0.visible = T.visible ∧ T0.cells = T.cells ∧ T0.log = T.log ∧ T0.autowrap = T.autowrap ∧
        T0.sgr = T.sgr := by
      intro T0 h0
      by_cases h2 : new.y < pos.y
      · simp only [h2, if_true, exec_cons, exec_nil, execCmd] at h0
        subst h0
        refine ⟨by simp; omega, rfl, rfl, rfl, rfl, rfl, ?_, rfl, rfl, rfl, rfl, rfl⟩
        simp; intro h; omega
      · simp only [h2, if_false, exec_nil] at h0
        subst h0
        exact ⟨by omega, rfl, rfl, rfl, rfl, rfl, rfl, rfl, rfl, rfl, rfl, rfl⟩
    obtain ⟨u1, u2, u3, u4, u5, u6, u7, u8, u9, u10, u11, u12⟩ := hup _ rfl
    generalize exec cw T (if new.y < pos.y then [Cmd.cursorUp (pos.y - new.y)] else []) = T0 at *
    by_cases h3 : e.w ≤ pos.x + 1
    · simp only [h3, if_true, exec_cons, exec_nil, execCmd, List.foldl_cons, List.foldl_nil, putChar_cr]
      refine ⟨⟨by simp [u3, gw], gwp, by simp [u1], ?_, by simp; omega, by simp [u11, gaw]⟩,
        ⟨by simp [u4], by simp [u5], by simp [u6], by simp [u7], by simp [u8]⟩, by simp [u9], by simp [u10],
        by simp [u12]⟩
      · simp [u3, gw]
    · have hcol : T0.col = pos.x := by rw [u2, gcol]; omega
      simp only [h3, if_false]
      by_cases h4 : new.x < pos.x
      · simp only [h4, if_true, exec_cons, exec_nil, execCmd]
        refine ⟨⟨by simp [u3, gw], gwp, by simp [u1], ?_, by simp; omega, by simp [u11, gaw]⟩,
          ⟨by simp [u4], by simp [u5], by simp [u6], ?_, by simp [u8]⟩, by simp [u9], by simp [u10],
          by simp [u12]⟩
        · simp [hcol]; omega
        · simp [u7, hcol]; intro h; omega
      · simp only [h4, if_false]
        by_cases h5 : pos.x < new.x
        · simp only [h5, if_true, exec_cons, exec_nil, execCmd]
          refine ⟨⟨by simp [u3, gw], gwp, by simp [u1], ?_, by simp; omega, by simp [u11, gaw]⟩,
            ⟨by simp [u4], by simp [u5], by simp [u6], by simp [u7], by simp [u8]⟩, by simp [u9], by simp [u10],
            by simp [u12]⟩
          · simp [hcol, u3, gw]; omega
        · simp only [h5, if_false, exec_nil]
          refine ⟨⟨by simp [u3, gw], gwp, u1, ?_, by omega, by simp [u11, gaw]⟩,
            ⟨u4, u5, u6, u7, u8⟩, u9, u10, by simp [u12]⟩
          · rw [hcol]; omega


theorem moveCursor_spec (e : Env) (T : Term) (pos : Point) (last : Option Nat) (new : Point)
    (g : Good e T pos last) (hy : new.y < T.h) :
    Good e (exec cw T (moveCursor e.w pos last new).1) new (moveCursor e.w pos last new).2 ∧
    Frame T (exec cw T (moveCursor e.w pos last new).1) ∧
    (exec cw T (moveCursor e.w pos last new).1).cells = T.cells ∧
    (exec cw T (moveCursor e.w pos last new).1).log = T.log := by
  obtain ⟨a1, a2, a3, a4, a5⟩ := moveCursor_geo cw e T pos last new g.geo hy
  refine ⟨⟨a1, ?_⟩, a2, a3, a4⟩
  by_cases h : pos.y < new.y
  · simp only [h, if_true] at a5
    rw [a5.2]; exact a5.1
  · simp only [h, if_false] at a5
    rw [a5.2]
    have := g.sgr
    cases last <;> simp only [SgrOk] at this ⊢ <;> rw [a5.1] <;> exact this

/-- a printable character of width 1 -/
def Plain (c : Char) : Prop := 32 ≤ c.toNat ∧ c.toNat ≠ 127 ∧ cw c = 1

/-- a cell holding exactly one printable width-1 character -/
def NarrowCell (c : Cell) : Prop := (∃ k, c.txt = [k] ∧ Plain cw k) ∧ c.width = 1

/-- no cell of the terminal is the continuation of a wide character -/
def NoCont (T : Term) : Prop := ∀ y x, (T.cells y x).ch ≠ []

theorem putGlyph_one (t : Term) (c : Char) (hcol : t.col < t.w) (haw : t.autowrap = false)
    (hn : NoCont t) :
    t.putGlyph c 1 =
      { t with cells := fun y' x' => if y' = t.row ∧ x' = t.col then ⟨[c], t.sgr⟩ else t.cells y' x',
               log := (t.row, t.col) :: t.log,
               col := if t.col + 1 < t.w then t.col + 1 else t.w - 1 } := by
  have h1 : ¬ (t.w < t.col + 1) := by omega
  have hl : t.fixLeft t.row t.col = t := by
    unfold Term.fixLeft; simp [hn t.row t.col]
  have hr : t.fixRight t.row (t.col + 1) = t := by
    unfold Term.fixRight; simp [hn t.row (t.col + 1)]
  unfold Term.putGlyph
  simp only [h1, if_false, hl, hr, Nat.sub_self, Term.putCont, Term.setCell, logCells, haw]
  by_cases h2 : t.col + 1 < t.w <;> simp [h2]

theorem putChar_plain (t : Term) (c : Char) (hp : Plain cw c) :
    Term.putChar cw t c = t.putGlyph c 1 := by
  obtain ⟨h32, h127, hcw⟩ := hp
  have e1 : c ≠ '\r' := by intro h; subst h; simp at h32
  have e2 : c ≠ '\n' := by intro h; subst h; simp at h32
  have e3 : c ≠ '\x08' := by intro h; subst h; simp at h32
  unfold Term.putChar
  simp [e1, e2, e3, hcw, h127]
  omega

def tcellOf (attrsOf : Nat → Attrs) (c : Cell) : TCell := ⟨c.txt, attrsOf c.style⟩

theorem write_narrow (e : Env) (T : Term) (c y : Nat) (nc : Cell)
    (g : Geo e T ⟨c, y⟩) (hc : c < e.w) (hn : NoCont T) (hnc : NarrowCell cw nc)
    (hs : T.sgr = e.attrsOf nc.style) :
    Good e (execCmd cw T (.write nc.txt)) ⟨c + 1, y⟩ (some nc.style) ∧
    Frame T (execCmd cw T (.write nc.txt)) ∧ NoCont (execCmd cw T (.write nc.txt)) ∧
    (∀ y' x', (execCmd cw T (.write nc.txt)).cells y' x' =
        if y' = y ∧ x' = c then tcellOf e.attrsOf nc else T.cells y' x') ∧
    (execCmd cw T (.write nc.txt)).log = (y, c) :: T.log := by
  obtain ⟨gw, gwp, grow, gcol, growlt, gaw⟩ := g
  obtain ⟨⟨k, hk, hp⟩, _⟩ := hnc
  have hcol : T.col = c := by rw [gcol]; simp; omega
  simp only [execCmd, hk, List.foldl_cons, List.foldl_nil, putChar_plain cw T k hp]
  rw [putGlyph_one T k (by omega) gaw hn]
  refine ⟨⟨⟨gw, gwp, grow, ?_, growlt, gaw⟩, ?_⟩, ⟨rfl, rfl, rfl, rfl, rfl⟩, ?_, ?_, ?_⟩
  · simp only [hcol, gw]; split <;> omega
  · exact hs
  · intro y' x'; simp only; split
    · simp
    · exact hn y' x'
  · intro y' x'; simp only [grow, hcol, tcellOf, hk, hs]
  · simp [grow, hcol]

theorem outputChar_spec (e : Env) (T : Term) (c y : Nat) (last : Option Nat) (nc : Cell)
    (g : Good e T ⟨c, y⟩ last) (hc : c < e.w) (hn : NoCont T) (hnc : NarrowCell cw nc) :
    Good e (exec cw T (outputChar e last nc).1) ⟨c + 1, y⟩ (outputChar e last nc).2 ∧
    Frame T (exec cw T (outputChar e last nc).1) ∧
    NoCont (exec cw T (outputChar e last nc).1) ∧
    (∀ y' x', (exec cw T (outputChar e last nc).1).cells y' x' =
        if y' = y ∧ x' = c then tcellOf e.attrsOf nc else T.cells y' x') ∧
    (exec cw T (outputChar e last nc).1).log = (y, c) :: T.log := by
  unfold outputChar
  by_cases h1 : last = some nc.style
  · simp only [h1, if_true, exec_cons, exec_nil]
    have hs : T.sgr = e.attrsOf nc.style := by have := g.sgr; rw [h1] at this; exact this
    exact write_narrow cw e T c y nc g.geo hc hn hnc hs
  · simp only [h1, if_false]
    by_cases h2 : needAttrs e.rawOf last (e.rawOf nc.style) = true
    · simp only [h2, if_true, List.cons_append, List.nil_append, exec_cons, exec_nil]
      have g' : Geo e (execCmd cw T (.setAttrs (e.rawOf nc.style) e.depth (e.attrsOf nc.style))) ⟨c, y⟩ :=
        ⟨g.geo.w, g.geo.wpos, g.geo.row, g.geo.col, g.geo.rowlt, g.geo.aw⟩
      obtain ⟨a1, a2, a3, a4, a5⟩ :=
        write_narrow cw e (execCmd cw T (.setAttrs (e.rawOf nc.style) e.depth (e.attrsOf nc.style))) c y nc g' hc hn hnc rfl
      exact ⟨a1, ⟨a2.h, a2.top, a2.scrolled, a2.oob, a2.visible⟩, a3, a4, a5⟩
    · simp only [h2]
      have hs : T.sgr = e.attrsOf nc.style := by
        cases last with
        | none => simp [needAttrs] at h2
        | some s =>
          simp [needAttrs] at h2
          have := g.sgr
          simp only [SgrOk] at this
          rw [this]; simp only [Env.attrsOf, h2.2]
      exact write_narrow cw e T c y nc g.geo hc hn hnc hs

/-- the differ's test `new_char.char != old_char.char or new_char.style != old_char.style` at column `x` -/
def differs (newRow prevRow : List Cell) (x : Nat) : Prop :=
  (cellAt newRow x).txt ≠ (cellAt prevRow x).txt ∨ (cellAt newRow x).style ≠ (cellAt prevRow x).style

instance (newRow prevRow : List Cell) (x : Nat) : Decidable (differs newRow prevRow x) := by
  unfold differs; infer_instance

theorem exec_zwe (T : Term) (zwe : List (Nat × Nat × Text)) (y x : Nat) :
    exec cw T (zweCmds zwe y x) = T := by
  unfold zweCmds; cases zweAt zwe y x <;> simp [execCmd]

theorem colLoop_spec (e : Env) (s : Screen) (y : Nat) (newRow prevRow : List Cell) (n : Nat)
    (hn : n ≤ e.w) (hnar : ∀ x, NarrowCell cw (cellAt newRow x)) :
    ∀ (fuel c : Nat) (pos : Point) (last : Option Nat) (T : Term),
      n ≤ c + fuel → Good e T pos last → NoCont T → y < T.h →
      Good e (exec cw T (colLoop e s y newRow prevRow n fuel c pos last).cmds)
        (colLoop e s y newRow prevRow n fuel c pos last).pos
        (colLoop e s y newRow prevRow n fuel c pos last).last ∧
      Frame T (exec cw T (colLoop e s y newRow prevRow n fuel c pos last).cmds) ∧
      NoCont (exec cw T (colLoop e s y newRow prevRow n fuel c pos last).cmds) ∧
      (∀ y' x', (exec cw T (colLoop e s y newRow prevRow n fuel c pos last).cmds).cells y' x' =
        if y' = y ∧ c ≤ x' ∧ x' < n ∧ differs newRow prevRow x' then tcellOf e.attrsOf (cellAt newRow x')
        else T.cells y' x') ∧
      (∀ p ∈ (exec cw T (colLoop e s y newRow prevRow n fuel c pos last).cmds).log,
        p ∈ T.log ∨ (p.1 = y ∧ p.2 < n)) := by
  intro fuel
  induction fuel with
  | zero =>
    intro c pos last T hf g hnc hy
    simp only [colLoop, exec_nil]
    refine ⟨g, Frame.refl T, hnc, ?_, fun p hp => Or.inl hp⟩
    intro y' x'
    have : ¬ (y' = y ∧ c ≤ x' ∧ x' < n ∧ differs newRow prevRow x') := by
      intro h; omega
    simp [this]
  | succ fuel ih =>
    intro c pos last T hf g hnc hy
    rw [colLoop]
    by_cases hc : c < n
    · have hw1 : (cellAt newRow c).width = 1 := (hnar c).2
      have hcw : (if (cellAt newRow c).width = 0 then 1 else (cellAt newRow c).width) = 1 := by
        simp [hw1]
      simp only [hc, if_true, hcw]
      by_cases hd : (cellAt newRow c).txt ≠ (cellAt prevRow c).txt ∨
          (cellAt newRow c).style ≠ (cellAt prevRow c).style
      · simp only [hd, if_true]
        obtain ⟨m1, m2, m3, m4⟩ := moveCursor_spec cw e T pos last ⟨c, y⟩ g hy
        generalize moveCursor e.w pos last ⟨c, y⟩ = m at *
        rw [exec_append, exec_append, exec_zwe, exec_append]
        have hnc1 : NoCont (exec cw T m.1) := by intro y' x'; rw [m3]; exact hnc y' x'
        obtain ⟨o1, o2, o3, o4, o5⟩ :=
          outputChar_spec cw e (exec cw T m.1) c y m.2 (cellAt newRow c) m1 (by omega) hnc1 (hnar c)
        generalize outputChar e m.2 (cellAt newRow c) = o at *
        have hy3 : y < (exec cw (exec cw T m.1) o.1).h := by rw [o2.h, m2.h]; exact hy
        obtain ⟨r1, r2, r3, r4, r5⟩ :=
          ih (c + 1) ⟨c + 1, y⟩ o.2 (exec cw (exec cw T m.1) o.1) (by omega) o1 o3 hy3
        refine ⟨r1, Frame.trans (Frame.trans m2 o2) r2, r3, ?_, ?_⟩
        · intro y' x'
          rw [r4, o4, m3]
          by_cases hx : y' = y ∧ x' = c
          · obtain ⟨rfl, rfl⟩ := hx
            have : differs newRow prevRow x' := hd
            simp [hc, this]
          · by_cases hyy : y' = y
            · have hxc : x' ≠ c := fun h => hx ⟨hyy, h⟩
              simp only [hyy, true_and, hxc, if_false]
              have : (c + 1 ≤ x' ∧ x' < n ∧ differs newRow prevRow x') ↔
                  (c ≤ x' ∧ x' < n ∧ differs newRow prevRow x') := by
                constructor
                · rintro ⟨a, b, d⟩; exact ⟨by omega, b, d⟩
                · rintro ⟨a, b, d⟩; exact ⟨by omega, b, d⟩
              simp only [this]
            · simp [hyy]
        · intro p hp
          rcases r5 p hp with h | h
          · rw [o5, m4] at h
            rcases List.mem_cons.mp h with h | h
            · right; subst h; exact ⟨rfl, hc⟩
            · left; exact h
          · right; exact h
      · simp only [hd, if_false]
        obtain ⟨r1, r2, r3, r4, r5⟩ := ih (c + 1) pos last T (by omega) g hnc hy
        refine ⟨r1, r2, r3, ?_, r5⟩
        intro y' x'
        rw [r4]
        have : (y' = y ∧ c + 1 ≤ x' ∧ x' < n ∧ differs newRow prevRow x') ↔
            (y' = y ∧ c ≤ x' ∧ x' < n ∧ differs newRow prevRow x') := by
          constructor
          · rintro ⟨a, b, d, f⟩; exact ⟨a, by omega, d, f⟩
          · rintro ⟨a, b, d, f⟩
            refine ⟨a, ?_, d, f⟩
            by_cases hxc : x' = c
            · subst hxc; exact absurd f hd
            · omega
        simp only [this]
    · simp only [hc, if_false, exec_nil]
      refine ⟨g, Frame.refl T, hnc, ?_, fun p hp => Or.inl hp⟩
      intro y' x'
      have : ¬ (y' = y ∧ c ≤ x' ∧ x' < n ∧ differs newRow prevRow x') := by
        intro h; omega
      simp [this]

theorem eraseFrom_eq (t : Term) (down : Bool) (hn : NoCont t ∨ t.col = 0) :
    t.eraseFrom down =
      { t with cells := fun y x =>
          if (y = t.row ∧ t.col ≤ x) ∨ (down = true ∧ t.row < y) then erased t.sgr else t.cells y x } := by
  have hl : t.fixLeft t.row t.col = t := by
    unfold Term.fixLeft
    rcases hn with hn | hn
    · simp [hn t.row t.col]
    · simp [hn]
  unfold Term.eraseFrom
  simp only [hl]

theorem erased_dflt : erased Attrs.dflt = TCell.blank := rfl

theorem reset_eraseEol (t : Term) (hn : NoCont t ∨ t.col = 0) :
    exec cw t [.resetAttrs, .eraseEol] =
      { t with sgr := Attrs.dflt,
               cells := fun y x => if y = t.row ∧ t.col ≤ x then TCell.blank else t.cells y x } := by
  simp only [exec_cons, exec_nil, execCmd]
  rw [eraseFrom_eq _ _ (by simpa [NoCont] using hn)]
  simp [erased_dflt]

theorem reset_eraseDown (t : Term) (hn : NoCont t ∨ t.col = 0) :
    exec cw t [.resetAttrs, .eraseDown] =
      { t with sgr := Attrs.dflt,
               cells := fun y x => if (y = t.row ∧ t.col ≤ x) ∨ t.row < y then TCell.blank else t.cells y x } := by
  simp only [exec_cons, exec_nil, execCmd]
  rw [eraseFrom_eq _ _ (by simpa [NoCont] using hn)]
  simp [erased_dflt]

/-- contents of row `y` after the differ has processed it, as a function of what the row showed before -/
def rowAfter (e : Env) (s prev : Screen) (y : Nat) (old : Nat → TCell) (x : Nat) : TCell :=
  if x < lineLen e (s.row y) then
    (if differs (s.row y) (prev.row y) x then tcellOf e.attrsOf (cellAt (s.row y) x) else old x)
  else if lineLen e (s.row y) < lineLen e (prev.row y) then TCell.blank else old x

theorem lineLen_le (e : Env) (row : List Cell) : lineLen e row ≤ e.w := by
  unfold lineLen; omega

theorem rowStep_spec (e : Env) (s prev : Screen) (y : Nat) (pos : Point) (last : Option Nat) (T : Term)
    (hnar : ∀ x, NarrowCell cw (cellAt (s.row y) x))
    (g : Good e T pos last) (hnc : NoCont T) (hy : y < T.h) :
    Good e (exec cw T (rowStep e s prev y pos last).cmds) (rowStep e s prev y pos last).pos
      (rowStep e s prev y pos last).last ∧
    Frame T (exec cw T (rowStep e s prev y pos last).cmds) ∧
    NoCont (exec cw T (rowStep e s prev y pos last).cmds) ∧
    (∀ y' x', (exec cw T (rowStep e s prev y pos last).cmds).cells y' x' =
      if y' = y then rowAfter e s prev y (T.cells y) x' else T.cells y' x') ∧
    (∀ p ∈ (exec cw T (rowStep e s prev y pos last).cmds).log, p ∈ T.log ∨ (p.1 = y ∧ p.2 < e.w)) := by
  have hle := lineLen_le e (s.row y)
  obtain ⟨c1, c2, c3, c4, c5⟩ :=
    colLoop_spec cw e s y (s.row y) (prev.row y) (lineLen e (s.row y)) hle hnar
      (lineLen e (s.row y)) 0 pos last T (by omega) g hnc hy
  unfold rowStep
  simp only []
  generalize colLoop e s y (s.row y) (prev.row y) (lineLen e (s.row y)) (lineLen e (s.row y)) 0 pos last = r at *
  by_cases ht : lineLen e (s.row y) < lineLen e (prev.row y)
  · simp only [ht, if_true]
    have hy1 : y < (exec cw T r.cmds).h := by rw [c2.h]; exact hy
    obtain ⟨m1, m2, m3, m4⟩ := moveCursor_spec cw e (exec cw T r.cmds) r.pos r.last ⟨lineLen e (s.row y), y⟩ c1 hy1
    generalize moveCursor e.w r.pos r.last ⟨lineLen e (s.row y), y⟩ = m at *
    rw [exec_append, exec_append]
    generalize hT2 : exec cw (exec cw T r.cmds) m.1 = T2 at *
    have hnc2 : NoCont T2 := by intro y' x'; rw [m3]; exact c3 y' x'
    have hpl := lineLen_le e (prev.row y)
    have hcol : T2.col = lineLen e (s.row y) := by rw [m1.geo.col]; simp; omega
    have hrow : T2.row = y := m1.geo.row
    rw [reset_eraseEol cw T2 (Or.inl hnc2)]
    refine ⟨⟨⟨m1.geo.w, m1.geo.wpos, m1.geo.row, m1.geo.col, m1.geo.rowlt, m1.geo.aw⟩, rfl⟩,
      ⟨by simp [m2.h, c2.h], by simp [m2.top, c2.top], by simp [m2.scrolled, c2.scrolled],
       by simp [m2.oob, c2.oob], by simp [m2.visible, c2.visible]⟩, ?_, ?_, ?_⟩
    · intro y' x'
      simp only
      split
      · simp [TCell.blank]
      · exact hnc2 y' x'
    · intro y' x'
      simp only [hrow, hcol, m3, c4, rowAfter, ht, if_true]
      by_cases hyy : y' = y
      · simp only [hyy, true_and]
        by_cases hx : lineLen e (s.row y) ≤ x'
        · have : ¬ x' < lineLen e (s.row y) := by omega
          simp [hx, this]
        · have h2 : x' < lineLen e (s.row y) := by omega
          simp [hx, h2]
      · simp [hyy]
    · intro p hp
      simp only [m4] at hp
      rcases c5 p hp with h | h
      · exact Or.inl h
      · exact Or.inr ⟨h.1, by omega⟩
  · simp only [ht, if_false]
    refine ⟨c1, c2, c3, ?_, ?_⟩
    · intro y' x'
      rw [c4]
      simp only [rowAfter, ht, if_false]
      by_cases hyy : y' = y
      · simp only [hyy, true_and]
        by_cases hx : x' < lineLen e (s.row y)
        · simp [hx]
        · simp [hx]
      · simp [hyy]
    · intro p hp
      rcases c5 p hp with h | h
      · exact Or.inl h
      · exact Or.inr ⟨h.1, by omega⟩

theorem rowLoop_spec (e : Env) (s prev : Screen)
    (hnar : ∀ y x, NarrowCell cw (cellAt (s.row y) x)) :
    ∀ (k y0 : Nat) (pos : Point) (last : Option Nat) (T : Term),
      Good e T pos last → NoCont T → y0 + k ≤ T.h →
      Good e (exec cw T (rowLoop e s prev k y0 pos last).cmds) (rowLoop e s prev k y0 pos last).pos
        (rowLoop e s prev k y0 pos last).last ∧
      Frame T (exec cw T (rowLoop e s prev k y0 pos last).cmds) ∧
      NoCont (exec cw T (rowLoop e s prev k y0 pos last).cmds) ∧
      (∀ y' x', (exec cw T (rowLoop e s prev k y0 pos last).cmds).cells y' x' =
        if y0 ≤ y' ∧ y' < y0 + k then rowAfter e s prev y' (T.cells y') x' else T.cells y' x') ∧
      (∀ p ∈ (exec cw T (rowLoop e s prev k y0 pos last).cmds).log,
        p ∈ T.log ∨ (y0 ≤ p.1 ∧ p.1 < y0 + k ∧ p.2 < e.w)) := by
  intro k
  induction k with
  | zero =>
    intro y0 pos last T g hnc _
    simp only [rowLoop, exec_nil]
    refine ⟨g, Frame.refl T, hnc, ?_, fun p hp => Or.inl hp⟩
    intro y' x'
    have : ¬ (y0 ≤ y' ∧ y' < y0 + 0) := by omega
    rw [if_neg this]
  | succ k ih =>
    intro y0 pos last T g hnc hk
    rw [rowLoop]
    simp only []
    obtain ⟨a1, a2, a3, a4, a5⟩ := rowStep_spec cw e s prev y0 pos last T (hnar y0) g hnc (by omega)
    generalize rowStep e s prev y0 pos last = a at *
    rw [exec_append]
    obtain ⟨b1, b2, b3, b4, b5⟩ := ih (y0 + 1) a.pos a.last (exec cw T a.cmds) a1 a3 (by rw [a2.h]; omega)
    refine ⟨b1, Frame.trans a2 b2, b3, ?_, ?_⟩
    · intro y' x'
      rw [b4, a4]
      by_cases h0 : y' = y0
      · subst h0
        have h1 : ¬ (y' + 1 ≤ y' ∧ y' < y' + 1 + k) := by omega
        have h2 : y' ≤ y' ∧ y' < y' + (k + 1) := by omega
        simp [h1, h2]
      · by_cases h1 : y0 + 1 ≤ y' ∧ y' < y0 + 1 + k
        · have h2 : y0 ≤ y' ∧ y' < y0 + (k + 1) := by omega
          simp only [h1, h2, and_self, if_true, h0, if_false]
          congr 1
          funext x
          rw [a4]; simp [h0]
        · have h2 : ¬ (y0 ≤ y' ∧ y' < y0 + (k + 1)) := by omega
          simp [h1, h2, h0]
    · intro p hp
      rcases b5 p hp with h | h
      · rcases a5 p h with h | h
        · exact Or.inl h
        · exact Or.inr ⟨by omega, by omega, h.2⟩
      · exact Or.inr ⟨by omega, by omega, h.2.2⟩
end Ptk.C06
