/-
  C19 — 'noinherit': a style string that contains the word starts from `DEFAULT_ATTRS` instead of the
  all-None attributes, so the parsed attributes set EVERY field; such a rule or inline part, when it
  is the last source applied, determines the result completely (it resets whatever came before).
  The first lemma is proved for ANY extracted if/elif chain, then transferred to the model through
  `parsePart_follows_ast`.
-/
import Ptk.Props.C19Pins
import Ptk.Props.C19Style
import Ptk.Props.C19Shadow
namespace Ptk.C19
open Ptk.Py

theorem setFlagByName_concrete (a a' : Attrs) (f : Text) (v : Bool) (h : setFlagByName a f v = some a')
    (hc : Concrete a) : Concrete a' := by
  obtain ⟨c1, c2, c3, c4, c5, c6, c7, c8, c9⟩ := hc
  unfold setFlagByName at h
  repeat' split at h
  all_goals first
    | (cases h; exact ⟨c1, c2, by simp, c4, c5, c6, c7, c8, c9⟩)
    | (cases h; exact ⟨c1, c2, c3, by simp, c5, c6, c7, c8, c9⟩)
    | (cases h; exact ⟨c1, c2, c3, c4, by simp, c6, c7, c8, c9⟩)
    | (cases h; exact ⟨c1, c2, c3, c4, c5, by simp, c7, c8, c9⟩)
    | (cases h; exact ⟨c1, c2, c3, c4, c5, c6, by simp, c8, c9⟩)
    | (cases h; exact ⟨c1, c2, c3, c4, c5, c6, c7, by simp, c9⟩)
    | (cases h; exact ⟨c1, c2, c3, c4, c5, c6, c7, c8, by simp⟩)
    | cases h

/-- whatever the chain of `_parse_style_str` looks like: one part never turns a set field into None -/
theorem interpChain_concrete (T : Tables) (chain : List PBranch) (a a' : Attrs) (part : Text)
    (h : interpChain T a part chain = some a') (hc : Concrete a) : Concrete a' := by
  induction chain with
  | nil => simp [interpChain] at h; subst h; exact hc
  | cons b rest ih =>
    simp only [interpChain] at h
    split at h
    · cases hact : b.act with
      | pass => simp [hact, PAct.run] at h; subst h; exact hc
      | setFlag f v => simp only [hact, PAct.run] at h; exact setFlagByName_concrete a a' f v h hc
      | setColor f n =>
        simp only [hact, PAct.run] at h
        cases hp : parseColor T (part.drop n) with
        | none => simp [hp] at h
        | some c =>
          simp only [hp, Option.map_some, Option.some.injEq] at h
          subst h
          obtain ⟨c1, c2, c3, c4, c5, c6, c7, c8, c9⟩ := hc
          unfold setColorByName
          split
          · exact ⟨c1, by simp, c3, c4, c5, c6, c7, c8, c9⟩
          · exact ⟨by simp, c2, c3, c4, c5, c6, c7, c8, c9⟩
      | unknown => simp [hact, PAct.run] at h
    · exact ih h

theorem parseParts_concrete (T : Tables) (parts : List Text) (a a' : Attrs)
    (h : parseParts T a parts = some a') (hc : Concrete a) : Concrete a' := by
  induction parts generalizing a with
  | nil => simp [parseParts] at h; subst h; exact hc
  | cons p ps ih =>
    simp only [parseParts] at h
    cases hp : parsePart T a p with
    | none => simp [hp] at h
    | some a1 =>
      simp only [hp] at h
      rw [parsePart_follows_ast] at hp
      exact ih a1 h (interpChain_concrete T _ a a1 p hp hc)

/-- **C19-ae ('noinherit' sets every attribute).** -/
theorem parseStyleStr_noinherit_concrete (T : Tables) (hd : Concrete T.defaultAttrs) (sp : Char → Bool)
    (s : Text) (a : Attrs) (hn : (findSub? "noinherit".toList s).isSome = true)
    (h : parseStyleStr T sp s = some a) : Concrete a := by
  unfold parseStyleStr at h
  simp only [hn, if_true] at h
  exact parseParts_concrete T _ _ a h hd

theorem overlay_concrete (base x : Attrs) (hc : Concrete x) : overlay base x = x := by
  obtain ⟨c1, c2, c3, c4, c5, c6, c7, c8, c9⟩ := hc
  obtain ⟨x1, x2, x3, x4, x5, x6, x7, x8, x9⟩ := x
  simp only at c1 c2 c3 c4 c5 c6 c7 c8 c9
  cases x1 <;> cases x2 <;> cases x3 <;> cases x4 <;> cases x5 <;> cases x6 <;> cases x7 <;> cases x8 <;>
    cases x9 <;> simp_all [overlay]

/-- **C19-ae' (… hence resets).**  When the last source of the cascade (a rule or an inline part) sets
    every attribute — e.g. because its style string contains 'noinherit' — the resolved attributes
    are exactly the attributes of that source. -/
theorem last_concrete_source_wins (T : Tables) (sp : Char → Bool) (rules : List Rule) (s : Text) (d : Attrs)
    (srcs : List Src) (x : Src) (h : sources T sp rules s d = some (srcs ++ [x])) (hc : Concrete x.attrs) :
    getAttrs T sp rules s d = some x.attrs := by
  rw [getAttrs_via_sources, h]
  simp only [Option.map_some, List.map_append, List.map_cons, List.map_nil, Option.some.injEq]
  rw [mergeAttrs_snoc, overlay_concrete _ _ hc]

/-! ### position independence -/

def kwNoinherit : Text := "noinherit".toList

theorem parsePart_noinherit (T : Tables) (a : Attrs) : parsePart T a kwNoinherit = some a := by
  unfold parsePart kwNoinherit; simp

/-- the word 'noinherit' is a no-op inside the word loop, wherever and however often it stands -/
theorem parseParts_filter_noinherit (T : Tables) (ws : List Text) (a : Attrs) :
    parseParts T a ws = parseParts T a (ws.filter (· ≠ kwNoinherit)) := by
  induction ws generalizing a with
  | nil => rfl
  | cons w ws ih =>
    by_cases hw : w = kwNoinherit
    · subst hw
      simp only [parseParts, parsePart_noinherit, ne_eq, not_true_eq_false, decide_false, Bool.false_eq_true,
        not_false_eq_true, List.filter_cons_of_neg]
      exact ih a
    · have : decide (w ≠ kwNoinherit) = true := by simpa using hw
      rw [List.filter_cons_of_pos (p := fun x => decide (x ≠ kwNoinherit)) this]
      simp only [parseParts]
      cases parsePart T a w with
      | none => rfl
      | some a' => exact ih a'

/-- **C19-ae'' ('noinherit' is position independent).**  Two style strings that both contain 'noinherit'
    and whose OTHER words are the same, in the same order, parse to the same attributes: the word may
    stand first, last, in the middle or several times — it only selects the starting point
    (`DEFAULT_ATTRS` instead of all-None), it never wipes what the other words of the string set. -/
theorem parseStyleStr_noinherit_position (T : Tables) (sp : Char → Bool) (s1 s2 : Text)
    (h1 : (findSub? "noinherit".toList s1).isSome = true) (h2 : (findSub? "noinherit".toList s2).isSome = true)
    (hw : (splitWs sp s1).filter (· ≠ kwNoinherit) = (splitWs sp s2).filter (· ≠ kwNoinherit)) :
    parseStyleStr T sp s1 = parseStyleStr T sp s2 := by
  unfold parseStyleStr
  simp only [h1, h2, if_true]
  rw [parseParts_filter_noinherit T (splitWs sp s1), parseParts_filter_noinherit T (splitWs sp s2), hw]

theorem setFlagByName_overlay (d a : Attrs) (f : Text) (v : Bool) :
    setFlagByName (overlay d a) f v = (setFlagByName a f v).map (overlay d) := by
  unfold setFlagByName
  repeat' split
  all_goals simp [overlay]

theorem setColorByName_overlay (d a : Attrs) (f c : Text) :
    setColorByName (overlay d a) f c = overlay d (setColorByName a f c) := by
  unfold setColorByName
  split <;> simp [overlay]

theorem interpChain_overlay (T : Tables) (chain : List PBranch) (d a : Attrs) (part : Text) :
    interpChain T (overlay d a) part chain = (interpChain T a part chain).map (overlay d) := by
  induction chain with
  | nil => simp [interpChain]
  | cons b rest ih =>
    simp only [interpChain]
    split
    · cases hact : b.act with
      | pass => simp [PAct.run]
      | setFlag f v => simp [PAct.run, setFlagByName_overlay]
      | setColor f n =>
        simp only [PAct.run]
        cases parseColor T (part.drop n) with
        | none => rfl
        | some c => simp [setColorByName_overlay]
      | unknown => simp [PAct.run]
    · exact ih

theorem parseParts_overlay (T : Tables) (ws : List Text) (d a : Attrs) :
    parseParts T (overlay d a) ws = (parseParts T a ws).map (overlay d) := by
  induction ws generalizing a with
  | nil => simp [parseParts]
  | cons w ws ih =>
    simp only [parseParts]
    rw [parsePart_follows_ast, parsePart_follows_ast, interpChain_overlay]
    cases interpChain T a w Gen.C19X.parseChain with
    | none => rfl
    | some a' => simpa using ih a'

/-- **C19-ae''' (what 'noinherit' does).**  With 'noinherit' the parsed attributes are `DEFAULT_ATTRS`
    overlaid by EXACTLY what the same words set when parsed without it: every word of the string keeps
    its effect, only the fields no word sets become ''/False instead of None. -/
theorem parseStyleStr_noinherit_is_overlay (T : Tables) (he : T.emptyAttrs = noneAttrs) (sp : Char → Bool)
    (s : Text) (hn : (findSub? "noinherit".toList s).isSome = true) :
    parseStyleStr T sp s = (parseParts T T.emptyAttrs (splitWs sp s)).map (overlay T.defaultAttrs) := by
  unfold parseStyleStr
  simp only [hn, if_true]
  rw [← parseParts_overlay, he]
  congr 1

end Ptk.C19
