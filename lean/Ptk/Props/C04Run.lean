/-
  C04 — the dispatch rule along a whole `process_keys()` run.

  `passesPK I n ps` lists every state (and flush flag) at which the body of the matching loop of
  `_process` is executed during `processKeys I n ps` (ghost functions mirroring `runLoop`, `send`,
  `pkStep`, `processKeys`); `runLoop_log_passes` shows that the log of a `send` is produced by exactly
  these passes.  For any world invariant kept by the lookups and by the handlers, every pass runs
  in a world satisfying the invariant (`passes_inv`); instantiated with the wrapper-tree world and
  scripted handlers this gives `run_obeys_rule`: **every** decision taken during the run — after
  whatever the handlers did to conditions, registries, dynamic targets and the queue — is the one
  the documented rule demands for the bindings that are in the registries at that moment.
-/
import Ptk.Props.C04Tree
namespace Ptk.C04
variable {σ : Type}

/-! ### what a decision does to the log -/

/-- the macro-recording records that may follow a handler invocation in the log -/
theorem recordMacro_obs (I : Iface σ) (wasE wasV : Bool) (w : σ) (b : Binding) (seq : List KP) :
    ∀ o ∈ (recordMacro I wasE wasV w b seq).2, o = .recE seq ∨ o = .recV seq := by
  unfold recordMacro
  split
  · simp only []
    split <;> split <;> simp
  · simp

/-- firing binding `b` with the first `n` buffered keys: the handler with `b`'s id is invoked
    exactly once with exactly these keys, receiving the pending numeric argument and the
    `is_repeat` flag (same `Binding` object as the previous invocation); it returns (possibly
    after the bell; the key sequence may then be appended to a macro recording) or raises -/
theorem exec_fire_obs (I : Iface σ) (ps : PS σ) (b : Binding) (n : Nat) (e : Bool) :
    (∃ tail, (exec I ps (.fire b n e)).2.1 =
        .ev ps.arg (ps.prevH == some b.bid) :: .call b.hid (ps.buffer.take n) ps.prev :: tail ∧
        ∀ o ∈ tail, o = .bell ∨ o = .recE (ps.buffer.take n) ∨ o = .recV (ps.buffer.take n)) ∨
    (exec I ps (.fire b n e)).2.1 =
      [.ev ps.arg (ps.prevH == some b.bid), .raise b.hid (ps.buffer.take n) ps.prev] := by
  have hm := recordMacro_obs I (I.recE ps.w) (I.recV ps.w)
    (I.call ps.w ps.queue b (ps.buffer.take n) ps.prev (eventOf ps b)).1 b (ps.buffer.take n)
  cases h : (I.call ps.w ps.queue b (ps.buffer.take n) ps.prev (eventOf ps b)).2.2
  · left
    refine ⟨_, by simp only [exec, callHandler, h]; simp [eventOf]; rfl, ?_⟩
    intro o ho
    exact Or.inr (hm o ho)
  · left
    refine ⟨.bell :: _, by simp only [exec, callHandler, h]; simp [eventOf]; rfl, ?_⟩
    intro o ho
    rcases List.mem_cons.mp ho with rfl | ho
    · exact Or.inl rfl
    · exact Or.inr (hm o ho)
  · right
    simp only [exec, callHandler, h]; simp [eventOf]

theorem exec_drop_obs (I : Iface σ) (ps : PS σ) :
    (exec I ps .dropOne).2.1 = (ps.buffer.take 1).map .drop ∧
    (exec I ps .dropOne).1.buffer = ps.buffer.drop 1 := by
  simp [exec]

theorem exec_wait_obs (I : Iface σ) (ps : PS σ) :
    (exec I ps .wait).2.1 = [] ∧ (exec I ps .wait).1 = ps ∧
    (exec I ps .idle).2.1 = [] ∧ (exec I ps .idle).1 = ps := by
  simp [exec]

/-! ### the passes of a run (ghost) -/

section
variable (I : Iface σ)

/-- the states at which `runLoop` runs the loop body -/
def passesLoop : Nat → PS σ → Bool → List (PS σ × Bool)
  | 0, _, _ => []
  | n + 1, ps, flush =>
    (ps, flush) ::
      (match (examine I ps flush).2.2 with
       | .retry =>
         if !(examine I ps flush).1.buffer.isEmpty && I.done (examine I ps flush).1.w then []
         else passesLoop n (examine I ps flush).1 false
       | _ => [])

def passesSend (ps : PS σ) (kp : KP) : List (PS σ × Bool) :=
  match kp with
  | .flush => passesLoop I (ps.buffer.length + 1) ps true
  | k => passesLoop I (ps.buffer.length + 2) { ps with buffer := ps.buffer ++ [k] } false

def passesKey (ps : PS σ) (kp : KP) : List (PS σ × Bool) :=
  if kp.isCpr then [] else passesSend I ps kp

def passesPK : Nat → PS σ → List (PS σ × Bool)
  | 0, _ => []
  | n + 1, ps =>
    match pkStep I ps with
    | none => []
    | some (ps', _, raised) =>
      (match getNext I ps with
       | some (kp, q) => passesKey I { ps with queue := q } kp
       | none => []) ++ (if raised then [] else passesPK n ps')

/-- the log of the matching loop is the concatenation of the logs of its passes, followed by at
    most one "pushed back as typeahead" record -/
theorem runLoop_log_passes (n : Nat) (ps : PS σ) (flush : Bool) :
    ∃ tail, (runLoop I n ps flush).2.1 =
        (passesLoop I n ps flush).flatMap (fun p => (examine I p.1 p.2).2.1) ++ tail ∧
      (tail = [] ∨ ∃ ks, tail = [.requeue ks]) := by
  induction n generalizing ps flush with
  | zero => exact ⟨[], by simp [runLoop, passesLoop], Or.inl rfl⟩
  | succ n ih =>
    simp only [runLoop, passesLoop]
    cases hc : (examine I ps flush).2.2 with
    | yield_ => exact ⟨[], by simp, Or.inl rfl⟩
    | dead => exact ⟨[], by simp, Or.inl rfl⟩
    | retry =>
      simp only []
      split
      · exact ⟨[.requeue (examine I ps flush).1.buffer], by simp, Or.inr ⟨_, rfl⟩⟩
      · obtain ⟨tail, h1, h2⟩ := ih (examine I ps flush).1 false
        exact ⟨tail, by simp [h1], h2⟩
end

/-! ### an invariant of the world holds at every pass -/

section
variable {I : Iface σ} {P : σ → Prop}

/-- what is needed of the invariant: kept by one round of lookups, by the CPR lookup, and by
    every handler invocation -/
structure Kept (I : Iface σ) (P : σ → Prop) : Prop where
  dec : ∀ (ps : PS σ) flush, P ps.w → P (decideOf I ps flush).1
  gm : ∀ w buf, P w → P (getMatches I w buf).1
  call : ∀ w q b s p x, P w → P (I.call w q b s p x).1
  pushE : ∀ w s, P w → P (I.pushE w s)
  pushV : ∀ w s, P w → P (I.pushV w s)

theorem recordMacro_kept {I : Iface σ} {P : σ → Prop} (hK : Kept I P) (wasE wasV : Bool) (w : σ)
    (b : Binding) (seq : List KP) (h : P w) : P (recordMacro I wasE wasV w b seq).1 := by
  unfold recordMacro
  split
  · simp only []
    split
    · split
      · exact hK.pushV _ _ (hK.pushE _ _ h)
      · exact hK.pushE _ _ h
    · split
      · exact hK.pushV _ _ h
      · exact h
  · exact h

theorem exec_kept (hK : Kept I P) (ps : PS σ) (d : Decision) (h : P ps.w) : P (exec I ps d).1.w := by
  cases d with
  | idle => exact h
  | wait => exact h
  | dropOne => exact h
  | fire b n e =>
    have hcall := hK.call ps.w ps.queue b (ps.buffer.take n) ps.prev (eventOf ps b) h
    have hrec := recordMacro_kept hK (I.recE ps.w) (I.recV ps.w) _ b (ps.buffer.take n) hcall
    have hc : P (callHandler I ps b (ps.buffer.take n)).1.w := by
      cases h' : (I.call ps.w ps.queue b (ps.buffer.take n) ps.prev (eventOf ps b)).2.2 <;>
        simp only [callHandler, h'] <;> first | exact hrec | exact hcall
    simp only [exec]
    split
    · exact hc
    · exact hc

theorem examine_kept (hK : Kept I P) (ps : PS σ) (flush : Bool) (h : P ps.w) :
    P (examine I ps flush).1.w :=
  exec_kept hK { ps with w := (decideOf I ps flush).1 } _ (hK.dec ps flush h)

theorem runLoop_kept (hK : Kept I P) (n : Nat) (ps : PS σ) (flush : Bool) (h : P ps.w) :
    (∀ p ∈ passesLoop I n ps flush, P p.1.w) ∧ P (runLoop I n ps flush).1.w := by
  induction n generalizing ps flush with
  | zero => exact ⟨by simp [passesLoop], h⟩
  | succ n ih =>
    have he := examine_kept hK ps flush h
    simp only [runLoop, passesLoop]
    cases hc : (examine I ps flush).2.2 with
    | yield_ => exact ⟨by simpa using h, he⟩
    | dead => exact ⟨by simpa using h, he⟩
    | retry =>
      simp only []
      split
      · exact ⟨by simpa using h, he⟩
      · obtain ⟨i1, i2⟩ := ih (examine I ps flush).1 false he
        refine ⟨?_, i2⟩
        intro p hp
        rcases List.mem_cons.mp hp with rfl | hp
        · exact h
        · exact i1 p hp

theorem send_kept (hK : Kept I P) (ps : PS σ) (kp : KP) (h : P ps.w) :
    (∀ p ∈ passesSend I ps kp, P p.1.w) ∧ P (send I ps kp).1.w := by
  cases kp with
  | flush => exact runLoop_kept hK _ ps true h
  | key k t => exact runLoop_kept hK _ { ps with buffer := ps.buffer ++ [.key k t] } false h

theorem cprResponse_kept (hK : Kept I P) (ps : PS σ) (kp : KP) (h : P ps.w) :
    P (cprResponse I ps kp).1.w := by
  have hg := hK.gm ps.w [kp] h
  simp only [cprResponse]
  cases hm : (getMatches I ps.w [kp]).2.getLast? with
  | none => exact hg
  | some b =>
    have := hK.call (getMatches I ps.w [kp]).1 ps.queue b [kp] ps.prev {} hg
    cases ho : (I.call (getMatches I ps.w [kp]).1 ps.queue b [kp] ps.prev {}).2.2 <;>
      simpa [ho] using this

theorem dispatchKey_kept (hK : Kept I P) (ps : PS σ) (kp : KP) (h : P ps.w) :
    (∀ p ∈ passesKey I ps kp, P p.1.w) ∧ P (dispatchKey I ps kp).1.w := by
  unfold dispatchKey passesKey
  by_cases hc : kp.isCpr = true
  · simp only [hc, if_true]
    exact ⟨by simp, cprResponse_kept hK ps kp h⟩
  · simp only [hc]
    exact send_kept hK ps kp h

/-- **every pass of a `process_keys()` run happens in a world satisfying the invariant**, and
    so does the final state -/
theorem passes_inv (hK : Kept I P) (n : Nat) (ps : PS σ) (h : P ps.w) :
    (∀ p ∈ passesPK I n ps, P p.1.w) ∧ P (processKeys I n ps).1.w := by
  induction n generalizing ps with
  | zero => exact ⟨by simp [passesPK], h⟩
  | succ n ih =>
    simp only [processKeys, passesPK]
    cases hk : pkStep I ps with
    | none => exact ⟨by simp, h⟩
    | some r =>
      obtain ⟨ps', obs, raised⟩ := r
      -- the step: the key taken and the dispatch
      have hstep : (∀ p ∈ (match getNext I ps with
            | some (kp, q) => passesKey I { ps with queue := q } kp
            | none => []), P p.1.w) ∧ P ps'.w := by
        unfold pkStep at hk
        split at hk
        · cases hk
        · cases hg : getNext I ps with
          | none => simp [hg] at hk
          | some pr =>
            obtain ⟨kp, q⟩ := pr
            simp only [hg] at hk ⊢
            have hd := dispatchKey_kept hK { ps with queue := q } kp h
            split at hk
            · cases hk; exact ⟨hd.1, hd.2⟩
            · cases hk; exact ⟨hd.1, hd.2⟩
      cases raised with
      | true =>
        simp only [if_true, List.append_nil]
        exact hstep
      | false =>
        obtain ⟨i1, i2⟩ := ih ps' hstep.2
        simp only [Bool.false_eq_true, if_false]
        refine ⟨?_, i2⟩
        intro p hp
        rcases List.mem_append.mp hp with hp | hp
        · exact hstep.1 p hp
        · exact i1 p hp
end


/-! ### the wrapper-tree world with scripted handlers -/

theorem ROpOK.mono {h h' : Heap} {op : ROp} (ok : ROpOK h op) (hm : ∀ f, Known h f → Known h' f) :
    ROpOK h' op := by
  cases op with
  | add r keys hid f e g => exact ⟨hm _ ok.1, ok.2⟩
  | addB r keys func f e g =>
    exact ⟨hm _ ok.1, hm _ ok.2.1, hm _ ok.2.2.1, hm _ ok.2.2.2.1, ok.2.2.2.2⟩
  | removeH _ _ => trivial
  | removeK _ _ => trivial
  | target _ _ => trivial

theorem setReg_len (w : W) (i : Nat) (r : Reg) : (setReg w i r).regs.length = w.regs.length := by
  simp [setReg]

/-- add / remove / retarget never change the number of objects, and only grow the filter heap -/
theorem applyROp_frame {w : W} (inv : Inv w) (op : ROp) (hop : ROpOK w.heap op) :
    (applyROp w op).1.regs.length = w.regs.length ∧ (applyROp w op).1.env = w.env ∧
    ∀ f, Known w.heap f → Known (applyROp w op).1.heap f := by
  cases op with
  | add r keys hid f e g =>
    simp only [applyROp]
    cases w.regs[r]? with
    | none => exact ⟨rfl, rfl, fun _ h => h⟩
    | some x =>
      cases x <;> try exact ⟨rfl, rfl, fun _ h => h⟩
      simp only []
      split
      · exact ⟨rfl, rfl, fun _ h => h⟩
      · exact ⟨setReg_len _ _ _, rfl, fun _ h => h⟩
  | addB r keys func f e g =>
    simp only [applyROp]
    cases w.regs[r]? with
    | none => exact ⟨rfl, rfl, fun _ h => h⟩
    | some x =>
      cases x <;> try exact ⟨rfl, rfl, fun _ h => h⟩
      rename_i k
      simp only []
      split
      · exact ⟨rfl, rfl, fun _ h => h⟩
      · refine ⟨setReg_len _ _ _, rfl, ?_⟩
        obtain ⟨k1, k2, k3, k4, k5, k6⟩ := hop
        show ∀ x, Known w.heap x → Known (k.addBinding w.heap keys func f e g w.nextB).1 x
        simp only [KB.addBinding]
        split
        · exact fun _ h => h
        · obtain ⟨⟨o1, n1, m1⟩, _⟩ := fAnd_spec inv.heap func.filter f.toF k1 k2
          obtain ⟨⟨o2, n2, m2⟩, _⟩ := fOr_spec o1 e.toF func.eager (m1 _ k3) (m1 _ k4)
          obtain ⟨g1, _⟩ := fOr_const (fOr (fAnd w.heap func.filter f.toF).1 e.toF func.eager).1
            g.toF func.isGlobal k5 k6
          intro x hx
          show Known (fOr (fOr (fAnd w.heap func.filter f.toF).1 e.toF func.eager).1 g.toF
            func.isGlobal).1 x
          rw [g1]; exact m2 _ (m1 _ hx)
  | removeH r hid =>
    simp only [applyROp]
    cases w.regs[r]? with
    | none => exact ⟨rfl, rfl, fun _ h => h⟩
    | some x =>
      cases x <;> try exact ⟨rfl, rfl, fun _ h => h⟩
      simp only []
      split
      · exact ⟨setReg_len _ _ _, rfl, fun _ h => h⟩
      · exact ⟨rfl, rfl, fun _ h => h⟩
  | removeK r keys =>
    simp only [applyROp]
    cases w.regs[r]? with
    | none => exact ⟨rfl, rfl, fun _ h => h⟩
    | some x =>
      cases x <;> try exact ⟨rfl, rfl, fun _ h => h⟩
      simp only []
      split
      · exact ⟨setReg_len _ _ _, rfl, fun _ h => h⟩
      · exact ⟨rfl, rfl, fun _ h => h⟩
  | target d t =>
    simp only [applyROp]
    cases w.regs[d]? with
    | none => exact ⟨rfl, rfl, fun _ h => h⟩
    | some x =>
      cases x <;> try exact ⟨rfl, rfl, fun _ h => h⟩
      cases t with
      | none => exact ⟨setReg_len _ _ _, rfl, fun _ h => h⟩
      | some t' =>
        simp only []
        split
        · exact ⟨setReg_len _ _ _, rfl, fun _ h => h⟩
        · exact ⟨rfl, rfl, fun _ h => h⟩

/-- **a failing registry operation changes nothing** — in particular `remove` of a handler or a
    key sequence that is not bound (the real call raises: `ValueError` for a handler, and — see
    `ropErr` — an `UnboundLocalError` instead of the documented `ValueError` for a key sequence)
    leaves every registry, every version counter and every cache as it was, so all lookups keep
    reflecting the bindings that are there -/
theorem applyROp_fail (w : W) (op : ROp) (h : (applyROp w op).2 = false) : (applyROp w op).1 = w := by
  cases op with
  | add r keys hid f e g m =>
    simp only [applyROp] at h ⊢
    cases hr : w.regs[r]? with
    | none => simp [hr]
    | some x =>
      cases x <;> simp only [hr] at h ⊢
      split at h
      · next hk => simp [hk]
      · cases h
  | addB r keys func f e g =>
    simp only [applyROp] at h ⊢
    cases hr : w.regs[r]? with
    | none => simp [hr]
    | some x =>
      cases x <;> simp only [hr] at h ⊢
      split at h
      · next hk => simp [hk]
      · cases h
  | removeH r hid =>
    simp only [applyROp] at h ⊢
    cases hr : w.regs[r]? with
    | none => simp [hr]
    | some x =>
      cases x <;> simp only [hr] at h ⊢
      split at h
      · cases h
      · next hk => simp [hk]
  | removeK r keys =>
    simp only [applyROp] at h ⊢
    cases hr : w.regs[r]? with
    | none => simp [hr]
    | some x =>
      cases x <;> simp only [hr] at h ⊢
      split at h
      · cases h
      · next hk => simp [hk]
  | target d t =>
    simp only [applyROp] at h ⊢
    cases hr : w.regs[d]? with
    | none => simp [hr]
    | some x =>
      cases x <;> simp only [hr] at h ⊢
      cases t with
      | none => cases h
      | some t' =>
        simp only [] at h ⊢
        split at h
        · cases h
        · next hk => simp [hk]

/-- `remove(handler)` of an unbound handler is reported as `ValueError`; `remove(keys)` of an
    unbound key sequence as `UnboundLocalError` by the unrepaired code, `ValueError` by the
    repaired one (flag probed from the running code) -/
example : ropErr { regs := [.kb {}] } (.removeK 0 [2]) =
      some (if Gen.C04.rmkValueError then .valueError else .unboundLocal) ∧
    ropErr { regs := [.kb {}] } (.removeH 0 7) = some .valueError := by decide

/-- a list of registry operations whose arguments are live filters keeps the wrapper invariant -/
theorem applyOps_ok (ops : List ROp) (w : W) (inv : Inv w) (hops : ∀ op ∈ ops, ROpOK w.heap op) :
    Inv (applyOps w ops) ∧ (applyOps w ops).regs.length = w.regs.length ∧
    ∀ f, Known w.heap f → Known (applyOps w ops).heap f := by
  induction ops generalizing w with
  | nil => exact ⟨inv, rfl, fun _ h => h⟩
  | cons op ops ih =>
    have hop := hops op (List.mem_cons_self ..)
    have i1 := inv.applyROp op hop
    obtain ⟨l1, _, m1⟩ := applyROp_frame inv op hop
    obtain ⟨i2, l2, m2⟩ := ih (applyROp w op).1 i1
      (fun o ho => (hops o (List.mem_cons_of_mem _ ho)).mono m1)
    show Inv (applyOps (applyROp w op).1 ops) ∧ _
    exact ⟨i2, by rw [show (applyOps w (op :: ops)) = applyOps (applyROp w op).1 ops from rfl, l2, l1],
      fun f hf => m2 f (m1 f hf)⟩

/-- every operation any handler script may perform has live filter arguments -/
def ScriptsOK (x : World) : Prop :=
  ∀ l ∈ x.scripts, ∀ e ∈ l, ∀ op ∈ e.ops, ROpOK x.t.heap op

/-- the invariant of a run: wrapper invariant, the processor's `_bindings` exists, scripts fine -/
def GoodRun (x : World) : Prop := GoodTree x ∧ ScriptsOK x

theorem ScriptsOK.mono {x y : World} (h : ScriptsOK x) (hs : y.scripts = x.scripts)
    (hm : ∀ f, Known x.t.heap f → Known y.t.heap f) : ScriptsOK y := by
  intro l hl e he op hop
  rw [hs] at hl
  exact (h l hl e he op hop).mono hm

theorem getD_mem_or_nil {α : Type} (l : List (List α)) (i : Nat) :
    l.getD i [] ∈ l ∨ l.getD i [] = [] := by
  rw [List.getD_eq_getElem?_getD]
  cases h : l[i]? with
  | none => right; rfl
  | some x => left; exact List.mem_of_getElem? h

/-- starting / ending / replaying a macro touches neither the object table nor the scripts -/
theorem applyMacro_frame (xq : World × List KP) (m : MacroOp) :
    (applyMacro xq m).1.t = xq.1.t ∧ (applyMacro xq m).1.root = xq.1.root ∧
    (applyMacro xq m).1.scripts = xq.1.scripts := by
  cases m with
  | start => exact ⟨rfl, rfl, rfl⟩
  | stop => exact ⟨rfl, rfl, rfl⟩
  | call => simp only [applyMacro]; split <;> exact ⟨rfl, rfl, rfl⟩
  | viStart => exact ⟨rfl, rfl, rfl⟩
  | viStop => simp only [applyMacro]; split <;> exact ⟨rfl, rfl, rfl⟩

theorem applyMacros_frame (ms : List MacroOp) (xq : World × List KP) :
    (ms.foldl applyMacro xq).1.t = xq.1.t ∧ (ms.foldl applyMacro xq).1.root = xq.1.root ∧
    (ms.foldl applyMacro xq).1.scripts = xq.1.scripts := by
  induction ms generalizing xq with
  | nil => exact ⟨rfl, rfl, rfl⟩
  | cons m ms ih =>
    obtain ⟨a1, a2, a3⟩ := applyMacro_frame xq m
    obtain ⟨b1, b2, b3⟩ := ih (applyMacro xq m)
    exact ⟨b1.trans a1, b2.trans a2, b3.trans a3⟩

/-- the effects of one script entry: the object table is the one after the registry operations -/
theorem applyEff_frame (x : World) (q : List KP) (e : Eff) :
    (applyEff x q e).1.t = applyOps { x.t with env := e.flips.foldl flipEnv x.t.env } e.ops ∧
    (applyEff x q e).1.root = x.root ∧ (applyEff x q e).1.scripts = x.scripts := by
  simp only [applyEff]
  exact applyMacros_frame e.macros _

/-- a scripted handler invocation (flip conditions, add / remove / retarget, feed keys, start /
    end / replay a macro, exit, append to the numeric argument, return / raise) keeps the
    invariant of a run -/
theorem worldCall_good (x : World) (q : List KP) (b : Binding) (s p : List KP) (ev : EvX)
    (h : GoodRun x) : GoodRun (worldCall x q b s p ev).1 := by
  obtain ⟨⟨inv, hroot⟩, hsc⟩ := h
  have key : ∀ (x' : World) (e : Eff), x'.t = x.t → x'.root = x.root → x'.scripts = x.scripts →
      (∀ op ∈ e.ops, ROpOK x.t.heap op) → GoodRun (applyEff x' q e).1 := by
    intro x' e ht hr hs hmem
    obtain ⟨f1, f2, f3⟩ := applyEff_frame x' q e
    obtain ⟨i1, l1, m1⟩ := applyOps_ok e.ops { x.t with env := e.flips.foldl flipEnv x.t.env }
      (inv.setEnv _) hmem
    rw [ht] at f1
    refine ⟨⟨?_, ?_⟩, ?_⟩
    · rw [f1]; exact i1
    · rw [f1, f2, hr, l1]; exact hroot
    · refine ScriptsOK.mono (x := x) hsc (f3.trans hs) ?_
      rw [f1]; exact m1
  simp only [worldCall]
  split
  · next e he =>
    have hmem : ∀ op ∈ e.ops, ROpOK x.t.heap op := by
      intro op hop
      rcases getD_mem_or_nil x.scripts b.hid with hm | hm
      · exact hsc _ hm e (List.mem_of_getElem? he) op hop
      · rw [hm] at he; simp at he
    exact key _ e rfl rfl rfl hmem
  · exact ⟨⟨inv, hroot⟩, hsc.mono rfl (fun _ h => h)⟩

/-- lookups through the tree keep the invariant of a run -/
theorem tree_sound_run : SoundV worldIface (fun x => norm (envFn x.t.env)) treeBs GoodRun := by
  have T := tree_sound
  refine ⟨T.φ_filter, T.φ_eager, fun w ks g => T.for_val w ks g.1, fun w ks g => T.for_B w ks g.1,
    fun w ks f g => T.for_eval w ks f g.1, fun w ks g => T.for_φ w ks g.1, ?_,
    fun w ks g => T.start_val w ks g.1, fun w ks g => T.start_B w ks g.1,
    fun w ks f g => T.start_eval w ks f g.1, fun w ks g => T.start_φ w ks g.1, ?_⟩
  · intro x ks g
    refine ⟨T.for_G x ks g.1, ?_⟩
    obtain ⟨⟨_, fr, _⟩, _⟩ := world_lookup_frame x g.1 ks
    exact ScriptsOK.mono (y := { x with t := (x.t.fns.getFor x.t x.root ks).1 }) g.2 rfl fr.heap
  · intro x ks g
    refine ⟨T.start_G x ks g.1, ?_⟩
    obtain ⟨_, ⟨_, fr, _⟩⟩ := world_lookup_frame x g.1 ks
    exact ScriptsOK.mono (y := { x with t := (x.t.fns.getStart x.t x.root ks).1 }) g.2 rfl fr.heap

theorem goodRun_kept : Kept worldIface GoodRun where
  dec := fun ps flush h => (dispatch_specV tree_sound_run ps h flush).2.2.2.2
  gm := fun w buf h => (getMatches_soundV tree_sound_run w h buf).2.2.2.2
  call := fun w q b s p x h => worldCall_good w q b s p x h
  pushE := fun _ _ h => h
  pushV := fun _ _ h => h

/-- **The whole run obeys the rule, through any wrapper tree.**  Let the processor sit on any
    object of a table satisfying the wrapper invariant (e.g. any reachable table), with handlers
    scripted to flip conditions, add / remove bindings on the registries, retarget dynamic
    wrappers, feed keys, finish the application, return or raise.  Then at **every** pass of the
    matching loop during `process_keys()` (any number of iterations) the decision is the one the
    documented rule demands for the bindings that are in the underlying registries *at that
    moment* and the values of the conditions at that moment; and the table still satisfies the
    invariant afterwards. -/
theorem run_obeys_rule (n : Nat) (ps : PS World) (hG : GoodTree ps.w) (hS : ScriptsOK ps.w) :
    (∀ p ∈ passesPK worldIface n ps,
      GoodTree p.1.w ∧
      Rule (treeBs p.1.w) (fun f => f.eval (envFn p.1.w.t.env)) p.1.buffer p.2
        ((decideOf worldIface p.1 p.2).2.map (norm (envFn p.1.w.t.env)))) ∧
    GoodTree (processKeys worldIface n ps).1.w := by
  obtain ⟨h1, h2⟩ := passes_inv goodRun_kept n ps ⟨hG, hS⟩
  exact ⟨fun p hp => ⟨(h1 p hp).1, (dispatch_tree p.1 (h1 p hp).1 p.2).1⟩, h2.1⟩

/-! ### non-vacuity -/

/-- the tree of `Props/C04Tree.lean` with a script: handler 0 (bound to `a` in registry 0, seen
    through the conditional wrapper and the merge) removes itself and adds `a`→h2 to registry 1 -/
def exRun : World :=
  { exTree with scripts := [[{ ops := [.removeH 0 0, .add 1 [2] 2 (.b true) (.b false) (.b false) (.b true)] }]] }

example : GoodTree exRun ∧ ScriptsOK exRun := by
  refine ⟨⟨exTree_reach.inv, by decide⟩, ?_⟩
  intro l hl e he op hop
  simp [exRun] at hl
  subst hl
  simp at he
  subst he
  simp at hop
  rcases hop with rfl | rfl
  · trivial
  · exact ⟨Or.inl rfl, rfl⟩

/-- `a` + timeout fires h0 through the wrappers; h0 rebinds; the next `a` + timeout fires h2: the
    passes of the run see the registries as they are at that moment -/
example : ((processKeys worldIface 10
      { w := exRun, queue := [.key 2 1, .flush, .key 2 2, .flush] }).2.1.filter
        fun o => match o with | .call _ _ _ => true | _ => false) =
    [.call 0 [.key 2 1] [], .call 2 [.key 2 2] [.key 2 1]] := by decide
example : (passesPK worldIface 10
      { w := exRun, queue := [.key 2 1, .flush, .key 2 2, .flush] }).length = 4 := by decide

end Ptk.C04
