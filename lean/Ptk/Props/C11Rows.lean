/-
  C11 — rows shown by one render are consecutive document lines in order (`rows_consecutive`),
  for arbitrary character widths, prefixes and scroll states.
-/
import Ptk.Model.C11
namespace Ptk.C11
open Ptk.Py

/-! ### the rows shown are consecutive document lines, in order (any character widths) -/

/-- `visible_line_to_row_col` read from the newest entry backwards: screen rows go down by exactly
    one, the document row stays (a wrapped continuation; only when `same`) or goes down by one -/
inductive Chain (same : Bool) : List (Int × Nat × Int) → Prop
  | nil : Chain same []
  | single (e) : Chain same [e]
  | cons (y : Int) (r r' : Nat) (c c' : Int) (rest) :
      (r' = r + 1 ∨ (same = true ∧ r' = r)) → Chain same ((y, r, c) :: rest) →
      Chain same ((y + 1, r', c') :: (y, r, c) :: rest)

/-- invariant while line `l` is being copied: the newest entry is the current screen row and
    belongs to `l`; older entries are never touched (`base` stays the tail) -/
def InLine (same : Bool) (base : List (Int × Nat × Int)) (l : Nat) (st : CS) : Prop :=
  Chain same st.vl ∧ (∃ c tl, st.vl = (st.y, l, c) :: tl) ∧ ∃ nw, st.vl = nw ++ base

theorem putChar_vl (e : Env) (i : Bool) (l s : Nat) (st : CS) (c : Char) :
    (putChar e i l s st c).vl = st.vl ∧ (putChar e i l s st c).y = st.y := by
  unfold putChar
  split <;> simp

theorem wrapSt_inLine {base} {l : Nat} {st : CS} (h : InLine true base l st) : InLine true base l (wrapSt l st) := by
  obtain ⟨hc, ⟨c, tl, hv⟩, ⟨nw, hb⟩⟩ := h
  refine ⟨?_, ⟨_, st.vl, rfl⟩, ⟨(st.y + 1, l, st.rowCol + st.x) :: nw, by simp [wrapSt, hb]⟩⟩
  show Chain true ((st.y + 1, l, st.rowCol + st.x) :: st.vl)
  rw [hv] at hc ⊢
  exact Chain.cons _ _ _ _ _ _ (Or.inr ⟨rfl, rfl⟩) hc

theorem step_inLine (e : Env) {same : Bool} (hs : e.wrap = true → same = true) {base} (i : Bool) (l s : Nat)
    (hook : CS → CS) (hh : ∀ st, InLine same base l st → InLine same base l (hook st)) (st : CS) (c : Char)
    (h : InLine same base l st) : InLine same base l (step e i l s hook st c) := by
  unfold step
  split
  · exact h
  · split
    · rename_i hw
      have hsame := hs hw.1
      subst hsame
      have h2 := hh _ (wrapSt_inLine h)
      simp only []
      split
      · exact h2
      · obtain ⟨p1, p2⟩ := putChar_vl e i l s (hook (wrapSt l st)) c
        unfold InLine; rw [p1, p2]; exact h2
    · obtain ⟨p1, p2⟩ := putChar_vl e i l s st c
      unfold InLine; rw [p1, p2]; exact h

theorem fold_inLine (e : Env) {same : Bool} (hs : e.wrap = true → same = true) {base} (i : Bool) (l s : Nat)
    (hook : CS → CS) (hh : ∀ st, InLine same base l st → InLine same base l (hook st)) (cs : Text) :
    ∀ st, InLine same base l st → InLine same base l (cs.foldl (step e i l s hook) st) := by
  induction cs with
  | nil => intro st h; exact h
  | cons c cs ih => intro st h; exact ih _ (step_inLine e hs i l s hook hh st c h)

theorem prefixHook_inLine (e : Env) {same : Bool} (hs : e.wrap = true → same = true) {base} (l : Nat) :
    ∀ st, InLine same base l st → InLine same base l (prefixHook e l st) := by
  intro st h
  unfold prefixHook
  split
  · exact h
  · rename_i f _
    unfold copyPlain
    have := fold_inLine e hs false l 0 id (fun _ h => h) (f l st.wc) { st with col := 0, wc := 0, ret := false } h
    exact this

theorem copyLine_inLine (e : Env) {same : Bool} (hs : e.wrap = true → same = true) {base} (h0 : Int) (l : Nat)
    (line : Text) (st : CS) (h : InLine same base l st) : InLine same base l (copyLine e h0 l line st) := by
  unfold copyLine
  have h1 : InLine same base l (shiftX (prefixHook e l (lineInit st)) (hskip e.W h0 line).1) :=
    prefixHook_inLine e hs l (lineInit st) h
  exact fold_inLine e hs true l _ _ (prefixHook_inLine e hs l) _ _ h1

/-- between two lines: the newest entry (if any) is the row above, of the previous line -/
def Between (same : Bool) (base : List (Int × Nat × Int)) (l : Nat) (st : CS) : Prop :=
  Chain same st.vl ∧ (∃ nw, st.vl = nw ++ base) ∧
    (st.vl = [] ∨ ∃ r c tl, st.vl = (st.y - 1, r, c) :: tl ∧ r + 1 = l)

theorem copyLines_chain (e : Env) {same : Bool} (hs : e.wrap = true → same = true) (h0 : Int)
    (lines : List Text) :
    ∀ (l : Nat) (st : CS) (base), Between same base l st →
      Chain same (copyLines e h0 lines l st).vl ∧ ∃ nw, (copyLines e h0 lines l st).vl = nw ++ base := by
  induction lines with
  | nil => intro l st base h; exact ⟨h.1, h.2.1⟩
  | cons ln rest ih =>
    intro l st base ⟨hc, ⟨nw, hb⟩, hl⟩
    rw [copyLines]
    split
    · have hstart : InLine same base l (lineStart h0 l st) := by
        refine ⟨?_, ⟨h0, st.vl, rfl⟩, ⟨(st.y, l, h0) :: nw, by simp [lineStart, hb]⟩⟩
        show Chain same ((st.y, l, h0) :: st.vl)
        rcases hl with hnil | ⟨r, c, tl, hv, hr⟩
        · rw [hnil]; exact Chain.single _
        · rw [hv] at hc ⊢
          have := Chain.cons (st.y - 1) r l c h0 tl (Or.inl hr.symm) hc
          have e1 : st.y - 1 + 1 = st.y := by omega
          rw [e1] at this; exact this
      have hline := copyLine_inLine e hs h0 l ln _ hstart
      obtain ⟨k1, ⟨c, tl, k2⟩, k3⟩ := hline
      refine ih (l + 1) (lineEnd _) base ⟨k1, k3, Or.inr ⟨l, c, tl, ?_, rfl⟩⟩
      show (copyLine e h0 l ln (lineStart h0 l st)).vl = ((copyLine e h0 l ln (lineStart h0 l st)).y + 1 - 1, l, c) :: tl
      rw [k2]; congr 2; omega
    · exact ⟨hc, ⟨nw, hb⟩⟩

/-- **rows_consecutive.** For every content, widths, prefixes and scroll state: the
    `visible_line_to_row_col` entries of one render occupy consecutive screen rows and show
    consecutive document lines in order (a row repeats its line only as a wrapped continuation,
    never when wrapping is off); the first entry is `(−vertical_scroll_2, vertical_scroll)`. -/
theorem rows_consecutive (e : Env) (lines : List Text) (s : Scroll) :
    Chain e.wrap (copyBody e lines s).vl ∧
      (s.vs.toNat < lines.length → -s.vs2 < e.height →
        (copyBody e lines s).vl.getLast? = some (-s.vs2, s.vs.toNat, s.hs)) := by
  unfold copyBody
  constructor
  · exact (copyLines_chain e (same := e.wrap) id s.hs _ s.vs.toNat (initCS s.vs2) []
      ⟨Chain.nil, ⟨[], rfl⟩, Or.inl rfl⟩).1
  · intro hv hy
    rw [List.drop_eq_getElem_cons hv, copyLines, if_pos (show (initCS s.vs2).y < e.height from hy)]
    have hstart : InLine e.wrap [(-s.vs2, s.vs.toNat, s.hs)] s.vs.toNat (lineStart s.hs s.vs.toNat (initCS s.vs2)) :=
      ⟨Chain.single _, ⟨s.hs, [], rfl⟩, ⟨[], rfl⟩⟩
    have hline := copyLine_inLine e (same := e.wrap) id s.hs s.vs.toNat lines[s.vs.toNat] _ hstart
    obtain ⟨k1, ⟨c, tl, k2⟩, k3⟩ := hline
    have := (copyLines_chain e (same := e.wrap) id s.hs (lines.drop (s.vs.toNat + 1)) (s.vs.toNat + 1)
      (lineEnd (copyLine e s.hs s.vs.toNat lines[s.vs.toNat] (lineStart s.hs s.vs.toNat (initCS s.vs2))))
      [(-s.vs2, s.vs.toNat, s.hs)] ⟨k1, k3, Or.inr ⟨s.vs.toNat, c, tl, by
        show (copyLine e s.hs s.vs.toNat lines[s.vs.toNat] (lineStart s.hs s.vs.toNat (initCS s.vs2))).vl = (_ + 1 - 1, _, c) :: tl
        rw [k2]; congr 2; omega, rfl⟩⟩).2
    obtain ⟨nw, hnw⟩ := this
    rw [hnw]; simp

/-! ### every drawn cell of line `l` lies on a screen row recorded for line `l` -/

/-- each `rowcol_to_yx` entry has a `visible_line_to_row_col` entry for its screen row and line -/
def RcVl (e : Env) (st : CS) : Prop :=
  ∀ p ∈ st.rc, ∃ c, (p.2.1 - e.ypos, p.1.1, c) ∈ st.vl

theorem putChar_rc (e : Env) (i : Bool) (l s : Nat) (st : CS) (c : Char) :
    (putChar e i l s st c).rc = st.rc ∨
      (putChar e i l s st c).rc = ((l, st.col + s), (st.y + e.ypos, st.x + e.xpos)) :: st.rc := by
  unfold putChar
  split
  · cases i <;> simp
  · left; rfl

theorem putChar_rcvl (e : Env) {same base} (i : Bool) (l s : Nat) (st : CS) (c : Char)
    (h1 : InLine same base l st) (h2 : RcVl e st) : RcVl e (putChar e i l s st c) := by
  intro p hp
  rw [(putChar_vl e i l s st c).1]
  rcases putChar_rc e i l s st c with h | h
  · rw [h] at hp; exact h2 p hp
  · rw [h] at hp
    rcases List.mem_cons.mp hp with rfl | hp
    · obtain ⟨_, ⟨c0, tl, hv⟩, _⟩ := h1
      refine ⟨c0, ?_⟩
      rw [hv]; simp
    · exact h2 p hp

/-- the combined invariant while line `l` is being copied -/
def Inv2 (e : Env) (same : Bool) (base : List (Int × Nat × Int)) (l : Nat) (st : CS) : Prop :=
  InLine same base l st ∧ RcVl e st

theorem wrapSt_rcvl (e : Env) (l : Nat) (st : CS) (h : RcVl e st) : RcVl e (wrapSt l st) := by
  intro p hp
  obtain ⟨c, hc⟩ := h p hp
  exact ⟨c, by simp [wrapSt, hc]⟩

theorem step_inv2 (e : Env) {same : Bool} (hs : e.wrap = true → same = true) {base} (i : Bool) (l s : Nat)
    (hook : CS → CS) (hh : ∀ st, Inv2 e same base l st → Inv2 e same base l (hook st))
    (st : CS) (c : Char) (h : Inv2 e same base l st) : Inv2 e same base l (step e i l s hook st c) := by
  unfold step
  split
  · exact h
  · split
    · rename_i hw
      have hsame := hs hw.1
      subst hsame
      have h2 := hh _ ⟨wrapSt_inLine h.1, wrapSt_rcvl e l st h.2⟩
      simp only []
      split
      · exact h2
      · obtain ⟨p1, p2⟩ := putChar_vl e i l s (hook (wrapSt l st)) c
        refine ⟨?_, putChar_rcvl e i l s _ c h2.1 h2.2⟩
        unfold InLine; rw [p1, p2]; exact h2.1
    · obtain ⟨p1, p2⟩ := putChar_vl e i l s st c
      refine ⟨?_, putChar_rcvl e i l s _ c h.1 h.2⟩
      unfold InLine; rw [p1, p2]; exact h.1

theorem fold_inv2 (e : Env) {same : Bool} (hs : e.wrap = true → same = true) {base} (i : Bool) (l s : Nat)
    (hook : CS → CS) (hh : ∀ st, Inv2 e same base l st → Inv2 e same base l (hook st)) (cs : Text) :
    ∀ st, Inv2 e same base l st → Inv2 e same base l (cs.foldl (step e i l s hook) st) := by
  induction cs with
  | nil => intro st h; exact h
  | cons c cs ih => intro st h; exact ih _ (step_inv2 e hs i l s hook hh st c h)

theorem prefixHook_inv2 (e : Env) {same : Bool} (hs : e.wrap = true → same = true) {base} (l : Nat) :
    ∀ st, Inv2 e same base l st → Inv2 e same base l (prefixHook e l st) := by
  intro st h
  unfold prefixHook
  split
  · exact h
  · rename_i f _
    unfold copyPlain
    have := fold_inv2 e hs false l 0 id (fun _ h => h) (f l st.wc) { st with col := 0, wc := 0, ret := false } h
    exact this

theorem copyLine_inv2 (e : Env) {same : Bool} (hs : e.wrap = true → same = true) {base} (h0 : Int) (l : Nat)
    (line : Text) (st : CS) (h : Inv2 e same base l st) : Inv2 e same base l (copyLine e h0 l line st) := by
  unfold copyLine
  have h1 : Inv2 e same base l (shiftX (prefixHook e l (lineInit st)) (hskip e.W h0 line).1) :=
    prefixHook_inv2 e hs l (lineInit st) h
  exact fold_inv2 e hs true l _ _ (prefixHook_inv2 e hs l) _ _ h1

theorem copyLines_rcvl (e : Env) {same : Bool} (hs : e.wrap = true → same = true) (h0 : Int)
    (lines : List Text) :
    ∀ (l : Nat) (st : CS) (base), Between same base l st → RcVl e st →
      RcVl e (copyLines e h0 lines l st) := by
  induction lines with
  | nil => intro l st base _ h; exact h
  | cons ln rest ih =>
    intro l st base ⟨hc, ⟨nw, hb⟩, hl⟩ hr
    rw [copyLines]
    split
    · have hstart : InLine same base l (lineStart h0 l st) := by
        refine ⟨?_, ⟨h0, st.vl, rfl⟩, ⟨(st.y, l, h0) :: nw, by simp [lineStart, hb]⟩⟩
        show Chain same ((st.y, l, h0) :: st.vl)
        rcases hl with hnil | ⟨r, c, tl, hv, hr⟩
        · rw [hnil]; exact Chain.single _
        · rw [hv] at hc ⊢
          have := Chain.cons (st.y - 1) r l c h0 tl (Or.inl hr.symm) hc
          have e1 : st.y - 1 + 1 = st.y := by omega
          rw [e1] at this; exact this
      have hstartR : RcVl e (lineStart h0 l st) := by
        intro p hp
        obtain ⟨c, hc⟩ := hr p hp
        exact ⟨c, by simp [lineStart, hc]⟩
      have hline := copyLine_inv2 e hs h0 l ln _ ⟨hstart, hstartR⟩
      obtain ⟨⟨k1, ⟨c, tl, k2⟩, k3⟩, k4⟩ := hline
      refine ih (l + 1) (lineEnd _) base ⟨k1, k3, Or.inr ⟨l, c, tl, ?_, rfl⟩⟩ k4
      show (copyLine e h0 l ln (lineStart h0 l st)).vl = ((copyLine e h0 l ln (lineStart h0 l st)).y + 1 - 1, l, c) :: tl
      rw [k2]; congr 2; omega
    · exact hr

/-- in a chain every older entry is on a strictly higher screen row than the newest -/
theorem chain_lt {same : Bool} {y : Int} {r : Nat} {c : Int} {tl : List (Int × Nat × Int)}
    (h : Chain same ((y, r, c) :: tl)) : ∀ q ∈ tl, q.1 < y := by
  induction tl generalizing y r c with
  | nil => intro q hq; cases hq
  | cons hd tl ih =>
    intro q hq
    cases h with
    | cons y0 r0 r' c0 c' rest hor hch =>
      rcases List.mem_cons.mp hq with rfl | hq
      · show y0 < y0 + 1; omega
      · have := ih hch q hq; omega

/-- a screen row has one entry only -/
theorem chain_unique {same : Bool} (vl : List (Int × Nat × Int)) (h : Chain same vl) :
    ∀ a ∈ vl, ∀ b ∈ vl, a.1 = b.1 → a = b := by
  induction vl with
  | nil => intro a ha; cases ha
  | cons hd tl ih =>
    have htl : Chain same tl := by
      cases h with
      | single => exact Chain.nil
      | cons y r r' c c' rest _ hch => exact hch
    obtain ⟨y, r, c⟩ := hd
    have hlt := chain_lt h
    intro a ha b hb hab
    rcases List.mem_cons.mp ha with rfl | ha <;> rcases List.mem_cons.mp hb with rfl | hb
    · rfl
    · have := hlt b hb; simp at hab; omega
    · have := hlt a ha; simp at hab; omega
    · exact ih htl a ha b hb hab

/-- **cursor_row_is_cursor_line** (for every cell, any widths): if `rowcol_to_yx` maps `(row, col)`
    to screen row `Y`, then `visible_line_to_row_col` has an entry for that screen row, and every entry
    for that screen row names document line `row`. -/
theorem drawn_cell_row_recorded (e : Env) (lines : List Text) (s : Scroll) :
    let r := copyBody e lines s
    ∀ p ∈ r.rc, (∃ c, (p.2.1 - e.ypos, p.1.1, c) ∈ r.vl) ∧
      ∀ q ∈ r.vl, q.1 = p.2.1 - e.ypos → q.2.1 = p.1.1 := by
  intro r p hp
  have hch : Chain e.wrap r.vl := (rows_consecutive e lines s).1
  have hrv : RcVl e r := copyLines_rcvl e (same := e.wrap) id s.hs _ s.vs.toNat (initCS s.vs2) []
    ⟨Chain.nil, ⟨[], rfl⟩, Or.inl rfl⟩ (by intro p hp; cases hp)
  obtain ⟨c, hc⟩ := hrv p hp
  refine ⟨⟨c, hc⟩, fun q hq hy => ?_⟩
  have := chain_unique r.vl hch q hq _ hc hy
  rw [this]

end Ptk.C11
