/-
  C18 — `_ExplodedList` mutators keep the exploded invariant (and where the inherited `+=` and the
  index handling of `__setitem__` do not do what a list user expects), `to_formatted_text` with
  `auto_convert`, `PygmentsTokens`.
-/
import Ptk.Model.C18Expl
import Ptk.Props.C18Frag
namespace Ptk.C18
open Ptk.Py

/-- the invariant of an exploded list: every fragment holds exactly one character -/
def AllSingle (l : Frags) : Prop := ∀ f ∈ l, f.text.length = 1

instance (l : Frags) : Decidable (AllSingle l) := inferInstanceAs (Decidable (∀ f ∈ l, f.text.length = 1))

theorem allSingle_explode (fs : Frags) : AllSingle (explode fs) := explode_single fs

theorem allSingle_append {a b : Frags} (ha : AllSingle a) (hb : AllSingle b) : AllSingle (a ++ b) := by
  intro f hf; rcases List.mem_append.mp hf with h | h
  · exact ha f h
  · exact hb f h

theorem allSingle_take {l : Frags} (h : AllSingle l) (n : Nat) : AllSingle (l.take n) :=
  fun f hf => h f (List.mem_of_mem_take hf)

theorem allSingle_drop {l : Frags} (h : AllSingle l) (n : Nat) : AllSingle (l.drop n) :=
  fun f hf => h f (List.mem_of_mem_drop hf)

theorem allSingle_setSlice {l x : Frags} (hl : AllSingle l) (hx : AllSingle x) (a b : Option Int) :
    AllSingle (setSlice l a b x) := by
  unfold setSlice
  exact allSingle_append (allSingle_append (allSingle_take hl _) hx) (allSingle_drop hl _)

theorem allSingle_arg {l : Frags} (hl : AllSingle l) (x : ElArg) : AllSingle (elExplodeArg l x) := by
  cases x with
  | plain fs => exact allSingle_explode fs
  | self => exact hl

/-- the operations `_ExplodedList` defines itself (everything except the inherited `+=`) -/
def ElOp.own : ElOp → Bool
  | .iadd _ => false
  | _ => true

/-- **Every mutator `_ExplodedList` defines keeps the exploded invariant**: after `append`,
    `extend`, `insert` (which raises and changes nothing), `l[i] = …`, `l[a:b] = …` — with any
    index, any bounds, a fragment, a list of fragments of any lengths or the list itself as value —
    every fragment still holds exactly one character. -/
theorem elStep_allSingle (l : Frags) (op : ElOp) (hop : op.own = true) (hl : AllSingle l) :
    AllSingle (elStep l op).1 := by
  cases op with
  | append f => exact allSingle_append hl (allSingle_explode _)
  | extend x => exact allSingle_append hl (allSingle_arg hl x)
  | insert i f => exact hl
  | setItem i f => exact allSingle_setSlice hl (allSingle_explode [f]) (some i) (some (i + 1))
  | setItemList i x => exact allSingle_setSlice hl (allSingle_arg hl x) (some i) (some (i + 1))
  | setSlice a b x => exact allSingle_setSlice hl (allSingle_arg hl x) _ _
  | setSliceItem a b f => exact allSingle_setSlice hl (allSingle_explode _) _ _
  | iadd x => simp [ElOp.own] at hop
  | explodeSelf => exact hl

theorem elRun_allSingle (l : Frags) (ops : List ElOp) (hops : ∀ op ∈ ops, op.own = true)
    (hl : AllSingle l) : AllSingle (elRun l ops).1 := by
  induction ops generalizing l with
  | nil => exact hl
  | cons op ops ih =>
    simp only [elRun]
    exact ih _ (fun o ho => hops o (by simp [ho])) (elStep_allSingle l op (hops op (by simp)) hl)

/-- **`explode_text_fragments` then any sequence of the list's own mutators**: the result is
    exploded, for every input and every sequence. -/
theorem elSession_allSingle (fs : Frags) (ops : List ElOp) (hops : ∀ op ∈ ops, op.own = true) :
    AllSingle (elSession fs ops).1 :=
  elRun_allSingle _ ops hops (allSingle_explode fs)

/-- … but the inherited `+=` is `list.__iadd__`, which does not go through the overridden
    `extend`: it stores the fragments as they are (the list still claims `exploded = True`). -/
theorem iadd_breaks_exploded :
    ¬ AllSingle (elSession [⟨['a'], ['x', 'y'], none⟩] [.iadd [⟨['b'], ['u', 'v', 'w'], none⟩]]).1 := by
  decide

/-- content: `extend` / `append` add exactly the characters of the argument, in its styles -/
theorem elStep_extend_cells (l fs : Frags) :
    cells (elStep l (.extend (.plain fs))).1 = cells l ++ cells fs := by
  simp [elStep, elExplodeArg, cells_append, cells_explode]

theorem elStep_append_cells (l : Frags) (f : Frag) :
    cells (elStep l (.append f)).1 = cells l ++ cells [f] := by
  simp [elStep, cells_append, cells_explode]

theorem normIdx_nonneg (n i : Nat) : normIdx n (i : Int) = min i n := by
  have : ¬ ((i : Int) < 0) := by omega
  simp [normIdx, this]

/-- `l[i] = f` with an index inside the list replaces exactly the element at `i` by the exploded
    fragment … -/
theorem elStep_setItem_inRange (l : Frags) (i : Nat) (f : Frag) (hi : i < l.length) :
    (elStep l (.setItem (i : Int) f)).1 = l.take i ++ explode [f] ++ l.drop (i + 1) := by
  have h1 : normIdx l.length (i : Int) = i := by rw [normIdx_nonneg]; omega
  have h2 : normIdx l.length ((i : Int) + 1) = i + 1 := by
    have : ((i : Int) + 1) = ((i + 1 : Nat) : Int) := by simp
    rw [this, normIdx_nonneg]; omega
  simp only [elStep, setSlice, h1, h2]
  congr 2
  omega

/-- … but the code turns the index into `slice(i, i + 1)`, so for `i = -1` the slice is
    `slice(-1, 0)`, which is empty: the fragment is INSERTED before the last element instead of
    replacing it, and an index past the end appends instead of raising IndexError. -/
theorem setItem_minus_one_inserts :
    (elStep [⟨[], ['a'], none⟩, ⟨[], ['b'], none⟩] (.setItem (-1) ⟨[], ['z'], none⟩)).1 =
      [⟨[], ['a'], none⟩, ⟨[], ['z'], none⟩, ⟨[], ['b'], none⟩] ∧
    (elStep [⟨[], ['a'], none⟩] (.setItem 5 ⟨[], ['z'], none⟩)).1 =
      [⟨[], ['a'], none⟩, ⟨[], ['z'], none⟩] := by decide

/-- `explode_text_fragments` of an `_ExplodedList` returns it unchanged -/
theorem elStep_explodeSelf (l : Frags) : (elStep l .explodeSelf).1 = l := rfl

/-! ### to_formatted_text(auto_convert) -/

/-- no object that is not formatted text inside -/
def AnyV.pure : AnyV → Option AnyFT
  | .ft v => some v
  | .other _ => none
  | .call v => (AnyV.pure v).map AnyFT.call

/-- on formatted text `auto_convert` changes nothing -/
theorem toFormattedTextAC_ft (v : AnyV) (w : AnyFT) (st : Text) (ac : Bool) (h : v.pure = some w) :
    toFormattedTextAC v st ac = some (toFormattedText w st) := by
  induction v generalizing w ac with
  | ft u => simp [AnyV.pure] at h; subst h; rfl
  | other s => simp [AnyV.pure] at h
  | call u ih =>
    simp only [AnyV.pure, Option.map_eq_some_iff] at h
    obtain ⟨w', hw, rfl⟩ := h
    simp only [toFormattedTextAC, toFormattedText]
    exact ih w' false hw

/-- `auto_convert=True` turns any other object into one unstyled fragment with its `str()` … -/
theorem toFormattedTextAC_other (s st : Text) :
    toFormattedTextAC (.other s) st true = some (toFormattedText (.str s) st) := rfl

/-- … but the flag is not handed on to the value a callable returns: there the object is
    rejected although `auto_convert` was asked for -/
theorem toFormattedTextAC_call_other (s st : Text) (ac : Bool) :
    toFormattedTextAC (.call (.other s)) st ac = none := rfl

/-- the text of the result never depends on `style` -/
theorem toFormattedTextAC_texts (v : AnyV) (st : Text) (ac : Bool) (r : Frags)
    (h : toFormattedTextAC v st ac = some r) :
    ∃ r0, toFormattedTextAC v [] ac = some r0 ∧
      r.map (fun f => (f.text, f.handler)) = r0.map (fun f => (f.text, f.handler)) := by
  induction v generalizing ac with
  | ft u =>
    simp only [toFormattedTextAC, Option.some.injEq] at h ⊢
    subst h
    exact ⟨_, rfl, toFormattedText_texts u st⟩
  | other s =>
    cases ac with
    | false => simp [toFormattedTextAC] at h
    | true =>
      simp only [toFormattedTextAC, if_true, Option.some.injEq] at h ⊢
      subst h
      exact ⟨_, rfl, toFormattedText_texts (.str s) st⟩
  | call u ih =>
    simp only [toFormattedTextAC] at h ⊢
    exact ih false h

/-! ### PygmentsTokens -/

theorem pygmentsTokens_text (toks : List (List Text × Text)) :
    allText (pygmentsTokens toks) = (toks.map (·.2)).flatten := by
  simp [allText, pygmentsTokens, Function.comp_def]

theorem pygmentsTokens_length (toks : List (List Text × Text)) :
    (pygmentsTokens toks).length = toks.length := by simp [pygmentsTokens]

/-! ### non-vacuity -/

example : elSession [⟨['s'], ['x', 'y'], some 1⟩]
    [.append ⟨['t'], ['1', '2'], none⟩, .setItem 0 ⟨['u'], ['p', 'q'], none⟩, .insert 0 ⟨[], [], none⟩,
     .setSlice (some 1) (some 3) .self, .extend (.plain [⟨[], [], none⟩])] =
    ([⟨['u'], ['p'], none⟩, ⟨['u'], ['p'], none⟩, ⟨['u'], ['q'], none⟩, ⟨['s'], ['y'], some 1⟩,
      ⟨['t'], ['1'], none⟩, ⟨['t'], ['2'], none⟩, ⟨['t'], ['1'], none⟩, ⟨['t'], ['2'], none⟩],
     [false, false, true, false, false]) := by decide

example : pygmentsTokens [(["Name".toList, "Function".toList], "f".toList), ([], "x".toList)] =
    [⟨"class:pygments.name.function".toList, "f".toList, none⟩,
     ⟨"class:pygments".toList, "x".toList, none⟩] := by decide

/-! ### split_lines: only the line feed splits -/

theorem splitOn_noSep_id (c : Char) (t : Text) (h : c ∉ t) : splitOn c t = [t] := by
  induction t with
  | nil => rfl
  | cons x xs ih =>
    have hx : x ≠ c := fun e => h (by simp [e])
    have hxs : c ∉ xs := fun m => h (by simp [m])
    unfold splitOn
    rw [if_neg hx, ih hxs]

theorem splitGo_noNl (line fs : Frags) (h : ∀ f ∈ fs, '\n' ∉ f.text) :
    splitGo line fs = [line ++ fs] := by
  induction fs generalizing line with
  | nil => simp [splitGo]
  | cons f fs ih =>
    have hf := h f (by simp)
    simp only [splitGo, splitOn_noSep_id '\n' f.text hf, feedParts]
    rw [ih _ (fun g hg => h g (by simp [hg]))]
    simp

/-- **Only `\n` splits.**  A fragment list without a line feed — carriage returns, `\r` before
    the end, form feeds, U+2028 and every other character that `str.splitlines` would break at
    included — comes back as one line, unchanged (fragment boundaries, empty fragments, styles and
    mouse handlers included). -/
theorem splitLines_noNl_id (fs : Frags) (h : ∀ f ∈ fs, '\n' ∉ f.text) : splitLines fs = [fs] := by
  simpa [splitLines] using splitGo_noNl [] fs h

/-- a `\r\n` pair: the line feed splits, the carriage return stays at the end of its line -/
example : splitLines [⟨['s'], ['a', '\r', '\n', 'b', '\r'], some 7⟩] =
    [[⟨['s'], ['a', '\r'], some 7⟩], [⟨['s'], ['b', '\r'], some 7⟩]] := by decide

example : splitLines [⟨[], ['a', '\r', 'b'], none⟩, ⟨['x'], [], some 1⟩, ⟨[], [Char.ofNat 0x2028], none⟩] =
    [[⟨[], ['a', '\r', 'b'], none⟩, ⟨['x'], [], some 1⟩, ⟨[], [Char.ofNat 0x2028], none⟩]] := by decide

end Ptk.C18
