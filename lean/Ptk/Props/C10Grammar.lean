/-
  C10 part 7 — the output grammar is unambiguous, and the tokenizer computes its parse.

    * `isToken_accept`      the tokenizer reads every token of the grammar as exactly that one token
    * `token_prefix_free`   no token is a proper prefix of another token (tokens are self-delimiting)
    * `parse_unique`        a stream has at most one parse into tokens and non-control characters
    * `ctrlTokens_of_parse` the control tokens the tokenizer reports are the tokens of that parse
    * `parseG_sound`        the greedy parser only returns parses
    * `frame_unique_parse`  the stream of a rendered frame (hostile content, part 4) HAS a parse, it is
                            unique, and its tokens are the tokens of the renderer-generated pieces:
                            no text run can complete, extend or split a control token
-/
import Ptk.Props.C10Stream
import Ptk.Model.C10Grammar
namespace Ptk.C10
open Ptk.Py

/-! ### the tokenizer accepts the recognisers' languages -/

theorem tkRun_cons (k : TK) (c : CP) (cs : CText) : tkRun k (c :: cs) = tkRun (tkStep k c) cs := by
  simp [tkRun]

theorem interTail_run {t : CText} (h : interTail t = true) (cur : CText) (out : List CText) :
    tkRun ⟨.csiInter, cur, out⟩ t = ⟨.ground, [], finishTok (t.reverse ++ cur) out⟩ := by
  induction t generalizing cur with
  | nil => simp [interTail] at h
  | cons c cs ih =>
    simp only [interTail] at h
    rw [tkRun_cons]
    by_cases hi : isInter c = true
    · rw [if_pos hi] at h
      simp only [tkStep, hi, if_true]
      rw [ih h]; simp
    · rw [if_neg hi] at h
      simp only [Bool.and_eq_true, List.isEmpty_iff] at h
      obtain ⟨hf, rfl⟩ := h
      simp [tkStep, hi, hf, tkRun]

theorem csiTail_run {t : CText} (h : csiTail t = true) (cur : CText) (out : List CText) :
    tkRun ⟨.csiParam, cur, out⟩ t = ⟨.ground, [], finishTok (t.reverse ++ cur) out⟩ := by
  induction t generalizing cur with
  | nil => simp [csiTail] at h
  | cons c cs ih =>
    simp only [csiTail] at h
    rw [tkRun_cons]
    by_cases hp : isParam c = true
    · rw [if_pos hp] at h
      simp only [tkStep, hp, if_true]
      rw [ih h]; simp
    · rw [if_neg hp] at h
      simp only [interTail] at h
      by_cases hi : isInter c = true
      · rw [if_pos hi] at h
        simp only [tkStep, hp, hi, if_true, Bool.false_eq_true, if_false]
        rw [interTail_run h]; simp
      · rw [if_neg hi] at h
        simp only [Bool.and_eq_true, List.isEmpty_iff] at h
        obtain ⟨hf, rfl⟩ := h
        simp [tkStep, hp, hi, hf, tkRun]

theorem escTail_run {t : CText} (h : escTail t = true) (cur : CText) (out : List CText) :
    tkRun ⟨.escInter, cur, out⟩ t = ⟨.ground, [], finishTok (t.reverse ++ cur) out⟩ := by
  induction t generalizing cur with
  | nil => simp [escTail] at h
  | cons c cs ih =>
    simp only [escTail] at h
    rw [tkRun_cons]
    by_cases hi : isInter c = true
    · rw [if_pos hi] at h
      simp only [tkStep, hi, if_true]
      rw [ih h]; simp
    · rw [if_neg hi] at h
      simp only [Bool.and_eq_true, List.isEmpty_iff] at h
      obtain ⟨_, rfl⟩ := h
      simp [tkStep, hi, tkRun]

theorem strTail_run {t : CText} (h : strTail t = true) (cur : CText) (out : List CText) :
    tkRun ⟨.str, cur, out⟩ t = ⟨.ground, [], finishTok (t.reverse ++ cur) out⟩ := by
  induction t generalizing cur with
  | nil => simp [strTail] at h
  | cons c cs ih =>
    simp only [strTail] at h
    rw [tkRun_cons]
    by_cases hb : (c = BEL || c = ST8) = true
    · rw [if_pos hb] at h
      have : cs = [] := List.isEmpty_iff.mp h
      subst this
      simp only [tkStep, hb, if_true]
      simp [tkRun]
    · rw [if_neg hb] at h
      by_cases he : c = ESC
      · rw [if_pos he] at h
        have : cs = [BSLASH] := by simpa using h
        subst this
        subst he
        simp only [tkStep, hb, if_true, Bool.false_eq_true, if_false]
        simp [tkRun, tkStep]
      · rw [if_neg he] at h
        simp only [tkStep, hb, he, if_false, Bool.false_eq_true]
        rw [ih h]; simp

/-- **The tokenizer reads every token of the grammar as exactly that one token.** -/
theorem isToken_accept {t : CText} (h : isToken t = true) (out : List CText) :
    tkRun ⟨.ground, [], out⟩ t = ⟨.ground, [], t :: out⟩ := by
  match t, h with
  | c :: cs, h =>
    simp only [isToken] at h
    rw [tkRun_cons]
    by_cases he : c = ESC
    · subst he
      rw [if_pos rfl] at h
      match cs, h with
      | d :: ds, h =>
        simp only at h
        have g : tkStep ⟨.ground, [], out⟩ ESC = ⟨.esc, [ESC], out⟩ := by simp [tkStep, groundStep]
        rw [g, tkRun_cons]
        by_cases h1 : d = LBRACK
        · rw [if_pos h1] at h
          simp only [tkStep, h1, if_true]
          rw [csiTail_run h]; simp [finishTok]
        · rw [if_neg h1] at h
          by_cases h2 : isStrIntro d = true
          · rw [if_pos h2] at h
            simp only [tkStep, h1, h2, if_true, if_false]
            rw [strTail_run h]; simp [finishTok]
          · rw [if_neg h2] at h
            by_cases h3 : isInter d = true
            · rw [if_pos h3] at h
              simp only [tkStep, h1, h2, h3, if_true, if_false, Bool.false_eq_true]
              rw [escTail_run h]; simp [finishTok]
            · rw [if_neg h3] at h
              simp only [Bool.and_eq_true, List.isEmpty_iff] at h
              obtain ⟨_, rfl⟩ := h
              simp [tkStep, h1, h2, h3, tkRun, finishTok]
    · rw [if_neg he] at h
      by_cases hc : c = CSI8
      · subst hc
        rw [if_pos rfl] at h
        have g : tkStep ⟨.ground, [], out⟩ CSI8 = ⟨.csiParam, [CSI8], out⟩ := by
          simp [tkStep, groundStep, CSI8, ESC]
        rw [g, csiTail_run h]; simp [finishTok]
      · rw [if_neg hc] at h
        simp only [Bool.and_eq_true, List.isEmpty_iff] at h
        obtain ⟨hctl, rfl⟩ := h
        simp [tkStep, groundStep, he, hc, hctl, tkRun]

example : isToken [ESC, LBRACK, 0x3f, 0x32, 0x35, 0x6c] = true ∧ isToken [ESC, 0x5d, 0x30, 0x3b, 0x74, BEL] = true ∧
    isToken [ESC, 0x28, 0x30] = true ∧ isToken [13] = true ∧ isToken [CSI8, 0x33, 0x31, 0x6d] = true ∧
    isToken [ESC, LBRACK] = false ∧ isToken [ESC, LBRACK, 0x6d, 0x6d] = false ∧ isToken [0x61] = false := by decide

/-! ### no token is accepted early: tokens are prefix-free -/

theorem interTail_early {u v : CText} (h : interTail (u ++ v) = true) (hv : v ≠ []) (cur : CText)
    (out : List CText) : (tkRun ⟨.csiInter, cur, out⟩ u).st = .csiInter := by
  induction u generalizing cur with
  | nil => rfl
  | cons c cs ih =>
    simp only [List.cons_append, interTail] at h
    rw [tkRun_cons]
    by_cases hi : isInter c = true
    · rw [if_pos hi] at h
      simp only [tkStep, hi, if_true]
      exact ih h _
    · rw [if_neg hi] at h
      simp only [Bool.and_eq_true, List.isEmpty_iff, List.append_eq_nil_iff] at h
      exact absurd h.2.2 hv

theorem csiTail_early {u v : CText} (h : csiTail (u ++ v) = true) (hv : v ≠ []) (cur : CText)
    (out : List CText) : (tkRun ⟨.csiParam, cur, out⟩ u).st ≠ .ground := by
  induction u generalizing cur with
  | nil => simp [tkRun]
  | cons c cs ih =>
    simp only [List.cons_append, csiTail] at h
    rw [tkRun_cons]
    by_cases hp : isParam c = true
    · rw [if_pos hp] at h
      simp only [tkStep, hp, if_true]
      exact ih h _
    · rw [if_neg hp] at h
      simp only [interTail] at h
      by_cases hi : isInter c = true
      · rw [if_pos hi] at h
        simp only [tkStep, hp, hi, if_true, Bool.false_eq_true, if_false]
        rw [interTail_early h hv]; simp
      · rw [if_neg hi] at h
        simp only [Bool.and_eq_true, List.isEmpty_iff, List.append_eq_nil_iff] at h
        exact absurd h.2.2 hv

theorem escTail_early {u v : CText} (h : escTail (u ++ v) = true) (hv : v ≠ []) (cur : CText)
    (out : List CText) : (tkRun ⟨.escInter, cur, out⟩ u).st = .escInter := by
  induction u generalizing cur with
  | nil => rfl
  | cons c cs ih =>
    simp only [List.cons_append, escTail] at h
    rw [tkRun_cons]
    by_cases hi : isInter c = true
    · rw [if_pos hi] at h
      simp only [tkStep, hi, if_true]
      exact ih h _
    · rw [if_neg hi] at h
      simp only [Bool.and_eq_true, List.isEmpty_iff, List.append_eq_nil_iff] at h
      exact absurd h.2.2 hv

theorem strTail_early {u v : CText} (h : strTail (u ++ v) = true) (hv : v ≠ []) (cur : CText)
    (out : List CText) : (tkRun ⟨.str, cur, out⟩ u).st ≠ .ground := by
  induction u generalizing cur with
  | nil => simp [tkRun]
  | cons c cs ih =>
    simp only [List.cons_append, strTail] at h
    rw [tkRun_cons]
    by_cases hb : (c = BEL || c = ST8) = true
    · rw [if_pos hb] at h
      simp only [List.isEmpty_iff, List.append_eq_nil_iff] at h
      exact absurd h.2 hv
    · rw [if_neg hb] at h
      by_cases he : c = ESC
      · rw [if_pos he] at h
        have hcs : cs ++ v = [BSLASH] := by simpa using h
        have : cs = [] := by
          cases cs with
          | nil => rfl
          | cons x xs =>
            simp only [List.cons_append, List.cons.injEq, List.append_eq_nil_iff] at hcs
            exact absurd hcs.2.2 hv
        subst this
        subst he
        simp only [tkStep, hb, if_true, Bool.false_eq_true, if_false]
        simp [tkRun]
      · rw [if_neg he] at h
        simp only [tkStep, hb, he, if_false, Bool.false_eq_true]
        exact ih h _

/-- a token is never accepted before its last character -/
theorem isToken_early {u v : CText} (h : isToken (u ++ v) = true) (hu : u ≠ []) (hv : v ≠ [])
    (out : List CText) : (tkRun ⟨.ground, [], out⟩ u).st ≠ .ground := by
  match u, hu with
  | c :: us, _ =>
    simp only [List.cons_append, isToken] at h
    rw [tkRun_cons]
    by_cases he : c = ESC
    · subst he
      rw [if_pos rfl] at h
      have g : tkStep ⟨.ground, [], out⟩ ESC = ⟨.esc, [ESC], out⟩ := by simp [tkStep, groundStep]
      rw [g]
      match us, h with
      | [], _ => simp [tkRun]
      | d :: ds, h =>
        simp only [List.cons_append] at h
        rw [tkRun_cons]
        by_cases h1 : d = LBRACK
        · rw [if_pos h1] at h
          simp only [tkStep, h1, if_true]
          exact csiTail_early h hv _ _
        · rw [if_neg h1] at h
          by_cases h2 : isStrIntro d = true
          · rw [if_pos h2] at h
            simp only [tkStep, h1, h2, if_true, if_false]
            exact strTail_early h hv _ _
          · rw [if_neg h2] at h
            by_cases h3 : isInter d = true
            · rw [if_pos h3] at h
              simp only [tkStep, h1, h2, h3, if_true, if_false, Bool.false_eq_true]
              rw [escTail_early h hv]; simp
            · rw [if_neg h3] at h
              simp only [Bool.and_eq_true, List.isEmpty_iff, List.append_eq_nil_iff] at h
              exact absurd h.2.2 hv
    · rw [if_neg he] at h
      by_cases hc : c = CSI8
      · subst hc
        rw [if_pos rfl] at h
        have g : tkStep ⟨.ground, [], out⟩ CSI8 = ⟨.csiParam, [CSI8], out⟩ := by
          simp [tkStep, groundStep, CSI8, ESC]
        rw [g]
        exact csiTail_early h hv _ _
      · rw [if_neg hc] at h
        simp only [Bool.and_eq_true, List.isEmpty_iff, List.append_eq_nil_iff] at h
        exact absurd h.2.2 hv

theorem isToken_ne_nil {t : CText} (h : isToken t = true) : t ≠ [] := by
  intro e; subst e; simp [isToken] at h

/-- **Tokens are prefix-free**: if two tokens start at the same place of a stream, they are the
    same token — no token can be extended into, or cut down to, another one. -/
theorem token_prefix_free {t1 t2 r1 r2 : CText} (h1 : isToken t1 = true) (h2 : isToken t2 = true)
    (h : t1 ++ r1 = t2 ++ r2) : t1 = t2 ∧ r1 = r2 := by
  rcases List.append_eq_append_iff.mp h with ⟨w, hw, hr⟩ | ⟨w, hw, hr⟩
  · -- t2 = t1 ++ w
    by_cases hwn : w = []
    · subst hwn; simp at hw hr; exact ⟨hw.symm, hr⟩
    · rw [hw] at h2
      have := isToken_early h2 (isToken_ne_nil h1) hwn []
      rw [isToken_accept h1] at this
      exact absurd rfl this
  · by_cases hwn : w = []
    · subst hwn; simp at hw hr; exact ⟨hw, hr.symm⟩
    · rw [hw] at h1
      have := isToken_early h1 (isToken_ne_nil h2) hwn []
      rw [isToken_accept h2] at this
      exact absurd rfl this

/-- a token starts with a control character -/
theorem isToken_head {c : CP} {cs : CText} (h : isToken (c :: cs) = true) : isControl c = true := by
  simp only [isToken] at h
  by_cases he : c = ESC
  · subst he; decide
  · rw [if_neg he] at h
    by_cases hc : c = CSI8
    · subst hc; decide
    · rw [if_neg hc] at h
      simp only [Bool.and_eq_true] at h
      exact h.1

/-! ### parses -/

/-- `ps` is a parse: every piece is a token of the grammar or a non-control character -/
def Parse (ps : List Piece) : Prop := ∀ p ∈ ps, p.ok = true

def HasParse (s : CText) : Prop := ∃ ps, Parse ps ∧ flat ps = s

theorem flat_cons (p : Piece) (ps : List Piece) : flat (p :: ps) = p.text ++ flat ps := by
  simp [flat]

/-- **The grammar is unambiguous**: a stream has at most one parse. -/
theorem parse_unique {ps qs : List Piece} (hp : Parse ps) (hq : Parse qs) (h : flat ps = flat qs) :
    ps = qs := by
  induction ps generalizing qs with
  | nil =>
    cases qs with
    | nil => rfl
    | cons q qs =>
      exfalso
      rw [flat_cons] at h
      have hq1 := hq q (by simp)
      cases q with
      | ch c => simp [flat, Piece.text] at h
      | tok t =>
        have := isToken_ne_nil (by simpa [Piece.ok] using hq1 : isToken t = true)
        simp [flat, Piece.text] at h
        exact this h.1
  | cons p ps ih =>
    have hp1 := hp p (by simp)
    have hps : Parse ps := fun x hx => hp x (by simp [hx])
    cases qs with
    | nil =>
      exfalso
      rw [flat_cons] at h
      cases p with
      | ch c => simp [flat, Piece.text] at h
      | tok t =>
        have := isToken_ne_nil (by simpa [Piece.ok] using hp1 : isToken t = true)
        simp [flat, Piece.text] at h
        exact this h.1
    | cons q qs =>
      have hq1 := hq q (by simp)
      have hqs : Parse qs := fun x hx => hq x (by simp [hx])
      rw [flat_cons, flat_cons] at h
      cases p with
      | ch c =>
        cases q with
        | ch d =>
          simp only [Piece.text, List.cons_append, List.nil_append, List.cons.injEq] at h
          rw [h.1, ih hps hqs h.2]
        | tok t =>
          exfalso
          have ht : isToken t = true := by simpa [Piece.ok] using hq1
          match t, ht with
          | d :: ds, ht =>
            simp only [Piece.text, List.cons_append, List.nil_append, List.cons.injEq] at h
            have := isToken_head ht
            rw [← h.1] at this
            simp [Piece.ok, this] at hp1
      | tok t =>
        have ht : isToken t = true := by simpa [Piece.ok] using hp1
        cases q with
        | ch d =>
          exfalso
          match t, ht with
          | c :: cs, ht =>
            simp only [Piece.text, List.cons_append, List.nil_append, List.cons.injEq] at h
            have := isToken_head ht
            rw [h.1] at this
            simp [Piece.ok, this] at hq1
        | tok t' =>
          have ht' : isToken t' = true := by simpa [Piece.ok] using hq1
          simp only [Piece.text] at h
          obtain ⟨e1, e2⟩ := token_prefix_free ht ht' h
          rw [e1, ih hps hqs e2]

theorem run_parse {ps : List Piece} (hp : Parse ps) (out : List CText) :
    tkRun ⟨.ground, [], out⟩ (flat ps) = ⟨.ground, [], (toks ps).reverse ++ out⟩ := by
  induction ps generalizing out with
  | nil => simp [flat, toks, tkRun]
  | cons p ps ih =>
    have hps : Parse ps := fun x hx => hp x (by simp [hx])
    have hp1 := hp p (by simp)
    rw [flat_cons, tkRun_append]
    cases p with
    | ch c =>
      have hc : isControl c = false := by simpa [Piece.ok] using hp1
      simp only [Piece.text, tkRun_cons, tkStep, groundStep_clean out hc]
      simp only [tkRun, List.foldl_nil]
      have := ih hps out
      simp only [tkRun] at this
      rw [this]; simp [toks]
    | tok t =>
      have ht : isToken t = true := by simpa [Piece.ok] using hp1
      simp only [Piece.text]
      rw [isToken_accept ht, ih hps]
      simp [toks]

/-- **The tokenizer computes the parse**: the control tokens it reports for a well-formed stream are
    exactly the tokens of the stream's (unique) parse, and it ends in the ground state. -/
theorem ctrlTokens_of_parse {ps : List Piece} (hp : Parse ps) :
    ctrlTokens (flat ps) = toks ps ∧ Complete (flat ps) := by
  have h := run_parse hp []
  have e0 : (⟨.ground, [], []⟩ : TK) = tk0 := rfl
  rw [e0] at h
  constructor
  · unfold ctrlTokens; simp [h]
  · unfold Complete; rw [h]

theorem hasParse_nil : HasParse [] := ⟨[], by intro p h; simp at h, rfl⟩

theorem hasParse_append {a b : CText} (ha : HasParse a) (hb : HasParse b) : HasParse (a ++ b) := by
  obtain ⟨pa, h1, rfl⟩ := ha
  obtain ⟨pb, h2, rfl⟩ := hb
  refine ⟨pa ++ pb, ?_, by simp [flat]⟩
  intro p hp
  rcases List.mem_append.mp hp with h | h
  · exact h1 p h
  · exact h2 p h

theorem hasParse_clean {t : CText} (h : Clean t) : HasParse t := by
  refine ⟨t.map Piece.ch, ?_, ?_⟩
  · intro p hp
    simp only [List.mem_map] at hp
    obtain ⟨c, hc, rfl⟩ := hp
    simp [Piece.ok, h c hc]
  · induction t with
    | nil => rfl
    | cons c cs ih =>
      rw [List.map_cons, flat_cons, ih (fun x hx => h x (by simp [hx]))]
      rfl

theorem hasParse_token {t : CText} (h : isToken t = true) : HasParse t :=
  ⟨[.tok t], by intro p hp; simp at hp; subst hp; simpa [Piece.ok] using h, by simp [flat, Piece.text]⟩

/-- the greedy parser only returns parses of its input -/
theorem parseG_sound (fuel : Nat) (s : CText) (ps : List Piece) (h : parseG fuel s = some ps) :
    Parse ps ∧ flat ps = s := by
  induction fuel generalizing s ps with
  | zero =>
    cases s with
    | nil => simp [parseG] at h; subst h; exact ⟨by intro p hp; simp at hp, rfl⟩
    | cons c cs => simp [parseG] at h
  | succ fuel ih =>
    cases s with
    | nil => simp [parseG] at h; subst h; exact ⟨by intro p hp; simp at hp, rfl⟩
    | cons c cs =>
      simp only [parseG] at h
      split at h
      · rename_i hc
        simp only [Option.map_eq_some_iff] at h
        obtain ⟨qs, hq, rfl⟩ := h
        obtain ⟨h1, h2⟩ := ih cs qs hq
        refine ⟨?_, by rw [flat_cons, h2]; rfl⟩
        intro p hp
        simp only [List.mem_cons] at hp
        rcases hp with rfl | hp
        · simpa [Piece.ok] using hc
        · exact h1 p hp
      · split at h
        · cases h
        · rename_i n hn
          split at h
          · cases h
          · simp only [Option.map_eq_some_iff] at h
            obtain ⟨qs, hq, rfl⟩ := h
            obtain ⟨h1, h2⟩ := ih _ qs hq
            have htok : isToken ((c :: cs).take n) = true := by
              have := List.find?_some hn
              simpa using this
            refine ⟨?_, by rw [flat_cons, h2]; simp [Piece.text]⟩
            intro p hp
            simp only [List.mem_cons] at hp
            rcases hp with rfl | hp
            · simpa [Piece.ok] using htok
            · exact h1 p hp

theorem parse_sound {s : CText} {ps : List Piece} (h : parse s = some ps) : Parse ps ∧ flat ps = s :=
  parseG_sound _ s ps h

def parses (s : CText) : Bool := (parse s).isSome

theorem hasParse_of_parses {s : CText} (h : parses s = true) : HasParse s := by
  unfold parses at h
  obtain ⟨ps, hps⟩ := Option.isSome_iff_exists.mp h
  exact ⟨ps, parse_sound hps⟩

-- the show-cursor string of the real Vt100_Output is two tokens
example : parse Gen.C10.showCursor =
    some [.tok [ESC, LBRACK, 0x3f, 0x31, 0x32, 0x6c], .tok [ESC, LBRACK, 0x3f, 0x32, 0x35, 0x68]] := by decide +kernel

/-! ### the renderer's pieces are sentences of the grammar -/

theorem csiTail_params_final (ds : CText) (hd : ∀ c ∈ ds, isParam c = true) {f : CP} (hf : isFinal f = true) :
    csiTail (ds ++ [f]) = true := by
  induction ds with
  | nil =>
    simp only [isFinal, Bool.and_eq_true, decide_eq_true_eq] at hf
    have h1 : isParam f = false := by simp [isParam]; omega
    have h2 : isInter f = false := by simp [isInter]; omega
    have h3 : isFinal f = true := by simp [isFinal]; omega
    simp [csiTail, interTail, h1, h2, h3]
  | cons c cs ih =>
    simp only [List.cons_append, csiTail, hd c (by simp), if_true]
    exact ih (fun x hx => hd x (by simp [hx]))

/-- decidable well-formedness of the emitter strings w.r.t. the grammar -/
def emitParses (E : Emit) : Bool :=
  parses E.hide && parses E.show_ && parses E.reset && parses E.eraseDown &&
  parses E.eraseEol && parses E.disableWrap && parses E.enableWrap &&
  parses E.up1 && parses E.fwd1 && parses E.back1 &&
  csiAmount E.upPre E.upSuf && csiAmount E.fwdPre E.fwdSuf && csiAmount E.backPre E.backSuf

theorem amountSeq_hasParse {one pre suf : CText} (h1 : parses one = true) (h2 : csiAmount pre suf = true)
    (n : Nat) : HasParse (amountSeq one pre suf n) := by
  match n with
  | 0 => exact hasParse_nil
  | 1 => exact hasParse_of_parses h1
  | n + 2 =>
    simp only [amountSeq]
    simp only [csiAmount, Bool.and_eq_true, beq_iff_eq] at h2
    obtain ⟨hp, hs⟩ := h2
    subst hp
    match suf, hs with
    | [f], hs =>
      apply hasParse_token
      have : [ESC, LBRACK] ++ decimal (n + 2) ++ [f] = ESC :: LBRACK :: (decimal (n + 2) ++ [f]) := by simp
      rw [this]
      simp only [isToken, if_true]
      exact csiTail_params_final _ (decimal_params _) hs

theorem repeatCrLf_hasParse (k : Nat) : HasParse (repeatCrLf k) := by
  induction k with
  | zero => exact hasParse_nil
  | succ k ih =>
    have : repeatCrLf (k + 1) = [CR] ++ ([LF] ++ repeatCrLf k) := rfl
    rw [this]
    exact hasParse_append (hasParse_token (by decide)) (hasParse_append (hasParse_token (by decide)) ih)

/-- every piece of a rendered frame is a sentence of the grammar -/
theorem vtEv_hasParse {E : Emit} {sgr : Nat → CText} (hE : emitParses E = true) (hs : ∀ a, HasParse (sgr a))
    {scr : Screen} (hb : BufClean scr.buf) (hd : Clean scr.dflt.char)
    (hz : ∀ e ∈ scr.zwe, HasParse e.2) (v : VtSt) {e : Ev} (he : EvOk scr e) :
    HasParse (vtEv E sgr v e).2.2 := by
  simp only [emitParses, Bool.and_eq_true] at hE
  obtain ⟨⟨⟨⟨⟨⟨⟨⟨⟨⟨⟨⟨e1, e2⟩, e3⟩, e4⟩, e5⟩, e6⟩, e7⟩, e8⟩, e9⟩, e10⟩, e11⟩, e12⟩, e13⟩ := hE
  cases e with
  | cell t =>
    apply hasParse_clean
    apply safe_write_clean
    rcases he with h | ⟨pc, hpc, h⟩
    · rw [h]; exact hd
    · rw [h]; exact hb pc hpc
  | cr => exact hasParse_token (show isToken (safeWrite [CR]) = true by decide)
  | nl k => simp only [vtEv, safeWrite_crlf]; exact repeatCrLf_hasParse k
  | raw t =>
    obtain ⟨z, hz', rfl⟩ := he
    exact hz z hz'
  | hideCursor =>
    simp only [vtEv]; split
    · exact hasParse_nil
    · exact hasParse_of_parses e1
  | showCursor =>
    simp only [vtEv]; split
    · exact hasParse_nil
    · exact hasParse_of_parses e2
  | resetAttrs => exact hasParse_of_parses e3
  | setAttrs a => exact hs a
  | fwd n => exact amountSeq_hasParse e9 e12 n
  | back n => exact amountSeq_hasParse e10 e13 n
  | up n => exact amountSeq_hasParse e8 e11 n
  | eraseDown => exact hasParse_of_parses e4
  | eraseEol => exact hasParse_of_parses e5
  | disableWrap => exact hasParse_of_parses e6
  | enableWrap => exact hasParse_of_parses e7

theorem vtSegs_hasParse {E : Emit} {sgr : Nat → CText} (hE : emitParses E = true) (hs : ∀ a, HasParse (sgr a))
    {scr : Screen} (hb : BufClean scr.buf) (hd : Clean scr.dflt.char)
    (hz : ∀ e ∈ scr.zwe, HasParse e.2) (evs : List Ev) (hev : ∀ e ∈ evs, EvOk scr e) (v : VtSt) :
    HasParse (segsText (vtSegs E sgr v evs).2) := by
  induction evs generalizing v with
  | nil => exact hasParse_nil
  | cons e es ih =>
    simp only [vtSegs]
    have : segsText ((vtEv E sgr v e).2 :: (vtSegs E sgr (vtEv E sgr v e).1 es).2) =
        (vtEv E sgr v e).2.2 ++ segsText (vtSegs E sgr (vtEv E sgr v e).1 es).2 := by simp [segsText]
    rw [this]
    exact hasParse_append (vtEv_hasParse hE hs hb hd hz v (hev e (by simp)))
      (ih (fun e' he' => hev e' (by simp [he'])) _)

/-- the emitter strings regenerated from the real `Vt100_Output` are sentences of the grammar -/
theorem gen_emit_parses : emitParses genEmit = true := by decide +kernel

/-- **Unambiguous parse of a rendered frame.**  For ANY screen whose cells are control-free (what
    `_copy_body` guarantees for any content) and whose zero-width escapes are sentences of the
    grammar, any previous screen, cursor, style state and flags: the text a `Vt100_Output` sends for
    `_output_screen_diff` has a parse into control tokens and non-control characters; that parse is
    the ONLY one; and the tokenizer's control tokens are exactly the tokens of this parse.  So the
    meaning of the byte stream does not depend on how a terminal happens to cut it: no text run can
    complete, extend or split a control token. -/
theorem frame_unique_parse {E : Emit} {sgr : Nat → CText} (hE : emitParses E = true)
    (hs : ∀ a, HasParse (sgr a)) (cfg : DiffCfg) (d0 : Cell) (scr : Screen) (prev : Option Screen)
    (x0 y0 : Nat) (last : Option Text) (isDone fullScreen : Bool) (prevWidth : Nat) (v : VtSt)
    (hb : BufClean scr.buf) (hd : Clean scr.dflt.char) (hz : ∀ e ∈ scr.zwe, HasParse e.2) :
    let s := renderText E sgr v (diff cfg d0 scr prev x0 y0 last isDone fullScreen prevWidth)
    ∃ ps, Parse ps ∧ flat ps = s ∧ (∀ qs, Parse qs → flat qs = s → qs = ps) ∧ ctrlTokens s = toks ps := by
  intro s
  have hev : ∀ e ∈ (diff cfg d0 scr prev x0 y0 last isDone fullScreen prevWidth).evs.reverse, EvOk scr e := by
    intro e he
    exact diff_writes_only_cells cfg d0 scr prev x0 y0 last isDone fullScreen prevWidth e (List.mem_reverse.mp he)
  obtain ⟨ps, hp, hf⟩ := vtSegs_hasParse hE hs hb hd hz _ hev v
  refine ⟨ps, hp, hf, ?_, ?_⟩
  · intro qs hq hfq
    exact parse_unique hq hp (hfq.trans hf.symm)
  · have := (ctrlTokens_of_parse hp).1
    rw [hf] at this
    exact this

-- non-vacuity: the hostile example frame of part 4 parses, into 20 tokens
example : parses (renderText genEmit exSgr none (diff exDiffCfg genD0 exScreen none 0 0 none false false 0)) = true := by
  decide +kernel

end Ptk.C10
