/-
  C19 — Style resolution is a deterministic last-wins cascade, faithfully encoded.

  Headline theorems, instantiated for the tables regenerated from /repo (`Gen.C19.tables`) where a
  table is involved; every side condition on the tables is re-decided by the kernel in this file
  (`gen_*`).  The general statements (any table / any palette / any whitespace predicate) and their
  proofs live in `C19Cascade`, `C19Color`, `C19Sgr`, `C19Depth`.  Each theorem is followed by an
  `example` showing that its hypotheses are satisfiable on a non-trivial input.
-/
import Ptk.Gen.PyChars
import Ptk.Gen.C19
import Ptk.Props.C19Cascade
import Ptk.Props.C19Color
import Ptk.Props.C19Sgr
import Ptk.Props.C19Depth
import Ptk.Props.C19Style
import Ptk.Props.C19Valid
import Ptk.Props.C19Merge
namespace Ptk.C19
open Ptk.Py

abbrev G : Tables := Gen.C19.tables
abbrev gsp : Char → Bool := Gen.isSpace
abbrev grsp : Char → Bool := Gen.reSpace

/-! ## side conditions, re-decided on the regenerated tables on every run -/

/-- encoder tables (vt100.py) and decoder tables (ansi.py) are mutually inverse on the ANSI names,
    the control parameters 0,1,3,4,5,7,8,9,38,48 are not colour codes, no ANSI name is empty or
    six hex digits, the code tables only have ANSI names as keys -/
theorem gen_encDecOk : EncDecOk G := encDecOk_of_bool G (by decide +kernel)
theorem gen_codesBounded : CodesBounded G := by decide +kernel
theorem gen_pal_inRange : ∀ p ∈ G.pal256, InRange p := by decide +kernel
theorem gen_pal_length : G.pal256.length = 254 := by decide +kernel
theorem gen_ansiRgb_inRange : ∀ np ∈ G.ansiRgb, InRange np.2 := by decide +kernel
/-- visible ASCII is not whitespace for the interpreter's `str.isspace`, the blank is -/
theorem gen_spOk : SpOk gsp := by
  refine ⟨by decide +kernel, ?_⟩
  intro ch h1 h2
  simp [gsp, Gen.isSpace, Gen.inRanges, Gen.isSpaceRanges]
  omega
theorem gen_defaultAttrs :
    G.defaultAttrs = { color := some [], bgcolor := some [], bold := some false, underline := some false,
                       strike := some false, italic := some false, blink := some false,
                       reverse := some false, hidden := some false } := by decide +kernel
theorem gen_emptyAttrs :
    G.emptyAttrs = { color := none, bgcolor := none, bold := none, underline := none, strike := none,
                     italic := none, blink := none, reverse := none, hidden := none } := by decide +kernel

/-- ANSI names / alias keys / named-colour keys are words the style parser reads back as such;
    `_EMPTY_ATTRS` is all-None and `DEFAULT_ATTRS` is ''/False everywhere -/
theorem gen_styleOk : StyleOk G := styleOk_of_bool G (by decide +kernel)

/-- alias values are ANSI names, named-colour values are six hex digits -/
theorem gen_colorTablesOk : ColorTablesOk G := colorTablesOk_of_bool G (by decide +kernel)

/-! ## 1. the cascade -/

/-- sample sheet used by the non-vacuity examples:
    `Style([('a','bold #ff0000'), ('a b','italic #00ff00'), ('','underline'), ('a.x','bg:ansiblue nobold')])` -/
def sampleSheet : List (Text × Text) :=
  [("a".toList, "bold #ff0000".toList), ("a b".toList, "italic #00ff00".toList),
   ("".toList, "underline".toList), ("a.x".toList, "bg:ansiblue nobold".toList)]

def sampleRules : List Rule :=
  match compile G gsp grsp sampleSheet with
  | .ok r => r
  | .error _ => []

/-- **C19-a (last wins, concrete).**  For any sheet, style string and default: if resolution
    returns, every attribute is concrete and is the value set by the LAST source that sets it, in
    the order: default argument, default rules, then — part by part from left to right — the rules
    selected at each class name (in sheet order) and the inline parts. -/
theorem style_resolution_last_wins (rules : List Rule) (s : Text) (d a : Attrs)
    (h : getAttrs G gsp rules s d = some a) :
    ∃ srcs, sources G gsp rules s d = some srcs ∧ Concrete a ∧
      ∃ c bg b u st i bl r hd,
        a = { color := some c, bgcolor := some bg, bold := some b, underline := some u,
              strike := some st, italic := some i, blink := some bl, reverse := some r,
              hidden := some hd } ∧
        LastWins (·.color) (srcs.map Src.attrs) [] c ∧
        LastWins (·.bgcolor) (srcs.map Src.attrs) [] bg ∧
        LastWins (·.bold) (srcs.map Src.attrs) false b ∧
        LastWins (·.underline) (srcs.map Src.attrs) false u ∧
        LastWins (·.strike) (srcs.map Src.attrs) false st ∧
        LastWins (·.italic) (srcs.map Src.attrs) false i ∧
        LastWins (·.blink) (srcs.map Src.attrs) false bl ∧
        LastWins (·.reverse) (srcs.map Src.attrs) false r ∧
        LastWins (·.hidden) (srcs.map Src.attrs) false hd :=
  cascade_last_wins G gsp rules s d a h

/-- non-vacuity: 'class:a.x,b #0000ff' against the sample sheet: the later inline colour beats both
    rule colours, `nobold` of the later rule `a.x` beats `bold` of rule `a`, the combination rule
    `a b` applies (italic) because both classes are present -/
example : getAttrs G gsp sampleRules "class:a.x,b #0000ff".toList G.defaultAttrs =
    some { color := some "0000ff".toList, bgcolor := some "ansiblue".toList, bold := some false,
           underline := some true, strike := some false, italic := some true, blink := some false,
           reverse := some false, hidden := some false } := by decide +kernel

/-- **C19-b (which rules apply).**  A rule takes part in the resolution of a style string iff all
    its class names occur among the class names of the string (dotted names expanded to their
    prefixes): a rule for a combination of classes applies only when all of them are present, and
    does apply when they are. -/
theorem rule_takes_part_iff (rules : List Rule) (s : Text) (d : Attrs) (srcs : List Src)
    (h : sources G gsp rules s d = some srcs) (r : Rule) :
    Src.rule r ∈ srcs ↔ r ∈ rules ∧ ∀ n ∈ r.names, n ∈ classNames (splitWs gsp s) :=
  rule_used_iff G gsp rules s d srcs h r

/-- non-vacuity: the combination rule `a b` is not used for 'class:a', and is used for 'class:b class:a' -/
def abRule : Rule :=
  { names := ["a".toList, "b".toList],
    attrs := { color := some "00ff00".toList, bgcolor := none, bold := none, underline := none, strike := none,
               italic := some true, blink := none, reverse := none, hidden := none } }
example : abRule ∈ sampleRules := by decide +kernel
example : (sources G gsp sampleRules "class:a".toList G.defaultAttrs).map
    (fun l => l.contains (Src.rule abRule)) = some false := by decide +kernel
example : (sources G gsp sampleRules "class:b class:a".toList G.defaultAttrs).map
    (fun l => l.contains (Src.rule abRule)) = some true := by decide +kernel

/-- **C19-c (the class test as written).**  The `combos` construction of the code selects a rule
    exactly when the new class is one of the rule's classes and all others have been seen. -/
theorem combos_test_iff (seen : List Text) (new : Text) (names : List Text) :
    (combos seen new).any (setEq names) = true ↔ new ∈ names ∧ ∀ n ∈ names, n = new ∨ n ∈ seen :=
  rule_applies_iff seen new names

example : (combos ["a".toList, "c".toList] "b".toList).any (setEq ["b".toList, "a".toList]) = true := by
  decide +kernel

/-- **C19-d (merging = concatenation).**  The rule table of `merge_styles(sheets)` is the in-order
    concatenation of the rule tables of the sheets (None entries dropped) and exists exactly when
    every sheet can be built; a query against the merged style is the cascade over that table. -/
theorem merged_query_is_concatenated_cascade (sheets : List (Option (List (Text × Text))))
    (rs : List (List Rule)) (h : compileEach G gsp grsp (sheets.filterMap id) = .ok rs)
    (s : Text) (d : Attrs) :
    mergedRules G gsp grsp sheets = .ok rs.flatten ∧
    query G gsp grsp sheets s d =
      match getAttrs G gsp rs.flatten s d with
      | some a => .ok a
      | none => .error .value := by
  refine ⟨?_, query_merged G gsp grsp sheets rs h s d⟩
  rw [merge_is_concat, h]

/-- non-vacuity: the sample sheet cut into two sheets with a `None` in between -/
example : (query G gsp grsp [some (sampleSheet.take 1), none, some (sampleSheet.drop 1)]
      "class:a.x,b".toList G.defaultAttrs).toOption =
    (query G gsp grsp [some sampleSheet] "class:a.x,b".toList G.defaultAttrs).toOption ∧
    (query G gsp grsp [some sampleSheet] "class:a.x,b".toList G.defaultAttrs).toOption.isSome = true := by
  decide +kernel
example : (compileEach G gsp grsp ([some (sampleSheet.take 1), none, some (sampleSheet.drop 1)].filterMap id)).toOption.isSome = true := by
  decide +kernel

/-- **C19-d' (merging is pure).**  In any session of merges / queries / re-queries over SHARED sheet
    objects (rule lists modelled by identity, `list.extend` in place), every sheet's own rule list
    is unchanged afterwards, and each merged query is the cascade over the concatenation of the
    CURRENT rule lists of its constituents — so using a sheet first in one merge cannot leak rules
    into a later merge or into the sheet itself. -/
theorem merging_is_pure (ops : List SessOp) (h : Heap) (hops : ∀ op ∈ ops, OpOk h.lists.length op)
    (parts : List (Option Nat)) (hparts : ∀ s ∈ parts.filterMap id, s < h.lists.length)
    (s : Text) (d : Attrs) :
    let h' := ops.foldl (sessStep G gsp grsp) h
    (∀ r < h.lists.length, h'.get r = h.get r) ∧
    (mergedQuery G gsp grsp h' parts s d).2 =
      match mergedRules G gsp grsp (parts.map (Option.map h.get)) with
      | .error e => .error e
      | .ok rules => match getAttrs G gsp rules s d with
        | some a => .ok a
        | none => .error .value := by
  obtain ⟨hlen, hsame⟩ := session_pure G gsp grsp ops h hops
  refine ⟨hsame, ?_⟩
  have hparts' : ∀ s ∈ parts.filterMap id, s < (ops.foldl (sessStep G gsp grsp) h).lists.length :=
    fun t ht => Nat.lt_of_lt_of_le (hparts t ht) hlen
  rw [(mergedQuery_spec G gsp grsp _ parts hparts' s d).2.2]
  have : parts.map (Option.map (ops.foldl (sessStep G gsp grsp) h).get) = parts.map (Option.map h.get) := by
    apply List.map_congr_left
    intro p hp
    cases p with
    | none => rfl
    | some r =>
      simp only [Option.map_some]
      rw [hsame r (hparts r (List.mem_filterMap.mpr ⟨some r, hp, rfl⟩))]
  rw [this]
  rfl

/-- non-vacuity (the seeded scenario): sheet 0 first in merge [0,1], then in merge [0,2]: the second
    merge has exactly the rules of sheets 0 and 2, and sheet 0 still has its own two rules -/
example :
    let h : Heap := { lists := [sampleSheet.take 2, sampleSheet.drop 3, sampleSheet.drop 2 |>.take 1] }
    let h1 := sessStep G gsp grsp h (.queryMerged [some 0, some 1] "class:a".toList G.defaultAttrs)
    let r := mergedStyleRules h1 [some 0, none, some 2]
    r.1.get r.2 = sampleSheet.take 3 ∧ r.1.get 0 = sampleSheet.take 2 ∧ h1.lists.length = 4 := by
  decide +kernel

/-! ## 2. nearest colours -/

/-- **C19-e (256-colour map is a nearest-colour map).**  For EVERY RGB triple with components in
    0..255 the chosen index lies in 16..253, no palette colour with index ≥ 16 is closer, and every
    such colour with a smaller index is strictly farther (first on ties).  Proved for any palette
    (`closest256_nearest`); instantiated here for the palette in /repo. -/
theorem map256_is_nearest (c : RGB) (hc : InRange c) :
    ∃ pm, G.pal256[closest256 G.pal256 c]? = some pm ∧ 16 ≤ closest256 G.pal256 c ∧
      closest256 G.pal256 c < 254 ∧
      (∀ j p, 16 ≤ j → G.pal256[j]? = some p → dist c pm ≤ dist c p) ∧
      (∀ j p, 16 ≤ j → j < closest256 G.pal256 c → G.pal256[j]? = some p → dist c pm < dist c p) := by
  have h16 : G.pal256[16]? = some (G.pal256[16]'(by rw [gen_pal_length]; decide)) := by
    simp
  obtain ⟨pm, h1, h2, h3, h4⟩ := closest256_nearest G.pal256 c 16 _ (Nat.le_refl 16) h16
    (dist_lt_infinity c _ hc (gen_pal_inRange _ (List.getElem_mem _)))
  refine ⟨pm, h1, h2, ?_, h3, h4⟩
  have := (List.getElem?_eq_some_iff.mp h1).1
  rw [gen_pal_length] at this
  exact this

example : closest256 G.pal256 (255, 0, 0) = 196 ∧ closest256 G.pal256 (128, 128, 128) = 244 := by
  decide +kernel

/-- evaluated on the regenerated palette: among the entries 16..253 no colour repeats an earlier
    one, except the second black at index 232 -/
theorem gen_pal256_first_occurrence : firstOccB 232 (idx256 G.pal256) = true := by decide +kernel

/-- **C19-f (exact palette colours are fixed).**  Every palette entry 16..253 is mapped to an index
    holding exactly its colour (any palette: `closest256_exact`), and in the palette of /repo to
    itself — except the duplicate black at 232, which is mapped to the first black, index 16. -/
theorem map256_fixed_points (j : Nat) (h16 : 16 ≤ j) (c : RGB) (hc : G.pal256[j]? = some c) :
    G.pal256[closest256 G.pal256 c]? = some c ∧ (j ≠ 232 → closest256 G.pal256 c = j) :=
  ⟨(closest256_exact G.pal256 c j h16 hc).1,
   closest256_fixed_index G.pal256 232 gen_pal256_first_occurrence j h16 c hc⟩

example : closest256 G.pal256 (0, 0, 0) = 16 ∧ G.pal256[232]? = some (0, 0, 0) ∧
    closest256 G.pal256 (0x5f, 0x87, 0xaf) = 67 := by decide +kernel

/-- **C19-g (16-colour map is a nearest-colour map).**  Whenever some admissible ANSI colour exists
    (not 'ansidefault', not excluded, not removed by the saturation rule) the result is an
    admissible table entry of minimal distance, the first such entry in table order.  Any table. -/
theorem map16_is_nearest (c : RGB) (hc : InRange c) (ex : List Text)
    (np0 : Text × RGB) (h0 : np0 ∈ G.ansiRgb) (ha0 : allowed16 c ex np0 = true) :
    ∃ pre pm post, G.ansiRgb = pre ++ (closest16 G.ansiRgb c ex, pm) :: post ∧
      allowed16 c ex (closest16 G.ansiRgb c ex, pm) = true ∧
      (∀ np ∈ G.ansiRgb, allowed16 c ex np = true → dist c pm ≤ dist c np.2) ∧
      (∀ np ∈ pre, allowed16 c ex np = true → dist c pm < dist c np.2) :=
  closest16_nearest G.ansiRgb c ex np0 h0 ha0 (dist_lt_infinity c _ hc (gen_ansiRgb_inRange _ h0))

example : closest16 G.ansiRgb (250, 10, 10) [] = "ansibrightred".toList ∧
    closest16 G.ansiRgb (250, 10, 10) ["ansibrightred".toList] = "ansired".toList := by decide +kernel

/-- **C19-h (exact ANSI colours are fixed).**  Each of the 16 ANSI RGB values maps to its own name. -/
theorem map16_fixed_points :
    ∀ np ∈ G.ansiRgb, np.1 ≠ "ansidefault".toList → closest16 G.ansiRgb np.2 [] = np.1 := by
  decide +kernel

example : closest16 G.ansiRgb (0xcd, 0, 0) [] = "ansired".toList := by decide +kernel

/-! ## 3. encoder / decoder -/

/-- **C19-i (24-bit round trip, parameter level).**  For valid attributes (each colour '' / an ANSI
    name / six hex digits; flags None/False/True) the SGR parameters emitted at 24-bit depth drive
    the decoder — from any previous state — to exactly the state representing the attributes
    (hex digits lower-cased, None read as ''/False). -/
theorem sgr_roundtrip_24bit_gen (a : Attrs) (hv : ValidAttrs G a) (st0 : Sgr) :
    selectGraphicRendition G st0 (0 :: sgrCodes G gsp .d24 a) = sgrOf G a :=
  sgr_roundtrip_24bit G gen_encDecOk gsp gen_spOk a hv st0

/-- **C19-j (24-bit round trip, text level).**  `ANSI(escape_code + 'x')` is exactly one fragment
    `(style, 'x')` whose style string is the one of the state representing the attributes. -/
theorem escape_decodes_24bit (a : Attrs) (hv : ValidAttrs G a) :
    ansiFragments G (escapeCode G gsp .d24 a ++ ['x']) = [(styleString (sgrOf G a), ['x'])] := by
  unfold escapeCode
  rw [ansi_of_renderEscape G _ (sgrCodes_d24_bound G gen_encDecOk gen_codesBounded gsp gen_spOk a hv) 'x'
    (by decide), sgr_roundtrip_24bit_gen a hv]

/-- decoding an escape sequence the way the library does it: `ANSI(esc + 'x')`, take the style of
    its single fragment, resolve that style string (against an empty sheet) -/
def decodeEscape (T : Tables) (sp : Char → Bool) (esc : Text) : Option Attrs :=
  match ansiFragments T (esc ++ ['x']) with
  | [(style, _)] => getAttrs T sp [] style T.defaultAttrs
  | _ => none

/-- **C19-j' (24-bit round trip, end to end).**  For valid attributes, the escape sequence emitted
    at 24-bit depth decodes back — through the ANSI parser and the style parser — to the same
    attributes in canonical form (`None`→''/False, 'default'→'', hex digits lower-cased). -/
theorem roundtrip_24bit (a : Attrs) (hv : ValidAttrs G a) :
    decodeEscape G gsp (escapeCode G gsp .d24 a) = some (canon G a) := by
  unfold decodeEscape
  rw [escape_decodes_24bit a hv]
  exact decode_styleString G gen_encDecOk gen_styleOk gsp gen_spOk a hv

/-- attributes that are already canonical come back unchanged -/
theorem roundtrip_24bit_canonical (a : Attrs) (hv : ValidAttrs G a) (hc : canon G a = a) :
    decodeEscape G gsp (escapeCode G gsp .d24 a) = some a := by
  rw [roundtrip_24bit a hv, hc]

/-- **C19-m (from style string to escape code and back).**  Let the rules come from a sheet whose
    style strings only contain acceptable colour words, the queried style string likewise, and the
    default be valid.  Then whatever `get_attrs_for_style_str` resolves is encoded at 24 bit into an
    escape sequence that decodes back to the same attributes (canonical form).
    `ColorArgOk` excludes exactly the words `#xxxxxx` / `#xxx` with a non-hex character — see
    `unvalidated_hex_breaks_roundtrip` — and excludes nothing once `parse_color` validates digits. -/
theorem resolve_encode_decode (sheet : List (Text × Text)) (rules : List Rule)
    (hsheet : SheetOk G gsp sheet) (hcomp : compile G gsp grsp sheet = .ok rules)
    (s : Text) (hs : InlineOk G gsp s) (d : Attrs) (hd : PValid G d) (a : Attrs)
    (h : getAttrs G gsp rules s d = some a) :
    decodeEscape G gsp (escapeCode G gsp .d24 a) = some (canon G a) :=
  roundtrip_24bit a
    (resolved_attrs_valid G gen_colorTablesOk gen_styleOk gsp rules
      (compile_pvalid G gen_colorTablesOk gen_styleOk gsp grsp sheet rules hsheet hcomp) s hs d hd a h)

/-- non-vacuity: the sample sheet and a style string with inline colours satisfy the hypotheses -/
example : SheetOk G gsp sampleSheet ∧ InlineOk G gsp "class:a.x,b #0000FF bg:#abc".toList ∧
    PValid G G.defaultAttrs := by
  refine ⟨by decide +kernel, by decide +kernel, ?_⟩
  rw [gen_defaultAttrs]; exact pvalid_dflt G

example : (compile G gsp grsp sampleSheet).toOption = some sampleRules ∧
    (getAttrs G gsp sampleRules "class:a.x,b #0000FF bg:#abc".toList G.defaultAttrs).isSome = true := by
  decide +kernel
/-- the model evaluated end to end on the sample: resolve, encode at 24 bit, decode -/
example : (getAttrs G gsp sampleRules "class:a.x,b #0000FF bg:#abc".toList G.defaultAttrs).bind
      (fun a => decodeEscape G gsp (escapeCode G gsp .d24 a)) =
    some { color := some "0000ff".toList, bgcolor := some "aabbcc".toList, bold := some false,
           underline := some true, strike := some false, italic := some true, blink := some false,
           reverse := some false, hidden := some false } := by decide +kernel

/-- **Finding (full statement is false on the current tree).**  `parse_color` accepts any six
    characters after '#': the style string '#zzzzzz' resolves to the colour 'zzzzzz', for which no
    colour code is emitted, so the escape sequence decodes to the empty colour.  Stated so that it
    stays true (vacuously) once `parse_color` validates the digits. -/
theorem unvalidated_hex_breaks_roundtrip : G.hexValidated = false →
    ∃ a, getAttrs G gsp [] "#zzzzzz".toList G.defaultAttrs = some a ∧
      a.color = some "zzzzzz".toList ∧
      escapeCode G gsp .d24 a = (Char.ofNat 27 :: "[0m".toList) ∧
      decodeEscape G gsp (escapeCode G gsp .d24 a) ≠ some (canon G a) := by
  intro hflag
  refine ⟨{ G.defaultAttrs with color := some "zzzzzz".toList }, ?_, rfl, ?_, ?_⟩
  · revert hflag; decide +kernel
  · decide +kernel
  · decide +kernel

/-- once `parse_color` validates hex digits, every resolvable style string round-trips -/
theorem validated_hex_all_roundtrip (hflag : G.hexValidated = true) (sheet : List (Text × Text))
    (rules : List Rule) (hcomp : compile G gsp grsp sheet = .ok rules) (s : Text) (a : Attrs)
    (h : getAttrs G gsp rules s G.defaultAttrs = some a) :
    decodeEscape G gsp (escapeCode G gsp .d24 a) = some (canon G a) :=
  resolve_encode_decode sheet rules (fun _ _ _ _ _ _ => Or.inl hflag) hcomp s
    (fun _ _ _ _ _ _ _ => Or.inl hflag) _ (by rw [gen_defaultAttrs]; exact pvalid_dflt G) a h

def sampleAttrs : Attrs :=
  { color := some "FF8000".toList, bgcolor := some "ansiblue".toList, bold := some true, underline := none,
    strike := some false, italic := some true, blink := none, reverse := some false, hidden := some false }

example : ValidAttrs G sampleAttrs := by decide +kernel
example : escapeCode G gsp .d24 sampleAttrs = (Char.ofNat 27 :: "[0;38;2;255;128;0;44;1;3m".toList) := by
  decide +kernel
example : styleString (sgrOf G sampleAttrs) = "#ff8000 bg:ansiblue bold italic".toList := by decide +kernel
example : canon G sampleAttrs =
    { color := some "ff8000".toList, bgcolor := some "ansiblue".toList, bold := some true,
      underline := some false, strike := some false, italic := some true, blink := some false,
      reverse := some false, hidden := some false } := by decide +kernel
example : canon G (canon G sampleAttrs) = canon G sampleAttrs ∧ ValidAttrs G (canon G sampleAttrs) := by
  decide +kernel

/-- **C19-k (8-bit depth).**  An RGB colour is emitted as `38;5;m` / `48;5;m` where `m` is a nearest
    palette index in the sense of C19-e. -/
theorem encode_8bit_nearest (fgc bgc fa c : Text) (bg : Bool) (hh : IsHex6 c) :
    ∃ m pm, colorCodes G gsp .d8 fgc bgc fa c bg = ([if bg then 48 else 38, 5, m], fa) ∧
      G.pal256[m]? = some pm ∧ 16 ≤ m ∧ m < 254 ∧
      (∀ j p, 16 ≤ j → G.pal256[j]? = some p → dist (hexRgb c) pm ≤ dist (hexRgb c) p) := by
  obtain ⟨pm, h1, h2, h3, h4, _⟩ := map256_is_nearest (hexRgb c) (hexRgb_inRange c)
  exact ⟨_, pm, colorCodes_d8 G gen_encDecOk gsp gen_spOk fgc bgc fa c bg hh, h1, h2, h3, h4⟩

example : colorCodes G gsp .d8 [] [] [] "fe0101".toList false = ([38, 5, 196], []) := by decide +kernel

/-- every name the 16-colour search can return has a foreground and a background code -/
theorem gen_ansiRgb_coded :
    (∀ np ∈ G.ansiRgb, (lookup np.1 G.fg).isSome ∧ (lookup np.1 G.bg).isSome) ∧
    (lookup "ansidefault".toList G.fg).isSome ∧ (lookup "ansidefault".toList G.bg).isSome := by
  decide +kernel

/-- **C19-l (4-bit depth).**  An RGB foreground colour is emitted as the code of its 16-colour map
    (C19-g); 1-bit depth emits no colour parameter at all. -/
theorem encode_4bit_fg (fgc bgc fa c : Text) (hh : IsHex6 c) (code : Nat)
    (hcode : lookup (closest16 G.ansiRgb (hexRgb c) []) G.fg = some code) :
    colorCodes G gsp .d4 fgc bgc fa c false = ([code], closest16 G.ansiRgb (hexRgb c) []) :=
  colorCodes_d4_fg G gen_encDecOk gsp gen_spOk fgc bgc fa c hh code hcode

theorem encode_1bit_no_colour (fg bg : Text) : colorsToCode G gsp .d1 fg bg = [] :=
  colorsToCode_d1 G gsp fg bg

example : colorCodes G gsp .d4 [] [] [] "fe0101".toList false = ([91], "ansibrightred".toList) ∧
    colorCodes G gsp .d4 "fe0101".toList "ff0000".toList "ansibrightred".toList "ff0000".toList true
      = ([41], "ansibrightred".toList) := by decide +kernel

/-! ## 4. what the lower depths decode to -/

theorem gen_ansi16Ok : Ansi16Ok G := by decide +kernel

/-- the decoder's 256-colour table (ansi.py) is the encoder's palette (vt100.py) spelled '#rrggbb' -/
theorem gen_dec256 : ∀ ip ∈ enumFrom 0 G.pal256,
    lookup ip.1 G.dec256 = some ('#' :: (hex02 ip.2.1 ++ hex02 ip.2.2.1 ++ hex02 ip.2.2.2)) := by
  have h : ((enumFrom 0 G.pal256).all fun ip =>
      lookup ip.1 G.dec256 == some ('#' :: (hex02 ip.2.1 ++ hex02 ip.2.2.1 ++ hex02 ip.2.2.2))) = true := by
    decide +kernel
  intro ip hip
  exact eq_of_beq (List.all_eq_true.mp h ip hip)

/-- **C19-n (8-bit depth decodes to the nearest palette colour).**  For valid attributes the 8-bit
    escape parameters decode to the same flags and named colours; an RGB colour comes back as the
    '#rrggbb' spelling of a palette colour that is nearest to it (C19-e). -/
theorem decode_8bit (a : Attrs) (hv : ValidAttrs G a) (st0 : Sgr) :
    selectGraphicRendition G st0 (0 :: sgrCodes G gsp .d8 a) = sgrOf8 G a :=
  sgr_decode_8bit G gen_encDecOk gsp gen_spOk a hv st0

theorem decoded_8bit_colour_is_nearest (c : Text) (hh : IsHex6 c) :
    ∃ pm, decColor8 G c = some ('#' :: (hex02 pm.1 ++ hex02 pm.2.1 ++ hex02 pm.2.2)) ∧ pm ∈ G.pal256 ∧
      ∀ j p, 16 ≤ j → G.pal256[j]? = some p → dist (hexRgb c) pm ≤ dist (hexRgb c) p := by
  obtain ⟨pm, h1, _, _, h4, _⟩ := map256_is_nearest (hexRgb c) (hexRgb_inRange c)
  refine ⟨pm, ?_, List.mem_of_getElem? h1, h4⟩
  have hne : ¬(c = [] ∨ c = kwDefault) := by
    rintro (h | h)
    · subst h; simp [IsHex6] at hh
    · exact default_not_hex6 (h ▸ hh)
  have hnn : c ∉ G.ansiNames := fun hn => (gen_encDecOk.names c hn).2 hh
  unfold decColor8
  rw [if_neg hne, if_neg hnn]
  generalize closest256 G.pal256 (hexRgb c) = m at h1 ⊢
  have hmem : (m, pm) ∈ enumFrom 0 G.pal256 := mem_enumFrom_zero.mpr h1
  have := gen_dec256 (m, pm) hmem
  exact this

example : sgrOf8 G sampleAttrs =
    { color := some "#ff8700".toList, bgcolor := some "ansiblue".toList, bold := true, italic := true } := by
  decide +kernel

/-- **C19-o (4-bit and 1-bit depth decoded).**  At 4 bit an RGB colour comes back as the ANSI name
    chosen by the 16-colour map (C19-g; for the background the name chosen for an RGB foreground is
    excluded unless both colour strings are equal); at 1 bit only the flags survive. -/
theorem decode_4bit (a : Attrs) (hv : ValidAttrs G a) (st0 : Sgr) :
    selectGraphicRendition G st0 (0 :: sgrCodes G gsp .d4 a) = sgrOf4 G a :=
  sgr_decode_4bit G gen_encDecOk gen_ansi16Ok gsp gen_spOk a hv st0

theorem decode_1bit (a : Attrs) (st0 : Sgr) :
    selectGraphicRendition G st0 (0 :: sgrCodes G gsp .d1 a) =
      { color := none, bgcolor := none, bold := truthy a.bold, underline := truthy a.underline,
        strike := truthy a.strike, italic := truthy a.italic, blink := truthy a.blink,
        reverse := truthy a.reverse, hidden := truthy a.hidden } :=
  sgr_decode_1bit G gen_encDecOk gsp a st0

example : sgrOf4 G { sampleAttrs with bgcolor := some "ff8001".toList } =
    { color := some "ansiyellow".toList, bgcolor := some "ansibrightyellow".toList, bold := true, italic := true } := by
  decide +kernel

end Ptk.C19
