/-
  C05 — property theorems for the MODE SKELETON of the line editor (`Ptk.Model.C05Skel`).

  The skeleton is the projection of the editor to the mode bits the key bindings are filtered on
  (Vi input mode, temporary navigation mode, pending operator, digraph state, selection, quoted
  insert, macro recording, numeric argument, search focus, the key buffer of the key processor).
  The model runs `KeyProcessor._process` / `process_keys` / `_call_handler` over the table of ALL
  bindings of a PromptSession (606 today), regenerated from the running code on every check
  (`Ptk.Gen.C05Bindings`), with the filters of filters/app.py evaluated on the skeleton.

  Theorems here are stated for EVERY table that satisfies decidable side conditions, for every
  skeleton state (not only the reachable ones, where that is possible), every key and every value
  of the data the skeleton cannot know (`HData`, the data atoms); the side conditions are
  re-decided by the kernel on the regenerated table (`gen_*_ok`).

    escape_to_navigation      Escape, outside a quoted insert and with no key sequence pending, ends
                              in NAVIGATION with no pending operator / count / digraph — from ANY state
                              (in particular a selection started through C-o v in INSERT mode)
    escape_idempotent         a second Escape changes nothing (outside a search)
    reachable_inv             at most one of {pending operator, digraph wait, selection} in every
                              reachable state; operator count ⇒ operator; digraph symbol ⇒ digraph wait;
                              the search buffer has a selection only while searching; …
    vi_mode_filters_partition in every reachable Vi state exactly one of the eight Vi mode filters holds
    escape_any_slot_witness   (known finding) an Escape typed into an <any> slot of a pending key
                              sequence is NOT the Escape command: C-o f Esc stays in INSERT mode
    quoted_insert_one_key     a quoted insert consumes exactly the next key (Escape included)
    emacs_escape_ends_search  Emacs: Escape, a prefix key there, ends an incremental search at once (eager)
    numeric_argument_lasts_one_command / keys_after_done_not_executed / temp_navigation_ends
-/
import Ptk.Props.C05SkelInv
namespace Ptk.C05
namespace Skel

/-! ### the generated table is the one the hand-written tables describe -/

/-- the filter atoms of the running code are exactly the ones `atomTable` evaluates, in this order -/
theorem atom_names_pin : Gen.C05.atomNames = atomTable.map (·.1) := by rfl

/-- the handlers of the running code are exactly the ones `handlerTable` classifies, in this order
    (a new, renamed or re-parametrised handler breaks this theorem) -/
theorem handler_names_pin : Gen.C05.handlerNames = handlerTable.map (·.1) := by rfl

/-- the skeleton-relevant statements of every handler body of the running code (pruned source, in
    order, with the control flow around them) are the ones each class of `handlerTable` was read off:
    a handler that gains, loses or reorders a write to the mode skeleton breaks this theorem -/
theorem handler_writes_pin : Gen.C05.handlerWrites = handlerTable.map (·.2.2) := by rfl

/-- the binding table does not depend on which buffer has the focus -/
theorem table_focus_independent : Gen.C05.sameWhenSearching = true := by decide

/-- no handler of the generated table is unclassified -/
theorem no_unknown_handler : genTbl.bindings.all (fun b => classOf genTbl b.handler != .unknown) = true := by
  decide +kernel

/-! ### concrete inputs for the examples -/

/-- a named key, data irrelevant -/
def nk (k : Key) : KeyIn := { key := ⟨k, 0⟩, flush := false, envs := [], hds := [] }
/-- a typed character (lower-case letters and digits are Vi register names) -/
def ch (c : Char) : KeyIn :=
  { key := ⟨c.toNat, if c.isLower || c.isDigit then 1 else 0⟩, flush := false, envs := [], hds := [] }

/-- the timeout (`_Flush`) -/
def fl : KeyIn := { key := ⟨0, 0⟩, flush := true, envs := [], hds := [] }

/-- a fresh Vi prompt (INSERT mode) -/
def vi0 : Sk := Sk.init true false

/-! ### Escape -/

/-- **Escape brings Vi to navigation mode.**  For every table satisfying `escOK`, EVERY skeleton
    state in Vi mode that is not inside a quoted insert and has no key sequence pending in the key
    processor, every value of the data: after Escape the input mode is NAVIGATION, no operator, no
    operator count, no digraph wait and no digraph symbol are pending, nothing is left in the key
    buffer, temporary navigation mode and the numeric argument are gone, and exactly one handler ran.
    (PARTIAL with respect to the property text only in the hypothesis `keyBuf = []`: see
    `escape_any_slot_witness`.) -/
theorem escape_to_navigation (t : Tbl) (esc : Key) (hok : escOK t esc = true) (s : Sk) (ki : KeyIn)
    (hkey : ki.key.key = esc) (hfl : ki.flush = false) (hvi : s.vi = true) (hq : s.quoted = false)
    (hbuf : s.keyBuf = []) (hqueue : s.queue = []) (hdone : s.done = false) :
    NavClean (feed t s ki).s ∧ (feed t s ki).s.keyBuf = [] ∧ (feed t s ki).s.queue = [] ∧
    (feed t s ki).s.tempNav = false ∧ (feed t s ki).s.arg = none ∧ (feed t s ki).s.quoted = false ∧
    (feed t s ki).s.vi = true ∧ (feed t s ki).calls.length = 1 :=
  feed_escape t esc hok s ki hkey hfl hvi hq hbuf hqueue hdone

/-- the regenerated table satisfies the side conditions -/
theorem gen_escape_ok : escOK genTbl Gen.C05.escapeKey = true := by decide +kernel

/-- … so the statement holds of the bindings of the running code -/
theorem escape_to_navigation_gen (s : Sk) (ki : KeyIn) (hkey : ki.key.key = Gen.C05.escapeKey)
    (hfl : ki.flush = false) (hvi : s.vi = true) (hq : s.quoted = false) (hbuf : s.keyBuf = [])
    (hqueue : s.queue = []) (hdone : s.done = false) : NavClean (feed genTbl s ki).s :=
  (escape_to_navigation genTbl _ gen_escape_ok s ki hkey hfl hvi hq hbuf hqueue hdone).1

-- the state the missed seeded change needed: INSERT mode, C-o, v: a selection while input_mode is INSERT
example : (run genTbl vi0 [nk Gen.C05.ctrlOKey, ch 'v']).mode = .insert ∧
    (run genTbl vi0 [nk Gen.C05.ctrlOKey, ch 'v']).sel0 = some ⟨.characters, false⟩ ∧
    (run genTbl vi0 [nk Gen.C05.ctrlOKey, ch 'v']).tempNav = false := by decide +kernel
-- … the theorem applies to it, and the model indeed ends in NAVIGATION
example : NavClean (feed genTbl (run genTbl vi0 [nk Gen.C05.ctrlOKey, ch 'v']) (nk Gen.C05.escapeKey)).s :=
  escape_to_navigation_gen _ _ rfl rfl (by decide +kernel) (by decide +kernel) (by decide +kernel)
    (by decide +kernel) (by decide +kernel)
example : (run genTbl vi0 [nk Gen.C05.ctrlOKey, ch 'v', nk Gen.C05.escapeKey]).mode = .navigation := by
  decide +kernel
-- a pending operator with a count is cleared too (`y` waits for `yy` until the timeout)
example : (run genTbl vi0 [nk Gen.C05.escapeKey, ch '2', ch 'y', fl]).op = some false ∧
    (run genTbl vi0 [nk Gen.C05.escapeKey, ch '2', ch 'y', fl]).opArg = true := by decide +kernel
example : (run genTbl vi0 [nk Gen.C05.escapeKey, ch '2', ch 'y', fl, nk Gen.C05.escapeKey]).op = none ∧
    (run genTbl vi0 [nk Gen.C05.escapeKey, ch '2', ch 'y', fl, nk Gen.C05.escapeKey]).opArg = false := by
  decide +kernel

/-- **Known finding, on the model**: the hypothesis `keyBuf = []` cannot be dropped.  `C-o f` leaves
    `f` in the key buffer (the binding `f <any>` is pending); the Escape that follows is taken as the
    `<any>` character of that binding, `_back_to_navigation` does not run, Vi stays in INSERT mode. -/
theorem escape_any_slot_witness :
    (run genTbl vi0 [nk Gen.C05.ctrlOKey, ch 'f']).keyBuf = [⟨'f'.toNat, 1⟩] ∧
    (run genTbl vi0 [nk Gen.C05.ctrlOKey, ch 'f', nk Gen.C05.escapeKey]).mode = .insert := by
  decide +kernel

/-- **Escape is idempotent** outside a search: feeding Escape a second time gives the same skeleton. -/
theorem escape_idempotent (t : Tbl) (esc : Key) (hok : escOK t esc = true) (s : Sk) (ki ki' : KeyIn)
    (hkey : ki.key.key = esc) (hfl : ki.flush = false) (hkey' : ki'.key.key = esc) (hfl' : ki'.flush = false)
    (hvi : s.vi = true) (hq : s.quoted = false) (hbuf : s.keyBuf = []) (hqueue : s.queue = [])
    (hdone : s.done = false) (hns : s.searching = false) :
    (feed t (feed t s ki).s ki').s = (feed t s ki).s :=
  feed_escape_idem t esc hok s ki ki' hkey hfl hkey' hfl' hvi hq hbuf hqueue hdone hns

example : run genTbl vi0 [nk Gen.C05.ctrlOKey, ch 'v', nk Gen.C05.escapeKey, nk Gen.C05.escapeKey] =
    run genTbl vi0 [nk Gen.C05.ctrlOKey, ch 'v', nk Gen.C05.escapeKey] := by decide +kernel
-- the hypothesis `searching = false` matters: a search started from visual mode keeps the selection of the
-- searched buffer; the first Escape accepts the search, the second one drops that selection
example : (run genTbl vi0 [nk Gen.C05.escapeKey, ch 'v', ch '/', nk Gen.C05.escapeKey]).sel0 = some ⟨.characters, false⟩ ∧
    (run genTbl vi0 [nk Gen.C05.escapeKey, ch 'v', ch '/', nk Gen.C05.escapeKey, nk Gen.C05.escapeKey]).sel0 = none := by
  decide +kernel

/-- **Quoted insert lasts exactly one key.**  In Vi mode with `app.quoted_insert` on and nothing pending,
    the next key — whatever it is, Escape included — is handed to `_insert_text` (one handler call) which
    ends the quoted insert; the input mode and the pending operator / digraph are untouched.  Together
    with `escape_to_navigation`: the only Escape that is exempt by the property's "outside a quoted
    insert" is the single key after C-v / C-q. -/
theorem quoted_insert_one_key (t : Tbl) (hok : quotedOK t = true) (s : Sk) (ki : KeyIn)
    (hfl : ki.flush = false) (hkf : ki.key.key ≠ flushKey) (hvi : s.vi = true) (hq : s.quoted = true)
    (hbuf : s.keyBuf = []) (hqueue : s.queue = []) (hdone : s.done = false) :
    ∃ h, (feed t s ki).calls = [h] ∧ classOf t h = .quotedText ∧ (feed t s ki).s.keyBuf = [] ∧
      (feed t s ki).s.mode = s.mode ∧ (feed t s ki).s.op = s.op ∧ (feed t s ki).s.dgWait = s.dgWait ∧
      ((ki.hdAt 0).roRaised = false → (feed t s ki).s.quoted = false) :=
  feed_quoted t hok s ki hfl hkf hvi hq hbuf hqueue hdone

theorem gen_quoted_ok' : quotedOK genTbl = true := gen_quoted_ok

-- C-v in insert mode starts a quoted insert; the Escape after it is inserted, the one after that is a command
example : (run genTbl vi0 [nk Gen.C05.ctrlVKey]).quoted = true ∧
    (run genTbl vi0 [nk Gen.C05.ctrlVKey, nk Gen.C05.escapeKey]).quoted = false ∧
    (run genTbl vi0 [nk Gen.C05.ctrlVKey, nk Gen.C05.escapeKey]).mode = .insert ∧
    (run genTbl vi0 [nk Gen.C05.ctrlVKey, nk Gen.C05.escapeKey, nk Gen.C05.escapeKey]).mode = .navigation := by
  decide +kernel

/-! ### the reachable states -/

/-- the regenerated table satisfies the side conditions of the invariant: selections and operators
    are only started from bindings filtered on `vi_navigation_mode` (or Emacs mode), digraphs and
    temporary navigation mode only from `vi_insert_mode | vi_replace_mode`, … -/
theorem gen_inv_ok' : invOK genTbl = true := gen_inv_ok

/-- **Invariant of every reachable skeleton state** (induction over arbitrary key sequences with
    arbitrary data): at most one of {pending operator, digraph wait, selection of the current buffer};
    an operator count only with an operator; a digraph symbol only while waiting for a digraph; in Emacs
    mode no Vi operator / digraph / temporary navigation mode; the search buffer has a selection only
    while searching; shift-selections only in Emacs mode. -/
theorem reachable_inv (t : Tbl) (hok : invOK t = true) (vi ro : Bool) (kis : List KeyIn) :
    Inv (run t (Sk.init vi ro) kis) :=
  run_inv t hok kis _ (init_inv vi ro)

example : Inv (run genTbl vi0 [nk Gen.C05.ctrlOKey, ch 'v', ch 'd']) := reachable_inv genTbl gen_inv_ok _ _ _
-- `Inv` is not vacuous: a state with an operator AND a selection violates it
example : ¬ Inv { vi0 with op := some true, sel0 := some ⟨.lines, false⟩ } := by
  intro h
  have := (h.opExcl (by decide)).2
  revert this; decide

/-- **In every reachable Vi state exactly one of the eight Vi mode filters holds** (navigation, insert,
    insert-multiple, replace, replace-single, selection, waiting-for-text-object, digraph): exactly one
    family of Vi bindings is active. -/
theorem vi_mode_filters_partition (t : Tbl) (hok : invOK t = true) (ro : Bool) (kis : List KeyIn)
    (hv : (run t (Sk.init true ro) kis).vi = true) :
    (viFilters (run t (Sk.init true ro) kis)).count true = 1 :=
  viFilters_partition _ (reachable_inv t hok true ro kis) hv

example : viFilters (run genTbl vi0 [nk Gen.C05.ctrlOKey, ch 'v']) =
    [false, false, false, false, false, true, false, false] := by decide +kernel
-- unreachable states can have two filters on: the invariant is needed
example : (viFilters { vi0 with op := some true, sel0 := some ⟨.lines, false⟩ }).count true = 2 := by decide

/-- `_leave_vi_temp_navigation_mode`: temporary navigation mode ends after one command unless an
    operator or a count is pending. -/
theorem temp_navigation_ends (s : Sk) (hv : s.vi = true) :
    (leaveTempNav s).tempNav = false ∨ ((s.op.isSome = true ∨ s.arg.isSome = true) ∧ leaveTempNav s = s) :=
  leaveTempNav_spec s hv

example : (run genTbl vi0 [nk Gen.C05.ctrlOKey]).tempNav = true ∧
    (run genTbl vi0 [nk Gen.C05.ctrlOKey, ch '2']).tempNav = true ∧
    (run genTbl vi0 [nk Gen.C05.ctrlOKey, ch '2', ch 'l']).tempNav = false := by decide +kernel

/-! ### Emacs sub-modes, numeric argument, end of the application -/

/-- a named key of the generated key list -/
def keyOf (n : String) : Key := namedBase + Gen.C05.keyNames.idxOf n
/-- a fresh Emacs prompt -/
def emacs0 : Sk := Sk.init false false

/-- **Emacs: Escape ends an incremental search at once.**  In Emacs mode Escape is the Meta prefix of
    dozens of bindings, so it normally waits in the key buffer; while a search has the focus the EAGER
    binding of `accept_search` wins (for every table satisfying `emacsEscOK`, every state, all data):
    exactly one handler call, the search is over, the search buffer has no selection, nothing pending. -/
theorem emacs_escape_ends_search (t : Tbl) (esc : Key) (hok : emacsEscOK t esc = true) (s : Sk) (ki : KeyIn)
    (hkey : ki.key.key = esc) (hfl : ki.flush = false) (hvi : s.vi = false) (hs : s.searching = true)
    (hq : s.quoted = false) (hbuf : s.keyBuf = []) (hqueue : s.queue = []) (hdone : s.done = false) :
    ∃ h, (feed t s ki).calls = [h] ∧ classOf t h = .acceptSearch ∧ (feed t s ki).s.keyBuf = [] ∧
      (feed t s ki).s.searching = false ∧ (feed t s ki).s.sel1 = none :=
  feed_emacs_search_escape t esc hok s ki hkey hfl hvi hs hq hbuf hqueue hdone

theorem gen_emacs_escape_ok : emacsEscOK genTbl Gen.C05.escapeKey = true := gen_emacs_esc_ok

example : keyOf "escape" = Gen.C05.escapeKey := by decide +kernel
example : (run genTbl emacs0 [nk (keyOf "c-r")]).searching = true ∧
    (run genTbl emacs0 [nk (keyOf "c-r"), nk Gen.C05.escapeKey]).searching = false ∧
    (run genTbl emacs0 [nk (keyOf "c-r"), nk Gen.C05.escapeKey]).keyBuf = [] ∧
    -- outside a search Escape is a prefix (Meta) in Emacs mode and waits in the key buffer
    (run genTbl emacs0 [nk Gen.C05.escapeKey]).keyBuf = [⟨Gen.C05.escapeKey, 0⟩] := by decide +kernel

/-- **The numeric argument lasts for exactly one command**: `_call_handler` resets `key_processor.arg`
    before every handler, and only the digit / minus handlers (Vi `1`..`9`, `0`; Emacs `Esc <digit>`,
    `Esc -`, `-`) set it again. -/
theorem numeric_argument_lasts_one_command (c : HClass) (keys : List KeyP) (hd : HData) (enter : Key) (s : Sk)
    (hc : c ≠ .argDigit ∧ c ≠ .metaDash ∧ c ≠ .dash) : (callHandler c keys hd enter s).arg = none :=
  arg_cleared c keys hd enter s hc

example : (run genTbl vi0 [nk Gen.C05.escapeKey, ch '2']).arg = some false ∧
    (run genTbl vi0 [nk Gen.C05.escapeKey, ch '2', ch 'l']).arg = none := by decide +kernel

/-- **Keys that arrive after the application is done are not executed**: `process_keys` leaves them in
    the input queue (typeahead for the next prompt); no handler runs, the skeleton is unchanged. -/
theorem keys_after_done_not_executed (t : Tbl) (s : Sk) (ki : KeyIn) (hd : s.done = true) :
    (feed t s ki).calls = [] ∧
    (feed t s ki).s = { s with queue := s.queue ++ [if ki.flush then ⟨flushKey, 0⟩ else ki.key] } :=
  feed_done t s ki hd

example : (feed genTbl { vi0 with done := true } (ch 'x')).calls = [] := by decide +kernel

end Skel
end Ptk.C05
