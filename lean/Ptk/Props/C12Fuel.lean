/-
  C12 — termination of the size division with an EXPLICIT bound (`Ptk.Model.C12Steps`).

  `divide_terminates_bound`: the fuel `fuelBound dims avail` is enough for every list of valid
  dimensions; `divideC_fst`: the counted division the driver runs is `divide`;
  `divideC_steps_le`: the number of loop iterations (= `next(generator)` calls of `_grow_sizes`)
  is at most `n · (maxW + 1)` per cell handed out beyond the minimum sizes, hence at most
  `(avail − Σ min) · n · (maxW + 1)`: linear in the available size times the largest weight.
  (`Ptk.Props.C12Slow` shows that the factor `maxW` is really there.)
-/
import Ptk.Props.C12
import Ptk.Props.C12Steps
namespace Ptk.C12

/-! ### the counted division is the division -/

theorem phase2C_fst (fuel : Nat) (dims : List Dim) (stop2 : Nat) (toMax : Bool) (sizes : List Nat)
    (gens : List (List Nat × Gen)) (c : Nat) :
    (phase2C fuel dims stop2 toMax sizes gens c).1 = phase2 fuel dims stop2 toMax sizes gens := by
  unfold phase2C phase2
  cases toMax with
  | false => rfl
  | true =>
    simp only [if_true]
    have hp := growSizesC_proj fuel (dims.map (·.max)) stop2 gens sizes c
    generalize h : growSizesC fuel (dims.map (·.max)) stop2 sizes gens c = o at hp ⊢
    rcases o with _ | r
    · simp only [Option.map_none] at hp; rw [← hp]
    · simp only [Option.map_some] at hp; rw [← hp]

/-- **`divideC` computes `divide`** — every theorem about `divide` is a theorem about what the
    driver runs. -/
theorem divideC_fst (fuel : Nat) (dims : List Dim) (avail : Nat) (toMax : Bool) :
    (divideC fuel dims avail toMax).1 = divide fuel dims avail toMax := by
  unfold divideC divide
  rcases sumDims dims with _ | sd
  · rfl
  · simp only
    split_ifs
    · rfl
    · have hp := growSizesC_proj fuel (dims.map (·.pref)) (Nat.min avail sd.pref)
        (childGenerators dims) (dims.map (·.min)) 0
      generalize growSizesC fuel (dims.map (·.pref)) (Nat.min avail sd.pref) (dims.map (·.min))
          (childGenerators dims) 0 = o at hp ⊢
      rcases o with _ | r
      · simp only [Option.map_none] at hp; rw [← hp]
      · simp only [Option.map_some] at hp; rw [← hp]
        exact phase2C_fst _ _ _ _ _ _ _

theorem divideHC_fst (fuel : Nat) (al : Align) (filler pad : Dim) (children : List Dim)
    (avail : Nat) (done : Bool) :
    (divideHC fuel al filler pad children avail done).1
      = divideH fuel al filler pad children avail done := by
  unfold divideHC divideH
  split_ifs
  · rfl
  · exact divideC_fst _ _ _ _

theorem divideVC_fst (fuel : Nat) (al : Align) (filler pad : Dim) (children : List Dim)
    (avail : Nat) :
    (divideVC fuel al filler pad children avail).1 = divideV fuel al filler pad children avail := by
  unfold divideVC divideV
  simp only
  split_ifs
  · rfl
  · exact divideC_fst _ _ _ _

/-! ### explicit termination bound -/

/-- **Termination with an explicit bound**: for every list of valid dimensions (weights may be
    0) and every available size, `fuelBound dims avail = (avail − Σ min) · n · (maxW + 1) + 3 n + 3`
    is enough fuel: no grow loop runs for more than `(avail − Σ min) · n · (maxW + 1)` iterations and
    no `next` for more than `3 n + 3` generator micro-steps. -/
theorem divide_terminates_bound {dims : List Dim} (hv : ValidDims dims) (avail : Nat)
    (toMax : Bool) {F : Nat} (hF : fuelBound dims avail ≤ F) :
    divide F dims avail toMax ≠ .hang := by
  have hmp : sumOf (·.min) dims ≤ sumOf (·.pref) dims := sumOf_le fun d hd => (hv d hd).1
  have hpm : sumOf (·.pref) dims ≤ sumOf (·.max) dims := sumOf_le fun d hd => (hv d hd).2
  by_cases hsmall : sumOf (·.min) dims > avail
  · rw [(tooSmall_iff hv F avail toMax).mpr hsmall]; simp
  unfold fuelBound stepBound gapBound at hF
  have e1 : (dims.map (·.min)).sum = sumOf (·.min) dims := rfl
  have hstop1 : (dims.map (·.min)).sum ≤ Nat.min avail (sumOf (·.pref) dims) := by
    rw [e1]; simp only [Nat.min_def]; split_ifs <;> omega
  have hF1 : (Nat.min avail (sumOf (·.pref) dims) - (dims.map (·.min)).sum)
      * (dims.length * (maxWeight dims + 1)) + 3 * dims.length + 3 ≤ F := by
    have : (Nat.min avail (sumOf (·.pref) dims) - (dims.map (·.min)).sum)
        * (dims.length * (maxWeight dims + 1))
        ≤ (avail - sumOf (·.min) dims) * (dims.length * (maxWeight dims + 1)) :=
      Nat.mul_le_mul_right _ (by
        rw [e1]
        have hm : Nat.min avail (sumOf (·.pref) dims) ≤ avail := Nat.min_le_left _ _
        omega)
    omega
  obtain ⟨⟨s1, gens1⟩, hr1⟩ := growSizes_terminates_bound dims.length (maxWeight dims)
    (dims.map (·.pref)) (Nat.min avail (sumOf (·.pref) dims)) (childGenerators dims)
    (dims.map (·.min)) (childGenerators_ok dims) (childGenerators_inv dims) (by simp) hstop1 F hF1
  obtain ⟨ok1, _, len1, sum1, ge1, _⟩ :=
    growSizes_spec dims.length (dims.map (·.pref)) _ F (childGenerators dims) (dims.map (·.min))
      s1 gens1 (childGenerators_ok dims) (by simp) hstop1 hr1
  have inv1 := growSizes_inv dims.length (maxWeight dims) F _ _ _ _ _ _ (childGenerators_inv dims) hr1
  have hs1 : s1.sum ≤ Nat.min avail (sumOf (·.max) dims) := by
    have : s1.sum ≤ Nat.min avail (sumOf (·.pref) dims) := by
      rw [sum1]; exact Nat.min_le_left _ _
    simp only [Nat.min_def] at this ⊢; split_ifs at this ⊢ <;> omega
  have hs1ge : sumOf (·.min) dims ≤ s1.sum := by
    rw [sum1, ← e1]; simp only [Nat.min_def]; split_ifs <;> omega
  have hF2 : (Nat.min avail (sumOf (·.max) dims) - s1.sum)
      * (dims.length * (maxWeight dims + 1)) + 3 * dims.length + 3 ≤ F := by
    have : (Nat.min avail (sumOf (·.max) dims) - s1.sum) * (dims.length * (maxWeight dims + 1))
        ≤ (avail - sumOf (·.min) dims) * (dims.length * (maxWeight dims + 1)) :=
      Nat.mul_le_mul_right _ (by
        have hm : Nat.min avail (sumOf (·.max) dims) ≤ avail := Nat.min_le_left _ _
        omega)
    omega
  obtain ⟨⟨s2, gens2⟩, hr2⟩ := growSizes_terminates_bound dims.length (maxWeight dims)
    (dims.map (·.max)) (Nat.min avail (sumOf (·.max) dims)) gens1 s1 ok1 inv1 len1 hs1 F hF2
  unfold divide
  rw [sumDims_eq hv]
  simp only
  rw [if_neg hsmall, hr1]
  simp only
  unfold phase2
  cases toMax
  · simp
  · simp only [if_true]; rw [hr2]; simp

/-- with that fuel the division has its final answer: `None` or the sizes -/
theorem divide_answer_bound {dims : List Dim} (hv : ValidDims dims) (avail : Nat) (toMax : Bool) :
    divide (fuelBound dims avail) dims avail toMax = .tooSmall ∨
    ∃ sizes, divide (fuelBound dims avail) dims avail toMax = .ok sizes := by
  rcases h : divide (fuelBound dims avail) dims avail toMax with _ | _ | _ | sizes
  · exact Or.inl rfl
  · exact absurd h (divide_terminates_bound hv avail toMax (le_refl _))
  · exact absurd h (divide_no_error hv _ avail toMax)
  · exact Or.inr ⟨sizes, rfl⟩

/-- **Number of loop iterations**: the four grow loops of one division together perform at most
    `n · (maxW + 1)` iterations per cell handed out beyond the minimum sizes — whatever fuel the
    model was run with. -/
theorem divideC_steps_le {dims : List Dim} (hv : ValidDims dims) {F avail : Nat} {toMax : Bool}
    {sizes : List Nat} {steps : Nat} (h : divideC F dims avail toMax = (.ok sizes, steps)) :
    steps ≤ (sizes.sum - sumOf (·.min) dims) * gapBound dims := by
  have hmp : sumOf (·.min) dims ≤ sumOf (·.pref) dims := sumOf_le fun d hd => (hv d hd).1
  have hpm : sumOf (·.pref) dims ≤ sumOf (·.max) dims := sumOf_le fun d hd => (hv d hd).2
  have e1 : (dims.map (·.min)).sum = sumOf (·.min) dims := rfl
  unfold divideC at h
  rw [sumDims_eq hv] at h
  simp only at h
  by_cases hsmall : sumOf (·.min) dims > avail
  · rw [if_pos hsmall] at h; simp at h
  rw [if_neg hsmall] at h
  have hstop1 : (dims.map (·.min)).sum ≤ Nat.min avail (sumOf (·.pref) dims) := by
    rw [e1]; simp only [Nat.min_def]; split_ifs <;> omega
  rcases h1 : growSizesC F (dims.map (·.pref)) (Nat.min avail (sumOf (·.pref) dims))
      (dims.map (·.min)) (childGenerators dims) 0 with _ | ⟨s1, gens1, c1⟩
  · rw [h1] at h; simp at h
  rw [h1] at h
  simp only at h
  obtain ⟨a1, a2⟩ := growSizesC_count_le dims.length (maxWeight dims) F _ _ _ _ _ _
    (childGenerators_ok dims) (childGenerators_inv dims) (by simp) hstop1 h1
  simp only [Nat.zero_add] at a1 a2
  rw [e1] at a1 a2
  have hg1 : growSizes F (dims.map (·.pref)) (Nat.min avail (sumOf (·.pref) dims))
      (dims.map (·.min)) (childGenerators dims) = some (s1, gens1) := by
    rw [← growSizesC_proj _ _ _ _ _ 0, h1]; rfl
  obtain ⟨ok1, _, len1, sum1, _, _, _⟩ :=
    growSizes_spec dims.length (dims.map (·.pref)) _ F (childGenerators dims) (dims.map (·.min))
      s1 gens1 (childGenerators_ok dims) (by simp) hstop1 hg1
  have inv1 := growSizes_inv dims.length (maxWeight dims) F _ _ _ _ _ _ (childGenerators_inv dims) hg1
  unfold phase2C at h
  unfold gapBound
  cases toMax with
  | false =>
    simp only [Bool.false_eq_true, if_false, Prod.mk.injEq, Outcome.ok.injEq] at h
    obtain ⟨rfl, rfl⟩ := h
    exact a2
  | true =>
    simp only [if_true] at h
    rcases h2 : growSizesC F (dims.map (·.max)) (Nat.min avail (sumOf (·.max) dims)) s1 gens1 c1
      with _ | ⟨s2, gens2, c2⟩
    · rw [h2] at h; simp at h
    rw [h2] at h
    simp only [Prod.mk.injEq, Outcome.ok.injEq] at h
    obtain ⟨rfl, rfl⟩ := h
    have hs1 : s1.sum ≤ Nat.min avail (sumOf (·.max) dims) := by
      have : s1.sum ≤ Nat.min avail (sumOf (·.pref) dims) := by
        rw [sum1]; exact Nat.min_le_left _ _
      simp only [Nat.min_def] at this ⊢; split_ifs at this ⊢ <;> omega
    obtain ⟨b1, b2⟩ := growSizesC_count_le dims.length (maxWeight dims) F _ _ _ _ _ _
      ok1 inv1 len1 hs1 h2
    simp only at b1 b2
    have hsplit : (s2.sum - sumOf (·.min) dims) * (dims.length * (maxWeight dims + 1))
        = (s1.sum - sumOf (·.min) dims) * (dims.length * (maxWeight dims + 1))
          + (s2.sum - s1.sum) * (dims.length * (maxWeight dims + 1)) := by
      rw [← Nat.add_mul]
      congr 1
      omega
    omega

/-- the same bound in terms of the input only -/
theorem divideC_steps_le_stepBound {dims : List Dim} (hv : ValidDims dims) {F avail : Nat}
    {toMax : Bool} {sizes : List Nat} {steps : Nat}
    (h : divideC F dims avail toMax = (.ok sizes, steps)) : steps ≤ stepBound dims avail := by
  have h1 := divideC_steps_le hv h
  have h2 : divide F dims avail toMax = .ok sizes := by rw [← divideC_fst, h]
  have h3 := sum_le_avail hv h2
  unfold stepBound
  exact le_trans h1 (Nat.mul_le_mul_right _ (by omega))

/-! non-vacuity: the F4 witness with its counter, and a skewed-weight list where the bound is
    nearly attained (child 1 cannot grow, child 0 is yielded once per 7 rounds) -/
example : divideC (fuelBound [⟨0, 5, Gen.C12.defaultMax, 0⟩, ⟨0, 5, Gen.C12.defaultMax, 1⟩] 10)
    [⟨0, 5, Gen.C12.defaultMax, 0⟩, ⟨0, 5, Gen.C12.defaultMax, 1⟩] 10 true = (.ok [5, 5], 10) := by
  decide +kernel
example : divideC (fuelBound [⟨0, 0, 9, 1⟩, ⟨0, 0, 0, 7⟩] 4) [⟨0, 0, 9, 1⟩, ⟨0, 0, 0, 7⟩] 4 true
    = (.ok [4, 0], 25) ∧ stepBound [⟨0, 0, 9, 1⟩, ⟨0, 0, 0, 7⟩] 4 = 64 := by decide +kernel

end Ptk.C12
