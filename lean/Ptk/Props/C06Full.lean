/-
  C06 — the FULL renderer model (`Ptk.Model.C06Full`: every attribute `Renderer` keeps between calls, the two
  style dictionaries `_attrs_for_style` / `_style_string_has_style` with the invalidation block of
  `Renderer.render` as written, style-sheet / style-transformation / colour-depth changes as operations of a
  session, cursor-position-report traffic) refines the pure model of `Ptk.Model.C06`.

    cache_consistent, has_style_entries_current, differ_caches_current
                         over EVERY session the dictionaries agree with the style in force
    render_refines, stepFT_sim, runFT_sim
                         the full model makes the calls of the pure model
    render_seq_full, incremental_eq_scratch_full, render_seq_wide_full, incremental_eq_scratch_wide_full,
    render_seq_geo_full  the theorems of the pure model for sessions with style changes
    has_cache_reset_needed
                         why `_style_string_has_style` must be dropped together with `_attrs_for_style`
-/
import Mathlib.Data.Nat.Pairing
import Ptk.Props.C06WideCells
import Ptk.Props.C06Cache
namespace Ptk.C06
open Ptk.Py

variable (cw : Char → Nat)

/-- `(_last_style_hash, _last_transformation_hash)` as the single key of the pure model -/
def pairKey (sk tk : Nat) : Nat := Nat.pair sk tk

theorem pairKey_inj {a b c d : Nat} (h : pairKey a b = pairKey c d) : a = c ∧ b = d := by
  have := congrArg Nat.unpair h
  simp only [pairKey, Nat.unpair_pair, Prod.mk.injEq] at this
  exact this

/-- the environment of the pure model at a fixed terminal size: its style function is indexed by `pairKey` -/
def World.base (wd : World) (w h : Nat) (fs : Bool) : Env :=
  ⟨w, h, fs, fun k s => wd.rawAt (Nat.unpair k).1 (Nat.unpair k).2 s, 0, 0, wd.enc⟩

/-- the environment of one render in the pure model -/
def AppSt.envP (wd : World) (fs : Bool) (a : AppSt) : Env :=
  envFor (wd.base a.w a.h fs) (pairKey a.sk a.tk) a.depth

theorem envP_rawOf (wd : World) (fs : Bool) (a : AppSt) : (a.envP wd fs).rawOf = wd.rawAt a.sk a.tk := by
  funext s
  simp [AppSt.envP, envFor, World.base, Env.rawOf, pairKey, Nat.unpair_pair]

theorem env_agree (wd : World) (fs : Bool) (a : AppSt) : EnvAgree (a.env wd fs) (a.envP wd fs) :=
  ⟨rfl, rfl, rfl, rfl, rfl⟩

/-- the part of the renderer state the pure model knows -/
def RFull.toCore (F : RFull) : RState :=
  { lastScreen := F.lastScreen, lastSize := F.lastSize, pos := F.pos, lastStyle := F.lastStyle,
    styleKey := match F.styleHash, F.transHash with
      | some a, some b => some (pairKey a b)
      | _, _ => none,
    lastDepth := F.lastDepth, shape := F.shape, inAlt := F.inAlt, mouse := F.mouse, paste := F.paste,
    ckm := F.ckm }

/-- **the cache invariant**: whatever the two dictionaries hold, and whatever they compute on a miss, is what
    the style in force (`_last_style_hash`, `_last_transformation_hash`) gives; the has-style cache reads the
    renderer's current attrs cache object -/
structure FInv (wd : World) (F : RFull) : Prop where
  ac : ∀ c, F.attrsCache = some c →
    ∃ sk tk, F.styleHash = some sk ∧ F.transHash = some tk ∧ AOk wd (wd.rawAt sk tk) c
  hc : ∀ h, F.hasCache = some h → F.attrsCache = some h.src ∧
    ∃ sk tk, F.styleHash = some sk ∧ F.transHash = some tk ∧
      EntsOk (fun s => (wd.rawAt sk tk s).hasStyle) h.ents

theorem stale_iff (F : RFull) (a : AppSt) :
    F.stale a = (F.toCore.styleKey != some (pairKey a.sk a.tk) || F.toCore.lastDepth != some a.depth) := by
  unfold RFull.stale RFull.toCore
  apply Bool.eq_iff_iff.mpr
  simp only [Bool.or_eq_true, bne_iff_ne, ne_eq]
  cases h1 : F.styleHash with
  | none => simp
  | some x =>
    cases h2 : F.transHash with
    | none => simp
    | some y =>
      simp only [Option.some.injEq]
      constructor
      · rintro ((h | h) | h)
        · exact Or.inl (fun hp => h (pairKey_inj hp).1)
        · exact Or.inl (fun hp => h (pairKey_inj hp).2)
        · exact Or.inr h
      · rintro (h | h)
        · by_cases hx : x = a.sk
          · by_cases hy : y = a.tk
            · subst hx; subst hy; exact absurd rfl h
            · exact Or.inl (Or.inr hy)
          · exact Or.inl (Or.inl hx)
        · exact Or.inr h

/-- the dictionaries handed to the differ by `Renderer.render` (after the invalidation block and the two
    `if … is None` creations) agree with the style in force -/
theorem cachesFor_ok (wd : World) (F : RFull) (a : AppSt) (inv : FInv wd F) :
    CsOk wd (wd.rawAt a.sk a.tk) (F.cachesFor a).1 := by
  have fresh : AOk wd (wd.rawAt a.sk a.tk) ⟨F.nextId, a.sk, a.tk, []⟩ :=
    ⟨fun _ => rfl, fun p hp => by cases hp⟩
  unfold RFull.cachesFor
  by_cases hs : F.stale a = true
  · simp only [hs, if_true]
    exact ⟨rfl, fresh, fun p hp => by cases hp⟩
  · simp only [hs]
    have hs' : F.stale a = false := by simpa using hs
    simp only [RFull.stale, Bool.or_eq_false_iff, bne_eq_false_iff_eq] at hs'
    obtain ⟨⟨e1, e2⟩, _⟩ := hs'
    cases hac : F.attrsCache with
    | none =>
      cases hhc : F.hasCache with
      | none => exact ⟨rfl, fresh, fun p hp => by cases hp⟩
      | some h =>
        have := (inv.hc h hhc).1
        rw [hac] at this; cases this
    | some c =>
      obtain ⟨sk, tk, f1, f2, f3⟩ := inv.ac c hac
      rw [e1] at f1; rw [e2] at f2; cases f1; cases f2
      cases hhc : F.hasCache with
      | none => exact ⟨rfl, f3, fun p hp => by cases hp⟩
      | some h =>
        obtain ⟨g0, sk', tk', g1, g2, g3⟩ := inv.hc h hhc
        rw [e1] at g1; rw [e2] at g2; cases g1; cases g2
        rw [hac] at g0; cases g0
        exact ⟨rfl, f3, g3⟩

theorem prevFor_toCore (wd : World) (fs : Bool) (F : RFull) (a : AppSt) :
    F.prevFor a = F.toCore.prevFor (a.envP wd fs) (pairKey a.sk a.tk) := by
  unfold RFull.prevFor RState.prevFor
  rw [stale_iff]; rfl

theorem reset_toCore (F : RFull) (sc la : Bool) :
    (F.reset sc la).1.toCore = (F.toCore.reset sc la).1 ∧ (F.reset sc la).2 = (F.toCore.reset sc la).2 := by
  constructor <;> rfl

theorem reset_inv (wd : World) (F : RFull) (sc la : Bool) (inv : FInv wd F) : FInv wd (F.reset sc la).1 :=
  ⟨inv.ac, inv.hc⟩

/-- the state after the assignments of `Renderer.render` satisfies the cache invariant when the differ
    returned consistent dictionaries -/
theorem rendered_inv (wd : World) (fs : Bool) (F : RFull) (a : AppSt) (s : Screen) (d : OutC) (nid : Nat)
    (h : CsOk wd (wd.rawAt a.sk a.tk) d.cs) : FInv wd (F.rendered fs a s d nid) := by
  constructor
  · intro c hc
    simp only [RFull.rendered, Option.some.injEq] at hc
    subst hc
    exact ⟨a.sk, a.tk, rfl, rfl, h.a⟩
  · intro hh hc
    simp only [RFull.rendered, Option.some.injEq] at hc
    subst hc
    exact ⟨by simp only [RFull.rendered, h.alias], a.sk, a.tk, rfl, rfl, h.h⟩

/-- **render_refines** — under the cache invariant, `Renderer.render` with its dictionaries makes exactly the
    `Output` calls of the pure model, leaves the same core state, and re-establishes the cache invariant. -/
theorem render_refines (wd : World) (fs : Bool) (F : RFull) (a : AppSt) (s : Screen) (isDone : Bool)
    (pref : Nat) (inv : FInv wd F) :
    (F.render wd fs a s isDone pref).cmds =
      (F.toCore.render (a.envP wd fs) s isDone a.mouse (pairKey a.sk a.tk) a.shape).2 ∧
    (F.render wd fs a s isDone pref).st.toCore =
      (F.toCore.render (a.envP wd fs) s isDone a.mouse (pairKey a.sk a.tk) a.shape).1 ∧
    FInv wd (F.render wd fs a s isDone pref).st := by
  have hcs := cachesFor_ok wd F a inv
  rw [← envP_rawOf wd fs a] at hcs
  obtain ⟨d1, d2, d3, d4⟩ := diffC_refines wd (a.env wd fs) (a.envP wd fs) (env_agree wd fs a) _ s F.pos
     (F.prevFor a) F.lastStyle isDone F.prevWidth hcs
  rw [envP_rawOf] at d4
  have hpw : F.toCore.prevWidth = F.prevWidth := rfl
  have hinv := rendered_inv wd fs F a s _ (F.cachesFor a).2 d4
  have hcore : (F.rendered fs a s (diffC wd (a.env wd fs) (F.cachesFor a).1 s F.pos (F.prevFor a) F.lastStyle
        isDone F.prevWidth) (F.cachesFor a).2).toCore =
      F.toCore.rendered (a.envP wd fs) s a.mouse (pairKey a.sk a.tk) a.shape
        (diff (a.envP wd fs) s F.pos (F.prevFor a) F.lastStyle isDone F.prevWidth) := by
    simp only [RFull.rendered, RFull.toCore, RState.rendered, d2, d3]
    rfl
  unfold RFull.render RState.render
  rw [← prevFor_toCore wd fs F a, hpw]
  cases isDone with
  | false =>
    simp only [Bool.false_eq_true, if_false]
    refine ⟨?_, hcore, hinv⟩
    rw [d1]; rfl
  | true =>
    simp only [if_true]
    refine ⟨?_, ?_, reset_inv wd _ false true hinv⟩
    · rw [d1, (reset_toCore _ false true).2, hcore]; rfl
    · rw [(reset_toCore _ false true).1, hcore]; rfl


/-! ### the cache invariant over sessions -/

theorem init_inv (wd : World) (b : Bool) : FInv wd (RFull.init b).1 :=
  ⟨fun c h => (by cases h), fun c h => (by cases h)⟩

theorem erase_inv (wd : World) (F : RFull) (la : Bool) (inv : FInv wd F) : FInv wd (F.erase la).1 :=
  ⟨inv.ac, inv.hc⟩

theorem requestCpr_inv (wd : World) (F : RFull) (fs : Bool) (rows : Nat) (q : RFull × List Cmd × Bool)
    (inv : FInv wd F) (h : F.requestCpr fs rows = some q) : FInv wd q.1 ∧ q.1.toCore = F.toCore ∧
      (∀ c ∈ q.2.1, c = Cmd.askCpr) := by
  unfold RFull.requestCpr at h
  split at h
  · cases h
  · split at h
    · cases h; exact ⟨⟨inv.ac, inv.hc⟩, rfl, fun c hc => by cases hc⟩
    · split at h
      · cases h; exact ⟨inv, rfl, fun c hc => by cases hc⟩
      · cases h; exact ⟨⟨inv.ac, inv.hc⟩, rfl, fun c hc => by simpa using hc⟩
      · split at h
        · cases h; exact ⟨inv, rfl, fun c hc => by cases hc⟩
        · cases h; exact ⟨⟨inv.ac, inv.hc⟩, rfl, fun c hc => by simpa using hc⟩

/-- `clear()` never trips the assertion of `request_absolute_cursor_position` (it erases first) -/
theorem clear_some (F : RFull) (fs : Bool) (rows : Nat) : ∃ q, F.clear fs rows = some q ∧
    ∃ q', (F.erase true).1.requestCpr fs rows = some q' ∧ q.1 = q'.1 ∧
      q.2.1 = (F.erase true).2 ++ ([Cmd.eraseScreen, .cursorGoto 0 0, .flush] ++ q'.2.1) := by
  have hpos : (F.erase true).1.pos.y = 0 := rfl
  simp only [RFull.clear]
  cases hq : (F.erase true).1.requestCpr fs rows with
  | none =>
    unfold RFull.requestCpr at hq
    rw [hpos] at hq
    simp only [bne_self_eq_false, Bool.false_eq_true, if_false] at hq
    split at hq
    · cases hq
    · split at hq
      · cases hq
      · cases hq
      · split at hq <;> cases hq
  | some q' => exact ⟨_, rfl, q', rfl, rfl, rfl⟩

theorem stepF_inv (wd : World) (fs : Bool) (st : FSt) (op : FOp) (inv : FInv wd st.r) :
    FInv wd (stepF wd fs st op).1.r := by
  cases op with
  | setStyle _ => exact inv
  | setTrans _ => exact inv
  | setDepth _ => exact inv
  | setMouse _ => exact inv
  | setShape _ => exact inv
  | resize _ _ => exact inv
  | render s pref => exact (render_refines wd fs st.r st.app s false pref inv).2.2
  | finish s pref => exact (render_refines wd fs st.r st.app s true pref inv).2.2
  | erase la => exact erase_inv wd st.r la inv
  | clear =>
    obtain ⟨q, hq, q', hq', e1, _⟩ := clear_some st.r fs st.app.h
    simp only [stepF, hq]
    rw [e1]
    exact (requestCpr_inv wd _ fs st.app.h q' (erase_inv wd st.r true inv) hq').1
  | reset sc la => exact reset_inv wd st.r sc la inv
  | requestCpr =>
    simp only [stepF]
    cases hq : st.r.requestCpr fs st.app.h with
    | none => exact inv
    | some q => exact (requestCpr_inv wd st.r fs st.app.h q inv hq).1
  | reportCpr row => exact ⟨inv.ac, inv.hc⟩
  | cprTimeout =>
    simp only [stepF, RFull.cprTimeout]
    split
    · exact inv
    · split <;> exact ⟨inv.ac, inv.hc⟩

/-- **cache_consistent** — over EVERY session (style sheets, style transformations and colour depths changing
    at will between renders, resizes, erase / clear / reset, cursor position reports): whatever
    `_attrs_for_style` and `_style_string_has_style` hold is what the style of the last render
    (`_last_style_hash`, `_last_transformation_hash`) gives, and the has-style cache reads the renderer's
    current attrs cache. -/
theorem cache_consistent (wd : World) (fs : Bool) : ∀ (ops : List FOp) (st : FSt),
    FInv wd st.r → FInv wd (runF wd fs st ops).r := by
  intro ops
  induction ops with
  | nil => intro st inv; exact inv
  | cons op ops ih => intro st inv; exact ih _ (stepF_inv wd fs st op inv)

/-- … spelled out for the has-style cache, from the initial state of a `Renderer`: every entry `s ↦ b` says
    whether an empty cell with style `s` shows anything under the style of the last render -/
theorem has_style_entries_current (wd : World) (fs b : Bool) (a : AppSt) (ops : List FOp) (h : HCache)
    (hh : (runF wd fs ⟨a, (RFull.init b).1⟩ ops).r.hasCache = some h) :
    ∃ sk tk, (runF wd fs ⟨a, (RFull.init b).1⟩ ops).r.styleHash = some sk ∧
      (runF wd fs ⟨a, (RFull.init b).1⟩ ops).r.transHash = some tk ∧
      (runF wd fs ⟨a, (RFull.init b).1⟩ ops).r.attrsCache = some h.src ∧
      ∀ s v, (s, v) ∈ h.ents → v = (wd.rawAt sk tk s).hasStyle := by
  have inv := cache_consistent wd fs ops ⟨a, (RFull.init b).1⟩ (init_inv wd b)
  obtain ⟨g0, sk, tk, g1, g2, g3⟩ := inv.hc h hh
  exact ⟨sk, tk, g1, g2, g0, fun s v hm => g3 (s, v) hm⟩

/-- … and at the moment the differ runs, the dictionaries it is given agree with the style of THIS render -/
theorem differ_caches_current (wd : World) (fs b : Bool) (a : AppSt) (ops : List FOp) :
    CsOk wd (wd.rawAt (runF wd fs ⟨a, (RFull.init b).1⟩ ops).app.sk (runF wd fs ⟨a, (RFull.init b).1⟩ ops).app.tk)
      ((runF wd fs ⟨a, (RFull.init b).1⟩ ops).r.cachesFor (runF wd fs ⟨a, (RFull.init b).1⟩ ops).app).1 :=
  cachesFor_ok wd _ _ (cache_consistent wd fs ops ⟨a, (RFull.init b).1⟩ (init_inv wd b))


/-! ### sessions on a terminal: the full model simulates the pure one -/

/-- the operation of the pure model that an operation of a session amounts to (changes of the application's
    style / depth / … and the cursor-position-report traffic make no `Output` call that draws) -/
def coreOp (a : AppSt) : FOp → Option ROp
  | .render s _ => some (.render s a.mouse (pairKey a.sk a.tk) a.depth a.shape)
  | .finish s _ => some (.finish s a.mouse (pairKey a.sk a.tk) a.depth a.shape)
  | .erase la => some (.erase la)
  | .clear => some .clear
  | _ => none

/-- operations with terminal semantics in this model: everything but a resize of the terminal and a bare
    `reset()` (which makes the renderer forget where the cursor is without telling the terminal) -/
def FOp.tame : FOp → Bool
  | .resize _ _ => false
  | .reset _ _ => false
  | _ => true

/-- one operation of a session on a terminal (after a `done` render the origin moves to the cursor row) -/
def stepFT (wd : World) (fs : Bool) (st : FSt) (T : Term) (op : FOp) : FSt × Term :=
  ((stepF wd fs st op).1,
   match op with
   | .finish _ _ => (exec cw T (stepF wd fs st op).2).rebase
   | _ => exec cw T (stepF wd fs st op).2)

def runFT (wd : World) (fs : Bool) : FSt → Term → List FOp → FSt × Term
  | st, T, [] => (st, T)
  | st, T, op :: ops => runFT wd fs (stepFT cw wd fs st T op).1 (stepFT cw wd fs st T op).2 ops

def stepRo (e : Env) (R : RState) (T : Term) : Option ROp → RState × Term
  | none => (R, T)
  | some rop => stepR cw e R T rop

theorem exec_askCpr (T : Term) (l : List Cmd) (h : ∀ c ∈ l, c = Cmd.askCpr) : exec cw T l = T :=
  exec_inert cw T l (fun c hc => by rw [h c hc]; rfl)

/-- **stepFT_sim** — one operation of a session (not a resize / bare reset) does to the terminal and to the core
    of the renderer state exactly what the corresponding operation of the pure model does -/
theorem stepFT_sim (wd : World) (fs : Bool) (st : FSt) (T : Term) (op : FOp) (inv : FInv wd st.r)
    (ht : op.tame = true) :
    (stepFT cw wd fs st T op).1.r.toCore =
      (stepRo cw (wd.base st.app.w st.app.h fs) st.r.toCore T (coreOp st.app op)).1 ∧
    (stepFT cw wd fs st T op).2 =
      (stepRo cw (wd.base st.app.w st.app.h fs) st.r.toCore T (coreOp st.app op)).2 ∧
    (stepFT cw wd fs st T op).1.app.w = st.app.w ∧ (stepFT cw wd fs st T op).1.app.h = st.app.h := by
  cases op with
  | setStyle _ => exact ⟨rfl, rfl, rfl, rfl⟩
  | setTrans _ => exact ⟨rfl, rfl, rfl, rfl⟩
  | setDepth _ => exact ⟨rfl, rfl, rfl, rfl⟩
  | setMouse _ => exact ⟨rfl, rfl, rfl, rfl⟩
  | setShape _ => exact ⟨rfl, rfl, rfl, rfl⟩
  | resize _ _ => cases ht
  | reset _ _ => cases ht
  | render s pref =>
    obtain ⟨r1, r2, _⟩ := render_refines wd fs st.r st.app s false pref inv
    refine ⟨r2, ?_, rfl, rfl⟩
    show exec cw T (st.r.render wd fs st.app s false pref).cmds = _
    rw [r1]; rfl
  | finish s pref =>
    obtain ⟨r1, r2, _⟩ := render_refines wd fs st.r st.app s true pref inv
    refine ⟨r2, ?_, rfl, rfl⟩
    show (exec cw T (st.r.render wd fs st.app s true pref).cmds).rebase = _
    rw [r1]; rfl
  | erase la => exact ⟨rfl, rfl, rfl, rfl⟩
  | clear =>
    obtain ⟨q, hq, q', hq', e1, e2⟩ := clear_some st.r fs st.app.h
    obtain ⟨_, c1, c2⟩ := requestCpr_inv wd _ fs st.app.h q' (erase_inv wd st.r true inv) hq'
    simp only [stepFT, stepF, hq, stepRo, coreOp, stepR]
    refine ⟨?_, ?_, trivial, trivial⟩
    · rw [e1, c1]; rfl
    · rw [e2, ← List.append_assoc, exec_append, exec_askCpr cw _ _ c2]; rfl
  | requestCpr =>
    simp only [stepFT, stepF, stepRo, coreOp]
    cases hq : st.r.requestCpr fs st.app.h with
    | none => exact ⟨rfl, rfl, rfl, rfl⟩
    | some q =>
      obtain ⟨_, c1, c2⟩ := requestCpr_inv wd _ fs st.app.h q inv hq
      exact ⟨c1, exec_askCpr cw _ _ c2, rfl, rfl⟩
  | reportCpr row => exact ⟨rfl, rfl, rfl, rfl⟩
  | cprTimeout =>
    refine ⟨?_, rfl, rfl, rfl⟩
    simp only [stepFT, stepF, RFull.cprTimeout, stepRo, coreOp]
    split
    · rfl
    · split <;> rfl

/-- the operations of the pure model a session amounts to -/
def coreOps (wd : World) (fs : Bool) : FSt → List FOp → List ROp
  | _, [] => []
  | st, op :: ops => (coreOp st.app op).toList ++ coreOps wd fs (stepF wd fs st op).1 ops

theorem runR_opt (e : Env) (R : RState) (T : Term) (o : Option ROp) (rest : List ROp) :
    runR cw e R T (o.toList ++ rest) = runR cw e (stepRo cw e R T o).1 (stepRo cw e R T o).2 rest := by
  cases o <;> rfl

/-- **runFT_sim** — a whole session (without resizes / bare resets) at terminal size `w × h` drives the
    terminal, and the core of the renderer state, exactly like the pure model run on `coreOps`. -/
theorem runFT_sim (wd : World) (fs : Bool) (w h : Nat) : ∀ (ops : List FOp) (st : FSt) (T : Term),
    FInv wd st.r → st.app.w = w → st.app.h = h → (∀ op ∈ ops, op.tame = true) →
    (runFT cw wd fs st T ops).1.r.toCore = (runR cw (wd.base w h fs) st.r.toCore T (coreOps wd fs st ops)).1 ∧
    (runFT cw wd fs st T ops).2 = (runR cw (wd.base w h fs) st.r.toCore T (coreOps wd fs st ops)).2 ∧
    FInv wd (runFT cw wd fs st T ops).1.r ∧
    (runFT cw wd fs st T ops).1.app.w = w ∧ (runFT cw wd fs st T ops).1.app.h = h := by
  intro ops
  induction ops with
  | nil => intro st T inv hw hh _; exact ⟨rfl, rfl, inv, hw, hh⟩
  | cons op ops ih =>
    intro st T inv hw hh ht
    have ht1 := ht op (by simp)
    obtain ⟨s1, s2, s3, s4⟩ := stepFT_sim cw wd fs st T op inv ht1
    rw [hw, hh] at s1 s2
    have inv' : FInv wd (stepFT cw wd fs st T op).1.r := stepF_inv wd fs st op inv
    obtain ⟨i1, i2, i3, i4, i5⟩ := ih (stepFT cw wd fs st T op).1 (stepFT cw wd fs st T op).2 inv'
      (s3.trans hw) (s4.trans hh) (fun o ho => ht o (by simp [ho]))
    simp only [runFT, coreOps]
    rw [runR_opt, ← s1, ← s2]
    exact ⟨i1, i2, i3, i4, i5⟩


theorem runFT_fst (wd : World) (fs : Bool) : ∀ (ops : List FOp) (st : FSt) (T : Term),
    (runFT cw wd fs st T ops).1 = runF wd fs st ops := by
  intro ops
  induction ops with
  | nil => intro st T; rfl
  | cons op ops ih => intro st T; exact ih _ _

theorem runFT_append (wd : World) (fs : Bool) : ∀ (a b : List FOp) (st : FSt) (T : Term),
    runFT cw wd fs st T (a ++ b) = runFT cw wd fs (runFT cw wd fs st T a).1 (runFT cw wd fs st T a).2 b := by
  intro a
  induction a with
  | nil => intro b st T; rfl
  | cons op a ih => intro b st T; exact ih b _ _

theorem coreOps_append (wd : World) (fs : Bool) : ∀ (a b : List FOp) (st : FSt),
    coreOps wd fs st (a ++ b) = coreOps wd fs st a ++ coreOps wd fs (runF wd fs st a) b := by
  intro a
  induction a with
  | nil => intro b st; rfl
  | cons op a ih =>
    intro b st
    simp only [List.cons_append, coreOps, runF, ih, List.append_assoc]

/-- side conditions of a session: no resize / bare reset, and every drawing operation satisfies the side
    condition `P` of the pure model (about the screen to draw, the terminal and `_last_screen`) in the state
    in which it is executed -/
def RunOkF (P : RState → Term → ROp → Prop) (wd : World) (fs : Bool) : FSt → Term → List FOp → Prop
  | _, _, [] => True
  | st, T, op :: ops => op.tame = true ∧ (∀ rop, coreOp st.app op = some rop → P st.r.toCore T rop) ∧
      RunOkF P wd fs (stepFT cw wd fs st T op).1 (stepFT cw wd fs st T op).2 ops

theorem runOkF_tame (P : RState → Term → ROp → Prop) (wd : World) (fs : Bool) :
    ∀ (ops : List FOp) (st : FSt) (T : Term), RunOkF cw P wd fs st T ops → ∀ op ∈ ops, op.tame = true := by
  intro ops
  induction ops with
  | nil => intro _ _ _ op h; cases h
  | cons o ops ih =>
    intro st T h op hm
    simp only [List.mem_cons] at hm
    rcases hm with hm | hm
    · subst hm; exact h.1
    · exact ih _ _ h.2.2 op hm

/-- the side conditions of a session are those of the pure run -/
theorem runOkF_core (P : RState → Term → ROp → Prop) (Run : RState → Term → List ROp → Prop)
    (wd : World) (fs : Bool) (w h : Nat)
    (hnil : ∀ R T, Run R T [])
    (hcons : ∀ R T op ops, P R T op → Run (stepR cw (wd.base w h fs) R T op).1 (stepR cw (wd.base w h fs) R T op).2 ops →
      Run R T (op :: ops)) :
    ∀ (ops : List FOp) (st : FSt) (T : Term), FInv wd st.r → st.app.w = w → st.app.h = h →
      RunOkF cw P wd fs st T ops → Run st.r.toCore T (coreOps wd fs st ops) := by
  intro ops
  induction ops with
  | nil => intro st T _ _ _ _; exact hnil _ _
  | cons op ops ih =>
    intro st T inv hw hh ok
    obtain ⟨ht, hp, hrest⟩ := ok
    obtain ⟨s1, s2, s3, s4⟩ := stepFT_sim cw wd fs st T op inv ht
    rw [hw, hh] at s1 s2
    have inv' : FInv wd (stepFT cw wd fs st T op).1.r := stepF_inv wd fs st op inv
    have i := ih (stepFT cw wd fs st T op).1 (stepFT cw wd fs st T op).2 inv' (s3.trans hw) (s4.trans hh) hrest
    simp only [coreOps]
    cases hc : coreOp st.app op with
    | none =>
      simp only [hc, stepRo] at s1 s2
      rw [s1, s2] at i
      exact i
    | some rop =>
      simp only [hc, stepRo] at s1 s2
      rw [s1, s2] at i
      exact hcons _ _ _ _ (hp rop hc) i


/-! ### the theorems of the pure model, for sessions of the full model -/

/-- side conditions on the application's styles: the default char's style `[transparent]` shows nothing on an
    empty cell under every style sheet and transformation, and displaying attributes at a colour depth never
    adds colour / underline / … -/
structure WorldOk (wd : World) : Prop where
  dflt : ∀ sk tk, (wd.rawAt sk tk 1).hasStyle = false
  enc : ∀ (d : Nat) (a : Attrs), a.hasStyle = false → (wd.enc d a).hasStyle = false

theorem envOk_of_world (wd : World) (ok : WorldOk wd) (w h : Nat) (fs : Bool) (k d : Nat) :
    EnvOk (envFor (wd.base w h fs) k d) :=
  ⟨ok.dflt _ _, fun a ha => ok.enc d a ha⟩

/-- a new `Renderer` and a terminal whose cursor is on column 0 of the origin row satisfy the renderer
    invariant -/
theorem init_rinv (wd : World) (fs b : Bool) (w h rows top : Nat) (cells : Nat → Nat → TCell)
    (hw : 0 < w) (hr : 0 < rows) (htot : top + rows ≤ h) :
    RInv (wd.base w h fs) (RFull.init b).1.toCore (Term.fresh w rows top cells) :=
  ⟨rfl, hw, rfl, rfl, hw, hr, htot, rfl, rfl, (fun _ h => by cases h), (fun ps h => by cases h)⟩

/-- **render_seq_full** — `render_seq` for sessions of the full renderer model: the application may change its
    style sheet, its style transformation, its colour depth, mouse support and cursor shape between any two
    renders, cursor position reports may arrive at any time; the terminal always shows `_last_screen` as
    displayed under the style and at the depth of the last render, the cursor is at `_cursor_pos`, attributes
    are reset — and the two style dictionaries stay consistent. -/
theorem render_seq_full (wd : World) (fs : Bool) (w h : Nat) (h1 : cw ' ' = 1) (wok : WorldOk wd)
    (ops : List FOp) (st : FSt) (T : Term)
    (inv : RInv (wd.base w h fs) st.r.toCore T) (finv : FInv wd st.r) (hw : st.app.w = w) (hh : st.app.h = h)
    (ok : RunOkF cw (OpOk cw (wd.base w h fs)) wd fs st T ops) :
    RInv (wd.base w h fs) (runFT cw wd fs st T ops).1.r.toCore (runFT cw wd fs st T ops).2 ∧
    FInv wd (runFT cw wd fs st T ops).1.r := by
  obtain ⟨s1, s2, s3, _, _⟩ := runFT_sim cw wd fs w h ops st T finv hw hh (runOkF_tame cw _ wd fs ops st T ok)
  have hrun := runOkF_core cw (OpOk cw (wd.base w h fs)) (RunOk cw (wd.base w h fs)) wd fs w h
    (fun _ _ => trivial) (fun _ _ _ _ a b => ⟨a, b⟩) ops st T finv hw hh ok
  rw [s1, s2]
  exact ⟨render_seq cw (wd.base w h fs) h1 (envOk_of_world wd wok w h fs) _ _ _ inv hrun, s3⟩

/-- the `Output` calls of a brand-new `Renderer` drawing `s` as its first screen do to a terminal what the pure
    differ's from-scratch output does -/
theorem scratch_exec (wd : World) (fs b : Bool) (a : AppSt) (s : Screen) (pref : Nat) (T : Term) :
    exec cw T ((RFull.init b).1.render wd fs a s false pref).cmds =
      exec cw T (diff (a.envP wd fs) s ⟨0, 0⟩ none none false 0).cmds := by
  obtain ⟨r1, _, _⟩ := render_refines wd fs (RFull.init b).1 a s false pref (init_inv wd b)
  rw [r1]
  obtain ⟨x, y, hx, hy, hc⟩ := render_cmds (a.envP wd fs) (RFull.init b).1.toCore s false a.mouse
    (pairKey a.sk a.tk) a.shape
  rw [hc]
  simp only [Bool.false_eq_true, if_false, List.append_nil]
  rw [exec_append, exec_inert cw T x hx, exec_append, exec_inert cw _ y hy]
  rfl

/-- **incremental_eq_scratch_full** — the terminal after ANY session (style sheet, style transformation and
    colour depth changing at will between the renders — also a style string that meant "no visible attributes"
    and now means "background colour", or the other way round) that ends with a render of `s` is visibly
    identical (cells of the owned rows, cursor position, cursor visibility, SGR state, autowrap) to a terminal
    of the same geometry with arbitrary contents on which a brand-new `Renderer` (empty dictionaries, no
    previous screen) draws `s` under the application state of that last render. -/
theorem incremental_eq_scratch_full (wd : World) (fs b : Bool) (w h : Nat) (h1 : cw ' ' = 1) (wok : WorldOk wd)
    (ops : List FOp) (st : FSt) (T : Term) (s : Screen) (pref : Nat)
    (inv : RInv (wd.base w h fs) st.r.toCore T) (finv : FInv wd st.r) (hw : st.app.w = w) (hh : st.app.h = h)
    (ok : RunOkF cw (OpOk cw (wd.base w h fs)) wd fs st T (ops ++ [.render s pref]))
    (junk : Nat → Nat → TCell) :
    (∀ y x, y < (runFT cw wd fs st T (ops ++ [.render s pref])).2.h → x < w →
      ((runFT cw wd fs st T (ops ++ [.render s pref])).2.cells y x).norm =
      ((exec cw (Term.fresh w (runFT cw wd fs st T (ops ++ [.render s pref])).2.h 0 junk)
          ((RFull.init b).1.render wd fs (runF wd fs st ops).app s false pref).cmds).cells y x).norm) ∧
    (runFT cw wd fs st T (ops ++ [.render s pref])).2.row =
      (exec cw (Term.fresh w (runFT cw wd fs st T (ops ++ [.render s pref])).2.h 0 junk)
          ((RFull.init b).1.render wd fs (runF wd fs st ops).app s false pref).cmds).row ∧
    (runFT cw wd fs st T (ops ++ [.render s pref])).2.col =
      (exec cw (Term.fresh w (runFT cw wd fs st T (ops ++ [.render s pref])).2.h 0 junk)
          ((RFull.init b).1.render wd fs (runF wd fs st ops).app s false pref).cmds).col ∧
    (runFT cw wd fs st T (ops ++ [.render s pref])).2.visible =
      (exec cw (Term.fresh w (runFT cw wd fs st T (ops ++ [.render s pref])).2.h 0 junk)
          ((RFull.init b).1.render wd fs (runF wd fs st ops).app s false pref).cmds).visible ∧
    (runFT cw wd fs st T (ops ++ [.render s pref])).2.sgr =
      (exec cw (Term.fresh w (runFT cw wd fs st T (ops ++ [.render s pref])).2.h 0 junk)
          ((RFull.init b).1.render wd fs (runF wd fs st ops).app s false pref).cmds).sgr ∧
    (runFT cw wd fs st T (ops ++ [.render s pref])).2.autowrap =
      (exec cw (Term.fresh w (runFT cw wd fs st T (ops ++ [.render s pref])).2.h 0 junk)
          ((RFull.init b).1.render wd fs (runF wd fs st ops).app s false pref).cmds).autowrap := by
  have tame := runOkF_tame cw _ wd fs _ st T ok
  obtain ⟨_, s2, _, _, _⟩ := runFT_sim cw wd fs w h _ st T finv hw hh tame
  have hrun := runOkF_core cw (OpOk cw (wd.base w h fs)) (RunOk cw (wd.base w h fs)) wd fs w h
    (fun _ _ => trivial) (fun _ _ _ _ a b => ⟨a, b⟩) _ st T finv hw hh ok
  obtain ⟨_, _, _, aw, ah⟩ := runFT_sim cw wd fs w h ops st T finv hw hh
    (fun o ho => tame o (by simp [ho]))
  rw [runFT_fst] at aw ah
  have hco : coreOps wd fs st (ops ++ [.render s pref]) = coreOps wd fs st ops ++
      [ROp.render s (runF wd fs st ops).app.mouse (pairKey (runF wd fs st ops).app.sk (runF wd fs st ops).app.tk)
        (runF wd fs st ops).app.depth (runF wd fs st ops).app.shape] := by
    rw [coreOps_append]; rfl
  rw [hco] at s2 hrun
  have key := incremental_eq_scratch cw (wd.base w h fs) h1 (envOk_of_world wd wok w h fs)
    (coreOps wd fs st ops) st.r.toCore T s _ _ _ _ inv hrun junk
  have henv : (runF wd fs st ops).app.envP wd fs =
      envFor (wd.base w h fs) (pairKey (runF wd fs st ops).app.sk (runF wd fs st ops).app.tk)
        (runF wd fs st ops).app.depth := by
    simp only [AppSt.envP, aw, ah]
  simp only [scratch_exec, henv, s2]
  exact key


/-- **render_seq_wide_full** — `render_seq_wide` (screens with wide characters) for sessions of the full model;
    nothing scrolls and no cursor motion passes the margins. -/
theorem render_seq_wide_full (wd : World) (fs : Bool) (w h : Nat) (h1 : cw ' ' = 1) (wok : WorldOk wd)
    (ops : List FOp) (st : FSt) (T : Term)
    (inv : RInvW cw (wd.base w h fs) st.r.toCore T) (finv : FInv wd st.r) (hw : st.app.w = w) (hh : st.app.h = h)
    (ok : RunOkF cw (OpOkWW cw (wd.base w h fs)) wd fs st T ops) :
    RInvW cw (wd.base w h fs) (runFT cw wd fs st T ops).1.r.toCore (runFT cw wd fs st T ops).2 ∧
    (runFT cw wd fs st T ops).2.scrolled = T.scrolled ∧ (runFT cw wd fs st T ops).2.oob = T.oob := by
  obtain ⟨s1, s2, _, _, _⟩ := runFT_sim cw wd fs w h ops st T finv hw hh (runOkF_tame cw _ wd fs ops st T ok)
  have hrun := runOkF_core cw (OpOkWW cw (wd.base w h fs)) (RunOkWW cw (wd.base w h fs)) wd fs w h
    (fun _ _ => trivial) (fun _ _ _ _ a b => ⟨a, b⟩) ops st T finv hw hh ok
  rw [s1, s2]
  exact render_seq_wide cw (wd.base w h fs) h1 (envOk_of_world wd wok w h fs) _ _ _ inv hrun

/-- **incremental_eq_scratch_wide_full** — for screens with wide characters: after any session ending with a
    render of `s` the owned rows are visibly identical to those drawn from scratch by a brand-new `Renderer`. -/
theorem incremental_eq_scratch_wide_full (wd : World) (fs b : Bool) (w h : Nat) (h1 : cw ' ' = 1)
    (wok : WorldOk wd) (ops : List FOp) (st : FSt) (T : Term) (s : Screen) (pref : Nat)
    (inv : RInvW cw (wd.base w h fs) st.r.toCore T) (finv : FInv wd st.r) (hw : st.app.w = w) (hh : st.app.h = h)
    (ok : RunOkF cw (OpOkWW cw (wd.base w h fs)) wd fs st T (ops ++ [.render s pref]))
    (junk : Nat → Nat → TCell) :
    ∀ y x, y < (runFT cw wd fs st T (ops ++ [.render s pref])).2.h → x < w →
      ((runFT cw wd fs st T (ops ++ [.render s pref])).2.cells y x).norm =
      ((exec cw (Term.fresh w (runFT cw wd fs st T (ops ++ [.render s pref])).2.h 0 junk)
          ((RFull.init b).1.render wd fs (runF wd fs st ops).app s false pref).cmds).cells y x).norm := by
  have tame := runOkF_tame cw _ wd fs _ st T ok
  obtain ⟨_, s2, _, _, _⟩ := runFT_sim cw wd fs w h _ st T finv hw hh tame
  have hrun := runOkF_core cw (OpOkWW cw (wd.base w h fs)) (RunOkWW cw (wd.base w h fs)) wd fs w h
    (fun _ _ => trivial) (fun _ _ _ _ a b => ⟨a, b⟩) _ st T finv hw hh ok
  obtain ⟨_, _, _, aw, ah⟩ := runFT_sim cw wd fs w h ops st T finv hw hh
    (fun o ho => tame o (by simp [ho]))
  rw [runFT_fst] at aw ah
  have hco : coreOps wd fs st (ops ++ [.render s pref]) = coreOps wd fs st ops ++
      [ROp.render s (runF wd fs st ops).app.mouse (pairKey (runF wd fs st ops).app.sk (runF wd fs st ops).app.tk)
        (runF wd fs st ops).app.depth (runF wd fs st ops).app.shape] := by
    rw [coreOps_append]; rfl
  rw [hco] at s2 hrun
  have key := incremental_eq_scratch_wide cw (wd.base w h fs) h1 (envOk_of_world wd wok w h fs)
    (coreOps wd fs st ops) st.r.toCore T s _ _ _ _ inv hrun junk
  have henv : (runF wd fs st ops).app.envP wd fs =
      envFor (wd.base w h fs) (pairKey (runF wd fs st ops).app.sk (runF wd fs st ops).app.tk)
        (runF wd fs st ops).app.depth := by
    simp only [AppSt.envP, aw, ah]
  simp only [scratch_exec, henv, s2]
  exact key

/-- **render_seq_geo_full** — for sessions with arbitrary printable cells that fit: the terminal never scrolls
    and the cursor is never asked to move past the top or left margin of the owned area. -/
theorem render_seq_geo_full (wd : World) (fs : Bool) (w h : Nat)
    (ops : List FOp) (st : FSt) (T : Term)
    (inv : RGeo (wd.base w h fs) st.r.toCore T) (finv : FInv wd st.r) (hw : st.app.w = w) (hh : st.app.h = h)
    (ok : RunOkF cw (OpOkW cw (wd.base w h fs)) wd fs st T ops) :
    RGeo (wd.base w h fs) (runFT cw wd fs st T ops).1.r.toCore (runFT cw wd fs st T ops).2 ∧
    (runFT cw wd fs st T ops).2.scrolled = T.scrolled ∧ (runFT cw wd fs st T ops).2.oob = T.oob := by
  obtain ⟨s1, s2, _, _, _⟩ := runFT_sim cw wd fs w h ops st T finv hw hh (runOkF_tame cw _ wd fs ops st T ok)
  have hrun := runOkF_core cw (OpOkW cw (wd.base w h fs)) (RunOkW cw (wd.base w h fs)) wd fs w h
    (fun _ _ => trivial) (fun _ _ _ _ a b => ⟨a, b⟩) ops st T finv hw hh ok
  rw [s1, s2]
  exact render_seq_geo cw (wd.base w h fs) _ _ _ inv hrun


/-! ### non-vacuity, and why BOTH dictionaries must be dropped -/

section ExamplesFull

/-- two style sheets: under sheet 0 the style string `2` ("class:bar") is plain, under sheet 1 it has a red
    background; a style transformation 1 underlines style string `3` -/
def exWorld : World :=
  ⟨fun sk tk s =>
      if s = 2 ∧ sk = 1 then { Attrs.dflt with bg := ['r', 'e', 'd'] }
      else if s = 3 ∧ tk = 1 then { Attrs.dflt with underline := true }
      else Attrs.dflt,
   exEnc⟩

theorem exWorldOk : WorldOk exWorld := by
  refine ⟨?_, ?_⟩
  · intro sk tk; simp [exWorld, Attrs.hasStyle, Attrs.dflt]
  · intro d a ha
    show (exEnc d a).hasStyle = false
    unfold exEnc
    split
    · simp only [Attrs.hasStyle, Bool.or_eq_false_iff] at ha ⊢
      simp [ha.1.1.1.2, ha.1.1.2, ha.1.2, ha.2]
    · exact ha

/-- `a` followed by two blanks of style 2, and a second row of three blanks of style 2 (a status bar) -/
def exBar : Screen :=
  ⟨[[⟨['a'], 0, 1⟩, ⟨[' '], 2, 1⟩, ⟨[' '], 2, 1⟩], [⟨[' '], 2, 1⟩, ⟨[' '], 2, 1⟩, ⟨[' '], 2, 1⟩]], [], 2, ⟨1, 0⟩, true⟩

def exApp : AppSt := ⟨3, 3, 0, 0, 8, false, 0⟩
def exSt0 : FSt := ⟨exApp, (RFull.init false).1⟩

/-- render under sheet 0 (the blanks of style 2 show nothing: `False` is memoised), switch to sheet 1 -/
def exOpsF : List FOp := [.render exBar 2, .setStyle 1]

theorem exOkF : RunOkF cw1 (OpOk cw1 (exWorld.base 3 3 false)) exWorld false exSt0 exT0
    (exOpsF ++ [.render exBar 2]) := by
  refine ⟨rfl, ?_, rfl, ?_, rfl, ?_, trivial⟩
  · intro rop h; cases h
    exact ⟨narrow_of_check _ (by decide), by unfold WF; decide, by decide, by decide, by decide⟩
  · intro rop h; cases h
  · intro rop h; cases h
    exact ⟨narrow_of_check _ (by decide), by unfold WF; decide, by decide, by decide, by decide⟩

/-- `incremental_eq_scratch_full` / `render_seq_full` are not vacuous: the same style string means "nothing
    visible" at the first render and "red background" at the second -/
example (junk : Nat → Nat → TCell) :=
  incremental_eq_scratch_full cw1 exWorld false false 3 3 rfl exWorldOk exOpsF exSt0 exT0 exBar 2
    (init_rinv exWorld false false 3 3 3 0 _ (by decide) (by decide) (by decide)) (init_inv exWorld false)
    rfl rfl exOkF junk

/-- … and the model computes it: after the first render the has-style dictionary holds `2 ↦ False`; the render
    under the new style sheet starts from empty dictionaries, memoises `2 ↦ True`, and paints the trailing
    blanks and the blank row red -/
example :
    ((runF exWorld false exSt0 [.render exBar 2]).r.hasCache.map (·.ents)) = some [(2, false)] ∧
    ((runF exWorld false exSt0 (exOpsF ++ [.render exBar 2])).r.hasCache.map (·.ents)) = some [(2, true)] ∧
    (runFT cw1 exWorld false exSt0 exT0 [.render exBar 2]).2.cells 0 2 = TCell.blank ∧
    (runFT cw1 exWorld false exSt0 exT0 (exOpsF ++ [.render exBar 2])).2.cells 0 2 =
      ⟨[' '], { Attrs.dflt with bg := ['r', 'e', 'd'] }⟩ ∧
    (runFT cw1 exWorld false exSt0 exT0 (exOpsF ++ [.render exBar 2])).2.cells 1 1 =
      ⟨[' '], { Attrs.dflt with bg := ['r', 'e', 'd'] }⟩ := by
  decide

/-- the dictionaries a renderer would hand to the differ if `Renderer.render` dropped `_attrs_for_style` but
    kept `_style_string_has_style` across the style change: a fresh attrs cache for sheet 1, and the old
    has-style cache (its entry `2 ↦ False`, its reference to the OLD attrs cache) -/
def exStaleCaches : Caches :=
  ⟨⟨1, 1, 0, []⟩, ⟨⟨0, 0, 0, [(2, Attrs.dflt)]⟩, [(2, false)]⟩⟩

/-- **both dictionaries must be dropped**: with the stale has-style dictionary the full repaint after the style
    change skips the trailing blanks of style 2 (now red), so the terminal does not show the screen — the
    cell at row 0, column 2 stays blank where a from-scratch draw paints it red.  (`cache_consistent` proves that
    `Renderer.render` as written never hands such dictionaries to the differ.) -/
theorem has_cache_reset_needed :
    ((exec cw1 exT0 (diffC exWorld (AppSt.env exWorld false { exApp with sk := 1 }) exStaleCaches exBar ⟨0, 0⟩
        none none false 0).cmds).cells 0 2).norm ≠
      (tcellOf (AppSt.env exWorld false { exApp with sk := 1 }).attrsOf (cellAt (exBar.row 0) 2)).norm ∧
    ¬ CsOk exWorld (exWorld.rawAt 1 0) exStaleCaches := by
  refine ⟨by decide, ?_⟩
  intro h
  have := h.h (2, false) (by simp [exStaleCaches])
  revert this
  decide

end ExamplesFull

end Ptk.C06
