/-
  Cross-model agreement, cluster "KeyProcessor and key bindings".

  Part 3 — `KeyProcessor.process_keys` with the `is_done` gate: C17 first layer (`Ptk.C17`:
  `notEmpty`, `procStep`, `handle`, `iter`, `processKeys`, `dropCpr`) vs the canonical C04.

  The first layer has no key buffer: every key press has a single-key binding whose handler is
  `C17.handle` (CPR: report to the renderer; c-j: feed Enter to the FRONT of the queue; Enter /
  c-c: set the result; other keys: applied to the editor).  `iface1` is that binding set as a
  `C04.Iface`; the world is C17's `KP` without its queue.
-/
import Ptk.Props.AgreeKeyC17
namespace Ptk.AgreeKey.L1
open Ptk.AgreeKey.B17 (kc kp unkp unk bnd)

/-- the world: C17's `KP` with the queue taken out (it lives in C04's `PS`) -/
def wd (p : C17.KP) : C17.KP := { p with queue := [] }

/-- the key of a one-key sequence -/
def keyOf (seq : List C04.KP) : C17.Key := (seq.head?.map unkp).getD (.other 0)

def iface1 : C04.Iface C17.KP where
  getFor := fun w ks => (w, match ks with | [k] => [bnd [k]] | _ => [])
  getStart := fun w _ => (w, [])
  evalF := fun _ f => f.eval fun _ => false
  call := fun w q _ seq _ _ =>
    let p' := C17.handle (wd w) (keyOf seq)
    (wd p', p'.queue.map kp ++ q, .ok)
  done := fun w => w.done.isSome

structure R1 (ps : C04.PS C17.KP) (p : C17.KP) : Prop where
  w : ps.w = wd p
  buffer : ps.buffer = []
  queue : ps.queue = p.queue.map kp

theorem handle_split (p : C17.KP) (k : C17.Key) :
    C17.handle p k = { C17.handle (wd p) k with queue := (C17.handle (wd p) k).queue ++ p.queue } := by
  obtain ⟨q, d, a, c, w⟩ := p
  cases k <;> cases d <;> simp [C17.handle, wd]

theorem wd_handle (p : C17.KP) (k : C17.Key) : wd (C17.handle p k) = wd (C17.handle (wd p) k) := by
  rw [handle_split p k]; rfl

theorem wd_wd (p : C17.KP) : wd (wd p) = wd p := rfl

theorem iface1_call (w : C17.KP) (q : List C04.KP) (b : C04.Binding) (seq prev : List C04.KP)
    (ev : C04.EvX) :
    iface1.call w q b seq prev ev =
      (wd (C17.handle (wd w) (keyOf seq)), (C17.handle (wd w) (keyOf seq)).queue.map kp ++ q, .ok) := rfl

theorem iface1_done (w : C17.KP) : iface1.done w = w.done.isSome := rfl

/-- key_processor.py::KeyProcessor._process / _call_handler for a single-key binding —
    `Ptk.C04.send` at `iface1` = `Ptk.C17.handle` (the key goes through the key buffer and
    leaves it again: exact match, no longer match) -/
theorem send_C04_C17L1 {ps : C04.PS C17.KP} {p : C17.KP} (h : R1 ps p) (k : C17.Key) :
    (C04.send iface1 ps (kp k)).2.2 = false ∧ R1 (C04.send iface1 ps (kp k)).1 (C17.handle p k) := by
  obtain ⟨hw, hb, hq⟩ := h
  obtain ⟨w, buffer, queue, prev, arg, prevH⟩ := ps
  simp only at hw hb hq
  subst hw hb hq
  have hk : keyOf [C04.KP.key (kc k) 0] = k := by simp [keyOf, unkp]
  simp only [kp, C04.send, List.nil_append, List.length_nil, C04.runLoop, C04.examine, C04.decideOf,
    List.isEmpty_cons, Bool.false_eq_true, if_false, C04.getMatches, C04.isPrefixOfLonger, C04.keysOf,
    List.map_cons, List.map_nil, iface1, bnd, List.filter_cons, List.filter_nil, C04.F.eval, if_true,
    List.any_nil, List.isEmpty_nil, List.getLast?_singleton, C04.exec, List.length_cons,
    List.take_succ_cons, List.take_zero, C04.callHandler, C04.eventOf, hk, wd_wd]
  simp only [List.drop_succ_cons, List.drop_zero]
  refine ⟨trivial, ⟨?_, rfl, ?_⟩⟩
  · exact (wd_handle p k).symm
  · show _ = (C17.handle p k).queue.map kp
    rw [handle_split p k]
    simp

theorem any_isCpr (q : List C17.Key) : (q.map kp).any C04.KP.isCpr = C17.hasCpr q := by
  induction q with
  | nil => rfl
  | cons k q ih => simp [C17.hasCpr, ih]

theorem takeCpr_map (q : List C17.Key) :
    C04.takeCpr (q.map kp) =
      if C17.hasCpr q then some (kp .cpr, (C17.removeFirstCpr q).map kp) else none := by
  induction q with
  | nil => rfl
  | cons k q ih =>
    simp only [List.map_cons, C04.takeCpr, B17.kp_isCpr, C17.hasCpr, C17.removeFirstCpr]
    by_cases hk : k.isCpr = true
    · have : k = .cpr := by cases k <;> simp_all [C17.Key.isCpr]
      subst this
      simp [C17.Key.isCpr]
    · simp only [hk, Bool.false_eq_true, if_false, ih, Bool.false_or]
      by_cases hq : C17.hasCpr q = true <;> simp [hq]

/-- key_processor.py::KeyProcessor._process_cpr_response — `Ptk.C04.cprResponse` at `iface1` =
    `Ptk.C17.handle · .cpr` -/
theorem cprResponse_C04_C17L1 {ps : C04.PS C17.KP} {p : C17.KP} (h : R1 ps p) :
    (C04.cprResponse iface1 ps (kp .cpr)).2.2 = false ∧
    R1 (C04.cprResponse iface1 ps (kp .cpr)).1 (C17.handle p .cpr) := by
  obtain ⟨hw, hb, hq⟩ := h
  obtain ⟨w, buffer, queue, prev, arg, prevH⟩ := ps
  simp only at hw hb hq
  subst hw hb hq
  have hk : keyOf [C04.KP.key (kc .cpr) 0] = .cpr := by simp [keyOf, unkp]
  simp only [kp, C04.cprResponse, C04.getMatches, C04.keysOf, List.map_cons, List.map_nil, iface1, bnd,
    List.filter_cons, List.filter_nil, C04.F.eval, if_true, List.getLast?_singleton, hk, wd_wd]
  refine ⟨trivial, ⟨?_, rfl, ?_⟩⟩
  · exact (wd_handle p .cpr).symm
  · show _ = (C17.handle p .cpr).queue.map kp
    rw [handle_split p .cpr]
    simp

/-- key_processor.py::KeyProcessor.process_keys (`not_empty`, `get_next`, one iteration) —
    `Ptk.C04.pkStep` at `iface1` = `Ptk.C17.procStep` -/
theorem pkStep_C04_C17L1 {ps : C04.PS C17.KP} {p : C17.KP} (h : R1 ps p) :
    match C17.procStep p with
    | none => C04.pkStep iface1 ps = none
    | some p' => ∃ ps' obs, C04.pkStep iface1 ps = some (ps', obs, false) ∧ R1 ps' p' := by
  have hdone : iface1.done ps.w = p.done.isSome := by rw [iface1_done, h.w]; rfl
  have hne : C04.notEmpty iface1 ps = C17.notEmpty p := by
    simp only [C04.notEmpty, C17.notEmpty, hdone, h.queue, any_isCpr, List.isEmpty_map]
  simp only [C17.procStep, C04.pkStep, hne]
  by_cases hn : C17.notEmpty p = true
  · simp only [hn, if_true, Bool.not_true, Bool.false_eq_true, if_false, C04.getNext, hdone]
    by_cases hd : p.done.isSome = true
    · have hc : C17.hasCpr p.queue = true := by simpa [C17.notEmpty, hd] using hn
      simp only [hd, if_true, h.queue, takeCpr_map, hc]
      have h' : R1 { ps with queue := (C17.removeFirstCpr p.queue).map kp }
          { p with queue := C17.removeFirstCpr p.queue } := ⟨h.w, h.buffer, rfl⟩
      obtain ⟨c1, c2⟩ := cprResponse_C04_C17L1 h'
      simp only [C04.dispatchKey, B17.kp_isCpr, C17.Key.isCpr, if_true, c1, Bool.false_eq_true, if_false]
      exact ⟨_, _, rfl, c2⟩
    · have hd' : p.done.isSome = false := by simpa using hd
      simp only [hd', Bool.false_eq_true, if_false, h.queue]
      cases hq : p.queue with
      | nil => simp [C17.notEmpty, hd', hq] at hn
      | cons k q =>
        simp only [List.map_cons]
        have h' : R1 { ps with queue := q.map kp } { p with queue := q } := ⟨h.w, h.buffer, rfl⟩
        simp only [C04.dispatchKey, B17.kp_isCpr]
        by_cases hk : k.isCpr = true
        · have : k = .cpr := by cases k <;> simp_all [C17.Key.isCpr]
          subst this
          obtain ⟨c1, c2⟩ := cprResponse_C04_C17L1 h'
          simp only [C17.Key.isCpr, if_true, c1, Bool.false_eq_true, if_false]
          exact ⟨_, _, rfl, c2⟩
        · obtain ⟨c1, c2⟩ := send_C04_C17L1 h' k
          simp only [hk, Bool.false_eq_true, if_false, c1]
          exact ⟨_, _, rfl, c2⟩
  · simp [hn]

/-- key_processor.py::KeyProcessor.process_keys — `Ptk.C04.processKeys` at `iface1` with `n`
    iterations of fuel = `Ptk.C17.iter n` -/
theorem processKeys_iter_C04_C17L1 : ∀ (n : Nat) (ps : C04.PS C17.KP) (p : C17.KP), R1 ps p →
    (C04.processKeys iface1 n ps).2.2 = false ∧ R1 (C04.processKeys iface1 n ps).1 (C17.iter n p) := by
  intro n
  induction n with
  | zero => intro ps p h; exact ⟨rfl, h⟩
  | succ n ih =>
    intro ps p h
    have hs := pkStep_C04_C17L1 h
    simp only [C04.processKeys, C17.iter]
    cases hp : C17.procStep p with
    | none =>
      rw [hp] at hs
      simp only [hs]
      exact ⟨trivial, h⟩
    | some p' =>
      rw [hp] at hs
      obtain ⟨ps', obs, e1, e2⟩ := hs
      obtain ⟨f1, f2⟩ := ih ps' p' e2
      simp only [e1]
      exact ⟨f1, f2⟩

/-- … with the fuel `Ptk.C17.processKeys` uses -/
theorem processKeys_C04_C17L1 {ps : C04.PS C17.KP} {p : C17.KP} (h : R1 ps p) :
    (C04.processKeys iface1 (2 * p.queue.length + 2) ps).2.2 = false ∧
    R1 (C04.processKeys iface1 (2 * p.queue.length + 2) ps).1 (C17.processKeys p) :=
  processKeys_iter_C04_C17L1 _ ps p h

theorem filter_notCpr_map (q : List C17.Key) :
    (q.map kp).filter (fun k => !k.isCpr) = (C17.dropCpr q).map kp := by
  induction q with
  | nil => rfl
  | cons k q ih =>
    simp only [List.map_cons, List.filter_cons, B17.kp_isCpr, C17.dropCpr]
    by_cases hk : k.isCpr = true <;> simp [hk, ih]

/-- key_processor.py::KeyProcessor.empty_queue — `Ptk.C04.emptyQueue` = `Ptk.C17.dropCpr` of the
    queue (what `C17.leave` stores as typeahead) -/
theorem emptyQueue_C04_C17L1 {ps : C04.PS C17.KP} {p : C17.KP} (h : R1 ps p) :
    (C04.emptyQueue ps).2 = (C17.dropCpr p.queue).map kp ∧
    R1 (C04.emptyQueue ps).1 { p with queue := [] } := by
  refine ⟨?_, ⟨h.w, h.buffer, rfl⟩⟩
  simp only [C04.emptyQueue, h.queue]
  exact filter_notCpr_map p.queue

/-- key_processor.py::KeyProcessor.feed_multiple / feed(first=True) — `Ptk.C04.feedMultiple`,
    `Ptk.C04.feed` = the queue updates of `Ptk.C17.step .read` and of the c-j handler -/
theorem feed_C04_C17L1 {ps : C04.PS C17.KP} {p : C17.KP} (h : R1 ps p) (ks : List C17.Key) :
    R1 { ps with queue := C04.feedMultiple ps.queue (ks.map kp) false } { p with queue := p.queue ++ ks } ∧
    R1 (C04.feed ps (kp .accept) true) { p with queue := .accept :: p.queue } := by
  constructor
  · exact ⟨h.w, h.buffer, by simp [C04.feedMultiple, h.queue]⟩
  · exact ⟨h.w, h.buffer, by simp [C04.feed, h.queue]⟩

/-- non-vacuity: `a`, c-j, `b` — c-j feeds Enter, which ends the prompt; `b` stays queued -/
example : R1 { w := C17.idleKP, queue := [kp (.other 97), kp .cj, kp (.other 98)] }
    { C17.idleKP with queue := [.other 97, .cj, .other 98] } := ⟨rfl, rfl, rfl⟩
example : (C17.processKeys { C17.idleKP with queue := [.other 97, .cj, .other 98] }).queue = [.other 98] := by
  decide

end Ptk.AgreeKey.L1
