/-
  C09 — helper lemmas for the multi-range cuts of `Document.cut_selection` (LINES / BLOCK
  selections): slices, the pure form `pieces` of the cut loop, line offsets (`rowStart`),
  `translate_row_col_to_index` / `translate_index_to_position`, the block ranges.
-/
import Ptk.Props.C09Vi
namespace Ptk.C09
open Ptk.Py

/-- `t[a:b]` for `0 ≤ a`, `0 ≤ b` -/
def sl (t : Text) (a b : Nat) : Text := (t.take b).drop a

/-- what the loop of `cut_selection` computes, as a pure function of the ranges:
    (text outside the ranges from `last` on, the cut parts) -/
def pieces (t : Text) : List (Nat × Nat) → Nat → Text × List Text
  | [], last => (t.drop last, [])
  | (f, to) :: rest, last =>
    let r := pieces t rest to
    (sl t last f ++ r.1, sl t f to :: r.2)

theorem cutLoop_pieces (t : Text) : ∀ (rs : List (Nat × Nat)) (rem : Text) (cuts : List Text) (nc last : Nat),
    (cutLoop t rs (rem, cuts, nc, last)).1 ++ t.drop (cutLoop t rs (rem, cuts, nc, last)).2.2.2
      = rem ++ (pieces t rs last).1 ∧
    (cutLoop t rs (rem, cuts, nc, last)).2.1 = cuts ++ (pieces t rs last).2 := by
  intro rs
  induction rs with
  | nil => intro rem cuts nc last; simp [cutLoop, pieces]
  | cons r rest ih =>
    intro rem cuts nc last
    obtain ⟨f, to⟩ := r
    simp only [cutLoop, pieces]
    obtain ⟨h1, h2⟩ := ih (rem ++ (t.take f).drop last) (cuts ++ [(t.take to).drop f]) (if last = 0 then f else nc) to
    exact ⟨by rw [h1]; simp [sl], by rw [h2]; simp [sl]⟩


theorem cutSelection_pieces (t : Text) (cur orig : Nat) (ty : SelType) (vi : Bool) :
    (cutSelection t cur orig ty vi).1.text = (pieces t (selectionRanges t cur orig ty vi) 0).1 ∧
    (cutSelection t cur orig ty vi).2.ty = ty ∧
    (cutSelection t cur orig ty vi).2.text =
      (let ct := join ['\n'] (pieces t (selectionRanges t cur orig ty vi) 0).2
       if ty = .lines ∧ ct.getLast? = some '\n' ∧ (findNlFrom t (max cur orig)).isSome then ct.dropLast else ct) := by
  obtain ⟨h1, h2⟩ := cutLoop_pieces t (selectionRanges t cur orig ty vi) [] [] cur 0
  simp only [List.nil_append] at h1 h2
  unfold cutSelection
  simp only
  rw [h1, h2]
  refine ⟨?_, ?_, ?_⟩ <;> first | rfl | trivial

def cutLine (c1 c2 : Nat) (ln : Text) : Text := ln.take c1 ++ ln.drop c2
def cellOf (c1 c2 : Nat) (ln : Text) : Text := (ln.take c2).drop c1

theorem sl_append_left (a b : Text) (i j : Nat) (hj : j ≤ a.length) : sl (a ++ b) i j = sl a i j := by
  unfold sl; rw [List.take_append_of_le_length hj]

theorem sl_append_right (a b : Text) (i j : Nat) (hi : a.length ≤ i) :
    sl (a ++ b) i j = sl b (i - a.length) (j - a.length) := by
  unfold sl
  rw [List.take_append, List.drop_append]
  have : (a.take j).length ≤ i := by simp; omega
  rw [List.drop_of_length_le this]
  simp only [List.nil_append, List.length_take]
  by_cases hj : a.length ≤ j
  · rw [Nat.min_eq_right hj]
  · have : j - a.length = 0 := by omega
    rw [this]; simp

theorem sl_split (t : Text) (i k j : Nat) (h1 : i ≤ k) (h2 : k ≤ j) : sl t i j = sl t i k ++ sl t k j := by
  unfold sl
  have : t.take k = (t.take j).take k := by rw [List.take_take]; congr 1; omega
  rw [this]
  generalize t.take j = u
  conv => lhs; rw [← List.take_append_drop k u]
  rw [List.drop_append]
  congr 1
  by_cases hk : k ≤ u.length
  · have : i - (u.take k).length = 0 := by simp; omega
    rw [this]; rfl
  · rw [List.drop_of_length_le (by omega : u.length ≤ k)]; simp


theorem sl_zero (t : Text) (j : Nat) : sl t 0 j = t.take j := by simp [sl]
theorem sl_full (t : Text) (i j : Nat) (h : t.length ≤ j) : sl t i j = t.drop i := by
  simp [sl, List.take_of_length_le h]

theorem take_min_len (t : Text) (c : Nat) : t.take (min t.length c) = t.take c := by
  by_cases h : c ≤ t.length
  · rw [Nat.min_eq_right h]
  · rw [Nat.min_eq_left (by omega), List.take_of_length_le (Nat.le_refl _), List.take_of_length_le (by omega)]

theorem drop_min_len (t : Text) (c : Nat) : t.drop (min t.length c) = t.drop c := by
  by_cases h : c ≤ t.length
  · rw [Nat.min_eq_right h]
  · rw [Nat.min_eq_left (by omega), List.drop_of_length_le (Nat.le_refl _), List.drop_of_length_le (by omega)]

/-- the ranges of a block over the first `n` lines of `L`, the text of `L` starting at `off`;
    lines shorter than the left column have no cell -/
def blockRanges (c1 c2 : Nat) : Nat → List Text → Nat → List (Nat × Nat)
  | _, _, 0 => []
  | _, [], _ + 1 => []
  | off, ln :: L, n + 1 =>
    if c1 ≤ ln.length then (off + c1, off + min ln.length c2) :: blockRanges c1 c2 (off + ln.length + 1) L n
    else blockRanges c1 c2 (off + ln.length + 1) L n

/-- a line of the block after the cut -/
def cutLine' (c1 c2 : Nat) (ln : Text) : Text := if c1 ≤ ln.length then cutLine c1 c2 ln else ln
/-- the cell of a line of the block, if the line reaches the left column -/
def cellOf' (c1 c2 : Nat) (ln : Text) : Option Text := if c1 ≤ ln.length then some (cellOf c1 c2 ln) else none

theorem pieces_block (c1 c2 : Nat) : ∀ (n : Nat) (L : List Text) (pre : Text) (last : Nat),
    last ≤ pre.length → n ≤ L.length →
    pieces (pre ++ join ['\n'] L) (blockRanges c1 c2 pre.length L n) last =
      (pre.drop last ++ join ['\n'] ((L.take n).map (cutLine' c1 c2) ++ L.drop n),
       (L.take n).filterMap (cellOf' c1 c2)) := by
  intro n
  induction n with
  | zero =>
    intro L pre last hl _
    simp [blockRanges, pieces, List.drop_append_of_le_length hl]
  | succ n ih =>
    intro L pre last hl hn
    cases L with
    | nil => simp at hn
    | cons ln L' =>
      simp only [blockRanges, List.take_succ_cons, List.map_cons, List.drop_succ_cons, List.filterMap_cons]
      have hrest : (List.map (cutLine' c1 c2) (List.take n L') ++ List.drop n L' ≠ []) ↔ L' ≠ [] := by
        constructor
        · intro h e; subst e; simp at h
        · intro h e
          have := congrArg List.length e
          simp at this
          cases L' with
          | nil => exact h rfl
          | cons a b => simp at this; omega
      by_cases hc1 : c1 ≤ ln.length
      · simp only [hc1, if_true, pieces, cellOf', cutLine']
        have e1 : sl (pre ++ join ['\n'] (ln :: L')) last (pre.length + c1) = pre.drop last ++ ln.take c1 := by
          rw [sl_split _ last pre.length _ hl (by omega), sl_append_left _ _ _ _ (Nat.le_refl _),
            sl_full _ _ _ (Nat.le_refl _), sl_append_right _ _ _ _ (Nat.le_refl _)]
          simp only [Nat.sub_self, Nat.add_sub_cancel_left]
          rw [join_cons_ne, List.append_assoc, sl_append_left _ _ _ _ hc1, sl_zero]
        have e2 : sl (pre ++ join ['\n'] (ln :: L')) (pre.length + c1) (pre.length + min ln.length c2)
            = cellOf c1 c2 ln := by
          rw [sl_append_right _ _ _ _ (by omega)]
          simp only [Nat.add_sub_cancel_left]
          rw [join_cons_ne, List.append_assoc, sl_append_left _ _ _ _ (Nat.min_le_left _ _)]
          simp only [sl, cellOf, take_min_len]
        rw [e1, e2]
        cases L' with
        | nil =>
          have hn0 : n = 0 := by simp at hn; omega
          subst hn0
          simp only [blockRanges, pieces, join, List.take_zero, List.map_nil, List.drop_nil, List.append_nil,
            List.filterMap_nil]
          rw [List.drop_append, List.drop_of_length_le (by omega : pre.length ≤ pre.length + min ln.length c2)]
          simp only [Nat.add_sub_cancel_left, List.nil_append, drop_min_len, cutLine, List.append_assoc]
        | cons l2 L'' =>
          have hj : pre ++ join ['\n'] (ln :: l2 :: L'') = (pre ++ ln ++ ['\n']) ++ join ['\n'] (l2 :: L'') := by
            simp [join]
          have hlen : pre.length + ln.length + 1 = (pre ++ ln ++ ['\n']).length := by simp; omega
          rw [hj, hlen, ih (l2 :: L'') (pre ++ ln ++ ['\n']) (pre.length + min ln.length c2)
            (by simp; omega) (by simp at hn ⊢; omega)]
          simp only [Prod.mk.injEq, and_true]
          rw [List.append_assoc pre, List.drop_append,
            List.drop_of_length_le (by omega : pre.length ≤ pre.length + min ln.length c2)]
          simp only [Nat.add_sub_cancel_left, List.nil_append]
          rw [List.drop_append_of_le_length (Nat.min_le_left _ _), drop_min_len]
          rw [List.cons_append, join_cons_ne _ (cutLine c1 c2 ln)]
          rw [if_pos (hrest.mpr (by simp))]
          simp only [cutLine, List.append_assoc]
      · simp only [hc1, if_false, cellOf', cutLine']
        cases L' with
        | nil =>
          have hn0 : n = 0 := by simp at hn; omega
          subst hn0
          simp only [blockRanges, pieces, join, List.take_zero, List.map_nil, List.drop_nil, List.append_nil,
            List.filterMap_nil]
          rw [List.drop_append_of_le_length hl]
        | cons l2 L'' =>
          have hj : pre ++ join ['\n'] (ln :: l2 :: L'') = (pre ++ ln ++ ['\n']) ++ join ['\n'] (l2 :: L'') := by
            simp [join]
          have hlen : pre.length + ln.length + 1 = (pre ++ ln ++ ['\n']).length := by simp; omega
          rw [hj, hlen, ih (l2 :: L'') (pre ++ ln ++ ['\n']) last
            (by simp; omega) (by simp at hn ⊢; omega)]
          simp only [Prod.mk.injEq, and_true]
          rw [List.append_assoc pre, List.drop_append_of_le_length hl]
          rw [List.cons_append, join_cons_ne _ ln]
          rw [if_pos (hrest.mpr (by simp))]
          simp only [List.append_assoc]

theorem lenSum_cons (l : Text) (L : List Text) : lenSum (l :: L) = l.length + lenSum L := by
  simp [lenSum]

theorem lenSum_append (A B : List Text) : lenSum (A ++ B) = lenSum A + lenSum B := by
  simp [lenSum]

theorem join_length (L : List Text) : (join ['\n'] L).length = lenSum L + (L.length - 1) := by
  induction L with
  | nil => simp [join, lenSum]
  | cons l rest ih =>
    cases rest with
    | nil => simp [join, lenSum]
    | cons l2 r2 =>
      simp only [join, List.length_append, ih, lenSum_cons, List.length_cons, List.length_nil]
      omega

/-- prefix of the text before row `r`: the lines above, each with its newline -/
def rowPrefix (lines : List Text) (r : Nat) : Text :=
  join ['\n'] (lines.take r) ++ (if lines.take r ≠ [] then ['\n'] else [])

theorem rowPrefix_length (lines : List Text) (r : Nat) (hr : r ≤ lines.length) :
    (rowPrefix lines r).length = rowStart lines r := by
  unfold rowPrefix rowStart
  rw [List.length_append, join_length]
  have hl : (lines.take r).length = r := by simp; omega
  by_cases h : r = 0
  · subst h; simp [lenSum]
  · have : lines.take r ≠ [] := by
      intro e; rw [e] at hl; simp at hl; omega
    rw [if_pos this, hl]; simp; omega

theorem text_split_at_row (lines : List Text) (r : Nat) (hr : r < lines.length) :
    join ['\n'] lines = rowPrefix lines r ++ join ['\n'] (lines.drop r) := by
  conv => lhs; rw [← List.take_append_drop r lines]
  rw [join_append]
  have : lines.drop r ≠ [] := by
    intro e; have := congrArg List.length e; simp at this; omega
  simp only [rowPrefix, this, ne_eq, not_false_eq_true, and_true]

theorem rowStart_succ (lines : List Text) (r : Nat) (hr : r < lines.length) :
    rowStart lines (r + 1) = rowStart lines r + lines[r].length + 1 := by
  unfold rowStart
  rw [List.take_succ_eq_append_getElem hr, lenSum_append]
  simp [lenSum]; omega

theorem rowStart_line_le (lines : List Text) (r : Nat) (hr : r < lines.length) :
    rowStart lines r + lines[r].length ≤ (join ['\n'] lines).length := by
  rw [text_split_at_row lines r hr, List.length_append, rowPrefix_length _ _ (Nat.le_of_lt hr)]
  rw [List.drop_eq_getElem_cons hr, join_cons_ne]
  simp only [List.length_append]; omega

theorem block_ranges_eq (t : Text) (c1 c2 : Nat) (lines : List Text) (ht : t = join ['\n'] lines) :
    ∀ (n r : Nat), r + n ≤ lines.length →
    (List.range' r n).filterMap (fun l =>
      let len := (lines.getD l []).length
      if c1 ≤ len then
        some (min (rowStart lines l + c1) t.length, min (rowStart lines l + min len c2) t.length)
      else none) = blockRanges c1 c2 (rowStart lines r) (lines.drop r) n := by
  intro n
  induction n with
  | zero => intro r _; simp [blockRanges]
  | succ n ih =>
    intro r hr
    have hlt : r < lines.length := by omega
    have hd : lines.drop r = lines[r] :: lines.drop (r + 1) := List.drop_eq_getElem_cons hlt
    rw [hd]
    have hg : lines.getD r [] = lines[r] := by simp [List.getD, List.getElem?_eq_getElem hlt]
    have hle := rowStart_line_le lines r hlt
    rw [← ht] at hle
    by_cases hc1 : c1 ≤ lines[r].length
    · simp only [List.range'_succ, List.filterMap_cons, hg, blockRanges, hc1, if_true]
      rw [ih (r + 1) (by omega), rowStart_succ lines r hlt]
      congr 1
      rw [Nat.min_eq_left (by omega), Nat.min_eq_left (by omega)]
    · simp only [List.range'_succ, List.filterMap_cons, hg, blockRanges, hc1, if_false]
      rw [ih (r + 1) (by omega), rowStart_succ lines r hlt]

end Ptk.C09
