/-
  C04 — the concrete world (`Ptk.C04.World`): when the key processor sits directly on a
  `KeyBindings` registry, its (cached) lookups are sound in the sense of `Props/C04Rule.lean`, so
  the dispatch rule holds for the real registry model including its caches.  (Through wrappers
  the lookups are characterised up to filter meaning by `wrappers_always_reflect`.)
-/
import Ptk.Props.C04Rule
import Ptk.Props.C04KB
namespace Ptk.C04

/-- the processor's key-binding object is a registry with valid caches -/
def GoodRoot (x : World) : Prop := ∃ k, x.t.regs[x.root]? = some (.kb k) ∧ KBOK k

/-- the registry's binding list -/
def rootBs (x : World) : List Binding :=
  match x.t.regs[x.root]? with
  | some (.kb k) => k.bs
  | _ => []

theorem wfns_step (w : W) : w.fns = (Ptk.C04.fns w.regs.length).step := rfl

theorem world_getFor {x : World} {k : KB} (he : x.t.regs[x.root]? = some (.kb k)) (ks : List Key) :
    worldIface.getFor x ks =
      ({ x with t := setReg x.t x.root (.kb (k.getFor ks).1) }, (k.getFor ks).2) := by
  show (let r := x.t.fns.getFor x.t x.root ks; (({ x with t := r.1 } : World), r.2)) = _
  rw [wfns_step]
  simp only [Fns.step, he, updateWith, lookupOwn]
  rfl

theorem world_getStart {x : World} {k : KB} (he : x.t.regs[x.root]? = some (.kb k)) (ks : List Key) :
    worldIface.getStart x ks =
      ({ x with t := setReg x.t x.root (.kb (k.getStarting ks).1) }, (k.getStarting ks).2) := by
  show (let r := x.t.fns.getStart x.t x.root ks; (({ x with t := r.1 } : World), r.2)) = _
  rw [wfns_step]
  simp only [Fns.step, he, updateWith, lookupOwn]
  rfl

theorem setReg_root_get (x : World) (r : Reg) (h : x.root < x.t.regs.length) :
    (setReg x.t x.root r).regs[x.root]? = some r := by
  unfold setReg; simp [List.getElem?_set, h]

/-- **the real registry has sound lookups** (memoised lookups included) -/
theorem world_sound : Sound worldIface rootBs GoodRoot := by
  constructor
  · intro x ks ⟨k, he, ok⟩
    rw [world_getFor he]; simp only [rootBs, he]
    exact (KB.getFor_spec ok ks).1
  · intro x ks ⟨k, he, ok⟩
    have hlt : x.root < x.t.regs.length := (List.getElem?_eq_some_iff.mp he).1
    rw [world_getFor he]
    simp only [rootBs, he, setReg_root_get x _ hlt]
    exact (KB.getFor_spec ok ks).2.2.1
  · intro x ks f ⟨k, he, ok⟩
    rw [world_getFor he]; rfl
  · intro x ks ⟨k, he, ok⟩
    have hlt : x.root < x.t.regs.length := (List.getElem?_eq_some_iff.mp he).1
    rw [world_getFor he]
    exact ⟨_, setReg_root_get x _ hlt, (KB.getFor_spec ok ks).2.1⟩
  · intro x ks ⟨k, he, ok⟩
    rw [world_getStart he]; simp only [rootBs, he]
    exact (KB.getStarting_spec ok ks).1
  · intro x ks ⟨k, he, ok⟩
    have hlt : x.root < x.t.regs.length := (List.getElem?_eq_some_iff.mp he).1
    rw [world_getStart he]
    simp only [rootBs, he, setReg_root_get x _ hlt]
    exact (KB.getStarting_spec ok ks).2.2.1
  · intro x ks f ⟨k, he, ok⟩
    rw [world_getStart he]; rfl
  · intro x ks ⟨k, he, ok⟩
    have hlt : x.root < x.t.regs.length := (List.getElem?_eq_some_iff.mp he).1
    rw [world_getStart he]
    exact ⟨_, setReg_root_get x _ hlt, (KB.getStarting_spec ok ks).2.1⟩

/-- **dispatch on the real registry**: every pass of the matching loop of a processor that sits
    on a `KeyBindings` object takes the decision the documented rule demands for the registry's
    current binding list and the current values of the conditions. -/
theorem dispatch_world (ps : PS World) (hG : GoodRoot ps.w) (flush : Bool) :
    Rule (rootBs ps.w) (fun f => f.eval (envFn ps.w.t.env)) ps.buffer flush
      (decideOf worldIface ps flush).2 ∧
    GoodRoot (decideOf worldIface ps flush).1 :=
  have h := dispatch_spec world_sound ps hG flush
  ⟨h.1, h.2.2.2⟩

/-- non-vacuity: a registry with the bindings `a`, `a b`, and the processor waiting after `a` -/
def exWorld : World :=
  { t := (applyROp (applyROp { regs := [.kb {}] }
      (.add 0 [2] 0 (.b true) (.b false) (.b false) (.b true))).1
      (.add 0 [2, 3] 1 (.b true) (.b false) (.b false) (.b true))).1 }

example : GoodRoot exWorld := ⟨_, rfl, KB.clearCache_ok _⟩
example : (decideOf worldIface { w := exWorld, buffer := [.key 2 1] } false).2 matches .wait := by
  decide
example : (decideOf worldIface { w := exWorld, buffer := [.key 2 1] } true).2
    matches .fire _ 1 true := by decide

end Ptk.C04
