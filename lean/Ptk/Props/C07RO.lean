/-
  C07 — handlers that raise, read-only buffers, `KeyProcessor.reset()`, a new prompt on the same objects.

  The session theorems of `Ptk.Props.C07` already quantify over sessions that contain these items
  (`Cmd.out`, `Body.roUndo / roRedo`, `Item.kpReset`).  Here: what exactly each of them does to the undo
  bookkeeping, the defect of `Buffer.undo()` / `redo()` on a read-only buffer (shown on a concrete
  witness; replayed on the real code by the corpus), and what holds once the read-only check comes first.
-/
import Ptk.Props.C07Group
namespace Ptk.C07
open Ptk.Py

/-! ## 1. A handler that raises -/

/-- **raised_keeps_snapshot.**  Whatever way a handler ends (returns, `EditReadOnlyBuffer`, any other
    exception), buffer and stacks are those of the calls made so far on top of the `save_before`
    snapshot taken before the handler ran; only `_previous_handler` differs: forgotten after an
    exception (`KeyProcessor.reset()`), the handler otherwise. -/
theorem raised_keeps_snapshot (o : Outcome) (h : Nat) (rule : Bool → Bool) (body : List Act) (k : KSt) :
    (callHandlerO o h rule body k).st = (callHandler h rule body k).st ∧
    (callHandlerO .raised h rule body k).prev = none ∧
    (callHandlerO .readOnly h rule body k).prev = some h ∧
    (callHandlerO .ok h rule body k).prev = some h := ⟨rfl, rfl, rfl, rfl⟩

/-- **raised_partial_edit_is_undoable.**  A handler whose boundary saved, that changed the text and then
    raised: ONE undo restores exactly the (text, cursor) from before the command — the snapshot is not
    lost with the exception. -/
theorem raised_partial_edit_is_undoable (o : Outcome) (h : Nat) (rule : Bool → Bool) (f : Buf → Buf) (k : KSt)
    (hs : rule (decide (k.prev = some h)) = true) (hne : (f k.st.buf).text ≠ k.st.buf.text) :
    (undo (callHandlerO o h rule [Act.edit f] k).st).buf = k.st.buf := by
  obtain ⟨rest, hrest⟩ := saveToUndo_top true k.st
  have hst : (callHandlerO o h rule [Act.edit f] k).st = { (saveToUndo true k.st) with buf := f k.st.buf } := by
    simp [callHandlerO_eq, boundary, hs, act, saveToUndo_buf]
  have hl : undoLoop (callHandlerO o h rule [Act.edit f] k).st.buf (callHandlerO o h rule [Act.edit f] k).st.undo =
      some (k.st.buf, rest) := by
    rw [hst]; show undoLoop (f k.st.buf) (saveToUndo true k.st).undo = _
    rw [hrest]; unfold undoLoop; rw [if_pos (fun e => hne e.symm)]
  rw [undo_some hl]

/-- **raise_starts_new_group.**  After a command that raised (any handler, also the grouped one itself), the
    next run of a grouped handler is NOT a continuation: its first call saves, and one undo after the run
    restores exactly the (text, cursor) left behind by the raising command. -/
theorem raise_starts_new_group (h0 : Nat) (rule0 : Bool → Bool) (body0 : List Act) (k : KSt)
    (h : Nat) (rule : Bool → Bool) (hr0 : rule false = true) (hr1 : rule true = false)
    (f : Buf → Buf) (fs : List (Buf → Buf)) :
    let k0 := callHandlerO .raised h0 rule0 body0 k
    let k1 := runSame h rule (f :: fs) k0
    k1.st.buf.text ≠ k0.st.buf.text → (undo k1.st).buf = k0.st.buf := by
  intro k0 k1 hne
  exact (group_undone_as_one h rule hr0 hr1 k0 (by simp [k0, callHandlerO_eq, prevAfter]) f fs hne).1

/-- **kpReset_starts_new_group.**  The same after a bare `KeyProcessor.reset()`. -/
theorem kpReset_starts_new_group (k : KSt) (h : Nat) (rule : Bool → Bool) (hr0 : rule false = true)
    (hr1 : rule true = false) (f : Buf → Buf) (fs : List (Buf → Buf)) :
    let k0 := kpReset k
    let k1 := runSame h rule (f :: fs) k0
    k1.st.buf.text ≠ k0.st.buf.text → (undo k1.st).buf = k.st.buf := by
  intro k0 k1 hne
  exact (group_undone_as_one h rule hr0 hr1 k0 (by simp [k0, kpReset]) f fs hne).1

/-! ## 2. A new prompt on the same objects -/

/-- **restart_is_fresh.**  `Buffer.reset(doc)` + `Application.reset()` give exactly the state of a fresh
    session on `doc`, whatever happened before: every session theorem applies to what follows. -/
theorem restart_is_fresh (doc : Buf) (k : KSt) : restart doc k = kInit doc := rfl

/-- **restart_first_key_saves.**  In the new prompt the first key of a handler that saves when it is not a
    repeat puts the starting document on the undo stack — also when the previous prompt ended right
    after a key of the same (grouped) handler. -/
theorem restart_first_key_saves (doc : Buf) (k : KSt) (h : Nat) (rule : Bool → Bool)
    (hr0 : rule false = true) (f : Buf → Buf) :
    (callHandler h rule [Act.edit f] (restart doc k)).st.undo = [doc] := by
  simp [restart_is_fresh, callHandler_eq, boundary, kInit, hr0, act, saveToUndo, reset]

/-- **stale_previous_handler_loses_initial** (why `KeyProcessor.reset()` must forget `_previous_handler`):
    if the new prompt started with the previous handler still remembered (here: self-insert, id 0), typing
    `x y` on `hello` would save nothing, and no number of undos could reach `hello` again. -/
theorem stale_previous_handler_loses_initial :
    let doc : Buf := { text := ['h', 'e', 'l', 'l', 'o'], cur := 5 }
    let stale : KSt := { st := reset doc, prev := some 0 }
    let k1 := runSame 0 (fun rep => !rep) [insertText ['x'], insertText ['y']] stale
    k1.st.undo = [] ∧ (undoN 3 k1.st).buf.text ≠ doc.text ∧
    (undo (runSame 0 (fun rep => !rep) [insertText ['x'], insertText ['y']] (restart doc stale)).st).buf = doc := by
  decide

/-! ## 3. `Buffer.undo()` / `Buffer.redo()` on a read-only buffer -/

/-- **undoRO_sound.**  Shipped or fixed, a read-only undo never changes text or cursor, only ever removes
    entries from the undo stack, and what it puts on the redo stack is the current state. -/
theorem undoRO_sound (fx : Bool) (s : St) :
    (undoRO fx s).buf = s.buf ∧ (undoRO fx s).undo.Sublist s.undo ∧
      ((undoRO fx s).redo = s.redo ∨ (undoRO fx s).redo = s.buf :: s.redo) := by
  refine ⟨undoRO_buf fx s, ?_, ?_⟩
  · unfold undoRO; split
    · exact List.Sublist.refl _
    · cases hl : undoLoop s.buf s.undo with
      | none => simp
      | some p =>
        obtain ⟨t, rest⟩ := p
        exact (List.sublist_cons_self t rest).trans (undoLoop_sublist hl)
  · unfold undoRO; split
    · left; rfl
    · cases hl : undoLoop s.buf s.undo with
      | none => left; rfl
      | some p => right; rfl

/-- **undoRO_fixed_keeps_history.**  With the read-only check first, undo and redo on a read-only buffer
    leave buffer and both stacks exactly as they are. -/
theorem undoRO_fixed_keeps_history (s : St) : undoRO true s = s ∧ redoRO true s = s := ⟨rfl, rfl⟩

/-- **undoRO_shipped_loses_history** (the defect, on the model).  Type `a`, `b` (two snapshots: `""`, `"a"`);
    the buffer becomes read-only; two undo attempts (each ends in `EditReadOnlyBuffer`, the text stays
    `ab`); the buffer becomes writable again: the undo stack is EMPTY, no number of undos reaches the
    text the session started with — and the redo stack holds two copies of the current state that no undo
    produced.  With the check first the same session still undoes `ab → a → ""`. -/
theorem undoRO_shipped_loses_history :
    let s0 : St := { buf := { text := ['a', 'b'], cur := 2 },
                     undo := [{ text := ['a'], cur := 1 }, { text := [], cur := 0 }], redo := [] }
    let bad := undoRO false (undoRO false s0)
    let good := undoRO true (undoRO true s0)
    bad.buf = s0.buf ∧ bad.undo = [] ∧ bad.redo = [s0.buf, s0.buf] ∧
      (undoN 5 bad).buf.text = ['a', 'b'] ∧ (undoN 2 good).buf.text = [] := by
  decide

/-- **redoRO_shipped_loses_redo** (same defect for redo).  After `undo` (`ab → a`), a redo attempt while the
    buffer is read-only drops the redo entry: once writable again, redo no longer restores `ab`. -/
theorem redoRO_shipped_loses_redo :
    let s0 : St := { buf := { text := ['a'], cur := 1 }, undo := [{ text := [], cur := 0 }],
                     redo := [{ text := ['a', 'b'], cur := 2 }] }
    (redo (redoRO false s0)).buf = s0.buf ∧ (redo (redoRO true s0)).buf = { text := ['a', 'b'], cur := 2 } := by
  decide

/-- **ro_flag_consequence.**  What the behaviour flag regenerated from the running code
    (`Gen.C07.roChecksFirst`, probed on a real `Buffer` with a dynamic `read_only` filter) means for the
    model the driver runs: either the read-only check comes first and read-only undo / redo are the
    identity, or the shipped behaviour with the history loss shown above. -/
theorem ro_flag_consequence :
    (Gen.C07.roChecksFirst = true ∧ ∀ s, undoRO Gen.C07.roChecksFirst s = s ∧ redoRO Gen.C07.roChecksFirst s = s) ∨
    (Gen.C07.roChecksFirst = false ∧
      (undoRO Gen.C07.roChecksFirst
        { buf := { text := ['a'], cur := 1 }, undo := [{ text := [], cur := 0 }], redo := [] }).undo = []) := by
  cases h : Gen.C07.roChecksFirst with
  | true => exact Or.inl ⟨rfl, fun s => ⟨rfl, rfl⟩⟩
  | false => exact Or.inr ⟨rfl, by decide⟩

/-- **undo_reaches_initial_readonly_partial.**  (Full statement: "after any session, also one in which undo /
    redo were attempted while the buffer was read-only, repeated undo reaches the initial text" — FALSE of
    the shipped code, see `undoRO_shipped_loses_history`.)  What holds for BOTH variants: sessions whose
    read-only undo / redo attempts are of the fixed kind, or that contain none; the excluded region is
    exactly `Body.roUndo false _` / `Body.roRedo false`. -/
theorem undo_reaches_initial_readonly_partial (isEditH : Nat → Bool) (items : List Item) (b0 : Buf)
    (hwf : WF isEditH items) (hext : ExtOK items (kInit b0)) :
    (undoN (runI items (kInit b0)).st.undo.length (runI items (kInit b0)).st).buf.text = b0.text :=
  (undo_reaches_initial isEditH items b0 hwf hext _ (Nat.le_refl _)).1

/-! ## Non-vacuity -/

section Examples

/-- raised_partial_edit_is_undoable / raise_starts_new_group: `x|y`, type `a`, then a grouped handler call that
    inserts `!` and raises, then `b c` through the same handler: three snapshots, each undo lands on them -/
example :
    let r : Bool → Bool := fun rep => !rep
    let k1 := callHandler 0 r [Act.edit (insertText ['a'])] (kInit exB0)
    let k2 := callHandlerO .raised 9 (fun _ => true) [Act.edit (insertText ['!'])] k1
    let k3 := runSame 0 r [insertText ['b'], insertText ['c']] k2
    k2.prev = none ∧ (undo k2.st).buf = k1.st.buf ∧ k3.st.buf.text ≠ k2.st.buf.text ∧
      (undo k3.st).buf = k2.st.buf ∧ k3.st.undo.length = 3 := by
  decide

/-- a session with a FIXED read-only undo attempt in the middle is well-formed, and reaches its initial text -/
example :
    let items : List Item :=
      [exCmd 0 (.edit (insertText ['a'])), exCmd 2 (.roUndo true id), exCmd 2 (.roRedo true),
       exCmd 1 (.edit (insertText ['b']))]
    (runI items (kInit exB0)).st.undo.length = 2 ∧ (undoN 2 (runI items (kInit exB0)).st).buf.text = exB0.text := by
  decide

/-- … while with the shipped read-only undo the same session ends with an undo stack that no longer
    contains the initial text -/
example :
    let items : List Item :=
      [exCmd 0 (.edit (insertText ['a'])), exCmd 2 (.roUndo false id), exCmd 1 (.edit (insertText ['b']))]
    (undoN 5 (runI items (kInit exB0)).st).buf.text = ['x', 'a', 'y'] := by
  decide

end Examples

end Ptk.C07
