/-
  Cross-model agreement, cluster "undo stack, validation, coroutine guard, typeahead, parser glue".

  Part 2b — the synchronous accept path `Buffer.validate_and_handle` → `Buffer.validate(set_cursor=True)`
  (src/prompt_toolkit/buffer.py) and the reset of the cached verdict by `_text_changed`: canonical
  C14 (`Ptk.C14.validateAndHandle`, `validate`, `setDocument` / `textChanged`) vs
    * C05 (`Ptk.C05.validateAndHandle`: no `validation_state` — the special case "verdict UNKNOWN"
      of C14; accept handler of `PromptSession`, `keep_text = True`);
    * C17 (`Ptk.C17.Buf.Emacs.acceptLine`, `handlerV`: the verdict cached as one bit `inv` = "the
      validator has rejected THIS text"; validators by number, `valid` / `errorPos`).

  Translations (total): C05 / C17 keep text and cursor; `trInv`: C17's `inv` ↦ `validation_state`
  (INVALID / UNKNOWN; a cached VALID verdict cannot outlive the call in C17's setting — accepting
  ends the application); validators: C05's `Text → Nat → Option Int` restricted to those ignoring
  the cursor (C14's sees the text only), C17's `(valid v, errorPos v)` ↦ `v14n v`; result: what the
  accept handler received (`Option Text`) = C05's value handed to `Application.exit` = C17's
  effect `.exit` with the current text.
-/
import Ptk.Model.C14
import Ptk.Model.C05
import Ptk.Model.C17Buf
import Ptk.Props.C05Lemmas
namespace Ptk.AgreeCtl.Accept
open Ptk.Py

theorem setCursorPos_cur (s : C14.St) (v : Int) :
    (C14.setCursorPos s v).cur = min v.toNat s.text.length ∧ (C14.setCursorPos s v).text = s.text ∧
    (C14.setCursorPos s v).vstate = s.vstate := by
  unfold C14.setCursorPos
  simp only []
  split
  · rename_i h; exact ⟨h.symm, rfl, rfl⟩
  · exact ⟨rfl, rfl, rfl⟩

theorem appendToHistory_frame (s : C14.St) :
    (C14.appendToHistory s).text = s.text ∧ (C14.appendToHistory s).cur = s.cur := by
  unfold C14.appendToHistory
  simp only []
  split
  · split <;> exact ⟨rfl, rfl⟩
  · exact ⟨rfl, rfl⟩

/-- buffer.py::Buffer.validate_and_handle — `Ptk.C14.validateAndHandle` (verdict UNKNOWN, `keep_text`)
    = `Ptk.C05.validateAndHandle`: the value handed to the accept handler, text and cursor afterwards
    (a rejected input moves the cursor to `min(max(0, e.cursor_position), len(text))`) -/
theorem validateAndHandle_C14_C05 (v : C14.Validator) (validator : Text → Nat → Option Int)
    (hval : ∀ t c, validator t c = v t) (s : C14.St) (b : C05.Buf)
    (hu : s.vstate = .unknown) (ht : s.text = b.text) (hc : s.cur = b.cur) :
    (C14.validateAndHandle v s true).2 = (C05.validateAndHandle validator b).2 ∧
    (C14.validateAndHandle v s true).1.text = (C05.validateAndHandle validator b).1.text ∧
    (C14.validateAndHandle v s true).1.cur = (C05.validateAndHandle validator b).1.cur := by
  unfold C14.validateAndHandle C14.validate C05.validateAndHandle
  simp only [hu, ne_eq, not_true_eq_false, if_false, hval, ← ht]
  cases hv : v s.text with
  | none =>
    simp only [if_true]
    have := appendToHistory_frame { s with vstate := .valid, verr := none }
    exact ⟨rfl, this.1.trans ht, this.2.trans hc⟩
  | some e =>
    simp only [if_true, Bool.false_eq_true, if_false]
    have h1 := setCursorPos_cur s (min (max 0 e) s.text.length)
    refine ⟨trivial, ?_, ?_⟩
    · rw [C05.setCursor_text]; exact h1.2.1.trans ht
    · show (C14.setCursorPos s _).cur = _
      rw [h1.1]
      unfold C05.setCursor
      simp only [C05.cursorChanged_cur, ← ht]
      omega


open Ptk.C17.Buf Ptk.C17.Buf.Emacs in
/-- the numbered validators of C17's sessions as C14 validators -/
def v14n (v : Nat) : C14.Validator :=
  fun t => if Ptk.C17.Buf.Emacs.valid v t then none else some (Ptk.C17.Buf.Emacs.errorPos v t : Int)

/-- C17's cached verdict (`inv`: the validator has rejected THIS text) ↦ `validation_state` -/
def trInv (inv : Bool) : C14.VState := if inv then .invalid else .unknown

/-- C14's buffer state vs C17's editor state `S` -/
structure Rel17 (s14 : C14.St) (s : Ptk.C17.Buf.Emacs.S) : Prop where
  text : s14.text = s.e.text
  cur : s14.cur = s.e.cur
  vs : s14.vstate = trInv s.inv

/-- the three ways through `validate_and_handle` / `validate(set_cursor=True)` in C14 -/
theorem vah_cached (v : C14.Validator) (s : C14.St) (h : s.vstate = .invalid) :
    C14.validateAndHandle v s true = (s, none) := by
  simp [C14.validateAndHandle, C14.validate, h]

theorem vah_accept (v : C14.Validator) (s : C14.St) (h : s.vstate = .unknown) (hv : v s.text = none) :
    C14.validateAndHandle v s true =
      (C14.appendToHistory { s with vstate := .valid, verr := none }, some s.text) := by
  simp only [C14.validateAndHandle, C14.validate, h, ne_eq, not_true_eq_false, if_false, hv, if_true]
  rfl

theorem vah_reject (v : C14.Validator) (s : C14.St) (h : s.vstate = .unknown) (e : Int)
    (hv : v s.text = some e) :
    C14.validateAndHandle v s true =
      ({ C14.setCursorPos s (min (max 0 e) s.text.length) with vstate := .invalid, verr := some e }, none) := by
  simp only [C14.validateAndHandle, C14.validate, h, ne_eq, not_true_eq_false, if_false, hv, if_true,
    Bool.false_eq_true]

open Ptk.C17.Buf Ptk.C17.Buf.Emacs in
/-- buffer.py::Buffer.validate_and_handle (→ `Buffer.validate(set_cursor=True)`) —
    `Ptk.C14.validateAndHandle` vs `Ptk.C17.Buf.Emacs.acceptLine`: accepted iff C17's handler exits
    (with the current text); a cached INVALID verdict is reused without calling the validator; a
    fresh rejection moves the cursor to the error position and caches the verdict -/
theorem validateAndHandle_C14_C17 (v : Nat) (s14 : C14.St) (s : S) (h : Rel17 s14 s) :
    (C14.validateAndHandle (v14n v) s14 true).2 =
      (if (acceptLine v s).eff = .exit then some s.e.text else none) ∧
    ((acceptLine v s).eff = .stay → Rel17 (C14.validateAndHandle (v14n v) s14 true).1 (acceptLine v s).ed) ∧
    (C14.validateAndHandle (v14n v) s14 true).1.text = (acceptLine v s).ed.e.text ∧
    (C14.validateAndHandle (v14n v) s14 true).1.cur = (acceptLine v s).ed.e.cur := by
  cases hinv : s.inv with
  | true =>
    have hvs : s14.vstate = .invalid := by rw [h.vs, hinv]; rfl
    rw [vah_cached _ _ hvs]
    simp only [acceptLine, hinv, if_true]
    exact ⟨by simp, fun _ => ⟨h.text, h.cur, by rw [hvs, hinv]; rfl⟩, h.text, h.cur⟩
  | false =>
    have hvs : s14.vstate = .unknown := by rw [h.vs, hinv]; rfl
    cases hv : valid v s.e.text with
    | true =>
      have hv14 : v14n v s14.text = none := by simp [v14n, h.text, hv]
      rw [vah_accept _ _ hvs hv14]
      simp only [acceptLine, hinv, hv, Bool.false_eq_true, if_false, if_true]
      have := appendToHistory_frame { s14 with vstate := .valid, verr := none }
      exact ⟨by simp [h.text], (fun e => by cases e), this.1.trans h.text, this.2.trans h.cur⟩
    | false =>
      have hv14 : v14n v s14.text = some (errorPos v s.e.text : Int) := by simp [v14n, h.text, hv]
      rw [vah_reject _ _ hvs _ hv14]
      simp only [acceptLine, hinv, hv, Bool.false_eq_true, if_false]
      have h1 := setCursorPos_cur s14 (min (max 0 (errorPos v s.e.text : Int)) s14.text.length)
      have hcur : min (min (max 0 (errorPos v s.e.text : Int)) (s14.text.length : Int)).toNat s14.text.length
          = min (errorPos v s.e.text) s.e.text.length := by rw [h.text]; omega
      have hc : (C14.setCursorPos s14 (min (max 0 (errorPos v s.e.text : Int)) s14.text.length)).cur
          = min (errorPos v s.e.text) s.e.text.length := by rw [h1.1, hcur]
      exact ⟨by simp, fun _ => ⟨h1.2.1.trans h.text, hc, rfl⟩, h1.2.1.trans h.text, hc⟩


open Ptk.C17.Buf Ptk.C17.Buf.Emacs in
/-- buffer.py::Buffer.validate_and_handle with a cached VALID verdict (an asynchronous validation,
    `validate_while_typing`, finished before Enter; C17's sessions switch that off and `Rel17` cannot
    express it) — `Ptk.C14.validateAndHandle` accepts without calling the validator; C17's
    `acceptLine` (no cached INVALID) calls it: the same result whenever the cached verdict is the
    validator's verdict for the current text -/
theorem validateAndHandle_cachedValid_C14_C17 (v : Nat) (s14 : C14.St) (s : S)
    (hvs : s14.vstate = .valid) (ht : s14.text = s.e.text) (hinv : s.inv = false)
    (hok : valid v s.e.text = true) :
    (C14.validateAndHandle (v14n v) s14 true).2 = some s.e.text ∧ (acceptLine v s).eff = .exit := by
  constructor
  · simp only [C14.validateAndHandle, C14.validate, hvs, ne_eq, reduceCtorEq, not_false_eq_true, if_true,
      decide_true]
    rw [← ht]
  · simp [acceptLine, hinv, hok]

open Ptk.C17.Buf Ptk.C17.Buf.Emacs in
/-- buffer.py::Buffer._text_changed (`validation_state = UNKNOWN`) as reached through
    `set_document` — C14 vs C17's `handlerV` ("a handler that changed the text forgets the cached
    verdict": `inv && text unchanged`); cursor movements do not reset it -/
theorem textChanged_C14_C17 (s14 : C14.St) (s : S) (h : Rel17 s14 s) (t : Text) (c : Nat) :
    (C14.setDocument s14 t c).vstate = trInv (s.inv && (t == s.e.text)) := by
  have hvs : ∀ x : C14.St, (if decide (c ≠ s14.cur) = true then { x with pref := none, yank := none } else x).vstate
      = x.vstate := by intro x; split <;> rfl
  unfold C14.setDocument
  simp only []
  rw [hvs]
  by_cases ht : t = s14.text
  · have : (t == s.e.text) = true := by rw [← h.text]; simpa using ht
    rw [this, Bool.and_true]
    simp [ht, h.vs]
  · have : (t == s.e.text) = false := by rw [← h.text]; simpa using ht
    simp [ht, this, C14.textChanged, trInv]

/-- … and the handler output of C17 is exactly that rule -/
theorem handlerV_inv (v : Nat) (s : Ptk.C17.Buf.Emacs.S) (a : Option Nat) (ks : List Ptk.C17.Key) :
    (Ptk.C17.Buf.Emacs.handlerV v s a ks).ed.inv =
      ((Ptk.C17.Buf.Emacs.handlerCore v s a ks).ed.inv &&
        ((Ptk.C17.Buf.Emacs.handlerCore v s a ks).ed.e.text == s.e.text)) := rfl


/-- non-vacuity: validator 2 ("no `x`", error at the end) rejects `ax` with the cursor at 0 -/
example :
    let s14 : C14.St := { C14.St.fresh [] false false with work := [['a', 'x']] }
    let s : Ptk.C17.Buf.Emacs.S := ⟨⟨['a', 'x'], 0⟩, false, false⟩
    (C14.validateAndHandle (v14n 2) s14 true).2 = none ∧
    (C14.validateAndHandle (v14n 2) s14 true).1.cur = 2 ∧
    (Ptk.C17.Buf.Emacs.acceptLine 2 s).ed.e.cur = 2 ∧ (Ptk.C17.Buf.Emacs.acceptLine 2 s).ed.inv = true ∧
    (C14.validateAndHandle (v14n 2) s14 true).1.vstate = .invalid := by decide

end Ptk.AgreeCtl.Accept
