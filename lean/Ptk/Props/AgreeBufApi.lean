/-
  Cross-model agreement, cluster "Buffer edit and state API" (src/prompt_toolkit/buffer.py):
  the rest of the Buffer API as modelled by `Ptk.Model.C05Api` (the methods the key handlers call, with
  callback results and `Document` query results as arguments) against the canonical `Ptk.C01`:
  `transform_lines`, `transform_current_line`, `transform_region`, `swap_characters_before_cursor`,
  `newline`, `insert_line_above`, `insert_line_below`, `join_next_line`, `join_selected_lines`, and `copy_selection` against
  C09.

  Translation of the arguments: where C05 takes the RESULT of a callback / query (`r = cb(text[a:b])`,
  `margin = leading_whitespace_in_current_line`), the theorem instantiates it with what C01 computes.
  Hypotheses: writable buffer, valid `working_index`, `cursor ≤ len(text)` (see `AgreeBufEdit`).
-/
import Ptk.Props.AgreeBufEdit
import Ptk.Props.AgreeBufReshape
import Ptk.Props.AgreeBufSel
import Ptk.Model.C05Api
namespace Ptk.AgreeBuf
open Ptk.Py

/-! ### `transform_lines` -/

theorem modify_eq_set (ls : List Text) (k : Nat) (f : Text → Text) (l : Text) (h : ls[k]? = some l) :
    ls.modify k f = ls.set k (f l) := by
  apply List.ext_getElem?; intro j
  simp only [List.getElem?_modify, List.getElem?_set]
  by_cases hkj : k = j
  · subst hkj
    have hk : k < ls.length := by
      rcases Nat.lt_or_ge k ls.length with h' | h'
      · exact h'
      · rw [List.getElem?_eq_none h'] at h; cases h
    have hl : ls[k] = l := by
      have := List.getElem?_eq_getElem hk; rw [this] at h; exact Option.some.inj h
    simp [hk, hl]
  · simp [hkj]

/-- one iteration of the loop body: C05's `index?` / `setIndex?` vs C01's `pyIdx` / `modify` -/
theorem tlStep_05 (f : Text → Text) (ls : List Text) (i : Int) :
    (match index? ls i with
      | none => ls
      | some l => (C05.setIndex? ls i (f l)).getD ls) =
    (match C01.pyIdx ls.length i with
      | some k => ls.modify k f
      | none => ls) := by
  by_cases hneg : i < 0
  · by_cases h2 : i + (ls.length : Int) < 0
    · simp [index?, C01.pyIdx, hneg, h2]
    · have hk : (i + (ls.length : Int)).toNat < ls.length := by omega
      have hget : ls[(i + (ls.length : Int)).toNat]? = some ls[(i + (ls.length : Int)).toNat] :=
        List.getElem?_eq_getElem hk
      simp only [index?, C01.pyIdx, hneg, h2, if_true, if_false, hget, C05.setIndex?, hk, Option.getD_some]
      exact (modify_eq_set ls _ f _ hget).symm
  · by_cases hk : i.toNat < ls.length
    · have hget : ls[i.toNat]? = some ls[i.toNat] := List.getElem?_eq_getElem hk
      simp only [index?, C01.pyIdx, hneg, if_false, hget, C05.setIndex?, hk, if_true, Option.getD_some]
      exact (modify_eq_set ls _ f _ hget).symm
    · simp [index?, C01.pyIdx, hneg, hk]

theorem tlFold_05 (f : Text → Text) (fuel : Nat) (i : Int) (ls : List Text) (n : Nat) (hn : ls.length = n) :
    ((List.range fuel).map (fun j : Nat => i + (j : Int))).foldl
        (fun ls i => match index? ls i with
          | none => ls
          | some l => (C05.setIndex? ls i (f l)).getD ls) ls
      = C01.tlGo f n fuel i ls := by
  induction fuel generalizing i ls with
  | zero => rfl
  | succ k ih =>
    rw [List.range_succ_eq_map]
    simp only [List.map_cons, List.map_map, List.foldl_cons, C01.tlGo, Int.natCast_zero, Int.add_zero]
    rw [tlStep_05, hn]
    have hfun : ((fun j : Nat => i + (j : Int)) ∘ Nat.succ) = (fun j : Nat => (i + 1) + (j : Int)) := by
      funext j; simp only [Function.comp]; omega
    rw [hfun]
    apply ih
    cases C01.pyIdx n i <;> simp [hn]

/-- buffer.py::Buffer.transform_lines — `C01.transformLines f t from_ to` vs `C05.transformLines` on
    the index list `range(from_, to)`: any integers (negative rows wrap, rows past the end are skipped) -/
theorem transformLines_05 (f : Text → Text) (b : C05.Buf) (from_ to : Int) :
    C05.transformLines b ((List.range (to - from_).toNat).map (fun j : Nat => from_ + (j : Int))) f
      = C01.transformLines f b.text from_ to := by
  simp only [C05.transformLines, C01.transformLines]
  exact congrArg (join ['\n']) (tlFold_05 f _ from_ _ _ rfl)

/-! ### `transform_current_line`, `transform_region`, `swap_characters_before_cursor` -/

theorem lineBefore_05 (b : C05.Buf) : C05.lineBefore b = C01.lineBefore (p05 b) := rfl
theorem lineAfter_05 (b : C05.Buf) : C05.lineAfter b = C01.lineAfter (p05 b) := rfl

/-- what a successful `text = v` stores, inside the invariant -/
theorem setText_05_ok (b : C05.Buf) (v : Text) (hi : b.idx < b.lines.length) (hr : b.readOnly = false)
    (hw : b.cur ≤ b.text.length) :
    p05 (C05.setText b v).1 = C01.setText (p05 b) v ∧ (C05.setText b v).2 = .ok := by
  obtain ⟨e1, e2⟩ := setText_05 b v hi
  rw [hr] at e1 e2
  refine ⟨by rw [e1, setTextRO_false _ _ hw], ?_⟩
  unfold C05.setText
  by_cases hc : b.cur > v.length <;> simp [hc, hr, c05_sc_ro]

/-- buffer.py::Buffer.transform_current_line — `C01.transformCurrentLine f` vs `C05.transformCurrentLine`
    given `r = f(current line)` -/
theorem transformCurrentLine_05 (f : Text → Text) (b : C05.Buf) (hi : b.idx < b.lines.length)
    (hr : b.readOnly = false) (hw : b.cur ≤ b.text.length) :
    p05 (C05.transformCurrentLine b
      (f ((b.text.take (b.cur + (C05.lineAfter b).length)).drop (b.cur - (C05.lineBefore b).length)))).1
      = C01.transformCurrentLine f (p05 b) ∧
    (C05.transformCurrentLine b
      (f ((b.text.take (b.cur + (C05.lineAfter b).length)).drop (b.cur - (C05.lineBefore b).length)))).2 = .ok := by
  simp only [C05.transformCurrentLine, C01.transformCurrentLine]
  exact setText_05_ok b _ hi hr hw

/-- buffer.py::Buffer.transform_region — `C01.transformRegion f _ from_ to` (non-negative bounds) vs
    `C05.transformRegion` (any integers, Python slices) given `r = f(text[from_:to])` -/
theorem transformRegion_05 (f : Text → Text) (b : C05.Buf) (x y : Nat) (hxy : x < y) (hi : b.idx < b.lines.length)
    (hr : b.readOnly = false) (hw : b.cur ≤ b.text.length) :
    some (p05 (C05.transformRegion b (x : Int) (y : Int) (f ((b.text.take y).drop x))).1)
      = C01.transformRegion f (p05 b) x y ∧
    (C05.transformRegion b (x : Int) (y : Int) (f ((b.text.take y).drop x))).2 = .ok := by
  have hlt : (x : Int) < (y : Int) := by omega
  simp only [C05.transformRegion, C01.transformRegion, hlt, hxy, if_true, sliceTo_nat, sliceFrom_nat]
  obtain ⟨e1, e2⟩ := setText_05_ok b (b.text.take x ++ f ((b.text.take y).drop x) ++ b.text.drop y) hi hr hw
  exact ⟨by rw [e1]; rfl, e2⟩
/-- … and the failed `assert from_ < to` -/
theorem transformRegion_05_assert (f : Text → Text) (b : C05.Buf) (x y : Nat) (r : Text) (hxy : ¬ x < y) :
    (C05.transformRegion b (x : Int) (y : Int) r).2 = .assertion ∧ C01.transformRegion f (p05 b) x y = none := by
  have hlt : ¬ (x : Int) < (y : Int) := by omega
  simp [C05.transformRegion, C01.transformRegion, hlt, hxy]

/-- buffer.py::Buffer.swap_characters_before_cursor — `C01.swapBeforeCursor` vs `C05.swapChars` -/
theorem swapChars_05 (b : C05.Buf) (hi : b.idx < b.lines.length) (hr : b.readOnly = false)
    (hw : b.cur ≤ b.text.length) :
    p05 (C05.swapChars b).1 = C01.swapBeforeCursor (p05 b) ∧ (C05.swapChars b).2 = .ok := by
  simp only [C05.swapChars, C01.swapBeforeCursor]
  by_cases h2 : b.cur ≥ 2
  · have h2' : 2 ≤ (p05 b).cur := h2
    have hx : b.text[b.cur - 2]? = some b.text[b.cur - 2] := List.getElem?_eq_getElem (by omega)
    have hy : b.text[b.cur - 1]? = some b.text[b.cur - 1] := List.getElem?_eq_getElem (by omega)
    have hx' : (p05 b).text[(p05 b).cur - 2]? = some b.text[b.cur - 2] := hx
    have hy' : (p05 b).text[(p05 b).cur - 1]? = some b.text[b.cur - 1] := hy
    simp only [h2, h2', if_true, hx, hy, hx', hy', sliceFrom_nat]
    exact setText_05_ok b _ hi hr hw
  · have h2' : ¬ 2 ≤ (p05 b).cur := h2
    simp [h2, h2']

/-! ### `newline`, `insert_line_above`, `insert_line_below` -/

/-- buffer.py::Buffer.newline — `C01.newline` vs `C05.newline` given
    `margin = leading_whitespace_in_current_line` (or "" without `copy_margin`) -/
theorem newline_05 (isSpace : Char → Bool) (b : C05.Buf) (copy : Bool) (hi : b.idx < b.lines.length)
    (hr : b.readOnly = false) (hw : b.cur ≤ b.text.length) :
    p05 (C05.newline b (if copy then C01.leadingWs isSpace (p05 b) else [])).1 = C01.newline isSpace (p05 b) copy ∧
    (C05.newline b (if copy then C01.leadingWs isSpace (p05 b) else [])).2 = .ok := by
  simp only [C05.newline, C01.newline]
  cases copy <;> exact insertText_05 b _ false true hi hr hw

theorem c05_sc_p (b : C05.Buf) (v : Int) : p05 (C05.setCursor b v) = C01.setCursor (p05 b) v := setCursor_05 b v

/-- buffer.py::Buffer.insert_line_below — `C01.insertLineBelow` vs `C05.insertLineBelow` -/
theorem insertLineBelow_05 (isSpace : Char → Bool) (b : C05.Buf) (copy : Bool) (hi : b.idx < b.lines.length)
    (hr : b.readOnly = false) :
    p05 (C05.insertLineBelow b (if copy then C01.leadingWs isSpace (p05 b) else [])).1
      = C01.insertLineBelow isSpace (p05 b) copy ∧
    (C05.insertLineBelow b (if copy then C01.leadingWs isSpace (p05 b) else [])).2 = .ok := by
  simp only [C05.insertLineBelow, C01.insertLineBelow, C05.moveCursor, lineAfter_05]
  have hp : p05 (C05.setCursor b ((b.cur : Int) + ((C01.lineAfter (p05 b)).length : Int)))
      = C01.setCursor (p05 b) (((p05 b).cur : Int) + ((C01.lineAfter (p05 b)).length : Int)) := setCursor_05 _ _
  have hw' : (C05.setCursor b ((b.cur : Int) + ((C01.lineAfter (p05 b)).length : Int))).cur ≤
      (C05.setCursor b ((b.cur : Int) + ((C01.lineAfter (p05 b)).length : Int))).text.length := by
    rw [c05_sc_cur, c05_sc_text]; omega
  have hi' : (C05.setCursor b ((b.cur : Int) + ((C01.lineAfter (p05 b)).length : Int))).idx <
      (C05.setCursor b ((b.cur : Int) + ((C01.lineAfter (p05 b)).length : Int))).lines.length := by
    rw [c05_sc_idx, c05_sc_lines]; exact hi
  have hr' : (C05.setCursor b ((b.cur : Int) + ((C01.lineAfter (p05 b)).length : Int))).readOnly = false := by
    rw [c05_sc_ro]; exact hr
  have key := fun d => insertText_05 (C05.setCursor b ((b.cur : Int) + ((C01.lineAfter (p05 b)).length : Int)))
    d false true hi' hr' hw'
  rw [← hp]
  cases copy
  · exact key _
  · exact key _

/-- buffer.py::Buffer.insert_line_above — `C01.insertLineAbove` vs `C05.insertLineAbove` -/
theorem insertLineAbove_05 (isSpace : Char → Bool) (b : C05.Buf) (copy : Bool) (hi : b.idx < b.lines.length)
    (hr : b.readOnly = false) :
    p05 (C05.insertLineAbove b (if copy then C01.leadingWs isSpace (p05 b) else [])).1
      = C01.insertLineAbove isSpace (p05 b) copy ∧
    (C05.insertLineAbove b (if copy then C01.leadingWs isSpace (p05 b) else [])).2 = .ok := by
  simp only [C05.insertLineAbove, C01.insertLineAbove, C05.toLineStart, C05.moveCursor, lineBefore_05]
  have hp : p05 (C05.setCursor b ((b.cur : Int) + -((C01.lineBefore (p05 b)).length : Int)))
      = C01.setCursor (p05 b) (((p05 b).cur : Int) - ((C01.lineBefore (p05 b)).length : Int)) := by
    rw [setCursor_05]; rfl
  have hw' : (C05.setCursor b ((b.cur : Int) + -((C01.lineBefore (p05 b)).length : Int))).cur ≤
      (C05.setCursor b ((b.cur : Int) + -((C01.lineBefore (p05 b)).length : Int))).text.length := by
    rw [c05_sc_cur, c05_sc_text]; omega
  have hi' : (C05.setCursor b ((b.cur : Int) + -((C01.lineBefore (p05 b)).length : Int))).idx <
      (C05.setCursor b ((b.cur : Int) + -((C01.lineBefore (p05 b)).length : Int))).lines.length := by
    rw [c05_sc_idx, c05_sc_lines]; exact hi
  have hr' : (C05.setCursor b ((b.cur : Int) + -((C01.lineBefore (p05 b)).length : Int))).readOnly = false := by
    rw [c05_sc_ro]; exact hr
  have key := fun d => insertText_05 (C05.setCursor b ((b.cur : Int) + -((C01.lineBefore (p05 b)).length : Int)))
    d false true hi' hr' hw'
  rw [← hp]
  have fin : ∀ d, p05 (C05.andThen
        (C05.insertText (C05.setCursor b ((b.cur : Int) + -((C01.lineBefore (p05 b)).length : Int))) d false true)
        fun b1 => (C05.setCursor b1 ((b1.cur : Int) + -1), C05.Outcome.ok)).1 =
      C01.setCursor (C01.insertText (p05 (C05.setCursor b ((b.cur : Int) + -((C01.lineBefore (p05 b)).length : Int)))) d false true)
        (((C01.insertText (p05 (C05.setCursor b ((b.cur : Int) + -((C01.lineBefore (p05 b)).length : Int)))) d false true).cur : Int) - 1) ∧
      (C05.andThen
        (C05.insertText (C05.setCursor b ((b.cur : Int) + -((C01.lineBefore (p05 b)).length : Int))) d false true)
        fun b1 => (C05.setCursor b1 ((b1.cur : Int) + -1), C05.Outcome.ok)).2 = .ok := by
    intro d
    obtain ⟨e1, e2⟩ := key d
    generalize C05.insertText (C05.setCursor b ((b.cur : Int) + -((C01.lineBefore (p05 b)).length : Int))) d false true = r at e1 e2
    obtain ⟨b2, o⟩ := r
    simp only at e1 e2
    subst e2
    simp only [C05.andThen, and_true]
    rw [setCursor_05, e1]
    have : b2.cur = (p05 b2).cur := rfl
    rw [this, e1]; rfl
  cases copy
  · exact fin _
  · exact fin _

/-! ### `join_next_line` -/

theorem count_split (p : Char → Bool) (t : Text) (n : Nat) :
    (t.filter p).length = ((t.take n).filter p).length + ((t.drop n).filter p).length := by
  have h : (t.filter p).length = (((t.take n) ++ (t.drop n)).filter p).length := by
    rw [List.take_append_drop]
  rw [h, List.filter_append, List.length_append]

/-- `Document.on_last_line` — C05 (`cursor_position_row == line_count - 1`, counted in newlines) vs C01
    (no newline after the cursor) -/
theorem onLastLine_05 (b : C05.Buf) : C05.onLastLine b = C01.onLastLine (p05 b) := by
  simp only [C05.onLastLine, C01.onLastLine, C05.row, C05.lineCount, C05.Buf.before, C01.Buf.after, p05]
  rw [count_split (· == '\n') b.text b.cur]
  by_cases h : '\n' ∈ b.text.drop b.cur
  · have hpos : 0 < ((b.text.drop b.cur).filter (· == '\n')).length := by
      apply List.length_pos_iff.mpr
      intro he
      have := List.filter_eq_nil_iff.mp he '\n' h
      simp at this
    have hc : (b.text.drop b.cur).contains '\n' = true := by simpa using h
    rw [hc]
    simp; omega
  · have h0 : (b.text.drop b.cur).filter (· == '\n') = [] := by
      apply List.filter_eq_nil_iff.mpr
      intro c hc; simp; intro he; subst he; exact h hc
    have hc : (b.text.drop b.cur).contains '\n' = false := by simpa using h
    rw [hc, h0]; simp

theorem c05_setText_pres (b : C05.Buf) (v : Text) :
    (C05.setText b v).1.idx = b.idx ∧ (C05.setText b v).1.lines.length = b.lines.length ∧
    (C05.setText b v).1.readOnly = b.readOnly := by
  unfold C05.setText
  by_cases hc : b.cur > v.length <;> by_cases hr : b.readOnly = true <;>
    simp [hc, hr, c05_sc_ro, c05_sc_idx, c05_sc_lines, c05_wt_idx, c05_wt_lines, c05_wt_ro]

/-- buffer.py::Buffer.join_next_line — `C01.joinNextLine` vs `C05.joinNextLine` -/
theorem joinNextLine_05 (b : C05.Buf) (sep : Text) (hi : b.idx < b.lines.length) (hr : b.readOnly = false) :
    p05 (C05.joinNextLine b sep).1 = C01.joinNextLine (p05 b) sep ∧ (C05.joinNextLine b sep).2 = .ok := by
  simp only [C05.joinNextLine, C01.joinNextLine, onLastLine_05]
  by_cases hl : C01.onLastLine (p05 b) = true
  · simp [hl]
  · simp only [hl, Bool.not_false, if_true]
    simp only [C05.moveCursor, lineAfter_05]
    have hp : p05 (C05.setCursor b ((b.cur : Int) + ((C01.lineAfter (p05 b)).length : Int)))
        = C01.setCursor (p05 b) (((p05 b).cur : Int) + ((C01.lineAfter (p05 b)).length : Int)) := setCursor_05 _ _
    have hi' : (C05.setCursor b ((b.cur : Int) + ((C01.lineAfter (p05 b)).length : Int))).idx <
        (C05.setCursor b ((b.cur : Int) + ((C01.lineAfter (p05 b)).length : Int))).lines.length := by
      rw [c05_sc_idx, c05_sc_lines]; exact hi
    have hr' : (C05.setCursor b ((b.cur : Int) + ((C01.lineAfter (p05 b)).length : Int))).readOnly = false := by
      rw [c05_sc_ro]; exact hr
    obtain ⟨d1, d2⟩ := delete_05 _ 1 hi' hr'
    rw [← hp]
    generalize hb1 : C05.setCursor b ((b.cur : Int) + ((C01.lineAfter (p05 b)).length : Int)) = b1 at d1 d2 hi' hr'
    have pres : (C05.delete b1 1).1.idx = b1.idx ∧ (C05.delete b1 1).1.lines.length = b1.lines.length ∧
        (C05.delete b1 1).1.readOnly = b1.readOnly := by
      unfold C05.delete; split
      · exact c05_setText_pres _ _
      · exact ⟨rfl, rfl, rfl⟩
    generalize C05.delete b1 1 = r at d1 d2 pres
    obtain ⟨b2, o⟩ := r
    simp only at d1 d2 pres
    subst d2
    simp only [C05.andThen]
    have hw2 : b2.cur ≤ b2.text.length := by
      have h1 : b2.cur = (p05 b2).cur := rfl
      have h2 : b2.text = (p05 b2).text := rfl
      rw [h1, h2, d1]
      simp only [C01.delete]
      split
      · simp only [C01.setText]; omega
      · show (p05 b1).cur ≤ (p05 b1).text.length
        rw [← hb1, hp]; simp [C01.setCursor]; omega
    obtain ⟨f1, f2⟩ := setText_05_ok b2 (b2.before ++ sep ++ lstripChar ' ' b2.after)
      (by rw [pres.1, pres.2.1]; exact hi') (by rw [pres.2.2]; exact hr') hw2
    refine ⟨?_, f2⟩
    rw [f1, ← d1]; rfl

/-! ### `join_selected_lines` -/

theorem crlf_05 (t : Text) : C05.crlf t = C01.crlf t := by
  fun_induction C05.crlf t <;> simp [C01.crlf, *]
theorem splitBreaks_05 (isBreak : Char → Bool) (t acc : Text) :
    C05.splitBreaks isBreak t acc = C01.splitBreaks isBreak t acc := by
  induction t generalizing acc with
  | nil => simp [C05.splitBreaks, C01.splitBreaks]
  | cons c r ih => simp [C05.splitBreaks, C01.splitBreaks, ih]
/-- `str.splitlines()` — the copies of C05 and C01 are the same function -/
theorem splitLinesPy_05 (isBreak : Char → Bool) (t : Text) : C05.splitLinesPy isBreak t = C01.splitLinesPy isBreak t := by
  simp [C05.splitLinesPy, C01.splitLinesPy, crlf_05, splitBreaks_05]

/-- buffer.py::Buffer.join_selected_lines — `C01.joinSelectedLines` (anchor `orig ≥ 0`) vs
    `C05.joinSelectedLines` (the selection state holds the anchor; any integer) -/
theorem joinSelectedLines_05 (cls : C05.Cls) (b : C05.Buf) (orig ty : Nat) (sep : Text)
    (hs : b.sel = some ⟨(orig : Int), ty⟩) (hi : b.idx < b.lines.length) (hr : b.readOnly = false) :
    p05 (C05.joinSelectedLines cls b sep).1 = C01.joinSelectedLines cls.isBreak (p05 b) orig sep := by
  have hmin : min (b.cur : Int) (orig : Int) = ((min b.cur orig : Nat) : Int) := by omega
  have hmax : max (b.cur : Int) (orig : Int) = ((max b.cur orig : Nat) : Int) := by omega
  simp only [C05.joinSelectedLines, hs, hmin, hmax, sliceTo_nat, sliceFrom_nat, slice_nat, splitLinesPy_05,
    C01.joinSelectedLines]
  exact setDoc_05 b _ _ hi hr

/-! ### `copy_selection(_cut)` -/

/-- buffer.py::Buffer.copy_selection — `C05.copySelection b cut` applied to the document
    `Document.cut_selection()` returns (`C09.cutRegion`), vs what `C09.step … (.region x y cut)` continues
    with: the cut document when `_cut`, the unchanged buffer otherwise; the selection ends -/
theorem copySelection_05_09 (b : C05.Buf) (cut : Bool) (t : Text) (x y : Nat) (hi : b.idx < b.lines.length)
    (hr : b.readOnly = false) (hx : min x y ≤ t.length) :
    p05 (C05.copySelection b cut (C09.cutRegion t x y).1.text (C09.cutRegion t x y).1.cur).1
      = (if cut then p09 (C09.cutRegion t x y).1 else p05 b) ∧
    (C05.copySelection b cut (C09.cutRegion t x y).1.text (C09.cutRegion t x y).1.cur).1.sel = none ∧
    (C05.copySelection b cut (C09.cutRegion t x y).1.text (C09.cutRegion t x y).1.cur).2 = .ok := by
  cases cut
  · exact ⟨rfl, rfl, rfl⟩
  · exact cutSelection_05_09 b t x y hi hr hx

end Ptk.AgreeBuf
