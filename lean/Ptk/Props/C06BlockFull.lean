/-
  C06 — `render_seq_block` / `incremental_eq_scratch_block` for sessions of the full renderer model
  (style sheets, style transformations, colour depths changing between renders; `Ptk.Props.C06Full`).
-/
import Ptk.Props.C06Block
import Ptk.Props.C06Full
namespace Ptk.C06
open Ptk.Py

variable (cw : Char → Nat)

/-- **render_seq_block_full** — over every session of the full renderer model whose screens are made of block
    cells (multi-character cells of narrow characters, combining characters): the terminal always shows
    `_last_screen`, every narrow character on its own column. -/
theorem render_seq_block_full (wd : World) (fs : Bool) (w h : Nat) (h1 : cw ' ' = 1) (wok : WorldOk wd)
    (ops : List FOp) (st : FSt) (T : Term)
    (inv : RInvB cw (wd.base w h fs) st.r.toCore T) (finv : FInv wd st.r) (hw : st.app.w = w) (hh : st.app.h = h)
    (ok : RunOkF cw (OpOkB cw (wd.base w h fs)) wd fs st T ops) :
    RInvB cw (wd.base w h fs) (runFT cw wd fs st T ops).1.r.toCore (runFT cw wd fs st T ops).2 ∧
    FInv wd (runFT cw wd fs st T ops).1.r := by
  obtain ⟨s1, s2, s3, _, _⟩ := runFT_sim cw wd fs w h ops st T finv hw hh (runOkF_tame cw _ wd fs ops st T ok)
  have hrun := runOkF_core cw (OpOkB cw (wd.base w h fs)) (RunOkB cw (wd.base w h fs)) wd fs w h
    (fun _ _ => trivial) (fun _ _ _ _ a b => ⟨a, b⟩) ops st T finv hw hh ok
  rw [s1, s2]
  exact ⟨render_seq_block cw (wd.base w h fs) h1 (envOk_of_world wd wok w h fs) _ _ _ inv hrun, s3⟩

/-- **incremental_eq_scratch_block_full** — for screens of block cells: after any session ending with a render of
    `s` the terminal is visibly identical (cells, cursor, visibility, SGR, autowrap) to one on which a brand-new
    `Renderer` draws `s` from scratch. -/
theorem incremental_eq_scratch_block_full (wd : World) (fs b : Bool) (w h : Nat) (h1 : cw ' ' = 1)
    (wok : WorldOk wd) (ops : List FOp) (st : FSt) (T : Term) (s : Screen) (pref : Nat)
    (inv : RInvB cw (wd.base w h fs) st.r.toCore T) (finv : FInv wd st.r) (hw : st.app.w = w) (hh : st.app.h = h)
    (ok : RunOkF cw (OpOkB cw (wd.base w h fs)) wd fs st T (ops ++ [.render s pref]))
    (junk : Nat → Nat → TCell) :
    (∀ y x, y < (runFT cw wd fs st T (ops ++ [.render s pref])).2.h → x < w →
      ((runFT cw wd fs st T (ops ++ [.render s pref])).2.cells y x).norm =
      ((exec cw (Term.fresh w (runFT cw wd fs st T (ops ++ [.render s pref])).2.h 0 junk)
          ((RFull.init b).1.render wd fs (runF wd fs st ops).app s false pref).cmds).cells y x).norm) ∧
    (runFT cw wd fs st T (ops ++ [.render s pref])).2.row =
      (exec cw (Term.fresh w (runFT cw wd fs st T (ops ++ [.render s pref])).2.h 0 junk)
          ((RFull.init b).1.render wd fs (runF wd fs st ops).app s false pref).cmds).row ∧
    (runFT cw wd fs st T (ops ++ [.render s pref])).2.col =
      (exec cw (Term.fresh w (runFT cw wd fs st T (ops ++ [.render s pref])).2.h 0 junk)
          ((RFull.init b).1.render wd fs (runF wd fs st ops).app s false pref).cmds).col ∧
    (runFT cw wd fs st T (ops ++ [.render s pref])).2.visible =
      (exec cw (Term.fresh w (runFT cw wd fs st T (ops ++ [.render s pref])).2.h 0 junk)
          ((RFull.init b).1.render wd fs (runF wd fs st ops).app s false pref).cmds).visible ∧
    (runFT cw wd fs st T (ops ++ [.render s pref])).2.sgr =
      (exec cw (Term.fresh w (runFT cw wd fs st T (ops ++ [.render s pref])).2.h 0 junk)
          ((RFull.init b).1.render wd fs (runF wd fs st ops).app s false pref).cmds).sgr ∧
    (runFT cw wd fs st T (ops ++ [.render s pref])).2.autowrap =
      (exec cw (Term.fresh w (runFT cw wd fs st T (ops ++ [.render s pref])).2.h 0 junk)
          ((RFull.init b).1.render wd fs (runF wd fs st ops).app s false pref).cmds).autowrap := by
  have tame := runOkF_tame cw _ wd fs _ st T ok
  obtain ⟨_, s2, _, _, _⟩ := runFT_sim cw wd fs w h _ st T finv hw hh tame
  have hrun := runOkF_core cw (OpOkB cw (wd.base w h fs)) (RunOkB cw (wd.base w h fs)) wd fs w h
    (fun _ _ => trivial) (fun _ _ _ _ a b => ⟨a, b⟩) _ st T finv hw hh ok
  obtain ⟨_, _, _, aw, ah⟩ := runFT_sim cw wd fs w h ops st T finv hw hh
    (fun o ho => tame o (by simp [ho]))
  rw [runFT_fst] at aw ah
  have hco : coreOps wd fs st (ops ++ [.render s pref]) = coreOps wd fs st ops ++
      [ROp.render s (runF wd fs st ops).app.mouse (pairKey (runF wd fs st ops).app.sk (runF wd fs st ops).app.tk)
        (runF wd fs st ops).app.depth (runF wd fs st ops).app.shape] := by
    rw [coreOps_append]; rfl
  rw [hco] at s2 hrun
  have key := incremental_eq_scratch_block cw (wd.base w h fs) h1 (envOk_of_world wd wok w h fs)
    (coreOps wd fs st ops) st.r.toCore T s _ _ _ _ inv hrun junk
  have henv : (runF wd fs st ops).app.envP wd fs =
      envFor (wd.base w h fs) (pairKey (runF wd fs st ops).app.sk (runF wd fs st ops).app.tk)
        (runF wd fs st ops).app.depth := by
    simp only [AppSt.envP, aw, ah]
  simp only [scratch_exec, henv, s2]
  exact key

end Ptk.C06
