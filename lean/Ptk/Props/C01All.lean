/-
  C01 — sequences: the invariant 0 <= cursor <= len(text) along every finite sequence of Buffer
  methods / named commands / reshapes, and the buffer with history working lines (working-line
  switches interleaved with edits): well-formedness and the frame of the working lines.
-/
import Ptk.Props.C01Reshape
import Ptk.Model.C01All
namespace Ptk.C01
open Ptk.Py

/-! ### the invariant along every sequence of operations (Buffer methods, named commands, reshape) -/

theorem killWord_inv (fx : Bool) (sp : Char → Bool) (b : Buf) (h : Inv b) (arg : Int) :
    Inv (killWord fx sp b arg).1 := by
  unfold killWord
  split
  · exact h
  · split
    · exact h
    · split
      · exact deleteBefore_inv _ h _
      · exact deleteI_inv _ h _

theorem rubout_inv (sp : Char → Bool) (b : Buf) (h : Inv b) (arg : Int) (W : Bool) :
    Inv (rubout sp b arg W).1 := by
  unfold rubout
  simp only []
  split
  · exact deleteBefore_inv _ h _
  · exact h

theorem killLine_inv (b : Buf) (h : Inv b) (arg : Int) : Inv (killLine b arg).1 := by
  unfold killLine
  split
  · exact deleteBefore_inv _ h _
  · split <;> exact deleteI_inv _ h _

theorem unixLineDiscard_inv (b : Buf) (h : Inv b) : Inv (unixLineDiscard b).1 := by
  unfold unixLineDiscard
  split <;> exact deleteBefore_inv _ h _

theorem deleteHorizontalSpace_inv (hb ha : List Char) (b : Buf) (h : Inv b) :
    Inv (deleteHorizontalSpace hb ha b).1 := by
  unfold deleteHorizontalSpace
  exact deleteI_inv _ (deleteBefore_inv _ h _) _

/-- every single operation of the check keeps the cursor inside the text -/
theorem step2_inv (e : Env) (b : Buf) (h : Inv b) (op : Op2) : Inv (step2 e b op).1 := by
  cases op <;> simp only [step2]
  · exact step_inv _ _ _ _ h _
  · exact killWord_inv _ _ _ h _
  · exact rubout_inv _ _ h _ _
  · exact killLine_inv _ h _
  · exact unixLineDiscard_inv _ h
  · exact deleteHorizontalSpace_inv _ _ _ h
  · exact insertText_inv _ _ _ _
  · exact insertComment_inv _ _ _ _ _
  · exact reshapeText_inv _ _ _ _ _ h _ _ _
  · exact (readOnly_spec b h _ 0).2.2.1
  · rename_i bp t c
    cases bp
    · by_cases hc : c ≤ (t.length : Int)
      · rw [(readOnly_spec b h t c).2.2.2.1 hc]; exact h
      · simp only [setDocumentRO, hc, if_false]; exact h
    · rw [(readOnly_spec b h t c).2.2.2.2]; exact setDoc_inv b h t c

/-- after every finite sequence of Buffer methods, named commands and reshapes (any arguments)
    the cursor is within `0..len(text)` -/
theorem run2_inv (e : Env) (ops : List Op2) (b : Buf) (h : Inv b) : Inv (run2 e b ops) := by
  unfold run2
  induction ops generalizing b with
  | nil => simpa
  | cons op ops ih => simp only [List.foldl_cons]; exact ih _ (step2_inv e b h op)

/-! ### the buffer with history working lines: invariant, views, frame -/

/-- well-formed buffer with working lines: the working index addresses a line and the cursor is
    inside that line -/
def HInv (h : HBuf) : Prop := h.idx < h.work.length ∧ h.cur ≤ h.text.length

theorem HBuf.text_eq (h : HBuf) (hi : h.idx < h.work.length) : h.text = h.work[h.idx] := by
  simp [HBuf.text, List.getElem?_eq_getElem hi]

theorem hinv_buf (h : HBuf) (hi : HInv h) : Inv h.buf := hi.2

theorem edit_text (h : HBuf) (hi : h.idx < h.work.length) (b : Buf) : (h.edit b).text = b.text := by
  simp [HBuf.edit, HBuf.text, hi]

theorem edit_hinv (h : HBuf) (hi : HInv h) (b : Buf) (hb : Inv b) : HInv (h.edit b) := by
  refine ⟨by simpa [HBuf.edit] using hi.1, ?_⟩
  rw [edit_text h hi.1]; exact hb

theorem setIndex_work (h : HBuf) (v : Nat) : (h.setIndex v).work = h.work := by
  unfold HBuf.setIndex; split <;> rfl
theorem setCur_work (h : HBuf) (v : Int) : (h.setCur v).work = h.work := rfl
theorem setCur_idx (h : HBuf) (v : Int) : (h.setCur v).idx = h.idx := rfl
theorem setIndex_idx (h : HBuf) (v : Nat) : (h.setIndex v).idx = v := by
  unfold HBuf.setIndex; split
  · rfl
  · rename_i hh; simp at hh; exact hh

theorem setCur_hinv (h : HBuf) (hi : h.idx < h.work.length) (v : Int) : HInv (h.setCur v) := by
  refine ⟨hi, ?_⟩
  show min v.toNat h.text.length ≤ (h.setCur v).text.length
  have : (h.setCur v).text = h.text := rfl
  rw [this]; omega

theorem backLoop_le : ∀ (i idx : Nat) (c : Int), idx ≤ i → (backLoop i idx c).1 ≤ i
  | 0, idx, c, h => by simp [backLoop]; omega
  | i + 1, idx, c, h => by
    simp only [backLoop]
    split
    · simp
    · have := backLoop_le i i (c - 1) (Nat.le_refl _); omega

theorem backLoop_lt (i : Nat) (c : Int) (h : 0 < i) : (backLoop i i c).1 < i := by
  cases i with
  | zero => omega
  | succ i =>
    simp only [backLoop]
    split
    · simp
    · have := backLoop_le i i (c - 1) (Nat.le_refl _); omega

theorem fwdLoop_le : ∀ (fuel idx : Nat) (c : Int), (fwdLoop fuel idx c) ≤ idx + fuel ∧ idx ≤ fwdLoop fuel idx c
  | 0, idx, c => by simp [fwdLoop]
  | fuel + 1, idx, c => by
    simp only [fwdLoop]
    split
    · omega
    · have := fwdLoop_le fuel (idx + 1) (c - 1); omega

/-- history browsing never touches a working line -/
theorem history_moves_keep_lines (h : HBuf) :
    (∀ i, (h.goToHistory i).work = h.work) ∧
    (∀ n, (h.historyBackward n).work = h.work) ∧
    (∀ n, (h.historyForward n).work = h.work) := by
  refine ⟨?_, ?_, ?_⟩
  · intro i; unfold HBuf.goToHistory; split
    · simp [setCur_work, setIndex_work]
    · rfl
  · intro n; unfold HBuf.historyBackward; split
    · rfl
    · simp [setCur_work, setIndex_work]
  · intro n; unfold HBuf.historyForward; split
    · simp [setCur_work, setIndex_work]
    · rfl

theorem goToHistory_hinv (h : HBuf) (hi : HInv h) (i : Nat) : HInv (h.goToHistory i) := by
  unfold HBuf.goToHistory
  split
  · rename_i hlt
    apply setCur_hinv
    rw [setIndex_work, setIndex_idx]; exact hlt
  · exact hi

theorem historyBackward_hinv (h : HBuf) (hi : HInv h) (n : Int) : HInv (h.historyBackward n) := by
  unfold HBuf.historyBackward
  split
  · exact hi
  · rename_i h0
    apply setCur_hinv
    rw [setIndex_work, setIndex_idx]
    have := backLoop_lt h.idx n (by omega)
    have := hi.1
    omega

theorem historyForward_hinv (h : HBuf) (hi : HInv h) (n : Int) : HInv (h.historyForward n) := by
  unfold HBuf.historyForward
  split
  · rename_i hlt
    apply setCur_hinv
    show (HBuf.setCur _ 0).idx < (HBuf.setCur _ 0).work.length
    rw [setCur_idx, setCur_work, setIndex_work, setIndex_idx]
    have := (fwdLoop_le (h.work.length - (h.idx + 1)) h.idx n).1
    omega
  · exact hi

/-- every operation on the buffer with history keeps it well formed -/
theorem hstep_hinv (e : Env) (size : Nat) (h : HBuf) (hi : HInv h) (op : HOp) :
    HInv (hstep e size h op) := by
  cases op <;> simp only [hstep]
  · exact edit_hinv h hi _ (step2_inv e _ (hinv_buf h hi) _)
  · exact goToHistory_hinv h hi _
  · exact historyBackward_hinv h hi _
  · exact historyForward_hinv h hi _
  · refine ⟨by simp [HBuf.reset], ?_⟩
    simp [HBuf.reset, HBuf.text]; omega
  · exact hi

theorem hrun_hinv (e : Env) (size : Nat) (ops : List HOp) (h : HBuf) (hi : HInv h) :
    HInv (hrun e size h ops) := by
  unfold hrun
  induction ops generalizing h with
  | nil => simpa
  | cons op ops ih => simp only [List.foldl_cons]; exact ih _ (hstep_hinv e size h hi op)

/-- an edit (any Buffer method / named command) changes only the working line at the working
    index: the index and the number of working lines stay, every other working line is untouched,
    and the addressed line becomes exactly the edited text -/
theorem edit_frame (e : Env) (size : Nat) (h : HBuf) (hi : HInv h) (o : Op2) :
    let h' := hstep e size h (.edit o)
    h'.idx = h.idx ∧ h'.work.length = h.work.length ∧
    h'.work[h.idx]? = some (step2 e h.buf o).1.text ∧
    h'.cur = (step2 e h.buf o).1.cur ∧
    ∀ j, j ≠ h.idx → h'.work[j]? = h.work[j]? := by
  intro h'
  refine ⟨rfl, by simp [h', hstep, HBuf.edit], ?_, rfl, ?_⟩
  · simp [h', hstep, HBuf.edit, hi.1]
  · intro j hj
    simp only [h', hstep, HBuf.edit]
    exact List.getElem?_set_ne (Ne.symm hj)

end Ptk.C01
