/-
  Cross-model agreement, cluster "undo stack, validation, coroutine guard, typeahead, parser glue".

  Part 4b — the normal-mode generator of `Vt100Parser` (src/prompt_toolkit/input/vt100_parser.py:
  `_input_parser_generator`, `_get_match`, `_IsPrefixOfLongerMatchCache.__missing__`,
  `_call_handler`, the four regexes): C03 (`Ptk.C03.sendChar`, `process`, `shiftStep`, `shiftLoop`,
  `getMatch`, `isPrefixOfLonger`, `callHandler`, recognisers) vs C17's concrete generator
  (`Ptk.C17.Paste.Conc.send`, `process`, …; "no flush in this layer": C03's `process` at
  `flush = false`).

  Translations (total):
    * key names (C03: the `.value` of the `Keys` member, a `String`) ↦ key codes of the C17 protocol
      (`Int`): a function `code`, many-to-one; the hypotheses `CfgAgree` say that C17's sequence
      table is C03's with `code` applied, that `Keys.BracketedPaste` and only it has `pasteCode`,
      that the CPR / mouse keys have the codes C17's `getMatch` hard-codes, and that the
      single-character fallback key is the character itself;
    * generator state during one `send`: `trG` (prefix, callback buffer through `trP`, paste flag);
    * key presses: `κc code` (C17 drops `KeyPress.data`: every press is its key code).
  `gen_agree` proves `CfgAgree` for the two tables regenerated from the current tree, so
  `feed_gen` is hypothesis-free: the parser the C17 driver runs IS C03's.
-/
import Ptk.Props.AgreeCtlPaste
namespace Ptk.AgreeCtl.Parser
open Ptk.Py Ptk.C17 Ptk.C17.Paste Ptk.AgreeCtl.Paste

/-- input/vt100_parser.py::_cpr_response_re, _mouse_event_re, _cpr_response_prefix_re,
    _mouse_event_prefix_re — the hand-written recognisers of the two models are the same functions -/
theorem isCpr_eq : Conc.isCpr = C03.isCpr := rfl
theorem isMouse_eq : Conc.isMouse = C03.isMouse := rfl
theorem isCprPrefix_eq : Conc.isCprPrefix = C03.isCprPrefix := rfl
theorem isMousePrefix_eq : Conc.isMousePrefix = C03.isMousePrefix := rfl

/-- the two configurations describe the same tree: C17's sequence table is C03's with every key
    name replaced by its key code of the C17 protocol (`code`, many-to-one: keys the scripts never
    use are all `unknownCode`); `Keys.BracketedPaste` and only it has `pasteCode` -/
structure CfgAgree (c3 : C03.Cfg) (c17 : Conc.Cfg) (code : String → Int) : Prop where
  table : c17.table = c3.table.map (fun kv => (kv.1, kv.2.map code))
  digit : c17.isDigit = c3.isDigit
  paste : code c3.pasteKey = Conc.pasteCode
  pasteOnly : ∀ kv ∈ c3.table, ∀ k ∈ kv.2, code k = Conc.pasteCode → k = c3.pasteKey
  cpr : code c3.cprKey = -3
  cprNe : c3.cprKey ≠ c3.pasteKey
  mouse : code c3.mouseKey = Int.ofNat Conc.unknownCode
  mouseNe : c3.mouseKey ≠ c3.pasteKey
  /-- the single-character fallback: the key is the character itself -/
  char : ∀ c : Char, code (String.singleton c) = (c.toNat : Int)
  pasteLen : c3.pasteKey.length ≠ 1

variable {c3 : C03.Cfg} {c17 : Conc.Cfg} {code : String → Int}

theorem lookup_agree (t : C03.Table) (p : Text) :
    Conc.lookup (t.map (fun kv => (kv.1, kv.2.map code))) p = (C03.lookup t p).map code := by
  induction t with
  | nil => rfl
  | cons kv t ih =>
    unfold Conc.lookup C03.lookup at *
    simp only [List.map_cons, List.find?_cons]
    by_cases h : (kv.1 == p) = true
    · simp [h]
    · simp only [h]
      exact ih

/-- input/vt100_parser.py::Vt100Parser._get_match — `Ptk.C17.Paste.Conc.getMatch` =
    `Ptk.C03.getMatch` with the key names replaced by their codes, every prefix -/
theorem getMatch_agree (h : CfgAgree c3 c17 code) (p : Text) :
    Conc.getMatch c17 p = (C03.getMatch c3 p).map code := by
  unfold Conc.getMatch C03.getMatch
  rw [h.digit, isCpr_eq, isMouse_eq, h.table, lookup_agree]
  split
  · simp [h.cpr]
  · split
    · simp [h.mouse]
    · rfl

/-- input/vt100_parser.py::_IsPrefixOfLongerMatchCache.__missing__ —
    `Ptk.C17.Paste.Conc.isPrefixOfLonger` = `Ptk.C03.isPrefixOfLonger`, every prefix -/
theorem isPrefixOfLonger_agree (h : CfgAgree c3 c17 code) (p : Text) :
    Conc.isPrefixOfLonger c17 p = C03.isPrefixOfLonger c3 p := by
  unfold Conc.isPrefixOfLonger C03.isPrefixOfLonger
  rw [h.digit, isCprPrefix_eq, isMousePrefix_eq, h.table]
  simp [List.any_map, Function.comp_def]


/-- C03's key press ↦ C17's key through the key codes of the C17 protocol -/
def κc (code : String → Int) (p : C03.Press) : Key := Conc.codeKey (code p.key)

/-- C03's parser state ↦ the state of C17's concrete generator during one `send` -/
def trG (c3 : C03.Cfg) (code : String → Int) (s : C03.St) : Conc.G :=
  ⟨s.pre, s.out.map (trP c3 (κc code)), s.inPaste⟩

theorem trG_pre (s : C03.St) (p : Text) :
    { trG c3 code s with pre := p } = trG c3 code { s with pre := p } := rfl

/-- for these keys, "has the paste code" is "is `Keys.BracketedPaste`" -/
def KeysOk (c3 : C03.Cfg) (code : String → Int) (m : List String) : Prop :=
  ∀ k ∈ m, (code k = Conc.pasteCode ↔ k = c3.pasteKey)

theorem getMatch_keysOk (h : CfgAgree c3 c17 code) (p : Text) : KeysOk c3 code (C03.getMatch c3 p) := by
  unfold C03.getMatch
  split
  · intro k hk
    have : k = c3.cprKey := by simpa using hk
    subst this
    constructor
    · intro e; rw [h.cpr] at e; unfold Conc.pasteCode at e; omega
    · intro e; exact absurd e h.cprNe
  · split
    · intro k hk
      have : k = c3.mouseKey := by simpa using hk
      subst this
      constructor
      · intro e; rw [h.mouse] at e; exact absurd e (by decide)
      · intro e; exact absurd e h.mouseNe
    · unfold C03.lookup
      cases hf : c3.table.find? (fun kv => kv.1 == p) with
      | none => intro k hk; cases hk
      | some kv =>
        intro k hk
        have hmem := List.mem_of_find?_eq_some hf
        exact ⟨h.pasteOnly kv hmem k hk, fun e => e ▸ h.paste⟩

theorem singleton_keysOk (h : CfgAgree c3 c17 code) (c : Char) : KeysOk c3 code [String.singleton c] := by
  intro k hk
  have : k = String.singleton c := by simpa using hk
  subst this
  constructor
  · intro e
    rw [h.char c] at e
    have : (0 : Int) ≤ (c.toNat : Int) := Int.natCast_nonneg _
    unfold Conc.pasteCode at e; omega
  · intro e
    have := h.pasteLen
    rw [← e] at this
    simp at this

/-- input/vt100_parser.py::Vt100Parser._call_handler — `Ptk.C17.Paste.Conc.callHandler` =
    `Ptk.C03.callHandler` (keys: names ↦ codes; state: `trG`) -/
theorem callHandler_agree (h : CfgAgree c3 c17 code) : ∀ (m : List String) (s : C03.St) (d : Text),
    KeysOk c3 code m →
    Conc.callHandler (trG c3 code s) (m.map code) = trG c3 code (C03.callHandler c3 s m d)
  | [], s, d, _ => rfl
  | k :: ks, s, d, hm => by
    have hks : KeysOk c3 code ks := fun x hx => hm x (by simp [hx])
    rw [List.map_cons, Conc.callHandler, C03.callHandler]
    by_cases hk : k = c3.pasteKey
    · have h1 : code k = Conc.pasteCode := (hm k (by simp)).2 hk
      have h2 : (k == c3.pasteKey) = true := by simp [hk]
      simp only [h1, h2, if_true]
      rw [← callHandler_agree h ks _ _ hks]
      rfl
    · have h1 : ¬ code k = Conc.pasteCode := fun e => hk ((hm k (by simp)).1 e)
      have h2 : (k == c3.pasteKey) = false := by simpa using hk
      simp only [h1, h2, if_false, Bool.false_eq_true]
      rw [← callHandler_agree h ks _ _ hks]
      congr 1
      simp [trG, trP, κc, h2]

/-- input/vt100_parser.py::Vt100Parser._input_parser_generator, the `for i in range(len(prefix), 0, -1)`
    loop without `break` — `Conc.shiftLoop` = `Ptk.C03.shiftLoop` -/
theorem shiftLoop_agree (h : CfgAgree c3 c17 code) : ∀ (i : Nat) (s : C03.St) (f : Bool),
    Conc.shiftLoop c17 i (trG c3 code s) f =
      (trG c3 code (C03.shiftLoop c3 i s f).1, (C03.shiftLoop c3 i s f).2)
  | 0, s, f => rfl
  | i + 1, s, f => by
    rw [Conc.shiftLoop, C03.shiftLoop]
    have hp : (trG c3 code s).pre = s.pre := rfl
    simp only [hp, getMatch_agree h, List.isEmpty_map]
    split
    · rw [trG_pre, callHandler_agree h _ _ _ (getMatch_keysOk h _), shiftLoop_agree h i]
    · rw [shiftLoop_agree h i]

theorem codeKey_char (c : Char) : Conc.codeKey (c.toNat : Int) = .other c.toNat := by
  unfold Conc.codeKey
  have : (0 : Int) ≤ (c.toNat : Int) := Int.natCast_nonneg _
  simp only [Int.toNat_natCast]
  split; · omega
  split; · omega
  split; · omega
  split; · omega
  first | rfl | (split <;> first | rfl | omega)

theorem shiftStep_agree (h : CfgAgree c3 c17 code) (s : C03.St) :
    Conc.shiftStep c17 (trG c3 code s) = trG c3 code (C03.shiftStep c3 s) := by
  unfold Conc.shiftStep C03.shiftStep
  have hp : (trG c3 code s).pre = s.pre := rfl
  rw [hp, shiftLoop_agree h]
  generalize C03.shiftLoop c3 s.pre.length s false = r
  obtain ⟨s1, found⟩ := r
  simp only []
  split
  · rfl
  · have hp2 : (trG c3 code s1).pre = s1.pre := rfl
    rw [hp2]
    cases hpre : s1.pre with
    | nil => rfl
    | cons c r =>
      simp only []
      have := callHandler_agree h [String.singleton c] { s1 with pre := r } [c] (singleton_keysOk h c)
      rw [← this]
      simp only [List.map_cons, List.map_nil, Conc.callHandler, h.char c]
      have hne : ¬ (c.toNat : Int) = Conc.pasteCode := by
        have : (0 : Int) ≤ (c.toNat : Int) := Int.natCast_nonneg _
        unfold Conc.pasteCode; omega
      simp only [hne, if_false, codeKey_char]
      rfl

/-- input/vt100_parser.py::Vt100Parser._input_parser_generator, the `while True` body between two
    `yield`s — `Conc.process` = `Ptk.C03.process` at `flush = false`, every fuel -/
theorem process_agree (h : CfgAgree c3 c17 code) : ∀ (n : Nat) (s : C03.St),
    Conc.process c17 n (trG c3 code s) = trG c3 code (C03.process c3 n false s)
  | 0, _ => rfl
  | n + 1, s => by
    rw [Conc.process, C03.process]
    have hp : (trG c3 code s).pre = s.pre := rfl
    simp only [hp, getMatch_agree h, isPrefixOfLonger_agree h, List.isEmpty_map, Bool.false_or]
    split
    · rfl
    · split
      · split
        · rw [trG_pre, callHandler_agree h _ _ _ (getMatch_keysOk h _)]
        · rw [shiftStep_agree h, process_agree h n]
      · rfl

/-- input/vt100_parser.py::Vt100Parser._input_parser_generator (`self._input_parser.send(c)`) —
    `Ptk.C17.Paste.Conc.send` = C03's generator `N03` (`Ptk.C03.sendChar` from the bare prefix):
    new prefix, key presses, paste flag; every prefix, every character -/
theorem send_Conc_C03 (h : CfgAgree c3 c17 code) (pre : Text) (c : Char) :
    Conc.send c17 pre c = (N03 c3 (κc code)).send pre c := by
  unfold Conc.send
  simp only [N03, C03.sendChar]
  have e : (⟨pre ++ [c], [], false⟩ : Conc.G) = trG c3 code ⟨pre ++ [c], false, [], []⟩ := rfl
  rw [e, process_agree h]
  simp [trG]

/-- … as instances of C17's parameter `Norm` -/
theorem norm_Conc_C03 (h : CfgAgree c3 c17 code) : Conc.norm c17 = N03 c3 (κc code) := by
  unfold Conc.norm
  have : Conc.send c17 = (N03 c3 (κc code)).send := by
    funext pre c; exact send_Conc_C03 h pre c
  rw [this]


/-- input/vt100_parser.py::Vt100Parser.feed — C17's layer with ITS OWN concrete generator
    (`Ptk.C17.Paste.Conc.norm`, what the C17 driver runs) is C03's `feed`: state projection and key
    output (names ↦ codes), for every parser state and every chunk -/
theorem feed_Conc_C03 (h : CfgAgree c3 c17 code) (s : C03.St) (d : Text) :
    (Paste.feed (Conc.norm c17) (proj s) d).1 = proj (C03.feed c3 s d) ∧
    (C03.feed c3 s d).out.map (trP c3 (κc code)) =
      s.out.map (trP c3 (κc code)) ++ (Paste.feed (Conc.norm c17) (proj s) d).2 := by
  rw [norm_Conc_C03 h]
  exact feed_C03_C17 c3 (κc code) s d

/-! ### the two regenerated tables of the current tree agree -/

/-- key name ↦ key code, read off the two generated tables position by position -/
def codeAssoc : List (String × Int) :=
  (C03.genCfg.table.flatMap (·.2)).zip (Conc.genCfg.table.flatMap (·.2))

/-- the key code the C17 protocol uses for a C03 key name (a single character is itself) -/
def genCode (k : String) : Int :=
  match k.toList with
  | [c] => c.toNat
  | _ =>
    if k == C03.genCfg.cprKey then -3
    else if k == C03.genCfg.mouseKey then Int.ofNat Conc.unknownCode
    else ((codeAssoc.find? (·.1 == k)).map (·.2)).getD 0

theorem reDigit_eq : Gen.C17.reDigit = Gen.C03.reDigit := by
  have : Gen.C17.reDigitRanges = Gen.C03.reDigitRanges := by decide +kernel
  funext c
  simp only [Gen.C17.reDigit, Gen.C03.reDigit, this]

/-- `Gen.C17.seqTable` (harness/gen_c17.py) and `Gen.C03.ansiTable` (harness/gen_c03.py), both
    re-extracted from `ANSI_SEQUENCES` on every run, are the same table under `genCode`; the build
    breaks here when the two generators stop describing the same tree -/
theorem gen_agree : CfgAgree C03.genCfg Conc.genCfg genCode where
  table := by decide +kernel
  digit := reDigit_eq
  paste := by decide +kernel
  pasteOnly := by decide +kernel
  cpr := by decide +kernel
  cprNe := by decide +kernel
  mouse := by decide +kernel
  mouseNe := by decide +kernel
  char := by
    intro c
    simp [genCode]
  pasteLen := by decide +kernel

/-- … hence, on the current tree, the C17 driver's parser and C03's are the same function -/
theorem feed_gen (s : C03.St) (d : Text) :
    (Paste.feed (Conc.norm Conc.genCfg) (proj s) d).1 = proj (C03.feed C03.genCfg s d) ∧
    (C03.feed C03.genCfg s d).out.map (trP C03.genCfg (κc genCode)) =
      s.out.map (trP C03.genCfg (κc genCode)) ++ (Paste.feed (Conc.norm Conc.genCfg) (proj s) d).2 :=
  feed_Conc_C03 gen_agree s d

end Ptk.AgreeCtl.Parser
