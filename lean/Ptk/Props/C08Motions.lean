/-
  C08 — theorems about the motions that entered the model in round 2:
  `ge gE g_ | % N% { } ap H M L gm` (the capstones of `Props/C08.lean` — `textObject_inRange`,
  `run_ok`, `delete_any_motion`, `yank_any_motion`, `transform_any_motion`, `failing_motion_noop` —
  quantify over every `Motion` and therefore cover them already).  Here: which of them fail and
  when, the types they return, their directions, the exact spans of `|`, and that
  `gm` stays on its line for every window width (`gm_span_within_line`, full strength since the fix
  71bdcd7; `gm_keeps_line_break` is the witness of the former defect).
  `gq`: `reshape_frame` (nothing outside the rows of the span changes), `reshape_ok`,
  `reshape_failing_motion_noop`.
  Also: register names outside `[a-z0-9]` — `delete_invalid_register_noop`, `run_invalid_register_noop`
  (d / c do nothing, like yank, since 46db376), `invalid_register_keeps_text`.
-/
import Ptk.Props.C08
namespace Ptk.C08
open Ptk.Py

/-! ### which of the new motions fail, and with what type they succeed -/

/-- `ge` / `gE` at the start of the buffer: there is no previous word, the motion fails -/
theorem ge_at_buffer_start_fails (isSpace sp : Char → Bool) (d : Doc) (count : Nat) (big : Bool)
    (h0 : d.cur = 0) (hc : 1 ≤ count) :
    textObject isSpace sp d count (.ge big) = failed := by
  have hb : d.before = [] := by simp [Doc.before, h0]
  have hn : findPreviousWordEnding sp d count big = none := by
    unfold findPreviousWordEnding
    simp only [hb, List.reverse_nil, List.append_nil]
    -- at most one character: at most one run, and it starts at 0, so the count is bumped past it
    cases ha : d.after.take 1 with
    | nil => simp [runs, runsAux, nth]
    | cons c r =>
      have hr : r = [] := by
        have := congrArg List.length ha
        simp at this
        cases r with
        | nil => rfl
        | cons x xs => simp at this; omega
      subst hr
      unfold runs runsAux
      split
      · simp [runsAux, nth]
      · simp only [runsAux, nth]
        simp
        omega
  simp only [textObject, hn, failed]

/-- `g_` on an empty line fails -/
theorem gUnder_empty_line_fails (isSpace sp : Char → Bool) (d : Doc) (count : Nat)
    (h : currentLine d = []) : textObject isSpace sp d count .gUnder = failed := by
  simp [textObject, h, failed]

/-- `%` without a count on a character that is no bracket fails -/
theorem percent_not_on_bracket_fails (isSpace sp : Char → Bool) (d : Doc) (count : Nat)
    (h : ∀ p ∈ bracketPairs, currentChar d ≠ some p.1 ∧ currentChar d ≠ some p.2) :
    textObject isSpace sp d count (.percent false) = failed := by
  have : matchingBracket d = 0 := by
    unfold matchingBracket
    generalize bracketPairs = ps at h
    induction ps with
    | nil => rfl
    | cons p ps ih =>
      obtain ⟨a, b⟩ := p
      have hp := h (a, b) List.mem_cons_self
      unfold matchingBracketGo
      rw [if_neg hp.1, if_neg hp.2]
      exact ih (fun q hq => h q (List.mem_cons_of_mem _ hq))
  simp [textObject, this, failed]

/-- `N%` is linewise for 1 ≤ N ≤ 100 and fails otherwise; `%` without count is an inclusive jump
    or fails; the screen motions `H` `M` `L` are always linewise (so they never "span nothing":
    the cursor line is always covered) -/
theorem percent_and_screen_types (isSpace sp : Char → Bool) (d : Doc) (count : Nat) :
    ((textObject isSpace sp d count (.percent true)).type = .linewise ∨
        textObject isSpace sp d count (.percent true) = failed) ∧
    ((textObject isSpace sp d count (.percent false)).type = .inclusive ∨
        textObject isSpace sp d count (.percent false) = failed) ∧
    (∀ w r, (textObject isSpace sp d count (.screen w r)).type = .linewise) := by
  refine ⟨?_, ?_, ?_⟩
  · simp only [textObject, if_true]
    split
    · left; rfl
    · right; rfl
  · simp only [textObject, Bool.false_eq_true, if_false]
    split
    · left; rfl
    · right; rfl
  · intro w r
    simp only [textObject]
    cases r with
    | some r => rfl
    | none => cases w <;> rfl

/-- `{` never moves forward, `}` never moves backward; `ap` spans from the paragraph start to
    its end around the cursor -/
theorem paragraph_directions (isSpace sp : Char → Bool) (d : Doc) (hi : Inv d) (count : Nat) :
    (textObject isSpace sp d count .braceUp).start ≤ 0 ∧
    0 ≤ (textObject isSpace sp d count .braceDown).start ∧
    (textObject isSpace sp d count .ap).start ≤ 0 ∧ 0 ≤ (textObject isSpace sp d count .ap).stop := by
  simp only [textObject]
  exact ⟨(startOfParagraph_bound isSpace d hi count true).1, (endOfParagraph_bound isSpace d hi count true).1,
    (startOfParagraph_bound isSpace d hi 1 false).1, (endOfParagraph_bound isSpace d hi count false).1⟩

/-! ### `|` and `gm` stay on the cursor line -/

/-- the span of `|` : between the cursor and column `min(count-1, len(line))` of the same line -/
theorem bar_span (isSpace sp : Char → Bool) (d : Doc) (hi : Inv d) (count : Nat) :
    let tgt := min (currentLine d).length (count - 1)
    operatorRange d (textObject isSpace sp d count .bar) =
      (min 0 ((tgt : Int) - d.col), max 0 ((tgt : Int) - d.col)) := by
  intro tgt
  have hc := col_eq d hi
  have hcl : (currentLine d).length = (lineBefore d).length + (lineAfter d).length := by simp [currentLine]
  simp only [textObject]
  unfold operatorRange TextObject.sorted
  simp only []
  by_cases hlt : ((tgt : Int) - d.col) < 0
  · -- backward: the end of the motion is the cursor, whose column is not 0
    rw [if_pos hlt]
    simp only []
    have hcol0 : colI d.text ((0 : Int) + d.cur) = d.col := by
      have := colI_within_line d hi 0 (by omega)
      simpa using this
    have : ¬ (((tgt : Int) - d.col) < 0 ∧ colI d.text (0 + (d.cur : Int)) = 0) := by
      rw [hcol0]; omega
    rw [if_neg this]
    congr 1 <;> omega
  · rw [if_neg hlt]
    simp only []
    have htl : tgt - d.col ≤ (lineAfter d).length := by omega
    have hcol := colI_within_line d hi (tgt - d.col) htl
    have hcast : ((tgt - d.col : Nat) : Int) = (tgt : Int) - d.col := by omega
    rw [hcast] at hcol
    have : ¬ ((0 : Int) < (tgt : Int) - d.col ∧ colI d.text ((tgt : Int) - d.col + (d.cur : Int)) = 0) := by
      rw [hcol]; omega
    rw [if_neg this]
    congr 1 <;> omega

/-- **`gm` stays on the line** (full strength, for the code as of 71bdcd7): whatever the window
    width, with the cursor on a character of the line the span of `gm` lies between the start of
    the line and its last character: no line break is taken.  On an empty line the motion fails. -/
theorem gm_span_within_line (isSpace sp : Char → Bool) (d : Doc) (count w : Nat)
    (hcur : 0 < (lineAfter d).length) :
    (d.cur : Int) + (operatorRange d (textObject isSpace sp d count (.gm (some w)))).2
      ≤ d.cur + (lineAfter d).length ∧
    (d.cur : Int) - (lineBefore d).length
      ≤ d.cur + (operatorRange d (textObject isSpace sp d count (.gm (some w)))).1 := by
  have hcl : (currentLine d).length = (lineBefore d).length + (lineAfter d).length := by simp [currentLine]
  have hne : (currentLine d).isEmpty = false := by
    cases hc : currentLine d with
    | nil => rw [hc] at hcl; simp at hcl; omega
    | cons x xs => rfl
  simp only [textObject, hne, Bool.false_eq_true, if_false]
  unfold operatorRange TextObject.sorted
  simp only []
  split <;> simp <;> omega

theorem gm_empty_line_fails (isSpace sp : Char → Bool) (d : Doc) (count : Nat) (w : Option Nat)
    (h : currentLine d = []) : textObject isSpace sp d count (.gm w) = failed := by
  cases w <;> simp [textObject, h, failed]

/-- the witness of the former defect (before 71bdcd7 `dgm` removed `B` AND the line break): now only
    `B` goes -/
theorem gm_keeps_line_break :
    (run { isSpace := fun c => c == ' ', reSpace := fun c => c == ' ', tf := fun _ t => t }
        { text := "B\nx".toList, cur := 0, clip := ⟨[], false⟩, regs := [], insert := false }
        none (.delete none) none (.gm (some 10))).map (fun s => (s.text, s.clip.text)) =
      some ("\nx".toList, "B".toList) := by decide

/-! ### register names outside `[a-z0-9]` (`"Ad`, `"-c` …) -/

/-- **`"Xd<motion>` / `"Xc<motion>` with a name that is no register** (as of 46db376): nothing
    happens — text, cursor, clipboard, registers and mode are as before, exactly like for yank -/
theorem delete_invalid_register_noop (s : St) (o : TextObject) (change : Bool) (r : Char)
    (hreg : isRegName r = false) : opDelete s o (some r) change = some s :=
  opDelete_bad s o (some r) change (by simp [badReg, hreg])

/-- through the whole key sequence, for every motion and counts -/
theorem run_invalid_register_noop (env : Env) (s : St) (opArg motArg : Option Nat) (m : Motion) (r : Char)
    (change : Bool) (hreg : isRegName r = false) :
    run env s opArg (if change then .change (some r) else .delete (some r)) motArg m = some s := by
  cases change <;> simp [run, applyOp, delete_invalid_register_noop _ _ _ _ hreg]

/-- the witness of the former defect (before 46db376 `"Adw` removed `one ` and stored it nowhere) -/
theorem invalid_register_keeps_text :
    (run { isSpace := fun c => c == ' ', reSpace := fun c => c == ' ', tf := fun _ t => t }
        { text := "one two".toList, cur := 0, clip := ⟨"zz".toList, false⟩, regs := [], insert := false }
        none (.delete (some 'A')) none (.w false)).map (fun s => (s.text, s.clip.text, s.regs)) =
      some ("one two".toList, "zz".toList, []) := by decide

/-- yank with such a name does nothing at all -/
theorem yank_invalid_register_noop (s : St) (o : TextObject) (r : Char) (hreg : isRegName r = false) :
    opYank s o (some r) = some s := by
  unfold opYank; simp [hreg]

/-! ### `gq` (`reshape_text`) -/

theorem flatten_splitlinesKeep (t acc : Text) : (splitlinesKeep t acc).flatten = acc.reverse ++ t := by
  induction t generalizing acc with
  | nil => cases acc <;> simp [splitlinesKeep]
  | cons c r ih =>
    unfold splitlinesKeep
    split
    · rename_i hc
      simp [ih, hc]
    · simp [ih]

/-- `gq` changes nothing outside the rows it is given: the text is `pre ++ mid ++ post` with `pre`
    the lines before `fromRow` and `post` the lines behind `toRow`, and the new text is
    `pre ++ mid' ++ post` with the cursor behind `mid'`; clipboard, registers and mode are untouched -/
theorem reshape_frame (env : Env) (tw : Nat) (s : St) (fromRow toRow : Nat) (h : fromRow ≤ toRow + 1) :
    ∃ pre mid mid' post : Text, s.text = pre ++ mid ++ post ∧
      (reshapeText env tw s fromRow toRow).text = pre ++ mid' ++ post ∧
      ((reshapeText env tw s fromRow toRow).cur = (pre ++ mid').length ∨ reshapeText env tw s fromRow toRow = s) ∧
      pre = ((splitlinesKeep s.text []).take fromRow).flatten ∧
      post = ((splitlinesKeep s.text []).drop (toRow + 1)).flatten ∧
      (reshapeText env tw s fromRow toRow).clip = s.clip ∧ (reshapeText env tw s fromRow toRow).regs = s.regs ∧
      (reshapeText env tw s fromRow toRow).insert = s.insert := by
  have hflat := flatten_splitlinesKeep s.text []
  simp only [List.reverse_nil, List.nil_append] at hflat
  generalize hls : splitlinesKeep s.text [] = ls at hflat
  have hsplit : ls = ls.take fromRow ++ (ls.take (toRow + 1)).drop fromRow ++ ls.drop (toRow + 1) := by
    have h1 : ls.take fromRow = (ls.take (toRow + 1)).take fromRow := by
      rw [List.take_take]; congr 1; omega
    rw [h1, List.take_append_drop, List.take_append_drop]
  have htext : s.text = (ls.take fromRow).flatten ++ ((ls.take (toRow + 1)).drop fromRow).flatten ++
      (ls.drop (toRow + 1)).flatten := by
    rw [← hflat]
    conv => lhs; rw [hsplit]
    simp
  unfold reshapeText
  simp only [hls]
  cases hmid : (ls.take (toRow + 1)).drop fromRow with
  | nil =>
    refine ⟨_, [], [], _, ?_, ?_, Or.inr rfl, rfl, rfl, rfl, rfl, rfl⟩
    · rw [hmid] at htext; simpa using htext
    · rw [hmid] at htext; simpa using htext
  | cons line0 rest =>
    rw [hmid] at htext
    exact ⟨_, _, _, _, htext, rfl, Or.inl rfl, rfl, rfl, rfl, rfl, rfl⟩

/-- `gq` + a failing / empty motion does nothing -/
theorem reshape_empty_span_noop (env : Env) (tw : Nat) (s : St) (o : TextObject)
    (h : spansNothing s.doc o = true) : opReshape env tw s o = some s := by
  unfold opReshape; simp [h]

theorem reshape_failing_motion_noop (env : Env) (tw : Nat) (s : St) (opArg motArg : Option Nat) (m : Motion)
    (hf : textObject env.isSpace env.reSpace s.doc (combineArgs opArg motArg) m = failed) :
    runReshape env tw s opArg motArg m = some s := by
  unfold runReshape
  rw [hf]
  apply reshape_empty_span_noop
  unfold spansNothing
  rw [operatorRange_failed]
  simp [failed]
  omega

/-- `gq` never leaves the model's domain, for every modelled motion -/
theorem reshape_ok (env : Env) (tw : Nat) (s : St) (opArg motArg : Option Nat) (m : Motion)
    (hi : s.cur ≤ s.text.length) (hm : ∀ o, m ≠ .raw o) :
    ∃ s', runReshape env tw s opArg motArg m = some s' ∧ s'.clip = s.clip ∧ s'.regs = s.regs := by
  have hr := textObject_inRange env.isSpace env.reSpace s.doc hi (combineArgs opArg motArg) m hm
  obtain ⟨b1, b2, b3⟩ := operatorRange_bounds s.doc _ hr
  unfold runReshape opReshape
  split
  · exact ⟨s, rfl, rfl, rfl⟩
  · have hn : ¬ ((getLineNumbers s.doc (textObject env.isSpace env.reSpace s.doc (combineArgs opArg motArg) m)).1 < 0 ∨
        (getLineNumbers s.doc (textObject env.isSpace env.reSpace s.doc (combineArgs opArg motArg) m)).2 < 0) := by
      unfold getLineNumbers rowI
      simp only []
      have x1 : ¬ ((operatorRange s.doc (textObject env.isSpace env.reSpace s.doc (combineArgs opArg motArg) m)).1 + (s.doc.cur : Int) < 0) := by omega
      have x2 : ¬ ((operatorRange s.doc (textObject env.isSpace env.reSpace s.doc (combineArgs opArg motArg) m)).2 + (s.doc.cur : Int) < 0) := by omega
      rw [if_neg x1, if_neg x2]
      omega
    simp only []
    rw [if_neg hn]
    refine ⟨_, rfl, ?_, ?_⟩
    · unfold reshapeText; simp only []; split <;> rfl
    · unfold reshapeText; simp only []; split <;> rfl

example : (runReshape { isSpace := fun c => c == ' ' || c == '\n', reSpace := fun c => c == ' ' || c == '\n', tf := fun _ t => t }
    12 { text := "  aa bb cc dd\nee\nzz".toList, cur := 3, clip := ⟨[], false⟩, regs := [], insert := false }
    none none .j).map (fun s => (String.ofList s.text, s.cur)) = some ("  aa bb cc\n  dd ee\nzz", 19) := by decide

/-! ### non-vacuity -/
section examples
def mEnv : Env := { isSpace := fun c => c == ' ' || c == '\n', reSpace := fun c => c == ' ' || c == '\n',
                    tf := fun _ t => t.map Char.toUpper }
def mSt (t : String) (c : Nat) : St := { text := t.toList, cur := c, clip := ⟨[], false⟩, regs := [], insert := false }

example : (run mEnv (mSt "ab cd ef" 4) none (.delete none) none (.ge false)).map (fun s => String.ofList s.text) =
    some "a ef" := by decide
example : textObject mEnv.isSpace mEnv.reSpace (mSt "ab cd" 0).doc 1 (.ge false) = failed := by decide
example : (run mEnv (mSt "ab  \ncd" 0) none (.delete none) none .gUnder).map (fun s => String.ofList s.text) =
    some "  \ncd" := by decide
example : (run mEnv (mSt "abcdef" 4) none (.delete none) (some 2) .bar).map (fun s => String.ofList s.text) =
    some "aef" := by decide
example : (run mEnv (mSt "f(a b)c" 1) none (.delete none) none (.percent false)).map (fun s => String.ofList s.text) =
    some "fc" := by decide
example : (run mEnv (mSt "a\nb\nc\nd" 0) none (.delete none) (some 50) (.percent true)).map
    (fun s => (String.ofList s.text, s.clip.lines)) = some ("c\nd", true) := by decide
example : textObject mEnv.isSpace mEnv.reSpace (mSt "abc" 1).doc 1 (.percent false) = failed := by decide
example : (run mEnv (mSt "a\nb\n\nc\nd\n\ne" 5) none (.delete none) none .ap).map (fun s => String.ofList s.text) =
    some "a\nb\n\n\n\ne" := by decide
example : (run mEnv (mSt "a\nb\n\nc\nd" 6) none (.delete none) none .braceUp).map (fun s => String.ofList s.text) =
    some "a\nb\n\nd" := by decide
example : (run mEnv (mSt "a\nb\nc\nd" 4) none (.delete none) none (.screen .top (some 1))).map
    (fun s => String.ofList s.text) = some "a\nd" := by decide
example : (run mEnv (mSt "a\nb\nc\nd" 2) none (.delete none) none (.screen .bottom none)).map
    (fun s => String.ofList s.text) = some "a\n" := by decide
example : (run mEnv (mSt "abcdefgh" 1) none (.delete none) none (.gm (some 8))).map (fun s => String.ofList s.text) =
    some "afgh" := by decide
example : Inv (mSt "abcdef" 4).doc := by unfold Inv; decide
example : (8 : Nat) / 2 < (currentLine (mSt "abcdefgh" 1).doc).length ∧ 0 < (lineAfter (mSt "abcdefgh" 1).doc).length := by
  decide
example : isRegName 'A' = false ∧ isRegName '-' = false := by decide
end examples
end Ptk.C08
