/-
  C18 — round trips: escape, then parse.  `HTML(html_escape(v))` and `ANSI(ansi_escape(v))` show
  the text of `v` for every string `v` (all code points), with the exact set of characters that are
  replaced; documents with comments / CDATA sections / processing instructions are never accepted.
-/
import Ptk.Props.C18Html
import Ptk.Props.C18Tok
namespace Ptk.C18
open Ptk.Py

/-! ## escape, then parse: the value comes back as text, for every code point -/

theorem wellNested_texts (stack : List Text) (t : Text) (r : List Ev) :
    wellNested stack (t.map .text ++ r) = wellNested stack r := by
  induction t with
  | nil => rfl
  | cons c cs ih => simpa [wellNested] using ih

theorem evRun_texts (h : HSt) (t : Text) :
    evRun h (t.map .text) = .ok { stk := h.stk, buf := h.buf ++ t, out := h.out } := by
  induction t generalizing h with
  | nil => simp [evRun]
  | cons c cs ih => simp [evRun, evStep, ih]

theorem htmlEscape_legal (v : Text) : (htmlEscape v).all xmlLegal = true := by
  rw [List.all_eq_true]
  intro c hc
  exact (htmlEscape_noMeta v c hc).2.2.2.2.2

/-- **`HTML(html_escape(v))` is the text `v`.**  For EVERY string `v`: the escaped value is accepted
    by the parser, contains no element, and its character data is `v` itself — each character that
    XML can carry verbatim (including `& < > " '` and carriage return, which travel as references),
    each of the others replaced by `?` — as one unstyled fragment. -/
theorem html_escape_roundtrip (v : Text) :
    html (htmlEscape v) = .ok (if v = [] then [] else [⟨[], xmlClean v, none⟩]) := by
  have hx := xrun_escaped 0 v []
  simp only [List.append_nil, xrun] at hx
  unfold html
  rw [htmlEscape_legal]
  simp only [Bool.not_true, Bool.false_eq_true, if_false, hx]
  have hw : wellNested [] ((xmlClean v).map .text) = true := by
    simpa [wellNested] using wellNested_texts [] (xmlClean v) []
  simp only [hw, Bool.not_true, Bool.false_eq_true, if_false]
  rw [evRun_texts]
  simp only [List.nil_append]
  by_cases hv : v = []
  · subst hv; simp [xmlClean, flush]
  · have : xmlClean v ≠ [] := by
      cases v with
      | nil => exact absurd rfl hv
      | cons c cs => simp [xmlClean]
    simp [hv, flush, this, currentStyle, join]

/-- exactly which code points `html_escape` cannot carry through XML (and turns into `?`): the C0
    controls other than tab, line feed and carriage return, and U+FFFE / U+FFFF.  (Lone surrogates,
    which a Python `str` can also hold, are not `Char`s of the model; the code replaces them, too,
    and the harness exercises that.) -/
theorem xmlLegal_false_iff (c : Char) :
    xmlLegal c = false ↔
      (c.toNat < 0x20 ∧ c.toNat ≠ 9 ∧ c.toNat ≠ 10 ∧ c.toNat ≠ 13) ∨ c.toNat = 0xFFFE ∨ c.toNat = 0xFFFF := by
  have hv : c.toNat < 0xD800 ∨ (0xDFFF < c.toNat ∧ c.toNat < 0x110000) := by
    exact c.valid
  have key : ∀ n : Nat, (n < 0xD800 ∨ (0xDFFF < n ∧ n < 0x110000)) →
      ((n == 9 || n == 10 || n == 13 || (0x20 ≤ n && n ≤ 0xD7FF) || (0xE000 ≤ n && n ≤ 0xFFFD) ||
        (0x10000 ≤ n && n ≤ 0x10FFFF)) = false ↔
       (n < 0x20 ∧ n ≠ 9 ∧ n ≠ 10 ∧ n ≠ 13) ∨ n = 0xFFFE ∨ n = 0xFFFF) := by
    intro n hn
    simp only [Bool.or_eq_false_iff, Bool.and_eq_false_iff, beq_eq_false_iff_ne, decide_eq_false_iff_not]
    omega
  exact key c.toNat hv

/-- … so for a value made of characters XML can carry, the round trip is the identity -/
theorem html_escape_roundtrip_legal (v : Text) (hne : v ≠ []) (h : ∀ c ∈ v, xmlLegal c = true) :
    html (htmlEscape v) = .ok [⟨[], v, none⟩] := by
  rw [html_escape_roundtrip, if_neg hne, xmlClean_id v h]

/-- a document that is accepted contains no comment, non-empty CDATA section or processing
    instruction: with one of these `process_node` fails (AttributeError, modelled as it is) -/
theorem html_ok_no_other (value : Text) (fs : Frags) (h : html value = .ok fs) :
    Ev.other ∉ (xrun (.content false 0) value).2 := by
  obtain ⟨hh, hr, _⟩ := html_ok value fs h
  have key : ∀ (evs : List Ev) (h0 h1 : HSt), evRun h0 evs = .ok h1 → Ev.other ∉ evs := by
    intro evs
    induction evs with
    | nil => intro _ _ _; simp
    | cons e es ih =>
      intro h0 h1 hrun
      simp only [evRun] at hrun
      cases hs : evStep h0 e with
      | error x => simp [hs] at hrun
      | ok h' =>
        simp only [hs] at hrun
        have := ih h' h1 hrun
        cases e with
        | other => simp [evStep, stackStep] at hs
        | text c => simpa using this
        | elemOpen n a => simpa using this
        | elemClose n => simpa using this
  exact key _ _ _ hr

/-! ## ANSI: escape, then parse -/

/-- **`ANSI(ansi_escape(v))` is the text of `v`**, for every string: one unstyled single-character
    fragment per character of `v`, the five characters ESC, 8-bit CSI, SOH, STX, BS shown as `?`,
    every other character itself; no control sequence, no zero-width fragment. -/
theorem ansi_escape_roundtrip (tb : Tables) (v : Text) :
    ansi tb (ansiEscape v) = plainFrags [] (ansiEscape v) ∧
    allText (ansi tb (ansiEscape v)) = ansiEscape v ∧
    (ansi tb (ansiEscape v)).length = v.length := by
  have h := ansi_plain tb (ansiEscape v) (ansiEscape_inert v)
  refine ⟨h, ?_, ?_⟩
  · rw [h]; simp [allText, plainFrags, Function.comp_def, flatten_singletons]
  · rw [h]; simp [plainFrags, ansiEscape_length]

theorem ansi_escape_roundtrip_clean (tb : Tables) (v : Text)
    (h : ∀ c ∈ v, c ≠ ESC ∧ c ≠ CSI8 ∧ c ≠ SOH ∧ c ≠ STX ∧ c ≠ BS) :
    ansi tb (ansiEscape v) = plainFrags [] v := by
  rw [(ansi_escape_roundtrip tb v).1, ansiEscape_id v h]

example : html (htmlEscape ("<b>&'\"\r".toList ++ [ESC, Char.ofNat 0xFFFE, 'é'])) =
    .ok [⟨[], "<b>&'\"\r??é".toList, none⟩] := by rfl

example : html "a<!-- c -->b".toList = .error .attr ∧ html "a<![CDATA[]]>b".toList = .ok [⟨[], "ab".toList, none⟩] ∧
    html "<?p x?>".toList = .error .attr ∧ html "<![CDATA[x]]>".toList = .error .attr ∧
    html "a<!-- -- -->".toList = .error .expat := by
  refine ⟨by rfl, by rfl, by rfl, by rfl, by rfl⟩


/-- nested elements of the same name, `<style>` (no class), names that merely start with "xml",
    quotes inside attribute values -/
example : html "<b><b>x</b>y</b><style fg=\"a'b\"><xmlfoo>z</xmlfoo></style>".toList =
    .ok [⟨"class:b,b".toList, "x".toList, none⟩, ⟨"class:b".toList, "y".toList, none⟩,
         ⟨"class:xmlfoo fg:a'b".toList, "z".toList, none⟩] := by rfl

/-! ## the escape functions from the source's own replacement tables -/

/-- `s.replace(a, b)` for a one-character `a` (one pass, left to right, not recursive) -/
def applyRepl (a : Char) (b : Text) (t : Text) : Text := t.flatMap fun c => if c = a then b else [c]

/-- `s.replace(a1, b1).replace(a2, b2)…` in source order -/
def chainRepl (tbl : List (Char × Text)) (t : Text) : Text :=
  tbl.foldl (fun acc p => applyRepl p.1 p.2 acc) t

/-- all replacements at once: each character by the text of the first entry with that key -/
def simulOne (tbl : List (Char × Text)) (c : Char) : Text :=
  match tbl.find? fun p => p.1 == c with
  | some p => p.2
  | none => [c]

def simulRepl (tbl : List (Char × Text)) (t : Text) : Text := t.flatMap (simulOne tbl)

/-- no replacement text contains a character that a LATER call replaces, and no key occurs twice
    (this is why `&` has to be replaced first) -/
def ChainOK : List (Char × Text) → Bool
  | [] => true
  | p :: rest => rest.all (fun q => !p.2.contains q.1 && q.1 != p.1) && ChainOK rest

theorem simulOne_notKey (tbl : List (Char × Text)) (c : Char) (h : ∀ q ∈ tbl, q.1 ≠ c) :
    simulOne tbl c = [c] := by
  unfold simulOne
  have : tbl.find? (fun p => p.1 == c) = none := by
    rw [List.find?_eq_none]; intro q hq; simpa using h q hq
  rw [this]

theorem flatMap_simul_id (tbl : List (Char × Text)) (b : Text) (h : ∀ x ∈ b, ∀ q ∈ tbl, q.1 ≠ x) :
    b.flatMap (simulOne tbl) = b := by
  induction b with
  | nil => rfl
  | cons x xs ih =>
    simp only [List.flatMap_cons]
    rw [simulOne_notKey tbl x (h x (by simp)), ih (fun y hy => h y (by simp [hy]))]
    rfl

/-- **Sequential `.replace` calls = simultaneous substitution**, for every table satisfying the
    decidable side condition -/
theorem chainRepl_eq_simul (tbl : List (Char × Text)) (h : ChainOK tbl = true) (t : Text) :
    chainRepl tbl t = simulRepl tbl t := by
  induction tbl generalizing t with
  | nil =>
    have := flatMap_simul_id [] t (by simp)
    simp [chainRepl, simulRepl, this]
  | cons p rest ih =>
    simp only [ChainOK, Bool.and_eq_true, List.all_eq_true] at h
    obtain ⟨h1, h2⟩ := h
    have hstep : chainRepl (p :: rest) t = chainRepl rest (applyRepl p.1 p.2 t) := by
      simp [chainRepl]
    rw [hstep, ih h2]
    simp only [simulRepl, applyRepl, List.flatMap_assoc]
    congr 1
    funext c
    by_cases hc : c = p.1
    · subst hc
      simp only [if_true]
      have hb : ∀ x ∈ p.2, ∀ q ∈ rest, q.1 ≠ x := by
        intro x hx q hq e
        have := (h1 q hq)
        simp only [Bool.not_eq_true', bne_iff_ne] at this
        have hcont : p.2.contains q.1 = false := this.1
        rw [e] at hcont
        simp at hcont
        exact hcont hx
      rw [flatMap_simul_id rest p.2 hb]
      simp [simulOne]
    · simp only [if_neg hc, List.flatMap_cons, List.flatMap_nil, List.append_nil]
      have : (p.1 == c) = false := by simpa using fun e => hc e.symm
      simp [simulOne, this]


/-- the table of `html_escape` as code points -> model form -/
def toTbl (g : List (List Nat × List Nat)) : List (Char × Text) :=
  g.filterMap fun p => match p.1 with
    | [a] => some (Char.ofNat a, p.2.map Char.ofNat)
    | _ => none

def htmlTbl : List (Char × Text) := toTbl Gen.C18.htmlEscapeReplacements
def ansiTbl : List (Char × Text) := toTbl Gen.C18.ansiEscapeReplacements

/-- **Pins** (regenerated from the source of `html_escape` / `ansi_escape` / `_XML_ILLEGAL_CHARS_RE`
    on every run): the `.replace(a, b)` calls in source order, and the pattern of the regex -/
theorem htmlTbl_pinned : htmlTbl =
    [('&', "&amp;".toList), ('<', "&lt;".toList), ('>', "&gt;".toList), ('"', "&quot;".toList),
     ('\'', "&#39;".toList), ('\r', "&#13;".toList)] := by decide

theorem ansiTbl_pinned : ansiTbl = [(ESC, ['?']), (CSI8, ['?']), (SOH, ['?']), (STX, ['?']), (BS, ['?'])] := by
  decide

/-- `[^\t\n\r\x20-\ud7ff\ue000-\ufffd\U00010000-\U0010ffff]` -/
theorem xmlIllegalPattern_pinned : Gen.C18.xmlIllegalPattern =
    [0x5b, 0x5e, 9, 10, 13, 0x20, 0x2d, 0xd7ff, 0xe000, 0x2d, 0xfffd, 0x10000, 0x2d, 0x10ffff, 0x5d] := by
  decide

theorem escape_tables_ok : ChainOK htmlTbl = true ∧ ChainOK ansiTbl = true ∧
    (∀ p ∈ htmlTbl, ∀ c ∈ p.2, xmlLegal c = true) := by
  rw [htmlTbl_pinned, ansiTbl_pinned]; decide

/-- **The model's `html_escape` is the source's own chain of `.replace` calls** (table regenerated
    from /repo, in source order) followed by `_XML_ILLEGAL_CHARS_RE.sub("?", …)` -/
theorem htmlEscape_eq_chain (t : Text) :
    htmlEscape t = (chainRepl htmlTbl t).map cleanChar := by
  rw [chainRepl_eq_simul htmlTbl escape_tables_ok.1, htmlTbl_pinned]
  induction t with
  | nil => rfl
  | cons c cs ih =>
    rw [htmlEscape_cons]
    simp only [simulRepl, List.flatMap_cons, List.map_append] at ih ⊢
    rw [← ih]
    congr 1
    unfold escChar simulOne
    by_cases h1 : c = '&'
    · subst h1; decide
    · by_cases h2 : c = '<'
      · subst h2; decide
      · by_cases h3 : c = '>'
        · subst h3; decide
        · by_cases h4 : c = '"'
          · subst h4; decide
          · by_cases h5 : c = '\''
            · subst h5; decide
            · by_cases h6 : c = '\r'
              · subst h6; decide
              · have e1 : ('&' == c) = false := by simpa using fun e => h1 e.symm
                have e2 : ('<' == c) = false := by simpa using fun e => h2 e.symm
                have e3 : ('>' == c) = false := by simpa using fun e => h3 e.symm
                have e4 : ('"' == c) = false := by simpa using fun e => h4 e.symm
                have e5 : ('\'' == c) = false := by simpa using fun e => h5 e.symm
                have e6 : ('\r' == c) = false := by simpa using fun e => h6 e.symm
                simp only [h1, h2, h3, h4, h5, h6, if_false, List.find?_cons, e1, e2, e3, e4, e5, e6,
                  List.find?_nil, List.map_cons, List.map_nil, cleanChar]
                by_cases hl : xmlLegal c = true <;> simp [hl]

/-- … and `ansi_escape` is its chain of `.replace` calls -/
theorem ansiEscape_eq_chain (t : Text) : ansiEscape t = chainRepl ansiTbl t := by
  rw [chainRepl_eq_simul ansiTbl escape_tables_ok.2.1, ansiTbl_pinned]
  induction t with
  | nil => rfl
  | cons c cs ih =>
    simp only [ansiEscape, List.map_cons, simulRepl, List.flatMap_cons] at ih ⊢
    rw [ih]
    have : simulOne [(ESC, ['?']), (CSI8, ['?']), (SOH, ['?']), (STX, ['?']), (BS, ['?'])] c =
        [if c = ESC ∨ c = CSI8 ∨ c = SOH ∨ c = STX ∨ c = BS then '?' else c] := by
      unfold simulOne
      by_cases h1 : c = ESC
      · subst h1; decide
      · by_cases h2 : c = CSI8
        · subst h2; decide
        · by_cases h3 : c = SOH
          · subst h3; decide
          · by_cases h4 : c = STX
            · subst h4; decide
            · by_cases h5 : c = BS
              · subst h5; decide
              · have e1 : (ESC == c) = false := by simpa using fun e => h1 e.symm
                have e2 : (CSI8 == c) = false := by simpa using fun e => h2 e.symm
                have e3 : (SOH == c) = false := by simpa using fun e => h3 e.symm
                have e4 : (STX == c) = false := by simpa using fun e => h4 e.symm
                have e5 : (BS == c) = false := by simpa using fun e => h5 e.symm
                simp [e1, e2, e3, e4, e5, h1, h2, h3, h4, h5]
    rw [this]; rfl

example : chainRepl htmlTbl "a&<".toList = "a&amp;&lt;".toList := by decide

end Ptk.C18
