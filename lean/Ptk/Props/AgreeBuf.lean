/-
  Cross-model agreement layer, cluster "Buffer edit and state API"
  (src/prompt_toolkit/buffer.py, without undo and validation) — umbrella module.

  Canonical model: `Ptk.C01` (`C01.Buf = (text, cursor)`, `C01.HBuf = working lines`).
    AgreeBufBase      projections; `cursor_position` / `text` / `document` setters, `set_document`,
                      `_set_text`, `_set_cursor_position`, `reset`            (C05 C09 C14 C15 C16 C08)
    AgreeBufEdit      `insert_text`, `delete`, `delete_before_cursor`, `newline`   (C05 C09 C14 C15)
    AgreeBufHistSpec  common projection `HQ` of the working-lines models, loops commute with it
    AgreeBufHist      `working_index`, `go_to_history`, `history_backward/forward`,
                      `_set_history_search`, `_history_matches`, `auto_up/down`, `append_to_history`,
                      `load_history_if_not_yet_loaded`                              (C05 C14 C16)
    AgreeBufTr        `transform_lines/current_line/region`, `indent`, `unindent`          (C08)
    AgreeBufReshape   `reshape_text`                                                       (C08)
    AgreeBufSel       `start/exit_selection`, `cut_selection`, `cursor_up/down`, `_text_changed`,
                      `_cursor_position_changed`                          (C05 C08 C09 C14 C15)
    AgreeBufApi       the rest of the Buffer API as modelled by `Model/C05Api`: `transform_*`,
                      `swap_characters_before_cursor`, `newline`, `insert_line_above/below`,
                      `join_next_line`, `join_selected_lines`, `copy_selection`     (C05 vs C01 / C09)
    AgreeBufAuto      `auto_up` / `auto_down`                                          (C05 vs C14)
-/
import Ptk.Props.AgreeBufBase
import Ptk.Props.AgreeBufEdit
import Ptk.Props.AgreeBufHistSpec
import Ptk.Props.AgreeBufHist
import Ptk.Props.AgreeBufTr
import Ptk.Props.AgreeBufReshape
import Ptk.Props.AgreeBufSel
import Ptk.Props.AgreeBufApi
import Ptk.Props.AgreeBufAuto
