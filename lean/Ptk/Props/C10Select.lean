/-
  C10 part 10 — which writer gets the terminal.  `create_output()` (output/defaults.py, POSIX branch)
  hands a stream that IS a tty to `Vt100_Output` — the class whose `write` replaces ESC — and uses
  `PlainTextOutput`, whose `write` is unsanitised by design (files, pipes), only for streams that
  are not ttys; `$TERM` (dumb / unknown) never changes the class.  The decision table of the real
  function, probed over all combinations with fake stream objects, is regenerated on every run and
  compared with the model by the kernel.
-/
import Ptk.Model.C10Out
import Ptk.Gen.C10Select
namespace Ptk.C10

/-- **Whenever the chosen stream is a terminal, the chosen writer is the escaping one**, and the
    unsanitised plain-text writer is chosen exactly for streams that are not terminals — for every
    `stdout` argument, `sys.stdout` / `sys.stderr`, `always_prefer_tty` and `$TERM`. -/
theorem createOutput_tty_escapes (i : COIn) :
    (chosenStream i = some true → createOutput i = .vt100) ∧
    (createOutput i = .plain ↔ chosenStream i = some false) ∧
    (createOutput i = .dummy ↔ chosenStream i = none) := by
  unfold createOutput
  cases h : chosenStream i with
  | none => simp
  | some t => cases t <;> simp

/-- `$TERM` does not take part in the choice -/
theorem createOutput_ignores_term (i : COIn) (d : Bool) :
    createOutput { i with termDumb := d } = createOutput i := rfl

/-- an explicitly given stream is the chosen one; `always_prefer_tty` only ever swaps in a tty -/
theorem chosenStream_spec (i : COIn) :
    (∀ t, i.arg = some t → chosenStream i = some t) ∧
    (i.arg = none → chosenStream i = i.sysOut ∨ chosenStream i = some true) := by
  constructor
  · intro t h; simp [chosenStream, h]
  · intro h
    simp only [chosenStream, h]
    split
    · split
      · exact Or.inl rfl
      · split
        · rename_i h2; exact Or.inr h2
        · exact Or.inl rfl
    · exact Or.inl rfl

def writerCode : Writer → Nat
  | .dummy => 0 | .plain => 1 | .vt100 => 2

/-- does the model reproduce one row of the probed decision table? -/
def rowOk (r : Option Bool × Option Bool × Option Bool × Bool × Bool × Nat) : Bool :=
  writerCode (createOutput { arg := r.1, sysOut := r.2.1, sysErr := r.2.2.1, preferTty := r.2.2.2.1,
                             termDumb := r.2.2.2.2.1 }) == r.2.2.2.2.2

/-- **The real `create_output()` decides as the model does**: all 270 probed combinations
    (stdout argument × sys.stdout × sys.stderr ∈ {None, tty, no tty}, always_prefer_tty, TERM ∈ {xterm,
    dumb, unknown, DUMB, unset}), re-decided by the kernel on the table regenerated from /repo. -/
theorem gen_create_output_ok :
    Gen.C10.createOutputProbeOk = true ∧ Gen.C10.createOutputTable.length = 270 ∧
    Gen.C10.createOutputTable.all rowOk = true := by decide +kernel

-- a tty with TERM=dumb still gets the escaping writer; a pipe gets the plain one
example : createOutput ⟨some true, some false, none, false, true⟩ = .vt100 ∧
    createOutput ⟨some false, some true, some true, true, false⟩ = .plain ∧
    createOutput ⟨none, some false, some true, true, true⟩ = .vt100 ∧
    createOutput ⟨none, none, some true, false, false⟩ = .dummy := by decide

end Ptk.C10
