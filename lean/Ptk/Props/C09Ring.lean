/-
  C09 — the kill ring under repetition:

    * `ring_is_bounded_lifo`: after any sequence of `set_data` calls the ring is exactly the last
      `max_size` entries, newest first (eviction order);
    * `rotate_nil`, `rotate_singleton`, `rotate_keeps_top_when_short`;
    * kill-line / unix-line-discard never accumulate: `n` presses push `n` separate entries
      (`line_kills_push_each`);
    * `yank` with an argument repeats the top entry (it does not select the n-th entry), a zero or
      negative argument inserts nothing (`yank_arg_repeats_top`);
    * `yank_pop_only_after_yank`: after any other key that changed the buffer, yank-pop does nothing;
    * zero arguments: `kill_word_zero_arg`, `rubout_nonpositive_arg`.
-/
import Ptk.Props.C09
namespace Ptk.C09
open Ptk.Py

/-! ### eviction order -/

/-- the ring after `set_data(d)` for every `d` of `ds`, in order -/
def pushAll (max : Nat) (r : Ring) (ds : List Clip) : Ring := ds.foldl (setData max) r

theorem take_append_take {α : Type} (A X : List α) (m : Nat) : (A ++ X.take m).take m = (A ++ X).take m := by
  rw [List.take_append, List.take_append, List.take_take]
  congr 2
  omega

/-- **The ring is a bounded LIFO.**  After pushing `ds` (oldest first) onto a ring `r` the ring
    holds exactly the newest `max_size` entries of "`ds` reversed, then `r`": the most recent kill is
    on top, older kills follow in order, and only the oldest entries beyond `max_size` are gone. -/
theorem ring_is_bounded_lifo (max : Nat) (ds : List Clip) : ∀ r : Ring, r.length ≤ max →
    pushAll max r ds = (ds.reverse ++ r).take max := by
  induction ds with
  | nil =>
    intro r h
    simp only [pushAll, List.foldl_nil, List.reverse_nil, List.nil_append]
    exact (List.take_of_length_le h).symm
  | cons d ds ih =>
    intro r _
    simp only [pushAll, List.foldl_cons] at ih ⊢
    rw [ih _ (setData_length_le max r d)]
    unfold setData
    rw [take_append_take]
    simp

/-- from an empty ring: exactly the last `max_size` kills, newest first -/
theorem ring_last_kills (max : Nat) (ds : List Clip) : pushAll max [] ds = ds.reverse.take max := by
  rw [ring_is_bounded_lifo max ds [] (Nat.zero_le _)]; simp

/-- the `k`-th newest kill is reachable (by `k` rotations, see `rotate_reaches`) iff `k < max_size` -/
theorem ring_keeps_kth_newest (max : Nat) (ds : List Clip) (k : Nat) (hk : k < max) :
    (pushAll max [] ds)[k]? = ds.reverse[k]? := by
  rw [ring_last_kills, List.getElem?_take_of_lt hk]

theorem ring_evicts_beyond_max (max : Nat) (ds : List Clip) (k : Nat) (hk : max ≤ k) :
    (pushAll max [] ds)[k]? = none := by
  rw [ring_last_kills]
  apply List.getElem?_eq_none
  simp; omega

example : pushAll 2 [] [⟨['1'], .chars⟩, ⟨['2'], .lines⟩, ⟨['3'], .chars⟩] = [⟨['3'], .chars⟩, ⟨['2'], .lines⟩] := by
  decide

/-! ### rotate on short rings -/

theorem rotate_nil : rotate [] = [] := rfl
theorem rotate_singleton (d : Clip) : rotate [d] = [d] := rfl

/-- with at most one entry yank-pop re-inserts the same text -/
theorem rotate_keeps_top_when_short (r : Ring) (h : r.length ≤ 1) : rotate r = r := by
  cases r with
  | nil => rfl
  | cons d r =>
    cases r with
    | nil => rfl
    | cons e r => simp at h

/-! ### kill-line and unix-line-discard never accumulate -/

theorem line_kills_do_not_accumulate (s : St) (arg : Arg) :
    accOf s arg .killLine = .no ∧ accOf s arg .lineDiscard = .no := ⟨rfl, rfl⟩

/-- the texts removed by `n` presses of a line-kill key (`kill` = the command on a buffer) -/
def lineKillTexts (kill : Buf → Kill) : Nat → Buf → List Text
  | 0, _ => []
  | n + 1, b => (kill b).removed :: lineKillTexts kill n (kill b).buf

/-- `n` presses of kill-line (`C-k`, any sign of the argument, the same argument every time) -/
def killLineRun (rs : Char → Bool) (max : Nat) (arg : Arg) : Nat → St → St
  | 0, s => s
  | n + 1, s => killLineRun rs max arg n (step rs max s arg .killLine)

/-- **kill-line repeated.**  `n` presses of `C-k` (joining lines as they go) put `n` separate
    entries on the ring — each exactly what that press removed, newest first; nothing is glued
    together (unlike the word kills). -/
theorem kill_line_pushes_each (rs : Char → Bool) (max : Nat) (arg : Arg) : ∀ (n : Nat) (s : St),
    s.ring.length ≤ max →
    (killLineRun rs max arg n s).ring =
      pushAll max s.ring ((lineKillTexts (fun b => killLineK b arg.val) n s.buf).map fun t => ⟨t, .chars⟩) := by
  intro n
  induction n with
  | zero => intro s _; rfl
  | succ n ih =>
    intro s hl
    have hk : killOf rs s.buf arg.val .killLine = some (killLineK s.buf arg.val) := rfl
    obtain ⟨hb, hr⟩ := step_kill rs max s arg .killLine _ hk
    have hp : (killLineK s.buf arg.val).push = true := by
      unfold killLineK; split
      · rfl
      · split <;> rfl
    simp only [killLineRun, lineKillTexts, List.map_cons, pushAll, List.foldl_cons]
    rw [ih _ (by rw [hr, pushKill_push _ _ _ _ hp]; exact setData_length_le _ _ _), hb, hr,
      pushKill_push _ _ _ _ hp]
    rfl

def exR1 : St := { buf := { text := "ab\ncd".toList, cur := 0 }, ring := [], dbp := none, prev := .other }
example : (killLineRun (· = ' ') 3 .none 3 exR1).ring = [⟨"cd".toList, .chars⟩, ⟨"\n".toList, .chars⟩, ⟨"ab".toList, .chars⟩] ∧
    (killLineRun (· = ' ') 2 .none 3 exR1).ring = [⟨"cd".toList, .chars⟩, ⟨"\n".toList, .chars⟩] := by decide

/-! ### yank with an argument; yank-pop only right after a yank -/

/-- **`yank` with argument `n`** inserts the TOP of the ring `n` times (it does not pick the n-th
    entry); `n ≤ 0` inserts nothing and leaves the cursor; the ring is not touched. -/
theorem yank_arg_repeats_top (s : St) (n : Int) (h : (getData s.ring).ty = .chars) :
    (yank s n).buf.text = s.buf.text.take s.buf.cur ++ repeatText (getData s.ring).text n.toNat ++ s.buf.text.drop s.buf.cur ∧
    (yank s n).ring = s.ring ∧ (n ≤ 0 → (yank s n).buf = s.buf) := by
  obtain ⟨h1, h2, _⟩ := yank_text s n h
  refine ⟨by rw [h1]; rfl, h2, ?_⟩
  intro hn
  simp [yank, pasteSt, pasteBuf, pasteRaw_nonpos _ _ _ _ hn]

/-- every key other than yank / yank-pop that changes the buffer (text or cursor) forgets
    `document_before_paste` -/
theorem change_clears_dbp (rs : Char → Bool) (mx : Nat) (s : St) (arg : Arg) (cmd : Cmd)
    (hc : cmd ≠ .yank ∧ cmd ≠ .yankPop) (hch : (step rs mx s arg cmd).buf ≠ s.buf) :
    (step rs mx s arg cmd).dbp = none := by
  cases hko : killOf rs s.buf arg.val cmd with
  | some k =>
    obtain ⟨hb, _⟩ := step_kill rs mx s arg cmd k hko
    have : (step rs mx s arg cmd).dbp = touch s.buf s.dbp k.buf := by
      cases cmd <;> simp [killOf] at hko <;> subst hko <;> simp [step, applyKill]
    rw [this, touch, if_neg (by rw [← hb]; exact hch)]
  | none =>
    cases cmd <;> simp [killOf] at hko
    · exact absurd rfl hc.1
    · exact absurd rfl hc.2
    all_goals
      simp only [step] at hch ⊢
    · simp only [touch, if_neg hch]
    · simp only [touch, if_neg hch]
    · simp only [touch, if_neg hch]
    · simp only [touch, if_neg hch]
    · rename_i a b kill
      by_cases he : s.buf.text = []
      · rw [if_pos he] at hch ⊢
        cases kill
        · rfl
        · exact absurd rfl hch
      · rw [if_neg he] at hch ⊢
        simp only at hch ⊢
        generalize (if kill = true then
            (cutRegion s.buf.text (setCursor s.buf a).cur (setCursor (setCursor s.buf a) b).cur).1
          else setCursor (setCursor s.buf a) b) = bEnd at hch ⊢
        by_cases hall : setCursor s.buf a = s.buf ∧ setCursor (setCursor s.buf a) b = setCursor s.buf a ∧
            bEnd = setCursor (setCursor s.buf a) b
        · exfalso; apply hch
          rw [hall.2.2, hall.2.1, hall.1]
        · rw [if_neg hall]

/-- **yank-pop only works right after a yank.**  After a yank followed by any other key that changed
    the buffer, `M-y` changes neither buffer nor ring. -/
theorem yank_pop_only_after_yank (rs : Char → Bool) (mx : Nat) (s : St) (arg : Arg) (cmd : Cmd)
    (hc : cmd ≠ .yank ∧ cmd ≠ .yankPop) (hch : (step rs mx s arg cmd).buf ≠ s.buf) :
    (yankPop (step rs mx s arg cmd)).buf = (step rs mx s arg cmd).buf ∧
    (yankPop (step rs mx s arg cmd)).ring = (step rs mx s arg cmd).ring :=
  yank_pop_needs_yank _ (change_clears_dbp rs mx s arg cmd hc hch)

example : (run (· = ' ') 3 exS5 [(.none, .yank), (.none, .bwdChar), (.none, .yankPop)]).buf.text = "xAy".toList ∧
    (run (· = ' ') 3 exS5 [(.none, .yank), (.none, .yankPop)]).buf.text = "xBy".toList := by decide

/-! ### zero and negative arguments of the word kills -/

/-- kill-word with argument 0 finds no word: nothing is removed, the ring is untouched -/
theorem kill_word_zero_arg (rs : Char → Bool) (b : Buf) : killWordK rs b 0 = Kill.nothing b := by
  simp [killWordK, findNextWordEnding]

/-- unix-word-rubout / backward-kill-word with an argument `≤ 0` find no word and fall back to
    "delete until the start of the document": everything before the cursor is removed — and put on
    the ring (`kill_puts_removed` applies) -/
theorem rubout_nonpositive_arg (rs : Char → Bool) (b : Buf) (h : WF b) (n : Int) (hn : n ≤ 0) (W : Bool)
    (hc : 0 < b.cur) :
    (ruboutK rs b n W).removed = b.before ∧ (ruboutK rs b n W).buf = { text := b.after, cur := 0 } ∧
    (ruboutK rs b n W).push = true := by
  have hpos : (-(b.cur : Int)) ≠ 0 := by omega
  simp only [ruboutK, findStartOfPrevWord, if_pos hn, Option.getD_none, hpos, ne_eq, not_false_eq_true, if_true,
    Kill.ofDel]
  have e : (- -(b.cur : Int)).toNat = b.cur := by omega
  rw [e]
  obtain ⟨h1, h2, _⟩ := deleteBefore_le b h b.cur (Nat.le_refl _)
  refine ⟨by rw [h1]; simp, ?_, trivial⟩
  unfold deleteBefore
  rw [if_pos hc]
  unfold WF at h
  simp [Buf.after]
  omega

example : (ruboutK (· = ' ') { text := "ab cd".toList, cur := 4 } 0 true).removed = "ab c".toList := by decide

end Ptk.C09
