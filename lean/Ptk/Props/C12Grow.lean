/-
  C12 — lemmas about `growSizes` (= `_grow_sizes`) over a list of generator groups and about
  `childGenerators` (= `_child_generators`): the groups partition the children, every
  generator is well-formed.
-/
import Ptk.Props.C12Loop
namespace Ptk.C12

/-- a (group, generator) pair is sound for `n` children -/
structure GenOK (n : Nat) (p : List Nat × Gen) : Prop where
  wf : p.2.WF
  items : p.2.items = p.1
  nodup : p.1.Nodup
  range : ∀ i ∈ p.1, i < n

/-- the groups are sound and pairwise disjoint -/
def GensOK (n : Nat) (gens : List (List Nat × Gen)) : Prop :=
  (∀ p ∈ gens, GenOK n p) ∧ (gens.map (·.1)).Pairwise (fun a b => ∀ x ∈ a, x ∉ b)

/-- room left in all groups together -/
def totalCap (s lim : List Nat) (gens : List (List Nat × Gen)) : Nat :=
  (gens.map fun p => capOf s lim p.1).sum

theorem growSizes_mono (limits : List Nat) (stop : Nat) {F F' : Nat} (hF : F ≤ F') :
    ∀ (gens : List (List Nat × Gen)) (sizes : List Nat) (r : List Nat × List (List Nat × Gen)),
      growSizes F limits stop sizes gens = some r → growSizes F' limits stop sizes gens = some r := by
  intro gens
  induction gens with
  | nil => intro sizes r h; simpa [growSizes] using h
  | cons p rest ih =>
    intro sizes r h
    obtain ⟨grp, g⟩ := p
    unfold growSizes at h ⊢
    simp only at h ⊢
    rcases h1 : growLoop limits (Nat.min stop (sizes.sum + capOf sizes limits grp)) F F sizes g
      with _ | ⟨s1, g1⟩
    · rw [h1] at h; simp at h
    · rw [h1] at h
      rw [growLoop_mono limits _ hF h1 hF]
      simp only at h ⊢
      rcases h2 : growSizes F limits stop s1 rest with _ | ⟨s2, rest2⟩
      · rw [h2] at h; simp at h
      · rw [h2] at h
        rw [ih s1 _ h2]
        exact h

theorem growSizes_spec (n : Nat) (limits : List Nat) (stop F : Nat) :
    ∀ (gens : List (List Nat × Gen)) (sizes s' : List Nat) (gens' : List (List Nat × Gen)),
      GensOK n gens → sizes.length = n → sizes.sum ≤ stop →
      growSizes F limits stop sizes gens = some (s', gens') →
      GensOK n gens' ∧ gens'.map (·.1) = gens.map (·.1) ∧ s'.length = n ∧
      s'.sum = Nat.min stop (sizes.sum + totalCap sizes limits gens) ∧
      (∀ i, sizes.getD i 0 ≤ s'.getD i 0) ∧
      (∀ i, s'.getD i 0 ≤ max (sizes.getD i 0) (limits.getD i 0)) ∧
      (∀ G : List Nat, (∀ p ∈ gens, ∀ x ∈ p.1, x ∉ G) → capOf s' limits G = capOf sizes limits G) := by
  intro gens
  induction gens with
  | nil =>
    intro sizes s' gens' hok hlen hle h
    simp only [growSizes, Option.some.injEq, Prod.mk.injEq] at h
    obtain ⟨rfl, rfl⟩ := h
    refine ⟨hok, rfl, hlen, ?_, fun _ => le_refl _, fun _ => le_max_left _ _, fun _ _ => rfl⟩
    simp only [totalCap, List.map_nil, List.sum_nil, Nat.add_zero]
    exact (Nat.min_eq_right hle).symm
  | cons p rest ih =>
    intro sizes s' gens' hok hlen hle h
    obtain ⟨grp, g⟩ := p
    obtain ⟨hall, hpair⟩ := hok
    have hp : GenOK n (grp, g) := hall _ List.mem_cons_self
    simp only [List.map_cons, List.pairwise_cons] at hpair
    have hokrest : GensOK n rest := ⟨fun q hq => hall q (List.mem_cons_of_mem _ hq), hpair.2⟩
    unfold growSizes at h
    simp only at h
    rcases h1 : growLoop limits (Nat.min stop (sizes.sum + capOf sizes limits grp)) F F sizes g
      with _ | ⟨s1, g1⟩
    · rw [h1] at h; simp at h
    · rw [h1] at h
      simp only at h
      rcases h2 : growSizes F limits stop s1 rest with _ | ⟨s2, rest2⟩
      · rw [h2] at h; simp at h
      · rw [h2] at h
        simp only [Option.some.injEq, Prod.mk.injEq] at h
        obtain ⟨rfl, rfl⟩ := h
        have hgs : sizes.sum ≤ Nat.min stop (sizes.sum + capOf sizes limits grp) := by
          simp only [Nat.min_def]; split_ifs <;> omega
        obtain ⟨b1, b2, _, b4, b5, b6, b7, b8⟩ :=
          growLoop_spec limits _ F F sizes g s1 g1 hp.wf hgs h1
        have hs1le : s1.sum ≤ stop := by
          rw [b5]; simp only [Nat.min_def]; split_ifs <;> omega
        obtain ⟨c1, c2, c3, c4, c5, c6, c7⟩ :=
          ih s1 s2 rest2 hokrest (by rw [b4, hlen]) hs1le h2
        -- the capacities of the later groups are untouched by the first loop
        have hcaprest : totalCap s1 limits rest = totalCap sizes limits rest := by
          unfold totalCap
          congr 1
          apply List.map_congr_left
          intro q hq
          apply b8
          intro x hx
          rw [hp.items] at hx
          exact hpair.1 q.1 (List.mem_map_of_mem hq) x hx
        refine ⟨?_, ?_, c3, ?_, ?_, ?_, ?_⟩
        · refine ⟨?_, ?_⟩
          · intro q hq
            rcases List.mem_cons.mp hq with rfl | hq
            · exact ⟨b1, by rw [b2]; exact hp.items, hp.nodup, hp.range⟩
            · exact c1.1 q hq
          · simp only [List.map_cons, List.pairwise_cons]
            rw [c2]
            exact hpair
        · simp only [List.map_cons, c2]
        · rw [c4, b5, hcaprest]
          simp only [totalCap, List.map_cons, List.sum_cons, Nat.min_def]
          split_ifs <;> omega
        · intro i; exact le_trans (b6 i) (c5 i)
        · intro i
          have h1 := c6 i
          have h2 := b7 i
          omega
        · intro G hG
          rw [c7 G (fun q hq => hG q (List.mem_cons_of_mem _ hq))]
          apply b8
          intro x hx
          rw [hp.items] at hx
          exact hG (grp, g) List.mem_cons_self x hx

theorem growSizes_terminates (n : Nat) (limits : List Nat) (stop : Nat) :
    ∀ (gens : List (List Nat × Gen)) (sizes : List Nat),
      GensOK n gens → sizes.length = n → sizes.sum ≤ stop →
      ∃ F0, ∀ F, F0 ≤ F → ∃ r, growSizes F limits stop sizes gens = some r := by
  intro gens
  induction gens with
  | nil => intro sizes _ _ _; exact ⟨0, fun F _ => ⟨_, rfl⟩⟩
  | cons p rest ih =>
    intro sizes hok hlen hle
    obtain ⟨grp, g⟩ := p
    obtain ⟨hall, hpair⟩ := hok
    have hp : GenOK n (grp, g) := hall _ List.mem_cons_self
    simp only [List.map_cons, List.pairwise_cons] at hpair
    have hokrest : GensOK n rest := ⟨fun q hq => hall q (List.mem_cons_of_mem _ hq), hpair.2⟩
    have hgs : sizes.sum ≤ Nat.min stop (sizes.sum + capOf sizes limits grp) := by
      simp only [Nat.min_def]; split_ifs <;> omega
    obtain ⟨F1, hF1⟩ := growLoop_terminates limits
      (Nat.min stop (sizes.sum + capOf sizes limits grp)) grp hp.nodup _ sizes g (le_refl _) hp.wf
      hp.items (by intro i hi; rw [hlen]; exact hp.range i hi)
      (by simp only [Nat.min_def]; split_ifs <;> omega)
    obtain ⟨⟨s1, g1⟩, hr1⟩ := hF1 F1 F1 (le_refl _) (le_refl _)
    obtain ⟨_, _, _, b4, b5, _⟩ := growLoop_spec limits _ F1 F1 sizes g s1 g1 hp.wf hgs hr1
    have hs1le : s1.sum ≤ stop := by
      rw [b5]; simp only [Nat.min_def]; split_ifs <;> omega
    obtain ⟨F2, hF2⟩ := ih s1 hokrest (by rw [b4, hlen]) hs1le
    refine ⟨max F1 F2, fun F hF => ?_⟩
    obtain ⟨⟨s2, rest2⟩, hr2⟩ := hF2 F (by omega)
    refine ⟨(s2, (grp, g1) :: rest2), ?_⟩
    unfold growSizes
    simp only
    rw [growLoop_mono limits _ (by omega : F1 ≤ F) hr1 (by omega : F1 ≤ F)]
    simp only
    rw [hr2]

/-! #### `_child_generators` -/

theorem le_foldl_max (l : List Nat) : ∀ (acc : Nat), acc ≤ l.foldl Nat.max acc ∧
    ∀ x ∈ l, x ≤ l.foldl Nat.max acc := by
  induction l with
  | nil => intro acc; simp
  | cons a l ih =>
    intro acc
    simp only [List.foldl_cons]
    obtain ⟨h1, h2⟩ := ih (Nat.max acc a)
    refine ⟨le_trans (Nat.le_max_left _ _) h1, ?_⟩
    intro x hx
    rcases List.mem_cons.mp hx with rfl | hx
    · exact le_trans (Nat.le_max_right _ _) h1
    · exact h2 x hx

theorem le_maxOf {l : List Nat} {x : Nat} (h : x ∈ l) : x ≤ maxOf l :=
  (le_foldl_max l 0).2 x h

theorem Gen.init_ok {items weights : List Nat} (hlen : items.length = weights.length)
    (hpos : ∀ w ∈ weights, 0 < w) (hne : items ≠ []) :
    (Gen.init items weights).WF ∧ (Gen.init items weights).items = items := by
  have hfilter : (items.zip weights).filter (fun p => decide (p.2 > 0)) = items.zip weights := by
    rw [List.filter_eq_self]
    intro p hp
    have := hpos p.2 (List.of_mem_zip hp).2
    simpa using this
  have hws : ((items.zip weights).map (·.2)) = weights := List.map_snd_zip (by omega)
  have hit : ((items.zip weights).map (·.1)) = items := List.map_fst_zip (by omega)
  have hwne : weights ≠ [] := by
    intro h; rw [h] at hlen; exact hne (List.length_eq_zero_iff.mp hlen)
  unfold Gen.init
  simp only [hfilter, hws, hit]
  refine ⟨⟨hlen, by simp, by simp, ?_, ?_⟩, trivial⟩
  · obtain ⟨w, hw⟩ := List.exists_mem_of_ne_nil _ hwne
    exact lt_of_lt_of_le (hpos w hw) (le_maxOf hw)
  · intro k hk
    simp only
    apply hpos
    rw [List.getD_eq_getElem?_getD]
    simp [hk]

theorem groupIdx_nodup (weights : List Nat) (b : Bool) : (groupIdx weights b).Nodup :=
  List.Nodup.sublist List.filter_sublist List.nodup_range

theorem groupIdx_lt {weights : List Nat} {b : Bool} {i : Nat} (h : i ∈ groupIdx weights b) :
    i < weights.length := by
  unfold groupIdx at h
  exact List.mem_range.mp (List.mem_filter.mp h).1

theorem groupIdx_disjoint {weights : List Nat} {x : Nat} (h : x ∈ groupIdx weights true) :
    x ∉ groupIdx weights false := by
  unfold groupIdx at *
  intro h2
  have a := (List.mem_filter.mp h).2
  have b := (List.mem_filter.mp h2).2
  simp at a b
  omega

theorem sum_filter_partition (F : Nat → Nat) (p : Nat → Bool) (l : List Nat) :
    ((l.filter p).map F).sum + ((l.filter fun i => !p i).map F).sum = (l.map F).sum := by
  induction l with
  | nil => simp
  | cons a l ih =>
    by_cases h : p a
    · simp [h]; omega
    · simp [h]; omega

theorem groupIdx_false_eq (weights : List Nat) :
    groupIdx weights false
      = (List.range weights.length).filter fun i => !(decide (weights.getD i 0 > 0) == true) := by
  unfold groupIdx
  apply List.filter_congr
  intro i _
  cases decide (weights.getD i 0 > 0) <;> rfl

theorem childGenerators_eq (dims : List Dim) :
    childGenerators dims =
      (if groupIdx (dims.map (·.weight)) true = [] then []
        else [mkGroupGen (dims.map (·.weight)) (groupIdx (dims.map (·.weight)) true)]) ++
      (if groupIdx (dims.map (·.weight)) false = [] then []
        else [mkGroupGen (dims.map (·.weight)) (groupIdx (dims.map (·.weight)) false)]) := by
  unfold childGenerators
  simp only
  generalize groupIdx (dims.map (·.weight)) true = a
  generalize groupIdx (dims.map (·.weight)) false = b
  cases a <;> cases b <;> simp

theorem mkGroupGen_ok (dims : List Dim) (b : Bool)
    (hne : groupIdx (dims.map (·.weight)) b ≠ []) :
    GenOK dims.length (mkGroupGen (dims.map (·.weight)) (groupIdx (dims.map (·.weight)) b)) := by
  have := Gen.init_ok (items := groupIdx (dims.map (·.weight)) b)
    (weights := (groupIdx (dims.map (·.weight)) b).map fun i =>
      if (dims.map (·.weight)).getD i 0 = 0 then 1 else (dims.map (·.weight)).getD i 0)
    (by simp)
    (by
      intro w hw
      obtain ⟨i, _, rfl⟩ := List.mem_map.mp hw
      split_ifs <;> omega)
    hne
  exact ⟨this.1, this.2, groupIdx_nodup _ _, fun i hi => by
    have := groupIdx_lt hi; simpa using this⟩

theorem childGenerators_ok (dims : List Dim) : GensOK dims.length (childGenerators dims) := by
  rw [childGenerators_eq]
  by_cases h1 : groupIdx (dims.map (·.weight)) true = []
  · by_cases h2 : groupIdx (dims.map (·.weight)) false = []
    · rw [if_pos h1, if_pos h2]
      exact ⟨by simp, by simp⟩
    · rw [if_pos h1, if_neg h2]
      refine ⟨?_, by simp⟩
      intro p hp
      simp only [List.nil_append, List.mem_singleton] at hp
      subst hp
      exact mkGroupGen_ok dims false h2
  · by_cases h2 : groupIdx (dims.map (·.weight)) false = []
    · rw [if_neg h1, if_pos h2]
      refine ⟨?_, by simp⟩
      intro p hp
      simp only [List.append_nil, List.mem_singleton] at hp
      subst hp
      exact mkGroupGen_ok dims true h1
    · rw [if_neg h1, if_neg h2]
      refine ⟨?_, ?_⟩
      · intro p hp
        simp only [List.cons_append, List.nil_append, List.mem_cons, List.not_mem_nil,
          or_false] at hp
        rcases hp with rfl | rfl
        · exact mkGroupGen_ok dims true h1
        · exact mkGroupGen_ok dims false h2
      · simp only [List.cons_append, List.nil_append, List.map_cons, List.map_nil, mkGroupGen,
          List.pairwise_cons, List.mem_singleton, forall_eq, List.not_mem_nil, false_imp_iff,
          implies_true, List.Pairwise.nil, and_true]
        intro x hx
        exact groupIdx_disjoint hx

theorem childGenerators_totalCap (dims : List Dim) (s lim : List Nat) :
    totalCap s lim (childGenerators dims)
      = ((List.range dims.length).map fun i => lim.getD i 0 - s.getD i 0).sum := by
  have hpart := sum_filter_partition (fun i => lim.getD i 0 - s.getD i 0)
    (fun i => decide ((dims.map (·.weight)).getD i 0 > 0) == true) (List.range dims.length)
  have hf := groupIdx_false_eq (dims.map (·.weight))
  have ht : groupIdx (dims.map (·.weight)) true
      = (List.range dims.length).filter
          fun i => decide ((dims.map (·.weight)).getD i 0 > 0) == true := by
    unfold groupIdx; simp
  simp only [List.length_map] at hf
  rw [← hpart, ← hf, ← ht, childGenerators_eq]
  unfold totalCap
  by_cases h1 : groupIdx (dims.map (·.weight)) true = []
  · by_cases h2 : groupIdx (dims.map (·.weight)) false = []
    · rw [if_pos h1, if_pos h2, h1, h2]; simp
    · rw [if_pos h1, if_neg h2, h1]; simp [mkGroupGen, capOf]
  · by_cases h2 : groupIdx (dims.map (·.weight)) false = []
    · rw [if_neg h1, if_pos h2, h2]; simp [mkGroupGen, capOf]
    · rw [if_neg h1, if_neg h2]; simp [mkGroupGen, capOf]

end Ptk.C12
