/-
  C19 — merging is pure: evaluating `_MergedStyle.style_rules` / a merged query writes only to the
  fresh list it allocates; every constituent sheet's rule list is unchanged, the list handed back is
  the concatenation of the CURRENT constituent lists, and this stays so over any session of merges
  and queries that share sheet objects.
-/
import Ptk.Model.C19Merge
import Ptk.Props.C19Cascade
namespace Ptk.C19
open Ptk.Py

theorem modifyAt_length (f : α → α) (l : List α) (i : Nat) : (modifyAt f l i).length = l.length := by
  induction l generalizing i with
  | nil => rfl
  | cons x xs ih => cases i <;> simp [modifyAt, ih]

theorem modifyAt_getD_ne (f : α → α) (l : List α) (i j : Nat) (d : α) (h : i ≠ j) :
    (modifyAt f l i).getD j d = l.getD j d := by
  induction l generalizing i j with
  | nil => rfl
  | cons x xs ih =>
    cases i with
    | zero =>
      cases j with
      | zero => exact absurd rfl h
      | succ j => simp [modifyAt]
    | succ i =>
      cases j with
      | zero => simp [modifyAt]
      | succ j => simpa [modifyAt] using ih i j (by omega)

theorem modifyAt_getD_self (f : α → α) (l : List α) (i : Nat) (d : α) (h : i < l.length) :
    (modifyAt f l i).getD i d = f (l.getD i d) := by
  induction l generalizing i with
  | nil => simp at h
  | cons x xs ih =>
    cases i with
    | zero => simp [modifyAt]
    | succ i => simpa [modifyAt] using ih i (by simpa using h)

theorem extend_length (h : Heap) (r : Nat) (xs : List RawRule) :
    (h.extend r xs).lists.length = h.lists.length := modifyAt_length _ _ _

/-- `lst.extend` leaves every other list object alone -/
theorem extend_get_ne (h : Heap) (r s : Nat) (xs : List RawRule) (hne : r ≠ s) :
    (h.extend r xs).get s = h.get s := modifyAt_getD_ne _ _ _ _ _ hne

theorem extend_get_self (h : Heap) (r : Nat) (xs : List RawRule) (hr : r < h.lists.length) :
    (h.extend r xs).get r = h.get r ++ xs := modifyAt_getD_self _ _ _ _ hr

theorem alloc_spec (h : Heap) (xs : List RawRule) :
    (h.alloc xs).2 = h.lists.length ∧ (h.alloc xs).1.lists.length = h.lists.length + 1 ∧
      (h.alloc xs).1.get h.lists.length = xs ∧ ∀ s < h.lists.length, (h.alloc xs).1.get s = h.get s := by
  refine ⟨rfl, by simp [Heap.alloc], ?_, ?_⟩
  · simp [Heap.alloc, Heap.get, List.getD_eq_getElem?_getD]
  · intro s hs
    simp [Heap.alloc, Heap.get, List.getD_eq_getElem?_getD, List.getElem?_append_left hs]

theorem fold_extend_spec (n : Nat) (refs : List Nat) (hrefs : ∀ s ∈ refs, s < n) (h0 hh : Heap)
    (hlen : hh.lists.length = n + 1) (hold : ∀ s < n, hh.get s = h0.get s) :
    let res := refs.foldl (fun hh s => hh.extend n (hh.get s)) hh
    res.lists.length = n + 1 ∧ (∀ s < n, res.get s = h0.get s) ∧
      res.get n = hh.get n ++ refs.flatMap h0.get := by
  induction refs generalizing hh with
  | nil => exact ⟨hlen, hold, by simp⟩
  | cons s rest ih =>
    have hs : s < n := hrefs s (by simp)
    have h1 : (hh.extend n (hh.get s)).lists.length = n + 1 := by rw [extend_length, hlen]
    have h2 : ∀ t < n, (hh.extend n (hh.get s)).get t = h0.get t := by
      intro t ht
      rw [extend_get_ne _ _ _ _ (by omega), hold t ht]
    obtain ⟨r1, r2, r3⟩ := ih (fun t ht => hrefs t (by simp [ht])) (hh.extend n (hh.get s)) h1 h2
    refine ⟨r1, r2, ?_⟩
    simp only [List.foldl_cons, List.flatMap_cons]
    rw [r3, extend_get_self _ _ _ (by omega), hold s hs, List.append_assoc]

/-- **Merging is pure.**  Evaluating `_MergedStyle.style_rules` over sheets that exist in the heap
    hands back a NEW list object whose contents are the concatenation, in order, of the current
    rule lists of the sheets, and leaves every existing list object — in particular every
    constituent sheet's own rule list — unchanged. -/
theorem mergedStyleRules_pure (h : Heap) (parts : List (Option Nat))
    (hparts : ∀ s ∈ parts.filterMap id, s < h.lists.length) :
    (mergedStyleRules h parts).2 = h.lists.length ∧
    (mergedStyleRules h parts).1.lists.length = h.lists.length + 1 ∧
    (∀ s < h.lists.length, (mergedStyleRules h parts).1.get s = h.get s) ∧
    (mergedStyleRules h parts).1.get (mergedStyleRules h parts).2 = (parts.filterMap id).flatMap h.get := by
  obtain ⟨a1, a2, a3, a4⟩ := alloc_spec h []
  have := fold_extend_spec h.lists.length (parts.filterMap id) hparts h (h.alloc []).1 a2 a4
  obtain ⟨r1, r2, r3⟩ := this
  refine ⟨rfl, r1, r2, ?_⟩
  show ((parts.filterMap id).foldl _ (h.alloc []).1).get h.lists.length = _
  rw [r3, a3, List.nil_append]

theorem filterMap_map_flatten (h : Heap) (parts : List (Option Nat)) :
    ((parts.map (Option.map h.get)).filterMap id).flatten = (parts.filterMap id).flatMap h.get := by
  induction parts with
  | nil => rfl
  | cons p ps ih =>
    cases p with
    | none => simpa using ih
    | some r =>
      simp only [List.map_cons, Option.map_some, List.filterMap_cons, id, List.flatten_cons,
        List.flatMap_cons]
      rw [ih]

/-- **A merged query is the cascade over the concatenation of the CURRENT constituent rule
    lists** (and touches no existing list object). -/
theorem mergedQuery_spec (T : Tables) (sp rsp : Char → Bool) (h : Heap) (parts : List (Option Nat))
    (hparts : ∀ s ∈ parts.filterMap id, s < h.lists.length) (s : Text) (d : Attrs) :
    (∀ t < h.lists.length, (mergedQuery T sp rsp h parts s d).1.get t = h.get t) ∧
    (mergedQuery T sp rsp h parts s d).1.lists.length = h.lists.length + 1 ∧
    (mergedQuery T sp rsp h parts s d).2 =
      match mergedRules T sp rsp (parts.map (Option.map h.get)) with
      | .error e => .error e
      | .ok rules => match getAttrs T sp rules s d with
        | some a => .ok a
        | none => .error .value := by
  obtain ⟨_, p2, p3, p4⟩ := mergedStyleRules_pure h parts hparts
  refine ⟨p3, p2, ?_⟩
  unfold mergedQuery mergedRules
  simp only [p4, filterMap_map_flatten]
  rfl

/-- a session only mentions sheets that exist when it starts -/
def OpOk (n : Nat) : SessOp → Prop
  | .queryMerged parts _ _ => ∀ s ∈ parts.filterMap id, s < n
  | .rulesMerged parts => ∀ s ∈ parts.filterMap id, s < n
  | .querySheet r _ _ => r < n
  | .rulesSheet r => r < n

/-- **Sessions.**  Whatever merges are built, queried and re-queried over shared sheet objects, in
    whatever order, the rule list of every sheet that existed at the start is the same afterwards;
    hence every later query — of a sheet alone, or of any merge containing it — sees the sheet's
    original rules. -/
theorem session_pure (T : Tables) (sp rsp : Char → Bool) (ops : List SessOp) (h : Heap)
    (hops : ∀ op ∈ ops, OpOk h.lists.length op) :
    h.lists.length ≤ (ops.foldl (sessStep T sp rsp) h).lists.length ∧
    ∀ s < h.lists.length, (ops.foldl (sessStep T sp rsp) h).get s = h.get s := by
  induction ops generalizing h with
  | nil => exact ⟨Nat.le_refl _, fun _ _ => rfl⟩
  | cons op rest ih =>
    have hop := hops op (by simp)
    have key : h.lists.length ≤ (sessStep T sp rsp h op).lists.length ∧
        ∀ s < h.lists.length, (sessStep T sp rsp h op).get s = h.get s := by
      cases op with
      | queryMerged parts s d =>
        obtain ⟨a, b, _⟩ := mergedQuery_spec T sp rsp h parts hop s d
        exact ⟨by simp only [sessStep]; omega, a⟩
      | rulesMerged parts =>
        obtain ⟨_, b, a, _⟩ := mergedStyleRules_pure h parts hop
        exact ⟨by simp only [sessStep]; omega, a⟩
      | querySheet r s d => exact ⟨Nat.le_refl _, fun _ _ => rfl⟩
      | rulesSheet r => exact ⟨Nat.le_refl _, fun _ _ => rfl⟩
    have hrest : ∀ op' ∈ rest, OpOk (sessStep T sp rsp h op).lists.length op' := by
      intro op' hop'
      have h0 := hops op' (by simp [hop'])
      cases op' with
      | queryMerged parts s d => exact fun t ht => Nat.lt_of_lt_of_le (h0 t ht) key.1
      | rulesMerged parts => exact fun t ht => Nat.lt_of_lt_of_le (h0 t ht) key.1
      | querySheet r s d => exact Nat.lt_of_lt_of_le h0 key.1
      | rulesSheet r => exact Nat.lt_of_lt_of_le h0 key.1
    obtain ⟨i1, i2⟩ := ih (sessStep T sp rsp h op) hrest
    refine ⟨Nat.le_trans key.1 i1, fun s hs => ?_⟩
    rw [List.foldl_cons, i2 s (Nat.lt_of_lt_of_le hs key.1), key.2 s hs]

end Ptk.C19
