/-
  Cross-model agreement, cluster "Document queries and motions" (src/prompt_toolkit/document.py).

  Gen module: the hypothesis `SpOk` (`\s` matches no `[a-zA-Z0-9_]`) of the C08 / C01 word theorems is a
  decidable side condition on the regenerated `\s` table (`Ptk.Gen.reSpaceRanges`), re-decided on every
  build; with it the theorems hold unconditionally at the class every driver instantiates.
-/
import Ptk.Props.AgreeDocWords
import Ptk.Props.AgreeDocBrk
import Ptk.Gen.PyChars
namespace Ptk.AgreeDoc
open Ptk.Py

/-- side condition on the regenerated `\s` table: no `\s` range meets `[0-9A-Za-z_]` (48..122) -/
theorem gen_reSpace_ranges_ok : ∀ r ∈ Ptk.Gen.reSpaceRanges, r.2 < 48 ∨ 122 < r.1 := by decide

/-- the `\s` class the drivers of C01 / C02 / C08 / C09 instantiate (`Ptk.Gen.reSpace`, regenerated from
    the running interpreter on every run) satisfies the hypothesis `SpOk` of the C08 / C01 agreement
    theorems: `\s` matches no `[a-zA-Z0-9_]` -/
theorem spOk_gen : SpOk Ptk.Gen.reSpace := by
  intro c hw
  have hr : 48 ≤ c.toNat ∧ c.toNat ≤ 122 := by
    simp only [C02.isWordChar, Bool.or_eq_true, Bool.and_eq_true, decide_eq_true_eq, beq_iff_eq] at hw
    omega
  simp only [Ptk.Gen.reSpace, Ptk.Gen.inRanges]
  rw [Bool.eq_false_iff]
  intro h
  rw [List.any_eq_true] at h
  obtain ⟨r, hr1, hr2⟩ := h
  have := gen_reSpace_ranges_ok r hr1
  simp only [Bool.and_eq_true, decide_eq_true_eq] at hr2
  omega

theorem spOkB_gen (big : Bool) : SpOkB Ptk.Gen.reSpace big := Or.inr spOk_gen


/-! ### the C08 / C01 word theorems at the `\s` class every driver uses (no hypothesis left) -/

/-- document.py::Document.find_start_of_previous_word — `C08` vs `C02` at `Ptk.Gen.reSpace` -/
theorem findStartOfPreviousWord_08_gen (d : C08.Doc) (count : Nat) (big : Bool) :
    C08.findStartOfPreviousWord Ptk.Gen.reSpace d count big
      = C02.findStartOfPreviousWord Ptk.Gen.reSpace (of08 d) (count : Int) big :=
  findStartOfPreviousWord_08 _ d count big (Or.inr spOk_gen)

/-- document.py::Document.find_next_word_ending — `C08` vs `C02` at `Ptk.Gen.reSpace` -/
theorem findNextWordEnding_08_gen (d : C08.Doc) (count : Nat) (big : Bool) :
    C08.findNextWordEnding Ptk.Gen.reSpace d count big
      = C02.findNextWordEnding Ptk.Gen.reSpace (of08 d) false (count : Int) big :=
  findNextWordEnding_08 _ d count big (Or.inr spOk_gen)

/-- document.py::Document.find_previous_word_ending — `C08` vs `C02` at `Ptk.Gen.reSpace` -/
theorem findPreviousWordEnding_08_gen (d : C08.Doc) (count : Nat) (big : Bool) :
    C08.findPreviousWordEnding Ptk.Gen.reSpace d count big
      = C02.findPreviousWordEnding Ptk.Gen.reSpace (of08 d) (count : Int) big :=
  findPreviousWordEnding_08 _ d count big (Or.inr spOk_gen)

/-- document.py::Document.find_next_word_beginning — `C08` vs `C02` at `Ptk.Gen.reSpace` (count ≥ 1) -/
theorem findNextWordBeginning_08_gen (d : C08.Doc) (count : Nat) (big : Bool) (h1 : 1 ≤ count) :
    C08.findNextWordBeginning Ptk.Gen.reSpace d count big
      = C02.findNextWordBeginning Ptk.Gen.reSpace (of08 d) (count : Int) big :=
  findNextWordBeginning_08 _ d count big (Or.inr spOk_gen) h1

/-- document.py::Document.find_next_word_ending — `C01.findNextWordEnding` vs `C02` at `Ptk.Gen.reSpace` -/
theorem findNextWordEnding_01_gen (b : C01.Buf) :
    (C01.findNextWordEnding Ptk.Gen.reSpace b).map (fun (n : Nat) => (n : Int))
      = C02.findNextWordEnding Ptk.Gen.reSpace (of01 b) false 1 false :=
  findNextWordEnding_01 _ spOk_gen b

/-- document.py::Document.find_boundaries_of_current_word — `C08` vs `C02` at `Ptk.Gen.reSpace` -/
theorem wordBoundaries_08_gen (d : C08.Doc) (big trailing : Bool) :
    C08.wordBoundaries Ptk.Gen.reSpace d big trailing
      = C02.wordBoundaries Ptk.Gen.reSpace (of08 d) big false trailing :=
  wordBoundaries_08 _ d big trailing (spOkB_gen big)

end Ptk.AgreeDoc
