/-
  Cross-model agreement, cluster "Document queries and motions" (src/prompt_toolkit/document.py).

  Gen module: a decidable side condition on the regenerated `\s` table (`Ptk.Gen.reSpaceRanges`), re-decided
  on every build: `\s` matches no `[a-zA-Z0-9_]` (`SpOk Ptk.Gen.reSpace`).  Until the C08 / C01 models were
  repaired (they tested `\s` before the word class, the regex alternation tests the word class first) this
  was the hypothesis of their word theorems; those theorems are unconditional now, and the fact remains as
  the reason why the old order never showed in a correspondence run.
-/
import Ptk.Props.AgreeDocWords
import Ptk.Gen.PyChars
namespace Ptk.AgreeDoc
open Ptk.Py

/-- side condition on the regenerated `\s` table: no `\s` range meets `[0-9A-Za-z_]` (48..122) -/
theorem gen_reSpace_ranges_ok : ∀ r ∈ Ptk.Gen.reSpaceRanges, r.2 < 48 ∨ 122 < r.1 := by decide

/-- the `\s` class the drivers of C01 / C02 / C08 / C09 instantiate (`Ptk.Gen.reSpace`, regenerated from
    the running interpreter on every run) matches no `[a-zA-Z0-9_]` -/
theorem spOk_gen : SpOk Ptk.Gen.reSpace := by
  intro c hw
  have hr : 48 ≤ c.toNat ∧ c.toNat ≤ 122 := by
    simp only [C02.isWordChar, Bool.or_eq_true, Bool.and_eq_true, decide_eq_true_eq, beq_iff_eq] at hw
    omega
  simp only [Ptk.Gen.reSpace, Ptk.Gen.inRanges]
  rw [Bool.eq_false_iff]
  intro h
  rw [List.any_eq_true] at h
  obtain ⟨r, hr1, hr2⟩ := h
  have := gen_reSpace_ranges_ok r hr1
  simp only [Bool.and_eq_true, decide_eq_true_eq] at hr2
  omega

end Ptk.AgreeDoc
