/-
  C05 — the invariant of the reachable mode-skeleton states (`Ptk.Props.C05Skel`): syntactic
  entailment check for filters, the states in which each handler class can be called, and the
  proof that `_call_handler`, `_process`, `process_keys` keep the invariant.
-/
import Ptk.Props.C05SkelLemmas
namespace Ptk.C05
namespace Skel

/-- the filter entails that one atom of a kind in `good` holds -/
def ent (t : Tbl) (good : Atom → Bool) : F → Bool
  | .atom i => match t.atoms[i]? with | some a => good a | none => false
  | .and x y => ent t good x || ent t good y
  | .or x y => ent t good x && ent t good y
  | _ => false

theorem ent_sound (t : Tbl) (s : Sk) (env : Env) (good : Atom → Bool) (hg : good .env = false) (f : F)
    (h : ent t good f = true) (hf : evalF t s env f = true) : ∃ a, good a = true ∧ evalAtomSk s a = true := by
  induction f with
  | atom i =>
    simp only [ent] at h
    split at h
    · rename_i a ha
      refine ⟨a, h, ?_⟩
      have hne : a ≠ .env := by intro he; rw [he, hg] at h; cases h
      rw [← evalAtom_of_isAtom t s env a i hne (by simp [isAtom, ha])]; exact hf
    · cases h
  | and x y ihx ihy =>
    simp only [ent, Bool.or_eq_true] at h
    simp only [evalF, Bool.and_eq_true] at hf
    rcases h with h | h
    · exact ihx h hf.1
    · exact ihy h hf.2
  | or x y ihx ihy =>
    simp only [ent, Bool.and_eq_true] at h
    simp only [evalF, Bool.or_eq_true] at hf
    rcases hf with hf | hf
    · exact ihx h.1 hf
    · exact ihy h.2 hf
  | tt => simp [ent] at h
  | ff => simp [ent] at h
  | not f _ => simp [ent] at h

/-- what the filter of a binding must guarantee for the handler class bound to it -/
def classReq (t : Tbl) (c : HClass) (f : F) : Bool :=
  match c with
  | .startSel _ | .opNav _ _ => ent t (· == .viNavigationMode) f
  | .digraphStart | .quickNormal => ent t (fun a => a == .viInsertMode || a == .viReplaceMode) f
  | .digraph1 => ent t (· == .viDigraphMode) f
  | .emacsStartSel | .shiftStart => ent t (· == .emacsMode) f
  | .unknown => false
  | _ => true

/-- side condition on the table for the invariant -/
def invOK (t : Tbl) : Bool := t.bindings.all fun b => classReq t (classOf t b.handler) b.filter

/-- the state in which a handler of class `c` can be called -/
def Pre (c : HClass) (s : Sk) : Prop :=
  match c with
  | .startSel _ | .opNav _ _ => viNavigationMode s = true
  | .digraphStart | .quickNormal => viInputMode .insert s = true ∨ viInputMode .replace s = true
  | .digraph1 => s.vi = true ∧ s.dgWait = true
  | .emacsStartSel | .shiftStart => s.vi = false
  | .unknown => False
  | _ => True

theorem pre_of_classReq (t : Tbl) (s : Sk) (env : Env) (c : HClass) (f : F)
    (h : classReq t c f = true) (hf : evalF t s env f = true) : Pre c s := by
  cases c <;> simp only [classReq, Pre] at h ⊢ <;> try trivial
  all_goals first
    | (obtain ⟨a, ha, hv⟩ := ent_sound t s env _ (by decide) f h hf
       simp only [beq_iff_eq, Bool.or_eq_true] at ha
       first
         | (subst ha; simpa [evalAtomSk] using hv)
         | (rcases ha with rfl | rfl
            · exact Or.inl (by simpa [evalAtomSk] using hv)
            · exact Or.inr (by simpa [evalAtomSk] using hv)))
    | cases h

/-- the invariant of the reachable skeleton states -/
structure Inv (s : Sk) : Prop where
  opExcl : s.op.isSome = true → s.dgWait = false ∧ s.curSel = none
  dgExcl : s.dgWait = true → s.curSel = none
  opArg : s.opArg = true → s.op.isSome = true
  dg1 : s.dg1 = true → s.dgWait = true
  emacs : s.vi = false → s.op = none ∧ s.dgWait = false ∧ s.tempNav = false
  sel1 : s.searching = false → s.sel1 = none
  shift0 : ∀ x, s.sel0 = some x → x.shift = true → s.vi = false
  shift1 : ∀ x, s.sel1 = some x → x.shift = true → s.vi = false

/-- `s'` agrees with `s` on the fields the invariant talks about -/
def Core (s s' : Sk) : Prop :=
  s'.vi = s.vi ∧ s'.op = s.op ∧ s'.opArg = s.opArg ∧ s'.dgWait = s.dgWait ∧ s'.dg1 = s.dg1 ∧ s'.sel0 = s.sel0 ∧
  s'.sel1 = s.sel1 ∧ s'.searching = s.searching ∧ s'.tempNav = s.tempNav

theorem Inv.congr {s s' : Sk} (h : Core s s') (hi : Inv s) : Inv s' := by
  obtain ⟨e1, e2, e3, e4, e5, e6, e7, e8, e9⟩ := h
  have hcs : s'.curSel = s.curSel := by simp [Sk.curSel, e6, e7, e8]
  constructor
  · rw [e2, e4, hcs]; exact hi.opExcl
  · rw [e4, hcs]; exact hi.dgExcl
  · rw [e3, e2]; exact hi.opArg
  · rw [e5, e4]; exact hi.dg1
  · rw [e1, e2, e4, e9]; exact hi.emacs
  · rw [e8, e7]; exact hi.sel1
  · rw [e6, e1]; exact hi.shift0
  · rw [e7, e1]; exact hi.shift1

theorem Inv.op_none_of_sel {s : Sk} (hi : Inv s) (x : SelS) (h : s.curSel = some x) :
    s.op = none ∧ s.dgWait = false := by
  constructor
  · cases hop : s.op with
    | none => rfl
    | some v => have := (hi.opExcl (by simp [hop])).2; rw [h] at this; cases this
  · cases hdg : s.dgWait with
    | false => rfl
    | true => have := hi.dgExcl hdg; rw [h] at this; cases this

theorem inv_setMode (s : Sk) (m : InputMode) (hi : Inv s) : Inv (setMode s m) := by
  unfold setMode
  split
  · obtain ⟨h1, h2, h3, h4, h5, h6, h7, h8⟩ := hi
    cases hs : s.searching <;> constructor <;> simp_all [Sk.curSel]
  · exact Inv.congr (s := s) ⟨rfl, rfl, rfl, rfl, rfl, rfl, rfl, rfl, rfl⟩ hi

theorem inv_setCurSel_none (s : Sk) (hi : Inv s) : Inv (s.setCurSel none) := by
  obtain ⟨h1, h2, h3, h4, h5, h6, h7, h8⟩ := hi
  cases hs : s.searching <;> constructor <;> simp_all [Sk.curSel, Sk.setCurSel]

theorem inv_setCurSel_some (s : Sk) (x : SelS) (hi : Inv s) (hop : s.op = none) (hdg : s.dgWait = false)
    (hsh : x.shift = true → s.vi = false) : Inv (s.setCurSel (some x)) := by
  obtain ⟨h1, h2, h3, h4, h5, h6, h7, h8⟩ := hi
  cases hs : s.searching <;> constructor <;> simp_all [Sk.curSel, Sk.setCurSel]

theorem Inv.shift_of_curSel {s : Sk} (hi : Inv s) (x : SelS) (h : s.curSel = some x) :
    x.shift = true → s.vi = false := by
  unfold Sk.curSel at h
  split at h
  · exact hi.shift1 x h
  · exact hi.shift0 x h

/-- changing the type of the current selection -/
theorem inv_retype (s : Sk) (x y : SelS) (hi : Inv s) (h : s.curSel = some x) (hy : y.shift = x.shift) :
    Inv (s.setCurSel (some y)) := by
  have := hi.op_none_of_sel x h
  exact inv_setCurSel_some s y hi this.1 this.2 (by rw [hy]; exact hi.shift_of_curSel x h)

theorem inv_clear0 (s : Sk) (hi : Inv s) : Inv { s with sel0 := none } := by
  obtain ⟨h1, h2, h3, h4, h5, h6, h7, h8⟩ := hi
  cases hs : s.searching <;> constructor <;> simp_all [Sk.curSel]

theorem inv_clear1 (s : Sk) (hi : Inv s) : Inv { s with sel1 := none } := by
  obtain ⟨h1, h2, h3, h4, h5, h6, h7, h8⟩ := hi
  cases hs : s.searching <;> constructor <;> simp_all [Sk.curSel]

theorem inv_applyTc (hd : HData) (s : Sk) (hi : Inv s) : Inv (applyTc hd s) := by
  unfold applyTc
  simp only []
  split <;> split
  · exact inv_clear1 _ (inv_clear0 _ hi)
  · exact inv_clear1 _ hi
  · exact inv_clear0 _ hi
  · exact hi

theorem inv_leaveTempNav (s : Sk) (hi : Inv s) : Inv (leaveTempNav s) := by
  unfold leaveTempNav
  split
  · split
    · obtain ⟨h1, h2, h3, h4, h5, h6, h7, h8⟩ := hi
      cases hs : s.searching <;> constructor <;> simp_all [Sk.curSel]
    · exact hi
  · exact hi

theorem viNav_facts (s : Sk) (h : viNavigationMode s = true) :
    s.vi = true ∧ s.op = none ∧ s.dgWait = false ∧ s.curSel = none := by
  unfold viNavigationMode viGuard at h
  cases hv : s.vi <;> cases ho : s.op <;> cases hd : s.dgWait <;> cases hc : s.curSel <;> simp_all

theorem viInput_facts (m : InputMode) (s : Sk) (h : viInputMode m s = true) :
    s.vi = true ∧ s.op = none ∧ s.dgWait = false ∧ s.curSel = none := by
  unfold viInputMode viGuard at h
  cases hv : s.vi <;> cases ho : s.op <;> cases hd : s.dgWait <;> cases hc : s.curSel <;> simp_all

theorem inv_setOp (s : Sk) (ch b : Bool) (hi : Inv s) (h : viNavigationMode s = true) :
    Inv { s with op := some ch, opArg := b } := by
  obtain ⟨hv, ho, hd, hc⟩ := viNav_facts s h
  obtain ⟨h1, h2, h3, h4, h5, h6, h7, h8⟩ := hi
  cases hs : s.searching <;> constructor <;> simp_all [Sk.curSel]

theorem inv_clearOp (s : Sk) (hi : Inv s) : Inv { s with op := none, opArg := false } := by
  obtain ⟨h1, h2, h3, h4, h5, h6, h7, h8⟩ := hi
  cases hs : s.searching <;> constructor <;> simp_all [Sk.curSel]

theorem inv_dgStart (s : Sk) (hi : Inv s)
    (h : viInputMode .insert s = true ∨ viInputMode .replace s = true) : Inv { s with dgWait := true } := by
  have hf : s.vi = true ∧ s.op = none ∧ s.dgWait = false ∧ s.curSel = none := by
    rcases h with h | h <;> exact viInput_facts _ s h
  obtain ⟨hv, ho, hd, hc⟩ := hf
  obtain ⟨h1, h2, h3, h4, h5, h6, h7, h8⟩ := hi
  cases hs : s.searching <;> constructor <;> simp_all [Sk.curSel]

theorem inv_dg1 (s : Sk) (hi : Inv s) (h : s.dgWait = true) : Inv { s with dg1 := true } := by
  obtain ⟨h1, h2, h3, h4, h5, h6, h7, h8⟩ := hi
  cases hs : s.searching <;> constructor <;> simp_all [Sk.curSel]

theorem inv_dgClear (s : Sk) (hi : Inv s) : Inv { s with dgWait := false, dg1 := false } := by
  obtain ⟨h1, h2, h3, h4, h5, h6, h7, h8⟩ := hi
  cases hs : s.searching <;> constructor <;> simp_all [Sk.curSel]

theorem inv_tempNav (s : Sk) (hi : Inv s) (h : s.vi = true) : Inv { s with tempNav := true } := by
  obtain ⟨h1, h2, h3, h4, h5, h6, h7, h8⟩ := hi
  cases hs : s.searching <;> constructor <;> simp_all [Sk.curSel]

theorem inv_searchOn (s : Sk) (hi : Inv s) (h : s.searching = false) : Inv { s with searching := true } := by
  obtain ⟨h1, h2, h3, h4, h5, h6, h7, h8⟩ := hi
  constructor <;> simp_all [Sk.curSel]

theorem inv_searchOff (s : Sk) (hi : Inv s) :
    Inv (setMode { s with searching := false, sel1 := none } .navigation) := by
  obtain ⟨h1, h2, h3, h4, h5, h6, h7, h8⟩ := hi
  constructor <;> simp_all [Sk.curSel, setMode]

theorem inv_stopSearch (s : Sk) (hi : Inv s) : Inv (stopSearch s) := by
  unfold stopSearch
  split
  · exact inv_searchOff s hi
  · exact hi

/-- the handler body keeps the invariant -/
theorem effect_inv (c : HClass) (keys : List KeyP) (argOld : Option Bool) (hd : HData) (enter : Key) (s : Sk)
    (hpre : Pre c s) (hi : Inv s) : Inv (effect c keys argOld hd enter s) := by
  cases c <;> simp only [effect]
  case plain => exact hi
  case unknown => exact hi
  case feedsKeys => exact hi
  case backToNav => exact inv_setCurSel_none _ (inv_setMode _ _ hi)
  case setMode m => exact inv_setMode _ _ hi
  case editThenMode m => split; exact hi; exact inv_setMode _ _ hi
  case blockInsert => exact inv_setCurSel_none _ (inv_setMode _ _ hi)
  case startSel t =>
    obtain ⟨_, ho, hdg, _⟩ := viNav_facts s hpre
    exact inv_setCurSel_some s _ hi ho hdg (by simp)
  case toggleSel t =>
    split
    · rename_i x hx
      split
      · exact inv_retype s x _ hi hx rfl
      · exact inv_setCurSel_none _ hi
    · exact hi
  case visualAutoWord =>
    split
    · rename_i x hx
      split
      · exact inv_retype s x _ hi hx rfl
      · exact hi
    · exact hi
  case cutSel => split; exact hi; exact inv_setCurSel_none _ hi
  case copySel => exact inv_setCurSel_none _ hi
  case exitSel => exact inv_setCurSel_none _ hi
  case opNav ch wr => exact inv_setOp s _ _ hi hpre
  case opSel ch wr =>
    split
    · split
      · split
        · exact hi
        · apply inv_setCurSel_none
          split
          · exact inv_setMode _ _ hi
          · exact hi
      · exact inv_setCurSel_none _ hi
    · exact hi
  case applyOp =>
    split
    · exact hi
    · apply inv_clearOp
      split
      · exact inv_setMode _ _ hi
      · exact hi
  case moveSel =>
    split
    · rename_i x hx
      split
      · exact inv_retype s x _ hi hx rfl
      · exact hi
    · exact hi
  case digraphStart => exact inv_dgStart s hi hpre
  case digraph1 => exact inv_dg1 s hi hpre.2
  case digraph2 => exact inv_dgClear s hi
  case quickNormal =>
    have hv : s.vi = true := by rcases hpre with h | h <;> exact (viInput_facts _ s h).1
    exact inv_tempNav s hi hv
  case startMacro =>
    split
    · split
      · exact Inv.congr (s := s) ⟨rfl, rfl, rfl, rfl, rfl, rfl, rfl, rfl, rfl⟩ hi
      · split
        · exact Inv.congr (s := s) ⟨rfl, rfl, rfl, rfl, rfl, rfl, rfl, rfl, rfl⟩ hi
        · exact hi
    · exact hi
  case stopMacro =>
    split
    · exact Inv.congr (s := s) ⟨rfl, rfl, rfl, rfl, rfl, rfl, rfl, rfl, rfl⟩ hi
    · exact hi
  case argDigit => exact Inv.congr (s := s) ⟨rfl, rfl, rfl, rfl, rfl, rfl, rfl, rfl, rfl⟩ hi
  case metaDash =>
    split
    · exact Inv.congr (s := s) ⟨rfl, rfl, rfl, rfl, rfl, rfl, rfl, rfl, rfl⟩ hi
    · exact hi
  case dash => exact Inv.congr (s := s) ⟨rfl, rfl, rfl, rfl, rfl, rfl, rfl, rfl, rfl⟩ hi
  case quotedInsert => exact Inv.congr (s := s) ⟨rfl, rfl, rfl, rfl, rfl, rfl, rfl, rfl, rfl⟩ hi
  case quotedText =>
    split
    · exact hi
    · exact Inv.congr (s := s) ⟨rfl, rfl, rfl, rfl, rfl, rfl, rfl, rfl, rfl⟩ hi
  case startSearch =>
    split
    · exact hi
    · rename_i hs
      exact inv_setMode _ _ (inv_searchOn s hi (by simpa using hs))
  case stopSearch => exact inv_stopSearch s hi
  case acceptSearch => exact inv_stopSearch s hi
  case feedEnter => exact Inv.congr (s := s) ⟨rfl, rfl, rfl, rfl, rfl, rfl, rfl, rfl, rfl⟩ hi
  case emacsStartSel =>
    split
    · exact hi
    · have := hi.emacs hpre
      exact inv_setCurSel_some s _ hi this.1 this.2.1 (by simp)
  case shiftStart =>
    have := hi.emacs hpre
    split
    · exact hi
    · split
      · exact inv_setCurSel_some s _ hi this.1 this.2.1 (fun _ => hpre)
      · exact inv_setCurSel_none _ hi
  case shiftExtend =>
    split
    · split
      · exact inv_setCurSel_none _ hi
      · exact hi
    · exact hi
  case shiftCancel =>
    split
    · exact Inv.congr (s := s.setCurSel none) ⟨rfl, rfl, rfl, rfl, rfl, rfl, rfl, rfl, rfl⟩ (inv_setCurSel_none _ hi)
    · exact inv_setCurSel_none _ hi
  case emacsRecStart => exact Inv.congr (s := s) ⟨rfl, rfl, rfl, rfl, rfl, rfl, rfl, rfl, rfl⟩ hi
  case emacsRecEnd => exact Inv.congr (s := s) ⟨rfl, rfl, rfl, rfl, rfl, rfl, rfl, rfl, rfl⟩ hi

theorem pre_arg (c : HClass) (s : Sk) (a : Option Bool) (h : Pre c s) : Pre c { s with arg := a } := by
  cases c <;> (first | exact h | (simp only [Pre, viNavigationMode, viInputMode, viGuard, Sk.curSel, Sk.curRo] at h ⊢; exact h))

/-- `_call_handler` keeps the invariant -/
theorem callHandler_inv (c : HClass) (keys : List KeyP) (hd : HData) (enter : Key) (s : Sk)
    (hpre : Pre c s) (hi : Inv s) : Inv (callHandler c keys hd enter s) := by
  unfold callHandler
  simp only []
  have h1 : Inv { s with arg := none } := Inv.congr (s := s) ⟨rfl, rfl, rfl, rfl, rfl, rfl, rfl, rfl, rfl⟩ hi
  have h2 := effect_inv c keys s.arg hd enter _ (pre_arg c s none hpre) h1
  have h3 : Inv (if c.editsText = true then applyTc hd (effect c keys s.arg hd enter { s with arg := none })
                 else effect c keys s.arg hd enter { s with arg := none }) := by
    split
    · exact inv_applyTc _ _ h2
    · exact h2
  generalize (if c.editsText = true then applyTc hd (effect c keys s.arg hd enter { s with arg := none })
              else effect c keys s.arg hd enter { s with arg := none }) = s2 at h3 ⊢
  have h4 : Inv { s2 with done := s2.done || (c.mayFinish && hd.done) } :=
    Inv.congr (s := s2) ⟨rfl, rfl, rfl, rfl, rfl, rfl, rfl, rfl, rfl⟩ h3
  split
  · exact inv_leaveTempNav _ h4
  · exact h4

/-- a binding found by `_get_matches` in state `r.s` is called in a state that satisfies its class
    requirement -/
theorem callBinding_inv (t : Tbl) (hok : invOK t = true) (ki : KeyIn) (b : Binding) (keys : List KeyP) (r : Run)
    (env : Env) (hb : b ∈ t.bindings) (hf : evalF t r.s env b.filter = true) (hi : Inv r.s) :
    Inv (callBinding t ki b keys r).s := by
  unfold invOK at hok
  rw [List.all_eq_true] at hok
  have hpre := pre_of_classReq t r.s env _ _ (hok b hb) hf
  exact callHandler_inv _ _ _ _ _ hpre hi

theorem inv_keyBuf (s : Sk) (kb : List KeyP) (hi : Inv s) : Inv { s with keyBuf := kb } :=
  Inv.congr (s := s) ⟨rfl, rfl, rfl, rfl, rfl, rfl, rfl, rfl, rfl⟩ hi

theorem inv_queue (s : Sk) (q : List KeyP) (hi : Inv s) : Inv { s with queue := q } :=
  Inv.congr (s := s) ⟨rfl, rfl, rfl, rfl, rfl, rfl, rfl, rfl, rfl⟩ hi

theorem mem_getMatches (t : Tbl) (s : Sk) (env : Env) (keys : List Key) (b : Binding)
    (h : b ∈ getMatches t s env keys) : b ∈ t.bindings ∧ evalF t s env b.filter = true := by
  unfold getMatches at h
  rw [List.mem_filter, mem_sortByAny, List.mem_filter] at h
  exact ⟨h.1.1, h.2⟩

theorem retryShift_inv (t : Tbl) (hok : invOK t = true) (ki : KeyIn) (r : Run) (buf : List KeyP) (hi : Inv r.s) :
    ∀ i, Inv (retryShift t ki r buf i).s := by
  intro i
  induction i with
  | zero => exact inv_keyBuf _ _ hi
  | succ i ih =>
    rw [retryShift]
    simp only []
    split
    · rename_i b hb
      have := mem_getMatches t r.s _ _ b (List.mem_of_getLast? hb)
      exact inv_keyBuf _ _ (callBinding_inv t hok ki b _ r _ this.1 this.2 hi)
    · exact ih

theorem mem_selectMatches (t : Tbl) (s : Sk) (env : Env) (keys : List Key) (flush : Bool) (b : Binding)
    (h : b ∈ (selectMatches t s env keys flush).1) : b ∈ getMatches t s env keys := by
  unfold selectMatches at h
  simp only [] at h
  split at h
  · exact h
  · exact (List.mem_filter.1 h).1

theorem processLoop_inv (t : Tbl) (hok : invOK t = true) (ki : KeyIn) :
    ∀ (fuel : Nat) (r : Run) (flush : Bool), Inv r.s → Inv (processLoop t ki fuel r flush).s := by
  intro fuel
  induction fuel with
  | zero => intro r flush hi; exact hi
  | succ fuel ih =>
    intro r flush hi
    rw [processLoop]
    simp only []
    generalize hsel : selectMatches t r.s (ki.envAt r.calls.length) (r.s.keyBuf.map (·.key)) flush = sel
    split
    · exact hi
    · split
      · exact hi
      · split
        · rename_i b hb
          have hm : b ∈ getMatches t r.s (ki.envAt r.calls.length) (r.s.keyBuf.map (·.key)) := by
            apply mem_selectMatches t r.s _ _ flush b
            rw [hsel]; exact List.mem_of_getLast? hb
          have := mem_getMatches t r.s _ _ b hm
          exact inv_keyBuf _ _ (callBinding_inv t hok ki b _ r _ this.1 this.2 hi)
        · have h1 := retryShift_inv t hok ki r r.s.keyBuf hi r.s.keyBuf.length
          split
          · exact Inv.congr (s := (retryShift t ki r r.s.keyBuf r.s.keyBuf.length).s)
              ⟨rfl, rfl, rfl, rfl, rfl, rfl, rfl, rfl, rfl⟩ h1
          · exact ih _ _ h1

theorem processKey_inv (t : Tbl) (hok : invOK t = true) (ki : KeyIn) (r : Run) (k : KeyP) (hi : Inv r.s) :
    Inv (processKey t ki r k).s := by
  unfold processKey
  split
  · exact processLoop_inv t hok ki _ _ _ hi
  · exact processLoop_inv t hok ki _ _ _ (inv_keyBuf _ _ hi)

theorem processQueue_inv (t : Tbl) (hok : invOK t = true) (ki : KeyIn) :
    ∀ (n : Nat) (r : Run), Inv r.s → Inv (processQueue t ki n r).s := by
  intro n
  induction n with
  | zero => intro r hi; exact hi
  | succ n ih =>
    intro r hi
    rw [processQueue]
    split
    · exact hi
    · split
      · exact hi
      · exact ih _ (processKey_inv t hok ki _ _ (inv_queue _ _ hi))

/-- one `feed` + `process_keys` keeps the invariant, whatever the key and the data -/
theorem feed_inv (t : Tbl) (hok : invOK t = true) (s : Sk) (ki : KeyIn) (hi : Inv s) : Inv (feed t s ki).s := by
  unfold feed
  exact processQueue_inv t hok ki _ _ (inv_queue _ _ hi)

theorem init_inv (vi ro : Bool) : Inv (Sk.init vi ro) := by
  constructor <;> simp [Sk.init, Sk.curSel]

/-- the skeleton after a sequence of keys -/
def run (t : Tbl) (s : Sk) : List KeyIn → Sk
  | [] => s
  | ki :: rest => run t (feed t s ki).s rest

theorem run_inv (t : Tbl) (hok : invOK t = true) (kis : List KeyIn) : ∀ s, Inv s → Inv (run t s kis) := by
  induction kis with
  | nil => intro s hi; exact hi
  | cons ki rest ih => intro s hi; exact ih _ (feed_inv t hok s ki hi)

theorem gen_inv_ok : invOK genTbl = true := by decide +kernel

end Skel
end Ptk.C05
namespace Ptk.C05
namespace Skel

/-- the exact result of feeding Escape (used for idempotence) -/
theorem feed_escape_eq (t : Tbl) (esc : Key) (hok : escOK t esc = true) (s : Sk) (ki : KeyIn)
    (hkey : ki.key.key = esc) (hfl : ki.flush = false) (hvi : s.vi = true) (hq : s.quoted = false)
    (hbuf : s.keyBuf = []) (hqueue : s.queue = []) (hdone : s.done = false) :
    ∃ c hd h, (c = .backToNav ∨ ((c = .acceptSearch ∨ c = .stopSearch) ∧ s.searching = true)) ∧
      feed t s ki = { s := { callHandler c [ki.key] hd t.enterKey { s with queue := [], keyBuf := [ki.key] } with
                             keyBuf := [] }, calls := [h] } := by
  have hne : esc ≠ flushKey := (escOK_parts t esc hok).2.2.2.2.2
  have hkf : ki.key.key ≠ flushKey := by rw [hkey]; exact hne
  obtain ⟨b, hloop, hcls⟩ := processLoop_escape t esc hok ki ((s.keyBuf ++ [ki.key]).length)
    { s := { s with queue := [], keyBuf := s.keyBuf ++ [ki.key] }, calls := [] } ki.key hkey (by simp [hbuf]) hvi hq
  have hcall := callHandler_escape (classOf t b.handler) [ki.key] (ki.hdAt 0) t.enterKey
    { s with queue := [], keyBuf := s.keyBuf ++ [ki.key] } hcls
  refine ⟨classOf t b.handler, ki.hdAt 0, b.handler, hcls, ?_⟩
  unfold feed
  simp only [hfl, queueFuel, Bool.false_eq_true, if_false]
  rw [processQueue_cons t ki 11 _ ki.key [] (by simpa using hdone) (by simp [hqueue])]
  rw [processKey_key t ki _ ki.key hkf]
  simp only []
  rw [hloop]
  rw [processQueue_nil]
  · simp only [callBinding, List.length_nil, List.nil_append, hbuf]
  · simp only [callBinding, List.length_nil]
    exact hcall.2.2.1

theorem backToNav_keeps (keys : List KeyP) (hd : HData) (enter : Key) (s : Sk) :
    (callHandler .backToNav keys hd enter s).done = s.done ∧
    (callHandler .backToNav keys hd enter s).searching = s.searching ∧
    (callHandler .backToNav keys hd enter s).curSel = none := by
  obtain ⟨vi, ro, mode, tempNav, op, opArg, dgWait, dg1, sel0, sel1, searching, quoted, recording, emacsRec, arg,
    keyBuf, queue, done⟩ := s
  cases searching <;> cases tempNav <;> cases vi <;>
    simp_all [callHandler, effect, setMode, leaveTempNav, Sk.setCurSel, Sk.curSel, HClass.editsText, HClass.mayFinish]

/-- `_back_to_navigation` changes nothing in a state that is already clean -/
theorem backToNav_stable (keys kb : List KeyP) (hd : HData) (enter : Key) (s : Sk)
    (hn : NavClean s) (hsel : s.curSel = none) (harg : s.arg = none) (htn : s.tempNav = false)
    (hq : s.queue = []) (hkb : s.keyBuf = []) :
    ({ callHandler .backToNav keys hd enter { s with queue := [], keyBuf := kb } with keyBuf := [] } : Sk) = s := by
  obtain ⟨vi, ro, mode, tempNav, op, opArg, dgWait, dg1, sel0, sel1, searching, quoted, recording, emacsRec, arg,
    keyBuf, queue, done⟩ := s
  obtain ⟨h1, h2, h3, h4, h5⟩ := hn
  cases searching <;>
    simp_all [callHandler, effect, setMode, Sk.setCurSel, Sk.curSel, HClass.editsText, HClass.mayFinish]

/-- **Escape is idempotent** (outside a search): a second Escape changes nothing. -/
theorem feed_escape_idem (t : Tbl) (esc : Key) (hok : escOK t esc = true) (s : Sk) (ki ki' : KeyIn)
    (hkey : ki.key.key = esc) (hfl : ki.flush = false) (hkey' : ki'.key.key = esc) (hfl' : ki'.flush = false)
    (hvi : s.vi = true) (hq : s.quoted = false) (hbuf : s.keyBuf = []) (hqueue : s.queue = [])
    (hdone : s.done = false) (hns : s.searching = false) :
    (feed t (feed t s ki).s ki').s = (feed t s ki).s := by
  obtain ⟨c, hd, h, hc, he⟩ := feed_escape_eq t esc hok s ki hkey hfl hvi hq hbuf hqueue hdone
  have hc' : c = .backToNav := by
    rcases hc with hc | ⟨_, hs⟩
    · exact hc
    · rw [hns] at hs; cases hs
  subst hc'
  have hp := feed_escape t esc hok s ki hkey hfl hvi hq hbuf hqueue hdone
  have hk := backToNav_keeps [ki.key] hd t.enterKey { s with queue := [], keyBuf := [ki.key] }
  have hd1 : (feed t s ki).s.done = false := by rw [he]; exact hk.1.trans hdone
  have hs1 : (feed t s ki).s.searching = false := by rw [he]; exact hk.2.1.trans hns
  have hc1 : (feed t s ki).s.curSel = none := by rw [he]; exact hk.2.2
  obtain ⟨c2, hd2, h2, hc2, he2⟩ := feed_escape_eq t esc hok (feed t s ki).s ki' hkey' hfl'
    hp.2.2.2.2.2.2.1 hp.2.2.2.2.2.1 hp.2.1 hp.2.2.1 hd1
  have hc2' : c2 = .backToNav := by
    rcases hc2 with hc | ⟨_, hs⟩
    · exact hc
    · rw [hs1] at hs; cases hs
  subst hc2'
  rw [he2]
  exact backToNav_stable _ _ _ _ _ hp.1 hc1 hp.2.2.2.2.1 hp.2.2.2.1 hp.2.2.1 hp.2.1

/-- the eight Vi mode filters of filters/app.py -/
def viFilters (s : Sk) : List Bool :=
  [viNavigationMode s, viInputMode .insert s, viInputMode .insertMultiple s, viInputMode .replace s,
   viInputMode .replaceSingle s, evalAtomSk s .viSelectionMode, evalAtomSk s .viWaitingForTextObjectMode,
   evalAtomSk s .viDigraphMode]

theorem viFilters_partition (s : Sk) (hi : Inv s) (hv : s.vi = true) : (viFilters s).count true = 1 := by
  obtain ⟨h1, h2, h3, h4, h5, h6, h7, h8⟩ := hi
  cases ho : s.op <;> cases hd : s.dgWait <;> cases hc : s.curSel <;> cases hm : s.mode <;>
    cases ht : s.tempNav <;> cases hr : s.curRo <;>
    simp_all [viFilters, viNavigationMode, viInputMode, viGuard, evalAtomSk]

/-- `_leave_vi_temp_navigation_mode`: temporary navigation mode ends, unless an operator or a count
    is pending (then nothing changes) -/
theorem leaveTempNav_spec (s : Sk) (hv : s.vi = true) :
    (leaveTempNav s).tempNav = false ∨ ((s.op.isSome = true ∨ s.arg.isSome = true) ∧ leaveTempNav s = s) := by
  unfold leaveTempNav
  cases ho : s.op <;> cases ha : s.arg <;> simp [hv]

end Skel
end Ptk.C05
namespace Ptk.C05
namespace Skel

/-- side conditions for the quoted insert: `_insert_text` is bound eagerly to `<any>` whenever a quoted
    insert is on, and no other binding that can be active in Vi mode is eager -/
def quotedOK (t : Tbl) : Bool :=
  (t.bindings.any fun b => b.keys == [t.anyKey] && b.eager == .tt && classOf t b.handler == .quotedText &&
      conjOnly t (fun a => a == .bufferHasFocus || a == .inQuotedInsert) b.filter) &&
  (t.bindings.all fun b => b.eager == .ff || conjHas t .emacsMode b.filter ||
      (b.keys == [t.anyKey] && classOf t b.handler == .quotedText))

theorem keysMatch_any (ak k : Key) : keysMatch ak [ak] [k] = true := by simp [keysMatch, keyOk]

theorem callHandler_quotedText (keys : List KeyP) (hd : HData) (enter : Key) (x : Sk) (hx : x.queue = []) :
    (callHandler .quotedText keys hd enter x).queue = [] ∧
    (callHandler .quotedText keys hd enter x).mode = x.mode ∧
    (callHandler .quotedText keys hd enter x).op = x.op ∧
    (callHandler .quotedText keys hd enter x).dgWait = x.dgWait ∧
    (hd.roRaised = false → (callHandler .quotedText keys hd enter x).quoted = false) := by
  obtain ⟨vi, ro, mode, tempNav, op, opArg, dgWait, dg1, sel0, sel1, searching, quoted, recording, emacsRec, arg,
    keyBuf, queue, done⟩ := x
  obtain ⟨tc0, tc1, roRaised, anchorWritten, hdone, moved, atAnchor, textEmpty⟩ := hd
  cases tc0 <;> cases tc1 <;> cases roRaised <;> cases tempNav <;> cases vi <;> cases op <;>
    simp_all [callHandler, effect, applyTc, leaveTempNav, HClass.editsText, HClass.mayFinish]

/-- **Quoted insert takes exactly the next key**: in Vi mode with `quoted_insert` on and nothing pending,
    whatever key comes next (Escape included) is handed to `_insert_text` — one handler call — and the
    quoted insert is over (unless the buffer refused the edit). -/
theorem feed_quoted (t : Tbl) (hok : quotedOK t = true) (s : Sk) (ki : KeyIn)
    (hfl : ki.flush = false) (hkf : ki.key.key ≠ flushKey) (hvi : s.vi = true) (hq : s.quoted = true)
    (hbuf : s.keyBuf = []) (hqueue : s.queue = []) (hdone : s.done = false) :
    ∃ h, (feed t s ki).calls = [h] ∧ classOf t h = .quotedText ∧ (feed t s ki).s.keyBuf = [] ∧
      (feed t s ki).s.mode = s.mode ∧ (feed t s ki).s.op = s.op ∧ (feed t s ki).s.dgWait = s.dgWait ∧
      ((ki.hdAt 0).roRaised = false → (feed t s ki).s.quoted = false) := by
  simp only [quotedOK, Bool.and_eq_true, List.any_eq_true, List.all_eq_true, Bool.or_eq_true, beq_iff_eq] at hok
  obtain ⟨⟨b0, hb0, ⟨⟨⟨hk0, he0⟩, hc0⟩, hf0⟩⟩, hall⟩ := hok
  generalize hr1 : ({ s := { s with queue := [], keyBuf := s.keyBuf ++ [ki.key] }, calls := [] } : Run) = r1
  have hr1s : r1.s.keyBuf = [ki.key] ∧ r1.s.vi = true ∧ r1.s.quoted = true ∧ r1.s.queue = [] ∧ r1.calls = [] ∧
      r1.s.mode = s.mode ∧ r1.s.op = s.op ∧ r1.s.dgWait = s.dgWait := by
    subst hr1; simp [hbuf, hvi, hq]
  have hkeys : r1.s.keyBuf.map (·.key) = [ki.key.key] := by simp [hr1s.1]
  have hemacs : evalAtomSk r1.s .emacsMode = false := by simp [evalAtomSk, hr1s.2.1]
  -- the quoted-insert binding matches and is eager
  have hev0 : evalF t r1.s (ki.envAt r1.calls.length) b0.filter = true := by
    apply conjOnly_sound t r1.s _ _ _ b0.filter hf0
    intro a ha
    simp only [Bool.or_eq_true, beq_iff_eq] at ha
    rcases ha with rfl | rfl
    · exact ⟨by decide, by simp [evalAtomSk]⟩
    · exact ⟨by decide, by simp [evalAtomSk, hr1s.2.2.1]⟩
  have hm0 : b0 ∈ getMatches t r1.s (ki.envAt r1.calls.length) [ki.key.key] := by
    unfold getMatches
    rw [List.mem_filter, mem_sortByAny, List.mem_filter]
    exact ⟨⟨hb0, by rw [hk0]; exact keysMatch_any _ _⟩, hev0⟩
  have heg0 : b0 ∈ (getMatches t r1.s (ki.envAt r1.calls.length) [ki.key.key]).filter
      (fun b => evalF t r1.s (ki.envAt r1.calls.length) b.eager) := by
    rw [List.mem_filter]; exact ⟨hm0, by rw [he0]; rfl⟩
  -- so `_process` works with the eager matches only
  have hsel : selectMatches t r1.s (ki.envAt r1.calls.length) [ki.key.key] false =
      ((getMatches t r1.s (ki.envAt r1.calls.length) [ki.key.key]).filter
        (fun b => evalF t r1.s (ki.envAt r1.calls.length) b.eager), false) := by
    unfold selectMatches
    simp only []
    have : ((getMatches t r1.s (ki.envAt r1.calls.length) [ki.key.key]).filter
        (fun b => evalF t r1.s (ki.envAt r1.calls.length) b.eager)).isEmpty = false := by
      cases hl : (getMatches t r1.s (ki.envAt r1.calls.length) [ki.key.key]).filter
        (fun b => evalF t r1.s (ki.envAt r1.calls.length) b.eager) with
      | nil => rw [hl] at heg0; cases heg0
      | cons x xs => rfl
    rw [this]; rfl
  obtain ⟨b, hlast⟩ : ∃ b, ((getMatches t r1.s (ki.envAt r1.calls.length) [ki.key.key]).filter
      (fun b => evalF t r1.s (ki.envAt r1.calls.length) b.eager)).getLast? = some b := by
    cases hl : ((getMatches t r1.s (ki.envAt r1.calls.length) [ki.key.key]).filter
      (fun b => evalF t r1.s (ki.envAt r1.calls.length) b.eager)).getLast? with
    | some b => exact ⟨b, rfl⟩
    | none => rw [List.getLast?_eq_none_iff] at hl; rw [hl] at heg0; cases heg0
  have hbm := List.mem_filter.1 (List.mem_of_getLast? hlast)
  have hbg := mem_getMatches t r1.s _ _ b hbm.1
  have hcls : classOf t b.handler = .quotedText := by
    rcases hall b hbg.1 with (h | h) | h
    · rw [h] at hbm; simp [evalF] at hbm
    · have := conjHas_sound t r1.s _ .emacsMode (by decide) b.filter h hbg.2
      rw [hemacs] at this; cases this
    · exact h.2
  have hloop : processLoop t ki ((s.keyBuf ++ [ki.key]).length + 1) r1 false =
      { (callBinding t ki b [ki.key] r1) with s := { (callBinding t ki b [ki.key] r1).s with keyBuf := [] } } := by
    rw [processLoop]
    simp only [hr1s.1, List.isEmpty_cons, Bool.false_eq_true, if_false, List.map_cons, List.map_nil]
    rw [hsel]
    simp only [Bool.false_eq_true, if_false]
    rw [hlast]
  have hc := callHandler_quotedText [ki.key] (ki.hdAt 0) t.enterKey r1.s hr1s.2.2.2.1
  have hfeed : feed t s ki =
      { (callBinding t ki b [ki.key] r1) with s := { (callBinding t ki b [ki.key] r1).s with keyBuf := [] } } := by
    unfold feed
    simp only [hfl, queueFuel, Bool.false_eq_true, if_false]
    rw [processQueue_cons t ki 11 _ ki.key [] (by simpa using hdone) (by simp [hqueue])]
    rw [processKey_key t ki _ ki.key hkf]
    simp only []
    rw [hr1, hloop]
    apply processQueue_nil
    simp only [callBinding, hcls, hr1s.2.2.2.2.1, List.length_nil]
    exact hc.1
  refine ⟨b.handler, ?_, hcls, ?_, ?_, ?_, ?_, ?_⟩
  · rw [hfeed]; simp [callBinding, hr1s.2.2.2.2.1]
  · rw [hfeed]
  · rw [hfeed]; simp only [callBinding, hcls, hr1s.2.2.2.2.1, List.length_nil]; exact hc.2.1.trans hr1s.2.2.2.2.2.1
  · rw [hfeed]; simp only [callBinding, hcls, hr1s.2.2.2.2.1, List.length_nil]; exact hc.2.2.1.trans hr1s.2.2.2.2.2.2.1
  · rw [hfeed]; simp only [callBinding, hcls, hr1s.2.2.2.2.1, List.length_nil]; exact hc.2.2.2.1.trans hr1s.2.2.2.2.2.2.2
  · intro hro; rw [hfeed]; simp only [callBinding, hcls, hr1s.2.2.2.2.1, List.length_nil]; exact hc.2.2.2.2 hro

theorem gen_quoted_ok : quotedOK genTbl = true := by decide +kernel

end Skel
end Ptk.C05
namespace Ptk.C05
namespace Skel

@[simp] theorem setMode_arg (s : Sk) (m : InputMode) : (setMode s m).arg = s.arg := by
  unfold setMode; split <;> rfl
@[simp] theorem setCurSel_arg (s : Sk) (v : Option SelS) : (s.setCurSel v).arg = s.arg := by
  unfold Sk.setCurSel; split <;> rfl
@[simp] theorem stopSearch_arg (s : Sk) : (stopSearch s).arg = s.arg := by
  unfold stopSearch; split <;> simp
@[simp] theorem applyTc_arg (hd : HData) (s : Sk) : (applyTc hd s).arg = s.arg := by
  unfold applyTc; simp only []; split <;> split <;> rfl
@[simp] theorem leaveTempNav_arg (s : Sk) : (leaveTempNav s).arg = s.arg := by
  unfold leaveTempNav; split <;> (try split) <;> rfl

theorem effect_arg (c : HClass) (keys : List KeyP) (argOld : Option Bool) (hd : HData) (enter : Key) (s : Sk)
    (hc : c ≠ .argDigit ∧ c ≠ .metaDash ∧ c ≠ .dash) : (effect c keys argOld hd enter s).arg = s.arg := by
  cases c <;> simp only [effect] <;> (try simp at hc) <;> (repeat' split) <;> simp

/-- **The repeat argument lasts for exactly one command**: after `_call_handler` of any handler other
    than the digit / minus handlers, `key_processor.arg` is `None`. -/
theorem arg_cleared (c : HClass) (keys : List KeyP) (hd : HData) (enter : Key) (s : Sk)
    (hc : c ≠ .argDigit ∧ c ≠ .metaDash ∧ c ≠ .dash) : (callHandler c keys hd enter s).arg = none := by
  unfold callHandler
  simp only []
  split <;> (try simp only [leaveTempNav_arg]) <;> split <;> simp [effect_arg c _ _ _ _ _ hc]

/-- **Keys that arrive after the application is done are not executed** (they stay in the input queue as
    typeahead): no handler is called and the skeleton does not change. -/
theorem feed_done (t : Tbl) (s : Sk) (ki : KeyIn) (hd : s.done = true) :
    (feed t s ki).calls = [] ∧ (feed t s ki).s = { s with queue := s.queue ++ [if ki.flush then ⟨flushKey, 0⟩ else ki.key] } := by
  unfold feed
  simp only [queueFuel]
  rw [processQueue]
  simp [hd]

end Skel
end Ptk.C05

namespace Ptk.C05
namespace Skel

/-- `_process` when some binding that accepts the one buffered key is EAGER: only the eager matches
    count, nothing longer is waited for, the last eager match is called. -/
theorem processLoop_eager (t : Tbl) (ki : KeyIn) (fuel : Nat) (r : Run) (k : KeyP) (hbuf : r.s.keyBuf = [k])
    (b0 : Binding) (hb0 : b0 ∈ t.bindings) (hk0 : keysMatch t.anyKey b0.keys [k.key] = true)
    (hf0 : evalF t r.s (ki.envAt r.calls.length) b0.filter = true)
    (he0 : evalF t r.s (ki.envAt r.calls.length) b0.eager = true) :
    ∃ b, b ∈ t.bindings ∧ keysMatch t.anyKey b.keys [k.key] = true ∧
      evalF t r.s (ki.envAt r.calls.length) b.filter = true ∧
      evalF t r.s (ki.envAt r.calls.length) b.eager = true ∧
      processLoop t ki (fuel + 1) r false =
        { (callBinding t ki b [k] r) with s := { (callBinding t ki b [k] r).s with keyBuf := [] } } := by
  have hm0 : b0 ∈ getMatches t r.s (ki.envAt r.calls.length) [k.key] := by
    unfold getMatches
    rw [List.mem_filter, mem_sortByAny, List.mem_filter]
    exact ⟨⟨hb0, hk0⟩, hf0⟩
  have heg0 : b0 ∈ (getMatches t r.s (ki.envAt r.calls.length) [k.key]).filter
      (fun b => evalF t r.s (ki.envAt r.calls.length) b.eager) := by
    rw [List.mem_filter]; exact ⟨hm0, he0⟩
  have hsel : selectMatches t r.s (ki.envAt r.calls.length) [k.key] false =
      ((getMatches t r.s (ki.envAt r.calls.length) [k.key]).filter
        (fun b => evalF t r.s (ki.envAt r.calls.length) b.eager), false) := by
    unfold selectMatches
    simp only []
    have : ((getMatches t r.s (ki.envAt r.calls.length) [k.key]).filter
        (fun b => evalF t r.s (ki.envAt r.calls.length) b.eager)).isEmpty = false := by
      cases hl : (getMatches t r.s (ki.envAt r.calls.length) [k.key]).filter
        (fun b => evalF t r.s (ki.envAt r.calls.length) b.eager) with
      | nil => rw [hl] at heg0; cases heg0
      | cons x xs => rfl
    rw [this]; rfl
  obtain ⟨b, hlast⟩ : ∃ b, ((getMatches t r.s (ki.envAt r.calls.length) [k.key]).filter
      (fun b => evalF t r.s (ki.envAt r.calls.length) b.eager)).getLast? = some b := by
    cases hl : ((getMatches t r.s (ki.envAt r.calls.length) [k.key]).filter
      (fun b => evalF t r.s (ki.envAt r.calls.length) b.eager)).getLast? with
    | some b => exact ⟨b, rfl⟩
    | none => rw [List.getLast?_eq_none_iff] at hl; rw [hl] at heg0; cases heg0
  have hbm := List.mem_filter.1 (List.mem_of_getLast? hlast)
  have hbg := mem_getMatches t r.s _ _ b hbm.1
  have hkm : keysMatch t.anyKey b.keys [k.key] = true := by
    have := hbm.1
    unfold getMatches at this
    rw [List.mem_filter, mem_sortByAny, List.mem_filter] at this
    exact this.1.2
  refine ⟨b, hbg.1, hkm, hbg.2, hbm.2, ?_⟩
  rw [processLoop]
  simp only [hbuf, List.isEmpty_cons, Bool.false_eq_true, if_false, List.map_cons, List.map_nil]
  rw [hsel]
  simp only [Bool.false_eq_true, if_false]
  rw [hlast]

/-- side conditions: in Emacs mode, while searching, Escape is bound eagerly to `accept_search`, and
    every other eager binding that accepts Escape is Vi-only or belongs to the quoted insert -/
def emacsEscOK (t : Tbl) (esc : Key) : Bool :=
  (t.bindings.any fun b => b.keys == [esc] && b.eager == .tt && classOf t b.handler == .acceptSearch &&
      conjOnly t (fun a => a == .bufferHasFocus || a == .emacsMode || a == .isSearching) b.filter) &&
  (t.bindings.all fun b => !(keysMatch t.anyKey b.keys [esc]) || b.eager == .ff || conjHas t .viMode b.filter ||
      conjHas t .inQuotedInsert b.filter || classOf t b.handler == .acceptSearch) &&
  esc != flushKey

theorem callHandler_acceptSearch (keys : List KeyP) (hd : HData) (enter : Key) (x : Sk)
    (hx : x.queue = []) (hs : x.searching = true) :
    (callHandler .acceptSearch keys hd enter x).queue = [] ∧
    (callHandler .acceptSearch keys hd enter x).searching = false ∧
    (callHandler .acceptSearch keys hd enter x).sel1 = none := by
  obtain ⟨vi, ro, mode, tempNav, op, opArg, dgWait, dg1, sel0, sel1, searching, quoted, recording, emacsRec, arg,
    keyBuf, queue, done⟩ := x
  obtain ⟨tc0, tc1, roRaised, anchorWritten, hdone, moved, atAnchor, textEmpty⟩ := hd
  cases tc0 <;> cases tc1 <;> cases tempNav <;> cases vi <;>
    simp_all [callHandler, effect, stopSearch, setMode, applyTc, leaveTempNav, HClass.editsText, HClass.mayFinish]

/-- **Emacs: Escape leaves an incremental search at once.**  Escape is a prefix of many Emacs bindings,
    but while searching the eager `accept_search` binding wins: one handler call, the search is over,
    nothing stays in the key buffer. -/
theorem feed_emacs_search_escape (t : Tbl) (esc : Key) (hok : emacsEscOK t esc = true) (s : Sk) (ki : KeyIn)
    (hkey : ki.key.key = esc) (hfl : ki.flush = false) (hvi : s.vi = false) (hs : s.searching = true)
    (hq : s.quoted = false) (hbuf : s.keyBuf = []) (hqueue : s.queue = []) (hdone : s.done = false) :
    ∃ h, (feed t s ki).calls = [h] ∧ classOf t h = .acceptSearch ∧ (feed t s ki).s.keyBuf = [] ∧
      (feed t s ki).s.searching = false ∧ (feed t s ki).s.sel1 = none := by
  simp only [emacsEscOK, Bool.and_eq_true, List.any_eq_true, List.all_eq_true, Bool.or_eq_true, beq_iff_eq,
    Bool.not_eq_true', bne_iff_ne, ne_eq] at hok
  obtain ⟨⟨⟨b0, hb0, ⟨⟨⟨hk0, he0⟩, hc0⟩, hf0⟩⟩, hall⟩, hne⟩ := hok
  have hkf : ki.key.key ≠ flushKey := by rw [hkey]; exact hne
  generalize hr1 : ({ s := { s with queue := [], keyBuf := s.keyBuf ++ [ki.key] }, calls := [] } : Run) = r1
  have hr1s : r1.s.keyBuf = [ki.key] ∧ r1.s.vi = false ∧ r1.s.quoted = false ∧ r1.s.queue = [] ∧ r1.calls = [] ∧
      r1.s.searching = true := by
    subst hr1; simp [hbuf, hvi, hq, hs]
  have hev0 : evalF t r1.s (ki.envAt r1.calls.length) b0.filter = true := by
    apply conjOnly_sound t r1.s _ _ _ b0.filter hf0
    intro a ha
    simp only [Bool.or_eq_true, beq_iff_eq] at ha
    rcases ha with (rfl | rfl) | rfl
    · exact ⟨by decide, by simp [evalAtomSk]⟩
    · exact ⟨by decide, by simp [evalAtomSk, hr1s.2.1]⟩
    · exact ⟨by decide, by simp [evalAtomSk, hr1s.2.2.2.2.2]⟩
  obtain ⟨b, hb, hkm, hfb, heb, hloop⟩ := processLoop_eager t ki ((s.keyBuf ++ [ki.key]).length) r1 ki.key hr1s.1
    b0 hb0 (by rw [hk0, hkey]; exact keysMatch_self _ _) hev0 (by rw [he0]; rfl)
  have hcls : classOf t b.handler = .acceptSearch := by
    rcases hall b hb with (((h | h) | h) | h) | h
    · rw [hkey] at hkm; rw [hkm] at h; cases h
    · rw [h] at heb; simp [evalF] at heb
    · have := conjHas_sound t r1.s _ .viMode (by decide) b.filter h hfb
      simp [evalAtomSk, hr1s.2.1] at this
    · have := conjHas_sound t r1.s _ .inQuotedInsert (by decide) b.filter h hfb
      simp [evalAtomSk, hr1s.2.2.1] at this
    · exact h
  have hc := callHandler_acceptSearch [ki.key] (ki.hdAt 0) t.enterKey r1.s hr1s.2.2.2.1 hr1s.2.2.2.2.2
  have hfeed : feed t s ki =
      { (callBinding t ki b [ki.key] r1) with s := { (callBinding t ki b [ki.key] r1).s with keyBuf := [] } } := by
    unfold feed
    simp only [hfl, queueFuel, Bool.false_eq_true, if_false]
    rw [processQueue_cons t ki 11 _ ki.key [] (by simpa using hdone) (by simp [hqueue])]
    rw [processKey_key t ki _ ki.key hkf]
    simp only []
    rw [hr1, hloop]
    apply processQueue_nil
    simp only [callBinding, hcls, hr1s.2.2.2.2.1, List.length_nil]
    exact hc.1
  refine ⟨b.handler, ?_, hcls, ?_, ?_, ?_⟩
  · rw [hfeed]; simp [callBinding, hr1s.2.2.2.2.1]
  · rw [hfeed]
  · rw [hfeed]; simp only [callBinding, hcls, hr1s.2.2.2.2.1, List.length_nil]; exact hc.2.1
  · rw [hfeed]; simp only [callBinding, hcls, hr1s.2.2.2.2.1, List.length_nil]; exact hc.2.2

theorem gen_emacs_esc_ok : emacsEscOK genTbl Gen.C05.escapeKey = true := by decide +kernel

end Skel
end Ptk.C05
