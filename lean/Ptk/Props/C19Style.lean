/-
  C19 — reading the decoder's style string back: `str.split()` on blank-joined visible words,
  `_merge_attrs` as a left fold, the colour / flag words of `ANSI._create_style_string` parse
  (with `_parse_style_str` / `parse_color`) to the canonical attributes.
-/
import Ptk.Props.C19Sgr
namespace Ptk.C19
open Ptk.Py

/-! ### str.split() on a blank-joined list of visible words -/

theorem splitWs_word_sep (sp : Char → Bool) (hsp : sp ' ' = true) (w : Text) (hne : w ≠ [])
    (hw : ∀ ch ∈ w, sp ch = false) (rest : Text) :
    splitWs sp (w ++ ' ' :: rest) = w :: splitWs sp rest := by
  induction w with
  | nil => exact absurd rfl hne
  | cons c cs ih =>
    have hc : sp c = false := hw c (by simp)
    cases cs with
    | nil =>
      simp [splitWs, hc, headIsSpaceOrEnd, hsp]
    | cons d ds =>
      have hd : sp d = false := hw d (by simp)
      have := ih (by simp) (fun ch hch => hw ch (by simp [hch]))
      simp only [List.cons_append] at this ⊢
      rw [splitWs]
      simp only [hc, Bool.false_eq_true, if_false, headIsSpaceOrEnd, hd, this]

theorem splitWs_word (sp : Char → Bool) (w : Text) (hne : w ≠ []) (hw : ∀ ch ∈ w, sp ch = false) :
    splitWs sp w = [w] := by
  induction w with
  | nil => exact absurd rfl hne
  | cons c cs ih =>
    have hc : sp c = false := hw c (by simp)
    cases cs with
    | nil => simp [splitWs, hc, headIsSpaceOrEnd]
    | cons d ds =>
      have hd : sp d = false := hw d (by simp)
      have := ih (by simp) (fun ch hch => hw ch (by simp [hch]))
      rw [splitWs]
      simp only [hc, Bool.false_eq_true, if_false, headIsSpaceOrEnd, hd, this]

theorem splitWs_join (sp : Char → Bool) (hsp : sp ' ' = true) (ws : List Text)
    (hws : ∀ w ∈ ws, w ≠ [] ∧ ∀ ch ∈ w, sp ch = false) :
    splitWs sp (join [' '] ws) = ws := by
  induction ws with
  | nil => simp [join, splitWs]
  | cons w rest ih =>
    obtain ⟨hne, hw⟩ := hws w (by simp)
    cases rest with
    | nil => simpa [join] using splitWs_word sp w hne hw
    | cons w2 rest2 =>
      have : join [' '] (w :: w2 :: rest2) = w ++ ' ' :: join [' '] (w2 :: rest2) := by simp [join]
      rw [this, splitWs_word_sep sp hsp w hne hw, ih (fun x hx => hws x (by simp [hx]))]

/-! ### `_merge_attrs` as a left fold -/

/-- `x` laid over `base`: the fields `x` sets win -/
def overlay (base x : Attrs) : Attrs :=
  { color := x.color.orElse fun _ => base.color,
    bgcolor := x.bgcolor.orElse fun _ => base.bgcolor,
    bold := x.bold.orElse fun _ => base.bold,
    underline := x.underline.orElse fun _ => base.underline,
    strike := x.strike.orElse fun _ => base.strike,
    italic := x.italic.orElse fun _ => base.italic,
    blink := x.blink.orElse fun _ => base.blink,
    reverse := x.reverse.orElse fun _ => base.reverse,
    hidden := x.hidden.orElse fun _ => base.hidden }

theorem pyOr_snoc (l : List (Option α)) (v : Option α) :
    pyOr (l ++ [v]) = v.orElse fun _ => pyOr l := by
  unfold pyOr
  cases v <;> simp

theorem mergeAttrs_snoc (l : List Attrs) (x : Attrs) :
    mergeAttrs (l ++ [x]) = overlay (mergeAttrs l) x := by
  unfold mergeAttrs overlay
  simp only [List.map_append, List.map_cons, List.map_nil, ← List.cons_append, pyOr_snoc]

theorem mergeAttrs_opt (l : List Attrs) (b : Bool) (x : Attrs) :
    mergeAttrs (l ++ (if b then [x] else [])) = if b then overlay (mergeAttrs l) x else mergeAttrs l := by
  cases b
  · simp
  · simp [mergeAttrs_snoc]
end Ptk.C19

namespace Ptk.C19
open Ptk.Py

def Visible (w : Text) : Prop := ∀ ch ∈ w, 33 ≤ ch.toNat ∧ ch.toNat ≤ 126
instance (w : Text) : Decidable (Visible w) := by unfold Visible; infer_instance

/-- a word that `get_attrs_for_style_str` treats as one inline part parsed from `_EMPTY_ATTRS` -/
def WordOk (w : Text) : Prop :=
  w ≠ [] ∧ Visible w ∧ findSub? "noinherit".toList w = none ∧ startsWith "class:".toList w = false
instance (w : Text) : Decidable (WordOk w) := by unfold WordOk; infer_instance

theorem parseParts_single (T : Tables) (a : Attrs) (w : Text) : parseParts T a [w] = parsePart T a w := by
  simp only [parseParts]
  cases parsePart T a w <;> rfl

theorem parseStyleStr_word (T : Tables) (sp : Char → Bool) (hsp : SpOk sp) (w : Text) (hw : WordOk w) :
    parseStyleStr T sp w = parsePart T T.emptyAttrs w := by
  obtain ⟨hne, hvis, hno, _⟩ := hw
  unfold parseStyleStr
  rw [hno, splitWs_word sp w hne (fun ch hch => hsp.2 ch (hvis ch hch).1 (hvis ch hch).2)]
  simp [parseParts_single]

theorem cascade_word (T : Tables) (sp : Char → Bool) (hsp : SpOk sp) (w : Text) (hw : WordOk w) (x : Attrs)
    (hp : parsePart T T.emptyAttrs w = some x) (st : CascadeSt) (rest : List Text) :
    cascadeParts T sp [] st (w :: rest) = cascadeParts T sp [] { st with acc := st.acc ++ [x] } rest := by
  have h1 := parseStyleStr_word T sp hsp w hw
  have h2 : startsWith "class:".toList w = false := hw.2.2.2
  rw [cascadeParts]
  simp only [cascadePart, h2, Bool.false_eq_true, if_false, h1, hp, Option.map_some]

theorem cascade_optword (T : Tables) (sp : Char → Bool) (hsp : SpOk sp) (w : Text) (hw : WordOk w) (x : Attrs)
    (hp : parsePart T T.emptyAttrs w = some x) (b : Bool) (st : CascadeSt) (rest : List Text) :
    cascadeParts T sp [] st ((if b then [w] else []) ++ rest) =
      cascadeParts T sp [] { st with acc := st.acc ++ (if b then [x] else []) } rest := by
  cases b
  · simp
  · simpa using cascade_word T sp hsp w hw x hp st rest

/-- none of the keyword / prefix branches of `_parse_style_str` applies: the word is a colour -/
def plainWordB (part : Text) : Bool :=
  !(part == "noinherit".toList) && !(part == "bold".toList) && !(part == "nobold".toList) &&
  !(part == "italic".toList) && !(part == "noitalic".toList) && !(part == "underline".toList) &&
  !(part == "nounderline".toList) && !(part == "strike".toList) && !(part == "nostrike".toList) &&
  !(part == "blink".toList) && !(part == "noblink".toList) && !(part == "reverse".toList) &&
  !(part == "noreverse".toList) && !(part == "hidden".toList) && !(part == "nohidden".toList) &&
  !(part == "roman".toList || part == "sans".toList || part == "mono".toList) &&
  !(startsWith "border:".toList part) && !(startsWith ['['] part && endsWith [']'] part)

theorem parsePart_plain_fg (T : Tables) (a : Attrs) (w : Text) (h : plainWordB w = true)
    (h1 : startsWith "bg:".toList w = false) (h2 : startsWith "fg:".toList w = false) :
    parsePart T a w = (parseColor T w).map fun c => { a with color := some c } := by
  unfold plainWordB at h
  simp only [Bool.and_eq_true, Bool.not_eq_true'] at h
  obtain ⟨⟨⟨⟨⟨⟨⟨⟨⟨⟨⟨⟨⟨⟨⟨⟨⟨k1, k2⟩, k3⟩, k4⟩, k5⟩, k6⟩, k7⟩, k8⟩, k9⟩, k10⟩, k11⟩, k12⟩, k13⟩, k14⟩, k15⟩,
    k16⟩, k17⟩, k18⟩ := h
  unfold parsePart
  simp only [k1, k2, k3, k4, k5, k6, k7, k8, k9, k10, k11, k12, k13, k14, k15, k16, k17, k18,
    h1, h2, Bool.false_eq_true, if_false]

theorem parsePart_plain_bg (T : Tables) (a : Attrs) (w : Text) (h : plainWordB w = true)
    (h1 : startsWith "bg:".toList w = true) :
    parsePart T a w = (parseColor T (w.drop 3)).map fun c => { a with bgcolor := some c } := by
  unfold plainWordB at h
  simp only [Bool.and_eq_true, Bool.not_eq_true'] at h
  obtain ⟨⟨⟨⟨⟨⟨⟨⟨⟨⟨⟨⟨⟨⟨⟨⟨⟨k1, k2⟩, k3⟩, k4⟩, k5⟩, k6⟩, k7⟩, k8⟩, k9⟩, k10⟩, k11⟩, k12⟩, k13⟩, k14⟩, k15⟩,
    k16⟩, k17⟩, k18⟩ := h
  unfold parsePart
  simp only [k1, k2, k3, k4, k5, k6, k7, k8, k9, k10, k11, k12, k13, k14, k15, k16, k17, k18,
    h1, Bool.false_eq_true, if_false, if_true]
end Ptk.C19

namespace Ptk.C19
open Ptk.Py

theorem hashWord_plain (t : Text) :
    plainWordB ('#' :: t) = true ∧ startsWith "bg:".toList ('#' :: t) = false ∧
      startsWith "fg:".toList ('#' :: t) = false ∧ startsWith "class:".toList ('#' :: t) = false := by
  refine ⟨?_, ?_, ?_, ?_⟩ <;> simp [plainWordB, startsWith, endsWith]

theorem bgWord_plain (w : Text) :
    plainWordB ("bg:".toList ++ w) = true ∧ startsWith "bg:".toList ("bg:".toList ++ w) = true ∧
      ("bg:".toList ++ w).drop 3 = w ∧ startsWith "class:".toList ("bg:".toList ++ w) = false := by
  refine ⟨?_, ?_, ?_, ?_⟩ <;> simp [plainWordB, startsWith, endsWith]
end Ptk.C19

namespace Ptk.C19
open Ptk.Py

def noneAttrs : Attrs :=
  { color := none, bgcolor := none, bold := none, underline := none, strike := none, italic := none,
    blink := none, reverse := none, hidden := none }
def dfltAttrs : Attrs :=
  { color := some [], bgcolor := some [], bold := some false, underline := some false, strike := some false,
    italic := some false, blink := some false, reverse := some false, hidden := some false }

/-- decidable side conditions for reading a decoder style string back with the style parser -/
def styleOkB (T : Tables) : Bool :=
  T.ansiNames.all (fun n =>
    decide (WordOk n) && plainWordB n && !startsWith "bg:".toList n && !startsWith "fg:".toList n &&
    decide (WordOk ("bg:".toList ++ n)) && n.head? != some '#') &&
  T.aliases.all (fun kv => kv.1.head? != some '#' && !decide (IsHex6 kv.1)) &&
  T.named.all (fun kv => kv.1.head? != some '#') &&
  decide (T.emptyAttrs = noneAttrs) && decide (T.defaultAttrs = dfltAttrs)

structure StyleOk (T : Tables) : Prop where
  nameWord : ∀ n ∈ T.ansiNames, WordOk n ∧ plainWordB n = true ∧ startsWith "bg:".toList n = false ∧
    startsWith "fg:".toList n = false ∧ WordOk ("bg:".toList ++ n) ∧ n.head? ≠ some '#'
  aliasKeys : ∀ kv ∈ T.aliases, kv.1.head? ≠ some '#' ∧ ¬IsHex6 kv.1
  namedKeys : ∀ kv ∈ T.named, kv.1.head? ≠ some '#'
  empty : T.emptyAttrs = noneAttrs
  dflt : T.defaultAttrs = dfltAttrs

theorem styleOk_of_bool (T : Tables) (h : styleOkB T = true) : StyleOk T := by
  unfold styleOkB at h
  simp only [Bool.and_eq_true, List.all_eq_true, decide_eq_true_eq, Bool.not_eq_true', bne_iff_ne, ne_eq] at h
  obtain ⟨⟨⟨⟨h1, h2⟩, h3⟩, h4⟩, h5⟩ := h
  refine ⟨?_, ?_, h3, h4, h5⟩
  · intro n hn
    obtain ⟨⟨⟨⟨⟨a, b⟩, c⟩, d⟩, e⟩, f⟩ := h1 n hn
    exact ⟨a, b, c, d, e, f⟩
  · intro kv hkv
    obtain ⟨a, b⟩ := h2 kv hkv
    exact ⟨a, by simpa using b⟩

theorem hexVal_hexDigitChar : ∀ v < 16, (hexVal? (hexDigitChar v)).isSome = true := by decide

theorem isHex6_lower (c : Text) (h : IsHex6 c) : IsHex6 (lower c) := by
  obtain ⟨hl, hall⟩ := h
  refine ⟨by simpa [lower] using hl, ?_⟩
  intro ch hch
  simp only [lower, List.mem_map] at hch
  obtain ⟨ch0, h0, rfl⟩ := hch
  rw [← hexDigitChar_hv (hall ch0 h0)]
  exact hexVal_hexDigitChar _ (hv_lt ch0)

theorem lookup_hash_none {α} (l : List (Text × α)) (t : Text) (h : ∀ kv ∈ l, kv.1.head? ≠ some '#') :
    lookup ('#' :: t) l = none := by
  apply lookup_eq_none
  intro kv hkv heq
  apply h kv hkv
  rw [heq]; rfl

theorem isHexDigit_iff (ch : Char) : isHexDigit ch = (hexVal? ch).isSome := by
  unfold isHexDigit hexVal?
  simp only
  by_cases h1 : 48 ≤ ch.toNat ∧ ch.toNat ≤ 57
  · simp [h1]
  · by_cases h2 : 97 ≤ ch.toNat ∧ ch.toNat ≤ 102
    · simp [h1, h2]
    · by_cases h3 : 65 ≤ ch.toNat ∧ ch.toNat ≤ 70
      · simp [h1, h2, h3]
      · simp only [h1, h2, h3, if_false, Option.isSome_none]
        simp only [Bool.or_eq_false_iff, Bool.and_eq_false_iff, decide_eq_false_iff_not]
        omega

/-- `parse_color('#' + six hex digits)` is the six digits -/
theorem parseColor_hash_hex (T : Tables) (hT : EncDecOk T) (hS : StyleOk T) (c : Text) (hh : IsHex6 c) :
    parseColor T ('#' :: c) = some c := by
  have hn1 : T.ansiNames.contains ('#' :: c) = false := by
    cases hc : T.ansiNames.contains ('#' :: c) with
    | false => rfl
    | true =>
      have hm : ('#' :: c) ∈ T.ansiNames := by simpa using hc
      exact absurd rfl (hS.nameWord _ hm).2.2.2.2.2
  have hn2 : T.ansiNames.contains c = false := by
    cases hc : T.ansiNames.contains c with
    | false => rfl
    | true =>
      have hm : c ∈ T.ansiNames := by simpa using hc
      exact absurd hh (hT.names c hm).2
  have ha1 := lookup_hash_none T.aliases c (fun kv hkv => (hS.aliasKeys kv hkv).1)
  have hlow : lower ('#' :: c) = '#' :: lower c := by
    simp [lower, lowerChar]
  have ha2 := lookup_hash_none T.named (lower c) hS.namedKeys
  have ha3 : lookup c T.aliases = none := by
    apply lookup_eq_none
    intro kv hkv heq
    exact (hS.aliasKeys kv hkv).2 (heq ▸ hh)
  unfold parseColor
  simp only [hn1, Bool.false_eq_true, if_false, ha1, hlow, ha2]
  have hall : c.all isHexDigit = true := by
    simp only [List.all_eq_true, isHexDigit_iff]
    exact hh.2
  simp [ha3, hh.1, hall]

theorem parseColor_name (T : Tables) (n : Text) (hn : n ∈ T.ansiNames) : parseColor T n = some n := by
  unfold parseColor
  simp [hn]
end Ptk.C19

namespace Ptk.C19
open Ptk.Py

theorem findSub_none (x : Char) (sub t : Text) (h : x ∉ t) : findSub? (x :: sub) t = none := by
  induction t with
  | nil => simp [findSub?]
  | cons y ys ih =>
    have hxy : (x == y) = false := by
      have : x ≠ y := fun he => h (by simp [he])
      simpa using this
    simp [findSub?, isPrefixOf', hxy, ih (fun hm => h (by simp [hm]))]

theorem noinherit_eq : "noinherit".toList = 'n' :: "oinherit".toList := by decide

theorem hex_not_n {ch : Char} (h : (hexVal? ch).isSome = true) : ch ≠ 'n' := by
  intro he; subst he; revert h; decide

/-- the colour the decoded attributes carry: '' for no colour, the ANSI name, lower-case hex -/
def canonColor (T : Tables) (c : Text) : Text :=
  if c = [] ∨ c = kwDefault then [] else if c ∈ T.ansiNames then c else lower c

/-- the attributes an escape sequence can carry for `a`: `None` read as '' / False, 'default' as '',
    hex digits lower-cased -/
def canon (T : Tables) (a : Attrs) : Attrs :=
  { color := some (canonColor T (a.color.getD [])), bgcolor := some (canonColor T (a.bgcolor.getD [])),
    bold := some (truthy a.bold), underline := some (truthy a.underline), strike := some (truthy a.strike),
    italic := some (truthy a.italic), blink := some (truthy a.blink), reverse := some (truthy a.reverse),
    hidden := some (truthy a.hidden) }

theorem hashHex_wordOk (c : Text) (hh : IsHex6 c) (pre : Text) (hpre : pre = [] ∨ pre = "bg:".toList) :
    WordOk (pre ++ '#' :: c) := by
  have hvis : Visible (pre ++ '#' :: c) := by
    intro ch hch
    rcases List.mem_append.mp hch with h | h
    · rcases hpre with rfl | rfl
      · simp at h
      · have : ∀ ch ∈ "bg:".toList, 33 ≤ ch.toNat ∧ ch.toNat ≤ 126 := by decide
        exact this ch h
    · rcases List.mem_cons.mp h with rfl | h
      · decide
      · exact hex_visible (hh.2 ch h)
  have hn : 'n' ∉ (pre ++ '#' :: c) := by
    intro hm
    rcases List.mem_append.mp hm with h | h
    · rcases hpre with rfl | rfl
      · simp at h
      · have : 'n' ∉ "bg:".toList := by decide
        exact this h
    · rcases List.mem_cons.mp h with h | h
      · exact absurd h (by decide)
      · exact hex_not_n (hh.2 _ h) rfl
  refine ⟨by cases pre <;> simp, hvis, ?_, ?_⟩
  · rw [noinherit_eq]; exact findSub_none _ _ _ hn
  · rcases hpre with rfl | rfl
    · exact (hashWord_plain c).2.2.2
    · exact (bgWord_plain _).2.2.2

section words
variable (T : Tables) (hT : EncDecOk T) (hS : StyleOk T) (sp : Char → Bool) (hsp : SpOk sp)
include hT hS hsp

theorem cascade_fg (c : Text) (hc : ValidColor T c) (st : CascadeSt) (rest : List Text) :
    cascadeParts T sp [] st ((match nonEmpty (decColor T c) with | some x => [x] | none => []) ++ rest) =
      cascadeParts T sp [] { st with acc := st.acc ++
        (if canonColor T c = [] then [] else [{ noneAttrs with color := some (canonColor T c) }]) } rest := by
  by_cases h1 : c = [] ∨ c = kwDefault
  · simp [decColor, canonColor, h1, nonEmpty]
  · by_cases h2 : c ∈ T.ansiNames
    · have hne : c ≠ [] := (hT.names c h2).1
      obtain ⟨hw, hp, hb, hf, _, _⟩ := hS.nameWord c h2
      have hpp : parsePart T T.emptyAttrs c = some { noneAttrs with color := some c } := by
        rw [parsePart_plain_fg T _ c hp hb hf, parseColor_name T c h2, hS.empty]; rfl
      have hne' : nonEmpty (some c) = some c := by
        cases c with
        | nil => exact absurd rfl hne
        | cons _ _ => rfl
      have e1 : decColor T c = some c := by unfold decColor; rw [if_neg h1, if_pos h2]
      have e2 : canonColor T c = c := by unfold canonColor; rw [if_neg h1, if_pos h2]
      rw [e1, e2, hne', if_neg hne]
      exact cascade_word T sp hsp c hw _ hpp st rest
    · have hh : IsHex6 c := by
        rcases hc with h | h | h | h
        · exact absurd (Or.inl h) h1
        · exact absurd (Or.inr h) h1
        · exact absurd h h2
        · exact h
      have hl := isHex6_lower c hh
      have hlne : lower c ≠ [] := by
        intro h; rw [h] at hl; simp [IsHex6] at hl
      obtain ⟨hp, hb, hf, _⟩ := hashWord_plain (lower c)
      have hpp : parsePart T T.emptyAttrs ('#' :: lower c) = some { noneAttrs with color := some (lower c) } := by
        rw [parsePart_plain_fg T _ _ hp hb hf, parseColor_hash_hex T hT hS _ hl, hS.empty]; rfl
      have e1 : decColor T c = some ('#' :: lower c) := by unfold decColor; rw [if_neg h1, if_neg h2]
      have e2 : canonColor T c = lower c := by unfold canonColor; rw [if_neg h1, if_neg h2]
      rw [e1, e2, if_neg hlne]
      exact cascade_word T sp hsp _ (by simpa using hashHex_wordOk (lower c) hl [] (Or.inl rfl)) _ hpp st rest

theorem cascade_bg (c : Text) (hc : ValidColor T c) (st : CascadeSt) (rest : List Text) :
    cascadeParts T sp [] st
        ((match nonEmpty (decColor T c) with | some x => ["bg:".toList ++ x] | none => []) ++ rest) =
      cascadeParts T sp [] { st with acc := st.acc ++
        (if canonColor T c = [] then [] else [{ noneAttrs with bgcolor := some (canonColor T c) }]) } rest := by
  by_cases h1 : c = [] ∨ c = kwDefault
  · simp [decColor, canonColor, h1, nonEmpty]
  · by_cases h2 : c ∈ T.ansiNames
    · have hne : c ≠ [] := (hT.names c h2).1
      obtain ⟨_, _, _, _, hw, _⟩ := hS.nameWord c h2
      obtain ⟨hp, hb, hd, _⟩ := bgWord_plain c
      have hpp : parsePart T T.emptyAttrs ("bg:".toList ++ c) = some { noneAttrs with bgcolor := some c } := by
        rw [parsePart_plain_bg T _ _ hp hb, hd, parseColor_name T c h2, hS.empty]; rfl
      have hne' : nonEmpty (some c) = some c := by
        cases c with
        | nil => exact absurd rfl hne
        | cons _ _ => rfl
      have e1 : decColor T c = some c := by unfold decColor; rw [if_neg h1, if_pos h2]
      have e2 : canonColor T c = c := by unfold canonColor; rw [if_neg h1, if_pos h2]
      rw [e1, e2, hne', if_neg hne]
      exact cascade_word T sp hsp _ hw _ hpp st rest
    · have hh : IsHex6 c := by
        rcases hc with h | h | h | h
        · exact absurd (Or.inl h) h1
        · exact absurd (Or.inr h) h1
        · exact absurd h h2
        · exact h
      have hl := isHex6_lower c hh
      have hlne : lower c ≠ [] := by
        intro h; rw [h] at hl; simp [IsHex6] at hl
      obtain ⟨hp, hb, hd, _⟩ := bgWord_plain ('#' :: lower c)
      have hpp : parsePart T T.emptyAttrs ("bg:".toList ++ '#' :: lower c) =
          some { noneAttrs with bgcolor := some (lower c) } := by
        rw [parsePart_plain_bg T _ _ hp hb, hd, parseColor_hash_hex T hT hS _ hl, hS.empty]; rfl
      have e1 : decColor T c = some ('#' :: lower c) := by unfold decColor; rw [if_neg h1, if_neg h2]
      have e2 : canonColor T c = lower c := by unfold canonColor; rw [if_neg h1, if_neg h2]
      rw [e1, e2, if_neg hlne]
      exact cascade_word T sp hsp _ (hashHex_wordOk (lower c) hl _ (Or.inr rfl)) _ hpp st rest
end words
end Ptk.C19

namespace Ptk.C19
open Ptk.Py

section words2
variable (T : Tables) (hT : EncDecOk T) (hS : StyleOk T)
include hT hS

theorem fgWords_ok (c : Text) (hc : ValidColor T c) :
    ∀ w ∈ (match nonEmpty (decColor T c) with | some x => [x] | none => []), WordOk w := by
  by_cases h1 : c = [] ∨ c = kwDefault
  · simp [decColor, h1, nonEmpty]
  · by_cases h2 : c ∈ T.ansiNames
    · have hne : c ≠ [] := (hT.names c h2).1
      have e1 : decColor T c = some c := by unfold decColor; rw [if_neg h1, if_pos h2]
      have hne' : nonEmpty (some c) = some c := by
        cases c with
        | nil => exact absurd rfl hne
        | cons _ _ => rfl
      rw [e1, hne']
      intro w hw; simp at hw; subst hw
      exact (hS.nameWord w h2).1
    · have hh : IsHex6 c := by
        rcases hc with h | h | h | h
        · exact absurd (Or.inl h) h1
        · exact absurd (Or.inr h) h1
        · exact absurd h h2
        · exact h
      have e1 : decColor T c = some ('#' :: lower c) := by unfold decColor; rw [if_neg h1, if_neg h2]
      rw [e1]
      intro w hw; simp [nonEmpty] at hw; subst hw
      simpa using hashHex_wordOk (lower c) (isHex6_lower c hh) [] (Or.inl rfl)

theorem bgWords_ok (c : Text) (hc : ValidColor T c) :
    ∀ w ∈ (match nonEmpty (decColor T c) with | some x => ["bg:".toList ++ x] | none => []), WordOk w := by
  by_cases h1 : c = [] ∨ c = kwDefault
  · simp [decColor, h1, nonEmpty]
  · by_cases h2 : c ∈ T.ansiNames
    · have hne : c ≠ [] := (hT.names c h2).1
      have e1 : decColor T c = some c := by unfold decColor; rw [if_neg h1, if_pos h2]
      have hne' : nonEmpty (some c) = some c := by
        cases c with
        | nil => exact absurd rfl hne
        | cons _ _ => rfl
      rw [e1, hne']
      intro w hw; simp only [List.mem_singleton] at hw; subst hw
      exact (hS.nameWord c h2).2.2.2.2.1
    · have hh : IsHex6 c := by
        rcases hc with h | h | h | h
        · exact absurd (Or.inl h) h1
        · exact absurd (Or.inr h) h1
        · exact absurd h h2
        · exact h
      have e1 : decColor T c = some ('#' :: lower c) := by unfold decColor; rw [if_neg h1, if_neg h2]
      rw [e1]
      intro w hw; simp only [nonEmpty, List.mem_singleton] at hw; subst hw
      exact hashHex_wordOk (lower c) (isHex6_lower c hh) _ (Or.inr rfl)
end words2

theorem flagWord_ok : WordOk "bold".toList ∧ WordOk "underline".toList ∧ WordOk "strike".toList ∧
    WordOk "italic".toList ∧ WordOk "blink".toList ∧ WordOk "reverse".toList ∧ WordOk "hidden".toList := by
  decide

theorem wordOk_split (sp : Char → Bool) (hsp : SpOk sp) (w : Text) (h : WordOk w) :
    w ≠ [] ∧ ∀ ch ∈ w, sp ch = false :=
  ⟨h.1, fun ch hch => hsp.2 ch (h.2.1 ch hch).1 (h.2.1 ch hch).2⟩

theorem canonColor_overlay_fg (m : Attrs) (cc : Text) (hm : m.color = some []) :
    (if cc = [] then m else overlay m { noneAttrs with color := some cc }).color = some cc := by
  split
  · rename_i h; rw [hm, h]
  · rfl

theorem mergeAttrs_optP (l : List Attrs) (p : Prop) [Decidable p] (x : Attrs) :
    mergeAttrs (l ++ (if p then [] else [x])) = if p then mergeAttrs l else overlay (mergeAttrs l) x := by
  by_cases h : p
  · simp [h]
  · simp [h, mergeAttrs_snoc]

theorem attrs_ext (x y : Attrs) (h1 : x.color = y.color) (h2 : x.bgcolor = y.bgcolor) (h3 : x.bold = y.bold)
    (h4 : x.underline = y.underline) (h5 : x.strike = y.strike) (h6 : x.italic = y.italic)
    (h7 : x.blink = y.blink) (h8 : x.reverse = y.reverse) (h9 : x.hidden = y.hidden) : x = y := by
  cases x; cases y; simp_all

/-- the words of `_create_style_string` -/
def styleWords (s : Sgr) : List Text :=
  (match nonEmpty s.color with | some c => [c] | none => []) ++
  (match nonEmpty s.bgcolor with | some c => ["bg:".toList ++ c] | none => []) ++
  (if s.bold then ["bold".toList] else []) ++
  (if s.underline then ["underline".toList] else []) ++
  (if s.strike then ["strike".toList] else []) ++
  (if s.italic then ["italic".toList] else []) ++
  (if s.blink then ["blink".toList] else []) ++
  (if s.reverse then ["reverse".toList] else []) ++
  (if s.hidden then ["hidden".toList] else [])

theorem styleString_eq (s : Sgr) : styleString s = join [' '] (styleWords s) := rfl

theorem styleWords_ok (T : Tables) (hT : EncDecOk T) (hS : StyleOk T) (a : Attrs) (hv : ValidAttrs T a) :
    ∀ w ∈ styleWords (sgrOf T a), WordOk w := by
  obtain ⟨f1, f2, f3, f4, f5, f6, f7⟩ := flagWord_ok
  intro w hw
  unfold styleWords sgrOf at hw
  simp only [List.mem_append] at hw
  rcases hw with (((((((h | h) | h) | h) | h) | h) | h) | h) | h
  · exact fgWords_ok T hT hS _ hv.1 w h
  · exact bgWords_ok T hT hS _ hv.2 w h
  all_goals (split at h <;> simp at h; subst h; assumption)

/-- **Reading the decoder's style string back.**  The style string `ANSI` produces for the state
    representing `a` resolves (against an empty sheet, as `to_formatted_text`/the renderer do) to
    exactly the canonical form of `a`. -/
theorem decode_styleString (T : Tables) (hT : EncDecOk T) (hS : StyleOk T) (sp : Char → Bool)
    (hsp : SpOk sp) (a : Attrs) (hv : ValidAttrs T a) :
    getAttrs T sp [] (styleString (sgrOf T a)) T.defaultAttrs = some (canon T a) := by
  obtain ⟨f1, f2, f3, f4, f5, f6, f7⟩ := flagWord_ok
  unfold getAttrs listOfAttrs
  simp only [List.filter_nil, List.map_nil]
  rw [styleString_eq, splitWs_join sp hsp.1 _
    (fun w hw => wordOk_split sp hsp w (styleWords_ok T hT hS a hv w hw))]
  unfold styleWords sgrOf
  dsimp only
  have happ : ∀ (l : List Text), l = l ++ [] := by simp
  rw [happ (if truthy a.hidden = true then ["hidden".toList] else [])]
  simp only [List.append_assoc]
  have e := hS.empty
  rw [cascade_fg T hT hS sp hsp _ hv.1, cascade_bg T hT hS sp hsp _ hv.2,
    cascade_optword T sp hsp _ f1 { noneAttrs with bold := some true } (by rw [e]; rfl),
    cascade_optword T sp hsp _ f2 { noneAttrs with underline := some true } (by rw [e]; rfl),
    cascade_optword T sp hsp _ f3 { noneAttrs with strike := some true } (by rw [e]; rfl),
    cascade_optword T sp hsp _ f4 { noneAttrs with italic := some true } (by rw [e]; rfl),
    cascade_optword T sp hsp _ f5 { noneAttrs with blink := some true } (by rw [e]; rfl),
    cascade_optword T sp hsp _ f6 { noneAttrs with reverse := some true } (by rw [e]; rfl),
    cascade_optword T sp hsp _ f7 { noneAttrs with hidden := some true } (by rw [e]; rfl)]
  simp only [cascadeParts, Option.map_some]
  congr 1
  rw [mergeAttrs_opt, mergeAttrs_opt, mergeAttrs_opt, mergeAttrs_opt, mergeAttrs_opt, mergeAttrs_opt,
    mergeAttrs_opt, mergeAttrs_optP, mergeAttrs_optP, hS.dflt]
  have hm : mergeAttrs [dfltAttrs] = dfltAttrs := by decide
  rw [hm]
  apply attrs_ext <;>
    simp only [apply_ite Attrs.color, apply_ite Attrs.bgcolor, apply_ite Attrs.bold, apply_ite Attrs.underline,
      apply_ite Attrs.strike, apply_ite Attrs.italic, apply_ite Attrs.blink, apply_ite Attrs.reverse,
      apply_ite Attrs.hidden, overlay, noneAttrs, dfltAttrs, canon, Option.orElse, ite_self]
  all_goals (split <;> simp_all)
end Ptk.C19
