/-
  C20 — `run_in_terminal`'s task and the shutdown of the application (`Ptk.Model.C20`, ops `run`, `task`,
  `exit`, `stop`, `finish`).

  The callback that the flush thread hands to the loop (`write_and_flush_in_loop`) does not write: it calls
  `run_in_terminal`, which makes a task (`ensure_future(run())`) whose first step is a loop callback of its
  own.  Between the two, and before or after both, the loop may run the wake-up of `Application.run_async`
  (`stop`: render done, `_is_running = False`, `cancel_and_wait_for_background_tasks()`) and its return
  (`finish`).  The theorems here say: for every such schedule the text that was handed over is written
  exactly once, in hand-over order; and they show on a concrete schedule that this is so only because the
  task is NOT one of the application's background tasks (`St.regTasks = false`, the code): registered with the
  application, a task that has not started is cancelled by the shutdown and its text is gone (seeded
  regression C20-f).
-/
import Ptk.Props.C20
namespace Ptk.C20
open Ptk.Py

/-- **no_task_registered.**  Along every schedule of the code as it is, no task that `run_in_terminal` made is
    in the application's background-task set. -/
theorem no_task_registered (raw : Bool) (ops : List Op) :
    ∀ k ∈ (runOps (init raw) ops).tasks, k.reg = false :=
  (noReg_run _ ops (noReg_init raw)).2

/-- **stop_keeps_tasks.**  The wake-up of `run_async` (final rendering, `_is_running = False`,
    `cancel_and_wait_for_background_tasks`) cancels no task of `run_in_terminal` and drops no callback:
    whatever was handed over stays in the loop. -/
theorem stop_keeps_tasks (raw : Bool) (ops : List Op) :
    let s := runOps (init raw) ops
    (step s .stop).tasks = s.tasks ∧ (step s .stop).pending = s.pending ∧ (step s .stop).lost = s.lost := by
  intro s
  have hn : NoReg s := noReg_run _ ops (noReg_init raw)
  obtain ⟨h1, h2⟩ := filter_noReg hn.2
  simp only [step]
  split <;> simp [h1, h2, taskTexts]

example :
    let ops : List Op := [.newLoop, .start, .write 0 ['a', '\n'], .fl, .fl, .fl, .run]
    (runOps (init false) ops).tasks = [{ txt := ['a', '\n'], reg := false }] ∧
    (step (runOps (init false) ops) .stop).tasks = [{ txt := ['a', '\n'], reg := false }] ∧
    (step (runOps (init false) ops) .stop).winding = true := by decide

/-- the steps of the event loop and of the application's life cycle (everything but the writers, the flush
    thread and the loop's own creation / closing) -/
def loopSide : Op → Bool
  | .run | .task | .start | .stop | .finish | .exit | .inval => true
  | _ => false

/-- what the loop holds of the proxy's text, in hand-over order, behind what it has already written -/
def loopText (s : St) : Text := outText s.log ++ cat (taskTexts s.tasks) ++ cat s.pending

theorem loopText_step (s : St) (o : Op) (hn : NoReg s) (hl : loopSide o = true) :
    loopText (step s o) = loopText s ∧ (step s o).lost = s.lost := by
  cases o with
  | run =>
    simp only [step, runStep]
    cases hp : s.pending with
    | nil => simp [loopText, hp]
    | cons t ps => simp [loopText, hp, cat, taskTexts]
  | task =>
    simp only [step, taskStep]
    cases ht : s.tasks with
    | nil => simp [loopText, ht]
    | cons k ts =>
      simp only
      split <;> simp [loopText, ht, cat, taskTexts, outText_append, outText]
  | start => simp only [step]; split <;> simp [loopText, outText_append, outText]
  | stop =>
    obtain ⟨h1, h2⟩ := filter_noReg hn.2
    simp only [step]
    split <;> simp [loopText, outText_append, outText, h1, h2, taskTexts]
  | finish => simp only [step]; split <;> simp [loopText]
  | exit => simp only [step]; split <;> simp [loopText]
  | inval => simp only [step]; split <;> simp [loopText, outText_append, outText]
  | write t d => simp [loopSide] at hl
  | writeBad t => simp [loopSide] at hl
  | flush t => simp [loopSide] at hl
  | close => simp [loopSide] at hl
  | fl => simp [loopSide] at hl
  | newLoop => simp [loopSide] at hl
  | closeLoop => simp [loopSide] at hl

/-- **handed_over_written_once.**  From any state of the code, let the loop and the application do anything,
    in any order and any number of times: run accepted callbacks (`run`, making tasks), start tasks (`task`),
    call `exit()`, wake `run_async` up (`stop`), let it return (`finish`), start the application again,
    repaint.  The text already written, followed by the text of the waiting tasks and of the waiting
    callbacks, never changes: nothing that was handed over is dropped, duplicated or reordered — whether the
    application finishes before, between or after the callback and the first step of its task. -/
theorem handed_over_written_once (s : St) (hn : NoReg s) (ops : List Op) (hl : ∀ o ∈ ops, loopSide o = true) :
    loopText (runOps s ops) = loopText s ∧ (runOps s ops).lost = s.lost := by
  induction ops generalizing s with
  | nil => exact ⟨rfl, rfl⟩
  | cons o os ih =>
    obtain ⟨h1, h2⟩ := loopText_step s o hn (hl o (by simp))
    obtain ⟨h3, h4⟩ := ih (step s o) (noReg_step s o hn) (fun o' ho' => hl o' (by simp [ho']))
    exact ⟨by rw [runOps, h3, h1], by rw [runOps, h4, h2]⟩

/-- **handed_over_delivered.**  ... and once the loop holds nothing any more, the output has grown by exactly
    the handed-over texts, oldest first. -/
theorem handed_over_delivered (s : St) (hn : NoReg s) (ops : List Op) (hl : ∀ o ∈ ops, loopSide o = true)
    (hd : (runOps s ops).tasks = [] ∧ (runOps s ops).pending = []) :
    outText (runOps s ops).log = outText s.log ++ cat (taskTexts s.tasks) ++ cat s.pending := by
  have := (handed_over_written_once s hn ops hl).1
  simpa [loopText, hd.1, hd.2, taskTexts, cat] using this

-- non-vacuity: two callbacks accepted, the application exits between the callback and the task of the first,
-- returns before the second callback runs, and is started again before the second task runs
example :
    let s := runOps (init false) [.newLoop, .start, .write 0 ['a', '\n'], .fl, .fl, .fl, .write 1 ['b', '\n'], .fl, .fl, .fl]
    let ops : List Op := [.exit, .run, .stop, .task, .finish, .run, .start, .task]
    NoReg s ∧ s.pending = [['a', '\n'], ['b', '\n']] ∧ (∀ o ∈ ops, loopSide o = true) ∧
    (runOps s ops).tasks = [] ∧ (runOps s ops).pending = [] ∧
    (runOps s ops).log = [.draw, .doneDraw, .out false ['a', '\n'], .draw, .erase, .out false ['b', '\n'], .draw] := by
  refine ⟨noReg_run _ _ (noReg_init false), ?_⟩
  decide

/-! ### the output is in order at every moment, not only after the flush -/

/-- **output_is_prefix.**  At every state reachable by a calm schedule — text still in the buffer, the queue, the
    flush thread, the loop's callbacks and tasks — what has been written so far is a prefix of the text of all
    write calls in lock-acquisition order: nothing is ever written early, twice or out of order, and what is
    missing is exactly what is still in flight. -/
theorem output_is_prefix (raw : Bool) (ops : List Op) (hc : calm (init raw) ops = true) :
    outText (runOps (init raw) ops).log <+: allText ops := by
  obtain ⟨h, -⟩ := stream_invariant raw ops hc
  rw [← h]
  simp only [stream, List.append_assoc]
  exact List.prefix_append _ _

example :
    let ops : List Op := [.newLoop, .start, .write 0 ['a', '\n'], .fl, .fl, .fl, .run, .write 1 ['b', '\n'], .write 0 ['c'],
      .task, .stop, .fl]
    calm (init false) ops = true ∧ quiescent (runOps (init false) ops) = false ∧
    outText (runOps (init false) ops).log = ['a', '\n'] ∧ allText ops = ['a', '\n', 'b', '\n', 'c'] := by decide

/-- **run_then_task_is_one_section.**  When nothing else gets between them, the callback and the first step of
    the task it made are together what the coarser model of round 1 called "the loop runs the callback": with a
    running application `erase; text; redraw`, otherwise the plain text (the driver's `run`). -/
theorem run_then_task_is_one_section (s : St) (t : Text) (ps : List Text) (hp : s.pending = t :: ps) (ht : s.tasks = []) :
    (runOps s [.run, .task]).log = s.log ++ (if s.appOn then [.erase, .out s.raw t, .draw] else [.out s.raw t]) ∧
    (runOps s [.run, .task]).pending = ps ∧ (runOps s [.run, .task]).tasks = [] ∧
    (runOps s [.run, .task]).lost = s.lost := by
  cases ha : s.appOn <;> simp [runOps, step, runStep, taskStep, hp, ht, ha]

/-! ### the loop can always finish the delivery -/

theorem run_replicate (s : St) (hn : NoReg s) :
    let s' := runOps s (List.replicate s.pending.length .run)
    s'.pending = [] ∧ taskTexts s'.tasks = taskTexts s.tasks ++ s.pending ∧ s'.log = s.log ∧ s'.appOn = s.appOn := by
  generalize hlen : s.pending.length = n
  induction n generalizing s with
  | zero =>
    have : s.pending = [] := List.length_eq_zero_iff.mp hlen
    simp [runOps, this]
  | succ n ih =>
    cases hp : s.pending with
    | nil => simp [hp] at hlen
    | cons t ps =>
      have hlen' : (step s .run).pending.length = n := by
        simp [step, runStep, hp] at hlen ⊢; omega
      obtain ⟨h1, h2, h3, h4⟩ := ih (step s .run) (noReg_step s .run hn) hlen'
      simp only [List.replicate_succ, runOps]
      refine ⟨h1, ?_, ?_, ?_⟩
      · rw [h2]; simp [step, runStep, hp, taskTexts]
      · rw [h3]; simp [step, runStep, hp]
      · rw [h4]; simp [step, runStep, hp]

theorem task_replicate (s : St) :
    let s' := runOps s (List.replicate s.tasks.length .task)
    s'.tasks = [] ∧ s'.pending = s.pending ∧ outText s'.log = outText s.log ++ cat (taskTexts s.tasks) := by
  generalize hlen : s.tasks.length = n
  induction n generalizing s with
  | zero =>
    have : s.tasks = [] := List.length_eq_zero_iff.mp hlen
    simp [runOps, this, taskTexts, cat]
  | succ n ih =>
    cases hp : s.tasks with
    | nil => simp [hp] at hlen
    | cons k ts =>
      have hlen' : (step s .task).tasks.length = n := by
        simp only [step, taskStep, hp]
        split <;> (simp [hp] at hlen ⊢; omega)
      obtain ⟨h1, h2, h3⟩ := ih (step s .task) hlen'
      simp only [List.replicate_succ, runOps]
      refine ⟨h1, ?_, ?_⟩
      · rw [h2]; simp only [step, taskStep, hp]; split <;> rfl
      · rw [h3]; simp only [step, taskStep, hp]
        split <;> simp [outText_append, outText, taskTexts, cat]

/-- the schedule on which the loop works off what it holds: every accepted callback, then every task -/
def deliverOps (s : St) : List Op :=
  List.replicate s.pending.length .run ++ List.replicate (s.tasks.length + s.pending.length) .task

/-- **loop_delivers.**  In every state of the code — application running, exit requested, winding down,
    gone, started again — the loop, left alone, writes everything it holds exactly once and in hand-over
    order. -/
theorem loop_delivers (s : St) (hn : NoReg s) :
    (runOps s (deliverOps s)).tasks = [] ∧ (runOps s (deliverOps s)).pending = [] ∧
    outText (runOps s (deliverOps s)).log = outText s.log ++ cat (taskTexts s.tasks) ++ cat s.pending := by
  obtain ⟨h1, h2, h3, -⟩ := run_replicate s hn
  have hlen : (runOps s (List.replicate s.pending.length .run)).tasks.length = s.tasks.length + s.pending.length := by
    have := congrArg List.length h2
    simpa [taskTexts] using this
  obtain ⟨h4, h5, h6⟩ := task_replicate (runOps s (List.replicate s.pending.length .run))
  rw [hlen] at h4 h5 h6
  simp only [deliverOps, runOps_append]
  refine ⟨h4, by rw [h5, h1], ?_⟩
  rw [h6, h3, h2]
  simp [cat]

example :
    let s := runOps (init false) [.newLoop, .start, .write 0 ['a', '\n'], .fl, .fl, .fl, .run, .write 1 ['b', '\n'],
      .fl, .fl, .fl, .exit, .stop]
    s.winding = true ∧ s.tasks.length = 1 ∧ s.pending.length = 1 ∧
    outText (runOps s (deliverOps s)).log = ['a', '\n', 'b', '\n'] := by decide

/-! ### the three places where the application can finish -/

/-- **stop_before_between_after.**  One handed-over text `t`, application running, nothing else in the loop.
    `run_async` wakes up after the task ran: `erase; t; redraw; done`.  It wakes up between the callback and
    the task's first step (the exit wake-up was queued behind the callback): the task survives, finds
    `_is_running` False and writes `t` plainly after the final rendering.  It wakes up before the callback:
    the same.  In all three cases `t` is written once and nothing is lost. -/
theorem stop_before_between_after (s : St) (hn : NoReg s) (t : Text) (ps : List Text)
    (hon : s.appOn = true) (hp : s.pending = t :: ps) (ht : s.tasks = []) :
    (runOps s [.run, .task, .stop]).log = s.log ++ [.erase, .out s.raw t, .draw, .doneDraw] ∧
    (runOps s [.run, .stop, .task]).log = s.log ++ [.doneDraw, .out s.raw t] ∧
    (runOps s [.stop, .run, .task]).log = s.log ++ [.doneDraw, .out s.raw t] ∧
    (∀ ops ∈ [[Op.run, .task, .stop], [.run, .stop, .task], [.stop, .run, .task]],
      (runOps s ops).tasks = [] ∧ (runOps s ops).pending = ps ∧ (runOps s ops).lost = s.lost ∧
      (runOps s ops).winding = true) := by
  have hr : s.regTasks = false := hn.1
  refine ⟨?_, ?_, ?_, ?_⟩
  · simp [runOps, step, runStep, taskStep, hp, ht, hon]
  · simp [runOps, step, runStep, taskStep, hp, ht, hon, hr, List.filter, notReg]
  · simp [runOps, step, runStep, taskStep, hp, ht, hon]
  · intro ops hops
    simp only [List.mem_cons, List.not_mem_nil, or_false] at hops
    rcases hops with rfl | rfl | rfl <;>
      simp [runOps, step, runStep, taskStep, hp, ht, hon, hr, List.filter, notReg, isReg, taskTexts]

example :
    let s := runOps (init true) [.newLoop, .start, .write 0 ['a', '\n'], .fl, .fl, .fl]
    s.appOn = true ∧ s.pending = [['a', '\n']] ∧ s.tasks = [] ∧
    (runOps s [.run, .stop, .task]).log = [.draw, .doneDraw, .out true ['a', '\n']] ∧
    phRun .off (runOps s [.run, .stop, .task]).log = some .off := by decide

/-! ### registered with the application, the task is cancelled: the seeded regression C20-f -/

/-- the variant of the code in which `run_in_terminal` registers its task with a running application
    (`app.create_background_task(run())`) -/
def initReg (raw : Bool) : St := { init raw with regTasks := true }

/-- the flush thread hands `a\n` over while the application runs; `exit()` has been called, so the wake-up of
    `run_async` is queued behind the callback; the callback makes the task; `run_async` wakes up, finishes and
    cancels its background tasks; then the task would have its first step -/
def seedF : List Op := [.newLoop, .start, .write 0 ['a', '\n'], .fl, .fl, .fl, .exit, .run, .stop, .task, .finish,
  .flush 0, .fl]

/-- **registered_task_cancelled_witness.**  On the schedule `seedF` (calm and start-calm) the code delivers
    `a\n` — plainly, after the final rendering; the variant with registered tasks writes nothing: the text is
    in `lost`, although everything was flushed and nothing is in flight any more.  When the task starts before
    `run_async` wakes up, both behave alike: the window is exactly "task made, not yet started". -/
theorem registered_task_cancelled_witness :
    calm (init false) seedF = true ∧ startCalm (init false) seedF = true ∧
    quiescent (runOps (init false) seedF) = true ∧
    (runOps (init false) seedF).log = [.draw, .doneDraw, .out false ['a', '\n']] ∧
    (runOps (init false) seedF).lost = [] ∧
    allText seedF = ['a', '\n'] ∧
    quiescent (runOps (initReg false) seedF) = true ∧
    outText (runOps (initReg false) seedF).log = [] ∧
    (runOps (initReg false) seedF).lost = [['a', '\n']] ∧
    (let early : List Op := [.newLoop, .start, .write 0 ['a', '\n'], .fl, .fl, .fl, .exit, .run, .task, .stop, .finish]
     (runOps (initReg false) early).log = (runOps (init false) early).log ∧
     outText (runOps (initReg false) early).log = ['a', '\n']) := by decide

/-! ### the winding-down phase -/

/-- `_is_running` and "winding down" exclude each other -/
theorem winding_excludes_running (raw : Bool) (ops : List Op) :
    ¬ ((runOps (init raw) ops).appOn = true ∧ (runOps (init raw) ops).winding = true) := by
  suffices h : ∀ s : St, ¬ (s.appOn = true ∧ s.winding = true) →
      ¬ ((runOps s ops).appOn = true ∧ (runOps s ops).winding = true) from h _ (by simp [init])
  intro s hs
  induction ops generalizing s with
  | nil => exact hs
  | cons o os ih =>
    apply ih
    cases o with
    | write t d => simp only [step, doWrite]; split <;> exact hs
    | writeBad t => exact hs
    | flush t => exact hs
    | close => exact hs
    | fl =>
      simp only [step, flStep]
      split
      · split <;> exact hs
      · exact hs
      · exact hs
      · split <;> exact hs
      · exact hs
      · exact hs
    | run => simp only [step, runStep]; split <;> exact hs
    | task => simp only [step, taskStep]; split; exact hs; split <;> exact hs
    | start =>
      simp only [step]; split
      · rename_i hc; simp; simpa using hc.2.2
      · exact hs
    | stop => simp only [step]; split; simp; exact hs
    | finish => simp only [step]; split; simp; exact hs
    | newLoop => simp only [step]; split <;> exact hs
    | closeLoop => simp only [step]; split <;> exact hs
    | inval => simp only [step]; split <;> exact hs
    | exit => simp only [step]; split <;> exact hs

/-- **winding_phase_goes_through_loop.**  While `run_async` winds down (`_is_running` False, the application
    still in the `AppSession`), `_get_app_loop()` still returns the loop: a batch of the flush thread is handed
    to the loop and written there, plainly (no prompt is on the screen any more) — not by the flush thread. -/
theorem winding_phase_goes_through_loop (s : St) (txt : Text) (dn : Bool)
    (hw : s.winding = true) (hoff : s.appOn = false) (ho : s.loopOpen = true)
    (hf : s.fl = .batch txt dn) (hp : s.pending = []) (ht : s.tasks = []) :
    (step s .fl).fl = .ready (some s.loopGen) txt dn ∧
    (runOps s [.fl, .fl]).pending = [txt] ∧ (runOps s [.fl, .fl]).log = s.log ∧
    (runOps s [.fl, .fl, .run, .task]).log = s.log ++ [.out s.raw txt] ∧
    (runOps s [.fl, .fl, .run, .task]).pending = [] ∧ (runOps s [.fl, .fl, .run, .task]).tasks = [] := by
  simp [runOps, step, flStep, runStep, taskStep, hf, appLoop, hw, hoff, ho, hp, ht]

example :
    let s := runOps (init false) [.newLoop, .start, .write 0 ['a', '\n'], .stop, .fl]
    s.winding = true ∧ s.appOn = false ∧ s.loopOpen = true ∧ s.fl = .batch ['a', '\n'] false ∧
    (runOps s [.fl, .fl, .run, .task]).log = [.draw, .doneDraw, .out false ['a', '\n']] := by decide

/-! ### after `close()`: the flush thread is gone for good -/

/-- the flush thread has returned and the loop holds nothing of the proxy -/
def Closed (s : St) : Prop := s.fl = .exited ∧ s.pending = [] ∧ s.tasks = []

theorem closed_step (s : St) (o : Op) (h : Closed s) :
    Closed (step s o) ∧ outText (step s o).log = outText s.log := by
  obtain ⟨hf, hp, ht⟩ := h
  cases o with
  | write t d => simp only [step, doWrite]; split <;> exact ⟨⟨hf, hp, ht⟩, rfl⟩
  | writeBad t => exact ⟨⟨hf, hp, ht⟩, rfl⟩
  | flush t => exact ⟨⟨hf, hp, ht⟩, rfl⟩
  | close => exact ⟨⟨hf, hp, ht⟩, rfl⟩
  | fl => simp only [step, flStep, hf]; exact ⟨⟨hf, hp, ht⟩, trivial⟩
  | run => simp only [step, runStep, hp]; exact ⟨⟨hf, hp, ht⟩, trivial⟩
  | task => simp only [step, taskStep, ht]; exact ⟨⟨hf, hp, ht⟩, trivial⟩
  | start => simp only [step]; split <;> simp [Closed, hf, hp, ht, outText_append, outText]
  | stop => simp only [step]; split <;> simp [Closed, hf, hp, ht, outText_append, outText]
  | finish => simp only [step]; split <;> simp [Closed, hf, hp, ht]
  | newLoop => simp only [step]; split <;> simp [Closed, hf, hp, ht]
  | closeLoop => simp only [step]; split <;> simp [Closed, hf, hp, ht]
  | inval => simp only [step]; split <;> simp [Closed, hf, hp, ht, outText_append, outText]
  | exit => simp only [step]; split <;> simp [Closed, hf, hp, ht]

/-- **closed_proxy_writes_nothing.**  Once the flush thread has returned (`close()` was called and the `_Done`
    sentinel consumed) and the loop has worked off what it held, nothing written to the proxy reaches the output
    any more, whatever happens: `write` / `flush` still queue the text, nobody takes it out.  (`close()` after
    a flush delivers everything written before it — `close_delivers`; writes that get the lock after the
    sentinel was taken are silently kept for ever.  They are outside the property's quantifier; observed on the
    real code by the `close` cases of the correspondence.) -/
theorem closed_proxy_writes_nothing (s : St) (h : Closed s) (ops : List Op) :
    Closed (runOps s ops) ∧ outText (runOps s ops).log = outText s.log := by
  induction ops generalizing s with
  | nil => exact ⟨h, rfl⟩
  | cons o os ih =>
    obtain ⟨h1, h2⟩ := closed_step s o h
    obtain ⟨h3, h4⟩ := ih (step s o) h1
    exact ⟨h3, by rw [runOps, h4, h2]⟩

example :
    let s := runOps (init false) [.write 0 ['a', '\n'], .close, .fl, .fl, .fl, .fl]
    Closed s ∧ outText s.log = ['a', '\n'] ∧
    outText (runOps s [.write 1 ['l', 'a', 't', 'e', '\n'], .flush 1, .fl, .fl, .newLoop, .start, .fl]).log = ['a', '\n'] ∧
    qText (runOps s [.write 1 ['l', 'a', 't', 'e', '\n'], .flush 1, .fl]).queue = ['l', 'a', 't', 'e', '\n'] := by
  refine ⟨?_, ?_⟩
  · unfold Closed; decide
  · decide

/-! ### `write` with something that is not a string -/

/-- **bad_write_changes_nothing.**  `write(x)` with `x` not a `str` raises before it touches anything: the
    state — buffer, queue, everything — is unchanged, so such a call can be dropped from any schedule. -/
theorem bad_write_changes_nothing (s : St) (t : Nat) (ops : List Op) :
    runOps s (.writeBad t :: ops) = runOps s ops := rfl

end Ptk.C20
