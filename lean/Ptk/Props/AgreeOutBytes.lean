/-
  Cross-model agreement, cluster "Output side" — pairs (2) and (3) composed: the text a `Vt100_Output` sends to the
  terminal for one `_output_screen_diff` (renderer.py + output/vt100.py).

  `Ptk.Props.AgreeOutDiff2.diff_agree_screenTo` says C06's and C10's differ make the same calls on the output object;
  `Ptk.Props.AgreeOutVt` says each call writes the same text in both `Vt100_Output` models.  Here: every
  `set_attributes` call of `Ptk.C06.diff` carries `color_depth` (`diff_depth`), one call of C10's differ vocabulary
  (`Ptk.C10.vtEv`, incl. `write` with the ESC → '?' replacement, `write_raw`, `set_attributes` through `sgr`) writes
  what C06's `vtEmit` writes (`ev_cmd_bytes`), hence so do the sequences (`calls_bytes`) and the whole update
  (`diff_text_agree`): `C10.renderText … (C10.diff …) = (C06.vtEmitAll … (C06.diff …).cmds).2` as code points.
  The escape code of an attrs id is the parameter `sgr`, tied to C06's `escapeCode` by `hsgr` (and through
  `Ptk.AgreeOut.Color.escapeCode_eq` to C19's).
-/
import Ptk.Props.AgreeOutDiff2
import Ptk.Props.AgreeOutVt
import Ptk.Model.C10Gen
namespace Ptk.AgreeOut.Bytes
open Ptk Ptk.Py Ptk.AgreeOut.Diff Ptk.AgreeOut.Vt

/-- every `set_attributes` call in the list is made with colour depth `d` -/
def depthOk (d : Nat) : C06.Cmd → Bool
  | .setAttrs _ d' _ => d' == d
  | _ => true

theorem moveCursor_depth (d w : Nat) (pos : C06.Point) (last : Option Nat) (new : C06.Point) :
    (C06.moveCursor w pos last new).1.all (depthOk d) = true := by
  unfold C06.moveCursor
  split
  · simp [depthOk]
  · simp only [List.all_append, Bool.and_eq_true]
    constructor
    · split <;> simp [depthOk]
    · split
      · simp [depthOk]
      · split
        · simp [depthOk]
        · split <;> simp [depthOk]

theorem outputChar_depth (e : C06.Env) (last : Option Nat) (c : C06.Cell) :
    (C06.outputChar e last c).1.all (depthOk e.depth) = true := by
  unfold C06.outputChar
  split
  · simp [depthOk]
  · simp only [List.all_append, Bool.and_eq_true]
    constructor
    · split <;> simp [depthOk]
    · simp [depthOk]

theorem zwe_depth (d : Nat) (z) (y x : Nat) : (C06.zweCmds z y x).all (depthOk d) = true := by
  unfold C06.zweCmds; split <;> simp [depthOk]

theorem colLoop_depth (e : C06.Env) (s : C06.Screen) (y : Nat) (nr pr : List C06.Cell) (n : Nat) :
    ∀ (fuel c : Nat) (pos : C06.Point) (last : Option Nat),
    (C06.colLoop e s y nr pr n fuel c pos last).cmds.all (depthOk e.depth) = true := by
  intro fuel
  induction fuel with
  | zero => intro c pos last; simp [C06.colLoop]
  | succ f ih =>
    intro c pos last
    unfold C06.colLoop
    split
    · simp only []
      split
      · simp only [List.all_append, Bool.and_eq_true]
        exact ⟨moveCursor_depth _ _ _ _ _, zwe_depth _ _ _ _, outputChar_depth _ _ _, ih _ _ _⟩
      · exact ih _ _ _
    · simp

theorem rowStep_depth (e : C06.Env) (s prev : C06.Screen) (y : Nat) (pos : C06.Point) (last : Option Nat) :
    (C06.rowStep e s prev y pos last).cmds.all (depthOk e.depth) = true := by
  unfold C06.rowStep
  simp only []
  split
  · simp only [List.all_append, Bool.and_eq_true]
    exact ⟨colLoop_depth _ _ _ _ _ _ _ _ _ _, moveCursor_depth _ _ _ _ _, by simp [depthOk]⟩
  · exact colLoop_depth _ _ _ _ _ _ _ _ _ _

theorem rowLoop_depth (e : C06.Env) (s prev : C06.Screen) :
    ∀ (k y : Nat) (pos : C06.Point) (last : Option Nat),
    (C06.rowLoop e s prev k y pos last).cmds.all (depthOk e.depth) = true := by
  intro k
  induction k with
  | zero => intro y pos last; simp [C06.rowLoop]
  | succ k ih =>
    intro y pos last
    simp only [C06.rowLoop, List.all_append, Bool.and_eq_true]
    exact ⟨rowStep_depth _ _ _ _ _ _, ih _ _ _⟩

theorem preamble_depth (e : C06.Env) (pos : C06.Point) (prev : Option C06.Screen) (last : Option Nat)
    (isDone : Bool) (pw : Nat) :
    (C06.preamble e pos prev last isDone pw).1.cmds.all (depthOk e.depth) = true := by
  unfold C06.preamble
  simp only []
  split
  · simp only [List.all_append, Bool.and_eq_true]
    refine ⟨by simp [depthOk], ?_, ?_, moveCursor_depth _ _ _ _ _, by simp [depthOk]⟩
    · split <;> simp [depthOk]
    · split <;> simp [depthOk]
  · simp only [List.all_append, Bool.and_eq_true]
    refine ⟨by simp [depthOk], ?_, ?_⟩
    · split <;> simp [depthOk]
    · split <;> simp [depthOk]

theorem finish_depth (e : C06.Env) (s prev : C06.Screen) (isDone : Bool) (pos : C06.Point) (last : Option Nat) :
    (C06.finish e s prev isDone pos last).cmds.all (depthOk e.depth) = true := by
  unfold C06.finish
  simp only [List.all_append, Bool.and_eq_true]
  refine ⟨?_, moveCursor_depth _ _ _ _ _, ?_, ?_, by simp [depthOk], ?_⟩
  · split
    · exact moveCursor_depth _ _ _ _ _
    · simp
  · split <;> simp [depthOk]
  · split <;> simp [depthOk]
  · split <;> simp [depthOk]

-- renderer.py::_output_screen_diff — every `set_attributes` call of `Ptk.C06.diff` uses `color_depth`
theorem diff_depth (e : C06.Env) (s : C06.Screen) (pos : C06.Point) (prev : Option C06.Screen) (last : Option Nat)
    (isDone : Bool) (pw : Nat) :
    (C06.diff e s pos prev last isDone pw).cmds.all (depthOk e.depth) = true := by
  unfold C06.diff
  simp only [List.all_append, Bool.and_eq_true]
  exact ⟨preamble_depth _ _ _ _ _ _, rowLoop_depth _ _ _ _ _ _ _, finish_depth _ _ _ _ _ _⟩


/-! ### from equal calls to equal bytes -/

theorem repeatCrLf_safe (k : Nat) : C10.safeWrite (C10.repeatCrLf k) = C10.repeatCrLf k := by
  induction k with
  | zero => rfl
  | succ k ih =>
    have e1 : (if C10.CR = C10.ESC then C10.QM else C10.CR) = C10.CR := by decide
    have e2 : (if C10.LF = C10.ESC then C10.QM else C10.LF) = C10.LF := by decide
    simp only [C10.repeatCrLf, C10.safeWrite, List.map_cons] at ih ⊢; rw [ih, e1, e2]

-- one call: `Ptk.C10.vtEv` (with the regenerated emitter strings) vs `Ptk.C06.vtEmit`, for calls that are equal in
-- the common vocabulary `OCall`; `sgr` = the escape code of an attrs id, i.e. C06's/C19's `_EscapeCodeCache[depth]`
theorem ev_cmd_bytes (sgr : Nat → List Nat) (code : C06.Attrs → Nat) (depth : Nat)
    (hsgr : ∀ a, sgr (code a) = tn (C06.escapeCode depth a)) (st : C06.VtSt) (ev : C10.Ev) (cmd : C06.Cmd)
    (h : evTo ev = cmdTo code cmd) (hd : depthOk depth cmd = true) :
    (C10.vtEv C10.genEmit sgr st.cursorVisible ev).1 = (C06.vtEmit st cmd).1.cursorVisible ∧
    (C10.vtEv C10.genEmit sgr st.cursorVisible ev).2.2 = tn (C06.vtEmit st cmd).2 := by
  obtain ⟨h1, h2, h3, h4, h5, h6, h7, _⟩ := gen_fixed
  cases cmd <;> (try (exfalso; cases ev <;> simp [evTo, cmdTo] at h; done))
  case write t =>
    have hw : tn (C06.vtEmit st (C06.Cmd.write t)).snd = C10.safeWrite (toN t) := (write_eq st t).1
    cases ev <;> simp only [evTo, cmdTo, OCall.write.injEq, reduceCtorEq] at h
    case cell u => subst h; exact ⟨rfl, hw.symm⟩
    case cr => rw [← h] at hw; exact ⟨rfl, hw.symm⟩
    case nl k => rw [← h, repeatCrLf_safe] at hw; exact ⟨rfl, by rw [hw]; exact repeatCrLf_safe k⟩
  case writeRaw t =>
    cases ev <;> simp only [evTo, cmdTo, OCall.writeRaw.injEq, reduceCtorEq] at h
    case raw u => subst h; exact ⟨rfl, rfl⟩
  case setAttrs a d' sh =>
    cases ev <;> simp only [evTo, cmdTo, OCall.setAttrs.injEq, reduceCtorEq] at h
    case setAttrs n =>
      subst h
      have : d' = depth := by simpa [depthOk] using hd
      subst this
      exact ⟨rfl, hsgr a⟩
  case resetAttrs =>
    cases ev <;> simp only [evTo, cmdTo, reduceCtorEq] at h
    exact ⟨rfl, by simp [C10.vtEv, C06.vtEmit, C10.genEmit, h1]⟩
  case cursorUp n =>
    cases ev <;> simp only [evTo, cmdTo, OCall.cursorUp.injEq, reduceCtorEq] at h
    subst h
    exact ⟨rfl, by simp [C10.vtEv, C06.vtEmit, C10.genEmit, moveCode_amountSeq]; rfl⟩
  case cursorForward n =>
    cases ev <;> simp only [evTo, cmdTo, OCall.cursorForward.injEq, reduceCtorEq] at h
    subst h
    exact ⟨rfl, by simp [C10.vtEv, C06.vtEmit, C10.genEmit, moveCode_amountSeq]; rfl⟩
  case cursorBackward n =>
    cases ev <;> simp only [evTo, cmdTo, OCall.cursorBackward.injEq, reduceCtorEq] at h
    subst h
    exact ⟨rfl, by simp [C10.vtEv, C06.vtEmit, C10.genEmit, moveCode_amountSeq]; rfl⟩
  case eraseDown =>
    cases ev <;> simp only [evTo, cmdTo, reduceCtorEq] at h
    exact ⟨rfl, by simp [C10.vtEv, C06.vtEmit, C10.genEmit, h2]⟩
  case eraseEol =>
    cases ev <;> simp only [evTo, cmdTo, reduceCtorEq] at h
    exact ⟨rfl, by simp [C10.vtEv, C06.vtEmit, C10.genEmit, h3]⟩
  case hideCursor =>
    cases ev <;> simp only [evTo, cmdTo, reduceCtorEq] at h
    simp only [C10.vtEv, C06.vtEmit]
    by_cases hv : st.cursorVisible = some false <;> simp [hv, C10.genEmit, h4]
  case showCursor =>
    cases ev <;> simp only [evTo, cmdTo, reduceCtorEq] at h
    simp only [C10.vtEv, C06.vtEmit]
    by_cases hv : st.cursorVisible = some true <;> simp [hv, C10.genEmit, h5]
  case disableAutowrap =>
    cases ev <;> simp only [evTo, cmdTo, reduceCtorEq] at h
    exact ⟨rfl, by simp [C10.vtEv, C06.vtEmit, C10.genEmit, h6]⟩
  case enableAutowrap =>
    cases ev <;> simp only [evTo, cmdTo, reduceCtorEq] at h
    exact ⟨rfl, by simp [C10.vtEv, C06.vtEmit, C10.genEmit, h7]⟩


-- a sequence of calls: `Ptk.C10.vtSegs` vs `Ptk.C06.vtEmitAll`
theorem calls_bytes (sgr : Nat → List Nat) (code : C06.Attrs → Nat) (depth : Nat)
    (hsgr : ∀ a, sgr (code a) = tn (C06.escapeCode depth a)) :
    ∀ (evs : List C10.Ev) (cmds : List C06.Cmd) (st : C06.VtSt),
    evs.map evTo = cmds.map (cmdTo code) → cmds.all (depthOk depth) = true →
    (C10.vtSegs C10.genEmit sgr st.cursorVisible evs).1 = (C06.vtEmitAll st cmds).1.cursorVisible ∧
    C10.segsText (C10.vtSegs C10.genEmit sgr st.cursorVisible evs).2 = tn (C06.vtEmitAll st cmds).2 := by
  intro evs
  induction evs with
  | nil =>
    intro cmds st h _
    cases cmds with
    | nil => exact ⟨rfl, rfl⟩
    | cons c cs => simp at h
  | cons ev evs ih =>
    intro cmds st h hd
    cases cmds with
    | nil => simp at h
    | cons c cs =>
      simp only [List.map_cons, List.cons.injEq] at h
      simp only [List.all_cons, Bool.and_eq_true] at hd
      obtain ⟨e1, e2⟩ := ev_cmd_bytes sgr code depth hsgr st ev c h.1 hd.1
      have ih' := ih cs (C06.vtEmit st c).1 h.2 hd.2
      simp only [C10.vtSegs, C06.vtEmitAll]
      rw [e1]
      refine ⟨ih'.1, ?_⟩
      simp only [C10.segsText, List.map_cons, List.flatten_cons] at ih' ⊢
      rw [e2, ih'.2, tn_append]

-- renderer.py::_output_screen_diff + output/vt100.py::Vt100_Output — the TEXT sent to the terminal for one screen
-- update: `Ptk.C10.renderText` of `Ptk.C10.diff` (emitter strings regenerated for C10) vs `Ptk.C06.vtEmitAll` of
-- `Ptk.C06.diff` (strings regenerated for C06, escape codes `Ptk.C06.escapeCode`), for the translated screen
theorem diff_text_agree (sty : Nat → Text) (code : C06.Attrs → Nat) (ok : TrOk sty code) (e : C06.Env)
    (cfg : C10.DiffCfg) (hc : CfgRel sty code e cfg) (sgr : Nat → List Nat)
    (hsgr : ∀ a, sgr (code a) = tn (C06.escapeCode e.depth a))
    (s : C06.Screen) (prev : Option C06.Screen) (pos : C06.Point) (last : Option Nat) (isDone : Bool)
    (prevWidth : Nat) (st : C06.VtSt) :
    C10.renderText C10.genEmit sgr st.cursorVisible
        (C10.diff cfg (cellTo sty C06.Cell.dflt) (screenTo sty s) (prev.map (screenTo sty))
          pos.x pos.y (last.map sty) isDone e.fullScreen prevWidth)
      = tn (C06.vtEmitAll st (C06.diff e s pos prev last isDone prevWidth).cmds).2 := by
  have h := (diff_agree_screenTo ok e cfg hc s prev pos last isDone prevWidth).1
  exact (calls_bytes sgr code e.depth hsgr _ _ st (by simpa using h)
    (diff_depth e s pos prev last isDone prevWidth)).2

end Ptk.AgreeOut.Bytes
