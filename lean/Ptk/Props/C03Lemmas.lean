/-
  C03 — helper lemmas about the decoder model (`Ptk.Model.C03`): the retry loop terminates within
  its fuel, one-step unfolding equations for `process` and `feed`, facts about `findSub?`.
-/
import Ptk.Model.C03
namespace Ptk.C03
open Ptk.Py

/-! ### `callHandler` only touches `out`, `inPaste`, `paste` -/

@[simp] theorem callHandler_pre (cfg : Cfg) (s : St) (m : List String) (d : Text) :
    (callHandler cfg s m d).pre = s.pre := by
  induction m generalizing s d with
  | nil => rfl
  | cons k ks ih =>
    rw [callHandler]
    split <;> rw [ih]

/-! ### the shift loop only shortens the prefix -/

theorem shiftLoop_spec (cfg : Cfg) (i : Nat) (s : St) (f : Bool) :
    (shiftLoop cfg i s f).1.pre.length ≤ s.pre.length ∧
    ((shiftLoop cfg i s f).2 = false → (shiftLoop cfg i s f).1 = s ∧ f = false) ∧
    (f = false → (shiftLoop cfg i s f).2 = true → s.pre ≠ [] →
      (shiftLoop cfg i s f).1.pre.length < s.pre.length) := by
  induction i generalizing s f with
  | zero =>
    simp only [shiftLoop]
    refine ⟨Nat.le_refl _, fun h => ⟨trivial, h⟩, ?_⟩
    intro h1 h2; rw [h1] at h2; cases h2
  | succ i ih =>
    rw [shiftLoop]
    by_cases hm : (getMatch cfg (s.pre.take (i + 1))).isEmpty = true
    · simp only [hm, Bool.not_true, Bool.false_eq_true, if_false]
      exact ih s f
    · simp only [hm, Bool.not_false, if_true]
      have h := ih (callHandler cfg { s with pre := s.pre.drop (i + 1) }
        (getMatch cfg (s.pre.take (i + 1))) (s.pre.take (i + 1))) true
      simp only [callHandler_pre] at h
      obtain ⟨h1, h2, _⟩ := h
      have hd : (s.pre.drop (i + 1)).length ≤ s.pre.length := by simp
      refine ⟨by omega, ?_, ?_⟩
      · intro hf; exact absurd (h2 hf).2 (by simp)
      · intro _ _ hne
        have : (s.pre.drop (i + 1)).length < s.pre.length := by
          cases hp : s.pre with
          | nil => exact absurd hp hne
          | cons c r => simp; omega
        omega

theorem shiftStep_lt (cfg : Cfg) (s : St) (h : s.pre ≠ []) :
    (shiftStep cfg s).pre.length < s.pre.length := by
  unfold shiftStep
  have hs := shiftLoop_spec cfg s.pre.length s false
  generalize shiftLoop cfg s.pre.length s false = r at hs
  obtain ⟨s1, found⟩ := r
  obtain ⟨_, h2, h3⟩ := hs
  cases found with
  | true => simpa using h3 rfl rfl h
  | false =>
    have := (h2 rfl).1
    simp only at this
    subst this
    simp only [Bool.false_eq_true, if_false]
    cases hp : s1.pre with
    | nil => exact absurd hp h
    | cons c r => simp

/-! ### fuel -/

theorem process_stable (cfg : Cfg) (fl : Bool) (f1 : Nat) :
    ∀ (f2 : Nat) (s : St), s.pre.length ≤ f1 → s.pre.length ≤ f2 →
      process cfg f1 fl s = process cfg f2 fl s := by
  induction f1 with
  | zero =>
    intro f2 s h1 _
    have hp : s.pre = [] := List.eq_nil_of_length_eq_zero (by omega)
    cases f2 with
    | zero => rfl
    | succ f2 => simp [process, hp]
  | succ f1 ih =>
    intro f2 s h1 h2
    cases f2 with
    | zero =>
      have hp : s.pre = [] := List.eq_nil_of_length_eq_zero (by omega)
      simp [process, hp]
    | succ f2 =>
      rw [process, process]
      by_cases hp : s.pre = []
      · simp [hp]
      · have hlt := shiftStep_lt cfg s hp
        rw [ih f2 (shiftStep cfg s) (by omega) (by omega)]

/-- the coroutine body with exactly the fuel the model gives it -/
def proc (cfg : Cfg) (fl : Bool) (s : St) : St := process cfg s.pre.length fl s

theorem sendChar_eq (cfg : Cfg) (s : St) (c : Char) :
    sendChar cfg s c = proc cfg false { s with pre := s.pre ++ [c] } := rfl
theorem flush_eq (cfg : Cfg) (s : St) : flush cfg s = proc cfg true s := rfl

/-- fuel-free unfolding of one `while True` iteration -/
theorem proc_eq (cfg : Cfg) (fl : Bool) (s : St) :
    proc cfg fl s =
      if s.pre.isEmpty then s
      else if fl || !isPrefixOfLonger cfg s.pre then
        if !(getMatch cfg s.pre).isEmpty then callHandler cfg { s with pre := [] } (getMatch cfg s.pre) s.pre
        else proc cfg fl (shiftStep cfg s)
      else s := by
  unfold proc
  cases hp : s.pre with
  | nil => simp [process]
  | cons c r =>
    have hne : s.pre ≠ [] := by simp [hp]
    have hlt := shiftStep_lt cfg s hne
    simp only [List.length_cons, process, hp, List.isEmpty_cons, Bool.false_eq_true, if_false]
    rw [hp] at hlt
    rw [process_stable cfg fl r.length (shiftStep cfg s).pre.length (shiftStep cfg s)
      (by simp at hlt; omega) (Nat.le_refl _)]

theorem proc_nil (cfg : Cfg) (fl : Bool) (s : St) (h : s.pre = []) : proc cfg fl s = s := by
  rw [proc_eq]; simp [h]

/-- induction principle following the retry loop -/
theorem proc_induct (cfg : Cfg) (P : St → Prop)
    (step : ∀ s, (s.pre ≠ [] → P (shiftStep cfg s)) → P s) (s : St) : P s := by
  generalize hn : s.pre.length = n
  induction n using Nat.strongRecOn generalizing s with
  | _ n ih =>
    apply step
    intro hne
    exact ih _ (by rw [← hn]; exact shiftStep_lt cfg s hne) _ rfl

/-- when the body yields again, the prefix is empty or still a proper prefix of something longer
    and no flush was requested -/
theorem proc_post (cfg : Cfg) (fl : Bool) (s : St) :
    (proc cfg fl s).pre = [] ∨ (fl = false ∧ isPrefixOfLonger cfg (proc cfg fl s).pre = true) := by
  induction s using proc_induct cfg with
  | step s ih =>
    rw [proc_eq]
    by_cases hp : s.pre = []
    · simp [hp]
    · have hpe : s.pre.isEmpty = false := by simpa [List.isEmpty_iff] using hp
      simp only [hpe, Bool.false_eq_true, if_false]
      by_cases hc : (fl || !isPrefixOfLonger cfg s.pre) = true
      · simp only [hc, if_true]
        by_cases hm : (getMatch cfg s.pre).isEmpty = true
        · simp only [hm, Bool.not_true, Bool.false_eq_true, if_false]
          exact ih hp
        · simp [hm]
      · simp only [hc, Bool.false_eq_true, if_false]
        right
        simp at hc
        exact ⟨hc.1, hc.2⟩

/-! ### `findSub?` (Python `sub in s` / `s.index(sub)`) -/

theorem isPrefixOf'_iff (sub l : Text) : isPrefixOf' sub l = true ↔ sub <+: l := by
  induction sub generalizing l with
  | nil => simp [isPrefixOf']
  | cons a as ih =>
    cases l with
    | nil => simp [isPrefixOf']
    | cons b bs =>
      simp only [isPrefixOf', Bool.and_eq_true, beq_iff_eq, ih, List.cons_prefix_cons]

/-- `findSub? sub l = some j` : `sub` occurs at `j` and at no smaller index -/
theorem findSub_some_iff (sub l : Text) (j : Nat) :
    findSub? sub l = some j ↔
      (j ≤ l.length ∧ sub <+: l.drop j ∧ ∀ i, i < j → ¬ sub <+: l.drop i) := by
  induction l generalizing j with
  | nil =>
    simp only [findSub?, List.length_nil, List.drop_nil, List.prefix_nil]
    by_cases hs : sub = []
    · subst hs
      simp only [List.isEmpty_nil, if_true, Option.some.injEq]
      constructor
      · intro h; subst h; simp
      · rintro ⟨h, _, _⟩; omega
    · have : sub.isEmpty = false := by simpa [List.isEmpty_iff] using hs
      simp [this, hs]
  | cons x xs ih =>
    rw [findSub?]
    by_cases hp : isPrefixOf' sub (x :: xs) = true
    · simp only [hp, if_true, Option.some.injEq]
      rw [isPrefixOf'_iff] at hp
      constructor
      · intro h; subst h; exact ⟨by simp, by simpa using hp, by simp⟩
      · rintro ⟨_, _, h3⟩
        cases j with
        | zero => rfl
        | succ j => exact absurd hp (by simpa using h3 0 (by omega))
    · simp only [hp, Bool.false_eq_true, if_false]
      rw [isPrefixOf'_iff] at hp
      cases j with
      | zero =>
        simp only [Option.map_eq_some_iff]
        constructor
        · rintro ⟨a, _, h⟩; omega
        · rintro ⟨_, h2, _⟩; exact absurd (by simpa using h2) hp
      | succ j =>
        simp only [Option.map_eq_some_iff, Nat.add_right_cancel_iff, exists_eq_right, ih,
          List.length_cons, Nat.add_le_add_iff_right, List.drop_succ_cons]
        constructor
        · rintro ⟨h1, h2, h3⟩
          refine ⟨h1, h2, ?_⟩
          intro i hi
          cases i with
          | zero => simpa using hp
          | succ i => simpa using h3 i (by omega)
        · rintro ⟨h1, h2, h3⟩
          exact ⟨h1, h2, fun i hi => by simpa using h3 (i + 1) (by omega)⟩

theorem findSub_none_iff (sub l : Text) :
    findSub? sub l = none ↔ ∀ i, i ≤ l.length → ¬ sub <+: l.drop i := by
  constructor
  · intro h i hi hp
    -- take the least such index
    have : ∃ j, findSub? sub l = some j := by
      induction i using Nat.strongRecOn with
      | _ i ih =>
        by_cases hex : ∃ k, k < i ∧ sub <+: l.drop k
        · obtain ⟨k, hk, hkp⟩ := hex
          exact ih k hk (by omega) hkp
        · refine ⟨i, (findSub_some_iff sub l i).2 ⟨hi, hp, ?_⟩⟩
          intro k hk hkp; exact hex ⟨k, hk, hkp⟩
    obtain ⟨j, hj⟩ := this
    rw [h] at hj; cases hj
  · intro h
    cases hf : findSub? sub l with
    | none => rfl
    | some j =>
      obtain ⟨h1, h2, _⟩ := (findSub_some_iff sub l j).1 hf
      exact absurd h2 (h j h1)

theorem findSub_bound {sub l : Text} {j : Nat} (h : findSub? sub l = some j) :
    j + sub.length ≤ l.length := by
  obtain ⟨h1, h2, _⟩ := (findSub_some_iff sub l j).1 h
  have := h2.length_le
  simp at this; omega

/-- `l = l[:j] + sub + l[j+len(sub):]` -/
theorem findSub_split {sub l : Text} {j : Nat} (h : findSub? sub l = some j) :
    l = l.take j ++ sub ++ l.drop (j + sub.length) := by
  obtain ⟨_, h2, _⟩ := (findSub_some_iff sub l j).1 h
  have h3 := List.prefix_iff_eq_append.1 h2
  rw [List.drop_drop] at h3
  rw [List.append_assoc, h3, List.take_append_drop]

/-- the first occurrence is not moved by appending more text -/
theorem findSub_append {sub l : Text} {j : Nat} (b : Text) (h : findSub? sub l = some j) :
    findSub? sub (l ++ b) = some j := by
  have hb := findSub_bound h
  obtain ⟨h1, h2, h3⟩ := (findSub_some_iff sub l j).1 h
  refine (findSub_some_iff sub (l ++ b) j).2 ⟨by simp; omega, ?_, ?_⟩
  · rw [List.drop_append_of_le_length h1]
    exact h2.trans (List.prefix_append _ _)
  · intro i hi hp
    rw [List.drop_append_of_le_length (by omega)] at hp
    refine h3 i hi (List.prefix_of_prefix_length_le hp (List.prefix_append _ _) ?_)
    simp; omega

/-! ### paste-mode invariant: entering bracketed paste empties the paste buffer -/

/-- `_in_bracketed_paste → _paste_buffer == ""` (true whenever paste mode was entered by the
    handler and no data has been fed since) -/
def FreshPaste (s : St) : Prop := s.inPaste = true → s.paste = []

/-- any predicate on `(inPaste, paste)` that holds on entering paste mode is kept by the handler … -/
theorem callHandler_pasteQ (Q : Bool → Text → Prop) (h0 : Q true []) (cfg : Cfg) (s : St)
    (m : List String) (d : Text) (h : Q s.inPaste s.paste) :
    Q (callHandler cfg s m d).inPaste (callHandler cfg s m d).paste := by
  induction m generalizing s d with
  | nil => exact h
  | cons k ks ih =>
    rw [callHandler]
    apply ih
    split
    · exact h0
    · exact h

theorem shiftLoop_pasteQ (Q : Bool → Text → Prop) (h0 : Q true []) (cfg : Cfg) (i : Nat) (s : St)
    (f : Bool) (h : Q s.inPaste s.paste) :
    Q (shiftLoop cfg i s f).1.inPaste (shiftLoop cfg i s f).1.paste := by
  induction i generalizing s f with
  | zero => exact h
  | succ i ih =>
    rw [shiftLoop]
    split
    · exact ih _ _ (callHandler_pasteQ Q h0 cfg _ _ _ h)
    · exact ih _ _ h

theorem shiftStep_pasteQ (Q : Bool → Text → Prop) (h0 : Q true []) (cfg : Cfg) (s : St)
    (h : Q s.inPaste s.paste) : Q (shiftStep cfg s).inPaste (shiftStep cfg s).paste := by
  unfold shiftStep
  have hs := shiftLoop_pasteQ Q h0 cfg s.pre.length s false h
  generalize shiftLoop cfg s.pre.length s false = r at hs
  obtain ⟨s1, found⟩ := r
  simp only at hs ⊢
  split
  · exact hs
  · split
    · exact callHandler_pasteQ Q h0 cfg _ _ _ hs
    · exact hs

/-- … and by the whole coroutine body -/
theorem proc_pasteQ (Q : Bool → Text → Prop) (h0 : Q true []) (cfg : Cfg) (fl : Bool) (s : St)
    (h : Q s.inPaste s.paste) : Q (proc cfg fl s).inPaste (proc cfg fl s).paste := by
  induction s using proc_induct cfg with
  | step s ih =>
    rw [proc_eq]
    split
    · exact h
    · split
      · split
        · exact callHandler_pasteQ Q h0 cfg _ _ _ h
        · rename_i hne _ _
          exact ih (by simpa [List.isEmpty_iff] using hne) (shiftStep_pasteQ Q h0 cfg s h)
      · exact h

theorem proc_fresh (cfg : Cfg) (fl : Bool) (s : St) (h : FreshPaste s) : FreshPaste (proc cfg fl s) :=
  proc_pasteQ (fun ip p => ip = true → p = []) (fun _ => rfl) cfg fl s h

theorem sendChar_fresh (cfg : Cfg) (s : St) (c : Char) (h : FreshPaste s) :
    FreshPaste (sendChar cfg s c) := by
  rw [sendChar_eq]; exact proc_fresh cfg false _ h

/-! ### `feedNormal` -/

theorem feedNormal_inPaste (cfg : Cfg) (d : Text) (s : St) (h : s.inPaste = true) :
    feedNormal cfg d s = (s, d) := by
  cases d <;> simp [feedNormal, h]

/-- the loop either consumes everything, or stops in a fresh paste mode with a proper rest -/
theorem feedNormal_spec (cfg : Cfg) (d : Text) (s : St) (h : s.inPaste = false) :
    FreshPaste (feedNormal cfg d s).1 ∧
    ((feedNormal cfg d s).2 ≠ [] →
      (feedNormal cfg d s).1.inPaste = true ∧ (feedNormal cfg d s).2.length < d.length) := by
  induction d generalizing s with
  | nil => simp [feedNormal, FreshPaste, h]
  | cons c cs ih =>
    rw [feedNormal]
    simp only [h, Bool.false_eq_true, if_false]
    have hf : FreshPaste (sendChar cfg s c) := sendChar_fresh cfg s c (by simp [FreshPaste, h])
    by_cases hp : (sendChar cfg s c).inPaste = true
    · rw [feedNormal_inPaste cfg cs _ hp]
      exact ⟨hf, fun _ => ⟨hp, by simp⟩⟩
    · have := ih (sendChar cfg s c) (by simpa using hp)
      exact ⟨this.1, fun hne => ⟨(this.2 hne).1, by have := (this.2 hne).2; simp; omega⟩⟩

theorem feedNormal_append (cfg : Cfg) (a b : Text) (s : St) :
    feedNormal cfg (a ++ b) s =
      if (feedNormal cfg a s).1.inPaste then ((feedNormal cfg a s).1, (feedNormal cfg a s).2 ++ b)
      else feedNormal cfg b (feedNormal cfg a s).1 := by
  induction a generalizing s with
  | nil =>
    simp only [List.nil_append, feedNormal]
    by_cases h : s.inPaste = true
    · simp [h, feedNormal_inPaste]
    · simp [h]
  | cons c cs ih =>
    by_cases h : s.inPaste = true
    · simp [feedNormal_inPaste, h]
    · simp only [List.cons_append, feedNormal, h, Bool.false_eq_true, if_false]
      exact ih _

/-! ### `feed`: the recursion bound is never reached; fuel-free unfolding -/

/-- text still to be looked at -/
def meas (s : St) (d : Text) : Nat := (if s.inPaste then s.paste.length else 0) + d.length

theorem feedFuel_stable (cfg : Cfg) (n : Nat) :
    ∀ (m : Nat) (s : St) (d : Text), meas s d < n → meas s d < m →
      feedFuel cfg n s d = feedFuel cfg m s d := by
  induction n with
  | zero => intro m s d h; omega
  | succ n ih =>
    intro m s d hn hm
    cases m with
    | zero => omega
    | succ m =>
      rw [feedFuel, feedFuel]
      by_cases hp : s.inPaste = true
      · simp only [hp, if_true]
        cases hf : findSub? endMark (s.paste ++ d) with
        | none => rfl
        | some j =>
          simp only
          have hb := findSub_bound hf
          apply ih
          all_goals
            simp only [meas, hp, if_true, Bool.false_eq_true, if_false, List.length_drop,
              List.length_append, endMark, List.length_cons, List.length_nil] at *
            omega
      · simp only [hp, Bool.false_eq_true, if_false]
        have hs := feedNormal_spec cfg d s (by simpa using hp)
        generalize feedNormal cfg d s = r at hs
        obtain ⟨s1, rest⟩ := r
        simp only at hs ⊢
        by_cases hr : rest = []
        · simp [hr]
        · have hre : rest.isEmpty = false := by simpa [List.isEmpty_iff] using hr
          simp only [hre, Bool.false_eq_true, if_false]
          obtain ⟨h1, h2⟩ := hs
          obtain ⟨h3, h4⟩ := h2 hr
          have h5 := h1 h3
          apply ih
          all_goals
            simp only [meas, hp, h3, h5, if_true, Bool.false_eq_true, if_false,
              List.length_nil] at *
            omega

theorem feed_eq (cfg : Cfg) (s : St) (d : Text) :
    feed cfg s d =
      if s.inPaste then
        match findSub? endMark (s.paste ++ d) with
        | some j =>
          feed cfg
            { s with out := s.out ++ [⟨cfg.pasteKey, (s.paste ++ d).take j⟩], inPaste := false, paste := [] }
            ((s.paste ++ d).drop (j + endMark.length))
        | none => { s with paste := s.paste ++ d }
      else
        if (feedNormal cfg d s).2.isEmpty then (feedNormal cfg d s).1
        else feed cfg (feedNormal cfg d s).1 (feedNormal cfg d s).2 := by
  unfold feed
  rw [feedFuel]
  by_cases hp : s.inPaste = true
  · simp only [hp, if_true]
    cases hf : findSub? endMark (s.paste ++ d) with
    | none => rfl
    | some j =>
      simp only
      have hb := findSub_bound hf
      apply feedFuel_stable
      all_goals
        simp only [meas, Bool.false_eq_true, if_false, List.length_drop,
          List.length_append, endMark, List.length_cons, List.length_nil] at *
        omega
  · simp only [hp, Bool.false_eq_true, if_false]
    have hs := feedNormal_spec cfg d s (by simpa using hp)
    generalize feedNormal cfg d s = r at hs
    obtain ⟨s1, rest⟩ := r
    simp only at hs ⊢
    by_cases hr : rest = []
    · simp [hr]
    · have hre : rest.isEmpty = false := by simpa [List.isEmpty_iff] using hr
      simp only [hre, Bool.false_eq_true, if_false]
      obtain ⟨h1, h2⟩ := hs
      obtain ⟨h3, h4⟩ := h2 hr
      have h5 := h1 h3
      apply feedFuel_stable
      all_goals
        simp only [meas, h3, h5, if_true, List.length_nil] at *
        omega

/-- induction principle following the recursion of `Vt100Parser.feed` -/
theorem feed_induct (cfg : Cfg) (P : St → Text → Prop)
    (pasteOpen : ∀ s d, s.inPaste = true → findSub? endMark (s.paste ++ d) = none → P s d)
    (pasteEnd : ∀ s d j, s.inPaste = true → findSub? endMark (s.paste ++ d) = some j →
      P { s with out := s.out ++ [⟨cfg.pasteKey, (s.paste ++ d).take j⟩], inPaste := false, paste := [] }
        ((s.paste ++ d).drop (j + endMark.length)) → P s d)
    (normalDone : ∀ s d, s.inPaste = false → (feedNormal cfg d s).2 = [] → P s d)
    (normalPaste : ∀ s d, s.inPaste = false → (feedNormal cfg d s).2 ≠ [] →
      (feedNormal cfg d s).1.inPaste = true → (feedNormal cfg d s).1.paste = [] →
      P (feedNormal cfg d s).1 (feedNormal cfg d s).2 → P s d)
    (s : St) (d : Text) : P s d := by
  generalize hn : meas s d = n
  induction n using Nat.strongRecOn generalizing s d with
  | _ n ih =>
    by_cases hp : s.inPaste = true
    · cases hf : findSub? endMark (s.paste ++ d) with
      | none => exact pasteOpen s d hp hf
      | some j =>
        refine pasteEnd s d j hp hf (ih _ ?_ _ _ rfl)
        have hb := findSub_bound hf
        simp only [meas, hp, if_true, Bool.false_eq_true, if_false, List.length_drop,
          List.length_append, endMark, List.length_cons, List.length_nil] at *
        omega
    · have hp' : s.inPaste = false := by simpa using hp
      by_cases hr : (feedNormal cfg d s).2 = []
      · exact normalDone s d hp' hr
      · have hs := feedNormal_spec cfg d s hp'
        obtain ⟨h3, h4⟩ := hs.2 hr
        have h5 := hs.1 h3
        refine normalPaste s d hp' hr h3 h5 (ih _ ?_ _ _ rfl)
        simp only [meas, hp, h3, h5, if_true, Bool.false_eq_true, if_false, List.length_nil] at *
        omega

theorem feed_pasteOpen (cfg : Cfg) (s : St) (d : Text) (hp : s.inPaste = true)
    (hf : findSub? endMark (s.paste ++ d) = none) : feed cfg s d = { s with paste := s.paste ++ d } := by
  rw [feed_eq]; simp only [hp, if_true, hf]

theorem feed_pasteEnd (cfg : Cfg) (s : St) (d : Text) (j : Nat) (hp : s.inPaste = true)
    (hf : findSub? endMark (s.paste ++ d) = some j) :
    feed cfg s d = feed cfg
      { s with out := s.out ++ [⟨cfg.pasteKey, (s.paste ++ d).take j⟩], inPaste := false, paste := [] }
      ((s.paste ++ d).drop (j + endMark.length)) := by
  rw [feed_eq]; simp only [hp, if_true, hf]

theorem feed_normalDone (cfg : Cfg) (s : St) (d : Text) (hp : s.inPaste = false)
    (hr : (feedNormal cfg d s).2 = []) : feed cfg s d = (feedNormal cfg d s).1 := by
  rw [feed_eq]; simp [hp, hr]

theorem feed_normalPaste (cfg : Cfg) (s : St) (d : Text) (hp : s.inPaste = false)
    (hr : (feedNormal cfg d s).2 ≠ []) :
    feed cfg s d = feed cfg (feedNormal cfg d s).1 (feedNormal cfg d s).2 := by
  rw [feed_eq]; simp [hp, hr]

theorem feedNormal_pasteQ (Q : Bool → Text → Prop) (h0 : Q true []) (cfg : Cfg) (d : Text) (s : St)
    (h : Q s.inPaste s.paste) : Q (feedNormal cfg d s).1.inPaste (feedNormal cfg d s).1.paste := by
  induction d generalizing s with
  | nil => exact h
  | cons c cs ih =>
    rw [feedNormal]
    split
    · exact h
    · exact ih _ (by rw [sendChar_eq]; exact proc_pasteQ Q h0 cfg false _ h)

/-- at rest the paste buffer never holds a complete end mark -/
def Ready (s : St) : Prop := s.inPaste = true → findSub? endMark s.paste = none

theorem ready_init : Ready St.init := by intro h; cases h

theorem flush_ready (cfg : Cfg) (s : St) (h : Ready s) : Ready (flush cfg s) :=
  proc_pasteQ (fun ip p => ip = true → findSub? endMark p = none) (fun _ => rfl) cfg true s h

theorem feed_ready (cfg : Cfg) (s : St) (d : Text) (h : Ready s) : Ready (feed cfg s d) := by
  induction s, d using feed_induct cfg with
  | pasteOpen s d hp hf => rw [feed_pasteOpen cfg s d hp hf]; exact fun _ => hf
  | pasteEnd s d j hp hf ih =>
    rw [feed_pasteEnd cfg s d j hp hf]; exact ih (by intro h; cases h)
  | normalDone s d hp hr =>
    rw [feed_normalDone cfg s d hp hr]
    exact feedNormal_pasteQ (fun ip p => ip = true → findSub? endMark p = none) (fun _ => rfl) cfg d s h
  | normalPaste s d hp hr _ _ ih =>
    rw [feed_normalPaste cfg s d hp hr]
    exact ih (feedNormal_pasteQ (fun ip p => ip = true → findSub? endMark p = none) (fun _ => rfl) cfg d s h)

/-- an empty read changes nothing -/
theorem feed_nil (cfg : Cfg) (s : St) (h : Ready s) : feed cfg s [] = s := by
  by_cases hp : s.inPaste = true
  · rw [feed_pasteOpen cfg s [] hp (by simpa using h hp)]; simp
  · rw [feed_normalDone cfg s [] (by simpa using hp) rfl]; rfl

/-- feeding `a ++ b` in one read = feeding `a`, then `b` (from every state) -/
theorem feed_append_aux (cfg : Cfg) (s : St) (a b : Text) :
    feed cfg s (a ++ b) = feed cfg (feed cfg s a) b := by
  generalize hn : meas s a = n
  induction n using Nat.strongRecOn generalizing s a with
  | _ n ih =>
    by_cases hp : s.inPaste = true
    · rw [feed_eq cfg s (a ++ b), feed_eq cfg s a]
      simp only [hp, if_true]
      cases hf : findSub? endMark (s.paste ++ a) with
      | some j =>
        have hf' : findSub? endMark (s.paste ++ (a ++ b)) = some j := by
          rw [← List.append_assoc]; exact findSub_append b hf
        simp only [hf']
        have hb := findSub_bound hf
        rw [← List.append_assoc, List.take_append_of_le_length (by omega),
          List.drop_append_of_le_length (by omega)]
        refine ih _ ?_ _ _ rfl
        simp only [meas, hp, if_true, Bool.false_eq_true, if_false, List.length_drop,
          List.length_append, endMark, List.length_cons, List.length_nil] at *
        omega
      | none =>
        simp only
        conv => rhs; rw [feed_eq]
        simp [List.append_assoc]
    · rw [feed_eq cfg s (a ++ b), feed_eq cfg s a]
      simp only [hp, Bool.false_eq_true, if_false]
      rw [feedNormal_append]
      have hs := feedNormal_spec cfg a s (by simpa using hp)
      generalize feedNormal cfg a s = r at hs ⊢
      obtain ⟨s1, rest⟩ := r
      simp only at hs ⊢
      by_cases h1 : s1.inPaste = true
      · simp only [h1, if_true]
        by_cases hr : rest = []
        · subst hr
          simp only [List.nil_append, List.isEmpty_nil, if_true]
          by_cases hb : b = []
          · subst hb
            have hp1 := hs.1 h1
            rw [feed_eq]
            cases s1
            simp_all [findSub?, endMark]
          · simp [hb]
        · have hre : (rest ++ b).isEmpty = false := by simp [hr]
          have hre' : rest.isEmpty = false := by simp [hr]
          simp only [hre, hre', Bool.false_eq_true, if_false]
          refine ih _ ?_ s1 rest rfl
          have := (hs.2 hr).2
          simp only [meas, hp, h1, hs.1 h1, if_true, Bool.false_eq_true, if_false,
            List.length_nil] at *
          omega
      · simp only [h1, Bool.false_eq_true, if_false]
        have hr : rest = [] := Classical.byContradiction fun hne => h1 (hs.2 hne).1
        subst hr
        simp only [List.isEmpty_nil, if_true]
        rw [feed_eq cfg s1 b]
        simp [h1]

/-! ### handler on non-paste keys; table lookup -/

theorem callHandler_noPaste (cfg : Cfg) (s : St) (v : List String) (d : Text)
    (h : cfg.pasteKey ∉ v) : callHandler cfg s v d = { s with out := s.out ++ presses v d } := by
  induction v generalizing s d with
  | nil => simp [callHandler, presses]
  | cons k ks ih =>
    have hk : (k == cfg.pasteKey) = false := by
      simp only [beq_eq_false_iff_ne, ne_eq]; intro e; exact h (by simp [e])
    rw [callHandler]
    simp only [hk, Bool.false_eq_true, if_false]
    rw [ih _ _ (fun hm => h (List.mem_cons_of_mem _ hm))]
    simp [presses]

theorem lookup_mem {t : Table} {k : Text} {v : List String} (h : lookup t k = v) (hv : v ≠ []) :
    (k, v) ∈ t := by
  unfold lookup at h
  cases hf : t.find? (fun kv => kv.1 == k) with
  | none => rw [hf] at h; exact absurd h.symm hv
  | some kv =>
    rw [hf] at h
    have h1 := List.find?_some hf
    have h2 := List.mem_of_find?_eq_some hf
    simp only [beq_iff_eq] at h1
    obtain ⟨a, b⟩ := kv
    simp only at h h1
    subst h h1
    exact h2

end Ptk.C03
