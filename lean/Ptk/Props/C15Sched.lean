/-
  C15 — scheduler steps (coroutine segments, producer-thread steps, cancellation) preserve the
  invariant `Inv` of `Ptk.Props.C15Inv`; `run_inv`: every state reachable by any finite
  sequence of user actions and scheduler steps satisfies it.
-/
import Ptk.Props.C15Inv
namespace Ptk.C15
open Ptk.Py

section sched
variable {cfg : Config} {env : Env}

theorem BufOK.congr {s s' : St} (h : BufOK cfg env s) (e1 : s'.text = s.text) (e2 : s'.cur = s.cur)
    (e3 : s'.cs = s.cs) (e4 : s'.vs = s.vs) (e5 : s'.verr = s.verr) (e6 : s'.sugg = s.sugg)
    (e7 : s'.nextTok = s.nextTok) : BufOK cfg env s' :=
  h.of_edit s' (by rw [e1, e2]; exact h.cur_le) (Or.inr ⟨e3, e1, e2⟩) (Or.inl ⟨e1, e4, e5, e6⟩) (by omega)

theorem countP_eraseIdx_of (p : Task → Bool) (l : List Task) (i : Nat) (t : Task) (h : l[i]? = some t) :
    l.countP p = (l.eraseIdx i).countP p + (if p t then 1 else 0) := by
  induction l generalizing i with
  | nil => simp at h
  | cons x xs ih =>
    cases i with
    | zero =>
      simp at h; subst h
      simp [List.countP_cons]
    | succ k =>
      simp at h
      have := ih k h
      simp [List.countP_cons, this]; omega

theorem no_isC_of_cnt0 {ts : List Task} (h : cntC ts = 0) {t : Task} (hm : t ∈ ts) : isC t = false := by
  unfold cntC at h
  rw [List.countP_eq_zero] at h
  simpa using h _ hm

theorem no_cLoad_of_cnt0 {ts : List Task} (h : cntC ts = 0) {m doc i tok} : Task.cLoad m doc i tok ∉ ts := by
  intro hm
  have := no_isC_of_cnt0 h hm
  simp [isC] at this

theorem isC_not_others {t : Task} (h : isC t = true) : isV t = false ∧ isS t = false ∧ isPending t = false := by
  cases t <;> simp_all [isC, isV, isS, isPending]

theorem mem_of_getElem? {l : List Task} {i : Nat} {t : Task} (h : l[i]? = some t) : t ∈ l :=
  List.mem_of_getElem? h

theorem dropTask_buf {s : St} (h : BufOK cfg env s) (i : Nat) : BufOK cfg env (dropTask s i) :=
  h.congr rfl rfl rfl rfl rfl rfl rfl

theorem dropTask_task {s : St} (h : TaskOK env s) (i : Nat) : TaskOK env (dropTask s i) := by
  intro t hm
  exact taskLink_of_csStep (Nat.le_refl _) (CsStep.refl _) (h t (List.mem_of_mem_eraseIdx hm))

/-- `TaskLink` depends on the state only through the menu and `nextTok` -/
theorem taskLink_congr {s s' : St} (e1 : s'.cs = s.cs) (e2 : s'.nextTok = s.nextTok) {t : Task}
    (h : TaskLink env s t) : TaskLink env s' t := by
  refine taskLink_of_csStep (Nat.le_of_eq e2.symm) ?_ h
  intro st' hst'
  exact ⟨st', by rw [← e1]; exact hst', rfl, rfl, rfl⟩

/-- outcome of a completer segment started from `s0` (the state without the running task) -/
structure CSegOK (cfg : Config) (env : Env) (s0 : St) (r : Seg) : Prop where
  buf : BufOK cfg env r.1
  ext : PendExt s0.tasks r.1.tasks
  runV : r.1.runV = s0.runV
  runS : r.1.runS = s0.runS
  cont : match r.2 with
    | none => r.1.runC = false
    | some t => r.1.runC = true ∧ isC t = true ∧ TaskLink env r.1 t

theorem inv_of_cseg {s0 : St} {r : Seg} (h : CSegOK cfg env s0 r) (hc : cntC s0.tasks = 0)
    (hv : cntV s0.tasks = b2n s0.runV) (hs : cntS s0.tasks = b2n s0.runS) :
    Inv cfg env (finishSeg r) := by
  obtain ⟨s1, t⟩ := r
  have hc1 : cntC s1.tasks = 0 := by rw [cntC_pendExt h.ext]; exact hc
  have hv1 : cntV s1.tasks = b2n s1.runV := by rw [cntV_pendExt h.ext, h.runV]; exact hv
  have hs1 : cntS s1.tasks = b2n s1.runS := by rw [cntS_pendExt h.ext, h.runS]; exact hs
  cases t with
  | none =>
    have hr : s1.runC = false := h.cont
    show Inv cfg env s1
    refine ⟨h.buf, ?_, ⟨by rw [hc1, hr]; rfl, hv1, hs1⟩⟩
    intro t hm
    exact taskLink_of_not_isC (no_isC_of_cnt0 hc1 hm)
  | some t =>
    obtain ⟨hr, hisC, hlink⟩ := h.cont
    obtain ⟨nv, ns, _⟩ := isC_not_others hisC
    refine ⟨h.buf.congr rfl rfl rfl rfl rfl rfl rfl, ?_, ⟨?_, ?_, ?_⟩⟩
    · intro t' hm
      simp only [finishSeg, List.mem_cons] at hm
      rcases hm with hm | hm
      · subst hm; exact taskLink_congr rfl rfl hlink
      · exact taskLink_of_not_isC (no_isC_of_cnt0 hc1 hm)
    · show cntC (t :: s1.tasks) = b2n s1.runC
      rw [hr]; unfold cntC at hc1 ⊢; rw [List.countP_cons, hc1, hisC]; rfl
    · show cntV (t :: s1.tasks) = b2n s1.runV
      rw [← hv1]; unfold cntV; rw [List.countP_cons, nv]; rfl
    · show cntS (t :: s1.tasks) = b2n s1.runS
      rw [← hs1]; unfold cntS; rw [List.countP_cons, ns]; rfl

theorem segDone_ok {s0 s1 : St} (hb : BufOK cfg env s1) (he : PendExt s0.tasks s1.tasks)
    (hv : s1.runV = s0.runV) (hs : s1.runS = s0.runS) : CSegOK cfg env s0 (segDone s1) :=
  ⟨hb.congr rfl rfl rfl rfl rfl rfl rfl, he, hv, hs, rfl⟩

theorem compBegin_ok {s0 s1 : St} (hb : BufOK cfg env s1) (hcap : 0 < cfg.qcap) (he : PendExt s0.tasks s1.tasks)
    (hv : s1.runV = s0.runV) (hs : s1.runS = s0.runS) (hr : s1.runC = true) (m : Mode) :
    CSegOK cfg env s0 (compBegin cfg env s1 m) := by
  unfold compBegin
  split
  · exact ⟨hb.congr rfl rfl rfl rfl rfl rfl rfl, he, hv, hs, rfl⟩
  · rename_i hcs
    have hlink : LinkAt env { s1 with cs := some ⟨s1.doc, [], none, s1.nextTok⟩, nextTok := s1.nextTok + 1 }
        s1.doc 0 s1.nextTok := by
      intro st hst _
      simp only [Option.some.injEq] at hst
      subst hst
      simp
    refine ⟨?_, he, hv, hs, ?_⟩
    · refine ⟨hb.cur_le, ?_, hb.valid_fresh, hb.invalid_fresh, hb.sugg_fresh⟩
      intro st hst
      simp only [Option.some.injEq] at hst
      subst hst
      exact ⟨rfl, by simp, Or.inl (by simp), hb.cur_le⟩
    · refine ⟨hr, ?_, ?_⟩
      · split <;> rfl
      · split
        · exact ⟨by simp, hlink, init_hinv _ _ hcap, rfl, rfl, rfl⟩
        · exact ⟨by simp, hlink⟩

theorem CSegOK.of_eq {s0 s0' : St} {r : Seg} (h : CSegOK cfg env s0' r) (e1 : s0'.tasks = s0.tasks)
    (e2 : s0'.runV = s0.runV) (e3 : s0'.runS = s0.runS) : CSegOK cfg env s0 r :=
  ⟨h.buf, by rw [← e1]; exact h.ext, by rw [h.runV, e2], by rw [h.runS, e3], h.cont⟩

theorem CSegOK.of_frame {s s1 : St} {r : Seg} (f : Frame s s1) (h : CSegOK cfg env s1 r) : CSegOK cfg env s r :=
  ⟨h.buf, f.ext.trans h.ext, by rw [h.runV, f.runV], by rw [h.runS, f.runS], h.cont⟩

theorem segDone_self {s : St} (hb : BufOK cfg env s) : CSegOK cfg env s (segDone s) :=
  segDone_ok hb (PendExt.refl _) rfl rfl

theorem segDone_frame {s s1 : St} (f : Frame s s1) (hb : BufOK cfg env s1) : CSegOK cfg env s (segDone s1) :=
  segDone_ok hb f.ext f.runV f.runS

theorem compElse_ok {s : St} (hb : BufOK cfg env s) (hcap : 0 < cfg.qcap) (hr : s.runC = true) (m : Mode)
    (doc : Doc) : CSegOK cfg env s (compElse cfg env s m doc) := by
  unfold compElse
  split
  · exact segDone_self hb
  · split
    · exact compBegin_ok hb hcap (PendExt.refl _) rfl rfl hr m
    · exact segDone_self hb

theorem orig_eq_doc {s : St} (hb : BufOK cfg env s) {st : CState} (hcs : s.cs = some st)
    (hi : st.index = none) : st.orig = s.doc := by
  have := (hb.cs_ok st hcs).text_eq
  unfold CState.newDoc at this
  rw [hi] at this
  simpa using this

theorem setCompletions_buf {s1 : St} (hb : BufOK cfg env s1) (comps : List Completion)
    (hp : Provenance env ⟨s1.doc, comps, none, s1.nextTok⟩) : BufOK cfg env (setCompletions s1 comps) := by
  unfold setCompletions
  refine ⟨hb.cur_le, ?_, hb.valid_fresh, hb.invalid_fresh, hb.sugg_fresh⟩
  intro st hst
  simp only [Option.some.injEq] at hst
  subst hst
  exact ⟨rfl, by simp, hp, hb.cur_le⟩

theorem compProceed_ok {s : St} (hb : BufOK cfg env s) {st : CState} (hcs : s.cs = some st)
    (m : Mode) (doc : Doc) (ho : st.orig = doc) (hp : st.comps <+: env.comp doc) :
    CSegOK cfg env s (compProceed cfg s st m doc) := by
  unfold compProceed
  split
  · exact segDone_self hb
  rename_i hidx
  have hidx : st.index = none := by simpa using hidx
  split
  · exact segDone_frame (drop_cs_frame s) (drop_cs_buf hb)
  rename_i hne
  have hlen : 0 < st.comps.length := by
    cases hc : st.comps with
    | nil => simp [hc] at hne
    | cons _ _ => simp
  have goto : ∀ j, j < st.comps.length → CSegOK cfg env s (segDone (goToCompletion cfg s (some j)).1) := by
    intro j hj
    have r := goTo_spec hb hcs (some j) (by intro k hk; cases hk; exact hj)
    exact segDone_frame r.2.2.1 r.2.1
  split
  · exact segDone_self hb
  · exact goto 0 hlen
  · exact goto _ (by omega)
  · split
    · rename_i hcp
      have hcp : commonSuffix doc st.comps ≠ [] := by
        intro e; rw [e] at hcp; simp at hcp
      have hb1 := insertText_buf (cfg := cfg) hb (commonSuffix doc st.comps)
      have hf1 := insertText_frame (cfg := cfg) s (commonSuffix doc st.comps)
      split
      · have hdoc : doc = s.doc := by rw [← ho]; exact orig_eq_doc hb hcs hidx
        refine segDone_ok (setCompletions_buf hb1 _ (Or.inr (Or.inl ?_))) hf1.ext hf1.runV hf1.runS
        refine ⟨doc, st.comps, commonSuffix doc st.comps, hp, rfl, hcp, rfl, ?_⟩
        subst hdoc
        simp [St.doc, Doc.before, Doc.after]
      · exact segDone_frame (hf1.trans (drop_cs_frame _)) (drop_cs_buf hb1)
    · split
      · exact goto 0 hlen
      · exact segDone_self hb

theorem dropNoop_spec {s : St} (hb : BufOK cfg env s) (hfix : cfg.fixD1 = true) (doc : Doc) (tok : Nat)
    (hl : Link env s doc tok) :
    BufOK cfg env (dropNoop cfg s doc tok) ∧ (dropNoop cfg s doc tok).tasks = s.tasks ∧
    (dropNoop cfg s doc tok).runC = s.runC ∧ (dropNoop cfg s doc tok).runV = s.runV ∧
    (dropNoop cfg s doc tok).runS = s.runS ∧ Link env (dropNoop cfg s doc tok) doc tok := by
  unfold dropNoop
  split
  · rename_i st hcs
    split
    · rename_i hcond
      split
      · split
        · have hi : st.index = none := by simp [hfix] at hcond; exact hcond.2
          have hst := hb.cs_ok st hcs
          refine ⟨⟨hb.cur_le, ?_, hb.valid_fresh, hb.invalid_fresh, hb.sugg_fresh⟩, rfl, rfl, rfl, rfl, ?_⟩
          · intro st' hst'
            simp only [Option.some.injEq] at hst'
            subst hst'
            refine ⟨?_, hst.tok_lt, Or.inl (by simp), hst.orig_wf⟩
            have := hst.text_eq
            unfold CState.newDoc at this ⊢
            simp only [hi] at this ⊢
            exact this
          · intro st' hst' htok
            simp only [Option.some.injEq] at hst'
            subst hst'
            exact ⟨(hl st hcs htok).1, by simp⟩
        · exact ⟨hb, rfl, rfl, rfl, rfl, hl⟩
      · exact ⟨hb, rfl, rfl, rfl, rfl, hl⟩
    · exact ⟨hb, rfl, rfl, rfl, rfl, hl⟩
  · exact ⟨hb, rfl, rfl, rfl, rfl, hl⟩

theorem compDispatch_ok {s : St} (hb : BufOK cfg env s) (hcap : 0 < cfg.qcap) (hr : s.runC = true) (m : Mode)
    (doc : Doc) (tok : Nat) (hl : Link env s doc tok) : CSegOK cfg env s (compDispatch cfg env s m doc tok) := by
  unfold compDispatch
  split
  · rename_i st hcs
    split
    · rename_i ht
      have ht : st.token = tok := by simpa using ht
      obtain ⟨ho, hp⟩ := hl st hcs ht
      exact compProceed_ok hb hcs m doc ho hp
    · exact compElse_ok hb hcap hr m doc
  · exact compElse_ok hb hcap hr m doc

theorem compPost_ok {s : St} (hb : BufOK cfg env s) (hfix : CfgOK cfg) (hr : s.runC = true)
    (m : Mode) (doc : Doc) (tok : Nat) (hl : Link env s doc tok) :
    CSegOK cfg env s (compPost cfg env s m doc tok) := by
  unfold compPost
  obtain ⟨hb', e1, e2, e3, e4, hl'⟩ := dropNoop_spec hb hfix.fix doc tok hl
  exact (compDispatch_ok hb' hfix.cap (by rw [e2]; exact hr) m doc tok hl').of_eq e1 e3 e4

theorem LinkAt.link {s : St} {doc : Doc} {i tok : Nat} (h : LinkAt env s doc i tok) : Link env s doc tok := by
  intro st hcs ht
  obtain ⟨a, b⟩ := h st hcs ht
  exact ⟨a, by rw [b]; exact List.take_prefix _ _⟩

theorem appendCompl_spec {s : St} (hb : BufOK cfg env s) (doc : Doc) (i tok : Nat) (c : Completion)
    (hc : (env.comp doc)[i]? = some c) (hl : LinkAt env s doc i tok) :
    BufOK cfg env (appendCompl s tok c) ∧ (appendCompl s tok c).tasks = s.tasks ∧
    (appendCompl s tok c).runC = s.runC ∧ (appendCompl s tok c).runV = s.runV ∧
    (appendCompl s tok c).runS = s.runS ∧ (appendCompl s tok c).nextTok = s.nextTok ∧
    LinkAt env (appendCompl s tok c) doc (i + 1) tok := by
  have hi : i < (env.comp doc).length := (List.getElem?_eq_some_iff.mp hc).1
  have htake : (env.comp doc).take (i + 1) = (env.comp doc).take i ++ [c] := by
    rw [List.take_add_one, hc]; rfl
  unfold appendCompl
  split
  · rename_i st hcs
    split
    · rename_i ht
      have ht : st.token = tok := by simpa using ht
      obtain ⟨ho, hcomps⟩ := hl st hcs ht
      have hst := hb.cs_ok st hcs
      refine ⟨⟨hb.cur_le, ?_, hb.valid_fresh, hb.invalid_fresh, hb.sugg_fresh⟩, rfl, rfl, rfl, rfl, rfl, ?_⟩
      · intro st' hst'
        simp only [Option.some.injEq] at hst'
        subst hst'
        refine ⟨?_, hst.tok_lt, Or.inl ?_, hst.orig_wf⟩
        · have := hst.text_eq
          unfold CState.newDoc at this ⊢
          cases hidx : st.index with
          | none => simp only [hidx] at this ⊢; exact this
          | some j =>
            have hj := index_lt_of_newDoc hst.text_eq hidx
            simp only [hidx] at this ⊢
            rw [List.getElem?_append_left hj]
            exact this
        · show st.comps ++ [c] <+: env.comp st.orig
          rw [ho, hcomps, ← htake]; exact List.take_prefix _ _
      · intro st' hst' _
        simp only [Option.some.injEq] at hst'
        subst hst'
        exact ⟨ho, by show st.comps ++ [c] = _; rw [hcomps, htake]⟩
    · rename_i ht
      refine ⟨hb, rfl, rfl, rfl, rfl, rfl, ?_⟩
      intro st' hst' ht'
      rw [hcs] at hst'; cases hst'
      simp [ht'] at ht
  · rename_i hcs
    refine ⟨hb, rfl, rfl, rfl, rfl, rfl, ?_⟩
    intro st' hst' _
    rw [hcs] at hst'; cases hst'

theorem compResume_ok {s : St} (hb : BufOK cfg env s) (hfix : CfgOK cfg) (hr : s.runC = true)
    (m : Mode) (doc : Doc) (i tok : Nat) (htok : tok < s.nextTok) (hl : LinkAt env s doc i tok) :
    CSegOK cfg env s (compResume cfg env s m doc i tok) := by
  unfold compResume
  split
  · rename_i c hc
    obtain ⟨hb', e1, e2, e3, e4, e5, hl'⟩ := appendCompl_spec hb doc i tok c hc hl
    have post := (compPost_ok hb' hfix (by rw [e2]; exact hr) m doc tok hl'.link).of_eq e1 e3 e4
    split
    · exact post
    · split
      · exact post
      · refine ⟨hb', by rw [e1]; exact PendExt.refl _, e3, e4, ?_⟩
        exact ⟨by rw [e2]; exact hr, rfl, by rw [e5]; exact htok, hl'⟩
  · exact compPost_ok hb hfix hr m doc tok hl.link

/-! segments of a completer coroutine over a `ThreadedCompleter` -/

theorem LinkAt.of_cs_eq {s s' : St} {doc : Doc} {i tok : Nat} (e : s'.cs = s.cs) (h : LinkAt env s doc i tok) :
    LinkAt env s' doc i tok := by
  intro st hst ht; exact h st (by rw [← e]; exact hst) ht

/-- the `async for` body on one received element -/
theorem compItemT_ok {s : St} (hb : BufOK cfg env s) (hr : s.runC = true) (m : Mode) (doc : Doc) (tok : Nat)
    (htok : tok < s.nextTok) {h h' : HS} (hok : HOK env doc h) (hi' : HInv h') (hn' : h'.n = h.n)
    (hq' : h'.quitting = false) {x : QItem} (hg : h'.got = h.got ++ [x])
    (hl : LinkAt env s doc h.got.length tok) :
    CSegOK cfg env s (compItemT cfg env s m doc tok h' x) := by
  cases x with
  | done =>
    exact ⟨hb, PendExt.refl _, rfl, rfl, hr, rfl, htok, hl.link, quit_inv hi', rfl⟩
  | item j =>
    obtain ⟨hj, hjn⟩ := recv_item hok.inv hok.open_ hi' hg
    rw [hn', hok.n_eq] at hjn
    have hc : (env.comp doc)[j]? = some (env.comp doc)[j] := List.getElem?_eq_getElem hjn
    simp only [compItemT, hc]
    subst hj
    obtain ⟨hb1, e1, e2, e3, e4, e5, hl1⟩ := appendCompl_spec hb doc h.got.length tok _ hc hl
    have hclose : CSegOK cfg env s
        (appendCompl s tok (env.comp doc)[h.got.length], some (.cCloseT m doc tok (quit h') false)) :=
      ⟨hb1, by rw [e1]; exact PendExt.refl _, e3, e4, by rw [e2]; exact hr, rfl, by rw [e5]; exact htok,
       hl1.link, quit_inv hi', rfl⟩
    split
    · exact hclose
    · split
      · exact hclose
      · have he' : h'.ended = false := by
          unfold HS.ended
          rw [hg]
          have := hok.open_
          unfold HS.ended at this
          simp only [List.contains_eq_mem, List.mem_append, List.mem_singleton, reduceCtorEq, or_false,
            decide_eq_false_iff_not] at this ⊢
          exact this
        refine ⟨hb1, by rw [e1]; exact PendExt.refl _, e3, e4, by rw [e2]; exact hr, rfl,
          by rw [e5]; exact htok, ?_, hi', by rw [hn']; exact hok.n_eq, hq', he'⟩
        rw [hg]; simpa using hl1

theorem compStepT_ok {s : St} (hb : BufOK cfg env s) (hr : s.runC = true) (m : Mode) (doc : Doc) (tok : Nat)
    (htok : tok < s.nextTok) {h : HS} (hok : HOK env doc h) (hl : LinkAt env s doc h.got.length tok) :
    CSegOK cfg env s (compStepT cfg env s m doc tok h) := by
  unfold compStepT
  split
  · rename_i x h' hd
    obtain ⟨_, a, _, d⟩ := deliver_fields hd
    exact compItemT_ok hb hr m doc tok htok hok (deliver_inv hok.inv hok.live hd) a (by rw [d]; exact hok.live)
      (deliver_got hd) hl
  · rename_i hd
    have hin := deliver_none hd
    split
    · exact ⟨hb, PendExt.refl _, rfl, rfl, hr, rfl, htok, hl, hok⟩
    · rename_i hg
      have hg : h.getter = false := by simpa using hg
      split
      · rename_i x h' hp
        obtain ⟨_, a, _, d⟩ := popNow_fields hp
        exact compItemT_ok hb hr m doc tok htok hok (popNow_inv hok.inv hok.live hin hp hg) a
          (by rw [d]; exact hok.live) (popNow_got hp) hl
      · exact ⟨hb, PendExt.refl _, rfl, rfl, hr, rfl, htok, hl,
          submitGet_inv hok.inv hin hok.open_, hok.n_eq, hok.live, hok.open_⟩

theorem compCloseT_ok {s : St} (hb : BufOK cfg env s) (hfix : CfgOK cfg) (hr : s.runC = true) (m : Mode)
    (doc : Doc) (tok : Nat) (htok : tok < s.nextTok) {h : HS} (hi : HInv h) (hq : h.quitting = true)
    (c : Bool) (hl : Link env s doc tok) : CSegOK cfg env s (compCloseT cfg env s m doc tok h c) := by
  unfold compCloseT
  split
  · split
    · exact segDone_self hb
    · exact compPost_ok hb hfix hr m doc tok hl
  · exact ⟨hb, PendExt.refl _, rfl, rfl, hr, rfl, htok, hl, hi, hq⟩

/-! validator / suggester segments -/

/-- outcome of a validator (`k = false`) or suggester (`k = true`) segment -/
structure OSegOK (cfg : Config) (env : Env) (k : Bool) (s0 : St) (r : Seg) : Prop where
  buf : BufOK cfg env r.1
  tasks : r.1.tasks = s0.tasks
  cs : r.1.cs = s0.cs
  tok : r.1.nextTok = s0.nextTok
  runC : r.1.runC = s0.runC
  other : if k then r.1.runV = s0.runV else r.1.runS = s0.runS
  cont : match r.2 with
    | none => (if k then r.1.runS else r.1.runV) = false
    | some t => (if k then r.1.runS else r.1.runV) = true ∧
        ∃ d sel, t = (if k then Task.sWait d sel else Task.vWait d sel)

theorem inv_of_oseg {k : Bool} {s0 : St} {r : Seg} (h : OSegOK cfg env k s0 r) (ht : TaskOK env s0)
    (hc : cntC s0.tasks = b2n s0.runC)
    (hself : (if k then cntS s0.tasks else cntV s0.tasks) = 0)
    (hoth : if k then cntV s0.tasks = b2n s0.runV else cntS s0.tasks = b2n s0.runS) :
    Inv cfg env (finishSeg r) := by
  obtain ⟨s1, t⟩ := r
  have e1 : s1.tasks = s0.tasks := h.tasks
  have e2 : s1.cs = s0.cs := h.cs
  have e3 : s1.nextTok = s0.nextTok := h.tok
  have e4 : s1.runC = s0.runC := h.runC
  have htask : ∀ ts : List Task, (∀ t ∈ ts, isC t = true → t ∈ s0.tasks) →
      TaskOK env { s1 with tasks := ts } := by
    intro ts hts t hm
    cases hic : isC t with
    | false => exact taskLink_of_not_isC hic
    | true => exact taskLink_congr e2 e3 (ht t (hts t hm hic))
  cases t with
  | none =>
    show Inv cfg env s1
    have hcont := h.cont
    have hother := h.other
    refine ⟨h.buf, by simpa using htask s1.tasks (by intro t hm _; rw [← e1]; exact hm), ?_⟩
    cases k
    · simp at hcont hother hself hoth
      exact ⟨by rw [e1, e4]; exact hc, by rw [e1, hself, hcont]; rfl, by rw [e1, hother]; exact hoth⟩
    · simp at hcont hother hself hoth
      exact ⟨by rw [e1, e4]; exact hc, by rw [e1, hother]; exact hoth, by rw [e1, hself, hcont]; rfl⟩
  | some t =>
    obtain ⟨hrun, d, dsel, rfl⟩ := h.cont
    have hother := h.other
    refine ⟨h.buf.congr rfl rfl rfl rfl rfl rfl rfl, ?_, ?_⟩
    · apply htask
      intro t hm hic
      simp only [List.mem_cons] at hm
      rcases hm with hm | hm
      · subst hm; cases k <;> simp [isC] at hic
      · rw [← e1]; exact hm
    · cases k
      · simp at hrun hother hself hoth
        refine ⟨?_, ?_, ?_⟩
        · show cntC (_ :: s1.tasks) = b2n s1.runC
          rw [e1, e4, ← hc]; simp [cntC, isC]
        · show cntV (_ :: s1.tasks) = b2n s1.runV
          rw [e1, hrun]; unfold cntV at hself ⊢; rw [List.countP_cons, hself]; rfl
        · show cntS (_ :: s1.tasks) = b2n s1.runS
          rw [e1, hother, ← hoth]; simp [cntS, isS]
      · simp at hrun hother hself hoth
        refine ⟨?_, ?_, ?_⟩
        · show cntC (_ :: s1.tasks) = b2n s1.runC
          rw [e1, e4, ← hc]; simp [cntC, isC]
        · show cntV (_ :: s1.tasks) = b2n s1.runV
          rw [e1, hother, ← hoth]; simp [cntV, isV]
        · show cntS (_ :: s1.tasks) = b2n s1.runS
          rw [e1, hrun]; unfold cntS at hself ⊢; rw [List.countP_cons, hself]; rfl

theorem valLoop_ok {s : St} (hb : BufOK cfg env s) (hr : s.runV = true) :
    OSegOK cfg env false s (valLoop s) := by
  unfold valLoop
  split
  · exact ⟨hb.congr rfl rfl rfl rfl rfl rfl rfl, rfl, rfl, rfl, rfl, rfl, rfl⟩
  · exact ⟨hb, rfl, rfl, rfl, rfl, rfl, ⟨hr, s.doc, s.sel, rfl⟩⟩

theorem valResume_ok {s : St} (hb : BufOK cfg env s) (hr : s.runV = true) (doc : Doc) (sel : Option Nat) :
    OSegOK cfg env false s (valResume env s doc sel) := by
  unfold valResume
  split
  · exact valLoop_ok hb hr
  · rename_i hd
    have hd : s.doc = doc := by
      by_cases h1 : s.doc = doc
      · exact h1
      · exact absurd (Or.inl h1) hd
    have hcs : ∀ (S : St), S.text = s.text → S.cur = s.cur → S.cs = s.cs → S.nextTok = s.nextTok →
        ∀ st, S.cs = some st → CsOK env S st := by
      intro S a b c d st hst
      have := hb.cs_ok st (by rw [← c]; exact hst)
      exact ⟨by rw [this.text_eq]; simp [St.doc, a, b], by rw [d]; exact this.tok_lt, this.prov, this.orig_wf⟩
    split
    · rename_i msg hm
      refine ⟨⟨hb.cur_le, hcs _ rfl rfl rfl rfl, (by intro x; cases x), ?_, hb.sugg_fresh⟩,
              rfl, rfl, rfl, rfl, rfl, rfl⟩
      intro _
      exact ⟨s.cur, msg, hb.cur_le, by rw [← hm, ← hd]; rfl, rfl⟩
    · rename_i hm
      refine ⟨⟨hb.cur_le, hcs _ rfl rfl rfl rfl, ?_, (by intro x; cases x), hb.sugg_fresh⟩,
              rfl, rfl, rfl, rfl, rfl, rfl⟩
      intro _
      exact ⟨rfl, Or.inr ⟨s.cur, hb.cur_le, by rw [← hm, ← hd]; rfl⟩⟩

theorem sugBegin_ok {s : St} (hb : BufOK cfg env s) (hr : s.runS = true) :
    OSegOK cfg env true s (sugBegin s) := by
  unfold sugBegin
  split
  · exact ⟨hb.congr rfl rfl rfl rfl rfl rfl rfl, rfl, rfl, rfl, rfl, rfl, rfl⟩
  · exact ⟨hb, rfl, rfl, rfl, rfl, rfl, ⟨hr, s.doc, s.sel, rfl⟩⟩

theorem sugResume_ok {s : St} (hb : BufOK cfg env s) (hr : s.runS = true) (doc : Doc) (sel : Option Nat) :
    OSegOK cfg env true s (sugResume env s doc sel) := by
  unfold sugResume
  split
  · rename_i hd
    refine ⟨⟨hb.cur_le, ?_, hb.valid_fresh, hb.invalid_fresh, ?_⟩, rfl, rfl, rfl, rfl, rfl, rfl⟩
    · intro st hst
      have := hb.cs_ok st hst
      exact ⟨this.text_eq, this.tok_lt, this.prov, this.orig_wf⟩
    · intro x hx
      exact ⟨s.cur, hb.cur_le, by rw [← hd.1] at hx; exact hx⟩
  · exact sugBegin_ok hb hr


/-! ### one step preserves the invariant -/

theorem cnt_drop {p : Task → Bool} {s : St} {i : Nat} {t : Task} (h : s.tasks[i]? = some t) :
    s.tasks.countP p = (dropTask s i).tasks.countP p + (if p t then 1 else 0) :=
  countP_eraseIdx_of p s.tasks i t h

theorem inv_of_frame {s s' : St} (h : Inv cfg env s) (hb : BufOK cfg env s') (f : Frame s s') :
    Inv cfg env s' :=
  ⟨hb, taskOK_of_frame f h.task, flags_of_frame f h.flags⟩

theorem inv_of_nav {s : St} (h : Inv cfg env s) {r : St × Bool} (n : NavOK cfg env s r) : Inv cfg env r.1 :=
  inv_of_frame h n.buf n.frame

theorem dropPending_inv {s : St} (h : Inv cfg env s) {i : Nat} {t : Task} (ht : s.tasks[i]? = some t)
    (hp : isPending t = true) : Inv cfg env (dropTask s i) := by
  have c1 := cnt_drop (p := isC) ht
  have c2 := cnt_drop (p := isV) ht
  have c3 := cnt_drop (p := isS) ht
  have n1 : isC t = false := by cases t <;> simp_all [isPending, isC]
  have n2 : isV t = false := by cases t <;> simp_all [isPending, isV]
  have n3 : isS t = false := by cases t <;> simp_all [isPending, isS]
  simp [n1, n2, n3] at c1 c2 c3
  exact ⟨dropTask_buf h.buf i, dropTask_task h.task i,
    ⟨by unfold cntC; rw [← c1]; exact h.flags.c, by unfold cntV; rw [← c2]; exact h.flags.v,
     by unfold cntS; rw [← c3]; exact h.flags.s⟩⟩

theorem startTask_inv {s : St} (h : Inv cfg env s) (hcap : 0 < cfg.qcap) (i : Nat) :
    Inv cfg env (startTask cfg env s i) := by
  unfold startTask
  split
  · rename_i m ht
    have hd := dropPending_inv h ht rfl
    split
    · exact hd
    · rename_i hr
      have hr : s.runC = false := by simpa using hr
      have hb0 : BufOK cfg env { dropTask s i with runC := true } := hd.buf.congr rfl rfl rfl rfl rfl rfl rfl
      have hseg := compBegin_ok (s0 := { dropTask s i with runC := true }) hb0 hcap (PendExt.refl _) rfl rfl rfl m
      refine inv_of_cseg hseg ?_ hd.flags.v hd.flags.s
      have := hd.flags.c
      show cntC (dropTask s i).tasks = 0
      rw [this]; show b2n s.runC = 0; rw [hr]; rfl
  · rename_i ht
    have hd := dropPending_inv h ht rfl
    split
    · exact hd
    · rename_i hr
      have hr : s.runV = false := by simpa using hr
      have hb0 : BufOK cfg env { dropTask s i with runV := true } := hd.buf.congr rfl rfl rfl rfl rfl rfl rfl
      refine inv_of_oseg (k := false) (valLoop_ok hb0 rfl) ?_ hd.flags.c ?_ hd.flags.s
      · intro t hm; exact taskLink_congr rfl rfl (hd.task t hm)
      · show cntV (dropTask s i).tasks = 0
        rw [hd.flags.v]; show b2n s.runV = 0; rw [hr]; rfl
  · rename_i ht
    have hd := dropPending_inv h ht rfl
    split
    · exact hd
    · rename_i hr
      have hr : s.runS = false := by simpa using hr
      have hb0 : BufOK cfg env { dropTask s i with runS := true } := hd.buf.congr rfl rfl rfl rfl rfl rfl rfl
      refine inv_of_oseg (k := true) (sugBegin_ok hb0 rfl) ?_ hd.flags.c ?_ hd.flags.v
      · intro t hm; exact taskLink_congr rfl rfl (hd.task t hm)
      · show cntS (dropTask s i).tasks = 0
        rw [hd.flags.s]; show b2n s.runS = 0; rw [hr]; rfl
  · exact h

theorem b2n_ge_one {b : Bool} {n : Nat} (h : n + 1 = b2n b) : b = true ∧ n = 0 := by
  cases b <;> simp [b2n] at h ⊢; omega

/-- bookkeeping when the running task `t` (a completer coroutine past its first step) is taken
    out of the list -/
theorem drop_isC {s : St} (h : Inv cfg env s) {i : Nat} {t : Task} (ht : s.tasks[i]? = some t)
    (hic : isC t = true) :
    s.runC = true ∧ cntC (dropTask s i).tasks = 0 ∧ cntV (dropTask s i).tasks = b2n s.runV ∧
    cntS (dropTask s i).tasks = b2n s.runS := by
  have c1 := cnt_drop (p := isC) ht
  have c2 := cnt_drop (p := isV) ht
  have c3 := cnt_drop (p := isS) ht
  obtain ⟨nv, ns, _⟩ := isC_not_others hic
  simp [hic, nv, ns] at c1 c2 c3
  obtain ⟨hr, hc0⟩ := b2n_ge_one (by rw [← h.flags.c]; exact c1.symm)
  exact ⟨hr, hc0, by unfold cntV; rw [← c2]; exact h.flags.v, by unfold cntS; rw [← c3]; exact h.flags.s⟩

theorem resumeTask_inv {s : St} (h : Inv cfg env s) (hfix : CfgOK cfg) (i : Nat) :
    Inv cfg env (resumeTask cfg env s i) := by
  unfold resumeTask
  split
  · rename_i m doc k tok ht
    obtain ⟨hr, hc0, hv, hs⟩ := drop_isC h ht rfl
    obtain ⟨htok, hlink⟩ := h.task _ (mem_of_getElem? ht)
    exact inv_of_cseg
      (compResume_ok (dropTask_buf h.buf i) hfix hr m doc k tok htok (hlink.of_cs_eq rfl)) hc0 hv hs
  · rename_i m doc tok hs' ht
    obtain ⟨hr, hc0, hv, hs⟩ := drop_isC h ht rfl
    obtain ⟨htok, hlink, hok⟩ := h.task _ (mem_of_getElem? ht)
    exact inv_of_cseg
      (compStepT_ok (dropTask_buf h.buf i) hr m doc tok htok hok (hlink.of_cs_eq rfl)) hc0 hv hs
  · rename_i m doc tok hs' c ht
    obtain ⟨hr, hc0, hv, hs⟩ := drop_isC h ht rfl
    obtain ⟨htok, hlink, hi, hq⟩ := h.task _ (mem_of_getElem? ht)
    exact inv_of_cseg
      (compCloseT_ok (dropTask_buf h.buf i) hfix hr m doc tok htok hi hq c
        (fun st hst => hlink st hst)) hc0 hv hs
  · rename_i doc dsel ht
    have c1 := cnt_drop (p := isC) ht
    have c2 := cnt_drop (p := isV) ht
    have c3 := cnt_drop (p := isS) ht
    simp [isC, isV, isS] at c1 c2 c3
    obtain ⟨hr, hc0⟩ := b2n_ge_one (by rw [← h.flags.v]; exact c2.symm)
    exact inv_of_oseg (k := false) (valResume_ok (dropTask_buf h.buf i) hr doc dsel) (dropTask_task h.task i)
      (by show cntC (dropTask s i).tasks = b2n s.runC; unfold cntC; rw [← c1]; exact h.flags.c)
      hc0
      (by show cntS (dropTask s i).tasks = b2n s.runS; unfold cntS; rw [← c3]; exact h.flags.s)
  · rename_i doc dsel ht
    have c1 := cnt_drop (p := isC) ht
    have c2 := cnt_drop (p := isV) ht
    have c3 := cnt_drop (p := isS) ht
    simp [isC, isV, isS] at c1 c2 c3
    obtain ⟨hr, hc0⟩ := b2n_ge_one (by rw [← h.flags.s]; exact c3.symm)
    exact inv_of_oseg (k := true) (sugResume_ok (dropTask_buf h.buf i) hr doc dsel) (dropTask_task h.task i)
      (by show cntC (dropTask s i).tasks = b2n s.runC; unfold cntC; rw [← c1]; exact h.flags.c)
      hc0
      (by show cntV (dropTask s i).tasks = b2n s.runV; unfold cntV; rw [← c2]; exact h.flags.v)
  · exact h

theorem setCompletions_inv {s : St} (h : Inv cfg env s) (comps : List Completion)
    (hp : Provenance env ⟨s.doc, comps, none, s.nextTok⟩) : Inv cfg env (setCompletions s comps) := by
  refine ⟨setCompletions_buf h.buf comps hp, ?_, ⟨h.flags.c, h.flags.v, h.flags.s⟩⟩
  -- the new menu has a token no coroutine holds: every link is vacuous
  have fresh : ∀ tok, tok < s.nextTok → ∀ st, (setCompletions s comps).cs = some st → st.token ≠ tok := by
    intro tok hlt st hst
    simp only [setCompletions, Option.some.injEq] at hst
    subst hst
    simp; omega
  intro t hm
  have hl := h.task t hm
  cases t with
  | cLoad m doc i tok =>
    exact ⟨by show tok < s.nextTok + 1; have := hl.1; omega,
      fun st hst ht => absurd ht (fresh tok hl.1 st hst)⟩
  | cLoadT m doc tok hs =>
    exact ⟨by show tok < s.nextTok + 1; have := hl.1; omega,
      fun st hst ht => absurd ht (fresh tok hl.1 st hst), hl.2.2⟩
  | cCloseT m doc tok hs c =>
    exact ⟨by show tok < s.nextTok + 1; have := hl.1; omega,
      fun st hst ht => absurd ht (fresh tok hl.1 st hst), hl.2.2⟩
  | _ => trivial

/-- `start_history_lines_completion` installs a *new* state object: a completer that is still
    loading can no longer pass `proceed()` -/
theorem histComplete_nav {s : St} (h : Inv cfg env s) :
    Inv cfg env (histComplete cfg env s).1 ∧ (histComplete cfg env s).2 = false := by
  unfold histComplete
  have h1 := setCompletions_inv h (histComps env.isSpace s.doc) (Or.inr (Or.inr rfl))
  have hcs : (setCompletions s (histComps env.isSpace s.doc)).cs =
      some ⟨s.doc, histComps env.isSpace s.doc, none, s.nextTok⟩ := rfl
  by_cases hn : histComps env.isSpace s.doc = []
  · rw [goTo_ignored hcs hn]
    have n := goTo_nav h1.buf hcs none (by intro j hj; cases hj)
    exact ⟨inv_of_nav h1 n, n.noexc⟩
  · have n := goTo_nav h1.buf hcs (some 0) (by
      intro j hj; cases hj; exact List.length_pos_iff.mpr hn)
    exact ⟨inv_of_nav h1 n, n.noexc⟩

theorem countP_set_of_eq (p : Task → Bool) (l : List Task) (i : Nat) (t t' : Task) (h : l[i]? = some t)
    (e : p t' = p t) : (l.set i t').countP p = l.countP p := by
  induction l generalizing i with
  | nil => simp at h
  | cons x xs ih =>
    cases i with
    | zero =>
      simp at h; subst h
      simp [List.countP_cons, e]
    | succ k =>
      simp at h
      simp [List.countP_cons, ih k h]

/-- replacing the hand-off state inside a threaded completer task keeps everything else -/
theorem setTask_inv {s : St} (h : Inv cfg env s) {i : Nat} {t t' : Task} (ht : s.tasks[i]? = some t)
    (ec : isC t' = isC t) (ev : isV t' = isV t) (es : isS t' = isS t)
    (hl : TaskLink env s t → TaskLink env s t') : Inv cfg env { s with tasks := s.tasks.set i t' } := by
  refine ⟨h.buf.congr rfl rfl rfl rfl rfl rfl rfl, ?_, ⟨?_, ?_, ?_⟩⟩
  · intro x hx
    rcases List.mem_or_eq_of_mem_set hx with hx | hx
    · exact taskLink_congr rfl rfl (h.task x hx)
    · subst hx
      exact taskLink_congr rfl rfl (hl (h.task t (mem_of_getElem? ht)))
  · show cntC (s.tasks.set i t') = _
    unfold cntC; rw [countP_set_of_eq _ _ _ _ _ ht ec]; exact h.flags.c
  · show cntV (s.tasks.set i t') = _
    unfold cntV; rw [countP_set_of_eq _ _ _ _ _ ht ev]; exact h.flags.v
  · show cntS (s.tasks.set i t') = _
    unfold cntS; rw [countP_set_of_eq _ _ _ _ _ ht es]; exact h.flags.s

/-- a step of the producer thread changes nothing the buffer shows -/
theorem prodTask_inv {s : St} (h : Inv cfg env s) (i : Nat) : Inv cfg env (prodTask s i) := by
  unfold prodTask
  split
  · rename_i m doc tok hs ht
    refine setTask_inv h ht rfl rfl rfl ?_
    intro hl
    exact ⟨hl.1, by simpa using hl.2.1, prodStep_inv hl.2.2.inv, by simpa using hl.2.2.n_eq,
      by simpa using hl.2.2.live, by simpa using hl.2.2.open_⟩
  · rename_i m doc tok hs c ht
    refine setTask_inv h ht rfl rfl rfl ?_
    intro hl
    exact ⟨hl.1, hl.2.1, prodStep_inv hl.2.2.1, by simpa using hl.2.2.2⟩
  · exact h

/-- the `q.get` job returning changes nothing the buffer shows -/
theorem takeTask_inv {s : St} (h : Inv cfg env s) (i : Nat) : Inv cfg env (takeTask s i) := by
  unfold takeTask
  split
  · rename_i m doc tok hs ht
    refine setTask_inv h ht rfl rfl rfl ?_
    intro hl
    obtain ⟨_, a, _, d, e⟩ := take_fields hs
    exact ⟨hl.1, by rw [e]; exact hl.2.1, take_inv hl.2.2.inv, by rw [a]; exact hl.2.2.n_eq,
      by rw [d]; exact hl.2.2.live, by unfold HS.ended; rw [e]; exact hl.2.2.open_⟩
  · rename_i m doc tok hs c ht
    refine setTask_inv h ht rfl rfl rfl ?_
    intro hl
    obtain ⟨_, _, _, d, _⟩ := take_fields hs
    exact ⟨hl.1, hl.2.1, take_inv hl.2.2.1, by rw [d]; exact hl.2.2.2⟩
  · exact h

theorem cancelTask_inv {s : St} (h : Inv cfg env s) (i : Nat) : Inv cfg env (cancelTask s i) := by
  unfold cancelTask
  split
  · rename_i t ht
    have c1 := cnt_drop (p := isC) ht
    have c2 := cnt_drop (p := isV) ht
    have c3 := cnt_drop (p := isS) ht
    cases t with
    | cLoad m doc k tok =>
      obtain ⟨_, hc0, hv, hs⟩ := drop_isC h ht rfl
      exact ⟨(dropTask_buf h.buf i).congr rfl rfl rfl rfl rfl rfl rfl,
        fun t hm => taskLink_congr rfl rfl (dropTask_task h.task i t hm), ⟨hc0, hv, hs⟩⟩
    | cCloseT m doc tok hs' c =>
      obtain ⟨_, hc0, hv, hs⟩ := drop_isC h ht rfl
      exact ⟨(dropTask_buf h.buf i).congr rfl rfl rfl rfl rfl rfl rfl,
        fun t hm => taskLink_congr rfl rfl (dropTask_task h.task i t hm), ⟨hc0, hv, hs⟩⟩
    | cLoadT m doc tok hs' =>
      obtain ⟨hr, hc0, hv, hs⟩ := drop_isC h ht rfl
      obtain ⟨htok, hlink, hok⟩ := h.task _ (mem_of_getElem? ht)
      refine ⟨(dropTask_buf h.buf i).congr rfl rfl rfl rfl rfl rfl rfl, ?_, ⟨?_, ?_, ?_⟩⟩
      · intro t hm
        simp only [killFlags, List.mem_cons] at hm
        rcases hm with hm | hm
        · subst hm
          exact ⟨htok, hlink.link, quit_inv hok.inv, rfl⟩
        · exact taskLink_congr rfl rfl (dropTask_task h.task i t hm)
      · show cntC (_ :: (dropTask s i).tasks) = b2n s.runC
        unfold cntC at hc0 ⊢; rw [List.countP_cons, hc0, hr]; rfl
      · show cntV (_ :: (dropTask s i).tasks) = b2n s.runV
        rw [← hv]; unfold cntV; rw [List.countP_cons]; rfl
      · show cntS (_ :: (dropTask s i).tasks) = b2n s.runS
        rw [← hs]; unfold cntS; rw [List.countP_cons]; rfl
    | vWait doc dsel =>
      simp [isC, isV, isS] at c1 c2 c3
      obtain ⟨_, hc0⟩ := b2n_ge_one (by rw [← h.flags.v]; exact c2.symm)
      exact ⟨(dropTask_buf h.buf i).congr rfl rfl rfl rfl rfl rfl rfl,
        fun t hm => taskLink_congr rfl rfl (dropTask_task h.task i t hm),
        ⟨by show cntC (dropTask s i).tasks = b2n s.runC; unfold cntC; rw [← c1]; exact h.flags.c,
         by show cntV (dropTask s i).tasks = b2n false; exact hc0,
         by show cntS (dropTask s i).tasks = b2n s.runS; unfold cntS; rw [← c3]; exact h.flags.s⟩⟩
    | sWait doc dsel =>
      simp [isC, isV, isS] at c1 c2 c3
      obtain ⟨_, hc0⟩ := b2n_ge_one (by rw [← h.flags.s]; exact c3.symm)
      exact ⟨(dropTask_buf h.buf i).congr rfl rfl rfl rfl rfl rfl rfl,
        fun t hm => taskLink_congr rfl rfl (dropTask_task h.task i t hm),
        ⟨by show cntC (dropTask s i).tasks = b2n s.runC; unfold cntC; rw [← c1]; exact h.flags.c,
         by show cntV (dropTask s i).tasks = b2n s.runV; unfold cntV; rw [← c2]; exact h.flags.v,
         by show cntS (dropTask s i).tasks = b2n false; exact hc0⟩⟩
    | cPend m => exact dropPending_inv h ht rfl
    | vPend => exact dropPending_inv h ht rfl
    | sPend => exact dropPending_inv h ht rfl
  · exact h

theorem step_inv {s : St} (h : Inv cfg env s) (hfix : CfgOK cfg) (a : Act) :
    Inv cfg env (step cfg env s a).1 := by
  cases a with
  | insert d => exact inv_of_frame h (insertText_buf h.buf d) (insertText_frame s d)
  | deleteBefore n => exact inv_of_frame h (deleteBefore_buf h.buf n) (deleteBefore_frame s n)
  | delete n => exact inv_of_frame h (delete_buf h.buf n) (delete_frame s n)
  | setCursor v => exact inv_of_frame h (setCursor_buf h.buf v) (setCursor_frame s v)
  | setText t => exact inv_of_frame h (setText_buf h.buf t) (setText_frame s t)
  | next c dw => exact inv_of_nav h (completeNext_nav h.buf c dw)
  | prev c dw => exact inv_of_nav h (completePrevious_nav h.buf c dw)
  | cancel => exact inv_of_nav h (cancel_nav h.buf)
  | startCompletion m => exact inv_of_frame h (startCompletion_buf h.buf m) (startCompletion_frame s m)
  | tab => exact inv_of_nav h (tab_nav h.buf)
  | apply c => exact inv_of_nav h (apply_nav h.buf c)
  | validateSync => exact inv_of_frame h (validateSync_buf h.buf) (validateSync_frame s)
  | reset t c => exact inv_of_frame h (reset_buf h.buf t _ (Nat.min_le_right _ _)) (reset_frame s t _)
  | histComplete => exact (histComplete_nav h).1
  | start i => exact startTask_inv h hfix.cap i
  | resume i => exact resumeTask_inv h hfix i
  | kill i => exact cancelTask_inv h i
  | prod i => exact prodTask_inv h i
  | take i => exact takeTask_inv h i
  | startSel => exact inv_of_frame h (h.buf.congr rfl rfl rfl rfl rfl rfl rfl) ⟨PendExt.refl _, rfl, rfl, rfl, rfl, CsStep.refl _⟩
  | exitSel => exact inv_of_frame h (h.buf.congr rfl rfl rfl rfl rfl rfl rfl) ⟨PendExt.refl _, rfl, rfl, rfl, rfl, CsStep.refl _⟩

theorem init_inv (d : Doc) (hd : d.WF) : Inv cfg env (init d) := by
  refine ⟨⟨hd, ?_, ?_, ?_, ?_⟩, ?_, ⟨rfl, rfl, rfl⟩⟩
  · intro st h; cases h
  · intro h; cases h
  · intro h; cases h
  · intro t h; cases h
  · intro t h; cases h

theorem run_inv {s : St} (h : Inv cfg env s) (hfix : CfgOK cfg) (as : List Act) :
    Inv cfg env (run cfg env s as) := by
  induction as generalizing s with
  | nil => exact h
  | cons a as ih => exact ih (step_inv h hfix a)

end sched
end Ptk.C15
