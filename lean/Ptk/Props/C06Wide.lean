/-
  C06 — geometry of the differ for ARBITRARY cells (wide characters, multi-character cells, combining
  characters): confinement, no scroll, final cursor / SGR / modes (`diff_geo`, `diff_confined_wide`,
  `no_scroll_wide`).  Cell contents for such screens are covered by the correspondence and the oracle.
-/
import Ptk.Props.C06
namespace Ptk.C06
open Ptk.Py

variable (cw : Char → Nat)

/-- two terminals that differ at most in their cells -/
structure SameBut (A B : Term) : Prop where
  w : B.w = A.w
  h : B.h = A.h
  top : B.top = A.top
  row : B.row = A.row
  col : B.col = A.col
  sgr : B.sgr = A.sgr
  autowrap : B.autowrap = A.autowrap
  visible : B.visible = A.visible
  scrolled : B.scrolled = A.scrolled
  oob : B.oob = A.oob
  log : B.log = A.log

theorem SameBut.refl (A : Term) : SameBut A A := ⟨rfl, rfl, rfl, rfl, rfl, rfl, rfl, rfl, rfl, rfl, rfl⟩
theorem SameBut.trans {A B C : Term} (x : SameBut A B) (y : SameBut B C) : SameBut A C :=
  ⟨y.w.trans x.w, y.h.trans x.h, y.top.trans x.top, y.row.trans x.row, y.col.trans x.col, y.sgr.trans x.sgr,
   y.autowrap.trans x.autowrap, y.visible.trans x.visible, y.scrolled.trans x.scrolled, y.oob.trans x.oob,
   y.log.trans x.log⟩

theorem setCell_same (t : Term) (y x : Nat) (c : TCell) : SameBut t (t.setCell y x c) :=
  ⟨rfl, rfl, rfl, rfl, rfl, rfl, rfl, rfl, rfl, rfl, rfl⟩

theorem fixLeft_same (t : Term) (y x : Nat) : SameBut t (t.fixLeft y x) := by
  unfold Term.fixLeft; split
  · exact setCell_same t _ _ _
  · exact SameBut.refl t

theorem fixRight_same (t : Term) (y x : Nat) : SameBut t (t.fixRight y x) := by
  unfold Term.fixRight; split
  · exact setCell_same t _ _ _
  · exact SameBut.refl t

theorem putCont_same (t : Term) (y x : Nat) : ∀ k, SameBut t (t.putCont y x k) := by
  intro k
  induction k with
  | zero => exact SameBut.refl t
  | succ k ih => exact SameBut.trans ih (setCell_same _ _ _ _)

theorem mem_logCells (y x k : Nat) (p : Nat × Nat) (hp : p ∈ logCells y x k) :
    p.1 = y ∧ x ≤ p.2 ∧ p.2 < x + k := by
  induction k with
  | zero => simp [logCells] at hp
  | succ k ih =>
    simp only [logCells, List.mem_cons] at hp
    rcases hp with h | h
    · subst h; simp
    · have := ih h; omega

/-- a glyph of width `k ≥ 1` that fits on the line, autowrap off: only cells, the cursor column and the
    log change -/
theorem putGlyph_geo (t : Term) (c : Char) (k : Nat) (hk : 1 ≤ k) (hfit : t.col + k ≤ t.w)
    (haw : t.autowrap = false) :
    (t.putGlyph c k).w = t.w ∧ (t.putGlyph c k).h = t.h ∧ (t.putGlyph c k).top = t.top ∧
    (t.putGlyph c k).row = t.row ∧ (t.putGlyph c k).col = min (t.col + k) (t.w - 1) ∧
    (t.putGlyph c k).sgr = t.sgr ∧ (t.putGlyph c k).autowrap = false ∧
    (t.putGlyph c k).visible = t.visible ∧ (t.putGlyph c k).scrolled = t.scrolled ∧
    (t.putGlyph c k).oob = t.oob ∧
    (∀ p ∈ (t.putGlyph c k).log, p ∈ t.log ∨ (p.1 = t.row ∧ t.col ≤ p.2 ∧ p.2 < t.col + k)) := by
  have h1 : ¬ (t.w < t.col + k) := by omega
  unfold Term.putGlyph
  simp only [h1, if_false]
  have s1 := fixLeft_same t t.row t.col
  have s2 := fixRight_same (t.fixLeft t.row t.col) t.row (t.col + k)
  have s12 := SameBut.trans s1 s2
  generalize (t.fixLeft t.row t.col).fixRight t.row (t.col + k) = t2 at *
  have s3 := setCell_same t2 t2.row t2.col ⟨[c], t2.sgr⟩
  have s4 := putCont_same (t2.setCell t2.row t2.col ⟨[c], t2.sgr⟩) t2.row t2.col (k - 1)
  have s := SameBut.trans s12 (SameBut.trans s3 s4)
  generalize (t2.setCell t2.row t2.col ⟨[c], t2.sgr⟩).putCont t2.row t2.col (k - 1) = t3 at *
  have hlog : ∀ p ∈ logCells t3.row t3.col k ++ t3.log,
      p ∈ t.log ∨ (p.1 = t.row ∧ t.col ≤ p.2 ∧ p.2 < t.col + k) := by
    intro p hp
    rcases List.mem_append.mp hp with h | h
    · right; have := mem_logCells _ _ _ p h; rw [s.row, s.col] at this; exact this
    · left; rw [s.log] at h; exact h
  by_cases h2 : t3.col + k < t3.w
  · simp only [h2, if_true]
    refine ⟨s.w, s.h, s.top, s.row, ?_, s.sgr, by rw [s.autowrap, haw], s.visible, s.scrolled, s.oob, hlog⟩
    simp only [s.col, s.w] at h2 ⊢; omega
  · have haw3 : t3.autowrap = false := by rw [s.autowrap, haw]
    rw [if_neg h2, if_neg (by simp [haw3])]
    refine ⟨s.w, s.h, s.top, s.row, ?_, s.sgr, haw3, s.visible, s.scrolled, s.oob, hlog⟩
    simp only [s.col, s.w] at h2 ⊢; omega

/-- display width of a cell text: the sum of the character widths (`get_cwidth`) -/
def txtWidth (t : Text) : Nat := (t.map cw).sum

/-- no control characters (`Char.__init__` maps them to `^A`, `<80>`, …) -/
def Printable (t : Text) : Prop := ∀ c ∈ t, 32 ≤ c.toNat ∧ c.toNat ≠ 127

theorem putChar_printable (t : Term) (c : Char) (h32 : 32 ≤ c.toNat) (h127 : c.toNat ≠ 127) :
    Term.putChar cw t c = if cw c = 0 then t else t.putGlyph c (cw c) := by
  have e1 : c ≠ '\r' := by intro h; subst h; simp at h32
  have e2 : c ≠ '\n' := by intro h; subst h; simp at h32
  have e3 : c ≠ '\x08' := by intro h; subst h; simp at h32
  unfold Term.putChar
  have : ¬ (c.toNat < 32 ∨ c.toNat = 127) := by omega
  simp only [e1, e2, e3, this, if_false]

/-- writing a printable text that fits on the line (autowrap off): the cursor advances by the text's
    width (staying on the last column when it reaches the margin); nothing else but cells changes; the
    written cells are the `width` columns from the believed column `vc` on -/
theorem write_geo : ∀ (txt : Text) (t : Term) (vc : Nat), Printable txt → t.col = min vc (t.w - 1) →
    vc + txtWidth cw txt ≤ t.w → t.autowrap = false → 0 < t.w →
    (txt.foldl (Term.putChar cw) t).w = t.w ∧ (txt.foldl (Term.putChar cw) t).h = t.h ∧
    (txt.foldl (Term.putChar cw) t).top = t.top ∧ (txt.foldl (Term.putChar cw) t).row = t.row ∧
    (txt.foldl (Term.putChar cw) t).col = min (vc + txtWidth cw txt) (t.w - 1) ∧
    (txt.foldl (Term.putChar cw) t).sgr = t.sgr ∧ (txt.foldl (Term.putChar cw) t).autowrap = false ∧
    (txt.foldl (Term.putChar cw) t).visible = t.visible ∧
    (txt.foldl (Term.putChar cw) t).scrolled = t.scrolled ∧ (txt.foldl (Term.putChar cw) t).oob = t.oob ∧
    (∀ p ∈ (txt.foldl (Term.putChar cw) t).log,
      p ∈ t.log ∨ (p.1 = t.row ∧ vc ≤ p.2 ∧ p.2 < vc + txtWidth cw txt)) := by
  intro txt
  induction txt with
  | nil =>
    intro t vc _ hcol _ haw _
    have h0 : txtWidth cw [] = 0 := rfl
    rw [h0, Nat.add_zero]
    exact ⟨rfl, rfl, rfl, rfl, hcol, rfl, haw, rfl, rfl, rfl, fun p hp => Or.inl hp⟩
  | cons c cs ih =>
    intro t vc hpr hcol hfit haw hw
    have hc := hpr c (by simp)
    have hpr' : Printable cs := fun c' h' => hpr c' (by simp [h'])
    have hwd : txtWidth cw (c :: cs) = cw c + txtWidth cw cs := by simp [txtWidth]
    rw [hwd] at hfit ⊢
    simp only [List.foldl_cons]
    rw [putChar_printable cw t c hc.1 hc.2]
    by_cases h0 : cw c = 0
    · simp only [h0, if_true, Nat.zero_add] at hfit ⊢
      exact ih t vc hpr' hcol hfit haw hw
    · simp only [h0, if_false]
      have hcol' : t.col = vc := by rw [hcol]; omega
      obtain ⟨g1, g2, g3, g4, g5, g6, g7, g8, g9, g10, g11⟩ :=
        putGlyph_geo t c (cw c) (by omega) (by rw [hcol']; omega) haw
      generalize t.putGlyph c (cw c) = t1 at *
      obtain ⟨i1, i2, i3, i4, i5, i6, i7, i8, i9, i10, i11⟩ :=
        ih t1 (vc + cw c) hpr' (by rw [g5, g1, hcol']) (by rw [g1]; omega) g7 (by rw [g1]; exact hw)
      refine ⟨i1.trans g1, i2.trans g2, i3.trans g3, i4.trans g4, ?_, i6.trans g6, i7, i8.trans g8,
        i9.trans g9, i10.trans g10, ?_⟩
      · rw [i5, g1, Nat.add_assoc]
      · intro p hp
        rcases i11 p hp with h | h
        · rcases g11 p h with h | h
          · exact Or.inl h
          · right; rw [hcol'] at h; exact ⟨h.1, h.2.1, by omega⟩
        · right; rw [g4] at h; exact ⟨h.1, by omega, by omega⟩

/-- a cell the differ may print: printable characters whose widths add up to `Char.width ≥ 1` -/
structure CellOk (c : Cell) : Prop where
  printable : Printable c.txt
  width : txtWidth cw c.txt = c.width
  pos : 1 ≤ c.width

/-- the cells the column loop visits in a row (it strides by the cell width, so the empty
    continuation cells behind a wide character are stepped over) are printable and do not straddle
    the right edge -/
def FitRow (w : Nat) (row : List Cell) (n : Nat) : Nat → Nat → Prop
  | 0, _ => True
  | fuel + 1, c => c < n → (CellOk cw (cellAt row c) ∧ c + (cellAt row c).width ≤ w ∧
      FitRow w row n fuel (c + (cellAt row c).width))

theorem write_cell_geo (e : Env) (T : Term) (c y : Nat) (nc : Cell) (g : Geo e T ⟨c, y⟩)
    (ok : CellOk cw nc) (hfit : c + nc.width ≤ e.w) :
    Geo e (execCmd cw T (.write nc.txt)) ⟨c + nc.width, y⟩ ∧
    Frame T (execCmd cw T (.write nc.txt)) ∧
    (execCmd cw T (.write nc.txt)).sgr = T.sgr ∧
    (∀ p ∈ (execCmd cw T (.write nc.txt)).log,
      p ∈ T.log ∨ (p.1 = y ∧ c ≤ p.2 ∧ p.2 < c + nc.width)) := by
  obtain ⟨gw, gwp, grow, gcol, growlt, gaw⟩ := g
  obtain ⟨a1, a2, a3, a4, a5, a6, a7, a8, a9, a10, a11⟩ :=
    write_geo cw nc.txt T c ok.printable (by rw [gcol, gw]) (by rw [ok.width, gw]; exact hfit) gaw
      (by rw [gw]; exact gwp)
  simp only [execCmd]
  refine ⟨⟨a1.trans gw, gwp, a4.trans grow, ?_, ?_, a7⟩, ⟨a2, a3, a9, a10, a8⟩, a6, ?_⟩
  · rw [a5, ok.width, gw]
  · rw [a4, a2]; exact growlt
  · intro p hp
    rcases a11 p hp with h | h
    · exact Or.inl h
    · right; rw [ok.width, grow] at h; exact h

theorem outputChar_geo (e : Env) (T : Term) (c y : Nat) (last : Option Nat) (nc : Cell)
    (g : Good e T ⟨c, y⟩ last) (ok : CellOk cw nc) (hfit : c + nc.width ≤ e.w) :
    Good e (exec cw T (outputChar e last nc).1) ⟨c + nc.width, y⟩ (outputChar e last nc).2 ∧
    Frame T (exec cw T (outputChar e last nc).1) ∧
    (∀ p ∈ (exec cw T (outputChar e last nc).1).log,
      p ∈ T.log ∨ (p.1 = y ∧ c ≤ p.2 ∧ p.2 < c + nc.width)) := by
  unfold outputChar
  by_cases h1 : last = some nc.style
  · simp only [h1, if_true, exec_cons, exec_nil]
    have hs : T.sgr = e.attrsOf nc.style := by have := g.sgr; rw [h1] at this; exact this
    obtain ⟨a1, a2, a3, a4⟩ := write_cell_geo cw e T c y nc g.geo ok hfit
    exact ⟨⟨a1, by simp only [SgrOk]; rw [a3]; exact hs⟩, a2, a4⟩
  · simp only [h1, if_false]
    by_cases h2 : needAttrs e.rawOf last (e.rawOf nc.style) = true
    · simp only [h2, if_true, List.cons_append, List.nil_append, exec_cons, exec_nil]
      have g' : Geo e (execCmd cw T (.setAttrs (e.rawOf nc.style) e.depth (e.attrsOf nc.style))) ⟨c, y⟩ :=
        ⟨g.geo.w, g.geo.wpos, g.geo.row, g.geo.col, g.geo.rowlt, g.geo.aw⟩
      obtain ⟨a1, a2, a3, a4⟩ :=
        write_cell_geo cw e (execCmd cw T (.setAttrs (e.rawOf nc.style) e.depth (e.attrsOf nc.style))) c y nc g' ok hfit
      exact ⟨⟨a1, by simp only [SgrOk]; rw [a3]; rfl⟩, ⟨a2.h, a2.top, a2.scrolled, a2.oob, a2.visible⟩, a4⟩
    · simp only [h2, Bool.false_eq_true, if_false, List.nil_append, exec_cons, exec_nil]
      have hs : T.sgr = e.attrsOf nc.style := by
        cases last with
        | none => simp [needAttrs] at h2
        | some s =>
          simp [needAttrs] at h2
          have := g.sgr
          simp only [SgrOk] at this
          rw [this]; simp only [Env.attrsOf, h2.2]
      obtain ⟨a1, a2, a3, a4⟩ := write_cell_geo cw e T c y nc g.geo ok hfit
      exact ⟨⟨a1, by simp only [SgrOk]; rw [a3]; exact hs⟩, a2, a4⟩

theorem colLoop_geo (e : Env) (s : Screen) (y : Nat) (newRow prevRow : List Cell) (n : Nat) :
    ∀ (fuel c : Nat) (pos : Point) (last : Option Nat) (T : Term),
      n ≤ c + fuel → FitRow cw e.w newRow n fuel c → Good e T pos last → y < T.h →
      Good e (exec cw T (colLoop e s y newRow prevRow n fuel c pos last).cmds)
        (colLoop e s y newRow prevRow n fuel c pos last).pos
        (colLoop e s y newRow prevRow n fuel c pos last).last ∧
      Frame T (exec cw T (colLoop e s y newRow prevRow n fuel c pos last).cmds) ∧
      (∀ p ∈ (exec cw T (colLoop e s y newRow prevRow n fuel c pos last).cmds).log,
        p ∈ T.log ∨ (p.1 = y ∧ p.2 < e.w)) := by
  intro fuel
  induction fuel with
  | zero =>
    intro c pos last T _ _ g _
    simp only [colLoop, exec_nil]
    exact ⟨g, Frame.refl T, fun p hp => Or.inl hp⟩
  | succ fuel ih =>
    intro c pos last T hf hfit g hy
    rw [colLoop]
    by_cases hc : c < n
    · obtain ⟨ok, hfw, hrest⟩ := hfit hc
      have hcw : (if (cellAt newRow c).width = 0 then 1 else (cellAt newRow c).width) =
          (cellAt newRow c).width := by
        have := ok.pos
        split <;> omega
      simp only [hc, if_true, hcw]
      by_cases hd : (cellAt newRow c).txt ≠ (cellAt prevRow c).txt ∨
          (cellAt newRow c).style ≠ (cellAt prevRow c).style
      · simp only [hd, if_true]
        obtain ⟨m1, m2, m3, m4⟩ := moveCursor_spec cw e T pos last ⟨c, y⟩ g hy
        generalize moveCursor e.w pos last ⟨c, y⟩ = m at *
        rw [exec_append, exec_append, exec_zwe, exec_append]
        obtain ⟨o1, o2, o3⟩ :=
          outputChar_geo cw e (exec cw T m.1) c y m.2 (cellAt newRow c) m1 ok hfw
        generalize outputChar e m.2 (cellAt newRow c) = o at *
        have hy3 : y < (exec cw (exec cw T m.1) o.1).h := by rw [o2.h, m2.h]; exact hy
        have := ok.pos
        obtain ⟨r1, r2, r3⟩ :=
          ih (c + (cellAt newRow c).width) ⟨c + (cellAt newRow c).width, y⟩ o.2
            (exec cw (exec cw T m.1) o.1) (by omega) hrest o1 hy3
        refine ⟨r1, Frame.trans (Frame.trans m2 o2) r2, ?_⟩
        intro p hp
        rcases r3 p hp with h | h
        · rcases o3 p h with h | h
          · left; rw [m4] at h; exact h
          · right; exact ⟨h.1, by omega⟩
        · right; exact h
      · simp only [hd, if_false]
        have := ok.pos
        exact ih (c + (cellAt newRow c).width) pos last T (by omega) hrest g hy
    · simp only [hc, if_false, exec_nil]
      exact ⟨g, Frame.refl T, fun p hp => Or.inl hp⟩

theorem eraseFrom_same (t : Term) (down : Bool) : SameBut t (t.eraseFrom down) := by
  unfold Term.eraseFrom
  have s1 := fixLeft_same t t.row t.col
  generalize t.fixLeft t.row t.col = t1 at *
  exact ⟨s1.w, s1.h, s1.top, s1.row, s1.col, s1.sgr, s1.autowrap, s1.visible, s1.scrolled, s1.oob, s1.log⟩

theorem reset_erase_geo (e : Env) (T : Term) (pos : Point) (down : Bool) (g : Geo e T pos) :
    Good e (exec cw T [.resetAttrs, if down then .eraseDown else .eraseEol]) pos none ∧
    Frame T (exec cw T [.resetAttrs, if down then .eraseDown else .eraseEol]) ∧
    (exec cw T [.resetAttrs, if down then .eraseDown else .eraseEol]).log = T.log := by
  have hs := eraseFrom_same ({ T with sgr := Attrs.dflt }) down
  have he : exec cw T [.resetAttrs, if down then .eraseDown else .eraseEol] =
      ({ T with sgr := Attrs.dflt } : Term).eraseFrom down := by
    cases down <;> simp [execCmd]
  rw [he]
  generalize ({ T with sgr := Attrs.dflt } : Term).eraseFrom down = T' at *
  refine ⟨⟨⟨hs.w.trans g.w, g.wpos, hs.row.trans g.row, hs.col.trans g.col, ?_, hs.autowrap.trans g.aw⟩, ?_⟩,
    ⟨hs.h, hs.top, hs.scrolled, hs.oob, hs.visible⟩, hs.log⟩
  · rw [hs.row, hs.h]; exact g.rowlt
  · simp only [SgrOk]; exact hs.sgr

theorem rowStep_geo (e : Env) (s prev : Screen) (y : Nat) (pos : Point) (last : Option Nat) (T : Term)
    (hfit : FitRow cw e.w (s.row y) (lineLen e (s.row y)) (lineLen e (s.row y)) 0)
    (g : Good e T pos last) (hy : y < T.h) :
    Good e (exec cw T (rowStep e s prev y pos last).cmds) (rowStep e s prev y pos last).pos
      (rowStep e s prev y pos last).last ∧
    Frame T (exec cw T (rowStep e s prev y pos last).cmds) ∧
    (∀ p ∈ (exec cw T (rowStep e s prev y pos last).cmds).log, p ∈ T.log ∨ (p.1 = y ∧ p.2 < e.w)) := by
  obtain ⟨c1, c2, c5⟩ :=
    colLoop_geo cw e s y (s.row y) (prev.row y) (lineLen e (s.row y))
      (lineLen e (s.row y)) 0 pos last T (by omega) hfit g hy
  unfold rowStep
  simp only []
  generalize colLoop e s y (s.row y) (prev.row y) (lineLen e (s.row y)) (lineLen e (s.row y)) 0 pos last = r at *
  by_cases ht : lineLen e (s.row y) < lineLen e (prev.row y)
  · simp only [ht, if_true]
    have hy1 : y < (exec cw T r.cmds).h := by rw [c2.h]; exact hy
    obtain ⟨m1, m2, m3, m4⟩ :=
      moveCursor_spec cw e (exec cw T r.cmds) r.pos r.last ⟨lineLen e (s.row y), y⟩ c1 hy1
    generalize moveCursor e.w r.pos r.last ⟨lineLen e (s.row y), y⟩ = m at *
    rw [exec_append, exec_append]
    generalize exec cw (exec cw T r.cmds) m.1 = T2 at *
    obtain ⟨e1, e2, e3⟩ := reset_erase_geo cw e T2 ⟨lineLen e (s.row y), y⟩ false m1.geo
    simp only [Bool.false_eq_true, if_false] at e1 e2 e3
    refine ⟨e1, Frame.trans (Frame.trans c2 m2) e2, ?_⟩
    intro p hp
    rw [e3, m4] at hp
    exact c5 p hp
  · simp only [ht, if_false]
    exact ⟨c1, c2, c5⟩

/-- every row of the screen satisfies `FitRow` for the columns the differ looks at -/
def FitScreen (e : Env) (s : Screen) : Prop :=
  ∀ y, FitRow cw e.w (s.row y) (lineLen e (s.row y)) (lineLen e (s.row y)) 0

theorem rowLoop_geo (e : Env) (s prev : Screen) (hfit : FitScreen cw e s) :
    ∀ (k y0 : Nat) (pos : Point) (last : Option Nat) (T : Term),
      Good e T pos last → y0 + k ≤ T.h →
      Good e (exec cw T (rowLoop e s prev k y0 pos last).cmds) (rowLoop e s prev k y0 pos last).pos
        (rowLoop e s prev k y0 pos last).last ∧
      Frame T (exec cw T (rowLoop e s prev k y0 pos last).cmds) ∧
      (∀ p ∈ (exec cw T (rowLoop e s prev k y0 pos last).cmds).log,
        p ∈ T.log ∨ (y0 ≤ p.1 ∧ p.1 < y0 + k ∧ p.2 < e.w)) ∧
      (k = 0 → (rowLoop e s prev k y0 pos last).last = last) := by
  intro k
  induction k with
  | zero =>
    intro y0 pos last T g _
    simp only [rowLoop, exec_nil]
    exact ⟨g, Frame.refl T, fun p hp => Or.inl hp, fun _ => trivial⟩
  | succ k ih =>
    intro y0 pos last T g hk
    rw [rowLoop]
    simp only []
    obtain ⟨a1, a2, a5⟩ := rowStep_geo cw e s prev y0 pos last T (hfit y0) g (by omega)
    generalize rowStep e s prev y0 pos last = a at *
    rw [exec_append]
    obtain ⟨b1, b2, b5, _⟩ := ih (y0 + 1) a.pos a.last (exec cw T a.cmds) a1 (by rw [a2.h]; omega)
    refine ⟨b1, Frame.trans a2 b2, ?_, fun h => by omega⟩
    intro p hp
    rcases b5 p hp with h | h
    · rcases a5 p h with h | h
      · exact Or.inl h
      · exact Or.inr ⟨by omega, by omega, h.2⟩
    · exact Or.inr ⟨by omega, by omega, h.2.2⟩

/-- The geometry of the differ's output for **arbitrary cells** (wide characters, multi-character
    cells such as `^A`, combining characters — anything printable that does not straddle the right
    edge): the cursor ends where it should, attributes are reset, autowrap and cursor visibility are as
    required, every printed cell lies in the owned rows / columns, nothing scrolls and no cursor motion
    runs into the top / left margin.  (Nothing is claimed about cell contents here.) -/
theorem diff_geo (e : Env) (s : Screen) (pos : Point) (prev : Option Screen) (last : Option Nat)
    (isDone : Bool) (pw : Nat) (T : Term)
    (hfit : FitScreen cw e s) (pre : Pre e T pos last prev)
    (hrows : min (max s.height (prevHeight prev)) e.h ≤ T.h)
    (htgt : (if isDone then min s.height e.h else s.cursor.y) < T.h) :
    (exec cw T (diff e s pos prev last isDone pw).cmds).row =
        (if isDone then min s.height e.h else s.cursor.y) ∧
    (exec cw T (diff e s pos prev last isDone pw).cmds).col =
        min (if isDone then 0 else s.cursor.x) (e.w - 1) ∧
    (exec cw T (diff e s pos prev last isDone pw).cmds).w = e.w ∧
    (exec cw T (diff e s pos prev last isDone pw).cmds).sgr = Attrs.dflt ∧
    (exec cw T (diff e s pos prev last isDone pw).cmds).autowrap = (isDone || !e.fullScreen) ∧
    (exec cw T (diff e s pos prev last isDone pw).cmds).visible = s.showCursor ∧
    (∀ p ∈ (exec cw T (diff e s pos prev last isDone pw).cmds).log,
        p ∈ T.log ∨ (p.1 < min (max s.height (prevHeight prev)) e.h ∧ p.2 < e.w)) ∧
    Same T (exec cw T (diff e s pos prev last isDone pw).cmds) := by
  unfold diff
  simp only []
  rw [exec_append, exec_append]
  by_cases hfull : (isDone || prev.isNone || pw != e.w) = true
  · obtain ⟨q1, q2, q3, q4, _, q6, q7, q8⟩ := preamble_full cw e T pos last prev isDone pw pre hfull
    generalize preamble e pos prev last isDone pw = p at *
    obtain ⟨⟨pc, pp, pl⟩, pscr⟩ := p
    simp only at q1 q2 q3 q4 q6 q7 q8 ⊢
    subst q1 q2 q3
    generalize exec cw T pc = T1 at *
    have hE : Screen.empty.height = 0 := rfl
    rw [hE]
    generalize hK : min (max s.height 0) e.h = K at *
    have hKle : K ≤ T.h := by omega
    obtain ⟨r1, r2, r5, r6⟩ := rowLoop_geo cw e s Screen.empty hfit K 0 ⟨0, 0⟩ none T1 q4 (by rw [q8.h]; omega)
    generalize rowLoop e s Screen.empty K 0 ⟨0, 0⟩ none = r at *
    generalize exec cw T1 r.cmds = T2 at *
    obtain ⟨f1, f2, f3, f4, f5, f6, _, f8, f9⟩ :=
      finish_spec cw e s Screen.empty isDone r.pos r.last T2 r1 (by rw [r2.h, q8.h]; omega)
        (by rw [r2.h, q8.h]; exact htgt) (fun _ => ⟨hE, fun h0 => r6 (by omega)⟩)
    refine ⟨f1, f2, f3, f4, f5, ?_, ?_, Same.trans q8 (Same.trans r2.same f9)⟩
    · rw [f6, r2.visible, q6]; simp
    · intro p hp
      rw [f8] at hp
      rcases r5 p hp with h | h
      · left; rw [← q7]; exact h
      · right; exact ⟨by omega, h.2.2⟩
  · have hf : (isDone || prev.isNone || pw != e.w) = false := (Bool.not_eq_true _).mp hfull
    cases hp : prev with
    | none => simp [hp] at hf
    | some ps =>
      subst hp
      have hinc : (isDone || pw != e.w) = false := by simpa using hf
      have hD : isDone = false := by cases isDone <;> simp_all
      obtain ⟨q1, q2, q3, q4, _, q6, q7, q8⟩ := preamble_incr cw e T pos last ps isDone pw pre hinc
      generalize preamble e pos (some ps) last isDone pw = p at *
      obtain ⟨⟨pc, pp, pl⟩, pscr⟩ := p
      simp only at q1 q2 q3 q4 q6 q7 q8 ⊢
      subst q1 q2 q3
      generalize exec cw T pc = T1 at *
      simp only [prevHeight] at hrows ⊢
      generalize hK : min (max s.height pscr.height) e.h = K at *
      obtain ⟨r1, r2, r5, _⟩ := rowLoop_geo cw e s pscr hfit K 0 pp pl T1 q4 (by rw [q8.h]; omega)
      generalize rowLoop e s pscr K 0 pp pl = r at *
      generalize exec cw T1 r.cmds = T2 at *
      obtain ⟨f1, f2, f3, f4, f5, f6, _, f8, f9⟩ :=
        finish_spec cw e s pscr isDone r.pos r.last T2 r1 (by rw [r2.h, q8.h]; omega)
          (by rw [r2.h, q8.h]; exact htgt) (by intro h; rw [hD] at h; cases h)
      refine ⟨f1, f2, f3, f4, f5, ?_, ?_, Same.trans q8 (Same.trans r2.same f9)⟩
      · rw [f6, r2.visible, q6]; simp
      · intro p hp
        rw [f8] at hp
        rcases r5 p hp with h | h
        · left; rw [← q7]; exact h
        · right; exact ⟨by omega, h.2.2⟩

/-- **diff_confined_wide** — for arbitrary printable cells (wide, multi-character, combining): every
    cell a glyph is written to lies in a row `< min(max(new.height, prev.height), rows)` and a column
    `< columns`. -/
theorem diff_confined_wide (e : Env) (s : Screen) (pos : Point) (prev : Option Screen) (last : Option Nat)
    (isDone : Bool) (pw : Nat) (T : Term)
    (hfit : FitScreen cw e s) (pre : Pre e T pos last prev)
    (hrows : min (max s.height (prevHeight prev)) e.h ≤ T.h)
    (htgt : (if isDone then min s.height e.h else s.cursor.y) < T.h) :
    ∀ p ∈ (exec cw T (diff e s pos prev last isDone pw).cmds).log,
      p ∈ T.log ∨ (p.1 < min (max s.height (prevHeight prev)) e.h ∧ p.2 < e.w) :=
  (diff_geo cw e s pos prev last isDone pw T hfit pre hrows htgt).2.2.2.2.2.2.1

/-- **no_scroll_wide** — for arbitrary printable cells: no scroll, no cursor motion past the top / left
    margin, geometry unchanged; the cursor ends on the screen's cursor position (or on column 0 of the line
    below the output when `done`) with attributes reset. -/
theorem no_scroll_wide (e : Env) (s : Screen) (pos : Point) (prev : Option Screen) (last : Option Nat)
    (isDone : Bool) (pw : Nat) (T : Term)
    (hfit : FitScreen cw e s) (pre : Pre e T pos last prev)
    (hrows : min (max s.height (prevHeight prev)) e.h ≤ T.h)
    (htgt : (if isDone then min s.height e.h else s.cursor.y) < T.h) :
    (exec cw T (diff e s pos prev last isDone pw).cmds).scrolled = T.scrolled ∧
    (exec cw T (diff e s pos prev last isDone pw).cmds).oob = T.oob ∧
    (exec cw T (diff e s pos prev last isDone pw).cmds).h = T.h ∧
    (exec cw T (diff e s pos prev last isDone pw).cmds).row =
        (if isDone then min s.height e.h else s.cursor.y) ∧
    (exec cw T (diff e s pos prev last isDone pw).cmds).col =
        min (if isDone then 0 else s.cursor.x) (e.w - 1) ∧
    (exec cw T (diff e s pos prev last isDone pw).cmds).sgr = Attrs.dflt := by
  obtain ⟨a1, a2, _, a4, _, _, _, a8⟩ := diff_geo cw e s pos prev last isDone pw T hfit pre hrows htgt
  exact ⟨a8.scrolled, a8.oob, a8.h, a1, a2, a4⟩

/-! non-vacuity -/

def cellOkB (c : Cell) : Bool :=
  c.txt.all (fun ch => decide (32 ≤ ch.toNat) && decide (ch.toNat ≠ 127)) &&
    decide (txtWidth cw c.txt = c.width) && decide (1 ≤ c.width)

theorem cellOk_of_check (c : Cell) (h : cellOkB cw c = true) : CellOk cw c := by
  simp only [cellOkB, Bool.and_eq_true, List.all_eq_true, decide_eq_true_eq] at h
  exact ⟨fun ch hc => h.1.1 ch hc, h.1.2, h.2⟩

def fitRowB (w : Nat) (row : List Cell) (n : Nat) : Nat → Nat → Bool
  | 0, _ => true
  | fuel + 1, c => !decide (c < n) || (cellOkB cw (cellAt row c) && decide (c + (cellAt row c).width ≤ w) &&
      fitRowB w row n fuel (c + (cellAt row c).width))

theorem fitRow_of_check (w : Nat) (row : List Cell) (n : Nat) : ∀ fuel c,
    fitRowB cw w row n fuel c = true → FitRow cw w row n fuel c := by
  intro fuel
  induction fuel with
  | zero => intro c _; trivial
  | succ fuel ih =>
    intro c h hc
    simp only [fitRowB, Bool.or_eq_true, Bool.not_eq_true', decide_eq_false_iff_not, Bool.and_eq_true,
      decide_eq_true_eq] at h
    rcases h with h | h
    · exact absurd hc h
    · exact ⟨cellOk_of_check cw _ h.1.1, h.1.2, ih _ h.2⟩

/-- `世` is two columns wide, the combining acute accent none -/
def cwx : Char → Nat := fun c => if c = '世' then 2 else if c.toNat = 0x301 then 0 else 1

/-- `世` + continuation, `^A` (a control character as `Char` displays it) + continuation, `e` with a
    combining accent; 6 columns -/
def exWide : Screen :=
  ⟨[[⟨['世'], 0, 2⟩, ⟨[], 0, 0⟩, ⟨['^', 'A'], 2, 2⟩, ⟨[], 2, 0⟩, ⟨['e', Char.ofNat 0x301], 0, 1⟩, ⟨['z'], 0, 1⟩]],
   [], 1, ⟨5, 0⟩, true⟩
def exEnvW : Env := ⟨6, 3, false, fun _ => exAttrs, 0, 8, exEnc⟩
def exTW : Term := Term.fresh 6 3 0 (fun _ _ => ⟨['#'], Attrs.dflt⟩)

theorem exWide_fit : FitScreen cwx exEnvW exWide := by
  intro y
  match y with
  | 0 => exact fitRow_of_check cwx _ _ _ _ _ (by decide)
  | y + 1 =>
    have : exWide.row (y + 1) = [] := by simp [Screen.row, exWide, List.getD]
    rw [this]
    exact fitRow_of_check cwx _ _ _ _ _ (by decide)

/-- `diff_confined_wide` / `no_scroll_wide` are not vacuous: a first render of the wide screen … -/
example : (exec cwx exTW (diff exEnvW exWide ⟨0, 0⟩ none none false 0).cmds).scrolled = 0 :=
  (no_scroll_wide cwx exEnvW exWide ⟨0, 0⟩ none none false 0 exTW exWide_fit
    ⟨rfl, by decide, rfl, rfl, by decide, (fun _ h => by cases h), rfl⟩ (by decide) (by decide)).1

/-- … and the model agrees: `世` occupies columns 0–1, `^A` columns 2–3 -/
example : (exec cwx exTW (diff exEnvW exWide ⟨0, 0⟩ none none false 0).cmds).cells 0 1 = ⟨[], Attrs.dflt⟩ ∧
    (exec cwx exTW (diff exEnvW exWide ⟨0, 0⟩ none none false 0).cmds).cells 0 3 = ⟨['A'], exAttrs 2⟩ ∧
    (exec cwx exTW (diff exEnvW exWide ⟨0, 0⟩ none none false 0).cmds).cells 0 5 = ⟨['z'], Attrs.dflt⟩ ∧
    (exec cwx exTW (diff exEnvW exWide ⟨0, 0⟩ none none false 0).cmds).col = 5 := by
  decide
/-- the cursor / mode part of the renderer invariant (no claim about cell contents): enough to carry
    "no scroll, no motion past the margins, writes confined" over sequences of screens with arbitrary cells -/
structure RGeo (e : Env) (R : RState) (T : Term) : Prop where
  w : T.w = e.w
  wpos : 0 < e.w
  row : T.row = R.pos.y
  col : T.col = R.pos.x
  posx : R.pos.x < e.w
  rowlt : T.row < T.h
  tot : T.top + T.h ≤ e.h
  sgr : T.sgr = Attrs.dflt
  last : R.lastStyle = none
  aw : e.fullScreen = true → R.lastScreen.isSome = true → T.autowrap = false

/-- per-operation side conditions for arbitrary cells -/
def OpOkW (e : Env) (R : RState) (T : Term) : ROp → Prop
  | .render s _ k d _ => FitScreen cw (envFor e k d) s ∧ s.cursor.x < e.w ∧ s.cursor.y < T.h ∧
      min (max s.height (prevHeight R.lastScreen)) e.h ≤ T.h
  | .finish s _ k d _ => FitScreen cw (envFor e k d) s ∧ min s.height e.h < T.h ∧
      min (max s.height (prevHeight R.lastScreen)) e.h ≤ T.h
  | .erase _ => True
  | .clear => True

def RunOkW (e : Env) : RState → Term → List ROp → Prop
  | _, _, [] => True
  | R, T, op :: ops => OpOkW cw e R T op ∧ RunOkW e (stepR cw e R T op).1 (stepR cw e R T op).2 ops

theorem pre_of_rgeo (e : Env) (R : RState) (T : Term) (k : Nat) (inv : RGeo e R T) :
    Pre e T R.pos R.lastStyle (R.prevFor e k) := by
  refine ⟨inv.w, inv.wpos, inv.row, ?_, inv.rowlt, ?_, ?_⟩
  · rw [inv.col]; have := inv.posx; omega
  · intro hf hs
    apply inv.aw hf
    rcases prevFor_cases e R k with h | h
    · rw [h] at hs; cases hs
    · rw [h] at hs; exact hs
  · rw [inv.last]; exact inv.sgr

theorem rgeo_env (e : Env) (R : RState) (T : Term) (k d : Nat) (inv : RGeo e R T) :
    RGeo (envFor e k d) R T :=
  ⟨inv.w, inv.wpos, inv.row, inv.col, inv.posx, inv.rowlt, inv.tot, inv.sgr, inv.last, inv.aw⟩

theorem rgeo_of_erased (e : Env) (R : RState) (T : Term) (la : Bool) (inv : RGeo e R T) :
    RGeo e (R.reset false la).1
      { T with row := 0, col := 0, sgr := Attrs.dflt, autowrap := true, visible := true,
               cells := fun _ _ => TCell.blank } := by
  obtain ⟨p1, p2, p3⟩ := reset_state R false la
  refine ⟨inv.w, inv.wpos, ?_, ?_, ?_, ?_, inv.tot, rfl, p3, ?_⟩
  · rw [p1]
  · rw [p1]
  · rw [p1]; exact inv.wpos
  · have := inv.rowlt; simp only; omega
  · intro _ h; rw [p2] at h; cases h

/-- one operation on screens with arbitrary cells: the cursor invariant is kept, nothing scrolls, no
    motion runs past the top / left margin -/
theorem stepR_geo (e : Env) (R : RState) (T : Term) (op : ROp) (inv : RGeo e R T)
    (ok : OpOkW cw e R T op) :
    RGeo e (stepR cw e R T op).1 (stepR cw e R T op).2 ∧
    (stepR cw e R T op).2.scrolled = T.scrolled ∧ (stepR cw e R T op).2.oob = T.oob := by
  cases op with
  | render s m k d sh =>
    obtain ⟨hfit, hcx, hcy, hrows⟩ := ok
    have pre := pre_of_rgeo (envFor e k d) R T k (rgeo_env e R T k d inv)
    have hrows' : min (max s.height (prevHeight (R.prevFor (envFor e k d) k))) (envFor e k d).h ≤ T.h := by
      have := prevHeight_prevFor (envFor e k d) R k; simp only [envFor_h]; omega
    obtain ⟨a1, a2, a3, a4, a5, _, _, a8⟩ :=
      diff_geo cw (envFor e k d) s R.pos (R.prevFor (envFor e k d) k) R.lastStyle false R.prevWidth T hfit pre hrows'
        (by simpa using hcy)
    simp only [envFor_w, envFor_h, envFor_fs] at a1 a2 a3 a4 a5
    obtain ⟨fp1, fp2⟩ : (diff (envFor e k d) s R.pos (R.prevFor (envFor e k d) k) R.lastStyle false R.prevWidth).pos = s.cursor ∧
        (diff (envFor e k d) s R.pos (R.prevFor (envFor e k d) k) R.lastStyle false R.prevWidth).last = none := by
      unfold diff; simp only []
      have := finish_pos (envFor e k d) s (preamble (envFor e k d) R.pos (R.prevFor (envFor e k d) k) R.lastStyle false R.prevWidth).2 false
      simp only [Bool.false_eq_true, if_false] at this
      exact ⟨(this _ _).1, (this _ _).2⟩
    obtain ⟨a, b, ha, hb, hc⟩ := render_cmds (envFor e k d) R s false m k sh
    have hT : (stepR cw e R T (.render s m k d sh)).2 =
        exec cw T (diff (envFor e k d) s R.pos (R.prevFor (envFor e k d) k) R.lastStyle false R.prevWidth).cmds := by
      simp only [stepR, hc, Bool.false_eq_true, if_false, List.append_nil]
      rw [exec_append, exec_inert cw T a ha, exec_append, exec_inert cw _ b hb]
    have hR : (stepR cw e R T (.render s m k d sh)).1 =
        R.rendered (envFor e k d) s m k sh (diff (envFor e k d) s R.pos (R.prevFor (envFor e k d) k) R.lastStyle false R.prevWidth) := by
      simp [stepR, RState.render]
    rw [hT, hR]
    simp only [RState.rendered, Bool.false_eq_true, if_false, Bool.false_or] at *
    refine ⟨⟨a3, inv.wpos, ?_, ?_, ?_, ?_, ?_, a4, fp2, ?_⟩, a8.scrolled, a8.oob⟩
    · simp only [fp1]; exact a1
    · simp only [fp1]; rw [a2]; omega
    · simp only [fp1]; exact hcx
    · rw [a1, a8.h]; exact hcy
    · rw [a8.h, a8.top]; exact inv.tot
    · intro hf _; rw [a5, hf]; rfl
  | finish s m k d sh =>
    obtain ⟨hfit, hcy, hrows⟩ := ok
    have pre := pre_of_rgeo (envFor e k d) R T k (rgeo_env e R T k d inv)
    have hrows' : min (max s.height (prevHeight (R.prevFor (envFor e k d) k))) (envFor e k d).h ≤ T.h := by
      have := prevHeight_prevFor (envFor e k d) R k; simp only [envFor_h]; omega
    obtain ⟨a1, a2, a3, a4, a5, _, _, a8⟩ :=
      diff_geo cw (envFor e k d) s R.pos (R.prevFor (envFor e k d) k) R.lastStyle true R.prevWidth T hfit pre hrows'
        (by simpa using hcy)
    simp only [envFor_w, envFor_h, envFor_fs] at a1 a2 a3 a4 a5
    obtain ⟨a, b, ha, hb, hc⟩ := render_cmds (envFor e k d) R s true m k sh
    have hT : (stepR cw e R T (.finish s m k d sh)).2 =
        ({ exec cw T (diff (envFor e k d) s R.pos (R.prevFor (envFor e k d) k) R.lastStyle true R.prevWidth).cmds with
            visible := true } : Term).rebase := by
      simp only [stepR, hc, if_true]
      rw [exec_append, exec_inert cw T a ha, exec_append, exec_append, exec_inert cw _ b hb, exec_reset]
    have hR : (stepR cw e R T (.finish s m k d sh)).1 =
        ((R.rendered (envFor e k d) s m k sh (diff (envFor e k d) s R.pos (R.prevFor (envFor e k d) k) R.lastStyle true R.prevWidth)).reset
          false true).1 := by
      simp [stepR, RState.render]
    rw [hT, hR]
    generalize exec cw T (diff (envFor e k d) s R.pos (R.prevFor (envFor e k d) k) R.lastStyle true R.prevWidth).cmds = Td at *
    generalize R.rendered (envFor e k d) s m k sh (diff (envFor e k d) s R.pos (R.prevFor (envFor e k d) k) R.lastStyle true R.prevWidth) = R1 at *
    obtain ⟨p1, p2, p3⟩ := reset_state R1 false true
    simp only [if_true] at a1 a2
    refine ⟨⟨?_, inv.wpos, ?_, ?_, ?_, ?_, ?_, ?_, p3, ?_⟩, ?_, ?_⟩
    · simpa [Term.rebase] using a3
    · rw [p1]; rfl
    · rw [p1]; simp only [Term.rebase]; rw [a2]; simp
    · rw [p1]; exact inv.wpos
    · simp only [Term.rebase]; rw [a1, a8.h]; omega
    · simp only [Term.rebase]; rw [a8.h, a8.top, a1]; have := inv.tot; omega
    · simpa [Term.rebase] using a4
    · intro _ h; rw [p2] at h; cases h
    · simpa [Term.rebase] using a8.scrolled
    · simpa [Term.rebase] using a8.oob
  | erase la =>
    have inv' : RInv e { R with lastScreen := none } T :=
      ⟨inv.w, inv.wpos, inv.row, inv.col, inv.posx, inv.rowlt, inv.tot, inv.sgr, inv.last,
       (fun _ h => by cases h), (fun ps h => by cases h)⟩
    have hT : (stepR cw e R T (.erase la)).2 =
        { T with row := 0, col := 0, sgr := Attrs.dflt, autowrap := true, visible := true,
                 cells := fun _ _ => TCell.blank } := by
      have := exec_erase cw e { R with lastScreen := none } T la inv'
      simp only [stepR]
      rw [← this]
      simp [RState.erase, RState.reset]
    have hR : (stepR cw e R T (.erase la)).1 = (R.reset false la).1 := rfl
    rw [hT, hR]
    exact ⟨rgeo_of_erased e R T la inv, rfl, rfl⟩
  | clear =>
    have inv' : RInv e { R with lastScreen := none } T :=
      ⟨inv.w, inv.wpos, inv.row, inv.col, inv.posx, inv.rowlt, inv.tot, inv.sgr, inv.last,
       (fun _ h => by cases h), (fun ps h => by cases h)⟩
    have hT : (stepR cw e R T .clear).2 =
        { T with row := 0, col := 0, sgr := Attrs.dflt, autowrap := true, visible := true,
                 h := T.top + T.h, top := 0, cells := fun _ _ => TCell.blank } := by
      have := exec_erase cw e { R with lastScreen := none } T true inv'
      simp only [stepR, RState.clear]
      rw [exec_append]
      have h2 : exec cw T (R.erase true).2 = exec cw T (({ R with lastScreen := none } : RState).erase true).2 := by
        simp [RState.erase, RState.reset]
      rw [h2, this]
      simp only [exec_cons, exec_nil, execCmd, erased_dflt]
      congr 1
      · funext y x; split <;> rfl
    have hR : (stepR cw e R T .clear).1 = (R.reset false true).1 := rfl
    rw [hT, hR]
    obtain ⟨p1, p2, p3⟩ := reset_state R false true
    refine ⟨⟨inv.w, inv.wpos, ?_, ?_, ?_, ?_, ?_, rfl, p3, ?_⟩, rfl, rfl⟩
    · rw [p1]
    · rw [p1]
    · rw [p1]; exact inv.wpos
    · have := inv.rowlt; simp only; omega
    · simp only; have := inv.tot; omega
    · intro _ h; rw [p2] at h; cases h

/-- **render_seq_geo** — over any sequence of renders / done-renders / erases / clears of screens with
    arbitrary printable cells that fit (no wide character straddling the right edge, the drawn rows fit
    below the origin, a free line below the output for `done`): the terminal never scrolls and the cursor
    is never asked to move past the top or left margin of the owned area. -/
theorem render_seq_geo (e : Env) : ∀ (ops : List ROp) (R : RState) (T : Term),
    RGeo e R T → RunOkW cw e R T ops →
    RGeo e (runR cw e R T ops).1 (runR cw e R T ops).2 ∧
    (runR cw e R T ops).2.scrolled = T.scrolled ∧ (runR cw e R T ops).2.oob = T.oob := by
  intro ops
  induction ops with
  | nil => intro R T inv _; exact ⟨inv, rfl, rfl⟩
  | cons op ops ih =>
    intro R T inv ok
    obtain ⟨s1, s2, s3⟩ := stepR_geo cw e R T op inv ok.1
    obtain ⟨i1, i2, i3⟩ := ih _ _ s1 ok.2
    exact ⟨i1, i2.trans s2, i3.trans s3⟩

/-- a second wide screen: the wide character moved one column to the right, `^A` replaced by `ab` -/
def exWide2 : Screen :=
  ⟨[[⟨['q'], 0, 1⟩, ⟨['世'], 0, 2⟩, ⟨[], 0, 0⟩, ⟨['a'], 2, 1⟩, ⟨['b'], 2, 1⟩]], [], 1, ⟨4, 0⟩, true⟩

theorem exWide2_fit : FitScreen cwx exEnvW exWide2 := by
  intro y
  match y with
  | 0 => exact fitRow_of_check cwx _ _ _ _ _ (by decide)
  | y + 1 =>
    have : exWide2.row (y + 1) = [] := by simp [Screen.row, exWide2, List.getD]
    rw [this]
    exact fitRow_of_check cwx _ _ _ _ _ (by decide)

def exOpsW : List ROp := [.render exWide false 0 8 0, .render exWide2 false 0 8 0, .finish exWide2 false 0 8 0]

/-- `render_seq_geo` is not vacuous: wide screen, incremental render of another wide screen, done -/
example : (runR cwx exEnvW exR0 exTW exOpsW).2.scrolled = 0 :=
  (render_seq_geo cwx exEnvW exOpsW exR0 exTW
    ⟨rfl, by decide, rfl, rfl, by decide, by decide, by decide, rfl, rfl, (fun h _ => by cases h)⟩
    ⟨⟨exWide_fit, by decide, by decide, by decide⟩, ⟨exWide2_fit, by decide, by decide, by decide⟩,
     ⟨exWide2_fit, by decide, by decide⟩, trivial⟩).2.1

/-- … and the model computes it: after the incremental render `世` is on columns 1–2 and the cell that
    held the right half of the old `世` … -/
example : (runR cwx exEnvW exR0 exTW [.render exWide false 0 8 0, .render exWide2 false 0 8 0]).2.cells 0 1 =
      ⟨['世'], Attrs.dflt⟩ ∧
    (runR cwx exEnvW exR0 exTW [.render exWide false 0 8 0, .render exWide2 false 0 8 0]).2.cells 0 2 =
      ⟨[], Attrs.dflt⟩ ∧
    (runR cwx exEnvW exR0 exTW [.render exWide false 0 8 0, .render exWide2 false 0 8 0]).2.cells 0 0 =
      ⟨['q'], Attrs.dflt⟩ ∧
    (runR cwx exEnvW exR0 exTW [.render exWide false 0 8 0, .render exWide2 false 0 8 0]).2.cells 0 5 =
      TCell.blank := by
  decide
end Ptk.C06
