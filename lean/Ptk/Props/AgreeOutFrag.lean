/-
  Cross-model agreement, cluster "Output side" — small shared helpers around fragments (C10 vs C18, C18 vs C19):

    formatted_text/utils.py  fragment_list_to_text   C18.fragText          vs  C10.fragListToText (Model/C10Out.lean)
    formatted_text/utils.py  fragment_list_width     C18.fragWidth         vs  C10.fragsWidth     (Model/C10Copy.lean)
    layout/utils.py          explode_text_fragments  C18.explode           vs  C10.explode        (Model/C10Copy.lean)
    styles/pygments.py       pygments_token_to_classname  C18.pygmentsClassname (Model/C18Expl.lean) vs C19.tokenToClassname

  Translation: a C18 fragment `{style, text : List Char, handler}` is the C10 fragment `(style, text.map Char.toNat)`
  (`fragTo`; C10 has no mouse handlers); C18's `cw : Char → Nat` is `fun c => (wc c.toNat).toNat` for C10's `wc`.
-/
import Ptk.Model.C10Out
import Ptk.Model.C18Expl
import Ptk.Model.C19Dict
namespace Ptk.AgreeOut.Frag
open Ptk Ptk.Py

def tn (t : Text) : List Nat := t.map Char.toNat

/-- a C18 fragment `(style, text[, handler])` as a C10 fragment `(style, code points)` -/
def fragTo (f : C18.Frag) : C10.Frag := (f.style, tn f.text)

theorem zwe_eq (f : C18.Frag) : C10.isZwe (fragTo f).1 = !C18.visibleFrag f := by
  have hm : C10.zweMarker = C18.zwMarker := rfl
  show (findSub? C10.zweMarker f.style).isSome = !(findSub? C18.zwMarker f.style).isNone
  rw [hm]
  cases findSub? C18.zwMarker f.style <;> rfl

-- formatted_text/utils.py::fragment_list_to_text — `Ptk.C18.fragText` vs `Ptk.C10.fragListToText`
theorem fragText_eq (fs : C18.Frags) : tn (C18.fragText fs) = C10.fragListToText (fs.map fragTo) := by
  induction fs with
  | nil => rfl
  | cons f rest ih =>
    simp only [C18.fragText, C10.fragListToText, List.map_cons, List.filter_cons, zwe_eq] at ih ⊢
    cases h : C18.visibleFrag f
    · simpa using ih
    · simp only [Bool.not_true, if_true, List.map_cons, List.flatten_cons,
        List.flatMap_cons, Bool.not_false]
      rw [← ih]; simp [tn, fragTo]

-- formatted_text/utils.py::fragment_list_width — `Ptk.C18.fragWidth` vs `Ptk.C10.fragsWidth`
-- (`cw c = get_cwidth(c) = max(0, wcwidth(c))`)
theorem fragWidth_eq (wc : Nat → Int) (fs : C18.Frags) :
    C18.fragWidth (fun c => (wc c.toNat).toNat) fs = C10.fragsWidth wc (fs.map fragTo) := by
  have hcw : ∀ t : Text, (t.map fun c => (wc c.toNat).toNat).sum = C10.cwidth wc (tn t) := by
    intro t; induction t with
    | nil => rfl
    | cons c cs ih => simp only [List.map_cons, List.sum_cons, tn, C10.cwidth] at ih ⊢; rw [ih]
  induction fs with
  | nil => rfl
  | cons f rest ih =>
    simp only [C18.fragWidth, List.map_cons, List.filter_cons] at ih ⊢
    show _ = (if C10.isZwe (fragTo f).1 then 0 else C10.cwidth wc (fragTo f).2) + C10.fragsWidth wc (rest.map fragTo)
    rw [zwe_eq, ← ih]
    cases h : C18.visibleFrag f
    · simp
    · simp [hcw, fragTo]

-- layout/utils.py::explode_text_fragments — `Ptk.C18.explode` vs `Ptk.C10.explode`
theorem explode_eq (fs : C18.Frags) : (C18.explode fs).map fragTo = C10.explode (fs.map fragTo) := by
  induction fs with
  | nil => rfl
  | cons f rest ih =>
    simp only [C18.explode, List.flatMap_cons, List.map_append, List.map_cons] at ih ⊢
    show _ = (fragTo f).2.map (fun c => ((fragTo f).1, [c])) ++ C10.explode (rest.map fragTo)
    rw [← ih]
    simp [fragTo, tn, Function.comp_def]

theorem toLower_eq (c : Char) : c.toLower = C19.lowerChar c := by
  have hle : ∀ (a b : UInt32), a ≤ b ↔ a.toNat ≤ b.toNat := fun a b => UInt32.le_iff_toNat_le
  unfold Char.toLower C19.lowerChar
  split
  · rename_i h
    have h2 : 65 ≤ c.toNat ∧ c.toNat ≤ 90 := ⟨(hle _ _).mp h.1, (hle _ _).mp h.2⟩
    rw [if_pos h2]
    apply Char.toNat_inj.mp
    have hv : (c.toNat + 32).isValidChar := Or.inl (by omega)
    have h3 : (Char.ofNat (c.toNat + 32)).toNat = c.toNat + 32 := by
      unfold Char.ofNat
      rw [dif_pos hv]
      rfl
    rw [h3]
    show (c.val + ('a'.val - 'A'.val)).toNat = c.val.toNat + 32
    have : ('a'.val - 'A'.val) = 32 := by decide
    rw [this, UInt32.toNat_add]
    have : c.val.toNat ≤ 90 := h2.2
    show (c.val.toNat + 32) % 4294967296 = _
    omega
  · rename_i h
    have h2 : ¬ (65 ≤ c.toNat ∧ c.toNat ≤ 90) := fun h2 => h ⟨(hle _ _).mpr h2.1, (hle _ _).mpr h2.2⟩
    rw [if_neg h2]

-- styles/pygments.py::pygments_token_to_classname — `Ptk.C18.pygmentsClassname` vs `Ptk.C19.tokenToClassname`
theorem classname_eq (token : List Text) : C18.pygmentsClassname token = C19.tokenToClassname token := by
  simp only [C18.pygmentsClassname, C19.tokenToClassname, C18.asciiLower, C19.lower]
  apply List.map_congr_left; intro c _; exact toLower_eq c

end Ptk.AgreeOut.Frag
