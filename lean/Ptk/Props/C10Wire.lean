/-
  C10 part 6 — from hostile content to the BYTES on the wire.  Composition of
  `_copy_body` (part 2), `_output_screen_diff` + `Vt100_Output` (parts 3, 4), the `_buffer` / `flush`
  / `flush_stdout` / `encode(…, "replace")` stage (part 5) and the terminal's decoder: for any
  content (any code points, lone surrogates included) and any lawful codec, a terminal of that
  encoding reads the byte stream as text whose control tokens are exactly the renderer's own.
-/
import Ptk.Props.C10Stream
import Ptk.Props.C10Bytes
namespace Ptk.C10
open Ptk.Py

/-! ### renderer-generated pieces are ASCII -/

def emitAscii (E : Emit) : Bool :=
  isAsciiB E.hide && isAsciiB E.show_ && isAsciiB E.reset && isAsciiB E.eraseDown &&
  isAsciiB E.eraseEol && isAsciiB E.disableWrap && isAsciiB E.enableWrap &&
  isAsciiB E.up1 && isAsciiB E.fwd1 && isAsciiB E.back1 &&
  isAsciiB E.upPre && isAsciiB E.upSuf && isAsciiB E.fwdPre && isAsciiB E.fwdSuf &&
  isAsciiB E.backPre && isAsciiB E.backSuf

theorem ascii_append {a b : CText} (ha : IsAscii a) (hb : IsAscii b) : IsAscii (a ++ b) := by
  intro c hc
  rcases List.mem_append.mp hc with h | h
  · exact ha c h
  · exact hb c h

theorem decimal_ascii (n : Nat) : IsAscii (decimal n) := by
  intro c hc
  have := decimal_params n c hc
  simp only [isParam, Bool.and_eq_true, decide_eq_true_eq] at this
  omega

theorem amountSeq_ascii {one pre suf : CText} (h1 : IsAscii one) (h2 : IsAscii pre) (h3 : IsAscii suf)
    (n : Nat) : IsAscii (amountSeq one pre suf n) := by
  match n with
  | 0 => intro c hc; simp [amountSeq] at hc
  | 1 => exact h1
  | n + 2 => exact ascii_append (ascii_append h2 (decimal_ascii _)) h3

theorem repeatCrLf_ascii (k : Nat) : IsAscii (repeatCrLf k) := by
  induction k with
  | zero => intro c hc; simp [repeatCrLf] at hc
  | succ k ih =>
    intro c hc
    simp only [repeatCrLf, List.mem_cons] at hc
    rcases hc with rfl | rfl | h
    · decide
    · decide
    · exact ih c h

/-- every piece a `Vt100_Output` appends for a call of the renderer that does not carry screen
    content is pure ASCII -/
theorem vtEv_ascii {E : Emit} {sgr : Nat → CText} (hE : emitAscii E = true) (hs : ∀ a, IsAscii (sgr a))
    (v : VtSt) (e : Ev) (hk : (vtEv E sgr v e).2.1 = .gen ∨ (vtEv E sgr v e).2.1 = .genw) :
    IsAscii (vtEv E sgr v e).2.2 := by
  simp only [emitAscii, Bool.and_eq_true, isAsciiB_iff] at hE
  obtain ⟨⟨⟨⟨⟨⟨⟨⟨⟨⟨⟨⟨⟨⟨⟨e1, e2⟩, e3⟩, e4⟩, e5⟩, e6⟩, e7⟩, e8⟩, e9⟩, e10⟩, e11⟩, e12⟩, e13⟩, e14⟩, e15⟩, e16⟩ := hE
  have nil : IsAscii ([] : CText) := by intro c hc; simp at hc
  cases e with
  | cell t => rcases hk with h | h <;> simp [vtEv] at h
  | raw t => rcases hk with h | h <;> simp [vtEv] at h
  | cr => simp only [vtEv]; intro c hc; have : c = CR := by simpa [safeWrite, CR, ESC] using hc
          subst this; decide
  | nl k => simp only [vtEv, safeWrite_crlf]; exact repeatCrLf_ascii k
  | hideCursor => simp only [vtEv]; split <;> first | exact nil | exact e1
  | showCursor => simp only [vtEv]; split <;> first | exact nil | exact e2
  | resetAttrs => exact e3
  | setAttrs a => exact hs a
  | fwd n => exact amountSeq_ascii e9 e13 e14 n
  | back n => exact amountSeq_ascii e10 e15 e16 n
  | up n => exact amountSeq_ascii e8 e11 e12 n
  | eraseDown => exact e4
  | eraseEol => exact e5
  | disableWrap => exact e6
  | enableWrap => exact e7

theorem vtSegs_ascii {E : Emit} {sgr : Nat → CText} (hE : emitAscii E = true) (hs : ∀ a, IsAscii (sgr a))
    (evs : List Ev) (v : VtSt) :
    ∀ sg ∈ (vtSegs E sgr v evs).2, (sg.1 = .gen ∨ sg.1 = .genw) → IsAscii sg.2 := by
  induction evs generalizing v with
  | nil => intro sg h; simp [vtSegs] at h
  | cons e es ih =>
    intro sg h hk
    simp only [vtSegs, List.mem_cons] at h
    rcases h with rfl | h
    · exact vtEv_ascii hE hs v e hk
    · exact ih _ sg h hk

/-- the emitter strings regenerated from the real `Vt100_Output` are pure ASCII -/
theorem gen_emit_ascii : emitAscii genEmit = true := by decide +kernel

/-! ### the stream theorem under a character map that fixes the generated pieces -/

theorem segsText_cons (sg : Seg) (rest : List Seg) : segsText (sg :: rest) = sg.2 ++ segsText rest := by
  simp [segsText]

/-- **Stream theorem, seen through an encoding.**  If, after the per-character map `f` (what an
    encoding with `"replace"` does to the text), every content piece is control-free and every other
    piece is unchanged and complete, the control tokens of the mapped stream are exactly those of
    the non-content pieces, in order. -/
theorem stream_tokens_mapped (f : CP → CP) (segs : List Seg)
    (hc : ∀ sg ∈ segs, sg.1 = .content → Clean (sg.2.map f))
    (hg : ∀ sg ∈ segs, sg.1 ≠ .content → Complete sg.2 ∧ sg.2.map f = sg.2) :
    ctrlTokens ((segsText segs).map f) =
      (segs.filter (fun sg => sg.1 ≠ .content)).flatMap (fun sg => ctrlTokens sg.2) := by
  induction segs with
  | nil => simp [segsText]; rfl
  | cons sg rest ih =>
    have ih' := ih (fun s hs => hc s (by simp [hs])) (fun s hs => hg s (by simp [hs]))
    rw [segsText_cons, List.map_append]
    by_cases hk : sg.1 = .content
    · have hcl := ctrlTokens_clean (hc sg (by simp) hk)
      rw [ctrlTokens_append_complete _ hcl.2, hcl.1, ih']
      simp [hk]
    · have h := hg sg (by simp) hk
      rw [h.2, ctrlTokens_append_complete _ h.1, ih']
      simp [hk]

/-! ### capstone -/

/-- **Hostile content → bytes → terminal.**  ANY lines of fragments — any code points: ESC, C0,
    C1, 8-bit CSI, wide and zero-width characters, LONE SURROGATES (what `os.fsdecode` makes of the
    raw bytes 0x80–0xFF) — none of them marked `[ZeroWidthEscape]`; any styles, line-prefix callback,
    window geometry, wrapping and scrolling; any previous screen, cursor, style state and flags; any
    display table / width function satisfying the side conditions; emitter strings and SGR codes that
    are complete ASCII sequences; ANY lawful codec (UTF-8 and every regenerated code page are:
    `utf8_lawful`, `gen_codec_lawful`).  Let `bytes` be what `flush_stdout` hands to the binary
    stream for the frame (`encode(enc, "replace")` of the buffered text).  Then a terminal of that
    encoding reads `bytes` as a sequence of characters `view` —
    * without a single stray byte (every item is a character; no raw C1 byte, no broken sequence),
    * `view` is the frame's text with exactly the unencodable characters shown as `?`,
    * every content piece of `view` is control-free, and
    * the control tokens of `view` are exactly, in order, those of the renderer's own pieces. -/
theorem hostile_content_bytes {C : Codec} (hC : Lawful C) {E : Emit} {sgr : Nat → CText}
    (hE : emitOk E = true) (hEa : emitAscii E = true)
    (hs : ∀ a, Complete (sgr a)) (hsa : ∀ a, IsAscii (sgr a))
    (ccfg : CopyCfg) (ht : TableOk ccfg.m ccfg.wc)
    (hd : Clean ccfg.dflt.char) (lines : List (List Frag)) (vscroll vscroll2 : Nat)
    (hl : ∀ line ∈ lines, ∀ f ∈ line, isZwe f.1 = false)
    (hp : ∀ pre, ccfg.pre = some pre → ∀ ln wc, ∀ f ∈ pre ln wc, isZwe f.1 = false)
    (dcfg : DiffCfg) (d0 : Cell) (prev : Option Screen) (x0 y0 : Nat) (last : Option Text)
    (isDone fullScreen : Bool) (prevWidth : Nat) (v : VtSt)
    (height : Nat) (cursor : Nat × Nat) (showCursor : Bool) :
    let st := copyBody ccfg [] [] lines vscroll vscroll2
    let scr : Screen := { buf := st.buf, zwe := st.zwe, dflt := ccfg.dflt, height := height,
                          cursor := cursor, showCursor := showCursor }
    let segs := (vtSegs E sgr v (diff dcfg d0 scr prev x0 y0 last isDone fullScreen prevWidth).evs.reverse).2
    let bytes := encodeReplace C (segsText segs)
    let view := (segsText segs).map (repl C)
    C.dec bytes = view.map Item.cp ∧
    (∀ sg ∈ segs, sg.1 = .content → Clean (sg.2.map (repl C))) ∧
    ctrlTokens view = (segs.filter (fun sg => sg.1 ≠ .content)).flatMap (fun sg => ctrlTokens sg.2) := by
  intro st scr segs bytes view
  have hzwe : scr.zwe = [] := copyBody_zwe_unmarked ccfg [] [] lines vscroll vscroll2 hl hp
  have hb : BufClean scr.buf :=
    copyBody_clean ccfg ht hd [] [] (by intro pc h; simp at h) lines vscroll vscroll2
  have hz : ∀ e ∈ scr.zwe, Complete e.2 := by intro e he; rw [hzwe] at he; simp at he
  have hev : ∀ e ∈ (diff dcfg d0 scr prev x0 y0 last isDone fullScreen prevWidth).evs.reverse, EvOk scr e := by
    intro e he
    exact diff_writes_only_cells dcfg d0 scr prev x0 y0 last isDone fullScreen prevWidth e (List.mem_reverse.mp he)
  have hg := vtSegs_good hE hs hb hd hz _ hev v
  have hnz := (hostile_content_stream hE hs ccfg ht hd lines vscroll vscroll2 hl hp dcfg d0 prev x0 y0 last
    isDone fullScreen prevWidth v height cursor showCursor).1
  have hasc := vtSegs_ascii hEa hsa (diff dcfg d0 scr prev x0 y0 last isDone fullScreen prevWidth).evs.reverse v
  have hcl : ∀ sg ∈ segs, sg.1 = .content → Clean (sg.2.map (repl C)) :=
    fun sg h hk => repl_clean C ((hg sg h).1 hk)
  refine ⟨dec_encodeReplace hC _, hcl, ?_⟩
  apply stream_tokens_mapped (repl C) segs hcl
  intro sg h hk
  refine ⟨(hg sg h).2 hk, repl_ascii hC (hasc sg h ?_)⟩
  have hz' := hnz sg h
  cases ho : sg.1 with
  | gen => exact Or.inl rfl
  | genw => exact Or.inr rfl
  | content => exact absurd ho hk
  | zwe => exact absurd ho hz'

-- non-vacuity: the hostile line of `Props/C10Copy.lean` plus lone surrogates, rendered and sent to a
-- UTF-8 and to a latin-1 binary stream
def exSurLine : List Frag := [([], [0x61, ESC, 0xDC9B, 0x33, 0x31, 0x6d, 0x9b, 0x4E16])]
def exSurScreen : Screen :=
  let st := copyBody { exCfg with width := 20 } [] [] [exSurLine] 0 0
  { buf := st.buf, zwe := st.zwe, dflt := exCfg.dflt, height := 1, cursor := (0, 0), showCursor := true }

example : emitAscii genEmit = true ∧ (∀ a, IsAscii (exSgr a)) :=
  ⟨gen_emit_ascii, fun _ => (isAsciiB_iff [ESC, 0x5b, 0x30, 0x3b, 0x33, 0x34, 0x6d]).mp (by decide)⟩

-- content pieces of the frame (8 columns): "a", "^[", the surrogate itself, "3", "1", "m", "<9b>"
example :
    ((vtSegs genEmit exSgr none (diff exDiffCfg genD0 exSurScreen none 0 0 none false false 0).evs.reverse).2.filter
      (fun sg => sg.1 = .content)).map (·.2) =
      [[0x61], [0x5e, 0x5b], [0xDC9B], [0x33], [0x31], [0x6d], [0x3c, 0x39, 0x62, 0x3e]] := by
  decide +kernel

-- what a UTF-8 terminal reads for the content: the surrogate is `?`, "世" survives; no stray byte
example :
    utf8Dec (encodeReplace utf8 [0x61, 0x5e, 0x5b, 0xDC9B, 0x33, 0x31, 0x6d, 0x3c, 0x39, 0x62, 0x3e, 0x4E16]) =
      [0x61, 0x5e, 0x5b, QM, 0x33, 0x31, 0x6d, 0x3c, 0x39, 0x62, 0x3e, 0x4E16].map Item.cp := by decide

/-! ### the safe print path at the byte level -/

/-- **Safe print path, bytes.**  For ANY fragments and any lawful codec: a terminal of that encoding
    reads what `print_formatted_text` sends to a binary stream as the printed text with unencodable
    characters as `?`, without a stray byte, and no piece that went through the escaping writer
    contains ESC in that view. -/
theorem print_bytes_no_esc {C : Codec} (hC : Lawful C) (attrsOf : Text → Nat) (sgr : Nat → CText)
    (reset autowrap : CText) (frs : List (Text × CText)) :
    let segs := printFrags attrsOf sgr reset autowrap frs
    C.dec (encodeReplace C (segsText segs)) = ((segsText segs).map (repl C)).map Item.cp ∧
    ∀ sg ∈ segs, sg.1 = .content → ESC ∉ sg.2.map (repl C) := by
  intro segs
  refine ⟨dec_encodeReplace hC _, ?_⟩
  intro sg h hk
  have := print_segments_ok attrsOf sgr reset autowrap frs sg h
  simp only [PrintSegOk, hk] at this
  exact repl_no_esc C this

example :
    encodeReplace utf8 (segsText (printFrags (fun _ => 0) (fun _ => [ESC, 0x5b, 0x6d]) [ESC, 0x5b, 0x30, 0x6d] []
      [([], [0xDC9B, ESC, 0x5b, 0x32, 0x4a])])) =
      [ESC, 0x5b, 0x30, 0x6d, ESC, 0x5b, 0x6d, QM, QM, 0x5b, 0x32, 0x4a, ESC, 0x5b, 0x30, 0x6d] := by decide

end Ptk.C10
