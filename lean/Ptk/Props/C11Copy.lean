/-
  C11 — lemmas about the copy loop of `Window._copy_body` (model `Ptk.Model.C11`), for one-column
  cells (`W1`): what one piece of the loop may touch (`Ext`), the geometry of a wrapped line and its
  tie to `get_height_for_line` (`fold_wrap_geom`), lookups surviving later writes.
-/
import Ptk.Props.C11Scroll
namespace Ptk.C11
open Ptk.Py

/-- every cell is one column wide and shows its own character -/
def W1 (W : Widths) : Prop := ∀ c, W.rw c = 1 ∧ W.disp c = [c]

theorem textWidth_W1 {W : Widths} (h : W1 W) (t : Text) : textWidth W t = t.length := by
  induction t with
  | nil => rfl
  | cons c cs ih => simp [textWidth, ih, (h c).1]; omega

theorem cellW_W1 {W : Widths} (h : W1 W) (c : Char) : cellW W c = 1 := by
  simp [cellW, (h c).2, textWidth, (h c).1]

theorem measure_W1 {W : Widths} (h : W1 W) (c : Char) : measure W c = 1 := by
  unfold measure; split
  · exact cellW_W1 h c
  · exact (h c).1

theorem measWidth_W1 {W : Widths} (h : W1 W) (t : Text) : measWidth W t = t.length := by
  induction t with
  | nil => rfl
  | cons c cs ih => simp [measWidth, ih, measure_W1 h]; omega

theorem all_one_W1 {W : Widths} (h : W1 W) (t : Text) : (t.map (measure W)).any (· != 1) = false := by
  induction t with
  | nil => rfl
  | cons c cs ih => simp [measure_W1 h, ih]

/-- `(y, x)` is at or after `(y0, x0)` in reading order -/
def Later (y0 x0 : Int) (y x : Int) : Prop := y0 < y ∨ (y0 = y ∧ x0 ≤ x)

/-- what one piece of the copy loop may do to the state, seen from the state `a` it started in:
    it only moves forward in reading order, adds cell writes at or after its starting point, adds
    `rowcol_to_yx` entries for line `lineno` with columns `≥ a.col + skipped` (none when `isInput`
    is false). -/
structure Ext (e : Env) (isInput : Bool) (lineno skipped : Nat) (a r : CS) : Prop where
  pos : Later a.y a.x r.y r.x
  col : a.col ≤ r.col
  cells : ∃ nw, r.cells = nw ++ a.cells ∧ ∀ p ∈ nw, Later (a.y + e.ypos) (a.x + e.xpos) p.1.1 p.1.2
  rc : ∃ nw, r.rc = nw ++ a.rc ∧ (isInput = false → nw = []) ∧ ∀ p ∈ nw, p.1.1 = lineno ∧ a.col + skipped ≤ p.1.2

theorem Ext.refl (e : Env) (i : Bool) (l s : Nat) (a : CS) : Ext e i l s a a :=
  ⟨Or.inr ⟨rfl, Int.le_refl _⟩, Nat.le_refl _, ⟨[], rfl, by simp⟩, ⟨[], rfl, by simp, by simp⟩⟩

theorem Later.trans {y0 x0 y1 x1 y2 x2 : Int} (h1 : Later y0 x0 y1 x1) (h2 : Later y1 x1 y2 x2) :
    Later y0 x0 y2 x2 := by
  unfold Later at *; omega

theorem Ext.trans {e : Env} {i : Bool} {l s : Nat} {a b c : CS} (h1 : Ext e i l s a b) (h2 : Ext e i l s b c) :
    Ext e i l s a c := by
  obtain ⟨p1, c1, ⟨n1, e1, f1⟩, ⟨m1, g1, z1, k1⟩⟩ := h1
  obtain ⟨p2, c2, ⟨n2, e2, f2⟩, ⟨m2, g2, z2, k2⟩⟩ := h2
  refine ⟨p1.trans p2, Nat.le_trans c1 c2, ⟨n2 ++ n1, by simp [e2, e1], ?_⟩, ⟨m2 ++ m1, by simp [g2, g1], fun h => by simp [z1 h, z2 h], ?_⟩⟩
  · intro p hp
    rcases List.mem_append.mp hp with hp | hp
    · have := f2 p hp
      have q : Later (a.y + e.ypos) (a.x + e.xpos) (b.y + e.ypos) (b.x + e.xpos) := by
        unfold Later at *; omega
      exact q.trans this
    · exact f1 p hp
  · intro p hp
    rcases List.mem_append.mp hp with hp | hp
    · have := k2 p hp; exact ⟨this.1, by omega⟩
    · exact k1 p hp

theorem putChar_ext {e : Env} (hW : W1 e.W) (i : Bool) (l s : Nat) (st : CS) (c : Char) :
    Ext e i l s st (putChar e i l s st c) := by
  unfold putChar
  simp only [cellW_W1 hW, (hW c).2]
  split
  · refine ⟨Or.inr ⟨rfl, by simp; omega⟩, by simp, ⟨[((st.y + e.ypos, st.x + e.xpos), [c])], by simp, ?_⟩, ?_⟩
    · intro p hp; simp at hp; subst hp; exact Or.inr ⟨rfl, Int.le_refl _⟩
    · cases i
      · exact ⟨[], by simp, by simp, by simp⟩
      · exact ⟨[((l, st.col + s), (st.y + e.ypos, st.x + e.xpos))], by simp, by simp, by simp⟩
  · exact ⟨Or.inr ⟨rfl, by simp; omega⟩, by simp, ⟨[], by simp, by simp⟩, ⟨[], by simp, by simp, by simp⟩⟩

/-- contract of the continuation-prefix hook -/
def HookOK (e : Env) (i : Bool) (l s : Nat) (hook : CS → CS) : Prop := ∀ st, Ext e i l s st (hook st)

theorem wrapSt_ext (e : Env) (i : Bool) (l s : Nat) (st : CS) : Ext e i l s st (wrapSt l st) :=
  ⟨Or.inl (by show st.y < st.y + 1; omega), by simp [wrapSt], ⟨[], by simp [wrapSt], by simp⟩,
   ⟨[], by simp [wrapSt], by simp, by simp⟩⟩

theorem step_ext {e : Env} (hW : W1 e.W) (i : Bool) (l s : Nat) (hook : CS → CS)
    (hh : HookOK e i l s hook) (st : CS) (c : Char) :
    Ext e i l s st (step e i l s hook st c) := by
  unfold step
  split
  · exact Ext.refl ..
  · split
    · have h2 := (wrapSt_ext e i l s st).trans (hh _)
      simp only []
      split
      · exact ⟨h2.pos, h2.col, h2.cells, h2.rc⟩
      · exact h2.trans (putChar_ext hW ..)
    · exact putChar_ext hW ..

theorem fold_ext {e : Env} (hW : W1 e.W) (i : Bool) (l s : Nat) (hook : CS → CS)
    (hh : HookOK e i l s hook) (cs : Text) (st : CS) :
    Ext e i l s st (cs.foldl (step e i l s hook) st) := by
  induction cs generalizing st with
  | nil => exact Ext.refl ..
  | cons c cs ih => exact (step_ext hW i l s hook hh st c).trans (ih _)

theorem copyPlain_ext {e : Env} (hW : W1 e.W) (i : Bool) (l s : Nat) (st : CS) (t : Text) :
    Ext e i l s st (copyPlain e l st t) := by
  unfold copyPlain
  have h := fold_ext hW false l 0 id (fun s => Ext.refl ..) t { st with col := 0, wc := 0, ret := false }
  obtain ⟨p, _, c, ⟨nw, hn, hz, _⟩⟩ := h
  refine ⟨p, Nat.le_refl _, c, ⟨[], ?_, by simp, by simp⟩⟩
  simp [hn, hz rfl]

theorem prefixHook_ok {e : Env} (hW : W1 e.W) (i : Bool) (l s : Nat) : HookOK e i l s (prefixHook e l) := by
  intro st
  unfold prefixHook
  split
  · exact Ext.refl ..
  · exact copyPlain_ext hW ..

/-! ### lookups survive later writes -/

theorem find_rc_append (key : Nat × Nat) (nw old : List ((Nat × Nat) × (Int × Int)))
    (h : ∀ p ∈ nw, p.1 ≠ key) :
    (nw ++ old).find? (fun e => e.1 == key) = old.find? (fun e => e.1 == key) := by
  induction nw with
  | nil => rfl
  | cons a as ih =>
    have ha : (a.1 == key) = false := by simpa using h a (by simp)
    simp only [List.cons_append, List.find?_cons, ha]
    exact ih (fun p hp => h p (by simp [hp]))

theorem cellAt_append (pos : Int × Int) (nw old : List ((Int × Int) × Text))
    (h : ∀ p ∈ nw, p.1 ≠ pos) : cellAt (nw ++ old) pos = cellAt old pos := by
  unfold cellAt
  have : (nw ++ old).find? (fun e => e.1 == pos) = old.find? (fun e => e.1 == pos) := by
    induction nw with
    | nil => rfl
    | cons a as ih =>
      have ha : (a.1 == pos) = false := by simpa using h a (by simp)
      simp only [List.cons_append, List.find?_cons, ha]
      exact ih (fun p hp => h p (by simp [hp]))
  rw [this]

/-! ### geometry of the character loop (one-column cells) -/

theorem putChar_geom {e : Env} (hW : W1 e.W) (i : Bool) (l s : Nat) (st : CS) (c : Char) :
    let r := putChar e i l s st c
    r.x = st.x + 1 ∧ r.y = st.y ∧ r.wc = st.wc ∧ r.col = st.col + 1 ∧ r.ret = st.ret ∧
      r.vl = st.vl ∧ r.rowCol = st.rowCol := by
  unfold putChar
  simp only [cellW_W1 hW]
  split <;> simp

theorem putChar_heads {e : Env} (hW : W1 e.W) (i : Bool) (l s : Nat) (st : CS) (c : Char)
    (hv : 0 ≤ st.x ∧ 0 ≤ st.y ∧ st.x < e.width) :
    let r := putChar e i l s st c
    r.cells.head? = some ((st.y + e.ypos, st.x + e.xpos), [c]) ∧
      (i = true → r.rc.head? = some ((l, st.col + s), (st.y + e.ypos, st.x + e.xpos))) := by
  unfold putChar
  simp only [cellW_W1 hW, (hW c).2, hv, and_self, if_true]
  constructor
  · simp
  · intro hi; simp [hi]

/-- no wrap can trigger: the loop just walks right -/
theorem fold_flat {e : Env} (hW : W1 e.W) (i : Bool) (l s : Nat) (hook : CS → CS) (cs : Text) (st : CS)
    (hr : st.ret = false) (hnw : e.wrap = true → st.x + cs.length ≤ e.width) :
    let r := cs.foldl (step e i l s hook) st
    r.x = st.x + cs.length ∧ r.y = st.y ∧ r.wc = st.wc ∧ r.col = st.col + cs.length ∧ r.ret = false ∧
      r.vl = st.vl ∧ r.rowCol = st.rowCol := by
  induction cs generalizing st with
  | nil => simp [hr]
  | cons c cs ih =>
    have hstep : step e i l s hook st c = putChar e i l s st c := by
      unfold step
      rw [if_neg (by simp [hr]), if_neg]
      intro ⟨h1, h2⟩
      have := hnw h1
      rw [cellW_W1 hW] at h2
      simp at this; omega
    obtain ⟨gx, gy, gw, gc, gr, gv, grc⟩ := putChar_geom hW i l s st c
    simp only [List.foldl_cons, hstep]
    have := ih (putChar e i l s st c) (by rw [gr, hr]) (by
      intro h1; have := hnw h1; rw [gx]; simp at this ⊢; omega)
    obtain ⟨a1, a2, a3, a4, a5, a6, a7⟩ := this
    refine ⟨by rw [a1, gx]; simp; omega, by rw [a2, gy], by rw [a3, gw], by rw [a4, gc]; simp; omega, a5,
      by rw [a6, gv], by rw [a7, grc]⟩

/-! ### the wrapped-height loop -/

/-- what the continuation-prefix hook does to the variables the loop looks at, when every prefix
    is narrower than the window: `x` moves to the prefix width -/
def HookGeom (pw : Nat → Nat) (hook : CS → CS) : Prop :=
  ∀ st, st.x = 0 → st.ret = false → (hook st).x = pw st.wc ∧ (hook st).y = st.y ∧ (hook st).wc = st.wc ∧
    (hook st).col = st.col ∧ (hook st).ret = false

theorem fold_wrap_geom {e : Env} (hW : W1 e.W) (hwrap : e.wrap = true) (w : Nat) (hw : e.width = w)
    (pw : Nat → Nat) (hpw : ∀ k, pw k < w) (i : Bool) (l s : Nat) (hook : CS → CS)
    (hg : HookGeom pw hook) (cs : Text) :
    ∀ (st : CS) (xn fuel : Nat), st.ret = false → st.x = xn → pw st.wc ≤ xn → xn ≤ w →
      xn + cs.length ≤ fuel →
      st.y + (heightLoop pw w fuel (xn + cs.length) (st.wc + 1) : Nat) < e.height + ((st.wc + 1 : Nat) : Int) →
      let r := cs.foldl (step e i l s hook) st
      r.ret = false ∧
      r.y + ((st.wc + 1 : Nat) : Int) = st.y + (heightLoop pw w fuel (xn + cs.length) (st.wc + 1) : Nat) ∧
      (∃ xr : Nat, r.x = xr ∧ pw r.wc ≤ xr ∧ xr ≤ w ∧ (cs ≠ [] → pw r.wc < xr)) ∧
      r.col = st.col + cs.length ∧
      (∀ c, cs.getLast? = some c → 0 ≤ r.y →
        r.cells.head? = some ((r.y + e.ypos, r.x - 1 + e.xpos), [c]) ∧
        (i = true → r.rc.head? = some ((l, st.col + cs.length - 1 + s), (r.y + e.ypos, r.x - 1 + e.xpos)))) := by
  induction cs with
  | nil =>
    intro st xn fuel hr hx hp hxw _ _
    simp only [List.foldl_nil, List.length_nil, Nat.add_zero]
    rw [heightLoop_le_w pw w fuel xn _ hxw]
    exact ⟨hr, by trivial, ⟨xn, hx, hp, hxw, by simp⟩, by trivial, by simp⟩
  | cons c cs ih =>
    intro st xn fuel hr hx hp hxw hf hy
    simp only [List.foldl_cons]
    -- the state after this character
    by_cases hfit : xn < w
    · -- fits on the current row
      have hstep : step e i l s hook st c = putChar e i l s st c := by
        unfold step
        rw [if_neg (by simp [hr]), if_neg]
        intro ⟨_, h2⟩
        rw [cellW_W1 hW, hx, hw] at h2
        simp at h2; omega
      obtain ⟨gx, gy, gw, gc, gr, _, _⟩ := putChar_geom hW i l s st c
      have hvis : 0 ≤ st.x ∧ 0 ≤ st.y → 0 ≤ st.x ∧ 0 ≤ st.y ∧ st.x < e.width := by
        intro ⟨a, b⟩; exact ⟨a, b, by rw [hx, hw]; exact_mod_cast hfit⟩
      have hlen : xn + (c :: cs).length = (xn + 1) + cs.length := by simp; omega
      rw [hstep]
      rw [hlen] at hy hf ⊢
      have := ih (putChar e i l s st c) (xn + 1) fuel (by rw [gr, hr]) (by rw [gx, hx]; simp)
        (by rw [gw]; omega) (by omega) hf (by rw [gy, gw]; exact hy)
      obtain ⟨r1, r2, r3, r4, r5⟩ := this
      refine ⟨r1, by rw [gy, gw] at r2; exact r2, ?_, by rw [r4, gc]; simp; omega, ?_⟩
      · obtain ⟨xr, a, b, c', d⟩ := r3
        refine ⟨xr, a, b, c', fun _ => ?_⟩
        by_cases hcs : cs = []
        · subst hcs
          simp at a b ⊢
          rw [gx, hx] at a
          rw [gw] at b ⊢
          have : xr = xn + 1 := by exact_mod_cast a.symm
          omega
        · exact d hcs
      · intro c0 hc0 hy0
        by_cases hcs : cs = []
        · subst hcs
          simp at hc0 hy0 ⊢
          subst hc0
          rw [gy] at hy0
          have hv := hvis ⟨by rw [hx]; simp, hy0⟩
          obtain ⟨k1, k2⟩ := putChar_heads hW i l s st c hv
          rw [gx, gy]
          refine ⟨by rw [k1]; simp, fun hi => by rw [k2 hi]; simp⟩
        · have hl : (c :: cs).getLast? = cs.getLast? := by
            cases cs with
            | nil => exact absurd rfl hcs
            | cons d ds => simp [List.getLast?_cons_cons]
          rw [hl] at hc0
          obtain ⟨k1, k2⟩ := r5 c0 hc0 hy0
          refine ⟨k1, fun hi => ?_⟩
          rw [k2 hi, gc]
          have : cs.length ≠ 0 := by simpa using hcs
          simp only [List.length_cons]
          congr 3; omega
    · -- wraps first
      have hxe : xn = w := by omega
      subst hxe
      have hfuel : ∃ f, fuel = f + 1 := ⟨fuel - 1, by simp at hf; omega⟩
      obtain ⟨f, rfl⟩ := hfuel
      have hH : heightLoop pw xn (f + 1) (xn + (c :: cs).length) (st.wc + 1) =
          heightLoop pw xn f ((pw (st.wc + 1) + 1) + cs.length) (st.wc + 1 + 1) := by
        rw [heightLoop_gt_w pw xn f _ _ hpw (by simp)]
        congr 1; simp; omega
      rw [hH] at hy ⊢
      have hge := heightLoop_ge pw xn hpw f ((pw (st.wc + 1) + 1) + cs.length) (st.wc + 1 + 1)
      have hws : (wrapSt l st).x = 0 := rfl
      obtain ⟨q1, q2, q3, q4, q5⟩ := hg (wrapSt l st) hws hr
      have q2' : (hook (wrapSt l st)).y = st.y + 1 := by rw [q2]; rfl
      have q3' : (hook (wrapSt l st)).wc = st.wc + 1 := by rw [q3]; rfl
      have q4' : (hook (wrapSt l st)).col = st.col := by rw [q4]; rfl
      have q1' : (hook (wrapSt l st)).x = pw (st.wc + 1) := by rw [q1]; rfl
      have hstep : step e i l s hook st c = putChar e i l s (hook (wrapSt l st)) c := by
        unfold step
        rw [if_neg (by simp [hr]), if_pos]
        · simp only []
          rw [if_neg]
          rw [q2']; push_cast at hy ⊢; omega
        · refine ⟨hwrap, ?_⟩
          rw [cellW_W1 hW, hx, hw]; simp; omega
      obtain ⟨gx, gy, gw, gc, gr, _, _⟩ := putChar_geom hW i l s (hook (wrapSt l st)) c
      rw [hstep]
      have hpk := hpw (st.wc + 1)
      have := ih (putChar e i l s (hook (wrapSt l st)) c) (pw (st.wc + 1) + 1) f (by rw [gr, q5])
        (by rw [gx, q1']; simp) (by rw [gw, q3']; omega) (by omega) (by simp at hf; omega)
        (by rw [gy, gw, q2', q3']; push_cast at hy ⊢; omega)
      obtain ⟨r1, r2, r3, r4, r5⟩ := this
      refine ⟨r1, ?_, ?_, by rw [r4, gc, q4']; simp; omega, ?_⟩
      · rw [gy, gw, q2', q3'] at r2; push_cast at r2 ⊢; omega
      · obtain ⟨xr, a, b, c', d⟩ := r3
        refine ⟨xr, a, b, c', fun _ => ?_⟩
        by_cases hcs : cs = []
        · subst hcs
          simp at a b ⊢
          rw [gx, q1'] at a
          rw [gw, q3'] at b ⊢
          have : xr = pw (st.wc + 1) + 1 := by exact_mod_cast a.symm
          omega
        · exact d hcs
      · intro c0 hc0 hy0
        by_cases hcs : cs = []
        · subst hcs
          simp at hc0 hy0 ⊢
          subst hc0
          rw [gy] at hy0
          have hv : 0 ≤ (hook (wrapSt l st)).x ∧ 0 ≤ (hook (wrapSt l st)).y ∧
              (hook (wrapSt l st)).x < e.width := by
            refine ⟨by rw [q1']; simp, hy0, by rw [q1', hw]; exact_mod_cast hpk⟩
          obtain ⟨k1, k2⟩ := putChar_heads hW i l s _ c hv
          rw [gx, gy]
          refine ⟨by rw [k1]; simp, fun hi => by rw [k2 hi, q4']; simp⟩
        · have hl : (c :: cs).getLast? = cs.getLast? := by
            cases cs with
            | nil => exact absurd rfl hcs
            | cons d ds => simp [List.getLast?_cons_cons]
          rw [hl] at hc0
          obtain ⟨k1, k2⟩ := r5 c0 hc0 hy0
          refine ⟨k1, fun hi => ?_⟩
          rw [k2 hi, gc, q4']
          have : cs.length ≠ 0 := by simpa using hcs
          simp only [List.length_cons]
          congr 3; omega

end Ptk.C11
