/-
  Cross-model agreement, cluster "Output side" — pair (3), part C06 vs C10, and the `Renderer.reset` / `erase` glue:

    src/prompt_toolkit/output/vt100.py   every emitter method of `Vt100_Output` that both C06 (`Ptk.C06.vtEmit`,
                                         Model/C06Vt.lean: strings from Gen.C06, own `digits` / `moveCode`) and C10
                                         (`Ptk.C10.vtCall`, Model/C10Out.lean + `vtEv`'s strings `Emit`, instantiated
                                         with the regenerated `genEmit` / `genEmit2` of Model/C10Gen.lean) model;
                                         `write`, `write_raw`
    src/prompt_toolkit/renderer.py       `Renderer.reset`, `Renderer.erase` (`Ptk.C06.RState.reset/erase`,
                                         `Ptk.C06.RFull.reset/erase` vs `Ptk.C10.rendererReset/rendererErase`)

  Translation: texts `tn = List.map Char.toNat` (C06 `List Char` → C10 code points); calls `callOf : C06.Cmd → Option
  C10.Call`; output state `stTo` (C06's `_cursor_visible`, `_cursor_shape_changed` inside C10's `VState`).
  The theorems say: same new state, same text appended to `_buffer`, for every state and every argument.
  One excluded region: `set_cursor_shape(k)` with `k` not a member of `CursorShape` (`setShape_outside_domain`).
-/
import Ptk.Model.C06Vt
import Ptk.Model.C06Full
import Ptk.Model.C10Gen
namespace Ptk.AgreeOut.Vt
open Ptk Ptk.Py

/-- the translation of texts: C06 uses `List Char`, C10 code points `List Nat` -/
def tn (t : Text) : List Nat := t.map Char.toNat

@[simp] theorem tn_append (a b : Text) : tn (a ++ b) = tn a ++ tn b := by simp [tn]
@[simp] theorem tn_nil : tn [] = [] := rfl
@[simp] theorem tn_cons (c : Char) (t : Text) : tn (c :: t) = c.toNat :: tn t := rfl

/-! ### decimal numbers: `"%i" % n` -/

theorem digitsAux_fuel : ∀ (f g n : Nat), n < f → n < g → C06.digitsAux f n = C06.digitsAux g n := by
  intro f
  induction f with
  | zero => intro g n h; omega
  | succ f ih =>
    intro g n hf hg
    cases g with
    | zero => omega
    | succ g =>
      simp only [C06.digitsAux]
      by_cases h : n < 10
      · simp [h]
      · simp only [h, if_false]
        rw [ih g (n / 10) (by omega) (by omega)]

theorem digits_eq_if (n : Nat) :
    C06.digits n = if n < 10 then [C06.digitChar n] else C06.digits (n / 10) ++ [C06.digitChar (n % 10)] := by
  show C06.digitsAux (n + 1) n = _
  rw [C06.digitsAux]
  by_cases h : n < 10
  · simp [h]
  · simp only [h, if_false]
    rw [digitsAux_fuel n (n / 10 + 1) (n / 10) (by omega) (by omega)]; rfl

theorem digitChar_eq : ∀ d, d < 10 → C06.digitChar d = Nat.digitChar d := by decide

-- `"%i" % n` — `Ptk.C06.digits` (own fuel recursion) is Lean's `Nat.toDigits 10`
theorem digits_eq_toDigits (n : Nat) : C06.digits n = Nat.toDigits 10 n := by
  induction n using Nat.strongRecOn with
  | _ n ih =>
    rw [digits_eq_if, Nat.toDigits_eq_if (by decide)]
    by_cases h : n < 10
    · simp [h, digitChar_eq n h]
    · simp only [h, if_false]
      rw [ih (n / 10) (by omega), digitChar_eq (n % 10) (by omega)]

-- `"%i" % n` — `Ptk.C06.digits` vs `Ptk.C10.decimal`
theorem digits_decimal (n : Nat) : tn (C06.digits n) = C10.decimal n := by
  simp [tn, C10.decimal, digits_eq_toDigits]

/-! ### the emitters of `Vt100_Output` -/

/-- the `Output` calls both models have: C06's `Cmd` as C10's `Call` (`none`: `write` / `write_raw` /
    `set_attributes`, handled separately, and `scroll_buffer_to_prompt` / `flush`, which write nothing) -/
def callOf : C06.Cmd → Option C10.Call
  | .resetAttrs => some .resetAttrs
  | .cursorUp n => some (.up n)
  | .cursorForward n => some (.fwd n)
  | .cursorBackward n => some (.back n)
  | .eraseDown => some .eraseDown
  | .eraseEol => some .eraseEol
  | .hideCursor => some .hideCursor
  | .showCursor => some .showCursor
  | .disableAutowrap => some .disableWrap
  | .enableAutowrap => some .enableWrap
  | .eraseScreen => some .eraseScreen
  | .cursorGoto r c => some (.goto r c)
  | .enterAlt => some .enterAlt
  | .quitAlt => some .quitAlt
  | .enableMouse => some .enableMouse
  | .disableMouse => some .disableMouse
  | .enablePaste => some .enableBP
  | .disablePaste => some .disableBP
  | .resetCkm => some .resetCursorKeyMode
  | .resetCursorShape => some .resetShape
  | .setCursorShape k => some (.setShape k)
  | .askCpr => some .askCpr
  | .write _ => none
  | .writeRaw _ => none
  | .setAttrs _ _ _ => none
  | .scrollToPrompt => none
  | .flush => none

/-- the state of the output object: C06's two fields inside C10's four (`enable_bell`, the terminal name test of
    `set_title` are constructor arguments no shared call reads) -/
def stTo (base : C10.VState) (s : C06.VtSt) : C10.VState :=
  { base with visible := s.cursorVisible, shapeChanged := s.shapeChanged }

/-- `k` is a member of `CursorShape` (the only values `set_cursor_shape` is called with) -/
def shapeOk : C06.Cmd → Prop
  | .setCursorShape k => k < Gen.C06.shapeCodes.length
  | _ => True

theorem moveCode_amountSeq (n : Nat) (final : Char) (one : Text) :
    tn (C06.moveCode n final one) = C10.amountSeq (tn one) [27, 91] [final.toNat] n := by
  unfold C06.moveCode
  match n with
  | 0 => simp [C10.amountSeq]
  | 1 => simp [C10.amountSeq]
  | n + 2 =>
    simp [C10.amountSeq, digits_decimal, C06.ESC]

theorem gen_fixed :
    tn Gen.C06.resetAttributes = Gen.C10.resetAttrs ∧ tn Gen.C06.eraseDown = Gen.C10.eraseDown ∧
    tn Gen.C06.eraseEndOfLine = Gen.C10.eraseEol ∧ tn Gen.C06.hideCursor = Gen.C10.hideCursor ∧
    tn Gen.C06.showCursor = Gen.C10.showCursor ∧ tn Gen.C06.disableAutowrap = Gen.C10.disableAutowrap ∧
    tn Gen.C06.enableAutowrap = Gen.C10.enableAutowrap ∧ tn Gen.C06.eraseScreen = Gen.C10.eraseScreen ∧
    tn Gen.C06.enterAlternateScreen = Gen.C10.enterAltScreen ∧ tn Gen.C06.quitAlternateScreen = Gen.C10.quitAltScreen ∧
    tn Gen.C06.enableMouseSupport = Gen.C10.enableMouse ∧ tn Gen.C06.disableMouseSupport = Gen.C10.disableMouse ∧
    tn Gen.C06.enableBracketedPaste = Gen.C10.enableBracketedPaste ∧
    tn Gen.C06.disableBracketedPaste = Gen.C10.disableBracketedPaste ∧
    tn Gen.C06.resetCursorKeyMode = Gen.C10.resetCursorKeyMode ∧ tn Gen.C06.askForCpr = Gen.C10.askCpr ∧
    tn Gen.C06.resetCursorShapeChanged = Gen.C10.resetCursorShape ∧
    Gen.C06.shapeCodes.map tn = Gen.C10.cursorShapes ∧
    Gen.C10.cursorShapeMarks = (List.range Gen.C06.shapeCodes.length).map (fun k => decide (k ≠ 0)) ∧
    Gen.C06.scrollBufferToPrompt = [] := by
  decide


theorem getD_map_tn (l : List Text) (k : Nat) : (l.map tn).getD k [] = tn (l.getD k []) := by
  simp [List.getD, List.getElem?_map]
  cases l[k]? <;> simp

-- output/vt100.py::Vt100_Output.<every emitter both models have> — `Ptk.C06.vtEmit` (strings from Gen.C06, own
-- `digits`/`moveCode`) vs `Ptk.C10.vtCall` instantiated with the regenerated `genEmit`/`genEmit2`
-- (cursor_up/forward/backward/goto, erase_*, hide/show_cursor with `_cursor_visible`, autowrap, alternate screen,
-- mouse, bracketed paste, cursor key mode, cursor shapes with `_cursor_shape_changed`, ask_for_cpr, reset_attributes)
theorem vtEmit_eq_vtCall (base : C10.VState) (st : C06.VtSt) (cmd : C06.Cmd) (call : C10.Call)
    (hc : callOf cmd = some call) (hs : shapeOk cmd) :
    C10.vtCall C10.genEmit C10.genEmit2 (stTo base st) call
      = (stTo base (C06.vtEmit st cmd).1, tn (C06.vtEmit st cmd).2) := by
  obtain ⟨h1, h2, h3, h4, h5, h6, h7, h8, h9, h10, h11, h12, h13, h14, h15, h16, h17, h18, h19, _⟩ := gen_fixed
  cases cmd <;> simp only [callOf, Option.some.injEq, reduceCtorEq] at hc <;> subst hc
  case resetAttrs => simp [C10.vtCall, C06.vtEmit, C10.genEmit, h1]
  case cursorUp n =>
    simp [C10.vtCall, C06.vtEmit, C10.genEmit, moveCode_amountSeq]; rfl
  case cursorForward n =>
    simp [C10.vtCall, C06.vtEmit, C10.genEmit, moveCode_amountSeq]; rfl
  case cursorBackward n =>
    simp [C10.vtCall, C06.vtEmit, C10.genEmit, moveCode_amountSeq]; rfl
  case eraseDown => simp [C10.vtCall, C06.vtEmit, C10.genEmit, h2]
  case eraseEol => simp [C10.vtCall, C06.vtEmit, C10.genEmit, h3]
  case hideCursor =>
    simp only [C10.vtCall, C06.vtEmit, stTo]
    by_cases h : st.cursorVisible = some false <;> simp [h, C10.genEmit, h4]
  case showCursor =>
    simp only [C10.vtCall, C06.vtEmit, stTo]
    by_cases h : st.cursorVisible = some true <;> simp [h, C10.genEmit, h5]
  case disableAutowrap => simp [C10.vtCall, C06.vtEmit, C10.genEmit, h6]
  case enableAutowrap => simp [C10.vtCall, C06.vtEmit, C10.genEmit, h7]
  case eraseScreen => simp [C10.vtCall, C06.vtEmit, C10.genEmit2, h8]
  case cursorGoto r c =>
    simp [C10.vtCall, C06.vtEmit, C10.genEmit2, digits_decimal, C06.ESC]; rfl
  case enterAlt => simp [C10.vtCall, C06.vtEmit, C10.genEmit2, h9]
  case quitAlt => simp [C10.vtCall, C06.vtEmit, C10.genEmit2, h10]
  case enableMouse => simp [C10.vtCall, C06.vtEmit, C10.genEmit2, h11]
  case disableMouse => simp [C10.vtCall, C06.vtEmit, C10.genEmit2, h12]
  case enablePaste => simp [C10.vtCall, C06.vtEmit, C10.genEmit2, h13]
  case disablePaste => simp [C10.vtCall, C06.vtEmit, C10.genEmit2, h14]
  case resetCkm => simp [C10.vtCall, C06.vtEmit, C10.genEmit2, h15]
  case resetCursorShape =>
    simp only [C10.vtCall, C06.vtEmit, stTo]
    by_cases h : st.shapeChanged = true <;> simp [h, C10.genEmit2, h17]
  case setCursorShape k =>
    simp only [shapeOk] at hs
    simp only [C10.vtCall, C06.vtEmit, stTo, C10.genEmit2, ← h18, h19, getD_map_tn]
    by_cases h : k = 0
    · subst h
      have e1 : (List.range Gen.C06.shapeCodes.length)[0]? = some 0 := by decide
      have e2 : Gen.C06.shapeCodes[0]? = some [] := by decide
      simp [e1, e2]
    · simp [h, List.getD, List.getElem?_map, List.getElem?_range hs]
  case askCpr => simp [C10.vtCall, C06.vtEmit, C10.genEmit2, h16]


-- the excluded region of `vtEmit_eq_vtCall`: an index that is not a member of `CursorShape` (never an argument of
-- `set_cursor_shape`): C06 marks the shape as changed, C10 does not (both write nothing)
theorem setShape_outside_domain :
    (C10.vtCall C10.genEmit C10.genEmit2 (stTo {} C06.VtSt.init) (.setShape 7)).1.shapeChanged = false ∧
    (C06.vtEmit C06.VtSt.init (.setCursorShape 7)).1.shapeChanged = true := by decide

theorem toNat_eq_esc (c : Char) : (c.toNat = 27) = (c = C06.ESC) := by
  apply propext
  constructor
  · intro h; exact Char.toNat_inj.mp (by rw [h]; rfl)
  · intro h; subst h; rfl

-- output/vt100.py::Vt100_Output.write — `Ptk.C06.vtEmit _ (.write t)` vs `Ptk.C10.safeWrite`
theorem write_eq (st : C06.VtSt) (t : Text) :
    tn (C06.vtEmit st (.write t)).2 = C10.safeWrite (tn t) ∧ (C06.vtEmit st (.write t)).1 = st := by
  refine ⟨?_, rfl⟩
  simp only [C06.vtEmit, tn, C10.safeWrite, List.map_map]
  apply List.map_congr_left
  intro c _
  simp only [Function.comp, C10.ESC, C10.QM, toNat_eq_esc]
  by_cases h : c = C06.ESC <;> simp [h]

-- output/vt100.py::Vt100_Output.write_raw — `Ptk.C06.vtEmit _ (.writeRaw t)` vs `Ptk.C10.rawWrite`
theorem writeRaw_eq (st : C06.VtSt) (t : Text) :
    tn (C06.vtEmit st (.writeRaw t)).2 = C10.rawWrite (tn t) ∧ (C06.vtEmit st (.writeRaw t)).1 = st := ⟨rfl, rfl⟩

/-- a list of calls without `write` / `write_raw` / `set_attributes` -/
def plainCmd : C06.Cmd → Bool
  | .write _ => false
  | .writeRaw _ => false
  | .setAttrs _ _ _ => false
  | _ => true

-- a sequence of emitter calls — `Ptk.C06.vtEmitAll` vs `Ptk.C10.vtCalls` (`scroll_buffer_to_prompt` and `flush`
-- append nothing to the buffer of a `Vt100_Output`, they have no `Call`)
theorem vtEmitAll_eq_vtCalls (base : C10.VState) (cmds : List C06.Cmd) :
    ∀ (st : C06.VtSt), (∀ c ∈ cmds, plainCmd c = true ∧ shapeOk c) →
    C10.vtCalls C10.genEmit C10.genEmit2 (stTo base st) (cmds.filterMap callOf)
      = (stTo base (C06.vtEmitAll st cmds).1, tn (C06.vtEmitAll st cmds).2) := by
  induction cmds with
  | nil => intro st _; rfl
  | cons c cs ih =>
    intro st h
    have hc := h c (by simp)
    have ih' := ih (C06.vtEmit st c).1 (fun c' hc' => h c' (by simp [hc']))
    cases hco : callOf c with
    | some call =>
      simp only [List.filterMap_cons, hco, C10.vtCalls, C06.vtEmitAll]
      rw [vtEmit_eq_vtCall base st c call hco hc.2]
      simp only [ih', tn_append]
    | none =>
      simp only [List.filterMap_cons, hco, C06.vtEmitAll]
      have : C06.vtEmit st c = (st, []) := by
        cases c <;> simp_all [callOf, plainCmd, C06.vtEmit, gen_fixed.2.2.2.2.2.2.2.2.2.2.2.2.2.2.2.2.2.2.2]
      rw [this] at ih' ⊢
      simpa using ih'

/-! ### `Renderer.reset` / `Renderer.erase` (renderer.py) -/

/-- the three mode flags C10 keeps, out of C06's renderer state -/
def flagsOf (r : C06.RState) : C10.RFlags := ⟨r.inAlt, r.mouse, r.paste⟩
def flagsOfFull (r : C06.RFull) : C10.RFlags := ⟨r.inAlt, r.mouse, r.paste⟩

-- renderer.py::Renderer.reset — `Ptk.C06.RState.reset` vs `Ptk.C10.rendererReset` (calls and flags)
theorem reset_eq (r : C06.RState) (scroll leaveAlt : Bool) :
    (C10.rendererReset (flagsOf r) leaveAlt).1 = (r.reset scroll leaveAlt).2.filterMap callOf ∧
    (C10.rendererReset (flagsOf r) leaveAlt).2 = flagsOf (r.reset scroll leaveAlt).1 := by
  cases scroll <;> cases leaveAlt <;> cases h1 : r.inAlt <;> cases h2 : r.mouse <;> cases h3 : r.paste <;>
    simp [C10.rendererReset, C06.RState.reset, flagsOf, callOf, h1, h2, h3] <;> rfl

-- renderer.py::Renderer.reset — `Ptk.C06.RFull.reset` (C06Full) vs `Ptk.C10.rendererReset`
theorem resetFull_eq (r : C06.RFull) (scroll leaveAlt : Bool) :
    (C10.rendererReset (flagsOfFull r) leaveAlt).1 = (r.reset scroll leaveAlt).2.filterMap callOf ∧
    (C10.rendererReset (flagsOfFull r) leaveAlt).2 = flagsOfFull (r.reset scroll leaveAlt).1 := by
  cases scroll <;> cases leaveAlt <;> cases h1 : r.inAlt <;> cases h2 : r.mouse <;> cases h3 : r.paste <;>
    simp [C10.rendererReset, C06.RFull.reset, flagsOfFull, callOf, h1, h2, h3] <;> rfl

-- renderer.py::Renderer.erase — `Ptk.C06.RState.erase` vs `Ptk.C10.rendererErase`
theorem erase_eq (r : C06.RState) (leaveAlt : Bool) :
    (C10.rendererErase (flagsOf r) r.pos.x r.pos.y leaveAlt).1 = (r.erase leaveAlt).2.filterMap callOf ∧
    (C10.rendererErase (flagsOf r) r.pos.x r.pos.y leaveAlt).2 = flagsOf (r.erase leaveAlt).1 := by
  have h := reset_eq r false leaveAlt
  simp only [C10.rendererErase, C06.RState.erase]
  refine ⟨?_, h.2⟩
  rw [List.filterMap_append, ← h.1]
  simp [callOf]

-- renderer.py::Renderer.erase — `Ptk.C06.RFull.erase` vs `Ptk.C10.rendererErase`
theorem eraseFull_eq (r : C06.RFull) (leaveAlt : Bool) :
    (C10.rendererErase (flagsOfFull r) r.pos.x r.pos.y leaveAlt).1 = (r.erase leaveAlt).2.filterMap callOf ∧
    (C10.rendererErase (flagsOfFull r) r.pos.x r.pos.y leaveAlt).2 = flagsOfFull (r.erase leaveAlt).1 := by
  have h := resetFull_eq r false leaveAlt
  simp only [C10.rendererErase, C06.RFull.erase]
  refine ⟨?_, h.2⟩
  rw [List.filterMap_append, ← h.1]
  simp [callOf]

end Ptk.AgreeOut.Vt
