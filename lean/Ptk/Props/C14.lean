/-
  C14 — property theorems for the history-browsing / accept model (`Ptk.Model.C14`).
  The validator `v` is arbitrary in every theorem; histories, texts, counts and op
  sequences are unbounded.
-/
import Ptk.Props.C14Scan
set_option linter.unusedSimpArgs false
namespace Ptk.C14
open Ptk.Py

/-! ## classification of the operations -/

/-- moving through the history / inside the text, changing the filter flag, (re)validating:
    everything that is "browsing" -/
def Op.isNav : Op → Bool
  | .setCursor _ | .left | .right | .home | .endl | .histBack _ | .histFwd _ | .goTo _ | .endHist
  | .autoUp _ _ | .autoDown _ _ | .setEhs _ | .setVwt _ | .validate _ | .asyncValidate
  | .vStart | .vFinish | .appExit | .goToFixed _ | .endHistFixed => true
  | _ => false

/-- the up / down / page steps of the property text (prefix-filtered loops) -/
def Op.isStep : Op → Bool
  | .histBack _ | .histFwd _ | .autoUp _ _ | .autoDown _ _ => true
  | _ => false

def Op.isEdit : Op → Bool
  | .insert _ | .delBefore _ | .setText _ | .yankApply _ _ _ => true
  | _ => false

/-- the only operations that may write to the history -/
def Op.appends : Op → Bool
  | .accept _ | .append | .resetAppend _ _ | .operateNext => true
  | _ => false

/-- well-formedness: the working index addresses an entry and the cursor is inside its text -/
def WF (s : St) : Prop := s.idx < s.work.length ∧ s.cur ≤ s.text.length

/-- arguments that satisfy the callee's own assertions (`Document(t, c)` needs `c ≤ len t`) -/
def Op.ok : Op → Prop
  | .reset t c => c ≤ t.length
  | .resetAppend t c => c ≤ t.length
  | _ => True

/-! ## 1. Browsing never alters the stored history -/

theorem nav_frame (v : Validator) (s : St) (op : Op) (h : op.isNav = true) : Frame s (step v s op).1 := by
  cases op <;> simp [Op.isNav] at h <;> simp only [step]
  · exact setCursorPos_frame _ _
  · exact cursorLeft_frame _
  · exact cursorRight_frame _
  · exact home_frame _
  · exact endl_frame _
  · exact historyBackward_frame _ _
  · exact historyForward_frame _ _
  · exact goToHistory_frame _ _
  · exact endOfHistory_frame _
  · next c g =>
    cases hr : autoUp s c g with
    | none => exact Frame.refl s
    | some s' => exact autoUp_frame s s' c g hr
  · next c g =>
    cases hr : autoDown s c g with
    | none => exact Frame.refl s
    | some s' => exact autoDown_frame s s' c g hr
  · simp [Frame]
  · simp [Frame]
  · exact validate_frame v s _
  · exact asyncValidate_frame v s
  · exact vStart_frame v s
  · exact vFinish_frame v s
  · exact frame_of_valOnly (appExit_valOnly s)
  · exact goToHistoryFixed_frame _ _
  · exact endOfHistoryFixed_frame _

/-- **nav_preserves_hist** — a navigation step changes neither what `History.get_strings()`
    returns nor what is stored, nor any working copy. -/
theorem nav_preserves_hist (v : Validator) (s : St) (op : Op) (h : op.isNav = true) :
    (step v s op).1.hist = s.hist ∧ (step v s op).1.storage = s.storage ∧
    (step v s op).1.work = s.work := by
  obtain ⟨h1, h2, h3, _⟩ := nav_frame v s op h
  exact ⟨h2, h3, h1⟩

theorem set_getD_self {α : Type} (l : List α) (i : Nat) (d : α) : l.set i (l.getD i d) = l := by
  by_cases hi : i < l.length
  · simp [List.getD, hi]
  · rw [List.set_eq_of_length_le (by omega)]

/-! ## 2. Edits stay in their own working copy -/

/-- an edit: same entry index, only that entry's working copy may differ (it becomes `x`);
    history and loader untouched -/
def EditFrame (s t : St) (x : Text) : Prop :=
  t.hist = s.hist ∧ t.storage = s.storage ∧ t.hloaded = s.hloaded ∧ t.pending = s.pending ∧
  t.loading = s.loading ∧ t.idx = s.idx ∧ t.work = s.work.set s.idx x

theorem setDocument_editFrame (s : St) (t : Text) (c : Nat) : EditFrame s (setDocument s t c) t := by
  simp only [setDocument]
  repeat' (first | (simp [EditFrame, textChanged]; done) | split)

theorem setText_editFrame (s : St) (t : Text) : EditFrame s (setText s t) t := by
  simp only [setText]
  split
  · repeat' (first | (simp [EditFrame, textChanged]; done) | split)
  · repeat' (first | (simp [EditFrame, textChanged]; done) | split)

/-- `yank_nth_arg`'s writing half: an optional `delete_before_cursor`, an `insert_text`, and the
    state is saved -/
theorem yankBase_cases (s : St) : yankBase s = s ∨ ∃ k, yankBase s = deleteBefore s k := by
  simp only [yankBase]
  split
  · exact Or.inr ⟨_, rfl⟩
  · exact Or.inl rfl

theorem edit_frame (v : Validator) (s : St) (op : Op) (h : op.isEdit = true) :
    ∃ x, EditFrame s (step v s op).1 x := by
  cases op <;> simp [Op.isEdit] at h <;> simp only [step]
  · exact ⟨_, setDocument_editFrame _ _ _⟩
  · simp only [deleteBefore]; split
    · exact ⟨_, setDocument_editFrame _ _ _⟩
    · exact ⟨s.text, rfl, rfl, rfl, rfl, rfl, rfl, (set_getD_self _ _ _).symm⟩
  · exact ⟨_, setText_editFrame _ _⟩
  · next p n w =>
    have f1 : ∃ x, EditFrame s (yankBase s) x := by
      rcases yankBase_cases s with e | ⟨k, e⟩ <;> rw [e]
      · exact ⟨s.text, rfl, rfl, rfl, rfl, rfl, rfl, (set_getD_self _ _ _).symm⟩
      · simp only [deleteBefore]; split
        · exact ⟨_, setDocument_editFrame _ _ _⟩
        · exact ⟨s.text, rfl, rfl, rfl, rfl, rfl, rfl, (set_getD_self _ _ _).symm⟩
    obtain ⟨x, a1, a2, a3, a4, a5, a6, a7⟩ := f1
    obtain ⟨b1, b2, b3, b4, b5, b6, b7⟩ := setDocument_editFrame (yankBase s)
      ((yankBase s).text.take (yankBase s).cur ++ w ++ (yankBase s).text.drop (yankBase s).cur)
      ((yankBase s).cur + w.length)
    refine ⟨(yankBase s).text.take (yankBase s).cur ++ w ++ (yankBase s).text.drop (yankBase s).cur,
      b1.trans a1, b2.trans a2, b3.trans a3, b4.trans a4, b5.trans a5, b6.trans a6, ?_⟩
    show (insertText (yankBase s) w).work = _
    simp only [insertText]
    rw [b7, a7, a6, List.set_set]

/-- **edits_kept (one step)** — an edit leaves the history and every other working copy alone
    and stays on the same entry. -/
theorem edit_only_at_idx (v : Validator) (s : St) (op : Op) (h : op.isEdit = true) :
    (step v s op).1.storage = s.storage ∧ (step v s op).1.hist = s.hist ∧
    (step v s op).1.idx = s.idx ∧ (step v s op).1.work.length = s.work.length ∧
    ∀ j, j ≠ s.idx → (step v s op).1.work[j]? = s.work[j]? := by
  obtain ⟨x, h1, h2, _, _, _, h6, hx⟩ := edit_frame v s op h
  refine ⟨h2, h1, h6, by simp [hx], ?_⟩
  intro j hj
  rw [hx, List.getElem?_set_ne (Ne.symm hj)]

/-! ## 3. The asynchronous loader only prepends: the current entry never changes -/

/-- **loader_keeps_current** — one delivered item is put in front, the index moves with the
    entry it points at; text, cursor, search, validation state and history are untouched. -/
theorem loadOne_spec (s : St) :
    (loadOne s).text = s.text ∧ (loadOne s).cur = s.cur ∧ (loadOne s).search = s.search ∧
    (loadOne s).vstate = s.vstate ∧ (loadOne s).hist = s.hist ∧ (loadOne s).storage = s.storage ∧
    ∃ pre, pre.length ≤ 1 ∧ (loadOne s).work = pre ++ s.work ∧ (loadOne s).idx = s.idx + pre.length ∧
      pre.reverse ++ (loadOne s).pending = s.pending := by
  unfold loadOne
  cases hp : s.pending with
  | nil => exact ⟨rfl, rfl, rfl, rfl, rfl, rfl, [], by simp, by simp, by simp, by simp [hp]⟩
  | cons item rest =>
    refine ⟨by simp [St.text], rfl, rfl, rfl, rfl, rfl, [item], by simp, by simp, by simp, by simp⟩

theorem startLoad_spec (s : St) :
    (startLoad s).work = s.work ∧ (startLoad s).idx = s.idx ∧ (startLoad s).cur = s.cur ∧
    (startLoad s).search = s.search ∧ (startLoad s).vstate = s.vstate ∧
    (startLoad s).storage = s.storage ∧ (startLoad s).text = s.text := by
  unfold startLoad
  split
  · simp
  · simp [St.text]

/-- delivering all pending items one by one is `loadAll` -/
theorem loadOne_all (v : Validator) (s : St) : ∀ n, n = s.pending.length →
    run v s (List.replicate n .loadOne) = loadAll s := by
  intro n
  induction n generalizing s with
  | zero =>
    intro h
    have : s.pending = [] := List.eq_nil_of_length_eq_zero h.symm
    simp only [run, loadAll, this, List.replicate_zero, List.foldl_nil, List.reverse_nil, List.nil_append, List.length_nil, Nat.add_zero]
    cases s; simp_all
  | succ n ih =>
    intro h
    cases hp : s.pending with
    | nil => simp [hp] at h
    | cons item rest =>
      have h1 : loadOne s = { s with work := item :: s.work, idx := s.idx + 1, pending := rest } := by
        simp [loadOne, hp]
      have hn : n = (loadOne s).pending.length := by rw [h1]; simp [hp] at h; simpa using h
      have := ih (loadOne s) hn
      simp only [run, List.replicate_succ, List.foldl_cons, step] at this ⊢
      rw [this, h1]
      simp [loadAll, hp]; omega

/-! ## 4. Only accepting writes to the history, and it only appends -/

theorem appendToHistory_spec (s : St) :
    (appendToHistory s).work = s.work ∧ (appendToHistory s).idx = s.idx ∧ (appendToHistory s).cur = s.cur ∧
    (appendToHistory s).vstate = s.vstate ∧ (appendToHistory s).hloaded = s.hloaded ∧
    (appendToHistory s).search = s.search ∧
    ∃ suf, (suf = [] ∨ suf = [s.text]) ∧ (appendToHistory s).hist = s.hist ++ suf ∧
      (appendToHistory s).storage = s.storage ++ suf := by
  simp only [appendToHistory]
  by_cases h1 : s.text ≠ []
  · by_cases h2 : (s.hist = [] ∨ s.hist.getLast? ≠ some s.text)
    · rw [if_pos h1, if_pos h2]
      exact ⟨rfl, rfl, rfl, rfl, rfl, rfl, [s.text], Or.inr rfl, rfl, rfl⟩
    · rw [if_pos h1, if_neg h2]
      exact ⟨rfl, rfl, rfl, rfl, rfl, rfl, [], Or.inl rfl, (List.append_nil _).symm, (List.append_nil _).symm⟩
  · rw [if_neg h1]
    exact ⟨rfl, rfl, rfl, rfl, rfl, rfl, [], Or.inl rfl, (List.append_nil _).symm, (List.append_nil _).symm⟩

/-- the three ways `Buffer.validate` can go -/
theorem validate_cases (v : Validator) (s : St) (b : Bool) :
    (s.vstate ≠ .unknown ∧ validate v s b = (s, decide (s.vstate = .valid))) ∨
    (s.vstate = .unknown ∧ ∃ e, v s.text = some e ∧
      validate v s b =
        ({ (if b then setCursorPos s (min (max 0 e) s.text.length) else s) with
            vstate := .invalid, verr := some e }, false)) ∨
    (s.vstate = .unknown ∧ v s.text = none ∧
      validate v s b = ({ s with vstate := .valid, verr := none }, true)) := by
  simp only [validate]
  by_cases h : s.vstate = .unknown
  · simp only [h, ne_eq, not_true_eq_false, if_false]
    cases hv : v s.text with
    | none => right; right; exact ⟨trivial, rfl, rfl⟩
    | some e => right; left; exact ⟨trivial, e, rfl, rfl⟩
  · left; simp [h]

theorem validate_idx_text (v : Validator) (s : St) (b : Bool) :
    (validate v s b).1.idx = s.idx ∧ (validate v s b).1.text = s.text ∧
    (validate v s b).1.search = s.search := by
  rcases validate_cases v s b with ⟨_, h⟩ | ⟨_, e, _, h⟩ | ⟨_, _, h⟩ <;> rw [h]
  · simp
  · cases b <;> simp [St.text]
  · simp [St.text]

theorem reset_spec (s : St) (t : Text) (c : Nat) :
    (reset s t c).work = [t] ∧ (reset s t c).idx = 0 ∧ (reset s t c).cur = c ∧
    (reset s t c).search = none ∧ (reset s t c).vstate = .unknown ∧ (reset s t c).hist = s.hist ∧
    (reset s t c).storage = s.storage ∧ (reset s t c).hloaded = s.hloaded ∧
    (reset s t c).loading = false ∧ (reset s t c).pending = [] ∧ (reset s t c).text = t := by
  simp [reset, St.text]

theorem validateAndHandle_storage (v : Validator) (s : St) (keep : Bool) :
    ∃ suf, (suf = [] ∨ suf = [s.text]) ∧ (validateAndHandle v s keep).1.storage = s.storage ++ suf ∧
      ((validateAndHandle v s keep).2 = none → suf = []) := by
  have hf := validate_frame v s true
  have ht := (validate_idx_text v s true).2.1
  simp only [validateAndHandle]
  cases hb : (validate v s true).2 with
  | false =>
    refine ⟨[], by simp, ?_, by simp⟩
    simp [hb, hf.2.2.1]
  | true =>
    obtain ⟨_, _, _, _, _, _, suf, hs, _, h2⟩ := appendToHistory_spec (validate v s true).1
    rw [ht] at hs
    refine ⟨suf, hs, ?_, by simp [hb]⟩
    simp only [hb, if_true]
    cases keep
    · simp [(reset_spec _ _ _).2.2.2.2.2.2.1, h2, hf.2.2.1]
    · simp [h2, hf.2.2.1]

/-- `operate-and-get-next` is `validate_and_handle` with the session's accept handler, plus one
    more registered callable -/
theorem operateNext_eq (v : Validator) (s : St) :
    (operateNext v s).1 = { (validateAndHandle v s true).1 with
                              preRun := (validateAndHandle v s true).1.preRun ++ [s.idx] } ∧
    (operateNext v s).2 = (validateAndHandle v s true).2 := by
  simp [operateNext]

theorem step_operateNext (v : Validator) (s : St) :
    (step v s .operateNext).1 = { (validateAndHandle v s true).1 with
                              preRun := (validateAndHandle v s true).1.preRun ++ [s.idx] } := by
  simp only [step]
  cases hr : operateNext v s with
  | mk s' r =>
    have := (operateNext_eq v s).1
    rw [hr] at this
    cases r <;> exact this

/-- **history_append_only (one step)** — no operation removes or rewrites a stored entry; an
    operation that is not an accept / explicit append stores nothing; an accept stores at most
    the current text, once. -/
theorem step_storage (v : Validator) (s : St) (op : Op) :
    ∃ suf, (suf = [] ∨ suf = [s.text]) ∧ (step v s op).1.storage = s.storage ++ suf ∧
      (op.appends = false → suf = []) := by
  by_cases hn : op.isNav = true
  · exact ⟨[], by simp, by simp [(nav_frame v s op hn).2.2.1], by simp⟩
  by_cases he : op.isEdit = true
  · obtain ⟨x, hx⟩ := edit_frame v s op he
    exact ⟨[], by simp, by simp [hx.2.1], by simp⟩
  cases op <;> simp [Op.isNav, Op.isEdit] at hn he
  · next keep =>
    obtain ⟨suf, h1, h2, _⟩ := validateAndHandle_storage v s keep
    refine ⟨suf, h1, ?_, by simp [Op.appends]⟩
    simp only [step]
    cases hr : validateAndHandle v s keep with
    | mk s' r => cases r <;> simp [hr] at h2 ⊢ <;> exact h2
  · obtain ⟨_, _, _, _, _, _, suf, h1, _, h2⟩ := appendToHistory_spec s
    exact ⟨suf, h1, h2, by simp [Op.appends]⟩
  · exact ⟨[], by simp, by simp [step, reset], by simp⟩
  · obtain ⟨_, _, _, _, _, _, suf, h1, _, h2⟩ := appendToHistory_spec s
    exact ⟨suf, h1, by simp [step, resetAppend, reset, h2], by simp [Op.appends]⟩
  · exact ⟨[], by simp, by simp [step, (startLoad_spec s).2.2.2.2.2.1], by simp⟩
  · exact ⟨[], by simp, by simp [step, (loadOne_spec s).2.2.2.2.2.1], by simp⟩
  · obtain ⟨suf, h1, h2, _⟩ := validateAndHandle_storage v s true
    exact ⟨suf, h1, by rw [step_operateNext]; exact h2, by simp [Op.appends]⟩

/-- **history_append_only** — after any sequence of operations the stored history is the old
    one plus a suffix; if the sequence contains no accept / append, it is unchanged. -/
theorem run_storage (v : Validator) (ops : List Op) : ∀ s : St,
    ∃ suf, (run v s ops).storage = s.storage ++ suf ∧
      ((∀ op ∈ ops, op.appends = false) → suf = []) := by
  induction ops with
  | nil => intro s; exact ⟨[], by simp [run], by simp⟩
  | cons op ops ih =>
    intro s
    obtain ⟨suf1, _, h1, h1'⟩ := step_storage v s op
    obtain ⟨suf2, h2, h2'⟩ := ih (step v s op).1
    refine ⟨suf1 ++ suf2, ?_, ?_⟩
    · show (run v (step v s op).1 ops).storage = _
      rw [h2, h1, List.append_assoc]
    · intro hall
      rw [h1' (hall op (by simp)), h2' (fun o ho => hall o (by simp [ho]))]
      rfl

/-- **browsing_never_alters_history** — corollary for sequences of navigation, edits and
    loader steps (everything but accept/append). -/
theorem browse_preserves_storage (v : Validator) (s : St) (ops : List Op)
    (h : ∀ op ∈ ops, op.appends = false) : (run v s ops).storage = s.storage := by
  obtain ⟨suf, h1, h2⟩ := run_storage v ops s
  rw [h1, h2 h]; simp

/-! ## 5. Well-formedness is an invariant -/

theorem setCursorPos_wf (s : St) (v : Int) (h : s.idx < s.work.length) : WF (setCursorPos s v) := by
  refine ⟨by simpa using h, ?_⟩
  rw [setCursorPos_cur, setCursorPos_text]; omega

theorem navTo_wf (s : St) (j : Nat) (h : j < s.work.length) : WF (navTo s j) :=
  ⟨by simpa using h, by simp [navTo]⟩

theorem setHistorySearch_wf (s : St) (h : WF s) : WF (setHistorySearch s) :=
  ⟨by simpa using h.1, by simpa using h.2⟩

theorem historyBackward_wf (s : St) (c : Int) (h : WF s) : WF (historyBackward s c) := by
  rw [historyBackward_eq]
  split
  · exact setHistorySearch_wf s h
  · next j hj =>
    rcases bwdScan_spec _ _ _ _ _ hj with h1 | ⟨h1, _⟩
    · cases h1
    · exact setCursorPos_wf _ _ (by simp; have := h.1; omega)

theorem historyForward_wf (s : St) (c : Int) (h : WF s) : WF (historyForward s c) := by
  rw [historyForward_eq]
  split
  · exact setHistorySearch_wf s h
  · next j hj =>
    rcases fwdScan_spec _ _ _ _ _ _ hj with h1 | ⟨_, h1, _⟩
    · cases h1
    · have hjl : j < s.work.length := by have := h.1; omega
      exact setCursorPos_wf _ _ (by simpa using hjl)

theorem goToHistory_wf (s : St) (i : Nat) (h : WF s) : WF (goToHistory s i) := by
  simp only [goToHistory]; split
  · next hi =>
    apply setCursorPos_wf
    by_cases e : s.idx = i
    · simpa [setWorkingIndex, e] using hi
    · rw [setWorkingIndex_ne s i e]; simpa using hi
  · exact h

theorem text_set (s : St) (t : Text) (h : s.idx < s.work.length) :
    (s.work.set s.idx t).getD s.idx [] = t := by
  simp [List.getD, h]

theorem setDocument_wf (s : St) (t : Text) (c : Nat) (h : WF s) (hc : c ≤ t.length) :
    WF (setDocument s t c) ∧ (setDocument s t c).text = t ∧ (setDocument s t c).cur = c := by
  have ht := text_set s t h.1
  simp only [setDocument]
  repeat' (first | (refine ⟨⟨?_, ?_⟩, ?_, ?_⟩ <;> simp [textChanged, St.text, ht, h.1, hc]; done) | split)

theorem setText_wf (s : St) (t : Text) (h : WF s) : WF (setText s t) ∧ (setText s t).text = t := by
  have ht := text_set s t h.1
  simp only [setText]
  by_cases hc : s.cur > t.length
  · simp only [hc, if_true, setCursorPos_idx, setCursorPos_work, setCursorPos_text]
    have hcur : (setCursorPos s ↑t.length).cur = t.length := by
      rw [setCursorPos_cur]; simp; have := h.2; omega
    split <;> (refine ⟨⟨?_, ?_⟩, ?_⟩ <;> simp [textChanged, St.text, ht, h.1, hcur])
  · simp only [hc, if_false]
    split <;> (refine ⟨⟨?_, ?_⟩, ?_⟩ <;> simp [textChanged, St.text, ht, h.1] <;> omega)

theorem wf_of_frame_idx_cur (s t : St) (hw : t.work = s.work) (hi : t.idx = s.idx) (hc : t.cur = s.cur)
    (h : WF s) : WF t := by
  unfold WF St.text at *
  rw [hw, hi, hc]; exact h

theorem cursorUp_wf (s s' : St) (c : Int) (h : WF s) (hu : cursorUp s c = some s') : WF s' := by
  simp only [cursorUp] at hu
  split at hu
  · cases hu
  · cases hu
    have := setCursorPos_wf s (rowColToIndex s.text ((row s.text s.cur : Int) - c).toNat (origColumn s)) h.1
    exact ⟨this.1, this.2⟩

theorem cursorDown_wf (s s' : St) (c : Int) (h : WF s) (hu : cursorDown s c = some s') : WF s' := by
  simp only [cursorDown] at hu
  split at hu
  · cases hu
  · cases hu
    have := setCursorPos_wf s (rowColToIndex s.text (row s.text s.cur + c.toNat) (origColumn s)) h.1
    exact ⟨this.1, this.2⟩

theorem validate_wf (v : Validator) (s : St) (b : Bool) (h : WF s) : WF (validate v s b).1 := by
  rcases validate_cases v s b with ⟨_, hh⟩ | ⟨_, e, _, hh⟩ | ⟨_, _, hh⟩ <;> rw [hh]
  · exact h
  · cases b
    · exact ⟨h.1, h.2⟩
    · have := setCursorPos_wf s (min (max 0 e) s.text.length) h.1
      exact ⟨this.1, this.2⟩
  · exact ⟨h.1, h.2⟩

theorem wf_of_valOnly (s t : St) (hv : ValOnly s t) (h : WF s) : WF t := by
  obtain ⟨h1, h2, h3, _⟩ := hv.fields
  exact ⟨by rw [h2, h1]; exact h.1, by rw [h3, hv.text]; exact h.2⟩

theorem asyncValidate_wf (v : Validator) (s : St) (h : WF s) : WF (asyncValidate v s) :=
  wf_of_valOnly s _ (asyncValidate_valOnly v s) h

theorem appendToHistory_wf (s : St) (h : WF s) : WF (appendToHistory s) := by
  obtain ⟨h1, h2, h3, _⟩ := appendToHistory_spec s
  exact wf_of_frame_idx_cur s _ h1 h2 h3 h

theorem reset_wf (s : St) (t : Text) (c : Nat) (hc : c ≤ t.length) : WF (reset s t c) := by
  simp [WF, reset, St.text, hc]

theorem validateAndHandle_wf (v : Validator) (s : St) (keep : Bool) (h : WF s) :
    WF (validateAndHandle v s keep).1 := by
  simp only [validateAndHandle]
  split
  · split
    · exact appendToHistory_wf _ (validate_wf v s true h)
    · exact reset_wf _ _ _ (by simp)
  · exact validate_wf v s true h

theorem startLoad_wf (s : St) (h : WF s) : WF (startLoad s) := by
  obtain ⟨h1, h2, h3, _⟩ := startLoad_spec s
  exact wf_of_frame_idx_cur s _ h1 h2 h3 h

theorem loadOne_wf (s : St) (h : WF s) : WF (loadOne s) := by
  obtain ⟨h1, h2, _, _, _, _, pre, _, h3, h4, _⟩ := loadOne_spec s
  refine ⟨?_, by rw [h1, h2]; exact h.2⟩
  rw [h3, h4]; simp; have := h.1; omega

theorem loadAll_wf (s : St) (h : WF s) : WF (loadAll s) := by
  have ht : (loadAll s).text = s.text := by
    simp [loadAll, St.text, List.getD, List.getElem?_append_right]
  refine ⟨by simp [loadAll]; have := h.1; omega, ?_⟩
  rw [ht]; exact h.2

theorem autoUpPos_wf (s s' : St) (c : Int) (g : Bool) (h : WF s) (hr : autoUpPos s c g = some s') : WF s' := by
  simp only [autoUpPos] at hr
  split at hr
  · exact cursorUp_wf s s' c h hr
  · cases hr
    split
    · exact setCursorPos_wf _ _ (historyBackward_wf s c h).1
    · exact historyBackward_wf s c h

theorem autoDownPos_wf (s s' : St) (c : Int) (g : Bool) (h : WF s) (hr : autoDownPos s c g = some s') : WF s' := by
  simp only [autoDownPos] at hr
  split at hr
  · exact cursorDown_wf s s' c h hr
  · cases hr
    split
    · exact setCursorPos_wf _ _ (historyForward_wf s c h).1
    · exact historyForward_wf s c h

theorem autoUp_wf (s s' : St) (c : Int) (g : Bool) (h : WF s) (hr : autoUp s c g = some s') : WF s' := by
  rcases autoUp_cases s s' c g hr with rfl | hr | hr
  · exact h
  · exact autoUpPos_wf s s' c g h hr
  · exact autoDownPos_wf s s' _ g h hr

theorem autoDown_wf (s s' : St) (c : Int) (g : Bool) (h : WF s) (hr : autoDown s c g = some s') : WF s' := by
  rcases autoDown_cases s s' c g hr with rfl | hr | hr
  · exact h
  · exact autoDownPos_wf s s' c g h hr
  · exact autoUpPos_wf s s' _ g h hr

theorem insertText_wf (s : St) (d : Text) (h : WF s) : WF (insertText s d) :=
  (setDocument_wf s _ _ h (by simp; have := h.2; omega)).1

theorem deleteBefore_wf (s : St) (n : Nat) (h : WF s) : WF (deleteBefore s n) := by
  simp only [deleteBefore]; split
  · exact (setDocument_wf s _ _ h (by simp; have := h.2; omega)).1
  · exact h

theorem yankBase_wf (s : St) (h : WF s) : WF (yankBase s) := by
  rcases yankBase_cases s with e | ⟨k, e⟩ <;> rw [e]
  · exact h
  · exact deleteBefore_wf s k h

theorem yankApply_wf (s : St) (p n : Int) (w : Text) (h : WF s) : WF (yankApply s p n w) := by
  have := insertText_wf (yankBase s) w (yankBase_wf s h)
  exact ⟨this.1, this.2⟩

theorem goToHistoryFixed_wf (s : St) (i : Nat) (h : WF s) : WF (goToHistoryFixed s i) := by
  simp only [goToHistoryFixed]; split
  · have := goToHistory_wf s i h
    exact ⟨this.1, this.2⟩
  · exact h

/-- **wf_step** — every operation keeps the working index on an existing entry and the cursor
    inside the current text. -/
theorem wf_step (v : Validator) (s : St) (op : Op) (h : WF s) (hok : op.ok) : WF (step v s op).1 := by
  cases op <;> simp only [step]
  · -- insert
    next d =>
    refine (setDocument_wf s _ _ h ?_).1
    simp; have := h.2; omega
  · next n =>
    simp only [deleteBefore]; split
    · refine (setDocument_wf s _ _ h ?_).1
      simp; have := h.2; omega
    · exact h
  · exact (setText_wf s _ h).1
  · exact setCursorPos_wf _ _ h.1
  · exact setCursorPos_wf _ _ h.1
  · exact setCursorPos_wf _ _ h.1
  · exact setCursorPos_wf _ _ h.1
  · exact setCursorPos_wf _ _ h.1
  · exact historyBackward_wf _ _ h
  · exact historyForward_wf _ _ h
  · exact goToHistory_wf _ _ h
  · exact goToHistory_wf _ _ (historyForward_wf _ _ h)
  · next c g =>
    cases hr : autoUp s c g with
    | none => exact h
    | some s' => exact autoUp_wf s s' c g h hr
  · next c g =>
    cases hr : autoDown s c g with
    | none => exact h
    | some s' => exact autoDown_wf s s' c g h hr
  · exact ⟨h.1, h.2⟩
  · exact ⟨h.1, h.2⟩
  · exact validate_wf v s _ h
  · exact asyncValidate_wf v s h
  · exact wf_of_valOnly s _ (vStart_valOnly v s) h
  · exact wf_of_valOnly s _ (vFinish_valOnly v s) h
  · next keep =>
    have := validateAndHandle_wf v s keep h
    cases hr : validateAndHandle v s keep with
    | mk s' r => cases r <;> simp [hr] at this ⊢ <;> exact this
  · exact appendToHistory_wf s h
  · exact reset_wf _ _ _ hok
  · exact reset_wf _ _ _ hok
  · exact startLoad_wf s h
  · exact loadOne_wf s h
  · exact wf_of_valOnly s _ (appExit_valOnly s) h
  · rw [← step, step_operateNext]
    have := validateAndHandle_wf v s true h
    exact ⟨this.1, this.2⟩
  · exact yankApply_wf s _ _ _ h
  · exact goToHistoryFixed_wf _ _ h
  · exact goToHistoryFixed_wf _ _ (historyForward_wf _ _ h)

theorem fresh_wf (strs : List Text) (e w : Bool) (a : Bool := false) : WF (St.fresh strs e w a) := by
  simp [WF, St.fresh, St.text]

/-- **wf_run** — from a freshly constructed buffer every reachable state is well-formed. -/
theorem wf_run (v : Validator) (ops : List Op) : ∀ s : St, WF s → (∀ op ∈ ops, op.ok) → WF (run v s ops) := by
  induction ops with
  | nil => intro s h _; exact h
  | cons op ops ih =>
    intro s h hok
    exact ih _ (wf_step v s op h (hok op (by simp))) (fun o ho => hok o (by simp [ho]))

/-! ## 6. Prefix search: every entry reached starts with the typed prefix -/

/-- the filter that a step starting in `s` uses: the remembered search text, else (with
    `enable_history_search`) the text before the cursor, else nothing -/
def effPrefix (s : St) : Option Text :=
  if s.ehs then some (s.search.getD (s.text.take s.cur)) else none

theorem setHistorySearch_search (s : St) : (setHistorySearch s).search = effPrefix s := by
  simp only [setHistorySearch, effPrefix]
  split
  · cases hs : s.search <;> simp [hs]
  · rfl

theorem historyMatches_prefix (s : St) (i : Nat) (p : Text) (hs : s.search = some p)
    (h : historyMatches s i = true) : p <+: s.work.getD i [] := by
  simp only [historyMatches, hs] at h
  exact List.isPrefixOf_iff_prefix.mp h

/-- the current entry passes the active filter (trivially true without a filter) -/
def SearchInv (s : St) : Prop := ∀ p, s.search = some p → p <+: s.text

theorem searchInv_iff (s : St) : SearchInv s ↔ historyMatches s s.idx = true := by
  unfold SearchInv historyMatches St.text
  cases s.search with
  | none => simp
  | some p => simp [List.isPrefixOf_iff_prefix]

theorem setHistorySearch_inv (s : St) (h : SearchInv s) : SearchInv (setHistorySearch s) := by
  intro p hp
  rw [setHistorySearch_search] at hp
  rw [setHistorySearch_text]
  simp only [effPrefix] at hp
  split at hp
  · cases hs : s.search with
    | none => simp [hs] at hp; rw [← hp]; exact List.take_prefix _ _
    | some q => simp [hs] at hp; rw [← hp]; exact h q hs
  · cases hp

/-- where `history_backward` lands: either nowhere new (only the filter may have been set),
    or on an index below the old one whose entry starts with the filter -/
theorem historyBackward_lands (s : St) (c : Int) :
    ((historyBackward s c).idx = s.idx ∧ (historyBackward s c).cur = s.cur ∨
     (historyBackward s c).idx < s.idx ∧
       ∀ p, effPrefix s = some p → p <+: (historyBackward s c).text) ∧
    (historyBackward s c).search = effPrefix s := by
  rw [historyBackward_eq]
  split
  · exact ⟨Or.inl ⟨by simp, by simp⟩, setHistorySearch_search s⟩
  · next j hj =>
    rcases bwdScan_spec _ _ _ _ _ hj with h1 | ⟨h1, h2⟩
    · cases h1
    · refine ⟨Or.inr ⟨by simpa using h1, ?_⟩, by simp [setHistorySearch_search]⟩
      intro p hp
      have := historyMatches_prefix (setHistorySearch s) j p (by rw [setHistorySearch_search]; exact hp) h2
      simpa [St.text] using this

theorem historyForward_lands (s : St) (c : Int) :
    ((historyForward s c).idx = s.idx ∧ (historyForward s c).cur = s.cur ∨
     s.idx < (historyForward s c).idx ∧
       ∀ p, effPrefix s = some p → p <+: (historyForward s c).text) ∧
    (historyForward s c).search = effPrefix s := by
  rw [historyForward_eq]
  split
  · exact ⟨Or.inl ⟨by simp, by simp⟩, setHistorySearch_search s⟩
  · next j hj =>
    rcases fwdScan_spec _ _ _ _ _ _ hj with h1 | ⟨h1, _, h2⟩
    · cases h1
    · refine ⟨Or.inr ⟨by simp; omega, ?_⟩, by simp [setHistorySearch_search]⟩
      intro p hp
      have := historyMatches_prefix (setHistorySearch s) j p (by rw [setHistorySearch_search]; exact hp) h2
      simpa [St.text] using this

/-- **prefix_hits** — with `enable_history_search`, whenever an up / page-up step moves to
    another entry, that entry starts with the typed prefix (the remembered search text, or the
    text before the cursor when the search starts), and that prefix is what stays remembered. -/
theorem prefix_hits_back (s : St) (c : Int) (he : s.ehs = true)
    (hmove : (historyBackward s c).idx ≠ s.idx) :
    let p := s.search.getD (s.text.take s.cur)
    (historyBackward s c).search = some p ∧ p <+: (historyBackward s c).text := by
  obtain ⟨h1, h2⟩ := historyBackward_lands s c
  have hp : effPrefix s = some (s.search.getD (s.text.take s.cur)) := by simp [effPrefix, he]
  rcases h1 with ⟨h, _⟩ | ⟨_, h⟩
  · exact absurd h hmove
  · exact ⟨by rw [h2, hp], h _ hp⟩

theorem prefix_hits_fwd (s : St) (c : Int) (he : s.ehs = true)
    (hmove : (historyForward s c).idx ≠ s.idx) :
    let p := s.search.getD (s.text.take s.cur)
    (historyForward s c).search = some p ∧ p <+: (historyForward s c).text := by
  obtain ⟨h1, h2⟩ := historyForward_lands s c
  have hp : effPrefix s = some (s.search.getD (s.text.take s.cur)) := by simp [effPrefix, he]
  rcases h1 with ⟨h, _⟩ | ⟨_, h⟩
  · exact absurd h hmove
  · exact ⟨by rw [h2, hp], h _ hp⟩

theorem home_spec (s : St) : (home s).idx = s.idx ∧ (home s).search = s.search ∧ (home s).text = s.text ∧
    (home s).work = s.work := by
  simp [home]

theorem cursorUp_spec (s s' : St) (c : Int) (h : cursorUp s c = some s') :
    s'.idx = s.idx ∧ s'.search = s.search ∧ s'.text = s.text ∧ s'.work = s.work := by
  simp only [cursorUp] at h
  split at h
  · cases h
  · cases h; simp [St.text]

theorem cursorDown_spec (s s' : St) (c : Int) (h : cursorDown s c = some s') :
    s'.idx = s.idx ∧ s'.search = s.search ∧ s'.text = s.text ∧ s'.work = s.work := by
  simp only [cursorDown] at h
  split at h
  · cases h
  · cases h; simp [St.text]

theorem prefix_hits_autoUpPos (s s' : St) (c : Int) (g : Bool) (he : s.ehs = true)
    (h : autoUpPos s c g = some s') (hmove : s'.idx ≠ s.idx) :
    let p := s.search.getD (s.text.take s.cur)
    s'.search = some p ∧ p <+: s'.text := by
  simp only [autoUpPos] at h
  split at h
  · exact absurd (cursorUp_spec s s' c h).1 hmove
  · cases h
    split
    · obtain ⟨h1, h2, h3, _⟩ := home_spec (historyBackward s c)
      rw [h2, h3]
      exact prefix_hits_back s c he (by split at hmove <;> simp_all)
    · exact prefix_hits_back s c he (by split at hmove <;> simp_all)

theorem prefix_hits_autoDownPos (s s' : St) (c : Int) (g : Bool) (he : s.ehs = true)
    (h : autoDownPos s c g = some s') (hmove : s'.idx ≠ s.idx) :
    let p := s.search.getD (s.text.take s.cur)
    s'.search = some p ∧ p <+: s'.text := by
  simp only [autoDownPos] at h
  split at h
  · exact absurd (cursorDown_spec s s' c h).1 hmove
  · cases h
    split
    · obtain ⟨h1, h2, h3, _⟩ := home_spec (historyForward s c)
      rw [h2, h3]
      exact prefix_hits_fwd s c he (by split at hmove <;> simp_all)
    · exact prefix_hits_fwd s c he (by split at hmove <;> simp_all)

/-- **prefix_hits (arrow keys)** — the same for `auto_up` / `auto_down` (any count, also zero or
    negative), which either move the cursor inside a multi-line text (same entry) or take a
    history step. -/
theorem prefix_hits_autoUp (s s' : St) (c : Int) (g : Bool) (he : s.ehs = true)
    (h : autoUp s c g = some s') (hmove : s'.idx ≠ s.idx) :
    let p := s.search.getD (s.text.take s.cur)
    s'.search = some p ∧ p <+: s'.text := by
  rcases autoUp_cases s s' c g h with rfl | h | h
  · exact absurd rfl hmove
  · exact prefix_hits_autoUpPos s s' c g he h hmove
  · exact prefix_hits_autoDownPos s s' _ g he h hmove

theorem prefix_hits_autoDown (s s' : St) (c : Int) (g : Bool) (he : s.ehs = true)
    (h : autoDown s c g = some s') (hmove : s'.idx ≠ s.idx) :
    let p := s.search.getD (s.text.take s.cur)
    s'.search = some p ∧ p <+: s'.text := by
  rcases autoDown_cases s s' c g h with rfl | h | h
  · exact absurd rfl hmove
  · exact prefix_hits_autoDownPos s s' c g he h hmove
  · exact prefix_hits_autoUpPos s s' _ g he h hmove

/-! ## 7. Back k, forward k returns to the same entry and text -/

theorem setHistorySearch_fixed (t : St)
    (h : (t.ehs = true → t.search.isSome = true) ∧ (t.ehs = false → t.search = none)) :
    setHistorySearch t = t := by
  simp only [setHistorySearch]
  by_cases he : t.ehs = true
  · have := h.1 he
    simp [he]
    intro hn; simp [hn] at this
  · have he' : t.ehs = false := by simpa using he
    have := h.2 he'
    simp only [he', Bool.false_eq_true, if_false]
    cases t; simp_all

theorem setHistorySearch_stable (s : St) :
    ((setHistorySearch s).ehs = true → (setHistorySearch s).search.isSome = true) ∧
    ((setHistorySearch s).ehs = false → (setHistorySearch s).search = none) := by
  rw [setHistorySearch_search]
  simp only [setHistorySearch_ehs, effPrefix]
  constructor
  · intro he; simp [he]
  · intro he; simp [he]

/-- entries available below the current one, under the filter the step will use -/
def availBack (s : St) : Nat := cnt (historyMatches (setHistorySearch s)) 0 s.idx

/-- **back_forth** — from an entry that passes the active filter, `history_backward(k)` followed
    by `history_forward(k)` with `1 ≤ k ≤` (matching entries available below) comes back to the
    same working index, over unchanged working copies: the same entry and the same text. -/
theorem back_forth (s : St) (k : Int) (h : WF s) (hk : 1 ≤ k) (hav : k ≤ (availBack s : Int))
    (hm : historyMatches (setHistorySearch s) s.idx = true) :
    (historyForward (historyBackward s k) k).idx = s.idx ∧
    (historyForward (historyBackward s k) k).work = s.work ∧
    (historyForward (historyBackward s k) k).text = s.text ∧
    (historyBackward s k).idx < s.idx := by
  obtain ⟨j, hj, hlt, hmj, hcnt⟩ := bwdScan_kth (historyMatches (setHistorySearch s)) s.idx k none hk hav
  obtain ⟨n, hb⟩ : ∃ n, historyBackward s k =
      setCursorPos (navTo (setHistorySearch s) j n) (navTo (setHistorySearch s) j n).text.length :=
    ⟨_, by rw [historyBackward_eq, hj]⟩
  have hst := setHistorySearch_stable s
  have hfix : setHistorySearch (historyBackward s k) = historyBackward s k := by
    apply setHistorySearch_fixed
    rw [hb]
    simpa using hst
  have hmm : historyMatches (historyBackward s k) = historyMatches (setHistorySearch s) := by
    funext i
    apply historyMatches_congr <;> rw [hb] <;> simp
  have hidx : (historyBackward s k).idx = j := by rw [hb]; simp
  have hwork : (historyBackward s k).work = s.work := by rw [hb]; simp
  have hlen := h.1
  have hf := fwdScan_kth (historyMatches (setHistorySearch s)) (s.idx - 1 - j) (j + 1) k
    (s.work.length - s.idx - 1) none hcnt (by
      have : j + 1 + (s.idx - 1 - j) = s.idx := by omega
      rw [this]; exact hm)
  have e1 : s.idx - 1 - j + 1 + (s.work.length - s.idx - 1) = s.work.length - (j + 1) := by omega
  have e2 : j + 1 + (s.idx - 1 - j) = s.idx := by omega
  rw [e1, e2] at hf
  have hfw := historyForward_eq (historyBackward s k) k
  rw [hfix, hmm, hidx, hwork, hf] at hfw
  have hI : (historyForward (historyBackward s k) k).idx = s.idx := by rw [hfw]; simp
  have hW : (historyForward (historyBackward s k) k).work = s.work := by rw [hfw]; simp [hwork]
  refine ⟨hI, hW, ?_, by omega⟩
  simp [St.text, hI, hW]

/-- without prefix search every entry below counts: `k ≤ working_index` suffices -/
theorem cnt_all (m : Nat → Bool) (hm : ∀ i, m i = true) : ∀ d a, cnt m a d = d := by
  intro d
  induction d with
  | zero => intro a; rfl
  | succ d ih => intro a; rw [cnt, ih, hm]; simp; omega

theorem back_forth_plain (s : St) (k : Nat) (h : WF s) (he : s.ehs = false) (hk : 1 ≤ k) (hav : k ≤ s.idx) :
    (historyForward (historyBackward s k) k).idx = s.idx ∧
    (historyForward (historyBackward s k) k).text = s.text ∧
    (historyBackward s k).idx = s.idx - k := by
  have hs : (setHistorySearch s).search = none := by rw [setHistorySearch_search]; simp [effPrefix, he]
  have hall : ∀ i, historyMatches (setHistorySearch s) i = true := by
    intro i; simp [historyMatches, hs]
  have hc : availBack s = s.idx := cnt_all _ hall _ _
  obtain ⟨h1, _, h3, _⟩ := back_forth s k h (by omega) (by rw [hc]; omega) (hall _)
  refine ⟨h1, h3, ?_⟩
  -- the landing index: exactly k entries below
  obtain ⟨j, hj, hlt, _, hcnt⟩ := bwdScan_kth (historyMatches (setHistorySearch s)) s.idx k none
    (by omega) (by have : cnt (historyMatches (setHistorySearch s)) 0 s.idx = s.idx := cnt_all _ hall _ _
                   rw [this]; omega)
  rw [cnt_all _ hall] at hcnt
  rw [historyBackward_eq, hj]
  simp; omega

/-- with prefix search started here (no search text remembered yet) the current entry always
    passes the filter, because the filter is a prefix of it -/
theorem back_forth_search (s : St) (k : Int) (h : WF s) (hs : s.search = none)
    (hk : 1 ≤ k) (hav : k ≤ (availBack s : Int)) :
    (historyForward (historyBackward s k) k).idx = s.idx ∧
    (historyForward (historyBackward s k) k).text = s.text := by
  have hm : historyMatches (setHistorySearch s) s.idx = true := by
    have hi := setHistorySearch_inv s (by intro p hp; simp [hs] at hp)
    have := (searchInv_iff (setHistorySearch s)).mp hi
    simpa using this
  obtain ⟨h1, _, h3, _⟩ := back_forth s k h hk hav hm
  exact ⟨h1, h3⟩

/-! ## 8. The filter invariant: the current entry always passes the active filter -/

theorem searchInv_of_same (s t : St) (hs : t.search = s.search) (ht : t.text = s.text) (h : SearchInv s) :
    SearchInv t := by
  intro p hp; rw [ht]; exact h p (hs ▸ hp)

theorem searchInv_none (t : St) (h : t.search = none) : SearchInv t := by
  intro p hp; rw [h] at hp; cases hp

theorem historyBackward_inv (s : St) (c : Int) (h : SearchInv s) : SearchInv (historyBackward s c) := by
  obtain ⟨h1, h2⟩ := historyBackward_lands s c
  intro p hp
  rw [h2] at hp
  rcases h1 with ⟨hi, _⟩ | ⟨_, hpre⟩
  · -- same entry: the text is the same one
    have ht : (historyBackward s c).text = s.text := by
      have hw := (historyBackward_frame s c).1
      simp [St.text, hw, hi]
    rw [ht]
    have := setHistorySearch_inv s h p (by rw [setHistorySearch_search]; exact hp)
    simpa using this
  · exact hpre p hp

theorem historyForward_inv (s : St) (c : Int) (h : SearchInv s) : SearchInv (historyForward s c) := by
  obtain ⟨h1, h2⟩ := historyForward_lands s c
  intro p hp
  rw [h2] at hp
  rcases h1 with ⟨hi, _⟩ | ⟨_, hpre⟩
  · have ht : (historyForward s c).text = s.text := by
      have hw := (historyForward_frame s c).1
      simp [St.text, hw, hi]
    rw [ht]
    have := setHistorySearch_inv s h p (by rw [setHistorySearch_search]; exact hp)
    simpa using this
  · exact hpre p hp

theorem setDocument_search (s : St) (t : Text) (c : Nat) :
    (setDocument s t c).search = none ∨
    ((setDocument s t c).search = s.search ∧ t = s.text) := by
  simp only [setDocument]
  by_cases ht : t = s.text
  · right; subst ht; simp; split <;> simp
  · left; simp [ht]; split <;> simp [textChanged]

theorem setText_search (s : St) (t : Text) :
    (setText s t).search = none ∨ ((setText s t).search = s.search ∧ t = s.text) := by
  simp only [setText]
  by_cases ht : t = s.text
  · right; subst ht; split <;> simp
  · left; split <;> simp [ht, textChanged]

theorem autoUpPos_searchInv (s s' : St) (c : Int) (g : Bool) (h : SearchInv s)
    (hr : autoUpPos s c g = some s') : SearchInv s' := by
  simp only [autoUpPos] at hr
  split at hr
  · obtain ⟨_, h2, h3, _⟩ := cursorUp_spec s s' c hr
    exact searchInv_of_same s s' h2 h3 h
  · cases hr
    have hb := historyBackward_inv s c h
    show SearchInv (if g = true then home (historyBackward s c) else historyBackward s c)
    split
    · obtain ⟨_, h2, h3, _⟩ := home_spec (historyBackward s c)
      exact searchInv_of_same _ _ h2 h3 hb
    · exact hb

theorem autoDownPos_searchInv (s s' : St) (c : Int) (g : Bool) (h : SearchInv s)
    (hr : autoDownPos s c g = some s') : SearchInv s' := by
  simp only [autoDownPos] at hr
  split at hr
  · obtain ⟨_, h2, h3, _⟩ := cursorDown_spec s s' c hr
    exact searchInv_of_same s s' h2 h3 h
  · cases hr
    have hb := historyForward_inv s c h
    show SearchInv (if g = true then home (historyForward s c) else historyForward s c)
    split
    · obtain ⟨_, h2, h3, _⟩ := home_spec (historyForward s c)
      exact searchInv_of_same _ _ h2 h3 hb
    · exact hb

/-- the operations of the property's domain: everything except the two unfiltered jumps
    (`go_to_history`, `end-of-history`), which ignore the filter by design -/
def Op.isJump : Op → Bool
  | .goTo _ | .endHist => true
  | _ => false

theorem validateAndHandle_searchInv (v : Validator) (s : St) (keep : Bool) (h : SearchInv s) :
    SearchInv (validateAndHandle v s keep).1 := by
  obtain ⟨_, h2, h3⟩ := validate_idx_text v s true
  simp only [validateAndHandle]
  split
  · split
    · obtain ⟨a1, a2, _, _, _, a6, _⟩ := appendToHistory_spec (validate v s true).1
      refine searchInv_of_same s _ (a6.trans h3) ?_ h
      simp only [St.text] at h2 ⊢; rw [a1, a2]; exact h2
    · exact searchInv_none _ (reset_spec _ _ _).2.2.2.1
  · exact searchInv_of_same s _ h3 h2 h

theorem insertText_searchInv (s : St) (d : Text) (hwf : WF s) (h : SearchInv s) : SearchInv (insertText s d) := by
  have hw := setDocument_wf s (s.text.take s.cur ++ d ++ s.text.drop s.cur) (s.cur + d.length) hwf
    (by simp; have := hwf.2; omega)
  rcases setDocument_search s (s.text.take s.cur ++ d ++ s.text.drop s.cur) (s.cur + d.length) with h1 | ⟨h1, h2⟩
  · exact searchInv_none _ h1
  · exact searchInv_of_same s _ h1 (by simp only [insertText]; rw [hw.2.1, h2]) h

theorem deleteBefore_searchInv (s : St) (n : Nat) (hwf : WF s) (h : SearchInv s) : SearchInv (deleteBefore s n) := by
  simp only [deleteBefore]; split
  · have hw := setDocument_wf s (s.text.take (s.cur - min n s.cur) ++ s.text.drop s.cur) (s.cur - min n s.cur) hwf
      (by simp; have := hwf.2; omega)
    rcases setDocument_search s (s.text.take (s.cur - min n s.cur) ++ s.text.drop s.cur) (s.cur - min n s.cur)
      with h1 | ⟨h1, h2⟩
    · exact searchInv_none _ h1
    · exact searchInv_of_same s _ h1 (by rw [hw.2.1, h2]) h
  · exact h

/-- the repaired jump restores the filter invariant by itself -/
theorem goToHistoryFixed_searchInv (s : St) (i : Nat) (h : SearchInv s) : SearchInv (goToHistoryFixed s i) := by
  simp only [goToHistoryFixed]; split
  · exact searchInv_none _ rfl
  · exact h

theorem yankApply_searchInv (s : St) (p n : Int) (w : Text) (hwf : WF s) (h : SearchInv s) :
    SearchInv (yankApply s p n w) := by
  have hb : SearchInv (yankBase s) := by
    rcases yankBase_cases s with e | ⟨k, e⟩ <;> rw [e]
    · exact h
    · exact deleteBefore_searchInv s k hwf h
  exact searchInv_of_same _ _ rfl rfl (insertText_searchInv _ w (yankBase_wf s hwf) hb)

/-- **filter_invariant** — up / down / page steps, edits, cursor moves, loader steps, validation,
    accept and reset all keep "the current entry starts with the remembered search text". -/
theorem searchInv_step (v : Validator) (s : St) (op : Op) (hwf : WF s) (h : SearchInv s)
    (hj : op.isJump = false) : SearchInv (step v s op).1 := by
  cases op <;> simp [Op.isJump] at hj <;> simp only [step]
  · next d =>
    have hw := setDocument_wf s (s.text.take s.cur ++ d ++ s.text.drop s.cur) (s.cur + d.length) hwf
      (by simp; have := hwf.2; omega)
    rcases setDocument_search s (s.text.take s.cur ++ d ++ s.text.drop s.cur) (s.cur + d.length) with h1 | ⟨h1, h2⟩
    · exact searchInv_none _ h1
    · exact searchInv_of_same s _ h1 (by simp only [insertText]; rw [hw.2.1, h2]) h
  · next n =>
    simp only [deleteBefore]; split
    · have hw := setDocument_wf s (s.text.take (s.cur - min n s.cur) ++ s.text.drop s.cur) (s.cur - min n s.cur) hwf
        (by simp; have := hwf.2; omega)
      rcases setDocument_search s (s.text.take (s.cur - min n s.cur) ++ s.text.drop s.cur) (s.cur - min n s.cur)
        with h1 | ⟨h1, h2⟩
      · exact searchInv_none _ h1
      · exact searchInv_of_same s _ h1 (by rw [hw.2.1, h2]) h
    · exact h
  · next t =>
    rcases setText_search s t with h1 | ⟨h1, h2⟩
    · exact searchInv_none _ h1
    · exact searchInv_of_same s _ h1 (by rw [(setText_wf s t hwf).2, h2]) h
  · exact searchInv_of_same s _ (by simp) (by simp) h
  · exact searchInv_of_same s _ (by simp [cursorLeft]) (by simp [cursorLeft]) h
  · exact searchInv_of_same s _ (by simp [cursorRight]) (by simp [cursorRight]) h
  · exact searchInv_of_same s _ (by simp [home]) (by simp [home]) h
  · exact searchInv_of_same s _ (by simp [endl]) (by simp [endl]) h
  · exact historyBackward_inv s _ h
  · exact historyForward_inv s _ h
  · next c g =>
    cases hr : autoUp s c g with
    | none => exact h
    | some s' =>
      rcases autoUp_cases s s' c g hr with rfl | hr | hr
      · exact h
      · exact autoUpPos_searchInv s s' c g h hr
      · exact autoDownPos_searchInv s s' _ g h hr
  · next c g =>
    cases hr : autoDown s c g with
    | none => exact h
    | some s' =>
      rcases autoDown_cases s s' c g hr with rfl | hr | hr
      · exact h
      · exact autoDownPos_searchInv s s' c g h hr
      · exact autoUpPos_searchInv s s' _ g h hr
  · exact searchInv_of_same s _ rfl rfl h
  · exact searchInv_of_same s _ rfl rfl h
  · obtain ⟨_, h2, h3⟩ := validate_idx_text v s ‹Bool›
    exact searchInv_of_same s _ h3 h2 h
  · have hv := asyncValidate_valOnly v s
    exact searchInv_of_same s _ hv.fields.2.2.2.1 hv.text h
  · have hv := vStart_valOnly v s
    exact searchInv_of_same s _ hv.fields.2.2.2.1 hv.text h
  · have hv := vFinish_valOnly v s
    exact searchInv_of_same s _ hv.fields.2.2.2.1 hv.text h
  · next keep =>
    have key : SearchInv (validateAndHandle v s keep).1 := by
      obtain ⟨_, h2, h3⟩ := validate_idx_text v s true
      simp only [validateAndHandle]
      split
      · split
        · obtain ⟨a1, a2, _, _, _, a6, _⟩ := appendToHistory_spec (validate v s true).1
          refine searchInv_of_same s _ (a6.trans h3) ?_ h
          simp only [St.text] at h2 ⊢; rw [a1, a2]; exact h2
        · exact searchInv_none _ (reset_spec _ _ _).2.2.2.1
      · exact searchInv_of_same s _ h3 h2 h
    cases hr : validateAndHandle v s keep with
    | mk s' r => cases r <;> simp [hr] at key ⊢ <;> exact key
  · obtain ⟨a1, a2, _, _, _, a6, _⟩ := appendToHistory_spec s
    exact searchInv_of_same s _ a6 (by simp only [St.text]; rw [a1, a2]) h
  · exact searchInv_none _ (reset_spec _ _ _).2.2.2.1
  · exact searchInv_none _ (reset_spec _ _ _).2.2.2.1
  · obtain ⟨_, _, _, h4, _, _, h7⟩ := startLoad_spec s
    exact searchInv_of_same s _ h4 h7 h
  · obtain ⟨h1, _, h3, _⟩ := loadOne_spec s
    exact searchInv_of_same s _ h3 h1 h
  · exact searchInv_of_same s _ rfl rfl h
  · rw [← step, step_operateNext]
    exact searchInv_of_same _ _ rfl rfl (validateAndHandle_searchInv v s true h)
  · exact yankApply_searchInv s _ _ _ hwf h
  · exact goToHistoryFixed_searchInv _ _ h
  · exact goToHistoryFixed_searchInv _ _ (historyForward_inv s _ h)

/-! ## 9. Validation: the cached verdict is always the validator's verdict on the current text -/

def VInv (v : Validator) (s : St) : Prop :=
  (s.vstate = .valid → v s.text = none) ∧ (s.vstate = .invalid → ∃ e, v s.text = some e)

theorem vinv_unknown (v : Validator) (t : St) (h : t.vstate = .unknown) : VInv v t := by
  constructor <;> (intro h'; rw [h] at h'; cases h')

theorem vinv_same (v : Validator) (s t : St) (hv : t.vstate = s.vstate) (ht : t.text = s.text)
    (h : VInv v s) : VInv v t := by
  unfold VInv; rw [hv, ht]; exact h

theorem vinv_either (v : Validator) (s t : St)
    (hx : t.vstate = .unknown ∨ (t.vstate = s.vstate ∧ t.text = s.text)) (h : VInv v s) : VInv v t := by
  rcases hx with h1 | ⟨h1, h2⟩
  · exact vinv_unknown v t h1
  · exact vinv_same v s t h1 h2 h

theorem historyBackward_vstate (s : St) (c : Int) :
    (historyBackward s c).vstate = .unknown ∨
    ((historyBackward s c).vstate = s.vstate ∧ (historyBackward s c).text = s.text) := by
  rw [historyBackward_eq]
  split
  · right; simp
  · left; simp [navTo]

theorem historyForward_vstate (s : St) (c : Int) :
    (historyForward s c).vstate = .unknown ∨
    ((historyForward s c).vstate = s.vstate ∧ (historyForward s c).text = s.text) := by
  rw [historyForward_eq]
  split
  · right; simp
  · left; simp [navTo]

theorem goToHistory_vstate (s : St) (i : Nat) :
    (goToHistory s i).vstate = .unknown ∨
    ((goToHistory s i).vstate = s.vstate ∧ (goToHistory s i).text = s.text) := by
  simp only [goToHistory]
  split
  · by_cases e : s.idx = i
    · right; simp [setWorkingIndex, e]
    · left; rw [setWorkingIndex_ne s i e]; simp [navTo]
  · right; simp

theorem setDocument_vstate (s : St) (t : Text) (c : Nat) (hwf : WF s) (hc : c ≤ t.length) :
    (setDocument s t c).vstate = .unknown ∨
    ((setDocument s t c).vstate = s.vstate ∧ (setDocument s t c).text = s.text) := by
  have hw := (setDocument_wf s t c hwf hc).2.1
  by_cases ht : t = s.text
  · right; refine ⟨?_, by rw [hw, ht]⟩
    simp only [setDocument]; subst ht; simp; split <;> rfl
  · left; simp only [setDocument]; simp [ht]; split <;> simp [textChanged]

theorem setText_vstate (s : St) (t : Text) (hwf : WF s) :
    (setText s t).vstate = .unknown ∨
    ((setText s t).vstate = s.vstate ∧ (setText s t).text = s.text) := by
  have hw := (setText_wf s t hwf).2
  by_cases ht : t = s.text
  · right; refine ⟨?_, by rw [hw, ht]⟩
    simp only [setText]; subst ht; split <;> simp
  · left; simp only [setText]; split <;> simp [ht, textChanged]

theorem vinv_trans_step (_v : Validator) (s t u : St)
    (h1 : t.vstate = .unknown ∨ (t.vstate = s.vstate ∧ t.text = s.text))
    (h2 : u.vstate = .unknown ∨ (u.vstate = t.vstate ∧ u.text = t.text)) :
    u.vstate = .unknown ∨ (u.vstate = s.vstate ∧ u.text = s.text) := by
  rcases h2 with h2 | ⟨a, b⟩
  · left; exact h2
  · rcases h1 with h1 | ⟨c, d⟩
    · left; rw [a, h1]
    · right; exact ⟨a.trans c, b.trans d⟩

theorem validate_vinv (v : Validator) (s : St) (b : Bool) (h : VInv v s) : VInv v (validate v s b).1 := by
  have ht := (validate_idx_text v s b).2.1
  rcases validate_cases v s b with ⟨_, hh⟩ | ⟨_, e, he, hh⟩ | ⟨_, he, hh⟩
  · rw [hh]; exact h
  · constructor
    · intro h'; rw [hh] at h'; cases b <;> simp at h'
    · intro _; rw [ht]; exact ⟨e, he⟩
  · constructor
    · intro _; rw [ht]; exact he
    · intro h'; rw [hh] at h'; simp at h'

/-- storing the validator's verdict *for the current text* is what makes a cached state genuine -/
theorem setVerdict_vinv (v : Validator) (s : St) : VInv v (setVerdict s (v s.text)) := by
  cases hv : v s.text with
  | none => exact ⟨fun _ => hv, fun h' => by simp [setVerdict] at h'⟩
  | some e => exact ⟨fun h' => by simp [setVerdict] at h', fun _ => ⟨e, hv⟩⟩

theorem vinv_vrun (v : Validator) (s : St) (r : Option (Text × Nat)) (h : VInv v s) :
    VInv v { s with vrun := r } := ⟨h.1, h.2⟩

theorem vLoopTop_vinv (v : Validator) (s : St) (h : VInv v s) : VInv v (vLoopTop v s) := by
  simp only [vLoopTop]
  split
  · exact vinv_vrun v s _ h
  · split
    · exact vinv_vrun v s _ h
    · exact vinv_vrun v _ _ (setVerdict_vinv v s)

theorem vStart_vinv (v : Validator) (s : St) (h : VInv v s) : VInv v (vStart v s) := by
  simp only [vStart]
  split
  · exact h
  · split
    · exact ⟨h.1, h.2⟩
    · exact vLoopTop_vinv v _ ⟨h.1, h.2⟩

/-- **the stale-verdict guard** — when the validation in flight finishes, its verdict is stored
    only if text and cursor are still the captured ones; otherwise the loop starts over. -/
theorem vFinish_vinv (v : Validator) (s : St) (h : VInv v s) : VInv v (vFinish v s) := by
  simp only [vFinish]
  split
  · exact h
  · next t c hr =>
    split
    · next heq =>
      have := vinv_vrun v _ none (setVerdict_vinv v s)
      rw [heq.1] at this
      exact this
    · exact vLoopTop_vinv v s h

theorem drainGo_vinv (v : Validator) : ∀ (n : Nat) (s : St), VInv v s → VInv v (drainGo v n s) := by
  intro n
  induction n with
  | zero => intro s h; exact h
  | succ n ih => intro s h; exact ih _ (vStart_vinv v s h)

theorem asyncValidate_vinv (v : Validator) (s : St) (h : VInv v s) : VInv v (asyncValidate v s) :=
  drainGo_vinv v _ s h
theorem autoUpPos_vinv (v : Validator) (s s' : St) (c : Int) (g : Bool) (h : VInv v s)
    (hr : autoUpPos s c g = some s') : VInv v s' := by
  simp only [autoUpPos] at hr
  split at hr
  · obtain ⟨_, _, h3, _⟩ := cursorUp_spec s s' c hr
    refine vinv_same v s s' ?_ h3 h
    simp only [cursorUp] at hr; split at hr
    · cases hr
    · cases hr; simp
  · cases hr
    show VInv v (if g = true then home (historyBackward s c) else historyBackward s c)
    split
    · exact vinv_either v s _ (vinv_trans_step v s _ _ (historyBackward_vstate s c)
        (Or.inr ⟨by simp [home], by simp [home]⟩)) h
    · exact vinv_either v s _ (historyBackward_vstate s c) h

theorem autoDownPos_vinv (v : Validator) (s s' : St) (c : Int) (g : Bool) (h : VInv v s)
    (hr : autoDownPos s c g = some s') : VInv v s' := by
  simp only [autoDownPos] at hr
  split at hr
  · obtain ⟨_, _, h3, _⟩ := cursorDown_spec s s' c hr
    refine vinv_same v s s' ?_ h3 h
    simp only [cursorDown] at hr; split at hr
    · cases hr
    · cases hr; simp
  · cases hr
    show VInv v (if g = true then home (historyForward s c) else historyForward s c)
    split
    · exact vinv_either v s _ (vinv_trans_step v s _ _ (historyForward_vstate s c)
        (Or.inr ⟨by simp [home], by simp [home]⟩)) h
    · exact vinv_either v s _ (historyForward_vstate s c) h

theorem validateAndHandle_vinv (v : Validator) (s : St) (keep : Bool) (h : VInv v s) :
    VInv v (validateAndHandle v s keep).1 := by
  have hv := validate_vinv v s true h
  simp only [validateAndHandle]
  split
  · split
    · obtain ⟨a1, a2, _, a4, _⟩ := appendToHistory_spec (validate v s true).1
      exact vinv_same v _ _ a4 (by simp only [St.text]; rw [a1, a2]) hv
    · exact vinv_unknown v _ (reset_spec _ _ _).2.2.2.2.1
  · exact hv

theorem goToHistoryFixed_vstate (s : St) (i : Nat) :
    (goToHistoryFixed s i).vstate = .unknown ∨
    ((goToHistoryFixed s i).vstate = s.vstate ∧ (goToHistoryFixed s i).text = s.text) := by
  simp only [goToHistoryFixed]; split
  · rcases goToHistory_vstate s i with h | ⟨h1, h2⟩
    · exact Or.inl h
    · exact Or.inr ⟨h1, h2⟩
  · exact Or.inr ⟨rfl, rfl⟩

theorem yankApply_vinv (v : Validator) (s : St) (p n : Int) (w : Text) (hwf : WF s) (h : VInv v s) :
    VInv v (yankApply s p n w) := by
  have hb : VInv v (yankBase s) := by
    rcases yankBase_cases s with e | ⟨k, e⟩ <;> rw [e]
    · exact h
    · simp only [deleteBefore]; split
      · exact vinv_either v s _ (setDocument_vstate s _ _ hwf (by simp; have := hwf.2; omega)) h
      · exact h
  have hwb := yankBase_wf s hwf
  have := vinv_either v (yankBase s) (insertText (yankBase s) w)
    (setDocument_vstate _ _ _ hwb (by simp; have := hwb.2; omega)) hb
  exact vinv_same v _ _ rfl rfl this

/-- **verdict_is_fresh** — every operation keeps "a VALID / INVALID state is the verdict of the
    validator on the *current* text" (any text or entry change resets it to UNKNOWN). -/
theorem vinv_step (v : Validator) (s : St) (op : Op) (hwf : WF s) (h : VInv v s) :
    VInv v (step v s op).1 := by
  cases op <;> simp only [step]
  · exact vinv_either v s _ (setDocument_vstate s _ _ hwf (by simp; have := hwf.2; omega)) h
  · simp only [deleteBefore]; split
    · exact vinv_either v s _ (setDocument_vstate s _ _ hwf (by simp; have := hwf.2; omega)) h
    · exact h
  · exact vinv_either v s _ (setText_vstate s _ hwf) h
  · exact vinv_same v s _ (by simp) (by simp) h
  · exact vinv_same v s _ (by simp [cursorLeft]) (by simp [cursorLeft]) h
  · exact vinv_same v s _ (by simp [cursorRight]) (by simp [cursorRight]) h
  · exact vinv_same v s _ (by simp [home]) (by simp [home]) h
  · exact vinv_same v s _ (by simp [endl]) (by simp [endl]) h
  · exact vinv_either v s _ (historyBackward_vstate s _) h
  · exact vinv_either v s _ (historyForward_vstate s _) h
  · exact vinv_either v s _ (goToHistory_vstate s _) h
  · exact vinv_either v s _ (vinv_trans_step v s _ _ (historyForward_vstate s _) (goToHistory_vstate _ _)) h
  · next c g =>
    cases hr : autoUp s c g with
    | none => exact h
    | some s' =>
      rcases autoUp_cases s s' c g hr with rfl | hr | hr
      · exact h
      · exact autoUpPos_vinv v s s' c g h hr
      · exact autoDownPos_vinv v s s' _ g h hr
  · next c g =>
    cases hr : autoDown s c g with
    | none => exact h
    | some s' =>
      rcases autoDown_cases s s' c g hr with rfl | hr | hr
      · exact h
      · exact autoDownPos_vinv v s s' c g h hr
      · exact autoUpPos_vinv v s s' _ g h hr
  · exact vinv_same v s _ rfl rfl h
  · exact vinv_same v s _ rfl rfl h
  · exact validate_vinv v s _ h
  · exact asyncValidate_vinv v s h
  · exact vStart_vinv v s h
  · exact vFinish_vinv v s h
  · next keep =>
    have key : VInv v (validateAndHandle v s keep).1 := by
      have hv := validate_vinv v s true h
      simp only [validateAndHandle]
      split
      · split
        · obtain ⟨a1, a2, _, a4, _⟩ := appendToHistory_spec (validate v s true).1
          exact vinv_same v _ _ a4 (by simp only [St.text]; rw [a1, a2]) hv
        · exact vinv_unknown v _ (reset_spec _ _ _).2.2.2.2.1
      · exact hv
    cases hr : validateAndHandle v s keep with
    | mk s' r => cases r <;> simp [hr] at key ⊢ <;> exact key
  · obtain ⟨a1, a2, _, a4, _⟩ := appendToHistory_spec s
    exact vinv_same v _ _ a4 (by simp only [St.text]; rw [a1, a2]) h
  · exact vinv_unknown v _ (reset_spec _ _ _).2.2.2.2.1
  · exact vinv_unknown v _ (reset_spec _ _ _).2.2.2.2.1
  · obtain ⟨_, _, _, _, h5, _, h7⟩ := startLoad_spec s
    exact vinv_same v s _ h5 h7 h
  · obtain ⟨h1, _, _, h4, _⟩ := loadOne_spec s
    exact vinv_same v s _ h4 h1 h
  · exact vinv_same v s _ rfl rfl h
  · rw [← step, step_operateNext]
    exact vinv_same v _ _ rfl rfl (validateAndHandle_vinv v s true h)
  · exact yankApply_vinv v s _ _ _ hwf h
  · exact vinv_either v s _ (goToHistoryFixed_vstate s _) h
  · exact vinv_either v s _ (vinv_trans_step v s _ _ (historyForward_vstate s _) (goToHistoryFixed_vstate _ _)) h

/-! ## 10. Reject: nothing changes but the cursor of a fresh verdict -/

/-- **reject_no_change** — when the validator does not pass the current text and the verdict is
    computed now (state UNKNOWN), `validate_and_handle` does not run the accept handler, leaves
    every working copy, the index, the search text and the history alone, and puts the cursor at
    the reported position clamped to `0 … len(text)`. -/
theorem reject_no_change (v : Validator) (s : St) (keep : Bool) (e : Int)
    (hv : v s.text = some e) (hu : s.vstate = .unknown) :
    (validateAndHandle v s keep).2 = none ∧
    (validateAndHandle v s keep).1.work = s.work ∧ (validateAndHandle v s keep).1.idx = s.idx ∧
    (validateAndHandle v s keep).1.text = s.text ∧
    (validateAndHandle v s keep).1.hist = s.hist ∧ (validateAndHandle v s keep).1.storage = s.storage ∧
    (validateAndHandle v s keep).1.search = s.search ∧
    (validateAndHandle v s keep).1.vstate = .invalid ∧
    (validateAndHandle v s keep).1.cur = min (max 0 e).toNat s.text.length ∧
    (validateAndHandle v s keep).1.verr = some e := by
  have hval : validate v s true =
      ({ setCursorPos s (min (max 0 e) s.text.length) with vstate := .invalid, verr := some e }, false) := by
    simp [validate, hu, hv]
  simp only [validateAndHandle, hval]
  refine ⟨rfl, by simp, by simp, by simp [St.text], by simp, by simp, by simp, rfl, ?_, rfl⟩
  simp only [Bool.false_eq_true, if_false]
  rw [setCursorPos_cur]
  omega

/-- a cached INVALID verdict: nothing at all changes (not even the cursor) -/
theorem reject_cached (v : Validator) (s : St) (keep : Bool) (hi : s.vstate = .invalid) :
    validateAndHandle v s keep = (s, none) := by
  simp [validateAndHandle, validate, hi]

/-- **accept_only_if_valid** — in every state whose cached verdict is genuine (`VInv`, an
    invariant of all operations) the accept handler runs only if the validator passes the
    current text, and it is given exactly that text. -/
theorem accept_only_if_valid (v : Validator) (s : St) (keep : Bool) (t : Text) (h : VInv v s)
    (hacc : (validateAndHandle v s keep).2 = some t) : v s.text = none ∧ t = s.text := by
  have ht := (validate_idx_text v s true).2.1
  rcases validate_cases v s true with ⟨hne, hh⟩ | ⟨_, e, he, hh⟩ | ⟨_, he, hh⟩
  · simp only [validateAndHandle, hh] at hacc
    by_cases hval : s.vstate = .valid
    · simp [hval] at hacc
      exact ⟨h.1 hval, hacc.symm⟩
    · simp [hval] at hacc
  · simp [validateAndHandle, hh] at hacc
  · simp only [validateAndHandle, hh] at hacc
    simp at hacc
    exact ⟨he, by rw [← hacc]; rfl⟩

/-- and conversely a passing text is accepted unless a (genuine) verdict says otherwise -/
theorem accept_if_valid (v : Validator) (s : St) (keep : Bool) (h : VInv v s) (hv : v s.text = none) :
    (validateAndHandle v s keep).2 = some s.text := by
  rcases validate_cases v s true with ⟨hne, hh⟩ | ⟨_, e, he, hh⟩ | ⟨_, he, hh⟩
  · have hval : s.vstate = .valid := by
      cases hs : s.vstate with
      | unknown => exact absurd hs hne
      | valid => rfl
      | invalid => obtain ⟨e, he⟩ := h.2 hs; rw [hv] at he; cases he
    simp [validateAndHandle, hh, hval]
  · rw [hv] at he; cases he
  · simp [validateAndHandle, hh, St.text]

/-! ## 11. Accept: appended exactly once, unless empty or equal to the newest entry -/

/-- what `append_to_history` stores, as a function of what `get_strings()` shows -/
def appended (hist : List Text) (t : Text) : List Text :=
  if t ≠ [] ∧ hist.getLast? ≠ some t then [t] else []

theorem appendToHistory_hist (s : St) :
    (appendToHistory s).hist = s.hist ++ appended s.hist s.text ∧
    (appendToHistory s).storage = s.storage ++ appended s.hist s.text := by
  simp only [appendToHistory, appended]
  by_cases h1 : s.text ≠ []
  · by_cases h2 : s.hist.getLast? ≠ some s.text
    · simp [h1, h2]
    · have h2' : s.hist.getLast? = some s.text := by simpa using h2
      have hne : s.hist ≠ [] := by intro hn; rw [hn] at h2'; simp at h2'
      simp [h1, h2', hne]
  · simp [h1]

/-- **accept_appends_once** — when the validator passes, `validate_and_handle` hands the current
    text to the accept handler (the prompt's return value) and the history grows by exactly that
    text, once, iff it is non-empty and differs from the newest entry `get_strings()` shows;
    nothing else is stored. -/
theorem accept_appends_once (v : Validator) (s : St) (keep : Bool) (h : VInv v s) (hv : v s.text = none) :
    (validateAndHandle v s keep).2 = some s.text ∧
    (validateAndHandle v s keep).1.hist = s.hist ++ appended s.hist s.text ∧
    (validateAndHandle v s keep).1.storage = s.storage ++ appended s.hist s.text := by
  have hacc := accept_if_valid v s keep h hv
  refine ⟨hacc, ?_⟩
  have hf := validate_frame v s true
  have ht := (validate_idx_text v s true).2.1
  have hok : (validate v s true).2 = true := by
    simp only [validateAndHandle] at hacc
    by_cases hb : (validate v s true).2 = true
    · exact hb
    · simp [hb] at hacc
  obtain ⟨a1, a2⟩ := appendToHistory_hist (validate v s true).1
  rw [ht, hf.2.1] at a1 a2
  rw [hf.2.2.1] at a2
  simp only [validateAndHandle, hok, if_true]
  cases keep
  · simp [reset, a1, a2]
  · simp [a1, a2]

/-- with the history loaded (`get_strings()` = what is stored) the comparison is with the
    newest stored entry -/
theorem accept_appends_once_loaded (v : Validator) (s : St) (keep : Bool) (h : VInv v s)
    (hv : v s.text = none) (hl : s.hist = s.storage) :
    (validateAndHandle v s keep).1.storage =
      if s.text ≠ [] ∧ s.storage.getLast? ≠ some s.text then s.storage ++ [s.text] else s.storage := by
  rw [(accept_appends_once v s keep h hv).2.2, hl]
  simp only [appended]
  split <;> simp

/-- a rejected accept stores nothing (any state) -/
theorem reject_appends_nothing (v : Validator) (s : St) (keep : Bool)
    (hr : (validateAndHandle v s keep).2 = none) :
    (validateAndHandle v s keep).1.storage = s.storage ∧ (validateAndHandle v s keep).1.hist = s.hist := by
  have hf := validate_frame v s true
  simp only [validateAndHandle] at hr ⊢
  by_cases hb : (validate v s true).2 = true
  · simp [hb] at hr
  · simp [hb, hf.2.1, hf.2.2.1]

/-! ## 12. `get_strings()` versus what is stored -/

theorem validateAndHandle_hist (v : Validator) (s : St) (keep : Bool) :
    ∃ suf, (validateAndHandle v s keep).1.hist = s.hist ++ suf ∧
      (validateAndHandle v s keep).1.storage = s.storage ++ suf ∧
      (validateAndHandle v s keep).1.hloaded = s.hloaded := by
  have hf := validate_frame v s true
  simp only [validateAndHandle]
  by_cases hb : (validate v s true).2 = true
  · obtain ⟨a1, a2⟩ := appendToHistory_hist (validate v s true).1
    have a5 := (appendToHistory_spec (validate v s true).1).2.2.2.2.1
    rw [hf.2.1] at a1
    rw [hf.2.1, hf.2.2.1] at a2
    refine ⟨appended s.hist (validate v s true).1.text, ?_, ?_, ?_⟩ <;> simp only [hb, if_true]
    · cases keep <;> simp [reset, a1]
    · cases keep <;> simp [reset, a2]
    · cases keep <;> simp [reset, a5, hf.2.2.2.1]
  · exact ⟨[], by simp [hb, hf.2.1], by simp [hb, hf.2.2.1], by simp [hb, hf.2.2.2.1]⟩

/-- how one operation moves (get_strings, storage, loaded flag) -/
theorem step_hist_cases (v : Validator) (s : St) (op : Op) :
    (∃ suf, (step v s op).1.hist = s.hist ++ suf ∧ (step v s op).1.storage = s.storage ++ suf ∧
        (step v s op).1.hloaded = s.hloaded) ∨
    ((step v s op).1.hist = (if s.hloaded then s.hist else s.storage) ∧
        (step v s op).1.storage = s.storage ∧ (step v s op).1.hloaded = true) := by
  by_cases hn : op.isNav = true
  · obtain ⟨_, h2, h3, h4, _⟩ := nav_frame v s op hn
    exact Or.inl ⟨[], by simp [h2], by simp [h3], h4⟩
  by_cases he : op.isEdit = true
  · obtain ⟨x, h1, h2, h3, _⟩ := edit_frame v s op he
    exact Or.inl ⟨[], by simp [h1], by simp [h2], h3⟩
  cases op <;> simp [Op.isNav, Op.isEdit] at hn he
  · next keep =>
    left
    have hf := validate_frame v s true
    have key : ∃ suf, (validateAndHandle v s keep).1.hist = s.hist ++ suf ∧
        (validateAndHandle v s keep).1.storage = s.storage ++ suf ∧
        (validateAndHandle v s keep).1.hloaded = s.hloaded := by
      simp only [validateAndHandle]
      by_cases hb : (validate v s true).2 = true
      · obtain ⟨a1, a2⟩ := appendToHistory_hist (validate v s true).1
        have a5 := (appendToHistory_spec (validate v s true).1).2.2.2.2.1
        rw [hf.2.1] at a1
        rw [hf.2.1, hf.2.2.1] at a2
        refine ⟨appended s.hist (validate v s true).1.text, ?_, ?_, ?_⟩ <;> simp only [hb, if_true]
        · cases keep <;> simp [reset, a1]
        · cases keep <;> simp [reset, a2]
        · cases keep <;> simp [reset, a5, hf.2.2.2.1]
      · exact ⟨[], by simp [hb, hf.2.1], by simp [hb, hf.2.2.1], by simp [hb, hf.2.2.2.1]⟩
    obtain ⟨suf, k1, k2, k3⟩ := key
    refine ⟨suf, ?_, ?_, ?_⟩ <;> simp only [step] <;>
      (cases hr : validateAndHandle v s keep with
       | mk s' r => cases r <;> simp [hr] at k1 k2 k3 ⊢ <;> assumption)
  · left
    obtain ⟨a1, a2⟩ := appendToHistory_hist s
    exact ⟨_, a1, a2, (appendToHistory_spec s).2.2.2.2.1⟩
  · left; exact ⟨[], by simp [step, reset], by simp [step, reset], by simp [step, reset]⟩
  · left
    obtain ⟨a1, a2⟩ := appendToHistory_hist s
    exact ⟨appended s.hist s.text, by simp [step, resetAppend, reset, a1], by simp [step, resetAppend, reset, a2],
      by simp [step, resetAppend, reset, (appendToHistory_spec s).2.2.2.2.1]⟩
  · simp only [step, startLoad]
    by_cases hl : s.loading = true
    · left; exact ⟨[], by simp [hl], by simp [hl], by simp [hl]⟩
    · right; simp [hl]
  · left
    simp only [step, loadOne]
    cases s.pending <;> exact ⟨[], by simp, by simp, by simp⟩
  · left
    obtain ⟨suf, k1, k2, k3⟩ := validateAndHandle_hist v s true
    exact ⟨suf, by rw [step_operateNext]; exact k1, by rw [step_operateNext]; exact k2,
      by rw [step_operateNext]; exact k3⟩

/-- once loaded, `get_strings()` is exactly what is stored (before the first load it is only
    what has been appended since the history object was created) -/
def Loaded (s : St) : Prop := s.hloaded = true ∧ s.hist = s.storage

def HInv (s : St) : Prop := s.hloaded = true → s.hist = s.storage

theorem hinv_step (v : Validator) (s : St) (op : Op) (h : HInv s) : HInv (step v s op).1 := by
  rcases step_hist_cases v s op with ⟨suf, h1, h2, h3⟩ | ⟨h1, h2, h3⟩
  · intro hl; rw [h1, h2, h (h3 ▸ hl)]
  · intro _; rw [h1, h2]
    by_cases hl : s.hloaded = true
    · simp [hl, h hl]
    · simp [hl]

theorem loaded_step (v : Validator) (s : St) (op : Op) (h : Loaded s) : Loaded (step v s op).1 := by
  rcases step_hist_cases v s op with ⟨suf, h1, h2, h3⟩ | ⟨h1, h2, h3⟩
  · exact ⟨h3.trans h.1, by rw [h1, h2, h.2]⟩
  · exact ⟨h3, by rw [h1, h2]; simp [h.1, h.2]⟩

theorem fresh_hinv (strs : List Text) (e w : Bool) (a : Bool := false) : HInv (St.fresh strs e w a) := by
  intro h; simp [St.fresh] at h

/-! ## 13. The next prompt starts from a clean entry list -/

/-- **reset_clean** — after `reset(Document(t, c))` (what `validate_and_handle` does when the
    text is not kept, and what `PromptSession.prompt` does first) and a complete run of the
    loader, the working lines are exactly the history plus the new line, the new line is
    current, no search text and no verdict are left. -/
theorem reset_clean (v : Validator) (s : St) (t : Text) (c : Nat) (h : HInv s) :
    let s1 := startLoad (reset s t c)
    let s2 := run v s1 (List.replicate s1.pending.length .loadOne)
    s2.work = s.storage ++ [t] ∧ s2.idx = s.storage.length ∧ s2.text = t ∧ s2.cur = c ∧
    s2.search = none ∧ s2.vstate = .unknown ∧ s2.hist = s.storage ∧ s2.storage = s.storage ∧
    s2.pending = [] := by
  intro s1 s2
  have e2 : s2 = loadAll s1 := loadOne_all v s1 _ rfl
  have hh : (if s.hloaded = true then s.hist else s.storage) = s.storage := by
    by_cases hl : s.hloaded = true
    · simp [hl, h hl]
    · simp [hl]
  have e1 : s1 = { reset s t c with hloaded := true, hist := s.storage, loading := true,
                                    pending := s.storage.reverse } := by
    show startLoad (reset s t c) = _
    simp only [startLoad]
    simp [reset]
    exact hh
  rw [e2, e1]
  simp [loadAll, reset, St.text, List.getD]

/-- **operate_and_get_next_never_fetches** — the callables `operate-and-get-next` registers run in
    `Application._pre_run`, i.e. right after `default_buffer.reset()` and before the history loader
    has delivered anything: the only working line is the new one, `new_index = index + 1 ≥ 1` is
    never `< 1`, so none of them moves the index; they are just dropped. -/
theorem runPreRun_reset (s : St) (t : Text) (c : Nat) :
    runPreRun (reset s t c) = { reset s t c with preRun := [] } := by
  have key : ∀ (l : List Nat) (u : St), u.work.length = 1 →
      l.foldl (fun t i => if i + 1 < t.work.length then setWorkingIndex t (i + 1) else t) u = u := by
    intro l
    induction l with
    | nil => intro u _; rfl
    | cons i l ih =>
      intro u hu
      simp only [List.foldl_cons, hu]
      rw [if_neg (by omega)]
      exact ih u hu
  simp only [runPreRun]
  rw [key _ _ (by simp [reset])]

/-- the same for the `PromptSession.prompt(default=d)` glue -/
theorem next_prompt_clean (s : St) (d : Text) (h : HInv s) :
    (promptStart s d).work = s.storage ++ [d] ∧ (promptStart s d).idx = s.storage.length ∧
    (promptStart s d).text = d ∧ (promptStart s d).cur = d.length ∧
    (promptStart s d).search = none ∧ (promptStart s d).vstate = .unknown ∧
    (promptStart s d).storage = s.storage ∧ Loaded (promptStart s d) ∧ WF (promptStart s d) := by
  have hh : (if s.hloaded = true then s.hist else s.storage) = s.storage := by
    by_cases hl : s.hloaded = true
    · simp [hl, h hl]
    · simp [hl]
  have e : promptStart s d =
      { reset (appExit s) d d.length with
        preRun := [], hloaded := true, hist := s.storage, loading := true,
        pending := [], work := s.storage ++ [d], idx := s.storage.length } := by
    simp only [promptStart, runPreRun_reset, startLoad]
    simp [reset, loadAll, appExit]
    exact ⟨hh, congrArg List.length hh⟩
  rw [e]
  simp [reset, St.text, List.getD, Loaded, WF, appExit]

/-! ## 14. Whole sessions -/

/-- the invariants that hold in every reachable state -/
def Inv (v : Validator) (s : St) : Prop := WF s ∧ VInv v s ∧ HInv s

theorem inv_step (v : Validator) (s : St) (op : Op) (h : Inv v s) (hok : op.ok) : Inv v (step v s op).1 :=
  ⟨wf_step v s op h.1 hok, vinv_step v s op h.1 h.2.1, hinv_step v s op h.2.2⟩

theorem inv_fresh (v : Validator) (strs : List Text) (e w : Bool) (a : Bool := false) :
    Inv v (St.fresh strs e w a) :=
  ⟨fresh_wf strs e w a, vinv_unknown v _ rfl, fresh_hinv strs e w a⟩

/-- **inv_run** — well-formedness, genuineness of the cached verdict and `get_strings() = stored`
    (once loaded) hold after every finite sequence of operations on a fresh buffer. -/
theorem inv_run (v : Validator) (ops : List Op) : ∀ s : St, Inv v s → (∀ op ∈ ops, op.ok) →
    Inv v (run v s ops) := by
  induction ops with
  | nil => intro s h _; exact h
  | cons op ops ih =>
    intro s h hok
    exact ih _ (inv_step v s op h (hok op (by simp))) (fun o ho => hok o (by simp [ho]))

theorem loaded_run (v : Validator) (ops : List Op) : ∀ s : St, Loaded s → Loaded (run v s ops) := by
  induction ops with
  | nil => intro s h; exact h
  | cons op ops ih => intro s h; exact ih _ (loaded_step v s op h)

/-- the filter invariant along any sequence without the two unfiltered jumps -/
theorem searchInv_run (v : Validator) (ops : List Op) : ∀ s : St, WF s → SearchInv s →
    (∀ op ∈ ops, op.ok ∧ op.isJump = false) → SearchInv (run v s ops) := by
  induction ops with
  | nil => intro s _ h _; exact h
  | cons op ops ih =>
    intro s hw h hok
    exact ih _ (wf_step v s op hw (hok op (by simp)).1) (searchInv_step v s op hw h (hok op (by simp)).2)
      (fun o ho => hok o (by simp [ho]))

/-- **edits_kept** — along any sequence of navigation and loader steps every working copy
    (in particular an entry that was edited before) is still there, unchanged, only shifted by
    the number of items the loader has put in front; the stored history is unchanged. -/
theorem browse_keeps_entries (v : Validator) (ops : List Op) : ∀ s : St,
    (∀ op ∈ ops, op.isNav = true ∨ op = .loadOne ∨ op = .startLoad) →
    ∃ pre, (run v s ops).work = pre ++ s.work ∧ (run v s ops).storage = s.storage := by
  induction ops with
  | nil => intro s _; exact ⟨[], by simp [run], rfl⟩
  | cons op ops ih =>
    intro s h
    obtain ⟨pre2, h2, h2'⟩ := ih (step v s op).1 (fun o ho => h o (by simp [ho]))
    have h1 : ∃ pre1, (step v s op).1.work = pre1 ++ s.work ∧ (step v s op).1.storage = s.storage := by
      rcases h op (by simp) with hn | hl | hs
      · obtain ⟨a, _, c, _⟩ := nav_frame v s op hn
        exact ⟨[], by simp [a], c⟩
      · subst hl
        obtain ⟨_, _, _, _, _, a6, pre, _, a8, _⟩ := loadOne_spec s
        exact ⟨pre, a8, a6⟩
      · subst hs
        obtain ⟨a1, _, _, _, _, a6, _⟩ := startLoad_spec s
        exact ⟨[], by simp [step, a1], a6⟩
    obtain ⟨pre1, h1, h1'⟩ := h1
    refine ⟨pre2 ++ pre1, ?_, ?_⟩
    · show (run v (step v s op).1 ops).work = _
      rw [h2, h1, List.append_assoc]
    · show (run v (step v s op).1 ops).storage = _
      rw [h2', h1']

theorem edited_entry_survives (v : Validator) (ops : List Op) (s : St) (i : Nat) (t : Text)
    (h : ∀ op ∈ ops, op.isNav = true ∨ op = .loadOne ∨ op = .startLoad) (hi : s.work[i]? = some t) :
    ∃ n, (run v s ops).work[i + n]? = some t := by
  obtain ⟨pre, hp, _⟩ := browse_keeps_entries v ops s h
  refine ⟨pre.length, ?_⟩
  rw [hp, List.getElem?_append_right (by omega)]
  simpa using hi

/-- **prompt_cycle** — one whole prompt on a session: start (reset + load), any sequence of
    navigation / edits / loader steps / re-validation, then accept with a passing validator:
    the text on screen is returned, the stored history grows by exactly that text iff it is
    non-empty and differs from the newest stored entry, and the following prompt starts from
    `stored history ++ [default]` with the new line current. -/
theorem prompt_cycle (v : Validator) (s : St) (d d' : Text) (ops : List Op) (hs : Inv v s)
    (hops : ∀ op ∈ ops, op.appends = false ∧ op.ok) :
    let s1 := run v (promptStart s d) ops
    v s1.text = none →
    let r := validateAndHandle v s1 true
    r.2 = some s1.text ∧
    r.1.storage = (if s1.text ≠ [] ∧ s.storage.getLast? ≠ some s1.text then s.storage ++ [s1.text]
                   else s.storage) ∧
    (promptStart r.1 d').work = r.1.storage ++ [d'] ∧ (promptStart r.1 d').idx = r.1.storage.length ∧
    (promptStart r.1 d').text = d' := by
  intro s1 hv r
  obtain ⟨_, _, _, _, _, p6, p7, p8, p9⟩ := next_prompt_clean s d hs.2.2
  have hinv0 : Inv v (promptStart s d) := ⟨p9, vinv_unknown v _ p6, fun _ => p8.2⟩
  have hinv1 : Inv v s1 := inv_run v ops _ hinv0 (fun o ho => (hops o ho).2)
  have hl1 : Loaded s1 := loaded_run v ops _ p8
  have hst1 : s1.storage = s.storage := by
    rw [browse_preserves_storage v _ ops (fun o ho => (hops o ho).1), p7]
  obtain ⟨a1, _, _⟩ := accept_appends_once v s1 true hinv1.2.1 hv
  have a2 := accept_appends_once_loaded v s1 true hinv1.2.1 hv hl1.2
  rw [hst1] at a2
  have hr : HInv r.1 := by
    have := hinv_step v s1 (.accept true) hinv1.2.2
    simp only [step] at this
    cases hx : validateAndHandle v s1 true with
    | mk s' o => cases o <;> simp [hx] at this <;> simpa [r, hx] using this
  obtain ⟨q1, q2, q3, _⟩ := next_prompt_clean r.1 d' hr
  exact ⟨a1, a2, q1, q2, q3⟩

/-! ## 15. Non-vacuity: the hypotheses are satisfiable on non-trivial states, and the two
    places where the statement does NOT hold are exhibited on concrete witnesses -/

/-- validator used in the examples: rejects texts containing `x`, error position = len + 3 -/
def exV : Validator := fun t => if t.contains 'x' then some ((t.length : Int) + 3) else none

/-- a session: history [a, b, ab], prompt started, "a" typed (prefix search on) -/
def exS : St := run exV (promptStart (St.fresh ["a".toList, "b".toList, "ab".toList] true false) [])
  [.insert "a".toList]

example : exS.work = ["a".toList, "b".toList, "ab".toList, "a".toList] ∧ exS.idx = 3 ∧ exS.cur = 1 := by decide

-- back_forth: hypotheses hold with k = 2 (two entries start with "a" below the new line)
example : exS.idx < exS.work.length ∧ exS.cur ≤ exS.text.length ∧ availBack exS = 2 ∧
    historyMatches (setHistorySearch exS) exS.idx = true := by decide
example : (historyBackward exS 2).idx = 0 ∧ (historyBackward exS 2).text = "a".toList ∧
    (historyForward (historyBackward exS 2) 2).idx = 3 ∧
    (historyForward (historyBackward exS 2) 2).text = "a".toList := by decide
-- prefix_hits: one step up skips "b" and lands on "ab"
example : exS.ehs = true ∧ (historyBackward exS 1).idx = 2 ∧ (historyBackward exS 1).text = "ab".toList ∧
    (historyBackward exS 1).search = some "a".toList := by decide
-- edits are kept while browsing: edit the recalled "ab" into "abx", go down and up again
example : (run exV exS [.histBack 1, .insert "x".toList, .histFwd 1, .histBack 1]).text = "abx".toList ∧
    (run exV exS [.histBack 1, .insert "x".toList, .histFwd 1]).work =
      ["a".toList, "b".toList, "abx".toList, "a".toList] ∧
    (run exV exS [.histBack 1, .insert "x".toList, .histFwd 1, .histBack 1]).storage =
      ["a".toList, "b".toList, "ab".toList] := by decide
-- reject_no_change: accept on "abx" is refused, the cursor goes to min(len+3, len) = 3
example : let s := run exV exS [.histBack 1, .insert "x".toList, .home]
    exV s.text = some 6 ∧ s.vstate = .unknown ∧ s.cur = 0 ∧
    (validateAndHandle exV s true).2 = none ∧ (validateAndHandle exV s true).1.cur = 3 ∧
    (validateAndHandle exV s true).1.storage = s.storage := by decide
-- accept_appends_once: accepting the recalled "ab" (≠ newest? it IS the newest: nothing appended),
-- accepting "a" appends it once
example : (validateAndHandle exV (run exV exS [.histBack 1]) true).2 = some "ab".toList ∧
    (validateAndHandle exV (run exV exS [.histBack 1]) true).1.storage =
      ["a".toList, "b".toList, "ab".toList] := by decide
example : (validateAndHandle exV exS true).2 = some "a".toList ∧
    (validateAndHandle exV exS true).1.storage = ["a".toList, "b".toList, "ab".toList, "a".toList] := by decide
-- next prompt is clean
example : (promptStart (validateAndHandle exV exS true).1 []).work =
    ["a".toList, "b".toList, "ab".toList, "a".toList, []] ∧
    (promptStart (validateAndHandle exV exS true).1 []).idx = 4 := by decide
-- loader interleaved with navigation: the current entry never changes
example : let s0 := startLoad (reset (St.fresh ["a".toList, "b".toList] false false) "q".toList 1)
    (run exV s0 [.loadOne, .histBack 1, .loadOne, .histFwd 1]).text = "q".toList ∧
    (run exV s0 [.loadOne, .histBack 1, .loadOne]).text = "b".toList ∧
    (run exV s0 [.loadOne, .histBack 1, .loadOne]).idx = 1 := by decide

/-- **KNOWN FINDING (accept_dup_when_unloaded)** — `append_to_history` compares with
    `History.get_strings()`, which is empty until the first `load()`: accepting before the
    loader has run (`prompt(default='x', accept_default=True)`, or `validate_and_handle` on a
    buffer whose history was never loaded) stores a duplicate of the newest entry. -/
theorem accept_dup_when_unloaded :
    (promptAcceptDefault (fun _ => none) (St.fresh ["x".toList] false false) "x".toList).1.storage
      = ["x".toList, "x".toList] := by decide

/-- the unfiltered jumps (`go_to_history`, `end-of-history`; outside the property's up / down /
    page domain) can leave the buffer on an entry that the remembered filter rejects; from such
    a state back 1 / forward 1 does not return (history [ab]; Up, x, Up, Esc >, then Up, Down) -/
theorem back_forth_needs_filter_inv :
    let s := run (fun _ => none) (promptStart (St.fresh ["ab".toList] true false) [])
      [.histBack 1, .insert "x".toList, .histBack 1, .endHist]
    s.idx = 1 ∧ s.search = some "abx".toList ∧ s.text = [] ∧ availBack s = 1 ∧
    (historyForward (historyBackward s 1) 1).idx = 0 := by decide

/-! ## 16. The mirror image: forward k, back k -/

/-- entries available above the current one, under the filter the step will use -/
def availFwd (s : St) : Nat :=
  cnt (historyMatches (setHistorySearch s)) (s.idx + 1) (s.work.length - (s.idx + 1))

/-- **forth_back** — `history_forward(k)` followed by `history_backward(k)` with `1 ≤ k ≤`
    (matching entries available above) also returns to the same entry and text. -/
theorem forth_back (s : St) (k : Int) (hk : 1 ≤ k) (hav : k ≤ (availFwd s : Int))
    (hm : historyMatches (setHistorySearch s) s.idx = true) :
    (historyBackward (historyForward s k) k).idx = s.idx ∧
    (historyBackward (historyForward s k) k).work = s.work ∧
    (historyBackward (historyForward s k) k).text = s.text ∧
    s.idx < (historyForward s k).idx := by
  obtain ⟨d, hd, hlt, hmd, hcnt⟩ := fwdScan_kth' (historyMatches (setHistorySearch s))
    (s.work.length - (s.idx + 1)) (s.idx + 1) k none hk hav
  obtain ⟨n, hf⟩ : ∃ n, historyForward s k =
      (let s2 := setCursorPos (navTo (setHistorySearch s) (s.idx + 1 + d) n) 0
       setCursorPos s2 ((s2.cur : Int) + (lineAfter s2.text s2.cur).length)) :=
    ⟨_, by rw [historyForward_eq, hd]⟩
  have hst := setHistorySearch_stable s
  have hfix : setHistorySearch (historyForward s k) = historyForward s k := by
    apply setHistorySearch_fixed
    rw [hf]
    simpa using hst
  have hmm : historyMatches (historyForward s k) = historyMatches (setHistorySearch s) := by
    funext i
    apply historyMatches_congr <;> rw [hf] <;> simp
  have hidx : (historyForward s k).idx = s.idx + 1 + d := by rw [hf]; simp
  have hwork : (historyForward s k).work = s.work := by rw [hf]; simp
  have hb := bwdScan_kth' (historyMatches (setHistorySearch s)) d s.idx k none hcnt hm
  have hbw := historyBackward_eq (historyForward s k) k
  rw [hfix, hmm, hidx, hb] at hbw
  have hI : (historyBackward (historyForward s k) k).idx = s.idx := by rw [hbw]; simp
  have hW : (historyBackward (historyForward s k) k).work = s.work := by rw [hbw]; simp [hwork]
  refine ⟨hI, hW, ?_, by omega⟩
  simp [St.text, hI, hW]

example : let s := run exV exS [.histBack 2]
    s.idx = 0 ∧ availFwd s = 2 ∧ historyMatches (setHistorySearch s) s.idx = true ∧
    (historyForward s 2).idx = 3 ∧ (historyBackward (historyForward s 2) 2).idx = 0 := by decide

/-! ## 17. Key level (emacs bindings; single-line and multiline prompt) -/

/-- the keys that run `validate_and_handle`: Enter in a single-line prompt, Esc Enter and
    c-o (operate-and-get-next) always -/
def keyAccepts (s : St) : Key → Bool
  | .enter => !s.ml
  | .escEnter => true
  | .ctrlO => true
  | _ => false

theorem yankOp_cases (env : Env) (s : St) (n : Option Int) (last : Bool) :
    (∃ p k w, yankOp env s n last = .yankApply p k w) ∨ yankOp env s n last = .setEhs s.ehs := by
  simp only [yankOp]
  cases yankLookup env.words s n last with
  | none => right; rfl
  | some r => left; exact ⟨r.1, r.2.1, r.2.2, rfl⟩

theorem keyOp_appends (env : Env) (s : St) (k : Key) :
    (keyOp env s k).appends = keyAccepts s k := by
  cases k
  case enter => cases h : s.ml <;> simp [keyOp, Op.appends, keyAccepts, h]
  case beginHist => cases h : env.fixG <;> simp [keyOp, Op.appends, keyAccepts, h]
  case endHist => cases h : env.fixG <;> simp [keyOp, Op.appends, keyAccepts, h]
  case yankNth a =>
    simp only [keyOp, keyAccepts]
    rcases yankOp_cases env s a false with ⟨p, k, w, e⟩ | e <;> rw [e] <;> rfl
  case yankLast a =>
    simp only [keyOp, keyAccepts]
    rcases yankOp_cases env s a true with ⟨p, k, w, e⟩ | e <;> rw [e] <;> rfl
  all_goals simp [keyOp, Op.appends, keyAccepts]

theorem keyOp_ok (env : Env) (s : St) (k : Key) : (keyOp env s k).ok := by
  cases k
  case enter => cases h : s.ml <;> simp [keyOp, Op.ok, h]
  case beginHist => cases h : env.fixG <;> simp [keyOp, Op.ok, h]
  case endHist => cases h : env.fixG <;> simp [keyOp, Op.ok, h]
  case yankNth a =>
    simp only [keyOp]
    rcases yankOp_cases env s a false with ⟨p, k, w, e⟩ | e <;> rw [e] <;> trivial
  case yankLast a =>
    simp only [keyOp]
    rcases yankOp_cases env s a true with ⟨p, k, w, e⟩ | e <;> rw [e] <;> trivial
  all_goals simp [keyOp, Op.ok]

/-- what follows the handler of a key, as operations -/
def afterOps : Out → List Op
  | .accepted _ => [.asyncValidate, .appExit]
  | _ => [.asyncValidate]

theorem afterKey_eq_run (v : Validator) (s : St) (o : Out) : afterKey v s o = run v s (afterOps o) := by
  cases o <;> simp [afterKey, afterOps, run, step]

theorem afterOps_ok (o : Out) : ∀ op ∈ afterOps o, op.ok := by
  intro op ho
  cases o <;> simp [afterOps] at ho <;> (try rcases ho with rfl | rfl) <;> (try subst ho) <;> trivial

/-- one key press (with the event-loop turn that follows it, and the end of the application when
    the key accepted the input) as operations -/
theorem keyStep_eq_run (v : Validator) (env : Env) (s : St) (k : Key) :
    (keyStep v env s k).1 = run v s (keyOp env s k :: afterOps (step v s (keyOp env s k)).2) := by
  simp only [keyStep, afterKey_eq_run]
  rfl

/-- **keys_preserve_history** — no key other than an accepting one (Enter in a single-line prompt,
    Esc Enter) writes to the history — in particular Enter in a multiline prompt stores nothing —
    and an accepting key appends at most the text on screen. -/
theorem key_storage (v : Validator) (env : Env) (s : St) (k : Key) :
    ∃ suf, (suf = [] ∨ suf = [s.text]) ∧ (keyStep v env s k).1.storage = s.storage ++ suf ∧
      (keyAccepts s k = false → suf = []) := by
  obtain ⟨suf, h1, h2, h3⟩ := step_storage v s (keyOp env s k)
  refine ⟨suf, h1, ?_, ?_⟩
  · simp only [keyStep]
    rw [(afterKey_valOnly v _ _).fields.2.2.2.2.2.1, h2]
  · intro hk
    apply h3
    rw [keyOp_appends, hk]

/-- **multiline_enter_is_an_edit** — in a multiline prompt Enter inserts a line break (plus the
    copied margin) into the current working copy only and never accepts. -/
theorem multiline_enter (v : Validator) (env : Env) (s : St) (hm : s.ml = true) :
    (keyStep v env s .enter).2 = .none ∧ (keyStep v env s .enter).1.storage = s.storage ∧
    (keyStep v env s .enter).1.idx = s.idx ∧
    (∀ j, j ≠ s.idx → (keyStep v env s .enter).1.work[j]? = s.work[j]?) ∧
    (WF s → (keyStep v env s .enter).1.text =
      s.text.take s.cur ++ ('\n' :: leadingWs env.isSp s.text s.cur) ++ s.text.drop s.cur) := by
  have hop : keyOp env s .enter = .insert (newlineData env.isSp s true) := by simp [keyOp, hm]
  obtain ⟨e1, _, e3, _, e5⟩ := edit_only_at_idx v s (.insert (newlineData env.isSp s true)) rfl
  have hv := afterKey_valOnly v (step v s (.insert (newlineData env.isSp s true))).1
    (step v s (.insert (newlineData env.isSp s true))).2
  refine ⟨by simp [keyStep, hop, step], ?_, ?_, ?_, ?_⟩
  · simp only [keyStep, hop]; rw [hv.fields.2.2.2.2.2.1]; exact e1
  · simp only [keyStep, hop]; rw [hv.fields.2.1]; exact e3
  · intro j hj; simp only [keyStep, hop]; rw [hv.fields.1]; exact e5 j hj
  · intro hwf
    simp only [keyStep, hop]; rw [hv.text]
    simp only [step, insertText]
    rw [(setDocument_wf s _ _ hwf (by simp; have := hwf.2; omega)).2.1]
    simp [newlineData]

/-- the invariants hold after every key -/
theorem inv_keyStep (v : Validator) (env : Env) (s : St) (k : Key) (h : Inv v s) :
    Inv v (keyStep v env s k).1 := by
  rw [keyStep_eq_run]
  refine inv_run v _ s h ?_
  intro op ho
  rcases List.mem_cons.mp ho with rfl | ho
  · exact keyOp_ok env s k
  · exact afterOps_ok _ op ho

/-! ## 18. The vi bindings are the same operations plus a cursor fix -/

/-- the buffer operation behind a vi key in the given mode (`none`: only the mode changes) -/
def viKeyOp (env : Env) (vs : ViSt) : ViKey → Option Op
  | .char c => some (.insert [c])
  | .backspace => some (.delBefore 1)
  | .escape => if vs.nav then none else some .left
  | .insertI => none
  | .appendA => some .right
  | .k a => some (.autoUp a true)
  | .j a => some (.autoDown a true)
  | .up a => some (.autoUp a false)
  | .down a => some (.autoDown a false)
  | .gotoG n => some (if env.fixG then .goToFixed (n - 1) else .goTo (n - 1))
  | .enter => if vs.st.ml && !vs.nav then some (.insert (newlineData env.isSp vs.st true)) else some (.accept true)
  | .valDone => some .vFinish

theorem viHandler_st (v : Validator) (env : Env) (vs : ViSt) (k : ViKey) :
    (viHandler v env vs k).1 = match viKeyOp env vs k with
      | none => vs.st
      | some op => (step v vs.st op).1 := by
  cases k
  case escape => simp only [viHandler, viKeyOp]; split <;> rfl
  case gotoG n => simp only [viHandler, viKeyOp]; split <;> rfl
  case enter => simp only [viHandler, viKeyOp]; split <;> rfl
  all_goals simp [viHandler, viKeyOp, step]

theorem viFix_frame (s : St) : Frame s (viFix s) ∧ (viFix s).idx = s.idx ∧ (viFix s).text = s.text ∧
    (viFix s).search = s.search ∧ (viFix s).vstate = s.vstate := by
  simp only [viFix]
  split
  · have := setCursorPos_frame s ((s.cur : Int) - 1)
    refine ⟨?_, by simp, by simp [St.text], by simp, by simp⟩
    simpa [Frame] using this
  · exact ⟨Frame.refl s, rfl, rfl, rfl, rfl⟩

theorem viFix_wf (s : St) (h : WF s) : WF (viFix s) := by
  simp only [viFix]
  split
  · have := setCursorPos_wf s ((s.cur : Int) - 1) h.1
    exact ⟨this.1, this.2⟩
  · exact h

theorem viKeyOp_ok (env : Env) (vs : ViSt) (k : ViKey) : ∀ op, viKeyOp env vs k = some op → op.ok := by
  intro op h
  cases k
  case escape => simp only [viKeyOp] at h; split at h <;> cases h; trivial
  case gotoG n => simp only [viKeyOp] at h; cases h; split <;> trivial
  case enter => simp only [viKeyOp] at h; split at h <;> (cases h; trivial)
  all_goals (simp only [viKeyOp] at h; cases h; first | trivial | skip)

/-- the vi keys that run `validate_and_handle`: Enter, except in insert mode of a multiline prompt -/
def viKeyAccepts (vs : ViSt) : ViKey → Bool
  | .enter => !(vs.st.ml && !vs.nav)
  | _ => false

theorem viKeyOp_appends (env : Env) (vs : ViSt) (k : ViKey) : ∀ op, viKeyOp env vs k = some op →
    op.appends = true → viKeyAccepts vs k = true := by
  intro op h ha
  cases k
  case escape => simp only [viKeyOp] at h; split at h <;> cases h; simp [Op.appends] at ha
  case gotoG n => simp only [viKeyOp] at h; cases h; split at ha <;> simp [Op.appends] at ha
  case enter =>
    simp only [viKeyOp] at h
    simp only [viKeyAccepts]
    split at h
    · cases h; simp [Op.appends] at ha
    · next hc =>
      cases hm : vs.st.ml <;> cases hn : vs.nav <;> simp [hm, hn] at hc ⊢
  all_goals (simp only [viKeyOp] at h; cases h; first | (simp [Op.appends] at ha) | skip)

/-- **vi_keys_invariants** — every vi key keeps well-formedness, the genuineness of the cached
    verdict and `get_strings() = stored`. -/
theorem inv_viKeyStep (v : Validator) (env : Env) (vs : ViSt) (k : ViKey) (h : Inv v vs.st) :
    Inv v (viKeyStep v env vs k).1.st := by
  have h1 : Inv v (viHandler v env vs k).1 := by
    rw [viHandler_st]
    cases ho : viKeyOp env vs k with
    | none => exact h
    | some op => exact inv_step v vs.st op h (viKeyOp_ok env vs k op ho)
  have h2 : Inv v (if (viHandler v env vs k).2.1 then viFix (viHandler v env vs k).1
      else (viHandler v env vs k).1) := by
    split
    · obtain ⟨f1, f2, f3, f4, f5⟩ := viFix_frame (viHandler v env vs k).1
      exact ⟨viFix_wf _ h1.1, vinv_same v _ _ f5 f3 h1.2.1,
        fun hl => by rw [f1.2.1, f1.2.2.1]; exact h1.2.2 (f1.2.2.2.1 ▸ hl)⟩
    · exact h1
  have := inv_run v (afterOps (viHandler v env vs k).2.2) _ h2 (afterOps_ok _)
  rw [← afterKey_eq_run] at this
  simpa [viKeyStep] using this

/-- **vi_keys_preserve_history** — no vi key other than an accepting Enter writes to the history
    (Enter in insert mode of a multiline prompt stores nothing); Enter appends at most the text
    on screen. -/
theorem viKey_storage (v : Validator) (env : Env) (vs : ViSt) (k : ViKey) :
    ∃ suf, (suf = [] ∨ suf = [vs.st.text]) ∧ (viKeyStep v env vs k).1.st.storage = vs.st.storage ++ suf ∧
      (viKeyAccepts vs k = false → suf = []) := by
  have hs : (viKeyStep v env vs k).1.st.storage = (viHandler v env vs k).1.storage := by
    simp only [viKeyStep]
    rw [(afterKey_valOnly v _ _).fields.2.2.2.2.2.1]
    split
    · exact (viFix_frame _).1.2.2.1
    · rfl
  rw [hs, viHandler_st]
  cases ho : viKeyOp env vs k with
  | none => exact ⟨[], by simp, by simp, by simp⟩
  | some op =>
    obtain ⟨suf, a1, a2, a3⟩ := step_storage v vs.st op
    refine ⟨suf, a1, a2, ?_⟩
    intro hk
    apply a3
    cases hb : op.appends
    · rfl
    · have := viKeyOp_appends env vs k op ho hb
      rw [hk] at this; cases this

/-- a navigation key in vi mode changes no working copy -/
theorem viKey_nav_work (v : Validator) (env : Env) (vs : ViSt) (k : ViKey)
    (hk : ∀ op, viKeyOp env vs k = some op → op.isNav = true) :
    (viKeyStep v env vs k).1.st.work = vs.st.work := by
  have hs : (viKeyStep v env vs k).1.st.work = (viHandler v env vs k).1.work := by
    simp only [viKeyStep]
    rw [(afterKey_valOnly v _ _).fields.1]
    split
    · exact (viFix_frame _).1.1
    · rfl
  rw [hs, viHandler_st]
  cases ho : viKeyOp env vs k with
  | none => rfl
  | some op => exact (nav_frame v vs.st op (hk op ho)).1

/-- the environment used in the examples: space is the only whitespace, words are the maximal
    runs without a space or quoted strings -/
def exSp : Env := { isSp := fun c => c == ' ', words := quotedWords (fun c => c == ' ') (fun c => c == ' ') }

-- vi session: history [one, two], Esc, k, k lands on "one" with the cursor on its first character
example : let vs0 : ViSt := viPromptStart { st := St.fresh ["one".toList, "two".toList] false false, nav := false } []
    let vs := (viKeyStep exV exSp (viKeyStep exV exSp (viKeyStep exV exSp vs0 .escape).1 (.k 1)).1 (.k 1)).1
    vs.nav = true ∧ vs.st.idx = 0 ∧ vs.st.text = "one".toList ∧ vs.st.cur = 0 ∧
    vs.st.storage = ["one".toList, "two".toList] := by decide

-- multiline prompt: "  a" Enter copies the margin; Esc Enter accepts the two-line text
example :
    let s0 := promptStart (St.fresh ["one".toList] false false false true) []
    let s1 := (keyStep exV exSp (keyStep exV exSp (keyStep exV exSp (keyStep exV exSp s0 (.char ' ')).1
      (.char ' ')).1 (.char 'a')).1 .enter).1
    s1.text = "  a\n  ".toList ∧ s1.storage = ["one".toList] ∧
    (keyStep exV exSp s1 .escEnter).2 = .accepted "  a\n  ".toList ∧
    (keyStep exV exSp s1 .escEnter).1.storage = ["one".toList, "  a\n  ".toList] := by decide

/-! ## 19. The main theorems instantiated on the concrete session `exS` (their hypotheses are
    dischargeable, so none of them is vacuous) -/

theorem exS_wf : WF exS := by unfold WF; decide
theorem exS_inv : Inv exV exS := by
  have h0 : Inv exV (promptStart (St.fresh ["a".toList, "b".toList, "ab".toList] true false) []) := by
    obtain ⟨_, _, _, _, _, p6, _, p8, p9⟩ :=
      next_prompt_clean (St.fresh ["a".toList, "b".toList, "ab".toList] true false) [] (fresh_hinv _ _ _)
    exact ⟨p9, vinv_unknown _ _ p6, fun _ => p8.2⟩
  exact inv_run exV _ _ h0 (by intro op ho; simp at ho; subst ho; trivial)

example : (historyForward (historyBackward exS 2) 2).idx = exS.idx ∧
    (historyForward (historyBackward exS 2) 2).text = exS.text :=
  let h := back_forth exS 2 exS_wf (by decide) (by decide) (by decide)
  ⟨h.1, h.2.2.1⟩

example : (historyBackward exS 1).search = some "a".toList ∧ "a".toList <+: (historyBackward exS 1).text :=
  prefix_hits_back exS 1 (by decide) (by decide)

example : (step exV exS (.histBack 1)).1.storage = exS.storage :=
  (nav_preserves_hist exV exS (.histBack 1) rfl).2.1

example : (step exV exS (.insert "zz".toList)).1.work[1]? = exS.work[1]? :=
  (edit_only_at_idx exV exS (.insert "zz".toList) rfl).2.2.2.2 1 (by decide)

example : SearchInv (run exV exS [.histBack 1, .histBack 1, .histFwd 3, .insert "q".toList, .autoUp 1 false]) :=
  searchInv_run exV _ exS exS_wf (searchInv_none exS (by decide))
    (by intro op ho; simp at ho; rcases ho with rfl | rfl | rfl | rfl | rfl <;> exact ⟨trivial, rfl⟩)

/-- rejected accept on the recalled and edited entry "abx" -/
example : let s := run exV exS [.histBack 1, .insert "x".toList, .home]
    (validateAndHandle exV s true).2 = none ∧ (validateAndHandle exV s true).1.work = s.work ∧
    (validateAndHandle exV s true).1.storage = s.storage ∧ (validateAndHandle exV s true).1.cur = 3 := by
  intro s
  have h := reject_no_change exV s true 6 (by decide) (by decide)
  exact ⟨h.1, h.2.1, h.2.2.2.2.2.1, by rw [h.2.2.2.2.2.2.2.2.1]; decide⟩

example : (validateAndHandle exV exS true).2 = some exS.text ∧
    (validateAndHandle exV exS true).1.storage = exS.storage ++ ["a".toList] := by
  have h := accept_appends_once exV exS true exS_inv.2.1 (by decide)
  refine ⟨h.1, ?_⟩
  rw [h.2.2]; decide

example : let r := validateAndHandle exV (run exV (promptStart exS "a".toList) [.histBack 1, .histFwd 1]) true
    (promptStart r.1 []).work = r.1.storage ++ [[]] :=
  (prompt_cycle exV exS "a".toList [] [.histBack 1, .histFwd 1] exS_inv
    (by intro op ho; simp at ho; rcases ho with rfl | rfl <;> exact ⟨rfl, trivial⟩) (by decide)).2.2.1

example : ∃ n, (run exV exS [.histBack 1, .loadOne, .histFwd 1]).work[2 + n]? = some "ab".toList :=
  edited_entry_survives exV [.histBack 1, .loadOne, .histFwd 1] exS 2 "ab".toList
    (by intro op ho; simp at ho; rcases ho with rfl | rfl | rfl <;> simp [Op.isNav]) (by decide)

-- `auto_up` with a negative count goes down, with zero it does nothing (the fix 4885d55)
example : autoUp (run exV exS [.histBack 2]) (-2) false = autoDownPos (run exV exS [.histBack 2]) 2 false ∧
    ((autoUp (run exV exS [.histBack 2]) (-2) false).map (·.idx)) = some 3 ∧
    autoUp exS 0 true = some exS := by decide

end Ptk.C14
