/-
  C20 — the alternate screen (`Ptk.Model.C20Alt`): every text write of a section happens on the NORMAL screen, for
  full-screen and ordinary applications alike, so the normal screen holds the text exactly once after the
  application has gone.  With `erase(leave_alternate_screen=False)` in `in_terminal` (seeded C20-l) the text of a
  full-screen application is written into the alternate screen and is gone with it (witness).
-/
import Ptk.Model.C20Alt
namespace Ptk.C20Alt
open Ptk.Py

theorem normalText_append (a b : List Ev) : normalText (a ++ b) = normalText a ++ normalText b := by
  induction a with
  | nil => rfl
  | cons e es ih =>
    cases e with
    | out o t => cases o <;> simp [normalText, ih]
    | _ => simp [normalText, ih]

structure AInv (s : St) (w : Text) : Prop where
  code : s.eraseLeaves = true
  alt : s.alt = (s.appOn && s.fullScreen)
  normal : ∀ o t, Ev.out o t ∈ s.log → o = false
  text : normalText s.log = w

theorem ainv_step (s : St) (o : Op) (w : Text) (h : AInv s w) : AInv (step s o) (w ++ sectionTexts [o]) := by
  obtain ⟨hc, ha, hn, ht⟩ := h
  have hn' : ∀ t, Ev.out true t ∉ s.log := fun t hm => by have := hn true t hm; cases this
  cases hfs : s.fullScreen <;> cases hon : s.appOn <;> (simp only [hfs, hon, Bool.and_false, Bool.and_true,
    Bool.false_and, Bool.true_and] at ha) <;> cases o <;>
  (refine ⟨?_, ?_, ?_, ?_⟩ <;>
    simp [step, render, reset, erase, hfs, hon, ha, hc, sectionTexts, normalText_append, normalText, ht]) <;>
  (try exact hn') <;> (try (intro o' t' hm; cases o' <;> simp_all))

theorem ainv_run (s : St) (ops : List Op) (w : Text) (h : AInv s w) : AInv (runOps s ops) (w ++ sectionTexts ops) := by
  induction ops generalizing s w with
  | nil => simpa [runOps, sectionTexts] using h
  | cons o os ih =>
    have := ih (step s o) (w ++ sectionTexts [o]) (ainv_step s o w h)
    have e : w ++ sectionTexts [o] ++ sectionTexts os = w ++ sectionTexts (o :: os) := by
      cases o <;> simp [sectionTexts]
    rw [e] at this
    exact this

/-- **section_on_normal_screen.**  For both kinds of application and every schedule of starts, stops, redraws,
    resizes and sections: at every text write the terminal is in the normal screen. -/
theorem section_on_normal_screen (fs : Bool) (ops : List Op) (o : Bool) (t : Text)
    (hm : Ev.out o t ∈ (runOps { fullScreen := fs } ops).log) : o = false :=
  (ainv_run { fullScreen := fs } ops [] ⟨rfl, by simp, by simp, rfl⟩).normal o t hm

/-- **normal_screen_has_text_once.**  ... and the text on the normal screen is exactly the text of all sections, in
    order, each once; the alternate screen is entered exactly while a full-screen application is drawn. -/
theorem normal_screen_has_text_once (fs : Bool) (ops : List Op) :
    normalText (runOps { fullScreen := fs } ops).log = sectionTexts ops ∧
    (runOps { fullScreen := fs } ops).alt = ((runOps { fullScreen := fs } ops).appOn && fs) := by
  have h := ainv_run { fullScreen := fs } ops [] ⟨rfl, by simp, by simp, rfl⟩
  have hfs : (runOps { fullScreen := fs } ops).fullScreen = fs := by
    generalize hs : ({ fullScreen := fs } : St) = s0
    have : s0.fullScreen = fs := by rw [← hs]
    clear hs h
    induction ops generalizing s0 with
    | nil => exact this
    | cons o os ih =>
      apply ih
      cases o <;> simp only [step, render, reset, erase] <;> (repeat' split) <;> simp_all
  exact ⟨by simpa using h.text, by rw [h.alt, hfs]⟩

example :
    (runOps { fullScreen := true } [.start, .section ['a'], .resize, .inval, .section ['b'], .stop, .section ['c']]).log
      = [.draw, .enterAlt, .erase, .quitAlt, .out false ['a'], .draw, .enterAlt, .erase, .draw, .draw,
         .erase, .quitAlt, .out false ['b'], .draw, .enterAlt, .doneDraw, .quitAlt, .out false ['c']] := by decide

/-- **erase_stays_in_alternate_screen_witness.**  Full-screen application, one section.  The code writes the text on
    the normal screen; with `leave_alternate_screen=False` in the section's erase it is written inside the alternate
    screen (same erase / text / redraw order) and the normal screen never gets it. -/
theorem erase_stays_in_alternate_screen_witness :
    normalText (runOps { fullScreen := true } [.start, .section ['a'], .stop]).log = ['a'] ∧
    (runOps { fullScreen := true, eraseLeaves := false } [.start, .section ['a'], .stop]).log
      = [.draw, .enterAlt, .erase, .out true ['a'], .quitAlt, .draw, .enterAlt, .doneDraw, .quitAlt] ∧
    normalText (runOps { fullScreen := true, eraseLeaves := false } [.start, .section ['a'], .stop]).log = [] ∧
    normalText (runOps { fullScreen := false, eraseLeaves := false } [.start, .section ['a'], .stop]).log = ['a'] := by
  decide

end Ptk.C20Alt
